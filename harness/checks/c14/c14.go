// Package c14: put/filter programs mean what the language reference says
// (see /verif/DESIGN.md §3 C14). Three layers: an explicit-state search over
// the real runtime.Stack against a naive stack; grammar-bounded exhaustive
// program families run through the real parser/CST in-process and compared
// with an independent reference interpreter written from docs/src/reference-dsl-*.md;
// laws on the real code (emit-by-names vs the grouping verb).
package c14

import (
	"fmt"
	"os"
	"regexp"
	"runtime/debug"
	"sort"
	"strings"

	"verif/harness/vf"
)

func init() {
	vf.Register(&vf.CheckDef{ID: "C14", Level: "model_checking", Run: run,
		Workers: map[string]vf.WorkerFunc{"stack": stackWorker, "prog": progWorker, "prec": precWorker, "law": lawWorker}})
}

type progArgs struct {
	Family string
	Level  int
	Size   int
	Depth  int
	Risky  bool // only the crash-prone shapes, one program per shard
}

const mineBlock = 1

// progWorker enumerates one family; cases are sharded in blocks of mineBlock programs.
func progWorker(w *vf.Worker) {
	var a progArgs
	_ = jsonUnmarshal(w.Args, &a)
	cr := newCaseRunner(w)
	defer cr.flush()
	debug.SetMaxStack(48 << 20) // a runaway recursion in the interpreter must die quickly
	var n uint64
	mine := false
	only := os.Getenv("VERIF_C14_ONLY") // debug: substring of the program text
	emit := func(build func() *progCase) {
		if n%mineBlock == 0 {
			idx := n/mineBlock + 1
			mine = w.Mine(idx)
			if mine {
				w.Begin(idx)
			}
		}
		n++
		if !mine {
			return
		}
		pc := build()
		if only != "" && !strings.Contains(unparse(pc.top, nil), only) {
			return
		}
		w.Label(func() string { return pc.family + ": " + unparse(pc.top, nil) })
		cr.run(pc)
	}
	switch a.Family {
	case "scope":
		genScopeFamily(a, emit)
	case "coll", "coll-risky":
		genCollFamily(a, emit)
	case "fields":
		genFieldsFamily(a, emit)
	case "copy":
		genCopyFamily(a, emit)
	case "func":
		genFuncFamily(a, emit)
	case "recur":
		genRecurFamily(a, emit)
	case "hof":
		genHofFamily(a, emit)
	case "loopvar":
		genLoopVarFamily(a, emit)
	case "alias":
		genAliasFamily(a, emit)
	case "ctrl":
		genCtrlFamily(a, emit)
	case "blocks":
		genBlocksFamily(a, emit)
	case "filter":
		genFilterFamily(a, emit)
	case "chain":
		genChainFamily(a, emit)
	case "emit":
		genEmitFamily(a, emit)
	}
	w.Count("family:"+a.Family+":enumerated", int64(n)/int64(1)) // every shard enumerates everything; divided by shards in run()
}

func genScopeFamily(a progArgs, emit func(func() *progCase)) {
	g := scopeGen(a.Level)
	obs := []expr{loc("x"), loc("y")}
	for n := 0; n <= a.Size; n++ {
		g.seqs(n, a.Depth, false, nil, func(b []stmt) {
			emit(func() *progCase {
				top := numberProgram(b, obs, true)
				return &progCase{family: "scope", size: n, top: top, opts: runOpts{q: true}}
			})
		})
	}
}

type famSpec struct {
	args   progArgs
	worker string
	shards int
}

func familySpecs(quick bool) []famSpec {
	if e := os.Getenv("VERIF_C14_EXPERIMENT"); e != "" { // "family,level,size,depth": sizing experiments
		var f progArgs
		fmt.Sscanf(strings.ReplaceAll(e, ",", " "), "%s %d %d %d", &f.Family, &f.Level, &f.Size, &f.Depth)
		return []famSpec{{f, "prog", 64}}
	}
	if quick {
		return []famSpec{
			{progArgs{Family: "scope", Level: 2, Size: 3, Depth: 3}, "prog", 64},
			{progArgs{Family: "coll", Level: 1, Size: 1}, "prog", 64},
			{progArgs{Family: "coll-risky", Level: 0, Size: 1, Risky: true}, "prog", 64},
			{progArgs{Family: "fields", Level: 0, Size: 3}, "prog", 64},
			{progArgs{Family: "copy", Level: 1}, "prog", 32},
			{progArgs{Family: "func", Level: 1, Size: 2}, "prog", 64},
			{progArgs{Family: "recur", Level: 1}, "prog", 32},
			{progArgs{Family: "hof", Level: 1}, "prog", 32},
			{progArgs{Family: "loopvar", Level: 0}, "prog", 32},
			{progArgs{Family: "alias", Level: 0}, "prog", 32},
			{progArgs{Family: "ctrl", Level: 0}, "prog", 32},
			{progArgs{Family: "blocks", Level: 0, Size: 3}, "prog", 64},
			{progArgs{Family: "filter", Level: 0, Size: 3}, "prog", 32},
			{progArgs{Family: "chain", Level: 0}, "prog", 32},
			{progArgs{Family: "emit", Level: 1}, "prog", 32},
			{progArgs{Family: "law", Size: 2}, "law", 32},
			{progArgs{Family: "prec", Size: 2}, "prec", 64},
		}
	}
	return []famSpec{
		{progArgs{Family: "scope", Level: 1, Size: 4, Depth: 3}, "prog", 128},
		{progArgs{Family: "scope", Level: 2, Size: 3, Depth: 3}, "prog", 64},
		{progArgs{Family: "coll", Level: 1, Size: 2}, "prog", 128},
		{progArgs{Family: "coll-risky", Level: 1, Size: 1, Risky: true}, "prog", 512},
		{progArgs{Family: "fields", Level: 1, Size: 3}, "prog", 64},
		{progArgs{Family: "copy", Level: 1}, "prog", 32},
		{progArgs{Family: "func", Level: 1, Size: 3}, "prog", 128},
		{progArgs{Family: "recur", Level: 1}, "prog", 32},
		{progArgs{Family: "hof", Level: 1}, "prog", 32},
		{progArgs{Family: "loopvar", Level: 1}, "prog", 32},
		{progArgs{Family: "alias", Level: 1}, "prog", 32},
		{progArgs{Family: "ctrl", Level: 1}, "prog", 64},
		{progArgs{Family: "blocks", Level: 1, Size: 3}, "prog", 64},
		{progArgs{Family: "filter", Level: 1, Size: 3}, "prog", 64},
		{progArgs{Family: "chain", Level: 1}, "prog", 32},
		{progArgs{Family: "emit", Level: 1}, "prog", 32},
		{progArgs{Family: "law", Size: 3}, "law", 64},
		{progArgs{Family: "prec", Size: 3, Level: 1}, "prec", 128},
	}
}

func run(c *vf.Ctx) {
	c.Rule = "three layers. (1) runtime.Stack: every well-nested sequence of stack operations up to the depth bound over a fixed menu, replayed (by deep clone) on the real pooled Stack and on a naive unpooled stack; every sequence is one case, non-trivial when its last operation was executed and observed. (2) programs: per family every program of the family's grammar up to its size bound (statement count / nesting depth / index alphabet), canonical order smallest first; a program counts as non-trivial when the reference interpreter determines its outcome (output items or a documented fatal error) and it was run on the real parser+CST and compared. (3) laws on the real code: emit-by-names vs stats1 for every record stream up to the length bound, precedence: every operator tree up to the operator-count bound printed with minimal and with full parentheses"
	c.Assume("covered sub-language only: ints, strings, booleans, maps, arrays, absent; operators + - * . < <= > >= == != <=> && || ! ?: ?? min (arithmetic is C07/C08); no floats, regex captures, string/time functions, ENV, M_PI, system/exec, case statements, tee/redirected output (C20), eprint/edump, printn, positional-name unset, emit to redirects")
	c.Assume("unset of a local clears its value to absent and keeps the binding (scope and declared type); whether an outer same-named local shows through afterwards is not asserted")
	c.Assume("not asserted because the reference text does not determine them (counted per reason under counters 'unconstrained:*'): array index 0 and negative indices beyond the length, indexing or slicing scalars, string indices on arrays, auto-create of an array element through an integer index, negative positional field indices, declarations of a loop-bound name at the top of that loop's body, comparisons/arithmetic on mixed or absent operands, emit of a map literal or $*, emit by >= 2 names that stop short of the leaves, lashed emits of unequal shapes, emit @* of unequal depths, bare return in a function, NR in begin blocks")
	c.Assume("precedence family: the dot operators .+ .- .* ./ are not in the documented precedence table and are not generated; a unary operator as the right operand of ** is always parenthesised")
	c.Assume("programs the reference interpreter finds non-terminating within 20000 steps are not run; if the real interpreter failed to terminate on a program the reference terminates on, the pool would report a hang")
	c.Assume("array growth through a non-final index (x[n+1][j] = v) is enumerated in a separate one-program-per-shard family with a reduced alphabet, because each such program currently kills the worker process")
	only := os.Getenv("VERIF_C14_FAMILY")
	hf := fmt.Sprintf("/dev/shm/verif-c14-hangs-%d", os.Getpid())
	os.Remove(hf)
	defer os.Remove(hf)
	type sa struct{ Level, Depth int }
	if os.Getenv("VERIF_C14_SKIP_STACK") == "" && (only == "" || only == "stack") {
		if c.Quick() {
			c.RunPool(vf.PoolSpec{Worker: "stack", Shards: 64, Args: sa{0, 7}, CrashKey: stackCrashKey})
			c.RunPool(vf.PoolSpec{Worker: "stack", Shards: 64, Args: sa{1, 7}, CrashKey: stackCrashKey})
			c.Extra["stack_search"] = "menu of 10 operations to depth 7, menu of 14 operations to depth 7"
		} else {
			c.RunPool(vf.PoolSpec{Worker: "stack", Shards: 128, Args: sa{0, 9}, CrashKey: stackCrashKey})
			c.RunPool(vf.PoolSpec{Worker: "stack", Shards: 128, Args: sa{2, 7}, CrashKey: stackCrashKey})
			c.Extra["stack_search"] = "menu of 10 operations to depth 9, menu of 18 operations to depth 7"
		}
	}
	outcomes := map[string]int{}
	shardsOf := map[string]int{}
	for _, f := range familySpecs(c.Quick()) {
		if only != "" && only != f.args.Family {
			continue
		}
		spec := vf.PoolSpec{Worker: f.worker, Shards: f.shards, Args: f.args}
		if f.worker == "prog" {
			spec.CrashKey = crashKey
		}
		res := c.RunPool(spec)
		for name, set := range res.Sets {
			if name == "prec-operator-pairs-whose-association-is-observable" {
				c.Extra["prec_operator_pairs_whose_association_is_observable"] = fmt.Sprintf("%d of %d ordered pairs of binary operators", len(set), len(precBinOps)*len(precBinOps))
				continue
			}
			outcomes[name] += len(set)
		}
		shardsOf[f.args.Family] += f.shards
	}
	c.Extra["distinct_outputs_per_family"] = outcomes
	summarise(c, shardsOf)
}

var bnfTypeRe = regexp.MustCompile(`"type":\s*"([A-Za-z_]+)"`)

// summarise turns the merged counters into the evidence tables: grammar productions exercised and
// never generated, operator tokens, per-family statistics, unconstrained reasons.
func summarise(c *vf.Ctx, shardsOf map[string]int) {
	prod := map[string]int64{}
	ops := map[string]int64{}
	sem := map[string]int64{}
	fam := map[string]map[string]int64{}
	uncon := map[string]int64{}
	stack := map[string]int64{}
	for k, v := range c.Counters {
		switch {
		case strings.HasPrefix(k, "prod:"):
			name := k[5:]
			if strings.HasPrefix(name, "Operator:") {
				ops[name[9:]] += v
			}
			prod[name] += v
			delete(c.Counters, k)
		case strings.HasPrefix(k, "sem:"), strings.HasPrefix(k, "builtin:"):
			sem[k] += v
			delete(c.Counters, k)
		case strings.HasPrefix(k, "family:"):
			parts := strings.SplitN(k[7:], ":", 2)
			if len(parts) == 2 {
				if fam[parts[0]] == nil {
					fam[parts[0]] = map[string]int64{}
				}
				fam[parts[0]][parts[1]] += v
			}
			delete(c.Counters, k)
		case strings.HasPrefix(k, "unconstrained:"):
			uncon[k[14:]] += v
			delete(c.Counters, k)
		case strings.HasPrefix(k, "stack_"):
			stack[k] += v
			delete(c.Counters, k)
		}
	}
	// every shard enumerates the whole family: normalise, and account for cases lost to worker crashes
	var lost int64
	for f, m := range fam {
		if n, ok := m["enumerated"]; ok && shardsOf[f] > 0 {
			m["enumerated"] = n / int64(shardsOf[f])
			if g := m["generated"]; g < m["enumerated"] && n%int64(shardsOf[f]) == 0 {
				m["lost-to-worker-crashes"] = m["enumerated"] - g
				if f != "coll-risky" {
					lost += m["enumerated"] - g
				}
			}
		}
	}
	if lost > 0 {
		c.Exhaustive = false
		c.Extra["inexhaustive_note"] = fmt.Sprintf("%d generated programs were not evaluated because a worker process died (see the crash violations)", lost)
	}
	c.Extra["families"] = fam
	c.Extra["semantic_rules_exercised"] = sem
	c.Extra["unconstrained_not_asserted_by_reason"] = uncon
	if len(stack) > 0 {
		c.Extra["stack_search_counts"] = stack
	}
	// grammar productions
	bnfTypes := map[string]bool{}
	if b, err := os.ReadFile(vf.RepoRoot() + "/pkg/parsing/mlr.bnf"); err == nil {
		for _, m := range bnfTypeRe.FindAllStringSubmatch(string(b), -1) {
			bnfTypes[m[1]] = true
		}
	}
	alias := map[string][]string{
		"IntLiteral": {"int_literal"}, "StringLiteral": {"string_literal"}, "BoolLiteral": {"bool_literal"},
		"Operator": {"Operator"}, "Parameter": {"Parameter", "ParameterList"}, "ElifBlock": {"IfItem"}, "ElseBlock": {"IfItem"},
		"IfChain": {"IfChain", "IfItem"}, "ForLoopMultivariable": {"ForLoopMultivariable", "MultiIndex"},
		"PositionalFieldName": {"IndirectFieldValue", "ArrayLiteral"}, "PositionalFieldValue": {"IndirectFieldValue", "ArrayLiteral"},
		"FunctionCallsite": {"FunctionCallsite", "FcnArgs"}, "TripleForLoop": {"TripleForLoop", "StatementBlock"},
		"NamedFunctionDefinition": {"NamedFunctionDefinition", "StatementBlockInBraces"},
	}
	exercised := map[string]int64{}
	for name, v := range prod {
		base := name
		if i := strings.Index(base, ":"); i > 0 {
			base = base[:i]
		}
		if name == "Operator:." {
			exercised["DotOperator"] += v
			continue
		}
		targets := alias[base]
		if targets == nil {
			targets = []string{base}
		}
		for _, t := range targets {
			if bnfTypes[t] || len(bnfTypes) == 0 {
				exercised[t] += v
			}
		}
	}
	if len(prod) > 0 {
		exercised["StatementBlock"] += prod["PrintStatement"] + 1
	}
	var never []string
	for t := range bnfTypes {
		if exercised[t] == 0 {
			never = append(never, t)
		}
	}
	sort.Strings(never)
	c.Extra["grammar_productions_exercised"] = exercised
	c.Extra["grammar_productions_never_generated"] = never
	c.Extra["generator_symbol_hits"] = prod
	// operator tokens of the documented table
	var opNever []string
	for _, o := range append(append([]string{}, precBinOps...), "unary!", "unary~", "unary+", "unary-", "?:") {
		if ops[o] == 0 {
			opNever = append(opNever, o)
		}
	}
	c.Extra["operator_token_hits"] = ops
	c.Extra["operator_tokens_never_generated"] = append(opNever, ".+", ".-", ".*", "./ (not in the documented table)")
}

func crashKey(idx uint64, label, kind, tail string) (string, string) {
	fam, text := "prog", label
	if i := strings.Index(label, ": "); i > 0 {
		fam, text = label[:i], label[i+2:]
	}
	cause := kind
	if strings.Contains(tail, "stack overflow") {
		cause = "stack-overflow"
	}
	first := tail
	if i := strings.Index(first, "\n\n"); i > 0 {
		first = first[:i]
	}
	if len(first) > 300 {
		first = first[:300]
	}
	return fmt.Sprintf("%s[crash;%s]:%s", fam, cause, text), fmt.Sprintf("`mlr -n put '%s'` (or with the fixed input) kills the process (%s): %s", text, kind, first)
}

func stackCrashKey(idx uint64, label, kind, tail string) (string, string) {
	first := tail
	if len(first) > 400 {
		first = first[:400]
	}
	return "stack[crash]:" + label, fmt.Sprintf("the runtime.Stack search dies (%s) in the %s: %s", kind, label, first)
}
