// Package c14: check for property C14 (see /verif/DESIGN.md §3 C14).
package c14
