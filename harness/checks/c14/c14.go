// Package c14: put/filter programs mean what the language reference says
// (see /verif/DESIGN.md §3 C14). Three layers: an explicit-state search over
// the real runtime.Stack against a naive stack; grammar-bounded exhaustive
// program families run through the real parser/CST in-process and compared
// with an independent reference interpreter written from docs/src/reference-dsl-*.md;
// laws on the real code (emit-by-names vs the grouping verb).
package c14

import (
	"fmt"
	"os"
	"runtime/debug"
	"strings"

	"verif/harness/vf"
)

func init() {
	vf.Register(&vf.CheckDef{ID: "C14", Level: "model_checking", Run: run,
		Workers: map[string]vf.WorkerFunc{"stack": stackWorker, "prog": progWorker}})
}

type progArgs struct {
	Family string
	Level  int
	Size   int
	Depth  int
	Risky  bool // only the crash-prone shapes, one program per shard
}

const mineBlock = 1

// progWorker enumerates one family; cases are sharded in blocks of mineBlock programs.
func progWorker(w *vf.Worker) {
	var a progArgs
	_ = jsonUnmarshal(w.Args, &a)
	cr := newCaseRunner(w)
	defer cr.flush()
	debug.SetMaxStack(48 << 20) // a runaway recursion in the interpreter must die quickly
	var n uint64
	mine := false
	only := os.Getenv("VERIF_C14_ONLY") // debug: substring of the program text
	emit := func(build func() *progCase) {
		if n%mineBlock == 0 {
			idx := n/mineBlock + 1
			mine = w.Mine(idx)
			if mine {
				w.Begin(idx)
			}
		}
		n++
		if !mine {
			return
		}
		pc := build()
		if only != "" && !strings.Contains(unparse(pc.top, nil), only) {
			return
		}
		w.Label(func() string { return pc.family + ": " + unparse(pc.top, nil) })
		cr.run(pc)
	}
	switch a.Family {
	case "scope":
		genScopeFamily(a, emit)
	case "coll", "coll-risky":
		genCollFamily(a, emit)
	case "fields":
		genFieldsFamily(a, emit)
	case "copy":
		genCopyFamily(a, emit)
	case "func":
		genFuncFamily(a, emit)
	case "recur":
		genRecurFamily(a, emit)
	case "hof":
		genHofFamily(a, emit)
	}
	w.Count("family:"+a.Family+":enumerated", int64(n)/int64(1)) // every shard enumerates everything; divided by shards in run()
}

func genScopeFamily(a progArgs, emit func(func() *progCase)) {
	g := scopeGen(a.Level)
	obs := []expr{loc("x"), loc("y")}
	for n := 0; n <= a.Size; n++ {
		g.seqs(n, a.Depth, false, nil, func(b []stmt) {
			emit(func() *progCase {
				top := numberProgram(b, obs, true)
				return &progCase{family: "scope", size: n, top: top, opts: runOpts{q: true}}
			})
		})
	}
}

func run(c *vf.Ctx) {
	c.Rule = "TODO"
	type sa struct{ Level, Depth int }
	if os.Getenv("VERIF_C14_SKIP_STACK") == "" {
		if c.Quick() {
			c.RunPool(vf.PoolSpec{Worker: "stack", Shards: 64, Args: sa{0, 7}})
			c.RunPool(vf.PoolSpec{Worker: "stack", Shards: 64, Args: sa{1, 6}})
		} else {
			c.RunPool(vf.PoolSpec{Worker: "stack", Shards: 64, Args: sa{0, 9}})
			c.RunPool(vf.PoolSpec{Worker: "stack", Shards: 64, Args: sa{2, 7}})
		}
	}
	fams := []progArgs{{"scope", 0, 3, 2, false}, {"coll", 0, 1, 0, false}, {"coll-risky", 0, 1, 0, true}, {"fields", 0, 2, 0, false}, {"copy", 0, 1, 0, false},
		{"func", 0, 2, 0, false}, {"recur", 0, 0, 0, false}, {"hof", 0, 0, 0, false}}
	if !c.Quick() {
		fams = []progArgs{{"scope", 1, 4, 3, false}, {"coll", 1, 2, 0, false}, {"coll-risky", 1, 1, 0, true}, {"fields", 1, 3, 0, false}, {"copy", 1, 1, 0, false},
			{"func", 1, 3, 0, false}, {"recur", 1, 0, 0, false}, {"hof", 1, 0, 0, false}}
	}
	for _, f := range fams {
		if o := os.Getenv("VERIF_C14_FAMILY"); o != "" && o != f.Family {
			continue
		}
		shards := 64
		if f.Risky {
			shards = 512 // one program per shard: a crash must not take other cases' results with it
		}
		c.RunPool(vf.PoolSpec{Worker: "prog", Shards: shards, Args: f, CrashKey: crashKey})
	}
	c.DistinctNontrivial = c.Evaluations
}

func crashKey(idx uint64, label, kind, tail string) (string, string) {
	fam, text := "prog", label
	if i := strings.Index(label, ": "); i > 0 {
		fam, text = label[:i], label[i+2:]
	}
	cause := kind
	if strings.Contains(tail, "stack overflow") {
		cause = "stack-overflow"
	}
	first := tail
	if i := strings.Index(first, "\n\n"); i > 0 {
		first = first[:i]
	}
	if len(first) > 300 {
		first = first[:300]
	}
	return fmt.Sprintf("%s[crash;%s]:%s", fam, cause, text), fmt.Sprintf("`mlr -n put '%s'` (or with the fixed input) kills the process (%s): %s", text, kind, first)
}
