// Package c14: put/filter programs mean what the language reference says
// (see /verif/DESIGN.md §3 C14). Three layers: an explicit-state search over
// the real runtime.Stack against a naive stack; grammar-bounded exhaustive
// program families run through the real parser/CST in-process and compared
// with an independent reference interpreter written from docs/src/reference-dsl-*.md;
// laws on the real code (emit-by-names vs the grouping verb).
package c14

import (
	"verif/harness/vf"
)

func init() {
	vf.Register(&vf.CheckDef{ID: "C14", Level: "model_checking", Run: run,
		Workers: map[string]vf.WorkerFunc{"stack": stackWorker}})
}

func run(c *vf.Ctx) {
	c.Rule = "TODO"
	type sa struct{ Level, Depth int }
	if c.Quick() {
		c.RunPool(vf.PoolSpec{Worker: "stack", Shards: 64, Args: sa{0, 7}})
		c.RunPool(vf.PoolSpec{Worker: "stack", Shards: 64, Args: sa{1, 6}})
	} else {
		c.RunPool(vf.PoolSpec{Worker: "stack", Shards: 64, Args: sa{0, 9}})
		c.RunPool(vf.PoolSpec{Worker: "stack", Shards: 64, Args: sa{2, 7}})
	}
	c.DistinctNontrivial = c.Evaluations
}
