package c14

// Worker "law": oracles that need no reference interpreter.
//  - emit-by-names == the grouping verb: for every record stream up to a length
//    bound over a=p|q, b=u|v, x=1|2:
//      put -q '@x_sum[$a][$b] += $x; end{emit @x_sum,"a","b"}'        == stats1 -a sum -f x -g a,b
//      put -q '... @x_count ...; end{emit (@x_count,@x_sum),"a","b"}' == stats1 -a count,sum -f x -g a,b
//      one grouping field likewise; emit all == emit @*.
//  - side-effect predicates: an indexed assignment to a local that holds a scalar
//    (or was unset) must not change the literal, field, variable or constant it
//    was copied from, whatever it does to the local itself.
//  - programs the reference text calls errors must not run to exit 0.

import (
	"fmt"
	"sort"
	"strings"

	"verif/harness/vf"
)

func lawWorker(w *vf.Worker) {
	var a progArgs
	_ = jsonUnmarshal(w.Args, &a)
	sing := snapshotSingletons()
	var idx uint64
	mine := func(label string) bool {
		idx++
		if !w.Mine(idx) {
			return false
		}
		w.Begin(idx)
		w.Label(func() string { return "law: " + label })
		return true
	}
	run := func(args []string, stdin string) vf.MlrResult {
		r, hung := runWithCPUWatchdog(args, &stdin)
		if hung {
			w.Violation("law[hang]:"+shellQuote(args), fmt.Sprintf("`mlr %s` does not terminate (more than %d s of CPU time)", shellQuote(args), hangCPUSeconds), map[string]any{"command": "mlr " + shellQuote(args), "stdin": stdin})
			w.Abandon()
		}
		w.Eval(1)
		if bad := sing.check(); len(bad) > 0 {
			w.Violation(fmt.Sprintf("law[singleton-overwritten]:%s", shellQuote(args)), fmt.Sprintf("after `mlr %s` the process-wide constant %s", shellQuote(args), strings.Join(bad, ", ")), map[string]any{"command": "mlr " + shellQuote(args), "stdin": stdin})
		}
		return r
	}

	// ---- emit by names vs stats1
	var recs []string
	for _, av := range []string{"p", "q"} {
		for _, bv := range []string{"u", "v"} {
			for _, xv := range []string{"1", "2"} {
				recs = append(recs, "a="+av+",b="+bv+",x="+xv)
			}
		}
	}
	type pair struct {
		name string
		dsl  string
		verb []string
	}
	pairs := []pair{
		{"sum-by-a-b", `@x_sum[$a][$b] += $x; end{emit @x_sum, "a", "b"}`, []string{"stats1", "-a", "sum", "-f", "x", "-g", "a,b"}},
		{"count-sum-lashed-by-a-b", `@x_count[$a][$b] += 1; @x_sum[$a][$b] += $x; end{emit (@x_count, @x_sum), "a", "b"}`, []string{"stats1", "-a", "count,sum", "-f", "x", "-g", "a,b"}},
		{"sum-by-a", `@x_sum[$a] += $x; end{emit @x_sum, "a"}`, []string{"stats1", "-a", "sum", "-f", "x", "-g", "a"}},
		{"emitp-sum-by-a-b", `@x_sum[$a][$b] += $x; end{emitp @x_sum, "a", "b"}`, []string{"stats1", "-a", "sum", "-f", "x", "-g", "a,b"}},
		{"count-by-b-a", `@x_count[$b][$a] += 1; end{emit @x_count, "b", "a"}`, []string{"stats1", "-a", "count", "-f", "x", "-g", "b,a"}},
		{"sum-ungrouped", `@x_sum += $x; end{emit @x_sum}`, []string{"stats1", "-a", "sum", "-f", "x"}},
	}
	var streams [][]string
	var gen func(n int, prefix []string)
	gen = func(n int, prefix []string) {
		if len(prefix) > 0 {
			streams = append(streams, append([]string(nil), prefix...))
		}
		if n == 0 {
			return
		}
		for _, r := range recs {
			gen(n-1, append(prefix[:len(prefix):len(prefix)], r))
		}
	}
	gen(a.Size, nil)
	var nlaw, ngroups int64
	for _, st := range streams {
		in := strings.Join(st, "\n") + "\n"
		for _, p := range pairs {
			if !mine(p.name + " on " + strings.Join(st, " / ")) {
				continue
			}
			r1 := run([]string{"put", "-q", p.dsl}, in)
			r2 := run(p.verb, in)
			nlaw++
			if n := strings.Count(r2.Stdout, "\n"); n > 1 {
				ngroups++
			}
			// same records; their order is the map's (grouped by the first key) on one side and
			// first appearance of the key pair on the other: compared as multisets
			if r1.Stdout != r2.Stdout {
				w.Count("law:emit-vs-stats1:same-records-different-order", 1)
			}
			if r1.Exit != 0 || r2.Exit != 0 || sortedLines(r1.Stdout) != sortedLines(r2.Stdout) {
				w.Violation(fmt.Sprintf("law[emit-vs-stats1;%s]:%02d:%s", p.name, len(st), strings.Join(st, ";")),
					fmt.Sprintf("`mlr put -q '%s'` prints %q but `mlr %s` prints %q on the records %s", p.dsl, r1.Stdout, strings.Join(p.verb, " "), r2.Stdout, strings.Join(st, " / ")),
					map[string]any{"stdin": in, "dsl": p.dsl, "verb": p.verb})
			}
		}
	}
	w.Count("law:emit-vs-stats1:cases", nlaw)
	w.Count("law:emit-vs-stats1:cases-with-several-groups", ngroups)
	w.Nontrivial(nlaw)

	// ---- emit all == emit @*
	for _, setup := range []string{`@s[$a][$b] += $x; @c[$a][$b] += 1`, `@s += $x`, `@s[$a] += $x; @c[$a] += 1`} {
		for _, names := range []string{``, `, "a"`, `, "a", "b"`} {
			for _, kw := range []string{"emit", "emitp"} {
				if !mine("emit all " + setup + names) {
					continue
				}
				in := strings.Join(recs[:5], "\n") + "\n"
				r1 := run([]string{"--ojsonl", "put", "-q", setup + "; end{" + kw + " all" + names + "}"}, in)
				r2 := run([]string{"--ojsonl", "put", "-q", setup + "; end{" + kw + " @*" + names + "}"}, in)
				w.Nontrivial(1)
				if r1.Exit != r2.Exit || r1.Stdout != r2.Stdout {
					w.Violation(fmt.Sprintf("law[emit-all-vs-emit-@*]:%s all%s:%s", kw, names, setup), fmt.Sprintf("`%s all%s` prints %q, `%s @*%s` prints %q (documented as synonymous)", kw, names, r1.Stdout, kw, names, r2.Stdout), nil)
				}
			}
		}
	}

	// ---- side-effect predicates
	type pred struct {
		name  string
		args  []string
		stdin string
		want  []string // the lines starting with "src" must be exactly these, when the run exits 0
		rec   string   // when non-empty: the last stdout line (the record) must equal this
	}
	one := "a=1,b=pan\n"
	var preds []pred
	for _, ix := range []string{`1`, `"k"`} {
		for _, lv := range []struct{ name, src, want string }{
			{"int-literal", `7`, "7"}, {"string-literal", `"abc"`, "abc"}, {"true-literal", `true`, "true"}, {"false-literal", `false`, "false"},
		} {
			preds = append(preds, pred{"literal-reexecuted:" + lv.name + ":" + ix,
				[]string{"-n", "put", `end{for (i = 0; i < 2; i += 1) {x = ` + lv.src + `; print "src", x; x[` + ix + `] = 9}}`}, "",
				[]string{"src " + lv.want, "src " + lv.want}, ""})
		}
		preds = append(preds,
			pred{"field:" + ix, []string{"put", `x = $a; x[` + ix + `] = 9; print "src", $a`}, one, []string{"src 1"}, "a=1,b=pan"},
			pred{"oosvar:" + ix, []string{"put", "-q", `@s = 5; x = @s; x[` + ix + `] = 9; print "src", @s`}, one, []string{"src 5"}, ""},
			pred{"other-local:" + ix, []string{"-n", "put", `end{y = 5; x = y; x[` + ix + `] = 9; print "src", y}`}, "", []string{"src 5"}, ""},
			pred{"argument:" + ix, []string{"-n", "put", `func f(v) {v[` + ix + `] = 9; return 0} end{y = 5; z = f(y); print "src", y}`}, "", []string{"src 5"}, ""},
			pred{"unset-then-index:" + ix, []string{"-n", "put", `end{x = 5; unset x; x[` + ix + `] = 9; print "src", @nosuch, "|"; y = @nosuch; print "src", typeof(y)}`}, "", []string{"src  |", "src absent"}, ""},
			pred{"NR:" + ix, []string{"put", "-q", `x = NR; x[` + ix + `] = 9; print "src", NR`}, one, []string{"src 1"}, ""},
			pred{"typed-local-stays-typed:" + ix, []string{"-n", "put", `end{int x = 5; x[` + ix + `] = 9; print "src", asserting_int(x)}`}, "", []string{"src 5"}, ""},
			pred{"for-bound-scalar:" + ix, []string{"-n", "put", `end{m = {"a": 5}; for (k, v in m) {v[` + ix + `] = 9} print "src", m["a"]}`}, "", []string{"src 5"}, ""},
			pred{"scalar-field-indexed:" + ix, []string{"put", `$b[` + ix + `] = 9; print "src", $a`}, one, []string{"src 1"}, ""},
			pred{"scalar-oosvar-indexed:" + ix, []string{"put", "-q", `@s = 5; @t = @s; @s[` + ix + `] = 9; print "src", @t`}, one, []string{"src 5"}, ""},
		)
	}
	for _, p := range preds {
		if !mine("side-effect " + p.name) {
			continue
		}
		r := run(p.args, p.stdin)
		w.Nontrivial(1)
		w.Count("law:side-effect-predicates", 1)
		if r.Panic != "" {
			w.Violation("law[side-effect;panic]:"+p.name, fmt.Sprintf("`mlr %s` panics: %s", shellQuote(p.args), r.Panic), nil)
			continue
		}
		if r.Exit != 0 {
			w.Count("law:side-effect-predicates:program-rejected-with-error", 1)
			continue // refusing the indexed assignment is one acceptable behaviour
		}
		var src []string
		lines := strings.Split(strings.TrimSuffix(r.Stdout, "\n"), "\n")
		for _, l := range lines {
			if strings.HasPrefix(l, "src") {
				src = append(src, l)
			}
		}
		bad := strings.Join(src, "\n") != strings.Join(p.want, "\n")
		if p.rec != "" && (len(lines) == 0 || lines[len(lines)-1] != p.rec) {
			bad = true
		}
		if bad {
			w.Violation("law[side-effect;scalar-bound-by-reference]:"+p.name,
				fmt.Sprintf("`mlr %s` prints %q: an indexed assignment to a local holding a scalar changed the value it was copied from (expected the src lines %q%s)", shellQuote(p.args), r.Stdout, p.want, map[bool]string{true: " and the record " + p.rec, false: ""}[p.rec != ""]),
				map[string]any{"command": "mlr " + shellQuote(p.args), "stdin": p.stdin})
		}
	}

	// ---- no internal error: whatever an absent value inside a collection literal becomes, evaluating,
	// printing, dumping or emitting the collection must not abort with an "internal coding error" or panic
	for _, prog := range []string{
		`end{print [1, @nosuch, 3]}`, `end{x = [1, @nosuch, 3]; print x}`, `end{@x = [@nosuch]; dump}`, `end{dump [1, @nosuch]}`,
		`end{x = [1, @nosuch, 3]; print length(x)}`, `end{emit1 {"a": [1, @nosuch]}}`, `end{@v = {"a": [@nosuch, 2]}; emit @v}`,
		`end{print {"a": @nosuch, "b": 2}}`, `end{print [[@nosuch]]}`, `end{x = [1, @nosuch]; for (e in x) {print "e", e}}`,
		`$y = [$a, $nosuch]`, `$y = {"k": [$nosuch]}`, `end{x = [1, 2]; x[2] = @nosuch; print x}`, `end{print append([1], @nosuch)}`,
	} {
		if !mine("no internal error: " + prog) {
			continue
		}
		for _, fmtFlag := range []string{"--ojson", "--ojsonl", "--odkvp"} {
			r := run([]string{fmtFlag, "put", prog}, one)
			w.Nontrivial(1)
			w.Count("law:no-internal-error-cases", 1)
			if r.Panic != "" || strings.Contains(r.Stderr+r.Err, "internal coding error") {
				w.Violation("law[internal-error;absent-in-collection-literal]:"+fmtFlag+":"+prog,
					fmt.Sprintf("`mlr %s put '%s'` aborts with an internal error (exit %d): %s", fmtFlag, prog, r.Exit, trunc(strings.TrimSpace(r.Panic+r.Stderr+r.Err), 200)),
					map[string]any{"command": "mlr " + fmtFlag + " put '" + prog + "'", "stdin": one})
			}
		}
	}

	// ---- documented errors
	type bad struct{ name, prog, why string }
	bads := []bad{
		{"field-in-begin", `begin{$x = 1}`, "begin/end blocks cannot refer to fields"},
		{"field-read-in-end", `end{print $x}`, "begin/end blocks cannot refer to fields"},
		{"break-outside-loop", `break`, "break outside a loop is a syntax error"},
		{"continue-outside-loop", `if (true) {continue}`, "continue outside a loop is a syntax error"},
		{"function-redefined", `func f(a) {return 1} func f(a) {return 2} $y = f(1)`, "a function may not be redefined"},
		{"builtin-redefined", `func strlen(a) {return 1} $y = strlen(1)`, "a built-in function may not be redefined"},
		{"subroutine-redefined", `subr s() {print 1} subr s() {print 2} call s()`, "a subroutine may not be redefined"},
		{"func-inside-begin", `begin{func f(a) {return 1}}`, "functions are defined outside begin/end/func blocks"},
		{"func-inside-func", `func f(a) {func g(b) {return 1} return 2}`, "no nested functions"},
		{"assign-to-NR", `NR = 100`, "built-in variables are read-only"},
		{"assign-to-M_PI", `M_PI = 3`, "built-in variables are read-only"},
		{"var-redeclared", `var a = 1; var a = 2`, "redeclaration in the same scope"},
		{"typed-redeclared", `int n = 10; str n = "abc"`, "redeclaration in the same scope"},
		{"float-from-int", `float f = 0`, "0 is an int, not a float"},
		{"int-from-float", `int b = 1.0`, "1.0 is a float, not an int"},
		{"num-from-bool", `num b = true`, "documented in the keyword usage"},
		{"bool-from-int", `bool b = 1`, "documented in the keyword usage"},
		{"map-from-int", `map b = 0`, "documented in the keyword usage"},
		{"typed-reassigned", `float f = 0.0; f = 1`, "type checked at every assignment"},
		{"arity", `func f(a, b) {return 1} $y = f(1)`, "arity is checked"},
		{"return-type", `func f(a): bool {return "false"} $y = f(1)`, "return type checked at return"},
		{"return-missing-typed", `func f(a): int {} $y = f(1)`, "falling off the end of a typed function is an error"},
		{"param-type", `func f(map m, int i) {return 1} $b = f({1: 2}, "abc")`, "typed parameter"},
		{"subr-param-type", `subr s(a, str b, int c) {print a} call s(1, 2, 3)`, "2 is not a str"},
		{"return-value-in-subr", `subr s(a) {return 1} call s(1)`, "subroutines cannot return values"},
		{"begin-inside-if", `if (true) {begin{@x = 1}}`, "begin blocks are top-level"},
	}
	for _, b := range bads {
		if !mine("documented error " + b.name) {
			continue
		}
		r := run([]string{"put", b.prog}, one)
		w.Nontrivial(1)
		w.Count("law:documented-errors", 1)
		if r.Exit == 0 && r.Panic == "" {
			w.Violation("law[documented-error-accepted]:"+b.name, fmt.Sprintf("`mlr put '%s'` exits 0 (stdout %q); the reference says: %s", b.prog, trunc(r.Stdout, 200), b.why), map[string]any{"command": "mlr put '" + b.prog + "'", "stdin": one})
		}
		if r.Panic != "" {
			w.Violation("law[documented-error;panic]:"+b.name, fmt.Sprintf("`mlr put '%s'` panics: %s", b.prog, r.Panic), nil)
		}
	}
}

func sortedLines(s string) string {
	l := strings.Split(s, "\n")
	sort.Strings(l)
	return strings.Join(l, "\n")
}
