package c14

// Independent reference interpreter of the covered sub-language, written from
// docs/src/reference-dsl-*.md, reference-main-arrays.md, reference-main-maps.md
// and reference-main-null-data.md. Deliberately naive: variables live in an
// unpooled list of frame sets of frames of (name,type,value) triples,
// collections are deep-copied on every read and write, maps are lists of pairs.
//
// Three kinds of abnormal termination (Go panics caught by run):
//   fatalErr   the documentation says the program dies (type gate, redeclaration...)
//   unconErr   the documentation does not determine the behaviour: the program is
//              not asserted (counted as unconstrained)
//   nontermErr the program exceeds the step budget (never run on the real code)

import (
	"fmt"
	"strconv"
)

type fatalErr struct{ msg string }
type unconErr struct{ why string }
type nontermErr struct{}

func fatal(f string, a ...any) { panic(fatalErr{fmt.Sprintf(f, a...)}) }
func uncon(f string, a ...any) { panic(unconErr{fmt.Sprintf(f, a...)}) }

type flow int

const (
	flNone flow = iota
	flBreak
	flContinue
	flReturn
)

type itemKind int

const (
	itJSON itemKind = iota // a record, or a printed/dumped collection
	itText                 // a printed line
)

type item struct {
	k itemKind
	v val
	s string
}

type runOpts struct {
	filterVerb bool // mlr filter (else put)
	q          bool
	x          bool
}

type interp struct {
	funcs map[string]sFunc
	subrs map[string]sSubr
	oos   *omap
	rec   *omap // nil outside the main block
	nr    int64
	st    *mstack
	out   []item
	opts  runOpts

	filterSet bool
	filterVal bool

	retVal val
	steps  int
	depth  int
	hits   map[string]int64

	tags      []string   // cause labels for violation grouping
	callKinds []byte     // 'f' function, 's' subroutine, 'l' function literal: innermost last
	loopVars  [][]string // names bound by enclosing loop headers, innermost last; nil entries for non-loop blocks
}

const stepBudget = 20000

func (in *interp) tick() {
	in.steps++
	if in.steps > stepBudget {
		panic(nontermErr{})
	}
}

func (in *interp) tag(s string) {
	for _, t := range in.tags {
		if t == s {
			return
		}
	}
	in.tags = append(in.tags, s)
}

func (in *interp) hit(s string) {
	if in.hits != nil {
		in.hits[s]++
	}
}

// ---------------------------------------------------------------- scopes

func (in *interp) pushFrame() {
	c := in.st.cur()
	c.frames = append(c.frames, &mframe{})
}
func (in *interp) popFrame() {
	c := in.st.cur()
	c.frames = c.frames[:len(c.frames)-1]
}
func (in *interp) pushSet() { in.st.sets = append(in.st.sets, &mset{frames: []*mframe{{}}}) }
func (in *interp) popSet()  { in.st.sets = in.st.sets[:len(in.st.sets)-1] }

func (in *interp) curFrame() *mframe {
	fs := in.st.cur().frames
	return fs[len(fs)-1]
}

// ---------------------------------------------------------------- expressions

func keyOf(v val) (string, bool) {
	switch v.k {
	case kInt:
		return strconv.FormatInt(v.i, 10), true
	case kStr:
		return v.s, true
	}
	return "", false
}

// unalias maps a 1-up / negative index onto 0..n-1
func unalias(n int, i int64) (int, bool) {
	if i >= 1 && i <= int64(n) {
		return int(i - 1), true
	}
	if i <= -1 && i >= -int64(n) {
		return int(i + int64(n)), true
	}
	return 0, false
}

func (in *interp) indexRead(base, ix val) val {
	switch base.k {
	case kAbsent:
		in.hit("sem:index-of-absent")
		return vAbsent
	case kMap:
		if ix.k == kAbsent {
			uncon("map read with an absent key")
		}
		k, ok := keyOf(ix)
		if !ok {
			uncon("map indexed by %s", ix.kindName())
		}
		v, _ := base.m.get(k)
		if ix.k == kInt {
			in.hit("sem:map-int-key-read")
		}
		return v
	case kArr:
		if ix.k != kInt {
			uncon("array indexed by %s", ix.kindName())
		}
		if ix.i == 0 {
			uncon("array read at index 0")
		}
		if p, ok := unalias(len(base.a), ix.i); ok {
			if ix.i < 0 {
				in.hit("sem:array-negative-alias-read")
			} else {
				in.hit("sem:array-1up-read")
			}
			if base.a[p].k == kNull {
				uncon("read of a null-gap slot")
			}
			return base.a[p]
		}
		in.hit("sem:array-out-of-bounds-read-absent")
		return vAbsent
	}
	uncon("indexing a %s", base.kindName())
	return vAbsent
}

func (in *interp) sliceRead(base val, lo, hi *val) val {
	if base.k != kArr {
		uncon("slice of a %s", base.kindName())
	}
	n := int64(len(base.a))
	l, h := int64(1), n
	conv := func(p *val, def int64) int64 {
		if p == nil {
			return def
		}
		if p.k != kInt {
			uncon("slice bound of type %s", p.kindName())
		}
		i := p.i
		if i == 0 {
			uncon("slice bound 0")
		}
		if i < 0 {
			if i < -n {
				uncon("negative slice bound beyond the array length")
			}
			i += n + 1
			in.hit("sem:slice-negative-alias")
		}
		return i
	}
	l, h = conv(lo, 1), conv(hi, n)
	// out-of-bounds slices are trimmed (documented, imitating Python)
	if h > n {
		h = n
		in.hit("sem:slice-trimmed")
	}
	if l > h {
		in.hit("sem:slice-empty")
		return vArr([]val{})
	}
	in.hit("sem:slice-inclusive")
	out := make([]val, 0, h-l+1)
	for i := l; i <= h; i++ {
		out = append(out, base.a[i-1].deepCopy())
	}
	return vArr(out)
}

func (in *interp) eval(e expr) val {
	in.tick()
	switch t := e.(type) {
	case eLit:
		return t.v
	case eParen:
		return in.eval(t.e)
	case eMapLit:
		m := &omap{}
		for i := range t.keys {
			k := in.eval(t.keys[i])
			v := in.eval(t.vals[i])
			if k.k == kAbsent || v.k == kAbsent {
				in.hit("sem:map-literal-absent-skipped")
				continue
			}
			ks, ok := keyOf(k)
			if !ok {
				uncon("map literal key of type %s", k.kindName())
			}
			m.put(ks, v.deepCopy())
		}
		return vMap(m)
	case eArrLit:
		a := make([]val, 0, len(t.elems))
		for _, x := range t.elems {
			v := in.eval(x)
			if v.k == kAbsent {
				uncon("absent element in an array literal")
			}
			a = append(a, v.deepCopy())
		}
		return vArr(a)
	case eLocal:
		if b := in.st.lookup(t.name); b != nil {
			return b.v.deepCopy()
		}
		if f, ok := in.funcs[t.name]; ok {
			in.hit("sem:named-function-as-value")
			return val{k: kFunc, i: in.regNamed(f)}
		}
		return vAbsent
	case eField:
		in.needRec()
		v, _ := in.rec.get(t.name)
		return v.deepCopy()
	case eFieldX:
		in.needRec()
		k := in.eval(t.e)
		if k.k == kAbsent {
			return vAbsent
		}
		if k.k != kStr {
			uncon("$[...] with a %s name", k.kindName())
		}
		v, _ := in.rec.get(k.s)
		return v.deepCopy()
	case ePosNam:
		in.needRec()
		n := in.eval(t.e)
		if n.k != kInt {
			uncon("$[[...]] with a %s index", n.kindName())
		}
		if n.i < 0 {
			uncon("negative positional index (the text says absent/no-op, the implementation aliases from the end)")
		}
		if n.i >= 1 && n.i <= int64(len(in.rec.e)) {
			in.hit("sem:positional-name-read")
			return vStr(in.rec.e[n.i-1].k)
		}
		in.hit("sem:positional-out-of-range-read-absent")
		return vAbsent
	case ePosVal:
		in.needRec()
		n := in.eval(t.e)
		if n.k != kInt {
			uncon("$[[[...]]] with a %s index", n.kindName())
		}
		if n.i < 0 {
			uncon("negative positional index (the text says absent/no-op, the implementation aliases from the end)")
		}
		if n.i >= 1 && n.i <= int64(len(in.rec.e)) {
			in.hit("sem:positional-value-read")
			return in.rec.e[n.i-1].v.deepCopy()
		}
		in.hit("sem:positional-out-of-range-read-absent")
		return vAbsent
	case eSrec:
		in.needRec()
		return vMap(in.rec).deepCopy()
	case eOos:
		v, _ := in.oos.get(t.name)
		return v.deepCopy()
	case eOosAll:
		return vMap(in.oos).deepCopy()
	case eCtx:
		switch t.name {
		case "NR", "FNR":
			if in.rec == nil && in.nr == 0 {
				uncon("NR in a begin block")
			}
			return vInt(in.nr)
		case "NF":
			in.needRec()
			return vInt(int64(len(in.rec.e)))
		}
		uncon("context variable %s", t.name)
	case eIndex:
		b := in.eval(t.base)
		i := in.eval(t.idx)
		return in.indexRead(b, i).deepCopy()
	case eSlice:
		b := in.eval(t.base)
		var lo, hi *val
		if t.lo != nil {
			v := in.eval(t.lo)
			lo = &v
		}
		if t.hi != nil {
			v := in.eval(t.hi)
			hi = &v
		}
		return in.sliceRead(b, lo, hi)
	case eUn:
		v := in.eval(t.e)
		return in.unary(t.op, v)
	case eBin:
		switch t.op {
		case "&&":
			l := in.eval(t.l)
			if l.k != kBool {
				uncon("&& on %s", l.kindName())
			}
			if !l.b {
				in.hit("sem:short-circuit-and")
				return vBool(false)
			}
			r := in.eval(t.r)
			if r.k != kBool {
				uncon("&& on %s", r.kindName())
			}
			return r
		case "||":
			l := in.eval(t.l)
			if l.k != kBool {
				uncon("|| on %s", l.kindName())
			}
			if l.b {
				in.hit("sem:short-circuit-or")
				return vBool(true)
			}
			r := in.eval(t.r)
			if r.k != kBool {
				uncon("|| on %s", r.kindName())
			}
			return r
		case "??":
			l := in.eval(t.l)
			if l.k != kAbsent {
				return l
			}
			in.hit("sem:absent-coalesce")
			return in.eval(t.r)
		}
		l := in.eval(t.l)
		r := in.eval(t.r)
		return in.binary(t.op, l, r)
	case eTern:
		c := in.eval(t.c)
		if c.k != kBool {
			uncon("?: condition of type %s", c.kindName())
		}
		if c.b {
			return in.eval(t.a)
		}
		return in.eval(t.b)
	case eCall:
		return in.call(t)
	case eFuncLit:
		return val{k: kFunc, i: in.regFuncLit(t)}
	}
	panic(fmt.Sprintf("eval: unknown expr %T", e))
}

func (in *interp) needRec() {
	if in.rec == nil {
		uncon("record access outside the main block")
	}
}

func (in *interp) unary(op string, v val) val {
	switch op {
	case "-":
		if v.k == kInt {
			return vInt(-v.i)
		}
		if v.k == kAbsent {
			return vAbsent
		}
	case "+":
		if v.k == kInt || v.k == kAbsent {
			return v
		}
	case "!":
		if v.k == kBool {
			return vBool(!v.b)
		}
		if v.k == kAbsent {
			return vAbsent
		}
	}
	uncon("unary %s on %s", op, v.kindName())
	return vAbsent
}

func small(i int64) bool { return i > -1000000 && i < 1000000 }

func (in *interp) binary(op string, l, r val) val {
	switch op {
	case "+", "-", "*":
		// absent rules (reference-main-null-data.md): absent op x = x; absent op absent = absent
		if l.k == kAbsent && r.k == kAbsent {
			in.hit("sem:absent-op-absent")
			return vAbsent
		}
		if l.k == kAbsent && r.k == kInt {
			in.hit("sem:absent-op-present")
			if op == "-" {
				return vInt(-r.i) // absent acts like zero for subtraction
			}
			return r
		}
		if r.k == kAbsent && l.k == kInt {
			in.hit("sem:absent-op-present")
			return l
		}
		if l.k == kInt && r.k == kInt && small(l.i) && small(r.i) {
			switch op {
			case "+":
				return vInt(l.i + r.i)
			case "-":
				return vInt(l.i - r.i)
			case "*":
				return vInt(l.i * r.i)
			}
		}
	case ".":
		if l.k == kAbsent && r.k == kAbsent {
			return vAbsent
		}
		if l.k == kAbsent && (r.k == kStr || r.k == kInt) {
			return r
		}
		if r.k == kAbsent && (l.k == kStr || l.k == kInt) {
			return l
		}
		if (l.k == kStr || l.k == kInt) && (r.k == kStr || r.k == kInt) {
			s := l.text() + r.text()
			if l.k == kInt && r.k == kInt {
				uncon("dot of two ints (type of the result is not documented)")
			}
			return vStr(s)
		}
	case "<", "<=", ">", ">=", "==", "!=", "<=>":
		var c int
		switch {
		case l.k == kInt && r.k == kInt:
			c = cmpInt(l.i, r.i)
		case l.k == kStr && r.k == kStr:
			c = cmpStr(l.s, r.s)
		case l.k == kBool && r.k == kBool && (op == "==" || op == "!="):
			if l.b == r.b {
				c = 0
			} else {
				c = 1
			}
		default:
			uncon("%s on %s and %s", op, l.kindName(), r.kindName())
		}
		switch op {
		case "<":
			return vBool(c < 0)
		case "<=":
			return vBool(c <= 0)
		case ">":
			return vBool(c > 0)
		case ">=":
			return vBool(c >= 0)
		case "==":
			return vBool(c == 0)
		case "!=":
			return vBool(c != 0)
		case "<=>":
			return vInt(int64(c))
		}
	}
	uncon("%s on %s and %s", op, l.kindName(), r.kindName())
	return vAbsent
}

func cmpInt(a, b int64) int {
	switch {
	case a < b:
		return -1
	case a > b:
		return 1
	}
	return 0
}
func cmpStr(a, b string) int {
	switch {
	case a < b:
		return -1
	case a > b:
		return 1
	}
	return 0
}

// ---------------------------------------------------------------- function literals

type fnRef struct {
	lit   *eFuncLit
	named *sFunc
}

var funcLitTable []fnRef

func (in *interp) regFuncLit(f eFuncLit) int64 {
	funcLitTable = append(funcLitTable, fnRef{lit: &f})
	return int64(len(funcLitTable) - 1)
}

func (in *interp) regNamed(f sFunc) int64 {
	funcLitTable = append(funcLitTable, fnRef{named: &f})
	return int64(len(funcLitTable) - 1)
}

func (in *interp) callRef(r fnRef, args []val) val {
	if r.named != nil {
		return in.invoke(r.named.name, r.named.params, r.named.ret, r.named.body, args, true)
	}
	return in.invokeLit(*r.lit, args)
}

// ---------------------------------------------------------------- calls

func (in *interp) call(c eCall) val {
	if f, ok := in.funcs[c.name]; ok {
		in.hit("sem:udf-call")
		args := make([]val, len(c.args))
		for i, a := range c.args {
			args[i] = in.eval(a).deepCopy() // by value
		}
		return in.invoke(f.name, f.params, f.ret, f.body, args, true)
	}
	// a local holding a function literal
	if b := in.st.lookup(c.name); b != nil && b.v.k == kFunc {
		in.hit("sem:funclit-call")
		fl := funcLitTable[b.v.i]
		args := make([]val, len(c.args))
		for i, a := range c.args {
			args[i] = in.eval(a).deepCopy()
		}
		return in.callRef(fl, args)
	}
	args := make([]val, len(c.args))
	for i, a := range c.args {
		args[i] = in.eval(a)
	}
	return in.builtin(c.name, args, c.args)
}

func (in *interp) invoke(name string, params []param, ret string, body []stmt, args []val, isFunc bool) val {
	if len(args) != len(params) {
		fatal("arity mismatch calling %s", name)
	}
	in.depth++
	if in.depth > 40 {
		panic(nontermErr{})
	}
	in.pushSet()
	in.loopVars = append(in.loopVars, nil)
	if isFunc {
		in.callKinds = append(in.callKinds, 'f')
	} else {
		in.callKinds = append(in.callKinds, 's')
	}
	defer func() {
		in.callKinds = in.callKinds[:len(in.callKinds)-1]
		in.loopVars = in.loopVars[:len(in.loopVars)-1]
		in.popSet()
		in.depth--
	}()
	for i, p := range params {
		typ := p.typ
		if typ == "" {
			typ = "any"
		}
		if args[i].k == kAbsent {
			// an absent argument: binding is not documented for typed parameters
			if p.typ != "" {
				uncon("absent argument for a typed parameter")
			}
			in.curFrame().vars = append(in.curFrame().vars, &mvar{p.name, "any", vAbsent})
			continue
		}
		if err := in.st.define(p.name, typ, args[i]); err != nil {
			in.hit("sem:parameter-type-gate-fatal")
			fatal("%v", err)
		}
		if p.typ != "" {
			in.hit("sem:parameter-type-gate-pass")
		}
	}
	// the parameters and the body's top level are one scope (documented: 'var b' of a parameter b is an error)
	fl := in.execFrameless(body)
	rv := vAbsent
	if fl == flReturn {
		rv = in.retVal
	} else if fl != flNone {
		uncon("break/continue leaving a function")
	}
	if isFunc && ret != "" {
		if !typeAdmits(ret, rv) {
			in.hit("sem:return-type-gate-fatal")
			fatal("return type %s from %s", ret, rv.kindName())
		}
		in.hit("sem:return-type-gate-pass")
	}
	if fl != flReturn {
		in.hit("sem:missing-return-absent")
	}
	return rv
}

// function literal: runs on the caller's frame set with a fresh frame for its parameters, so that
// it can read locals of its enclosing scope (documented). Only reading is generated.
func (in *interp) invokeLit(f eFuncLit, args []val) val {
	if len(args) != len(f.params) {
		uncon("function literal arity mismatch")
	}
	in.depth++
	if in.depth > 40 {
		panic(nontermErr{})
	}
	in.pushFrame()
	in.loopVars = append(in.loopVars, nil)
	in.callKinds = append(in.callKinds, 'l')
	defer func() {
		in.callKinds = in.callKinds[:len(in.callKinds)-1]
		in.loopVars = in.loopVars[:len(in.loopVars)-1]
		in.popFrame()
		in.depth--
	}()
	for i, p := range f.params {
		typ := p.typ
		if typ == "" {
			typ = "any"
		}
		if args[i].k == kAbsent {
			uncon("absent argument to a function literal")
		}
		if err := in.st.define(p.name, typ, args[i]); err != nil {
			fatal("%v", err)
		}
	}
	fl := in.execFrameless(f.body)
	rv := vAbsent
	if fl == flReturn {
		rv = in.retVal
	}
	if f.ret != "" && !typeAdmits(f.ret, rv) {
		fatal("return type %s from %s", f.ret, rv.kindName())
	}
	return rv
}

func (in *interp) builtin(name string, args []val, raw []expr) val {
	in.hit("builtin:" + name)
	switch name {
	case "min":
		if len(args) == 2 {
			a, b := args[0], args[1]
			// absent loses (reference-dsl-operators.md)
			if a.k == kAbsent {
				return b
			}
			if b.k == kAbsent {
				return a
			}
			if a.k == kInt && b.k == kInt {
				if a.i < b.i {
					return a
				}
				return b
			}
		}
	case "is_present":
		return vBool(args[0].k != kAbsent)
	case "is_absent":
		return vBool(args[0].k == kAbsent)
	case "is_map":
		return vBool(args[0].k == kMap)
	case "length":
		switch args[0].k {
		case kMap:
			return vInt(int64(len(args[0].m.e)))
		case kArr:
			return vInt(int64(len(args[0].a)))
		case kAbsent:
			uncon("length of absent")
		default:
			return vInt(1)
		}
	case "mapsum":
		out := &omap{}
		for _, a := range args {
			if a.k != kMap {
				uncon("mapsum of %s", a.kindName())
			}
			for _, e := range a.m.e {
				out.put(e.k, e.v.deepCopy())
			}
		}
		return vMap(out)
	case "haskey":
		if args[0].k == kMap {
			k, ok := keyOf(args[1])
			if !ok {
				uncon("haskey key type")
			}
			_, has := args[0].m.get(k)
			return vBool(has)
		}
		if args[0].k == kArr && args[1].k == kInt {
			_, ok := unalias(len(args[0].a), args[1].i)
			return vBool(ok)
		}
	case "append":
		if args[0].k == kArr && args[1].k != kAbsent {
			return vArr(append(args[0].deepCopy().a, args[1].deepCopy()))
		}
	case "apply", "select", "reduce", "fold", "sort", "any", "every":
		return in.hof(name, args)
	}
	uncon("builtin %s on these argument types", name)
	return vAbsent
}

func (in *interp) callFn(f val, args ...val) val {
	if f.k != kFunc {
		uncon("higher-order function given a %s", f.kindName())
	}
	cp := make([]val, len(args))
	for i := range args {
		cp[i] = args[i].deepCopy()
	}
	return in.callRef(funcLitTable[f.i], cp)
}

func singlePair(v val, what string) kv {
	if v.k != kMap || len(v.m.e) != 1 {
		uncon("%s: function did not return a single-entry map", what)
	}
	return v.m.e[0]
}

// keys of a map as bound to function/loop variables: int-looking keys are not generated
func keyVal(k string) val { return vStr(k) }

func (in *interp) hof(name string, args []val) val {
	c := args[0]
	if c.k != kMap && c.k != kArr {
		uncon("%s over a %s", name, c.kindName())
	}
	isArr := c.k == kArr
	switch name {
	case "apply":
		if isArr {
			out := []val{}
			for _, e := range c.a {
				r := in.callFn(args[1], e)
				if r.k == kAbsent {
					uncon("apply function returned absent")
				}
				out = append(out, r)
			}
			return vArr(out)
		}
		out := &omap{}
		for _, e := range c.m.e {
			p := singlePair(in.callFn(args[1], keyVal(e.k), e.v), "apply")
			out.put(p.k, p.v)
		}
		return vMap(out)
	case "select":
		if isArr {
			out := []val{}
			for _, e := range c.a {
				r := in.callFn(args[1], e)
				if r.k != kBool {
					uncon("select function returned %s", r.kindName())
				}
				if r.b {
					out = append(out, e.deepCopy())
				}
			}
			return vArr(out)
		}
		out := &omap{}
		for _, e := range c.m.e {
			r := in.callFn(args[1], keyVal(e.k), e.v)
			if r.k != kBool {
				uncon("select function returned %s", r.kindName())
			}
			if r.b {
				out.put(e.k, e.v.deepCopy())
			}
		}
		return vMap(out)
	case "any", "every":
		res := name == "every"
		n := 0
		if isArr {
			n = len(c.a)
		} else {
			n = len(c.m.e)
		}
		for i := 0; i < n; i++ {
			var r val
			if isArr {
				r = in.callFn(args[1], c.a[i])
			} else {
				r = in.callFn(args[1], keyVal(c.m.e[i].k), c.m.e[i].v)
			}
			if r.k != kBool {
				uncon("%s function returned %s", name, r.kindName())
			}
			// whether evaluation stops early is not documented; generated functions have no side effects
			if name == "any" && r.b {
				res = true
			}
			if name == "every" && !r.b {
				res = false
			}
		}
		return vBool(res)
	case "reduce", "fold":
		if isArr {
			var acc val
			start := 0
			if name == "reduce" {
				if len(c.a) == 0 {
					uncon("reduce of an empty array")
				}
				acc = c.a[0].deepCopy()
				start = 1
			} else {
				acc = args[2].deepCopy()
			}
			for _, e := range c.a[start:] {
				acc = in.callFn(args[1], acc, e)
				if acc.k == kAbsent {
					uncon("accumulator became absent")
				}
			}
			return acc
		}
		var acc kv
		start := 0
		if name == "reduce" {
			if len(c.m.e) == 0 {
				uncon("reduce of an empty map")
			}
			acc = kv{c.m.e[0].k, c.m.e[0].v.deepCopy()}
			start = 1
		} else {
			acc = singlePair(args[2], "fold start value")
		}
		for _, e := range c.m.e[start:] {
			acc = singlePair(in.callFn(args[1], keyVal(acc.k), acc.v, keyVal(e.k), e.v), name)
		}
		m := &omap{}
		m.put(acc.k, acc.v)
		return vMap(m)
	case "sort":
		if len(args) != 2 || args[1].k != kFunc {
			uncon("sort without a comparator function")
		}
		// insertion sort with the user comparator; the comparator must be a total order on distinct keys
		if isArr {
			out := c.deepCopy().a
			for i := 1; i < len(out); i++ {
				for j := i; j > 0; j-- {
					r := in.callFn(args[1], out[j-1], out[j])
					if r.k != kInt {
						uncon("sort comparator returned %s", r.kindName())
					}
					if r.i == 0 {
						uncon("sort comparator tie (stability is not documented)")
					}
					if r.i < 0 {
						break
					}
					out[j-1], out[j] = out[j], out[j-1]
				}
			}
			return vArr(out)
		}
		out := c.deepCopy().m
		for i := 1; i < len(out.e); i++ {
			for j := i; j > 0; j-- {
				a, b := out.e[j-1], out.e[j]
				r := in.callFn(args[1], keyVal(a.k), a.v, keyVal(b.k), b.v)
				if r.k != kInt {
					uncon("sort comparator returned %s", r.kindName())
				}
				if r.i == 0 {
					uncon("sort comparator tie")
				}
				if r.i < 0 {
					break
				}
				out.e[j-1], out.e[j] = out.e[j], out.e[j-1]
			}
		}
		return vMap(out)
	}
	uncon("hof %s", name)
	return vAbsent
}
