package c14

// Family "alias": value semantics of assignment for collections on EVERY
// binding path. A map or array travels from a source location to a
// destination through one binding path; then one side is updated in place
// (new key, nested key, unset / element write, nested element, extend, unset)
// and both sides are read. Paths:
//   destinations: local declared (var/typed), first untyped assignment,
//     re-assignment of an existing local (holding a map, a scalar, typed, from
//     an inner block, twice), oosvar new / existing / indexed, field new /
//     existing, indexed local, $* literal; emitted records (emit1, emit, emitp,
//     lashed emit, emit by name, emit @*) followed by a mutation of the source;
//   sources: local, typed local, oosvar, sub-map of an oosvar / local, field,
//     array element;
//   functions: parameter re-assigned from another parameter, local re-assigned
//     from a parameter, oosvar / local returned then re-assigned into an
//     existing caller local, subroutine storing a parameter into an oosvar;
//   loops: the bound value of key-value / single-variable / multi-key loops at
//     iteration 1, 2 and 3 (three entries), an outer local re-assigned in every
//     iteration of for / triple-for / while / do-while loops, the loop variable
//     re-assigned in the body; over collections held in locals, oosvars, fields.

type aliasLoc struct {
	name  string
	setup func(v expr) []stmt
	rd    expr
}

type aliasDst struct {
	name string
	bind func(rd expr, typ string, empty expr) []stmt
	lv   expr
}

type aliasMut struct {
	name string
	mk   func(lv expr) stmt
}

func aliasMutations(isMap bool) []aliasMut {
	if isMap {
		return []aliasMut{
			{"new-key", func(lv expr) stmt { return asg(idx(lv, lit("added")), lit(9)) }},
			{"nested-key", func(lv expr) stmt { return asg(idx(lv, lit("w"), lit("q")), lit(9)) }},
			{"unset-key", func(lv expr) stmt { return sUnset{[]expr{idx(lv, lit("z"))}} }},
		}
	}
	return []aliasMut{
		{"element", func(lv expr) stmt { return asg(idx(lv, lit(1)), lit(9)) }},
		{"nested-element", func(lv expr) stmt { return asg(idx(lv, lit(2), lit(1)), lit(9)) }},
		{"extend", func(lv expr) stmt { return asg(idx(lv, lit(3)), lit(9)) }},
		{"unset-element", func(lv expr) stmt { return sUnset{[]expr{idx(lv, lit(1))}} }},
	}
}

func genAliasFamily(a progArgs, emit func(func() *progCase)) {
	mapV := mapLit(lit("z"), lit(1), lit("w"), mapLit(lit("q"), lit(2)))
	arrV := arrLit(lit(1), arrLit(lit(2), lit(3)))
	la, lb := loc("a"), loc("b")
	srcs := []aliasLoc{
		{"local", func(v expr) []stmt { return []stmt{asg(la, v)} }, la},
		{"typed-local", func(v expr) []stmt { return []stmt{decl("var", "a", v)} }, la},
		{"oosvar", func(v expr) []stmt { return []stmt{asg(oos("a"), v)} }, oos("a")},
		{"oosvar-sub", func(v expr) []stmt { return []stmt{asg(oos("a"), mapLit(lit("in"), v))} }, idx(oos("a"), lit("in"))},
		{"local-sub", func(v expr) []stmt { return []stmt{asg(la, mapLit(lit("in"), v))} }, idx(la, lit("in"))},
		{"field", func(v expr) []stmt { return []stmt{asg(fld("a"), v)} }, fld("a")},
		{"array-element", func(v expr) []stmt { return []stmt{asg(la, arrLit(v))} }, idx(la, lit(1))},
	}
	one := func(s stmt) []stmt { return []stmt{s} }
	dsts := []aliasDst{
		{"declare-var", func(rd expr, t string, e expr) []stmt { return one(decl("var", "b", rd)) }, lb},
		{"declare-typed", func(rd expr, t string, e expr) []stmt { return one(decl(t, "b", rd)) }, lb},
		{"first-untyped", func(rd expr, t string, e expr) []stmt { return one(asg(lb, rd)) }, lb},
		{"reassign-collection", func(rd expr, t string, e expr) []stmt { return []stmt{asg(lb, e), asg(lb, rd)} }, lb},
		{"reassign-scalar", func(rd expr, t string, e expr) []stmt { return []stmt{asg(lb, lit(0)), asg(lb, rd)} }, lb},
		{"reassign-typed", func(rd expr, t string, e expr) []stmt { return []stmt{decl(t, "b", e), asg(lb, rd)} }, lb},
		{"reassign-var-declared", func(rd expr, t string, e expr) []stmt { return []stmt{decl("var", "b", lit(0)), asg(lb, rd)} }, lb},
		{"reassign-from-inner-block", func(rd expr, t string, e expr) []stmt {
			return []stmt{asg(lb, e), sIf{conds: []expr{lit(true)}, blocks: [][]stmt{{asg(lb, rd)}}}}
		}, lb},
		{"reassign-twice", func(rd expr, t string, e expr) []stmt { return []stmt{asg(lb, rd), asg(lb, e), asg(lb, rd)} }, lb},
		{"reassign-same-source-twice", func(rd expr, t string, e expr) []stmt { return []stmt{asg(lb, rd), asg(lb, rd)} }, lb},
		{"via-existing-local", func(rd expr, t string, e expr) []stmt {
			return []stmt{asg(loc("t"), lit(0)), asg(loc("t"), rd), asg(lb, lit(0)), asg(lb, loc("t"))}
		}, lb},
		{"oosvar-new", func(rd expr, t string, e expr) []stmt { return one(asg(oos("b"), rd)) }, oos("b")},
		{"oosvar-existing", func(rd expr, t string, e expr) []stmt { return []stmt{asg(oos("b"), e), asg(oos("b"), rd)} }, oos("b")},
		{"oosvar-indexed", func(rd expr, t string, e expr) []stmt { return one(asg(idx(oos("b"), lit("k")), rd)) }, idx(oos("b"), lit("k"))},
		{"field-new", func(rd expr, t string, e expr) []stmt { return one(asg(fld("b"), rd)) }, fld("b")},
		{"field-existing", func(rd expr, t string, e expr) []stmt { return []stmt{asg(fld("b"), e), asg(fld("b"), rd)} }, fld("b")},
		{"local-indexed", func(rd expr, t string, e expr) []stmt { return []stmt{asg(lb, mapLit()), asg(idx(lb, lit("k")), rd)} }, idx(lb, lit("k"))},
		{"local-indexed-existing", func(rd expr, t string, e expr) []stmt {
			return []stmt{asg(lb, mapLit(lit("k"), e)), asg(idx(lb, lit("k")), rd)}
		}, idx(lb, lit("k"))},
		{"full-record-literal", func(rd expr, t string, e expr) []stmt { return one(asg(eSrec{}, mapLit(lit("b"), rd))) }, fld("b")},
		{"map-literal-existing", func(rd expr, t string, e expr) []stmt { return []stmt{asg(lb, lit(0)), asg(lb, mapLit(lit("k"), rd))} }, idx(lb, lit("k"))},
	}
	wrap := func(size int, top []stmt) *progCase {
		return &progCase{family: "alias", size: size, top: top, input: oneRec(), stdin: oneRecText, opts: runOpts{q: true}}
	}
	observe := func(s, d expr) []stmt {
		return []stmt{pr(lit("src:")), pr(s), pr(lit("dst:")), pr(d)}
	}
	for vi, v := range []expr{mapV, arrV} {
		isMap := vi == 0
		typ, empty := "map", mapLit()
		if !isMap {
			typ, empty = "arr", arrLit()
		}
		for _, s := range srcs {
			for _, d := range dsts {
				for _, m := range aliasMutations(isMap) {
					for side := 0; side < 2; side++ {
						v, s, d, m, side := v, s, d, m, side
						emit(func() *progCase {
							body := append([]stmt{}, s.setup(v)...)
							body = append(body, d.bind(s.rd, typ, empty)...)
							if side == 0 {
								body = append(body, m.mk(d.lv))
							} else {
								body = append(body, m.mk(s.rd))
							}
							body = append(body, observe(s.rd, d.lv)...)
							return wrap(1, body)
						})
					}
				}
			}
		}
	}

	// ---- emitted records must be snapshots: mutate the source after the emit statement
	mV := mapLit(lit("z"), lit(1), lit("y"), lit(2))
	nV := mapLit(lit("g"), mapLit(lit("z"), lit(1)), lit("h"), mapLit(lit("z"), lit(2)))
	type emitCase struct {
		name  string
		setup []stmt
		em    stmt
		muts  []stmt
	}
	va, vb := oos("a"), oos("b")
	ecs := []emitCase{
		{"emit1-oosvar", []stmt{asg(va, mV)}, sEmit1{va}, []stmt{asg(idx(va, lit("z")), lit(9)), asg(idx(va, lit("new")), lit(9)), sUnset{[]expr{idx(va, lit("y"))}}, asg(va, lit(0))}},
		{"emit1-local", []stmt{asg(la, mV)}, sEmit1{la}, []stmt{asg(idx(la, lit("z")), lit(9)), asg(idx(la, lit("new")), lit(9)), sUnset{[]expr{idx(la, lit("y"))}}}},
		{"emit1-nested", []stmt{asg(va, nV)}, sEmit1{va}, []stmt{asg(idx(va, lit("g"), lit("z")), lit(9)), sUnset{[]expr{idx(va, lit("h"))}}}},
		{"emit1-sub", []stmt{asg(va, nV)}, sEmit1{idx(va, lit("g"))}, []stmt{asg(idx(va, lit("g"), lit("z")), lit(9))}},
		{"emit1-field", []stmt{asg(fld("m"), mV)}, sEmit1{fld("m")}, []stmt{asg(idx(fld("m"), lit("z")), lit(9))}},
		{"emit1-srec", nil, sEmit1{eSrec{}}, []stmt{asg(fld("a"), lit(9)), asg(fld("new"), lit(9)), sUnset{[]expr{fld("b")}}}},
		{"emit1-all-oosvars", []stmt{asg(va, lit(1)), asg(vb, lit(2))}, sEmit1{eOosAll{}}, []stmt{asg(va, lit(9)), sUnset{[]expr{vb}}}},
		{"emit-oosvar", []stmt{asg(va, mV)}, sEmit{kw: "emit", items: []expr{va}}, []stmt{asg(idx(va, lit("z")), lit(9)), asg(idx(va, lit("new")), lit(9))}},
		{"emitp-oosvar", []stmt{asg(va, mV)}, sEmit{kw: "emitp", items: []expr{va}}, []stmt{asg(idx(va, lit("z")), lit(9))}},
		{"emit-local", []stmt{asg(la, mV)}, sEmit{kw: "emit", items: []expr{la}}, []stmt{asg(idx(la, lit("z")), lit(9))}},
		{"emit-by-name", []stmt{asg(va, nV)}, sEmit{kw: "emit", items: []expr{va}, names: []expr{lit("k")}}, []stmt{asg(idx(va, lit("g"), lit("z")), lit(9)), asg(idx(va, lit("h"), lit("new")), lit(9))}},
		{"emitp-by-name", []stmt{asg(va, nV)}, sEmit{kw: "emitp", items: []expr{va}, names: []expr{lit("k")}}, []stmt{asg(idx(va, lit("g"), lit("z")), lit(9))}},
		{"emit-nested-no-names", []stmt{asg(va, nV)}, sEmit{kw: "emit", items: []expr{va}}, []stmt{asg(idx(va, lit("g"), lit("z")), lit(9))}},
		{"emitp-nested-no-names", []stmt{asg(va, nV)}, sEmit{kw: "emitp", items: []expr{va}}, []stmt{asg(idx(va, lit("g"), lit("z")), lit(9))}},
		{"emit-lashed", []stmt{asg(va, mapLit(lit("g"), lit(1))), asg(vb, mapLit(lit("g"), lit(2)))}, sEmit{kw: "emit", lashed: true, items: []expr{va, vb}, names: []expr{lit("k")}}, []stmt{asg(idx(va, lit("g")), lit(9)), asg(idx(vb, lit("g")), lit(9))}},
		{"emit-all", []stmt{asg(va, nV)}, sEmit{kw: "emit", items: []expr{eOosAll{}}, names: []expr{lit("k"), lit("l")}}, []stmt{asg(idx(va, lit("g"), lit("z")), lit(9))}},
		{"emitf", []stmt{asg(va, lit(1)), asg(vb, lit(2))}, sEmitF{[]expr{va, vb}}, []stmt{asg(va, lit(9))}},
	}
	for _, ec := range ecs {
		for _, mu := range ec.muts {
			for _, where := range []string{"main", "end", "func"} {
				ec, mu, where := ec, mu, where
				if where != "main" {
					if usesRecord(ec.em) || usesRecordStmts(ec.setup) || usesRecord(mu) {
						continue
					}
				}
				emit(func() *progCase {
					body := append(append([]stmt{}, ec.setup...), ec.em, mu, pr(lit("after")))
					switch where {
					case "main":
						return &progCase{family: "alias", size: 2, top: body, input: oneRec(), stdin: oneRecText, opts: runOpts{q: true}, flat: true, cause: "emitted-record-then-source-changed"}
					case "end":
						return &progCase{family: "alias", size: 2, top: []stmt{sEnd{body}}, noInput: true, flat: true, cause: "emitted-record-then-source-changed"}
					}
					// emitted twice from a subroutine called twice: the first record must keep its values
					top := []stmt{sSubr{"s", nil, body}, sEnd{[]stmt{sCall{"s", nil}, sCall{"s", nil}}}}
					return &progCase{family: "alias", size: 2, top: top, noInput: true, flat: true, cause: "emitted-record-then-source-changed"}
				})
			}
		}
	}

	// ---- functions and subroutines
	key := func(isMap bool) expr {
		if isMap {
			return lit("added")
		}
		return lit(1)
	}
	for vi, v := range []expr{mapV, arrV} {
		isMap := vi == 0
		k := key(isMap)
		empty := expr(mapLit())
		if !isMap {
			empty = arrLit()
		}
		p, q, t := loc("p"), loc("q"), loc("t")
		type fc struct {
			name string
			defs []stmt
			main []stmt
		}
		setA := []stmt{asg(la, v), asg(oos("a"), v), asg(lb, empty)}
		fcs := []fc{
			{"param-reassigned-from-param", []stmt{sFunc{"f", []param{{"p", ""}, {"q", ""}}, "", []stmt{asg(p, q), asg(idx(p, k), lit(9)), sReturn{q}}}},
				[]stmt{asg(loc("r"), call("f", empty, la)), pr(loc("r")), pr(la)}},
			{"local-reassigned-from-param", []stmt{sFunc{"f", []param{{"p", ""}}, "", []stmt{asg(t, empty), asg(t, p), asg(idx(t, k), lit(9)), sReturn{p}}}},
				[]stmt{asg(loc("r"), call("f", la)), pr(loc("r")), pr(la)}},
			{"param-then-mutate-local", []stmt{sFunc{"f", []param{{"p", ""}}, "", []stmt{asg(t, lit(0)), asg(t, p), asg(idx(p, k), lit(9)), sReturn{t}}}},
				[]stmt{asg(loc("r"), call("f", la)), pr(loc("r")), pr(la)}},
			{"oosvar-returned-into-existing-local", []stmt{sFunc{"g", nil, "", []stmt{sReturn{oos("a")}}}},
				[]stmt{asg(lb, call("g")), asg(idx(lb, k), lit(9)), pr(lb), pr(oos("a"))}},
			{"oosvar-returned-then-oosvar-mutated", []stmt{sFunc{"g", nil, "", []stmt{sReturn{oos("a")}}}},
				[]stmt{asg(lb, call("g")), asg(idx(oos("a"), k), lit(9)), pr(lb), pr(oos("a"))}},
			{"local-returned-twice", []stmt{sFunc{"g", []param{{"p", ""}}, "", []stmt{asg(t, empty), asg(t, p), sReturn{t}}}},
				[]stmt{asg(lb, call("g", la)), asg(loc("c"), lit(0)), asg(loc("c"), call("g", la)), asg(idx(lb, k), lit(9)), pr(lb), pr(loc("c")), pr(la)}},
			{"subr-stores-param-in-existing-oosvar", []stmt{sSubr{"s", []param{{"p", ""}}, []stmt{asg(oos("b"), empty), asg(oos("b"), p), asg(idx(oos("b"), k), lit(9))}}},
				[]stmt{sCall{"s", []expr{la}}, pr(la), pr(oos("b"))}},
			{"subr-param-reassigned-from-oosvar", []stmt{sSubr{"s", []param{{"p", ""}}, []stmt{asg(p, oos("a")), asg(idx(p, k), lit(9)), pr(p)}}},
				[]stmt{sCall{"s", []expr{empty}}, pr(oos("a"))}},
			{"recursive-reassign", []stmt{sFunc{"f", []param{{"n", ""}, {"p", ""}}, "", []stmt{
				asg(t, empty), asg(t, p),
				sIf{conds: []expr{bin(">", loc("n"), lit(0))}, blocks: [][]stmt{{asg(t, call("f", bin("-", loc("n"), lit(1)), p))}}},
				asg(idx(t, k), loc("n")), sReturn{p}}}},
				[]stmt{asg(loc("r"), call("f", lit(2), la)), pr(loc("r")), pr(la)}},
		}
		for _, c := range fcs {
			for _, inEnd := range []bool{true, false} {
				c, inEnd := c, inEnd
				emit(func() *progCase {
					main := append(append([]stmt{}, setA...), c.main...)
					if inEnd {
						return &progCase{family: "alias", size: 3, top: append(append([]stmt{}, c.defs...), sEnd{main}), noInput: true}
					}
					return wrap(3, append(append([]stmt{}, c.defs...), main...))
				})
			}
		}
	}

	// ---- loops: bound values at iteration 1, 2, 3 and locals re-assigned in every iteration
	e3 := func(mk func(i int) expr) expr { return mapLit(lit("k1"), mk(1), lit("k2"), mk(2), lit("k3"), mk(3)) }
	innerMap := func(i int) expr { return mapLit(lit("z"), lit(i), lit("w"), mapLit(lit("q"), lit(i))) }
	innerArr := func(i int) expr { return arrLit(lit(i), arrLit(lit(i), lit(i))) }
	conts := []aliasLoc{
		{"local", func(v expr) []stmt { return []stmt{asg(loc("m"), v)} }, loc("m")},
		{"oosvar", func(v expr) []stmt { return []stmt{asg(oos("m"), v)} }, oos("m")},
		{"field", func(v expr) []stmt { return []stmt{asg(fld("m"), v)} }, fld("m")},
		{"oosvar-sub", func(v expr) []stmt { return []stmt{asg(oos("m"), mapLit(lit("in"), v))} }, idx(oos("m"), lit("in"))},
	}
	for ii, inner := range []func(int) expr{innerMap, innerArr} {
		isMap := ii == 0
		k := key(isMap)
		var k2 []expr
		if isMap {
			k2 = []expr{lit("w"), lit("q")}
		} else {
			k2 = []expr{lit(2), lit(1)}
		}
		empty := expr(mapLit())
		if !isMap {
			empty = arrLit()
		}
		mapOf := e3(inner)
		arrOf := arrLit(inner(1), inner(2), inner(3))
		v, t, e := loc("v"), loc("t"), loc("e")
		for _, c := range conts {
			M := c.rd
			type lc struct {
				name string
				coll expr
				loop []stmt
			}
			mut1 := func(l expr) stmt { return asg(idx(l, k), lit(9)) }
			mut2 := func(l expr) stmt { return asg(idx(l, k2...), lit(9)) }
			it := loc("i")
			lcs := []lc{
				{"for2-bound-value", mapOf, []stmt{sFor2{"k", "v", M, []stmt{mut1(v), mut2(v)}}}},
				{"for2-bound-value-print", mapOf, []stmt{sFor2{"k", "v", M, []stmt{mut1(v), pr(v)}}}},
				{"for2-source-mutated-in-body", mapOf, []stmt{sFor2{"k", "v", M, []stmt{asg(idx(M, loc("k"), k), lit(9)), pr(v)}}}},
				{"for2-array-bound-value", arrOf, []stmt{sFor2{"k", "v", M, []stmt{mut1(v), mut2(v)}}}},
				{"for1-array-bound-value", arrOf, []stmt{sFor1{"e", M, []stmt{mut1(e), mut2(e)}}}},
				{"forN-bound-value", mapLit(lit("o"), mapOf), []stmt{sForN{[]string{"k1", "k2"}, "v", M, []stmt{mut1(v), mut2(v)}}}},
				{"for2-outer-local-reassigned", mapOf, []stmt{asg(t, empty), sFor2{"k", "v", M, []stmt{asg(t, v), mut1(t), mut2(t)}}, pr(t)}},
				{"for2-outer-local-reassigned-from-source", mapOf, []stmt{asg(t, empty), sFor2{"k", "v", M, []stmt{asg(t, idx(M, loc("k"))), mut1(t), mut2(t)}}, pr(t)}},
				{"for1-outer-local-reassigned-from-source", mapOf, []stmt{asg(t, lit(0)), sFor1{"k", M, []stmt{asg(t, idx(M, loc("k"))), mut1(t)}}, pr(t)}},
				{"for2-loop-variable-reassigned", mapOf, []stmt{asg(loc("other"), inner(7)), sFor2{"k", "v", M, []stmt{asg(v, loc("other")), mut1(v), mut2(v)}}, pr(loc("other"))}},
				{"for2-collect-into-outer-map", mapOf, []stmt{asg(t, mapLit()), sFor2{"k", "v", M, []stmt{asg(idx(t, loc("k")), v)}}, asg(idx(t, lit("k2"), k), lit(9)), pr(t)}},
				{"for3-outer-local-reassigned", arrOf, []stmt{asg(t, empty), sFor3{start: []stmt{decl("int", "i", lit(1))}, cont: []stmt{sBare{bin("<=", it, lit(3))}}, upd: []stmt{opasg(it, "+", lit(1))},
					body: []stmt{asg(t, idx(M, it)), mut1(t), mut2(t)}}, pr(t)}},
				{"while-outer-local-reassigned", arrOf, []stmt{asg(t, empty), asg(it, lit(0)), sWhile{bin("<", it, lit(3)), []stmt{opasg(it, "+", lit(1)), asg(t, idx(M, it)), mut1(t)}}, pr(t)}},
				{"do-while-outer-local-reassigned", arrOf, []stmt{asg(t, empty), asg(it, lit(0)), sDo{[]stmt{opasg(it, "+", lit(1)), asg(t, idx(M, it)), mut1(t), mut2(t)}, bin("<", it, lit(3))}, pr(t)}},
				{"for2-oosvar-reassigned", mapOf, []stmt{asg(oos("t"), empty), sFor2{"k", "v", M, []stmt{asg(oos("t"), v), asg(idx(oos("t"), k), lit(9))}}, pr(oos("t"))}},
			}
			for _, l := range lcs {
				c, l := c, l
				emit(func() *progCase {
					body := append([]stmt{}, c.setup(l.coll)...)
					body = append(body, l.loop...)
					body = append(body, pr(lit("source:")), pr(M))
					return wrap(4, body)
				})
			}
		}
	}
}

func usesRecord(s stmt) bool {
	switch t := s.(type) {
	case sEmit1:
		return exprUsesRecord(t.e)
	case sEmit:
		for _, x := range t.items {
			if exprUsesRecord(x) {
				return true
			}
		}
	case sAssign:
		return exprUsesRecord(t.lhs) || exprUsesRecord(t.rhs)
	case sUnset:
		for _, x := range t.targets {
			if exprUsesRecord(x) {
				return true
			}
		}
	}
	return false
}

func usesRecordStmts(ss []stmt) bool {
	for _, s := range ss {
		if usesRecord(s) {
			return true
		}
	}
	return false
}

func exprUsesRecord(e expr) bool {
	switch t := e.(type) {
	case eField, eSrec, eFieldX:
		return true
	case eIndex:
		return exprUsesRecord(t.base) || exprUsesRecord(t.idx)
	case eMapLit:
		for i := range t.keys {
			if exprUsesRecord(t.keys[i]) || exprUsesRecord(t.vals[i]) {
				return true
			}
		}
	}
	return false
}
