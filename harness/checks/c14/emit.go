package c14

// Reference semantics of emit / emitp / emitf, restricted to the shapes that
// docs/src/reference-dsl-output-statements.md and the keyword usage text
// determine; every other shape raises unconErr (counted, not asserted).
//
//   emit  : "indices present in the data but not slotted by emit arguments are
//            not output" - after the names are used up the remaining map is
//            splayed into the record (no prefix); a remaining scalar is stored
//            under the variable's name. Without names a nested map is split
//            down to its terminal maps, one record each.
//   emitp : the remainder is stored under the variable's name (prefixed); a
//            non-JSON writer flattens it to name.key.key (":" in the keyword
//            text, "." in the examples: the comparison canonicalises both).

func emittableName(e expr) (string, bool) {
	switch t := e.(type) {
	case eOos:
		return t.name, true
	case eLocal:
		return t.name, true
	case eField:
		return t.name, true
	}
	return "", false
}

func isNested(m *omap) (nested, mixed bool) {
	nm := 0
	for _, e := range m.e {
		if e.v.k == kMap {
			nm++
		}
	}
	return nm > 0, nm > 0 && nm < len(m.e)
}

func (in *interp) emit(t sEmit) {
	if t.redir != "" {
		uncon("redirected emit")
	}
	isP := t.kw == "emitp"
	names := make([]string, len(t.names))
	for i, n := range t.names {
		v := in.eval(n)
		if v.k != kStr {
			uncon("emit name of type %s", v.kindName())
		}
		names[i] = v.s
	}
	if len(t.items) == 1 {
		if _, all := t.items[0].(eOosAll); all {
			in.emitAll(isP, names)
			return
		}
	}
	for _, it := range t.items {
		switch it.(type) {
		case eMapLit, eSrec:
			// the usage text equates `emit > f, $*` with tee (one record); the implementation and
			// `emit @*` treat the top-level keys as variable names (one record each): not asserted
			uncon("emit of a map literal or $*: one record, or one per top-level key")
		}
	}
	vals := make([]val, len(t.items))
	vnames := make([]string, len(t.items))
	for i, it := range t.items {
		vals[i] = in.eval(it)
		n, ok := emittableName(it)
		if !ok {
			n = "" // map literal, $*, function return value: only shapes where the name is not needed
		}
		vnames[i] = n
		if vals[i].k == kAbsent {
			uncon("emit of an absent variable")
		}
	}
	if t.lashed {
		in.emitLashed(isP, vnames, vals, names)
		return
	}
	if len(vals) != 1 {
		uncon("several emittables without parentheses")
	}
	in.emitOne(isP, vnames[0], vals[0], names)
}

func (in *interp) emitOne(isP bool, vname string, v val, names []string) {
	if len(names) == 0 {
		switch v.k {
		case kMap:
			if isP {
				if vname == "" {
					uncon("emitp of an unnamed map")
				}
				in.hit("sem:emitp-no-names-prefixed")
				r := &omap{}
				r.put(vname, v)
				in.emitRecord(r)
				return
			}
			in.emitSplit(v.m)
		case kInt, kStr, kBool:
			if vname == "" {
				uncon("emit of an unnamed scalar")
			}
			in.hit("sem:emit-scalar")
			r := &omap{}
			r.put(vname, v)
			in.emitRecord(r)
		default:
			uncon("emit of a %s", v.kindName())
		}
		return
	}
	if v.k != kMap {
		uncon("emit by names of a %s", v.kindName())
	}
	in.emitByNames(isP, vname, v.m, names, &omap{}, len(names))
}

// emit @v with no names: split a nested map down to its terminal maps.
func (in *interp) emitSplit(m *omap) {
	nested, mixed := isNested(m)
	if mixed {
		uncon("emit of a map mixing terminals and maps")
	}
	if !nested {
		if len(m.e) == 0 {
			uncon("emit of an empty map")
		}
		in.hit("sem:emit-terminal-map-as-record")
		in.emitRecord(m)
		return
	}
	in.hit("sem:emit-no-names-splits-nested")
	for _, e := range m.e {
		in.emitSplit(e.v.m)
	}
}

func (in *interp) emitByNames(isP bool, vname string, m *omap, names []string, tmpl *omap, nNames int) {
	for _, e := range m.e {
		r := vMap(tmpl).deepCopy().m
		if _, clash := r.get(names[0]); clash {
			uncon("emit name repeats")
		}
		r.put(names[0], vStr(e.k))
		if len(names) > 1 {
			if e.v.k != kMap {
				uncon("more emit names than map levels")
			}
			in.emitByNames(isP, vname, e.v.m, names[1:], r, nNames)
			continue
		}
		// names used up
		switch {
		case e.v.k == kMap && !isP:
			if nNames >= 2 {
				// documented only for one name (remainder splayed); with two or more names the shipped
				// `emit @*,"a","b"` example keeps the remainder under the variable's name
				uncon("emit by two or more names that do not reach the leaves")
			}
			in.hit("sem:emit-by-names-remainder-splayed")
			for _, x := range e.v.m.e {
				if _, clash := r.get(x.k); clash {
					uncon("splayed key collides with an emit name")
				}
				r.put(x.k, x.v)
			}
		case e.v.k == kMap && isP:
			if vname == "" {
				uncon("emitp of an unnamed map")
			}
			in.hit("sem:emitp-by-names-remainder-prefixed")
			r.put(vname, e.v)
		case e.v.k == kInt || e.v.k == kStr || e.v.k == kBool:
			if vname == "" {
				uncon("leaf name of an unnamed emittable")
			}
			if _, clash := r.get(vname); clash {
				uncon("variable name collides with an emit name")
			}
			in.hit("sem:emit-by-names-leaf-under-variable-name")
			r.put(vname, e.v)
		default:
			uncon("emit leaf of type %s", e.v.kindName())
		}
		in.emitRecord(r)
	}
}

// lashed: walk the first variable; for each key list include the values of the others.
// Only asserted when the names index all variables down to scalars and all have the same key lists.
func (in *interp) emitLashed(isP bool, vnames []string, vals []val, names []string) {
	if len(names) == 0 {
		// documented: emit (@count, @sum) with scalars gives one record count=..,sum=..
		r := &omap{}
		for i, v := range vals {
			if (v.k != kInt && v.k != kStr && v.k != kBool) || vnames[i] == "" {
				uncon("lashed emit of non-scalars without names")
			}
			r.put(vnames[i], v)
		}
		in.hit("sem:emit-lashed-scalars-side-by-side")
		in.emitRecord(r)
		return
	}
	for i, v := range vals {
		if v.k != kMap || vnames[i] == "" {
			uncon("lashed emit of a non-map or unnamed emittable")
		}
	}
	var walk func(ms []*omap, names []string, tmpl *omap)
	walk = func(ms []*omap, names []string, tmpl *omap) {
		for _, e := range ms[0].e {
			r := vMap(tmpl).deepCopy().m
			r.put(names[0], vStr(e.k))
			subs := make([]val, len(ms))
			for i, m := range ms {
				v, ok := m.get(e.k)
				if !ok || len(m.e) != len(ms[0].e) {
					uncon("lashed emit of maps with different key lists")
				}
				subs[i] = v
			}
			if len(names) > 1 {
				next := make([]*omap, len(ms))
				for i, s := range subs {
					if s.k != kMap {
						uncon("lashed: more names than levels")
					}
					next[i] = s.m
				}
				walk(next, names[1:], r)
				continue
			}
			for i, s := range subs {
				if s.k != kInt && s.k != kStr && s.k != kBool {
					uncon("lashed emit whose names do not reach the leaves")
				}
				r.put(vnames[i], s)
			}
			in.hit("sem:emit-lashed-record")
			in.emitRecord(r)
		}
	}
	ms := make([]*omap, len(vals))
	for i, v := range vals {
		ms[i] = v.m
	}
	walk(ms, names, &omap{})
}

// emit @* / emit all: each out-of-stream variable in turn (documented example:
// emit @*,"a","b" with @sum and @count prints all sum records, then all count records).
// Asserted only when the names reach the leaves.
func (in *interp) emitAll(isP bool, names []string) {
	if len(in.oos.e) == 0 {
		uncon("emit @* with no variables")
	}
	for _, e := range in.oos.e {
		if len(names) == 0 {
			if e.v.k != kInt && e.v.k != kStr && e.v.k != kBool {
				uncon("emit @* of non-scalars without names")
			}
			if len(in.oos.e) != 1 {
				uncon("emit @* of several scalars")
			}
			r := &omap{}
			r.put(e.k, e.v)
			in.emitRecord(r)
			continue
		}
		if e.v.k != kMap {
			uncon("emit @* by names of a scalar variable")
		}
		if depthOf(e.v) != len(names) {
			uncon("emit @* whose names do not reach the leaves")
		}
		in.hit("sem:emit-all-per-variable")
		in.emitByNames(isP, e.k, e.v.m, names, &omap{}, len(names))
	}
}

// depthOf: uniform depth of a map (0 for scalars); -1 when not uniform.
func depthOf(v val) int {
	if v.k != kMap {
		return 0
	}
	d := -2
	for _, e := range v.m.e {
		x := depthOf(e.v)
		if x < 0 || (d != -2 && x != d) {
			return -1
		}
		d = x
	}
	if d == -2 {
		return -1
	}
	return d + 1
}

func (in *interp) emitf(t sEmitF) {
	r := &omap{}
	for _, it := range t.items {
		n, ok := emittableName(it)
		if !ok {
			uncon("emitf of an unnamed expression")
		}
		v := in.eval(it)
		if v.k != kInt && v.k != kStr && v.k != kBool {
			uncon("emitf of a %s", v.kindName())
		}
		if _, dup := r.get(n); dup {
			uncon("emitf of the same name twice")
		}
		r.put(n, v)
	}
	in.hit("sem:emitf-side-by-side")
	in.emitRecord(r)
}
