package c14

// Family "emit": for every uniform-depth map shape (depth 0..3, fan-out 1..2,
// <= 4 leaves) plus a few irregular ones: emit1 / emit / emitp, without names
// and by 1..3 names, lashed pairs, emit @* / emit all, emit of a map literal
// and of a map-valued local, emitf. Compared after flattening (emitp's joined
// key spelling is canonicalised).

import "fmt"

type shape struct {
	name string
	v    val
}

// all uniform-depth trees with fan-out 1..2 per node and at most maxLeaves leaves
func emitShapes(maxLeaves int) []shape {
	keys := [][]string{{"x", "y"}, {"p", "q"}, {"a", "b"}}
	var out []shape
	out = append(out, shape{"scalar", vInt(5)})
	counter := 0
	var build func(level, depth int) []val
	build = func(level, depth int) []val {
		if level == depth {
			return []val{{k: kInt, i: -1}} // leaf placeholder
		}
		subs := build(level+1, depth)
		var res []val
		ks := keys[3-depth+level]
		// fan-out 1
		for _, s := range subs {
			m := &omap{}
			m.put(ks[0], s)
			res = append(res, vMap(m))
		}
		// fan-out 2: every ordered pair of subtrees
		for _, s1 := range subs {
			for _, s2 := range subs {
				m := &omap{}
				m.put(ks[0], s1)
				m.put(ks[1], s2)
				res = append(res, vMap(m))
			}
		}
		return res
	}
	var leaves func(v val) int
	leaves = func(v val) int {
		if v.k != kMap {
			return 1
		}
		n := 0
		for _, e := range v.m.e {
			n += leaves(e.v)
		}
		return n
	}
	var fill func(v val) val
	fill = func(v val) val {
		if v.k != kMap {
			counter++
			return vInt(int64(counter))
		}
		m := &omap{}
		for _, e := range v.m.e {
			m.put(e.k, fill(e.v))
		}
		return vMap(m)
	}
	for depth := 1; depth <= 3; depth++ {
		for i, t := range build(0, depth) {
			if leaves(t) > maxLeaves {
				continue
			}
			counter = 0
			out = append(out, shape{fmt.Sprintf("d%d-%d", depth, i), fill(t)})
		}
	}
	// irregular: different inner keys, mixed terminals and maps, an empty map
	mk := func(kvs ...any) val {
		m := &omap{}
		for i := 0; i+1 < len(kvs); i += 2 {
			switch t := kvs[i+1].(type) {
			case int:
				m.put(kvs[i].(string), vInt(int64(t)))
			case val:
				m.put(kvs[i].(string), t)
			}
		}
		return vMap(m)
	}
	out = append(out,
		shape{"diffkeys", mk("x", mk("a", 1), "y", mk("b", 2))},
		shape{"mixed", mk("x", 1, "y", mk("a", 2))},
		shape{"empty", mk()},
		shape{"strleaf", func() val { m := &omap{}; m.put("x", vStr("pan")); m.put("y", vStr("eks")); return vMap(m) }()},
	)
	return out
}

func valToExpr(v val) expr {
	switch v.k {
	case kInt:
		return lit(v.i)
	case kStr:
		return lit(v.s)
	case kBool:
		return lit(v.b)
	case kMap:
		m := eMapLit{}
		for _, e := range v.m.e {
			m.keys = append(m.keys, lit(e.k))
			m.vals = append(m.vals, valToExpr(e.v))
		}
		return m
	}
	panic("valToExpr")
}

func plus(v val, d int64) val {
	switch v.k {
	case kInt:
		return vInt(v.i + d)
	case kMap:
		m := &omap{}
		for _, e := range v.m.e {
			m.put(e.k, plus(e.v, d))
		}
		return vMap(m)
	}
	return v
}

func genEmitFamily(a progArgs, emit func(func() *progCase)) {
	maxLeaves := 3
	if a.Level >= 1 {
		maxLeaves = 4
	}
	shapes := emitShapes(maxLeaves)
	nameSets := [][]expr{nil, {lit("g1")}, {lit("g1"), lit("g2")}, {lit("g1"), lit("g2"), lit("g3")}}
	v, w := oos("v"), oos("w")
	wrap := func(size int, body ...stmt) func() *progCase {
		return func() *progCase {
			return &progCase{family: "emit", size: size, top: []stmt{sEnd{body}}, noInput: true, flat: true}
		}
	}
	for si, sh := range shapes {
		lit1 := valToExpr(sh.v)
		lit2 := valToExpr(plus(sh.v, 10))
		setV := asg(v, lit1)
		setW := asg(w, lit2)
		if sh.v.k == kMap {
			emit(wrap(si, setV, sEmit1{v}))
			emit(wrap(si, sEmit1{lit1}))
		}
		for _, kw := range []string{"emit", "emitp"} {
			for _, ns := range nameSets {
				emit(wrap(si, setV, sEmit{kw: kw, items: []expr{v}, names: ns}))
				// the same variable as a local
				emit(wrap(si, asg(loc("v"), lit1), sEmit{kw: kw, items: []expr{loc("v")}, names: ns}))
				// lashed with a same-shaped second variable
				emit(wrap(si, setV, setW, sEmit{kw: kw, lashed: true, items: []expr{v, w}, names: ns}))
				// all out-of-stream variables
				emit(wrap(si, setV, setW, sEmit{kw: kw, items: []expr{eOosAll{}}, names: ns}))
				if sh.v.k == kMap {
					// a map literal as the emittable
					emit(wrap(si, sEmit{kw: kw, items: []expr{lit1}, names: ns}))
				}
			}
		}
		if sh.v.k != kMap {
			emit(wrap(si, setV, setW, sEmitF{[]expr{v, w}}))
			emit(wrap(si, setV, sEmitF{[]expr{v}}))
		}
	}
	// emit all == emit @* (law on the real code): same text with the keyword form
	// is covered by the pred worker.
}
