package c14

// Reference AST of the covered sub-language and its unparser. Expressions are
// printed with the minimal parentheses that the documented precedence and
// associativity table (docs/src/reference-dsl-operators.md) requires, so that
// the real parser must reconstruct the same shape from the table alone.

import (
	"strconv"
	"strings"
)

type expr interface{}
type stmt interface{}

type param struct{ name, typ string } // typ "" = untyped

type (
	eLit    struct{ v val }
	eMapLit struct{ keys, vals []expr }
	eArrLit struct{ elems []expr }
	eLocal  struct{ name string }
	eField  struct{ name string } // $name
	eFieldX struct{ e expr }      // $[e]
	ePosNam struct{ e expr }      // $[[e]]
	ePosVal struct{ e expr }      // $[[[e]]]
	eSrec   struct{}              // $*
	eOos    struct{ name string } // @name
	eOosAll struct{}              // @*
	eCtx    struct{ name string } // NR FNR NF
	eIndex  struct{ base, idx expr }
	eSlice  struct{ base, lo, hi expr } // lo/hi nil when omitted
	eUn     struct {
		op string
		e  expr
	}
	eBin struct {
		op   string
		l, r expr
	}
	eTern struct{ c, a, b expr }
	eCall struct {
		name string
		args []expr
	}
	eFuncLit struct {
		params []param
		ret    string
		body   []stmt
	}
	eParen struct{ e expr } // explicit, redundant parentheses (precedence family only)
)

type (
	sAssign struct {
		typ string // typed local declaration: "var","int","str","num","map","arr","bool","funct"; "" none
		lhs expr
		op  string // "" plain; "+", "-", "*", ".", "??", "min"... for compound
		rhs expr
	}
	sUnset struct{ targets []expr } // eLocal{"all"} never generated; use eOosAll
	sPrint struct {
		args []expr
		n    bool
	}
	sDump  struct{ e expr } // nil: all oosvars
	sEmit1 struct{ e expr }
	sEmit  struct {
		kw     string // "emit" | "emitp"
		lashed bool
		items  []expr
		names  []expr
		redir  string // "" | "stdout"
	}
	sEmitF  struct{ items []expr }
	sTee    struct{}         // tee > stdout, $*
	sFilter struct{ e expr } // filter e
	sBare   struct{ e expr } // bare boolean
	sIf     struct {
		conds  []expr
		blocks [][]stmt
		els    []stmt
		hasEls bool
	}
	sCond struct {
		c    expr
		body []stmt
	}
	sWhile struct {
		c    expr
		body []stmt
	}
	sDo struct {
		body []stmt
		c    expr
	}
	sFor1 struct {
		k    string
		over expr
		body []stmt
	}
	sFor2 struct {
		k, v string
		over expr
		body []stmt
	}
	sForN struct {
		ks   []string
		v    string
		over expr
		body []stmt
	}
	sFor3 struct {
		start, cont, upd []stmt
		body             []stmt
	}
	sBreak    struct{}
	sContinue struct{}
	sReturn   struct{ e expr } // nil: bare return
	sCall     struct {
		name string
		args []expr
	}
	sBegin struct{ body []stmt }
	sEnd   struct{ body []stmt }
	sFunc  struct {
		name   string
		params []param
		ret    string
		body   []stmt
	}
	sSubr struct {
		name   string
		params []param
		body   []stmt
	}
)

// helpers to build ASTs tersely
func lit(x any) expr {
	switch t := x.(type) {
	case int:
		return eLit{vInt(int64(t))}
	case int64:
		return eLit{vInt(t)}
	case string:
		return eLit{vStr(t)}
	case bool:
		return eLit{vBool(t)}
	}
	panic("lit")
}
func loc(n string) expr             { return eLocal{n} }
func fld(n string) expr             { return eField{n} }
func oos(n string) expr             { return eOos{n} }
func bin(op string, l, r expr) expr { return eBin{op, l, r} }
func idx(b expr, is ...expr) expr {
	for _, i := range is {
		b = eIndex{b, i}
	}
	return b
}
func call(n string, a ...expr) expr { return eCall{n, a} }
func mapLit(kvs ...expr) expr {
	m := eMapLit{}
	for i := 0; i+1 < len(kvs); i += 2 {
		m.keys = append(m.keys, kvs[i])
		m.vals = append(m.vals, kvs[i+1])
	}
	return m
}
func arrLit(es ...expr) expr               { return eArrLit{es} }
func asg(l, r expr) stmt                   { return sAssign{lhs: l, rhs: r} }
func decl(t, n string, r expr) stmt        { return sAssign{typ: t, lhs: eLocal{n}, rhs: r} }
func opasg(l expr, op string, r expr) stmt { return sAssign{lhs: l, op: op, rhs: r} }
func pr(es ...expr) stmt                   { return sPrint{args: es} }

// ---------------------------------------------------------------- precedence table (documented)

type opInfo struct {
	level int
	right bool
}

// Levels follow reference-dsl-operators.md, lowest binding = 1.
var binOps = map[string]opInfo{
	"||": {2, false}, "^^": {3, false}, "&&": {4, false},
	"==": {5, false}, "!=": {5, false}, "=~": {5, false}, "!=~": {5, false}, "<=>": {5, false},
	"<": {6, false}, "<=": {6, false}, ">": {6, false}, ">=": {6, false},
	"|": {7, false}, "^": {8, false}, "&": {9, false},
	"<<": {10, false}, ">>": {10, false}, ">>>": {10, false},
	"+": {11, false}, "-": {11, false},
	"*": {12, false}, "/": {12, false}, "//": {12, false}, "%": {12, false},
	".":   {13, false},
	"??":  {15, false},
	"???": {16, false},
	"**":  {17, true},
}

const (
	lvlTernary = 1
	lvlUnary   = 14
	lvlAtom    = 18
)

func exprLevel(e expr) int {
	switch t := e.(type) {
	case eBin:
		return binOps[t.op].level
	case eUn:
		return lvlUnary
	case eTern:
		return lvlTernary
	case eLit:
		if t.v.k == kInt && t.v.i < 0 {
			return lvlUnary // printed as unary minus applied to a literal
		}
	}
	return lvlAtom
}

// ---------------------------------------------------------------- unparser

type unparser struct {
	sb   strings.Builder
	hits map[string]int64 // grammar production hit counts
}

func (u *unparser) hit(p string) {
	if u.hits != nil {
		u.hits[p]++
	}
}

func (u *unparser) w(s string) { u.sb.WriteString(s) }

func (u *unparser) exprP(e expr, paren bool) {
	if paren {
		u.hit("Parenthesized")
		u.w("(")
		u.expr(e)
		u.w(")")
		return
	}
	u.expr(e)
}

func (u *unparser) expr(e expr) {
	switch t := e.(type) {
	case eLit:
		switch t.v.k {
		case kInt:
			u.hit("IntLiteral")
			u.w(strconv.FormatInt(t.v.i, 10))
		case kStr:
			u.hit("StringLiteral")
			u.w(`"` + t.v.s + `"`)
		case kBool:
			u.hit("BoolLiteral")
			u.w(strconv.FormatBool(t.v.b))
		default:
			panic("unparse: literal kind")
		}
	case eMapLit:
		u.hit("MapLiteral")
		u.w("{")
		for i := range t.keys {
			if i > 0 {
				u.w(", ")
			}
			u.hit("MapLiteralKeyValuePair")
			u.expr(t.keys[i])
			u.w(": ")
			u.expr(t.vals[i])
		}
		u.w("}")
	case eArrLit:
		u.hit("ArrayLiteral")
		u.w("[")
		for i, x := range t.elems {
			if i > 0 {
				u.w(", ")
			}
			u.expr(x)
		}
		u.w("]")
	case eLocal:
		u.hit("LocalVariable")
		u.w(t.name)
	case eField:
		u.hit("DirectFieldValue")
		u.w("$" + t.name)
	case eFieldX:
		u.hit("IndirectFieldValue")
		u.w("$[")
		u.expr(t.e)
		u.w("]")
	case ePosNam:
		u.hit("PositionalFieldName")
		u.w("$[[")
		u.expr(t.e)
		u.w("]]")
	case ePosVal:
		u.hit("PositionalFieldValue")
		u.w("$[[[")
		u.expr(t.e)
		u.w("]]]")
	case eSrec:
		u.hit("FullSrec")
		u.w("$*")
	case eOos:
		u.hit("DirectOosvarValue")
		u.w("@" + t.name)
	case eOosAll:
		u.hit("FullOosvar")
		u.w("@*")
	case eCtx:
		u.hit("ContextVariable:" + t.name)
		u.w(t.name)
	case eIndex:
		u.hit("ArrayOrMapIndexAccess")
		u.exprP(t.base, exprLevel(t.base) < lvlAtom)
		u.w("[")
		u.expr(t.idx)
		u.w("]")
	case eSlice:
		switch {
		case t.lo != nil && t.hi != nil:
			u.hit("ArraySliceLoHi")
		case t.lo != nil:
			u.hit("ArraySliceLoOnly")
		case t.hi != nil:
			u.hit("ArraySliceHiOnly")
		default:
			u.hit("ArraySliceFull")
		}
		u.exprP(t.base, exprLevel(t.base) < lvlAtom)
		u.w("[")
		if t.lo != nil {
			u.expr(t.lo)
		}
		u.w(":")
		if t.hi != nil {
			u.expr(t.hi)
		}
		u.w("]")
	case eUn:
		u.hit("Operator:unary" + t.op)
		u.w(t.op)
		// operand: anything binding at least as tightly as a unary operator needs no parentheses
		needs := exprLevel(t.e) < lvlUnary
		if !needs {
			// keep "- -x" and "+ +x" from lexing as one token
			if inner, ok := t.e.(eUn); ok && inner.op == t.op {
				u.w(" ")
			}
			if l, ok := t.e.(eLit); ok && l.v.k == kInt && l.v.i < 0 && t.op == "-" {
				u.w(" ")
			}
		}
		u.exprP(t.e, needs)
	case eBin:
		u.hit("Operator:" + t.op)
		info := binOps[t.op]
		ll, rl := exprLevel(t.l), exprLevel(t.r)
		lp := ll < info.level || (ll == info.level && info.right)
		rp := rl < info.level || (rl == info.level && !info.right)
		u.exprP(t.l, lp)
		u.w(" " + t.op + " ")
		u.exprP(t.r, rp)
	case eTern:
		u.hit("Operator:?:")
		// right-associative: a nested ternary needs parentheses only in the condition position
		u.exprP(t.c, exprLevel(t.c) <= lvlTernary)
		u.w(" ? ")
		u.exprP(t.a, false)
		u.w(" : ")
		u.exprP(t.b, false)
	case eCall:
		u.hit("FunctionCallsite")
		u.w(t.name + "(")
		for i, a := range t.args {
			if i > 0 {
				u.w(", ")
			}
			u.expr(a)
		}
		u.w(")")
	case eFuncLit:
		u.hit("UnnamedFunctionDefinition")
		u.w("func")
		u.params(t.params)
		if t.ret != "" {
			u.w(": " + t.ret)
		}
		u.w(" ")
		u.block(t.body)
	case eParen:
		u.hit("Parenthesized")
		u.exprP(t.e, true)
	default:
		panic("unparse: unknown expr")
	}
}

func (u *unparser) params(ps []param) {
	u.w("(")
	for i, p := range ps {
		if i > 0 {
			u.w(", ")
		}
		if p.typ != "" {
			u.hit("Parameter:typed:" + p.typ)
			u.w(p.typ + " ")
		} else {
			u.hit("Parameter:untyped")
		}
		u.w(p.name)
	}
	u.w(")")
}

func (u *unparser) block(b []stmt) {
	u.w("{")
	u.stmts(b)
	u.w("}")
}

// braceful statements need no semicolon after them, but one is always legal.
func (u *unparser) stmts(b []stmt) {
	for i, s := range b {
		if i > 0 {
			u.w("; ")
		}
		u.stmt(s)
	}
}

func (u *unparser) commaStmts(b []stmt) {
	for i, s := range b {
		if i > 0 {
			u.w(", ")
		}
		u.stmt(s)
	}
}

func (u *unparser) stmt(s stmt) {
	switch t := s.(type) {
	case sAssign:
		if t.typ != "" {
			u.hit("TypedeclLocalVariable:" + t.typ)
			u.w(t.typ + " ")
		}
		u.lvalueHit(t.lhs)
		u.expr(t.lhs)
		if t.op == "" {
			u.hit("Assignment")
			u.w(" = ")
		} else if t.op == "min" {
			panic("no min= operator")
		} else {
			u.hit("CompoundAssignment:" + t.op + "=")
			u.w(" " + t.op + "= ")
		}
		u.expr(t.rhs)
	case sUnset:
		u.hit("Unset")
		u.w("unset ")
		for i, x := range t.targets {
			if i > 0 {
				u.w(", ")
			}
			u.hit("Unset:" + lvalueKind(x))
			u.expr(x)
		}
	case sPrint:
		if t.n {
			u.hit("PrintnStatement")
			u.w("printn")
		} else {
			u.hit("PrintStatement")
			u.w("print")
		}
		for i, x := range t.args {
			if i > 0 {
				u.w(",")
			}
			u.w(" ")
			u.expr(x)
		}
	case sDump:
		u.hit("DumpStatement")
		u.w("dump")
		if t.e != nil {
			u.w(" ")
			u.expr(t.e)
		}
	case sEmit1:
		u.hit("Emit1Statement")
		u.w("emit1 ")
		u.expr(t.e)
	case sEmit:
		if t.kw == "emit" {
			u.hit("EmitStatement")
		} else {
			u.hit("EmitPStatement")
		}
		u.w(t.kw + " ")
		if t.redir != "" {
			u.hit("Redirector:" + t.redir)
			u.w("> " + t.redir + ", ")
		}
		if t.lashed {
			u.hit("EmitLashed")
			u.w("(")
		}
		for i, x := range t.items {
			if i > 0 {
				u.w(", ")
			}
			u.hit("Emittable:" + lvalueKind(x))
			u.expr(x)
		}
		if t.lashed {
			u.w(")")
		}
		for _, n := range t.names {
			u.hit("EmitByName")
			u.w(", ")
			u.expr(n)
		}
	case sEmitF:
		u.hit("EmitFStatement")
		u.w("emitf ")
		for i, x := range t.items {
			if i > 0 {
				u.w(", ")
			}
			u.expr(x)
		}
	case sTee:
		u.hit("TeeStatement")
		u.w("tee > stdout, $*")
	case sFilter:
		u.hit("FilterStatement")
		u.w("filter ")
		u.expr(t.e)
	case sBare:
		u.hit("BareBoolean")
		u.expr(t.e)
	case sIf:
		u.hit("IfChain")
		for i := range t.conds {
			if i == 0 {
				u.w("if (")
			} else {
				u.hit("ElifBlock")
				u.w(" elif (")
			}
			u.expr(t.conds[i])
			u.w(") ")
			u.block(t.blocks[i])
		}
		if t.hasEls {
			u.hit("ElseBlock")
			u.w(" else ")
			u.block(t.els)
		}
	case sCond:
		u.hit("CondBlock")
		u.expr(t.c)
		u.w(" ")
		u.block(t.body)
	case sWhile:
		u.hit("WhileLoop")
		u.w("while (")
		u.expr(t.c)
		u.w(") ")
		u.block(t.body)
	case sDo:
		u.hit("DoWhileLoop")
		u.w("do ")
		u.block(t.body)
		u.w(" while (")
		u.expr(t.c)
		u.w(")")
	case sFor1:
		u.hit("ForLoopOneVariable")
		u.w("for (" + t.k + " in ")
		u.expr(t.over)
		u.w(") ")
		u.block(t.body)
	case sFor2:
		u.hit("ForLoopTwoVariable")
		u.w("for (" + t.k + ", " + t.v + " in ")
		u.expr(t.over)
		u.w(") ")
		u.block(t.body)
	case sForN:
		u.hit("ForLoopMultivariable")
		u.w("for ((" + strings.Join(t.ks, ", ") + "), " + t.v + " in ")
		u.expr(t.over)
		u.w(") ")
		u.block(t.body)
	case sFor3:
		u.hit("TripleForLoop")
		u.w("for (")
		u.commaStmts(t.start)
		u.w("; ")
		u.commaStmts(t.cont)
		u.w("; ")
		u.commaStmts(t.upd)
		u.w(") ")
		u.block(t.body)
	case sBreak:
		u.hit("BreakStatement")
		u.w("break")
	case sContinue:
		u.hit("ContinueStatement")
		u.w("continue")
	case sReturn:
		u.hit("ReturnStatement")
		u.w("return")
		if t.e != nil {
			u.w(" ")
			u.expr(t.e)
		}
	case sCall:
		u.hit("SubroutineCallsite")
		u.w("call " + t.name + "(")
		for i, a := range t.args {
			if i > 0 {
				u.w(", ")
			}
			u.expr(a)
		}
		u.w(")")
	case sBegin:
		u.hit("BeginBlock")
		u.w("begin ")
		u.block(t.body)
	case sEnd:
		u.hit("EndBlock")
		u.w("end ")
		u.block(t.body)
	case sFunc:
		u.hit("NamedFunctionDefinition")
		u.w("func " + t.name)
		u.params(t.params)
		if t.ret != "" {
			u.hit("ReturnTypedecl:" + t.ret)
			u.w(": " + t.ret)
		}
		u.w(" ")
		u.block(t.body)
	case sSubr:
		u.hit("SubroutineDefinition")
		u.w("subr " + t.name)
		u.params(t.params)
		u.w(" ")
		u.block(t.body)
	default:
		panic("unparse: unknown stmt")
	}
}

func lvalueKind(e expr) string {
	switch t := e.(type) {
	case eLocal:
		return "local"
	case eField:
		return "$field"
	case eFieldX:
		return "$[...]"
	case ePosNam:
		return "$[[n]]"
	case ePosVal:
		return "$[[[n]]]"
	case eSrec:
		return "$*"
	case eOos:
		return "@var"
	case eOosAll:
		return "@*"
	case eIndex:
		d := 0
		var b expr = t
		for {
			i, ok := b.(eIndex)
			if !ok {
				break
			}
			d++
			b = i.base
		}
		return lvalueKind(b) + strings.Repeat("[i]", d)
	case eMapLit:
		return "map-literal"
	case eCall:
		return "function-return"
	}
	return "other"
}

func (u *unparser) lvalueHit(e expr) { u.hit("Lvalue:" + lvalueKind(e)) }

func unparse(prog []stmt, hits map[string]int64) string {
	u := &unparser{hits: hits}
	u.stmts(prog)
	return u.sb.String()
}

func unparseExpr(e expr) string {
	u := &unparser{}
	u.expr(e)
	return u.sb.String()
}
