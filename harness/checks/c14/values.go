package c14

// Values of the reference interpreter: int64 | string | bool | ordered map |
// array | absent | error | JSON null | function. Maps are naive ordered lists
// of pairs. Collections are copied on every assignment (value semantics).

import (
	"encoding/json"
	"fmt"
	"sort"
	"strconv"
	"strings"

	"github.com/johnkerl/miller/v6/pkg/mlrval"
)

func jsonUnmarshal(b []byte, v any) error { return json.Unmarshal(b, v) }

type kind uint8

const (
	kAbsent kind = iota
	kInt
	kStr
	kBool
	kMap
	kArr
	kErr
	kNull
	kFunc
)

type kv struct {
	k string
	v val
}

type omap struct{ e []kv }

type val struct {
	k kind
	i int64
	s string
	b bool
	m *omap
	a []val
}

var vAbsent = val{k: kAbsent}
var vErr = val{k: kErr}

func vInt(i int64) val     { return val{k: kInt, i: i} }
func vStr(s string) val    { return val{k: kStr, s: s} }
func vBool(b bool) val     { return val{k: kBool, b: b} }
func vMap(m *omap) val     { return val{k: kMap, m: m} }
func vArr(a []val) val     { return val{k: kArr, a: a} }
func newMapVal() val       { return val{k: kMap, m: &omap{}} }
func (v val) isColl() bool { return v.k == kMap || v.k == kArr }

func (m *omap) find(k string) int {
	for i := range m.e {
		if m.e[i].k == k {
			return i
		}
	}
	return -1
}

func (m *omap) get(k string) (val, bool) {
	if i := m.find(k); i >= 0 {
		return m.e[i].v, true
	}
	return vAbsent, false
}

// put: new keys are appended, existing keys keep their position.
func (m *omap) put(k string, v val) {
	if i := m.find(k); i >= 0 {
		m.e[i].v = v
		return
	}
	m.e = append(m.e, kv{k, v})
}

func (m *omap) del(k string) {
	if i := m.find(k); i >= 0 {
		m.e = append(m.e[:i:i], m.e[i+1:]...)
	}
}

func (v val) deepCopy() val {
	switch v.k {
	case kMap:
		n := &omap{e: make([]kv, len(v.m.e))}
		for i, e := range v.m.e {
			n.e[i] = kv{e.k, e.v.deepCopy()}
		}
		return val{k: kMap, m: n}
	case kArr:
		n := make([]val, len(v.a))
		for i, e := range v.a {
			n[i] = e.deepCopy()
		}
		return val{k: kArr, a: n}
	}
	return v
}

func (v val) kindName() string {
	switch v.k {
	case kAbsent:
		return "absent"
	case kInt:
		return "int"
	case kStr:
		return "string"
	case kBool:
		return "boolean"
	case kMap:
		return "map"
	case kArr:
		return "array"
	case kErr:
		return "error"
	case kNull:
		return "empty"
	case kFunc:
		return "funct"
	}
	return "?"
}

func (v val) equal(w val) bool {
	if v.k != w.k {
		return false
	}
	switch v.k {
	case kInt:
		return v.i == w.i
	case kStr:
		return v.s == w.s
	case kBool:
		return v.b == w.b
	case kMap:
		if len(v.m.e) != len(w.m.e) {
			return false
		}
		for i := range v.m.e {
			if v.m.e[i].k != w.m.e[i].k || !v.m.e[i].v.equal(w.m.e[i].v) {
				return false
			}
		}
		return true
	case kArr:
		if len(v.a) != len(w.a) {
			return false
		}
		for i := range v.a {
			if !v.a[i].equal(w.a[i]) {
				return false
			}
		}
		return true
	case kFunc:
		return true
	}
	return true
}

// render: canonical single-line text used for comparison and messages.
func (v val) render() string {
	var sb strings.Builder
	v.renderTo(&sb)
	return sb.String()
}

func (v val) renderTo(sb *strings.Builder) {
	switch v.k {
	case kAbsent:
		sb.WriteString("(absent)")
	case kInt:
		sb.WriteString(strconv.FormatInt(v.i, 10))
	case kStr:
		sb.WriteString(strconv.Quote(v.s))
	case kBool:
		sb.WriteString(strconv.FormatBool(v.b))
	case kErr:
		sb.WriteString("(error)")
	case kNull:
		sb.WriteString("null")
	case kFunc:
		sb.WriteString("(function)")
	case kMap:
		sb.WriteByte('{')
		for i, e := range v.m.e {
			if i > 0 {
				sb.WriteString(", ")
			}
			sb.WriteString(strconv.Quote(e.k))
			sb.WriteString(": ")
			e.v.renderTo(sb)
		}
		sb.WriteByte('}')
	case kArr:
		sb.WriteByte('[')
		for i, e := range v.a {
			if i > 0 {
				sb.WriteString(", ")
			}
			e.renderTo(sb)
		}
		sb.WriteByte(']')
	}
}

// text: what print/concatenation show for a scalar.
func (v val) text() string {
	switch v.k {
	case kAbsent:
		return ""
	case kInt:
		return strconv.FormatInt(v.i, 10)
	case kStr:
		return v.s
	case kBool:
		return strconv.FormatBool(v.b)
	case kErr:
		return "(error)"
	case kNull:
		return ""
	}
	return v.render()
}

func (v val) hasKind(k kind) bool {
	if v.k == k {
		return true
	}
	switch v.k {
	case kMap:
		for _, e := range v.m.e {
			if e.v.hasKind(k) {
				return true
			}
		}
	case kArr:
		for _, e := range v.a {
			if e.hasKind(k) {
				return true
			}
		}
	}
	return false
}

// ---------------------------------------------------------------- Mlrval bridge

func (v val) toMlrval() *mlrval.Mlrval {
	switch v.k {
	case kAbsent:
		return mlrval.ABSENT
	case kInt:
		return mlrval.FromInt(v.i)
	case kStr:
		return mlrval.FromString(v.s)
	case kBool:
		return mlrval.FromBool(v.b)
	case kMap:
		m := mlrval.NewMlrmap()
		for _, e := range v.m.e {
			m.PutReference(e.k, e.v.toMlrval())
		}
		return mlrval.FromMap(m)
	case kArr:
		a := make([]*mlrval.Mlrval, len(v.a))
		for i, e := range v.a {
			a[i] = e.toMlrval()
		}
		return mlrval.FromArray(a)
	}
	return mlrval.FromAnonymousError()
}

func fromMlrval(m *mlrval.Mlrval) val {
	if m == nil {
		return vAbsent
	}
	switch m.Type() {
	case mlrval.MT_ABSENT:
		return vAbsent
	case mlrval.MT_INT:
		i, _ := m.GetIntValue()
		return vInt(i)
	case mlrval.MT_BOOL:
		b, _ := m.GetBoolValue()
		return vBool(b)
	case mlrval.MT_STRING, mlrval.MT_VOID:
		return vStr(m.String())
	case mlrval.MT_MAP:
		o := &omap{}
		for pe := m.GetMap().Head; pe != nil; pe = pe.Next {
			o.e = append(o.e, kv{pe.Key, fromMlrval(pe.Value)})
		}
		return vMap(o)
	case mlrval.MT_ARRAY:
		arr := m.GetArray()
		a := make([]val, len(arr))
		for i, e := range arr {
			a[i] = fromMlrval(e)
		}
		return vArr(a)
	case mlrval.MT_ERROR:
		return vErr
	case mlrval.MT_NULL:
		return val{k: kNull}
	case mlrval.MT_FUNC:
		return val{k: kFunc}
	}
	return vStr("?" + m.GetTypeName() + ":" + m.String())
}

// ---------------------------------------------------------------- JSON bridge (for stdout items)

// fromJSON decodes one JSON value preserving object key order and number text.
func fromJSON(dec *json.Decoder) (val, error) {
	tok, err := dec.Token()
	if err != nil {
		return vAbsent, err
	}
	switch t := tok.(type) {
	case json.Delim:
		switch t {
		case '{':
			o := &omap{}
			for dec.More() {
				kt, err := dec.Token()
				if err != nil {
					return vAbsent, err
				}
				ks, ok := kt.(string)
				if !ok {
					return vAbsent, fmt.Errorf("non-string key")
				}
				v, err := fromJSON(dec)
				if err != nil {
					return vAbsent, err
				}
				// duplicate keys in a JSON object would be a writer defect; keep both so the comparison fails
				o.e = append(o.e, kv{ks, v})
			}
			if _, err := dec.Token(); err != nil {
				return vAbsent, err
			}
			return vMap(o), nil
		case '[':
			a := []val{}
			for dec.More() {
				v, err := fromJSON(dec)
				if err != nil {
					return vAbsent, err
				}
				a = append(a, v)
			}
			if _, err := dec.Token(); err != nil {
				return vAbsent, err
			}
			return vArr(a), nil
		}
		return vAbsent, fmt.Errorf("unexpected delimiter %v", t)
	case json.Number:
		if i, err := strconv.ParseInt(string(t), 10, 64); err == nil {
			return vInt(i), nil
		}
		return vStr("number:" + string(t)), nil
	case string:
		return vStr(t), nil
	case bool:
		return vBool(t), nil
	case nil:
		return val{k: kNull}, nil
	}
	return vAbsent, fmt.Errorf("unexpected token %v", tok)
}

func sortedKeys(m map[string]int64) []string {
	ks := make([]string, 0, len(m))
	for k := range m {
		ks = append(ks, k)
	}
	sort.Strings(ks)
	return ks
}
