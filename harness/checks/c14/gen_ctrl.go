package c14

// Family "ctrl": every control-transfer statement (return with a value in a
// function, bare return in a subroutine, break, continue) inside every loop
// form (while, do-while, single-variable for over an array / a map, key-value
// for over a map / an array, multi-key for, triple-for), alone and nested two
// deep (transfer in the inner loop, or in the outer loop after the inner one),
// inside functions, subroutines and the main/end block. Every iteration bumps
// out-of-stream counters before and after the transfer point and appends to a
// trace, so an extra, missing or cut-short iteration is visible, as is code
// after the loop running (or not) and the value that reaches the caller.

type ctrlLoop struct {
	name string
	// mk builds the loop; `tick` is the name of the local iteration counter (incremented first thing in the body)
	mk func(tick string, body []stmt) []stmt
}

func ctrlLoops() []ctrlLoop {
	three := arrLit(lit(10), lit(20), lit(30))
	m3 := mapLit(lit("p"), lit(1), lit("q"), lit(2), lit("r"), lit(3))
	m22 := mapLit(lit("p"), mapLit(lit("a"), lit(1), lit("b"), lit(2)), lit("q"), mapLit(lit("c"), lit(3)))
	pre := func(tick string, body []stmt) []stmt {
		return append([]stmt{opasg(loc(tick), "+", lit(1))}, body...)
	}
	return []ctrlLoop{
		{"while", func(t string, b []stmt) []stmt {
			return []stmt{asg(loc(t), lit(0)), sWhile{bin("<", loc(t), lit(3)), pre(t, b)}}
		}},
		{"do-while", func(t string, b []stmt) []stmt {
			return []stmt{asg(loc(t), lit(0)), sDo{pre(t, b), bin("<", loc(t), lit(3))}}
		}},
		{"for1-array", func(t string, b []stmt) []stmt {
			return []stmt{asg(loc(t), lit(0)), sFor1{t + "e", three, pre(t, b)}}
		}},
		{"for1-map", func(t string, b []stmt) []stmt {
			return []stmt{asg(loc(t), lit(0)), sFor1{t + "e", m3, pre(t, b)}}
		}},
		{"for2-map", func(t string, b []stmt) []stmt {
			return []stmt{asg(loc(t), lit(0)), sFor2{t + "k", t + "v", m3, pre(t, b)}}
		}},
		{"for2-array", func(t string, b []stmt) []stmt {
			return []stmt{asg(loc(t), lit(0)), sFor2{t + "k", t + "v", three, pre(t, b)}}
		}},
		{"forN-map", func(t string, b []stmt) []stmt {
			return []stmt{asg(loc(t), lit(0)), sForN{[]string{t + "k1", t + "k2"}, t + "v", m22, pre(t, b)}}
		}},
		{"for3", func(t string, b []stmt) []stmt {
			return []stmt{asg(loc(t), lit(0)), sFor3{start: []stmt{decl("int", t+"i", lit(0))}, cont: []stmt{sBare{bin("<", loc(t+"i"), lit(3))}},
				upd: []stmt{opasg(loc(t+"i"), "+", lit(1)), opasg(oos("upd"), "+", lit(1))}, body: pre(t, b)}}
		}},
	}
}

func genCtrlFamily(a progArgs, emit func(func() *progCase)) {
	loops := ctrlLoops()
	bump := func(name string) stmt { return opasg(oos(name), "+", lit(1)) }
	trace := func(tag string, tick string) stmt { return opasg(oos("trace"), ".", bin(".", lit(tag), loc(tick))) }
	type transfer struct {
		name string
		st   func(host string, tick string) stmt // nil result: not applicable for this host
	}
	transfers := []transfer{
		{"none", func(h, t string) stmt { return bump("noop") }},
		{"break", func(h, t string) stmt { return sBreak{} }},
		{"continue", func(h, t string) stmt { return sContinue{} }},
		{"return", func(h, t string) stmt {
			switch h {
			case "func":
				return sReturn{bin(".", lit("ret@"), loc(t))}
			case "subr":
				return sReturn{nil}
			}
			return nil
		}},
	}
	hosts := []string{"func", "subr", "end", "main"}
	observe := []stmt{pr(lit("before"), oos("before")), pr(lit("after"), oos("after")), pr(lit("upd"), oos("upd")), pr(lit("post"), oos("post")), pr(lit("trace"), oos("trace")), pr(lit("noop"), oos("noop"))}
	wrapHost := func(host string, size int, body []stmt) *progCase {
		init := []stmt{asg(oos("trace"), lit("^"))}
		switch host {
		case "func":
			fb := append(append([]stmt{}, body...), bump("post"), sReturn{lit("end")})
			top := []stmt{sFunc{"f", nil, "", fb}, sEnd{append(append(append([]stmt{}, init...), pr(lit("result"), call("f"))), observe...)}}
			return &progCase{family: "ctrl", size: size, top: top, noInput: true}
		case "subr":
			sb := append(append([]stmt{}, body...), bump("post"))
			top := []stmt{sSubr{"s", nil, sb}, sEnd{append(append(append([]stmt{}, init...), sCall{"s", nil}, pr(lit("called"))), observe...)}}
			return &progCase{family: "ctrl", size: size, top: top, noInput: true}
		case "end":
			eb := append(append(append([]stmt{}, init...), body...), bump("post"))
			return &progCase{family: "ctrl", size: size, top: []stmt{sEnd{append(eb, observe...)}}, noInput: true}
		}
		mb := append(append(append([]stmt{}, init...), body...), bump("post"))
		return &progCase{family: "ctrl", size: size, top: append(mb, observe...), input: oneRec(), stdin: oneRecText, opts: runOpts{q: true}}
	}
	// the transfer fires on iteration `when`, either directly in the loop body or one block deeper
	guard := func(tick string, when int, st stmt, deeper bool) stmt {
		if deeper {
			return sIf{conds: []expr{bin("==", loc(tick), lit(when))}, blocks: [][]stmt{{sIf{conds: []expr{lit(true)}, blocks: [][]stmt{{st}}}}}}
		}
		return sIf{conds: []expr{bin("==", loc(tick), lit(when))}, blocks: [][]stmt{{st}}}
	}
	// ---- single loops
	for _, host := range hosts {
		for _, lp := range loops {
			for _, tr := range transfers {
				for _, when := range []int{1, 2, 3} {
					for _, deeper := range []bool{false, true} {
						st := tr.st(host, "it")
						if st == nil {
							continue
						}
						if tr.name == "none" && (when != 2 || deeper) {
							continue
						}
						host, lp, st, when, deeper := host, lp, st, when, deeper
						emit(func() *progCase {
							body := []stmt{bump("before"), trace("[", "it"), guard("it", when, st, deeper), bump("after"), trace("]", "it")}
							return wrapHost(host, 1, lp.mk("it", body))
						})
					}
				}
			}
		}
	}
	// ---- nested two deep
	for _, host := range hosts {
		for _, outer := range loops {
			for _, inner := range loops {
				for _, tr := range transfers[1:] {
					for _, where := range []string{"inner", "outer-after-inner", "outer-before-inner"} {
						st := tr.st(host, "jt")
						if st == nil {
							continue
						}
						if a.Level == 0 && host == "main" {
							continue
						}
						host, outer, inner, tr, where := host, outer, inner, tr, where
						emit(func() *progCase {
							var ob []stmt
							switch where {
							case "inner":
								ib := []stmt{bump("before"), trace("[", "jt"), guard("jt", 2, tr.st(host, "jt"), false), bump("after"), trace("]", "jt")}
								ob = append([]stmt{trace("{", "it")}, inner.mk("jt", ib)...)
								ob = append(ob, bump("upd2"), trace("}", "it"))
							case "outer-after-inner":
								ib := []stmt{bump("before"), trace("[", "jt")}
								ob = append([]stmt{trace("{", "it")}, inner.mk("jt", ib)...)
								ob = append(ob, guard("it", 2, tr.st(host, "it"), false), bump("after"), trace("}", "it"))
							default:
								ib := []stmt{bump("before"), trace("[", "jt")}
								ob = []stmt{trace("{", "it"), guard("it", 2, tr.st(host, "it"), false)}
								ob = append(ob, inner.mk("jt", ib)...)
								ob = append(ob, bump("after"), trace("}", "it"))
							}
							pc := wrapHost(host, 2, outer.mk("it", ob))
							return pc
						})
					}
				}
			}
		}
	}
}
