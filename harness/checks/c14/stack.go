package c14

// E3: explicit-state search over the real runtime.Stack (pooled frames and
// frame sets) against a naive unpooled list-of-lists-of-lists stack. Every
// well-nested operation sequence up to the depth bound is replayed on a fresh
// real Stack and a fresh model; after the last operation the observable state
// (Get of every name, error/no-error of the operation) is compared.

import (
	"fmt"
	"strings"

	"github.com/johnkerl/miller/v6/pkg/mlrval"
	"github.com/johnkerl/miller/v6/pkg/runtime"

	"verif/harness/vf"
)

// ---------------------------------------------------------------- model

type mvar struct {
	name string
	typ  string
	v    val
}

type mframe struct{ vars []*mvar }

type mset struct{ frames []*mframe }

type mstack struct{ sets []*mset }

func newMStack() *mstack {
	return &mstack{sets: []*mset{{frames: []*mframe{{}}}}}
}

func (s *mstack) cur() *mset { return s.sets[len(s.sets)-1] }

func (f *mframe) find(name string) *mvar {
	for _, v := range f.vars {
		if v.name == name {
			return v
		}
	}
	return nil
}

// nearest enclosing binding within the current frame set only
func (s *mstack) lookup(name string) *mvar {
	fs := s.cur().frames
	for i := len(fs) - 1; i >= 0; i-- {
		if v := fs[i].find(name); v != nil {
			return v
		}
	}
	return nil
}

func typeAdmits(typ string, v val) bool {
	switch typ {
	case "any":
		return true
	case "var":
		return v.k != kAbsent && v.k != kErr // documented: "no type restrictions"; absent never reaches an assignment
	case "int":
		return v.k == kInt
	case "num":
		return v.k == kInt
	case "str":
		return v.k == kStr
	case "bool":
		return v.k == kBool
	case "map":
		return v.k == kMap
	case "arr":
		return v.k == kArr
	case "funct":
		return v.k == kFunc
	}
	return false
}

func (s *mstack) define(name, typ string, v val) error {
	fs := s.cur().frames
	f := fs[len(fs)-1]
	if f.find(name) != nil {
		return fmt.Errorf("variable %s has already been defined in the same scope", name)
	}
	if !typeAdmits(typ, v) {
		return fmt.Errorf("type gate: %s %s from %s", typ, name, v.kindName())
	}
	f.vars = append(f.vars, &mvar{name, typ, v.deepCopy()})
	return nil
}

func (s *mstack) set(name string, v val) error {
	if b := s.lookup(name); b != nil {
		if !typeAdmits(b.typ, v) {
			return fmt.Errorf("type gate: %s %s from %s", b.typ, name, v.kindName())
		}
		b.v = v.deepCopy()
		return nil
	}
	fs := s.cur().frames
	f := fs[len(fs)-1]
	f.vars = append(f.vars, &mvar{name, "any", v.deepCopy()})
	return nil
}

func (s *mstack) setAtScope(name string, v val) error {
	fs := s.cur().frames
	f := fs[len(fs)-1]
	if b := f.find(name); b != nil {
		if !typeAdmits(b.typ, v) {
			return fmt.Errorf("type gate: %s %s from %s", b.typ, name, v.kindName())
		}
		b.v = v.deepCopy()
		return nil
	}
	f.vars = append(f.vars, &mvar{name, "any", v.deepCopy()})
	return nil
}

func (s *mstack) unset(name string) {
	if b := s.lookup(name); b != nil {
		b.v = val{k: kAbsent}
	}
}

// ---------------------------------------------------------------- ops

type sop struct {
	name string
	kind int // 0 pushset 1 popset 2 pushframe 3 popframe 4 define 5 set 6 setAtScope 7 setIndexed 8 unset 9 unsetIndexed
	v    string
	typ  string
	vk   kind // value kind for define/set: kInt, kStr, kMap
}

const (
	oPushSet = iota
	oPopSet
	oPushFrame
	oPopFrame
	oDefine
	oSet
	oSetAtScope
	oSetIndexed
	oUnset
	oUnsetIndexed
)

func stackMenu(level int) []sop {
	m := []sop{
		{"pushset", oPushSet, "", "", 0},
		{"popset", oPopSet, "", "", 0},
		{"push", oPushFrame, "", "", 0},
		{"pop", oPopFrame, "", "", 0},
		{"var x=I", oDefine, "x", "any", kInt},
		{"int x=I", oDefine, "x", "int", kInt},
		{"x=S", oSet, "x", "", kStr},
		{"y=I", oSet, "y", "", kInt},
		{"y[1]=I", oSetIndexed, "y", "", kInt},
		{"unset y", oUnset, "y", "", 0},
	}
	if level >= 1 {
		m = append(m,
			sop{"str x=S", oDefine, "x", "str", kStr},
			sop{"x=I", oSet, "x", "", kInt},
			sop{"map y=M", oDefine, "y", "map", kMap},
			sop{"unset x", oUnset, "x", "", 0},
		)
	}
	if level >= 2 {
		m = append(m,
			sop{"int x=S", oDefine, "x", "int", kStr}, // must fail and must not create the name
			sop{"bind x=I", oSetAtScope, "x", "", kInt},
			sop{"unset y[1]", oUnsetIndexed, "y", "", 0},
			sop{"x=M", oSet, "x", "", kMap},
		)
	}
	return m
}

func stepVal(k kind, step int) val {
	switch k {
	case kInt:
		return val{k: kInt, i: int64(10 + step)}
	case kStr:
		return val{k: kStr, s: stepStrings[step]}
	case kMap:
		m := &omap{}
		m.put("k", val{k: kInt, i: int64(100 + step)})
		return val{k: kMap, m: m}
	}
	return val{}
}

type stackRun struct {
	real   *runtime.Stack
	model  *mstack
	vars   map[string]*runtime.StackVariable
	frames []int // pushed frames per set
	alias  string
}

var stackVars = map[string]*runtime.StackVariable{
	"x": runtime.NewStackVariable("x"),
	"y": runtime.NewStackVariable("y"),
}

var stepStrings = func() []string {
	var out []string
	for i := 0; i < 32; i++ {
		out = append(out, fmt.Sprintf("s%d", i))
	}
	return out
}()

func newStackRun() *stackRun {
	return &stackRun{
		real:   runtime.NewStack(),
		model:  newMStack(),
		vars:   stackVars,
		frames: []int{0},
	}
}

func (s *mstack) clone() *mstack {
	n := &mstack{sets: make([]*mset, len(s.sets))}
	for i, st := range s.sets {
		ns := &mset{frames: make([]*mframe, len(st.frames))}
		for j, f := range st.frames {
			nf := &mframe{vars: make([]*mvar, len(f.vars))}
			for k, v := range f.vars {
				nf.vars[k] = &mvar{v.name, v.typ, v.v.deepCopy()}
			}
			ns.frames[j] = nf
		}
		n.sets[i] = ns
	}
	return n
}

func (r *stackRun) clone() *stackRun {
	return &stackRun{
		real:   r.real.VerifClone(),
		model:  r.model.clone(),
		vars:   r.vars,
		frames: append([]int(nil), r.frames...),
	}
}

func (r *stackRun) enabled(o *sop) bool {
	switch o.kind {
	case oPopSet:
		return len(r.frames) > 1 && r.frames[len(r.frames)-1] == 0
	case oPopFrame:
		return r.frames[len(r.frames)-1] > 0
	}
	return true
}

// apply returns (real error, model error, unconstrained)
func (r *stackRun) apply(o *sop, step int) (error, error, bool) {
	switch o.kind {
	case oPushSet:
		r.real.PushStackFrameSet()
		r.model.sets = append(r.model.sets, &mset{frames: []*mframe{{}}})
		r.frames = append(r.frames, 0)
	case oPopSet:
		r.real.PopStackFrameSet()
		r.model.sets = r.model.sets[:len(r.model.sets)-1]
		r.frames = r.frames[:len(r.frames)-1]
	case oPushFrame:
		r.real.PushStackFrame()
		c := r.model.cur()
		c.frames = append(c.frames, &mframe{})
		r.frames[len(r.frames)-1]++
	case oPopFrame:
		r.real.PopStackFrame()
		c := r.model.cur()
		c.frames = c.frames[:len(c.frames)-1]
		r.frames[len(r.frames)-1]--
	case oDefine, oSet, oSetAtScope:
		v := stepVal(o.vk, step)
		mv := v.toMlrval()
		var re, me error
		switch o.kind {
		case oDefine:
			re = r.real.DefineTypedAtScope(r.vars[o.v], o.typ, mv)
			me = r.model.define(o.v, o.typ, v)
		case oSet:
			re = r.real.Set(r.vars[o.v], mv)
			me = r.model.set(o.v, v)
		case oSetAtScope:
			re = r.real.SetAtScope(r.vars[o.v], mv)
			me = r.model.setAtScope(o.v, v)
		}
		if o.vk == kMap {
			// by-value binding: a later change of the caller's map must not show through the variable
			mv.GetMap().PutReference("caller-side-change", mlrval.FromInt(1))
		}
		return re, me, false
	case oSetIndexed:
		v := stepVal(kInt, step)
		b := r.model.lookup(o.v)
		if b != nil && b.v.k != kMap {
			// indexing a scalar- or absent-valued local: the documentation does not say what
			// the variable becomes. Executed anyway (side-effect predicates are checked by the
			// caller), then the branch is cut.
			re := r.real.SetIndexed(r.vars[o.v], []*mlrval.Mlrval{mlrval.FromInt(1)}, v.toMlrval())
			return re, nil, true
		}
		re := r.real.SetIndexed(r.vars[o.v], []*mlrval.Mlrval{mlrval.FromInt(1)}, v.toMlrval())
		if b == nil {
			m := &omap{}
			m.put("1", v)
			fs := r.model.cur().frames
			f := fs[len(fs)-1]
			f.vars = append(f.vars, &mvar{o.v, "any", val{k: kMap, m: m}})
		} else {
			b.v.m.put("1", v)
		}
		return re, nil, false
	case oUnset:
		r.real.Unset(r.vars[o.v])
		r.model.unset(o.v)
	case oUnsetIndexed:
		r.real.UnsetIndexed(r.vars[o.v], []*mlrval.Mlrval{mlrval.FromInt(1)})
		if b := r.model.lookup(o.v); b != nil && b.v.k == kMap {
			b.v.m.del("1")
		}
	}
	return nil, nil, false
}

var stackNames = []string{"x", "y"}

func (r *stackRun) observe() (string, bool) {
	var diffs []string
	for _, n := range stackNames {
		got := r.real.Get(r.vars[n])
		var g val
		if got == nil {
			g = val{k: kAbsent}
		} else {
			g = fromMlrval(got)
		}
		w := val{k: kAbsent}
		if b := r.model.lookup(n); b != nil {
			w = b.v
		}
		if !g.equal(w) {
			diffs = append(diffs, fmt.Sprintf("Get(%s)=%s, naive stack has %s", n, g.render(), w.render()))
		}
	}
	return strings.Join(diffs, "; "), len(diffs) == 0
}

// ---------------------------------------------------------------- singletons

type singletons struct {
	ptrs  []*mlrval.Mlrval
	names []string
	saved []mlrval.Mlrval
	reps  []string
	types []mlrval.MVType
	full  bool // compare the printed representation too (slower)
}

func snapshotSingletons() *singletons {
	s := &singletons{
		ptrs:  []*mlrval.Mlrval{mlrval.ABSENT, mlrval.TRUE, mlrval.FALSE, mlrval.VOID, mlrval.NULL, mlrval.MINUS_ONE, mlrval.ZERO, mlrval.ONE},
		names: []string{"ABSENT", "TRUE", "FALSE", "VOID", "NULL", "MINUS_ONE", "ZERO", "ONE"},
	}
	for _, p := range s.ptrs {
		s.saved = append(s.saved, *p)
		s.reps = append(s.reps, p.GetTypeName()+":"+p.String())
		s.types = append(s.types, p.Type())
	}
	return s
}

// check returns the names of process-wide constants that were overwritten, and repairs them.
func (s *singletons) check() []string {
	var bad []string
	for i, p := range s.ptrs {
		if p.Type() == s.types[i] && !s.full {
			continue
		}
		if p.Type() != s.types[i] || p.GetTypeName()+":"+p.String() != s.reps[i] {
			bad = append(bad, fmt.Sprintf("%s became %s %s", s.names[i], p.GetTypeName(), strings.ReplaceAll(p.String(), "\n", " ")))
			*p = s.saved[i]
		}
	}
	return bad
}

// ---------------------------------------------------------------- worker

func stackWorker(w *vf.Worker) {
	level, depth := 0, 7
	var args struct {
		Level, Depth int
	}
	if len(w.Args) > 0 {
		_ = jsonUnmarshal(w.Args, &args)
		level, depth = args.Level, args.Depth
	}
	menu := stackMenu(level)
	sing := snapshotSingletons()
	seq := make([]int, 0, depth)
	var nseq, nerrs, nuncon, nok int64
	hits := make([]int64, len(menu))

	describe := func(seq []int) string {
		var parts []string
		for _, i := range seq {
			parts = append(parts, menu[i].name)
		}
		return strings.Join(parts, " ; ")
	}

	// step applies the last op of seq to r (already holding the prefix state); returns whether to extend.
	step := func(r *stackRun, seq []int) (extend bool) {
		oi := seq[len(seq)-1]
		o := &menu[oi]
		var re, me error
		var uncon bool
		p, _ := vf.Try(func() { re, me, uncon = r.apply(o, len(seq)-1) })
		nseq++
		hits[oi]++
		key := func() string { return fmt.Sprintf("%d:%s", len(seq), describe(seq)) }
		if p != nil {
			w.Violation("stack[panic]:"+key(), fmt.Sprintf("runtime.Stack panics on the sequence [%s]: %v", describe(seq), p), map[string]any{"ops": describe(seq)})
			sing.check()
			return false
		}
		if bad := sing.check(); len(bad) > 0 {
			w.Violation(fmt.Sprintf("stack[singleton-overwritten]:%d:%s on a local whose value is absent or a scalar", len(seq), o.name), fmt.Sprintf("after [%s] the process-wide constant %s: indexed assignment to a local whose value is a scalar/absent overwrites the shared Mlrval in place", describe(seq), strings.Join(bad, ", ")), map[string]any{"ops": describe(seq)})
		}
		if uncon {
			nuncon++
			return false
		}
		if (re != nil) != (me != nil) {
			w.Violation("stack[error-mismatch]:"+key(), fmt.Sprintf("after [%s]: real stack error=%v, naive stack error=%v", describe(seq), re, me), map[string]any{"ops": describe(seq)})
			return false
		}
		if re != nil {
			nerrs++
		}
		var d string
		var ok bool
		if p, _ := vf.Try(func() { d, ok = r.observe() }); p != nil {
			w.Violation("stack[panic-on-get]:"+key(), fmt.Sprintf("after [%s] Stack.Get panics: %v", describe(seq), p), map[string]any{"ops": describe(seq)})
			return false
		}
		if !ok {
			w.Violation("stack[state]:"+key(), fmt.Sprintf("after [%s]: %s", describe(seq), d), map[string]any{"ops": describe(seq)})
			return false
		}
		nok++
		return true
	}

	var rec func(r *stackRun)
	rec = func(r *stackRun) {
		if len(seq) >= depth {
			return
		}
		last := len(seq) == depth-1
		for oi := range menu {
			if !r.enabled(&menu[oi]) {
				continue
			}
			seq = append(seq, oi)
			c := r.clone()
			if step(c, seq) && !last {
				rec(c)
			}
			seq = seq[:len(seq)-1]
		}
	}

	// shard on the first two operations
	var idx uint64
	for a := range menu {
		root := newStackRun()
		if !root.enabled(&menu[a]) {
			continue
		}
		idx++
		seq = append(seq[:0], a)
		ra := root.clone()
		if w.Mine(idx) {
			w.Begin(idx)
			step(ra, seq)
		} else {
			vf.Try(func() { ra.apply(&menu[a], 0) })
			sing.check()
		}
		if depth < 2 {
			continue
		}
		for b := range menu {
			if !ra.enabled(&menu[b]) {
				continue
			}
			idx++
			if !w.Mine(idx) {
				continue
			}
			w.Begin(idx)
			w.Label(func() string { return "stack sequences starting with " + menu[a].name + " ; " + menu[b].name })
			seq = append(seq[:0], a, b)
			rb := ra.clone()
			if step(rb, seq) {
				rec(rb)
			}
		}
	}
	w.Eval(nseq)
	w.Nontrivial(nok)
	sing.full = true
	if bad := sing.check(); len(bad) > 0 {
		w.Violation("stack[singleton-overwritten]:end-of-shard", "a process-wide constant changed its printed value: "+strings.Join(bad, ", "), nil)
	}
	w.Count("stack_sequences", nseq)
	w.Count("stack_sequences_ending_in_expected_error", nerrs)
	w.Count("stack_sequences_cut_unconstrained_scalar_indexing", nuncon)
	for i, h := range hits {
		w.Count("stack_op:"+menu[i].name, h)
	}
	w.Rep.States += 0
	w.Rep.Transitions += nseq
}
