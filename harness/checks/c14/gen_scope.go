package c14

// Family "scope": every statement tree up to a size/depth bound over a small
// alphabet of declarations, assignments, unsets, all conditional and loop
// forms, break/continue. Every block (and the program) ends with an automatic
// observation `print "<tag>", x, y`, and every assigned constant is unique, so
// which binding a read or write resolved to is visible in the output.

import "fmt"

const phInt = -987654 // placeholder replaced by a unique constant

var phStr = "\x00S"

type blockKind struct {
	name   string
	bodies int
	loop   bool
	build  func(bodies [][]stmt) []stmt
}

type treeGen struct {
	simple     []stmt
	loopSimple []stmt // additionally allowed inside loops
	blocks     []blockKind
	maxDepth   int
}

func nrEq(n int) expr { return bin("==", eCtx{"NR"}, lit(n)) }

func scopeGen(level int) *treeGen {
	x, y := loc("x"), loc("y")
	g := &treeGen{}
	g.simple = []stmt{
		decl("var", "x", lit(phInt)),
		asg(x, lit(phInt)),
		decl("int", "x", lit(phInt)),
		decl("str", "x", lit(phStr)),
		asg(x, lit(phStr)),
		sUnset{[]expr{x}},
		decl("var", "y", lit(phInt)),
		asg(y, lit(phInt)),
	}
	if level >= 2 {
		g.simple = append(g.simple,
			decl("num", "y", lit(phInt)),
			asg(y, x),
			opasg(x, "+", lit(1)),
		)
	}
	g.loopSimple = []stmt{sBreak{}, sContinue{}}
	m2 := mapLit(lit("a"), lit(1), lit("b"), lit(2))
	m22 := mapLit(lit("a"), mapLit(lit("b"), lit(1)), lit("c"), mapLit(lit("d"), lit(2)))
	lt2 := func(v string) []stmt { return []stmt{sBare{bin("<", loc(v), lit(2))}} }
	inc := func(v string) stmt { return opasg(loc(v), "+", lit(1)) }
	g.blocks = []blockKind{
		{"if", 1, false, func(b [][]stmt) []stmt {
			return []stmt{sIf{conds: []expr{nrEq(2)}, blocks: [][]stmt{b[0]}}}
		}},
		{"if-else", 2, false, func(b [][]stmt) []stmt {
			return []stmt{sIf{conds: []expr{nrEq(1)}, blocks: [][]stmt{b[0]}, els: b[1], hasEls: true}}
		}},
		{"while", 1, true, func(b [][]stmt) []stmt {
			body := append([]stmt{inc("i")}, b[0]...)
			return []stmt{asg(loc("i"), lit(0)), sWhile{bin("<", loc("i"), lit(2)), body}}
		}},
		{"for1", 1, true, func(b [][]stmt) []stmt { return []stmt{sFor1{"x", m2, b[0]}} }},
		{"for3-typed", 1, true, func(b [][]stmt) []stmt {
			return []stmt{sFor3{start: []stmt{decl("int", "x", lit(0))}, cont: lt2("x"), upd: []stmt{inc("x")}, body: b[0]}}
		}},
		{"for3-untyped", 1, true, func(b [][]stmt) []stmt {
			return []stmt{sFor3{start: []stmt{asg(loc("x"), lit(0))}, cont: lt2("x"), upd: []stmt{inc("x")}, body: b[0]}}
		}},
	}
	if level >= 1 {
		g.blocks = append(g.blocks,
			blockKind{"pattern-action", 1, false, func(b [][]stmt) []stmt {
				return []stmt{sCond{bin(">=", eCtx{"NR"}, lit(2)), b[0]}}
			}},
			blockKind{"do-while", 1, true, func(b [][]stmt) []stmt {
				body := append([]stmt{inc("i")}, b[0]...)
				return []stmt{asg(loc("i"), lit(0)), sDo{body, bin("<", loc("i"), lit(2))}}
			}},
			blockKind{"for2", 1, true, func(b [][]stmt) []stmt { return []stmt{sFor2{"x", "y", m2, b[0]}} }},
			blockKind{"forN", 1, true, func(b [][]stmt) []stmt { return []stmt{sForN{[]string{"x", "y"}, "z", m22, b[0]}} }},
		)
	}
	if level >= 2 {
		g.blocks = append(g.blocks,
			blockKind{"if-elif-else", 3, false, func(b [][]stmt) []stmt {
				return []stmt{sIf{conds: []expr{nrEq(1), nrEq(2)}, blocks: [][]stmt{b[0], b[1]}, els: b[2], hasEls: true}}
			}},
			blockKind{"for3-multi", 1, true, func(b [][]stmt) []stmt {
				return []stmt{sFor3{start: []stmt{asg(loc("y"), lit(0)), decl("int", "x", lit(5))}, cont: lt2("y"),
					upd: []stmt{inc("y"), inc("x")}, body: b[0]}}
			}},
			blockKind{"for3-empty-cont", 1, true, func(b [][]stmt) []stmt {
				body := append(append([]stmt{}, b[0]...), sIf{conds: []expr{bin(">=", loc("y"), lit(1))}, blocks: [][]stmt{{sBreak{}}}})
				return []stmt{sFor3{start: []stmt{asg(loc("y"), lit(0))}, cont: nil, upd: []stmt{inc("y")}, body: body}}
			}},
		)
	}
	return g
}

// seqs enumerates every statement list of total size exactly n (a block counts 1 + its bodies).
func (g *treeGen) seqs(n, depth int, inLoop bool, prefix []stmt, cb func([]stmt)) {
	if n == 0 {
		cb(prefix)
		return
	}
	L := len(prefix)
	emit1 := func(s stmt) {
		g.seqs(n-1, depth, inLoop, append(prefix[:L:L], s), cb)
	}
	for _, s := range g.simple {
		emit1(s)
	}
	if inLoop {
		for _, s := range g.loopSimple {
			emit1(s)
		}
	}
	if depth <= 0 {
		return
	}
	for bi := range g.blocks {
		bk := &g.blocks[bi]
		for inner := 0; inner <= n-1; inner++ {
			g.bodies(bk.bodies, inner, depth-1, inLoop || bk.loop, nil, func(bs [][]stmt) {
				ss := bk.build(bs)
				g.seqs(n-1-inner, depth, inLoop, append(prefix[:L:L], ss...), cb)
			})
		}
	}
}

// bodies enumerates k bodies with total size exactly n.
func (g *treeGen) bodies(k, n, depth int, inLoop bool, acc [][]stmt, cb func([][]stmt)) {
	if k == 1 {
		g.seqs(n, depth, inLoop, nil, func(b []stmt) {
			cp := append([]stmt(nil), b...)
			cb(append(acc[:len(acc):len(acc)], cp))
		})
		return
	}
	for first := 0; first <= n; first++ {
		g.seqs(first, depth, inLoop, nil, func(b []stmt) {
			cp := append([]stmt(nil), b...)
			g.bodies(k-1, n-first, depth, inLoop, append(acc[:len(acc):len(acc)], cp), cb)
		})
	}
}

// ---------------------------------------------------------------- numbering + observation

type numberer struct {
	next  int
	block int
	obs   []expr // variables observed at the end of every block
}

func (nm *numberer) expr(e expr) expr {
	switch t := e.(type) {
	case eLit:
		if t.v.k == kInt && t.v.i == phInt {
			nm.next++
			return lit(10 + nm.next)
		}
		if t.v.k == kStr && t.v.s == phStr {
			nm.next++
			return lit(fmt.Sprintf("s%d", 10+nm.next))
		}
	case eMapLit:
		out := eMapLit{}
		for i := range t.keys {
			out.keys = append(out.keys, nm.expr(t.keys[i]))
			out.vals = append(out.vals, nm.expr(t.vals[i]))
		}
		return out
	case eArrLit:
		out := eArrLit{}
		for _, x := range t.elems {
			out.elems = append(out.elems, nm.expr(x))
		}
		return out
	case eBin:
		return eBin{t.op, nm.expr(t.l), nm.expr(t.r)}
	case eCall:
		out := eCall{name: t.name}
		for _, a := range t.args {
			out.args = append(out.args, nm.expr(a))
		}
		return out
	case eIndex:
		return eIndex{nm.expr(t.base), nm.expr(t.idx)}
	}
	return e
}

func (nm *numberer) body(b []stmt, observe bool) []stmt {
	out := make([]stmt, 0, len(b)+1)
	for _, s := range b {
		out = append(out, nm.stmt(s))
	}
	if observe && nm.obs != nil {
		nm.block++
		args := append([]expr{lit(fmt.Sprintf("b%d", nm.block))}, nm.obs...)
		// do not add an unreachable observation after break/continue/return
		if n := len(b); n > 0 {
			switch b[n-1].(type) {
			case sBreak, sContinue, sReturn:
				return out
			}
		}
		out = append(out, sPrint{args: args})
	}
	return out
}

func (nm *numberer) stmt(s stmt) stmt {
	switch t := s.(type) {
	case sAssign:
		return sAssign{typ: t.typ, lhs: nm.expr(t.lhs), op: t.op, rhs: nm.expr(t.rhs)}
	case sIf:
		out := sIf{conds: t.conds, hasEls: t.hasEls}
		for _, b := range t.blocks {
			out.blocks = append(out.blocks, nm.body(b, true))
		}
		if t.hasEls {
			out.els = nm.body(t.els, true)
		}
		return out
	case sCond:
		return sCond{t.c, nm.body(t.body, true)}
	case sWhile:
		return sWhile{t.c, nm.body(t.body, true)}
	case sDo:
		return sDo{nm.body(t.body, true), t.c}
	case sFor1:
		return sFor1{t.k, nm.expr(t.over), nm.body(t.body, true)}
	case sFor2:
		return sFor2{t.k, t.v, nm.expr(t.over), nm.body(t.body, true)}
	case sForN:
		return sForN{t.ks, t.v, nm.expr(t.over), nm.body(t.body, true)}
	case sFor3:
		return sFor3{start: nm.body(t.start, false), cont: t.cont, upd: t.upd, body: nm.body(t.body, true)}
	case sFunc:
		return sFunc{t.name, t.params, t.ret, nm.body(t.body, true)}
	case sSubr:
		return sSubr{t.name, t.params, nm.body(t.body, true)}
	case sBegin:
		return sBegin{nm.body(t.body, true)}
	case sEnd:
		return sEnd{nm.body(t.body, true)}
	case sReturn:
		if t.e != nil {
			return sReturn{nm.expr(t.e)}
		}
	case sPrint:
		out := sPrint{n: t.n}
		for _, a := range t.args {
			out.args = append(out.args, nm.expr(a))
		}
		return out
	case sCall:
		out := sCall{name: t.name}
		for _, a := range t.args {
			out.args = append(out.args, nm.expr(a))
		}
		return out
	}
	return s
}

func numberProgram(top []stmt, obs []expr, observeTop bool) []stmt {
	nm := &numberer{obs: obs}
	return nm.body(top, observeTop)
}
