package c14

// Statement execution of the reference interpreter.

import (
	"fmt"
)

func (in *interp) execBlock(b []stmt, loopVars []string) flow {
	in.pushFrame()
	in.loopVars = append(in.loopVars, loopVars)
	defer func() {
		in.loopVars = in.loopVars[:len(in.loopVars)-1]
		in.popFrame()
	}()
	return in.execFrameless(b)
}

func (in *interp) execFrameless(b []stmt) flow {
	for _, s := range b {
		if fl := in.exec(s); fl != flNone {
			return fl
		}
	}
	return flNone
}

func (in *interp) cond(e expr, what string) bool {
	v := in.eval(e)
	if v.k != kBool {
		uncon("%s condition of type %s", what, v.kindName())
	}
	return v.b
}

func (in *interp) exec(s stmt) flow {
	in.tick()
	switch t := s.(type) {
	case sAssign:
		in.assign(t)
	case sUnset:
		for _, x := range t.targets {
			in.unset(x)
		}
	case sPrint:
		in.print(t)
	case sDump:
		in.dump(t)
	case sEmit1:
		v := in.eval(t.e)
		if v.k != kMap {
			uncon("emit1 of a %s", v.kindName())
		}
		in.emitRecord(v.m)
	case sEmit:
		in.emit(t)
	case sEmitF:
		in.emitf(t)
	case sTee:
		in.needRec()
		in.out = append(in.out, item{k: itJSON, v: vMap(in.rec).deepCopy()})
	case sFilter:
		if in.opts.filterVerb {
			uncon("filter statement inside the filter verb")
		}
		v := in.eval(t.e)
		if v.k != kBool {
			uncon("filter statement on %s", v.kindName())
		}
		in.hit("sem:filter-statement")
		in.filterSet, in.filterVal = true, v.b
	case sBare:
		v := in.eval(t.e)
		if in.opts.filterVerb {
			if v.k != kBool {
				uncon("bare boolean of type %s in filter", v.kindName())
			}
			in.hit("sem:bare-boolean-sets-filter")
			in.filterSet, in.filterVal = true, v.b
		} else {
			in.hit("sem:bare-boolean-no-effect-in-put")
		}
	case sIf:
		for i := range t.conds {
			if in.cond(t.conds[i], "if") {
				if i == 0 {
					in.hit("sem:if-taken")
				} else {
					in.hit("sem:elif-taken")
				}
				return in.execBlock(t.blocks[i], nil)
			}
		}
		if t.hasEls {
			in.hit("sem:else-taken")
			return in.execBlock(t.els, nil)
		}
		in.hit("sem:if-none-taken")
	case sCond:
		if in.cond(t.c, "pattern-action") {
			in.hit("sem:pattern-action-taken")
			return in.execBlock(t.body, nil)
		}
		in.hit("sem:pattern-action-skipped")
	case sWhile:
		for in.cond(t.c, "while") {
			fl := in.execBlock(t.body, nil)
			if fl == flBreak {
				in.hit("sem:break-in-while")
				break
			}
			if fl == flContinue {
				in.hit("sem:continue-in-while")
			}
			if fl == flReturn {
				return fl
			}
		}
	case sDo:
		for {
			fl := in.execBlock(t.body, nil)
			if fl == flBreak {
				in.hit("sem:break-in-do-while")
				break
			}
			if fl == flContinue {
				in.hit("sem:continue-in-do-while")
			}
			if fl == flReturn {
				return fl
			}
			if !in.cond(t.c, "do-while") {
				break
			}
		}
	case sFor1:
		return in.forKV([]string{t.k}, "", t.over, t.body, 1)
	case sFor2:
		return in.forKV([]string{t.k}, t.v, t.over, t.body, 2)
	case sForN:
		return in.forKV(t.ks, t.v, t.over, t.body, 3)
	case sFor3:
		return in.for3(t)
	case sBreak:
		return flBreak
	case sContinue:
		return flContinue
	case sReturn:
		if n := len(in.callKinds); n == 0 {
			uncon("return outside a function or subroutine")
		} else if in.callKinds[n-1] == 's' {
			if t.e != nil {
				uncon("return with a value in a subroutine")
			}
			in.tag("return-in-subroutine")
		} else if t.e == nil {
			uncon("bare return in a function (rejected at parse time; not documented)")
		}
		if t.e != nil {
			in.retVal = in.eval(t.e).deepCopy()
		} else {
			in.retVal = vAbsent
		}
		return flReturn
	case sCall:
		f, ok := in.subrs[t.name]
		if !ok {
			fatal("subroutine %s not defined", t.name)
		}
		in.hit("sem:subr-call")
		args := make([]val, len(t.args))
		for i, a := range t.args {
			args[i] = in.eval(a).deepCopy()
		}
		in.invoke(f.name, f.params, "", f.body, args, false)
	case sBegin, sEnd, sFunc, sSubr:
		// handled by run
	default:
		panic(fmt.Sprintf("exec: unknown stmt %T", s))
	}
	return flNone
}

// bind a loop variable at the loop's own scope (implicitly 'var')
func (in *interp) bindLoopVar(name string, v val) {
	f := in.curFrame()
	if b := f.find(name); b != nil {
		b.v = v.deepCopy()
		return
	}
	f.vars = append(f.vars, &mvar{name, "any", v.deepCopy()})
}

func (in *interp) forKV(ks []string, vname string, over expr, body []stmt, form int) flow {
	c := in.eval(over) // a copy: the loop iterates over the collection as it was before the loop
	if c.k != kMap && c.k != kArr {
		uncon("for-loop over a %s", c.kindName())
	}
	bound := append([]string{}, ks...)
	if vname != "" {
		bound = append(bound, vname)
	}
	for i := range bound {
		for j := i + 1; j < len(bound); j++ {
			if bound[i] == bound[j] {
				uncon("the same name bound twice in one loop header")
			}
		}
	}
	in.pushFrame()
	in.loopVars = append(in.loopVars, nil)
	defer func() {
		in.loopVars = in.loopVars[:len(in.loopVars)-1]
		in.popFrame()
	}()
	type binding struct {
		keys []val
		v    val
	}
	var iter []binding
	switch form {
	case 1:
		if c.k == kMap {
			in.hit("sem:for1-map-binds-key")
			for _, e := range c.m.e {
				iter = append(iter, binding{keys: []val{keyVal(e.k)}})
			}
		} else {
			in.hit("sem:for1-array-binds-value")
			for _, e := range c.a {
				iter = append(iter, binding{keys: []val{e}})
			}
		}
	case 2:
		if c.k == kMap {
			in.hit("sem:for2-map-key-value")
			for _, e := range c.m.e {
				iter = append(iter, binding{keys: []val{keyVal(e.k)}, v: e.v})
			}
		} else {
			in.hit("sem:for2-array-index-value")
			for i, e := range c.a {
				iter = append(iter, binding{keys: []val{vInt(int64(i + 1))}, v: e})
			}
		}
	case 3:
		if c.k != kMap {
			uncon("multi-key for-loop over an array")
		}
		var walk func(m *omap, prefix []val, depth int)
		walk = func(m *omap, prefix []val, depth int) {
			for _, e := range m.e {
				p := append(append([]val{}, prefix...), keyVal(e.k))
				if depth == len(ks) {
					iter = append(iter, binding{keys: p, v: e.v})
					continue
				}
				if e.v.k == kMap {
					walk(e.v.m, p, depth+1)
				} else if e.v.k == kArr {
					uncon("multi-key for-loop descending into an array")
				} else {
					in.hit("sem:forN-too-shallow-skipped")
				}
			}
		}
		walk(c.m, nil, 1)
		in.hit("sem:forN-multi-key")
	}
	for bi, b := range iter {
		if form == 3 && bi > 0 {
			// the implementation binds an outer key once per outer entry, not once per iteration:
			// whether a body assignment to it survives into the next inner iteration is not documented
			prev := iter[bi-1]
			for j := 0; j+1 < len(ks); j++ {
				if cur := in.curFrame().find(ks[j]); cur != nil && !cur.v.equal(prev.keys[j]) && b.keys[j].equal(prev.keys[j]) {
					uncon("a multi-key loop's outer key variable was changed in the body")
				}
			}
		}
		for i, k := range ks {
			in.bindLoopVar(k, b.keys[i])
		}
		if vname != "" {
			in.bindLoopVar(vname, b.v)
		}
		fl := in.execBlock(body, bound)
		if fl == flBreak {
			in.hit("sem:break-in-for")
			break
		}
		if fl == flContinue {
			in.hit("sem:continue-in-for")
		}
		if fl == flReturn {
			return fl
		}
	}
	return flNone
}

func (in *interp) for3(t sFor3) flow {
	in.pushFrame()
	in.loopVars = append(in.loopVars, nil)
	defer func() {
		in.loopVars = in.loopVars[:len(in.loopVars)-1]
		in.popFrame()
	}()
	var bound []string
	for _, s := range t.start {
		a := s.(sAssign)
		if l, ok := a.lhs.(eLocal); ok {
			bound = append(bound, l.name)
		}
		in.exec(s)
	}
	for {
		ok := true
		for i, s := range t.cont {
			if i == len(t.cont)-1 {
				b, isBare := s.(sBare)
				if !isBare {
					uncon("triple-for continuation does not end in a bare boolean")
				}
				ok = in.cond(b.e, "triple-for")
			} else {
				in.exec(s)
			}
		}
		if len(t.cont) == 0 {
			in.hit("sem:for3-empty-continuation-true")
		}
		if !ok {
			break
		}
		fl := in.execBlock(t.body, bound)
		if fl == flBreak {
			in.hit("sem:break-in-for3")
			break
		}
		if fl == flReturn {
			return fl
		}
		if fl == flContinue {
			in.hit("sem:continue-in-for3-still-updates")
		}
		for _, s := range t.upd {
			in.exec(s)
		}
	}
	return flNone
}

// ---------------------------------------------------------------- assignment

// a declaration in the top level of a loop body of a name bound by that loop's header:
// whether header and body are one scope is not documented.
func (in *interp) checkLoopShadow(name string) {
	if n := len(in.loopVars); n > 0 {
		for _, b := range in.loopVars[n-1] {
			if b == name {
				uncon("declaration of a loop-bound name at the top of the loop body")
			}
		}
	}
}

func (in *interp) assign(t sAssign) {
	var rhs val
	if t.op == "" {
		rhs = in.eval(t.rhs)
	} else {
		// L op= R is L = L op R
		cur := in.eval(t.lhs)
		r := in.eval(t.rhs)
		switch t.op {
		case "??":
			if cur.k != kAbsent {
				rhs = cur
			} else {
				rhs = r
			}
		case "&&", "||":
			rhs = in.eval(eBin{t.op, eLit{cur}, eLit{r}})
		default:
			if cur.k == kAbsent && r.k != kAbsent {
				in.hit("sem:compound-assign-on-absent")
			}
			rhs = in.binary(t.op, cur, r)
		}
	}
	if rhs.k == kAbsent {
		in.hit("sem:absent-rhs-assignment-skipped")
		return
	}
	if rhs.k == kErr {
		uncon("error value assigned")
	}
	rhs = rhs.deepCopy()
	if t.typ != "" {
		name := t.lhs.(eLocal).name
		in.checkLoopShadow(name)
		typ := t.typ
		if err := in.st.define(name, typ, rhs); err != nil {
			if in.depth > 0 {
				in.tag("in-function-body")
			}
			if in.curFrame().find(name) != nil {
				in.hit("sem:redeclaration-in-same-scope-fatal")
			} else {
				in.hit("sem:declaration-type-gate-fatal")
			}
			fatal("%v", err)
		}
		if n := len(in.st.cur().frames); n > 1 {
			for _, f := range in.st.cur().frames[:n-1] {
				if f.find(name) != nil {
					in.hit("sem:inner-declaration-shadows-outer")
					break
				}
			}
		}
		in.hit("sem:typed-declaration:" + typ)
		return
	}
	in.store(t.lhs, rhs)
}

func (in *interp) store(l expr, v val) {
	switch t := l.(type) {
	case eLocal:
		b := in.st.lookup(t.name)
		if b != nil {
			if in.curFrame().find(t.name) == nil {
				in.hit("sem:assignment-updates-enclosing-scope")
			}
			if b.typ != "any" {
				if typeAdmits(b.typ, v) {
					in.hit("sem:assignment-type-gate-pass")
				} else {
					in.hit("sem:assignment-type-gate-fatal")
				}
			}
		} else {
			in.hit("sem:assignment-creates-local")
		}
		if err := in.st.set(t.name, v); err != nil {
			if in.depth > 0 {
				in.tag("in-function-body")
			}
			fatal("%v", err)
		}
	case eField:
		in.needRec()
		in.putField(t.name, v)
	case eFieldX:
		in.needRec()
		k := in.eval(t.e)
		if k.k == kAbsent {
			in.hit("sem:absent-key-assignment-skipped")
			return
		}
		if k.k != kStr {
			uncon("$[...] assignment with a %s name", k.kindName())
		}
		in.putField(k.s, v)
	case ePosNam:
		in.needRec()
		n := in.eval(t.e)
		if n.k != kInt {
			uncon("$[[...]] with a %s index", n.kindName())
		}
		if v.k != kStr {
			uncon("field renamed to a %s", v.kindName())
		}
		if n.i < 0 {
			uncon("negative positional index (the text says absent/no-op, the implementation aliases from the end)")
		}
		if n.i >= 1 && n.i <= int64(len(in.rec.e)) {
			for i, e := range in.rec.e {
				if e.k == v.s && int64(i) != n.i-1 {
					uncon("positional rename onto an existing field name")
				}
			}
			in.hit("sem:positional-name-assign")
			in.rec.e[n.i-1].k = v.s
		} else {
			in.hit("sem:positional-out-of-range-assign-noop")
		}
	case ePosVal:
		in.needRec()
		n := in.eval(t.e)
		if n.k != kInt {
			uncon("$[[[...]]] with a %s index", n.kindName())
		}
		if n.i < 0 {
			uncon("negative positional index (the text says absent/no-op, the implementation aliases from the end)")
		}
		if n.i >= 1 && n.i <= int64(len(in.rec.e)) {
			in.hit("sem:positional-value-assign")
			in.rec.e[n.i-1].v = v
		} else {
			in.hit("sem:positional-out-of-range-assign-noop")
		}
	case eSrec:
		in.needRec()
		if v.k != kMap {
			uncon("$* assigned a %s", v.kindName())
		}
		in.hit("sem:full-record-assign")
		in.rec = v.m
	case eOos:
		in.hit("sem:oosvar-assign")
		in.oos.put(t.name, v)
	case eOosAll:
		if v.k != kMap {
			uncon("@* assigned a %s", v.kindName())
		}
		in.hit("sem:full-oosvar-assign")
		in.oos = v.m
	case eIndex:
		in.storeIndexed(t, v)
	default:
		uncon("assignment to %T", l)
	}
}

func (in *interp) putField(name string, v val) {
	if _, ok := in.rec.get(name); ok {
		in.hit("sem:field-reassigned-keeps-position")
	} else {
		in.hit("sem:new-field-appended")
	}
	in.rec.put(name, v)
}

// putIndexed implements auto-create/auto-deepen/auto-extend on a value.
func (in *interp) putIndexed(base val, ixs []val, v val, what string) val {
	if len(ixs) == 0 {
		return v
	}
	ix := ixs[0]
	switch base.k {
	case kAbsent:
		// auto-create and auto-deepen always produce maps, even for integer keys
		in.hit("sem:auto-create-map")
		base = newMapVal()
		fallthrough
	case kMap:
		k, ok := keyOf(ix)
		if !ok {
			uncon("map key of type %s", ix.kindName())
		}
		if ix.k == kInt {
			in.hit("sem:map-int-key-stringified")
		}
		child, _ := base.m.get(k)
		if len(ixs) > 1 && child.k != kAbsent && !child.isColl() {
			uncon("indexing through a scalar")
		}
		if len(ixs) > 1 && child.k == kAbsent {
			in.hit("sem:auto-deepen")
		}
		base.m.put(k, in.putIndexed(child, ixs[1:], v, what))
		return base
	case kArr:
		if ix.k != kInt {
			uncon("array index of type %s on assignment", ix.kindName())
		}
		n := int64(len(base.a))
		i := ix.i
		switch {
		case i == 0:
			uncon("array assignment at index 0")
		case i < -n:
			uncon("array assignment at a negative index beyond the length")
		case i < 0:
			in.hit("sem:array-negative-alias-write")
			i += n + 1
		}
		switch {
		case i <= n:
			in.hit("sem:array-element-write")
			child := base.a[i-1]
			if child.k == kNull {
				child = vAbsent
			}
			if len(ixs) > 1 && child.k == kMap && ixs[1].k == kInt {
				in.tag("int-key-into-map-element-of-array")
			}
			if len(ixs) > 1 && child.k != kAbsent && !child.isColl() {
				uncon("indexing through a scalar")
			}
			base.a[i-1] = in.putIndexed(child, ixs[1:], v, what)
		case i == n+1:
			in.hit("sem:array-auto-extend-by-one")
			if len(ixs) > 1 {
				in.tag("array-extend-through-nonfinal-index")
				if ixs[1].k == kInt {
					uncon("auto-create of an array element through an integer index (map or array: not documented)")
				}
			}
			base.a = append(base.a, in.putIndexed(vAbsent, ixs[1:], v, what))
		default:
			in.hit("sem:array-null-gap-fill")
			in.tag("null-gap")
			if len(ixs) > 1 {
				in.tag("array-extend-through-nonfinal-index")
				if ixs[1].k == kInt {
					uncon("auto-create of an array element through an integer index (map or array: not documented)")
				}
			}
			for int64(len(base.a)) < i-1 {
				base.a = append(base.a, val{k: kNull})
			}
			base.a = append(base.a, in.putIndexed(vAbsent, ixs[1:], v, what))
		}
		return base
	}
	uncon("indexed assignment on a %s-valued %s", base.kindName(), what)
	return base
}

func splitIndex(e expr) (expr, []expr) {
	var ixs []expr
	for {
		t, ok := e.(eIndex)
		if !ok {
			break
		}
		ixs = append([]expr{t.idx}, ixs...)
		e = t.base
	}
	return e, ixs
}

func (in *interp) storeIndexed(t eIndex, v val) {
	base, ixe := splitIndex(t)
	ixs := make([]val, len(ixe))
	for i, e := range ixe {
		ixs[i] = in.eval(e)
		if ixs[i].k == kAbsent {
			in.hit("sem:absent-key-assignment-skipped")
			return
		}
	}
	switch b := base.(type) {
	case eLocal:
		bind := in.st.lookup(b.name)
		if bind == nil {
			nv := in.putIndexed(vAbsent, ixs, v, "local")
			in.hit("sem:indexed-local-auto-create")
			if err := in.st.set(b.name, nv); err != nil {
				fatal("%v", err)
			}
			return
		}
		if !bind.v.isColl() {
			uncon("indexed assignment on a local holding %s", bind.v.kindName())
		}
		nv := in.putIndexed(bind.v, ixs, v, "local")
		if !typeAdmits(bind.typ, nv) {
			fatal("type gate on indexed assignment")
		}
		bind.v = nv
	case eOos:
		cur, _ := in.oos.get(b.name)
		if cur.k != kAbsent && !cur.isColl() {
			uncon("indexed assignment on a scalar oosvar")
		}
		in.hit("sem:indexed-oosvar-assign")
		in.oos.put(b.name, in.putIndexed(cur, ixs, v, "oosvar"))
	case eOosAll:
		in.oos = in.putIndexed(vMap(in.oos), ixs, v, "@*").m
	case eField:
		in.needRec()
		cur, _ := in.rec.get(b.name)
		if cur.k != kAbsent && !cur.isColl() {
			uncon("indexed assignment on a scalar field")
		}
		in.hit("sem:indexed-field-assign")
		in.rec.put(b.name, in.putIndexed(cur, ixs, v, "field"))
	case eSrec:
		in.needRec()
		in.hit("sem:indexed-full-record-assign")
		in.rec = in.putIndexed(vMap(in.rec), ixs, v, "$*").m
	default:
		uncon("indexed assignment with base %T", base)
	}
}

// ---------------------------------------------------------------- unset

func (in *interp) removeIndexed(base val, ixs []val) val {
	ix := ixs[0]
	switch base.k {
	case kMap:
		k, ok := keyOf(ix)
		if !ok {
			uncon("unset map key type")
		}
		if len(ixs) == 1 {
			if _, has := base.m.get(k); has {
				in.hit("sem:unset-map-key")
			} else {
				in.hit("sem:unset-missing-key-noop")
			}
			base.m.del(k)
			return base
		}
		child, has := base.m.get(k)
		if has && child.isColl() {
			base.m.put(k, in.removeIndexed(child, ixs[1:]))
		} else if has {
			uncon("unset through a scalar")
		}
		return base
	case kArr:
		if ix.k != kInt {
			uncon("unset array index type")
		}
		p, ok := unalias(len(base.a), ix.i)
		if !ok {
			if ix.i == 0 {
				uncon("unset of array index 0")
			}
			in.hit("sem:unset-out-of-bounds-noop")
			return base
		}
		if len(ixs) == 1 {
			in.hit("sem:unset-array-element-shifts-down")
			base.a = append(base.a[:p:p], base.a[p+1:]...)
			return base
		}
		if base.a[p].isColl() {
			base.a[p] = in.removeIndexed(base.a[p], ixs[1:])
		} else {
			uncon("unset through a scalar")
		}
		return base
	case kAbsent:
		return base
	}
	uncon("unset of an index of a %s", base.kindName())
	return base
}

func (in *interp) unset(x expr) {
	switch t := x.(type) {
	case eLocal:
		// "clears ... a local variable": the value becomes absent; the binding (scope and declared type) stays
		if b := in.st.lookup(t.name); b != nil {
			in.hit("sem:unset-local")
			// whether an outer same-named variable becomes visible again is not documented
			fs := in.st.cur().frames
			cnt := 0
			for _, f := range fs {
				if f.find(t.name) != nil {
					cnt++
				}
			}
			if cnt > 1 {
				uncon("unset of a local that shadows an outer local")
			}
		}
		in.st.unset(t.name)
	case eField:
		in.needRec()
		in.hit("sem:unset-field")
		in.rec.del(t.name)
	case eFieldX:
		in.needRec()
		k := in.eval(t.e)
		if k.k != kStr {
			uncon("unset $[...] name type")
		}
		in.hit("sem:unset-field")
		in.rec.del(k.s)
	case eSrec:
		in.needRec()
		in.hit("sem:unset-full-record")
		in.rec = &omap{}
	case eOos:
		in.hit("sem:unset-oosvar")
		in.oos.del(t.name)
	case eOosAll:
		in.hit("sem:unset-all-oosvars")
		in.oos = &omap{}
	case ePosNam, ePosVal:
		uncon("unset of a positional name")
	case eIndex:
		base, ixe := splitIndex(t)
		ixs := make([]val, len(ixe))
		for i, e := range ixe {
			ixs[i] = in.eval(e)
			if ixs[i].k == kAbsent {
				uncon("unset with an absent index")
			}
		}
		switch b := base.(type) {
		case eLocal:
			if bind := in.st.lookup(b.name); bind != nil && bind.v.k != kAbsent {
				bind.v = in.removeIndexed(bind.v, ixs)
			}
		case eOos:
			if cur, ok := in.oos.get(b.name); ok {
				in.oos.put(b.name, in.removeIndexed(cur, ixs))
			}
		case eField:
			in.needRec()
			if cur, ok := in.rec.get(b.name); ok {
				in.rec.put(b.name, in.removeIndexed(cur, ixs))
			}
		default:
			uncon("unset indexed base %T", base)
		}
	default:
		uncon("unset of %T", x)
	}
}

// ---------------------------------------------------------------- output statements

func (in *interp) print(t sPrint) {
	if t.n {
		uncon("printn")
	}
	if len(t.args) == 1 {
		v := in.eval(t.args[0])
		if v.isColl() {
			if v.hasKind(kErr) || v.hasKind(kFunc) || v.hasKind(kAbsent) {
				uncon("printing a collection holding error/function/absent")
			}
			in.hit("sem:print-collection-as-json")
			in.out = append(in.out, item{k: itJSON, v: v.deepCopy()})
			return
		}
	}
	s := ""
	for i, a := range t.args {
		v := in.eval(a)
		if i > 0 {
			s += " "
		}
		switch v.k {
		case kAbsent:
			in.hit("sem:print-absent-as-empty")
		case kInt, kStr, kBool:
			s += v.text()
		default:
			uncon("print of a %s among several arguments", v.kindName())
		}
	}
	in.out = append(in.out, item{k: itText, s: s})
}

func (in *interp) dump(t sDump) {
	if t.e == nil {
		in.hit("sem:dump-all-oosvars")
		in.out = append(in.out, item{k: itJSON, v: vMap(in.oos).deepCopy()})
		return
	}
	v := in.eval(t.e)
	switch v.k {
	case kMap, kArr:
		in.out = append(in.out, item{k: itJSON, v: v.deepCopy()})
	case kInt, kStr, kBool:
		in.out = append(in.out, item{k: itText, s: v.text()})
	default:
		uncon("dump of %s", v.kindName())
	}
}

func (in *interp) emitRecord(m *omap) {
	v := vMap(m).deepCopy()
	if v.hasKind(kErr) || v.hasKind(kFunc) || v.hasKind(kAbsent) {
		uncon("record holding error/function/absent")
	}
	in.out = append(in.out, item{k: itJSON, v: v})
}

// ---------------------------------------------------------------- program driver

type outcome struct {
	tags    []string
	items   []item
	fatal   string
	uncon   string
	nonterm bool
}

type program struct {
	top  []stmt
	opts runOpts
}

func runReference(p program, input []*omap, hits map[string]int64) (res outcome) {
	in := &interp{funcs: map[string]sFunc{}, subrs: map[string]sSubr{}, oos: &omap{}, st: newMStack(), opts: p.opts, hits: hits}
	funcLitTable = funcLitTable[:0]
	defer func() {
		res.items = in.out
		res.tags = in.tags
		if r := recover(); r != nil {
			switch e := r.(type) {
			case fatalErr:
				res.fatal = e.msg
			case unconErr:
				res.uncon = e.why
			case nontermErr:
				res.nonterm = true
			default:
				panic(r)
			}
		}
	}()
	var begins, ends, main []stmt
	for _, s := range p.top {
		switch t := s.(type) {
		case sFunc:
			if _, dup := in.funcs[t.name]; dup {
				fatal("function %s redefined", t.name)
			}
			in.funcs[t.name] = t
		case sSubr:
			if _, dup := in.subrs[t.name]; dup {
				fatal("subroutine %s redefined", t.name)
			}
			in.subrs[t.name] = t
		case sBegin:
			begins = append(begins, t)
		case sEnd:
			ends = append(ends, t)
		default:
			main = append(main, s)
		}
	}
	topFlow := func(fl flow) {
		if fl == flBreak || fl == flContinue {
			uncon("break/continue outside a loop")
		}
	}
	for _, b := range begins {
		in.st = newMStack()
		topFlow(in.execBlock(b.(sBegin).body, nil))
	}
	for i, r := range input {
		in.nr = int64(i + 1)
		in.rec = vMap(r).deepCopy().m
		in.st = newMStack() // locals do not survive from one record to the next
		in.filterSet = false
		topFlow(in.execBlock(main, nil))
		keep := true
		if in.filterSet {
			keep = in.filterVal
		} else if in.opts.filterVerb {
			// no bare boolean was executed: the documentation does not say whether the record passes
			uncon("filter verb without an executed bare boolean")
		}
		if in.opts.x {
			if !in.filterSet {
				uncon("-x without a filter condition")
			}
			keep = !keep
		}
		if keep && !in.opts.q {
			in.emitRecord(in.rec)
		}
		in.rec = nil
	}
	in.nr = int64(len(input))
	for _, b := range ends {
		in.st = newMStack()
		topFlow(in.execBlock(b.(sEnd).body, nil))
	}
	return
}
