package c14

// Family "loopvar": block scoping of for-loop variables whose names are already
// bound outside the loop. Every loop form (single-variable over arrays and
// maps, key-value over maps and arrays, multi-key over nested maps) x source
// kind (literal, local, function result) x element type x outer binding of the
// loop variable names (fresh, untyped, typed int/str/var/map, two levels up,
// function parameter) x body. The loop variable is always a NEW binding at the
// loop's scope: no type error against an outer typed local, assignments to it
// inside the body stay inside, and the outer variable is unchanged afterwards
// (observed after the loop and inside nested blocks).

type loopForm struct {
	name  string
	vars  []string
	mk    func(over expr, body []stmt) stmt
	elems map[string]expr // element type -> collection literal
}

func genLoopVarFamily(a progArgs, emit func(func() *progCase)) {
	arrI := arrLit(lit(1), lit(2), lit(3))
	arrS := arrLit(lit("a"), lit("b"))
	arrM := arrLit(mapLit(lit("k"), lit(1)), arrLit(lit(7)))
	mapI := mapLit(lit("p"), lit(1), lit("q"), lit(2))
	mapS := mapLit(lit("p"), lit("u"), lit("q"), lit("v"))
	map2 := mapLit(lit("p"), mapLit(lit("r"), lit(1)), lit("q"), mapLit(lit("s"), lit(2), lit("t"), lit(3)))
	forms := []loopForm{
		{"for1-array", []string{"e"}, func(o expr, b []stmt) stmt { return sFor1{"e", o, b} }, map[string]expr{"int": arrI, "str": arrS, "coll": arrM}},
		{"for1-map", []string{"e"}, func(o expr, b []stmt) stmt { return sFor1{"e", o, b} }, map[string]expr{"int": mapI, "str": mapS}},
		{"for2-array", []string{"e", "f"}, func(o expr, b []stmt) stmt { return sFor2{"e", "f", o, b} }, map[string]expr{"int": arrI, "str": arrS}},
		{"for2-map", []string{"e", "f"}, func(o expr, b []stmt) stmt { return sFor2{"e", "f", o, b} }, map[string]expr{"int": mapI, "str": mapS, "coll": map2}},
		{"forN-map", []string{"e", "f", "g"}, func(o expr, b []stmt) stmt { return sForN{[]string{"e", "f"}, "g", o, b} }, map[string]expr{"int": map2}},
	}
	sources := []string{"literal", "local", "function"}
	outers := []string{"fresh", "untyped", "int", "str", "var", "map", "two-up", "param", "typed-two-up"}
	e := loc("e")
	bodies := []struct {
		name string
		mk   func(vars []string) []stmt
	}{
		{"print", func(v []string) []stmt { return []stmt{prVars("in", v)} }},
		{"assign", func(v []string) []stmt { return []stmt{asg(e, lit(99)), prVars("in", v)} }},
		{"assign-str", func(v []string) []stmt { return []stmt{asg(e, lit("ninety")), prVars("in", v)} }},
		{"nested", func(v []string) []stmt {
			return []stmt{sIf{conds: []expr{lit(true)}, blocks: [][]stmt{{prVars("nested", v), asg(e, lit(7)), decl("var", "e", lit(8)), prVars("shadow", v)}}}, prVars("in", v)}
		}},
		{"copy-out", func(v []string) []stmt { return []stmt{asg(loc("last"), e), opasg(loc("cnt"), "+", lit(1))} }},
		{"break", func(v []string) []stmt { return []stmt{prVars("in", v), sBreak{}} }},
		{"continue", func(v []string) []stmt {
			return []stmt{sIf{conds: []expr{bin("==", loc("cnt"), lit(0))}, blocks: [][]stmt{{asg(loc("cnt"), lit(1)), sContinue{}}}}, prVars("in", v)}
		}},
		{"inner-loop-same-name", func(v []string) []stmt {
			return []stmt{sFor1{"e", arrLit(lit("x"), lit("y")), []stmt{prVars("inner", v)}}, prVars("in", v)}
		}},
		{"unset", func(v []string) []stmt { return []stmt{sUnset{[]expr{e}}, prVars("in", v)} }},
	}
	mkFunc := sFunc{"mk", []param{{"c", ""}}, "", []stmt{sReturn{loc("c")}}}
	for _, f := range forms {
		for et, coll := range orderedElems(f.elems) {
			_ = et
			for _, src := range sources {
				for _, outer := range outers {
					for _, body := range bodies {
						f, coll, src, outer, body := f, coll, src, outer, body
						emit(func() *progCase {
							pre := []stmt{asg(loc("cnt"), lit(0)), asg(loc("w"), lit(0))}
							var over expr
							switch src {
							case "literal":
								over = coll.e
							case "local":
								pre = append(pre, asg(loc("src"), coll.e))
								over = loc("src")
							case "function":
								over = call("mk", coll.e)
							}
							loop := f.mk(over, body.mk(f.vars))
							after := []stmt{prVars("after", f.vars), pr(lit("last"), loc("last"), loc("cnt"))}
							bindAll := func(typ string, v func(i int) expr) []stmt {
								var out []stmt
								for i, n := range f.vars {
									if typ == "" {
										out = append(out, asg(loc(n), v(i)))
									} else {
										out = append(out, decl(typ, n, v(i)))
									}
								}
								return out
							}
							intv := func(i int) expr { return lit(500 + i) }
							strv := func(i int) expr { return lit("outer" + string(rune('0'+i))) }
							mapv := func(i int) expr { return mapLit(lit("o"), lit(i)) }
							var main []stmt
							top := []stmt{mkFunc}
							switch outer {
							case "fresh":
								main = append(append(pre, loop), after...)
							case "untyped":
								main = append(append(append(pre, bindAll("", strv)...), loop), after...)
							case "int":
								main = append(append(append(pre, bindAll("int", intv)...), loop), after...)
							case "str":
								main = append(append(append(pre, bindAll("str", strv)...), loop), after...)
							case "var":
								main = append(append(append(pre, bindAll("var", intv)...), loop), after...)
							case "map":
								main = append(append(append(pre, bindAll("map", mapv)...), loop), after...)
							case "two-up":
								inner := append(append([]stmt{}, loop), prVars("after-inner", f.vars))
								main = append(append(pre, bindAll("", strv)...), sIf{conds: []expr{lit(true)}, blocks: [][]stmt{{sWhile{bin("<", loc("w"), lit(1)), append([]stmt{asg(loc("w"), lit(1))}, inner...)}}}})
								main = append(main, after...)
							case "typed-two-up":
								inner := append(append([]stmt{}, loop), prVars("after-inner", f.vars))
								main = append(append(pre, bindAll("int", intv)...), sIf{conds: []expr{lit(true)}, blocks: [][]stmt{{sIf{conds: []expr{lit(true)}, blocks: [][]stmt{inner}}}}})
								main = append(main, after...)
							case "param":
								ps := make([]param, len(f.vars))
								args := make([]expr, len(f.vars))
								for i, n := range f.vars {
									typ := ""
									if i == 0 {
										typ = "int"
									}
									ps[i] = param{n, typ}
									args[i] = intv(i)
								}
								fb := append(append(append([]stmt{}, pre...), loop), after...)
								fb = append(fb, sReturn{loc(f.vars[0])})
								top = append(top, sFunc{"host", ps, "", fb})
								main = []stmt{pr(lit("returned"), eCall{"host", args})}
							}
							top = append(top, sEnd{main})
							return &progCase{family: "loopvar", size: len(f.vars), top: top, noInput: true}
						})
					}
				}
			}
		}
	}
}

type namedExpr struct {
	name string
	e    expr
}

func orderedElems(m map[string]expr) []namedExpr {
	var out []namedExpr
	for _, k := range []string{"int", "str", "coll"} {
		if e, ok := m[k]; ok {
			out = append(out, namedExpr{k, e})
		}
	}
	return out
}

// print "tag" and each variable, scalars as text; collections are printed as "(collection)" through is_map/typeof-free means:
// a loop variable may hold a map or array, so every variable gets its own print statement.
func prVars(tag string, vars []string) stmt {
	// one print statement per block is enough for scalars; for possibly collection-valued variables
	// use a nested block of single-argument prints
	var ss []stmt
	ss = append(ss, pr(lit(tag)))
	for _, v := range vars {
		ss = append(ss, pr(loc(v)))
	}
	return sIf{conds: []expr{lit(true)}, blocks: [][]stmt{ss}}
}
