package c14

// Family "func": user-defined functions and subroutines. Every combination of
// parameter type x return type x body (statement sequences over a small
// alphabet: callee locals that clash with caller locals, parameter
// redeclaration/reassignment/mutation, oosvar side effects, all return forms,
// conditional return) x argument (int, string, map literal, map-valued local,
// field, absent). The caller observes its own locals afterwards: callee locals
// must not leak, a mutated map argument must not change in the caller, type
// gates fire at binding, at assignment and at return.
// Family "recur": recursion (depth <= 3) and mutual recursion templates with
// shadowing around the recursive call.
// Family "hof": function literals with apply/select/reduce/fold/sort/any/every.

func genFuncFamily(a progArgs, emit func(func() *progCase)) {
	ptypes := []string{"", "int", "str", "map"}
	rtypes := []string{"", "int", "map"}
	if a.Level >= 1 {
		ptypes = append(ptypes, "var", "num")
		rtypes = append(rtypes, "str", "var")
	}
	pa := loc("a")
	bodyAlpha := []stmt{
		asg(loc("x"), lit(phInt)),
		decl("var", "a", lit(phInt)),
		asg(pa, lit(phInt)),
		asg(idx(pa, lit("k")), lit(phInt)),
		asg(oos("g"), pa),
		sReturn{pa},
		sReturn{lit(phInt)},
		sReturn{loc("x")},
		sIf{conds: []expr{nrEq(2)}, blocks: [][]stmt{{sReturn{lit(phInt)}}}},
	}
	if a.Level >= 1 {
		bodyAlpha = append(bodyAlpha,
			asg(pa, lit(phStr)),
			decl("int", "x", lit(phInt)),
			asg(fld("new"), pa),
			sReturn{mapLit(lit("r"), pa)},
		)
	}
	subrAlpha := []stmt{
		asg(loc("x"), lit(phInt)),
		decl("var", "a", lit(phInt)),
		asg(pa, lit(phInt)),
		asg(idx(pa, lit("k")), lit(phInt)),
		asg(oos("g"), pa),
		sReturn{nil},
		sIf{conds: []expr{nrEq(2)}, blocks: [][]stmt{{sReturn{nil}}}},
		pr(lit("in"), loc("x")),
		pr(pa),
	}
	type argk struct {
		name  string
		setup []stmt
		e     expr
	}
	args := []argk{
		{"int", nil, lit(7)},
		{"str", nil, lit("s")},
		{"maplit", nil, mapLit(lit("k"), lit(1))},
		{"maplocal", []stmt{asg(loc("m"), mapLit(lit("k"), lit(1), lit("j"), lit(2)))}, loc("m")},
		{"absent", nil, fld("nosuch")},
	}
	if a.Level >= 1 {
		args = append(args, argk{"field", nil, fld("a")}, argk{"typedlocal", []stmt{decl("int", "m", lit(5))}, loc("m")})
	}
	var bodies [][]stmt
	var rec func(alpha []stmt, n int, prefix []stmt, out *[][]stmt)
	rec = func(alpha []stmt, n int, prefix []stmt, out *[][]stmt) {
		*out = append(*out, append([]stmt(nil), prefix...))
		if n == 0 {
			return
		}
		for _, s := range alpha {
			rec(alpha, n-1, append(prefix[:len(prefix):len(prefix)], s), out)
		}
	}
	rec(bodyAlpha, a.Size, nil, &bodies)
	var sbodies [][]stmt
	rec(subrAlpha, a.Size, nil, &sbodies)

	mainTail := []stmt{pr(lit("main"), loc("x"), loc("a")), pr(loc("z")), pr(loc("m")), pr(oos("g"))}
	for _, pt := range ptypes {
		for _, rt := range rtypes {
			for _, body := range bodies {
				for _, ar := range args {
					pt, rt, body, ar := pt, rt, body, ar
					emit(func() *progCase {
						f := sFunc{"f", []param{{"a", pt}}, rt, body}
						main := []stmt{asg(loc("x"), lit(100))}
						main = append(main, ar.setup...)
						main = append(main, asg(loc("z"), call("f", ar.e)))
						main = append(main, mainTail...)
						top := numberProgram(append([]stmt{f}, main...), nil, false)
						return &progCase{family: "func", size: len(body), top: top}
					})
				}
			}
		}
	}
	for _, pt := range ptypes {
		for _, body := range sbodies {
			for _, ar := range args {
				pt, body, ar := pt, body, ar
				emit(func() *progCase {
					f := sSubr{"s", []param{{"a", pt}}, body}
					main := []stmt{asg(loc("x"), lit(100))}
					main = append(main, ar.setup...)
					main = append(main, sCall{"s", []expr{ar.e}})
					main = append(main, pr(lit("main"), loc("x"), loc("a")), pr(loc("m")), pr(oos("g")))
					top := numberProgram(append([]stmt{main[0], f}, main[1:]...), nil, false)
					return &progCase{family: "func", size: len(body), top: top, opts: runOpts{q: true}}
				})
			}
		}
	}
}

// ---------------------------------------------------------------- recursion

func genRecurFamily(a progArgs, emit func(func() *progCase)) {
	genRecurMultiArg(a, emit)
	n := loc("n")
	le0 := bin("<=", n, lit(0))
	dec := bin("-", n, lit(1))
	type tmpl struct {
		defs []stmt
		call func(arg expr) []stmt
	}
	callF := func(arg expr) []stmt {
		return []stmt{asg(loc("x"), lit(100)), asg(loc("y"), lit(200)), asg(loc("z"), call("f", arg)), pr(lit("main"), loc("x"), loc("y"), loc("z"))}
	}
	callS := func(arg expr) []stmt {
		return []stmt{asg(loc("x"), lit(100)), sCall{"s", []expr{arg}}, pr(lit("main"), loc("x"), oos("c"))}
	}
	ts := []tmpl{
		// sum 1..n
		{[]stmt{sFunc{"f", []param{{"n", ""}}, "", []stmt{
			sIf{conds: []expr{le0}, blocks: [][]stmt{{sReturn{lit(0)}}}},
			sReturn{bin("+", n, call("f", dec))}}}}, callF},
		{[]stmt{sFunc{"f", []param{{"n", "int"}}, "int", []stmt{
			sIf{conds: []expr{le0}, blocks: [][]stmt{{sReturn{lit(0)}}}, els: []stmt{sReturn{bin("+", n, call("f", dec))}}, hasEls: true}}}}, callF},
		// a shadowed variable read after an inner block inside a recursive call
		{[]stmt{sFunc{"f", []param{{"n", ""}}, "", []stmt{
			decl("var", "x", n),
			sIf{conds: []expr{bin(">", n, lit(0))}, blocks: [][]stmt{{decl("var", "x", bin("*", n, lit(10))), asg(loc("y"), call("f", dec)), pr(lit("inner"), n, loc("x"), loc("y"))}}},
			pr(lit("outer"), n, loc("x"), loc("y")),
			sReturn{loc("x")}}}}, callF},
		// undeclared assignment inside the block updates the function-level variable, at every depth separately
		{[]stmt{sFunc{"f", []param{{"n", ""}}, "", []stmt{
			asg(loc("x"), n),
			sIf{conds: []expr{bin(">", n, lit(0))}, blocks: [][]stmt{{asg(loc("t"), call("f", dec)), asg(loc("x"), bin("+", bin("*", loc("x"), lit(10)), loc("t")))}}},
			sReturn{loc("x")}}}}, callF},
		// typed local in a recursive frame set: the gate of one activation must not leak into another
		{[]stmt{sFunc{"f", []param{{"n", ""}}, "", []stmt{
			sIf{conds: []expr{bin("==", n, lit(1))}, blocks: [][]stmt{{decl("str", "x", lit("one"))}}, els: []stmt{decl("int", "x", n)}, hasEls: true},
			sIf{conds: []expr{bin(">", n, lit(0))}, blocks: [][]stmt{{asg(loc("r"), call("f", dec))}}},
			asg(loc("x"), n), // outer scope: creates/updates function-level x, never the block-local typed ones
			sReturn{bin("+", loc("x"), bin("??", loc("r"), lit(0)))}}}}, callF},
		// loop inside recursion with break; loop variable name equal to the parameter of the caller
		{[]stmt{sFunc{"f", []param{{"n", ""}}, "", []stmt{
			asg(loc("acc"), lit(0)),
			sFor3{start: []stmt{decl("int", "i", lit(0))}, cont: []stmt{sBare{bin("<", loc("i"), lit(3))}}, upd: []stmt{opasg(loc("i"), "+", lit(1))}, body: []stmt{
				sIf{conds: []expr{bin(">", loc("i"), n)}, blocks: [][]stmt{{sBreak{}}}},
				sIf{conds: []expr{bin("&&", bin("==", loc("i"), lit(1)), bin(">", n, lit(0)))}, blocks: [][]stmt{{opasg(loc("acc"), "+", call("f", dec))}}},
				opasg(loc("acc"), "+", lit(1))}},
			sReturn{loc("acc")}}}}, callF},
		// map built up through recursion, returned by value
		{[]stmt{sFunc{"f", []param{{"n", "int"}}, "map", []stmt{
			sIf{conds: []expr{le0}, blocks: [][]stmt{{sReturn{mapLit()}}}},
			decl("map", "m", call("f", dec)),
			asg(idx(loc("m"), n), bin("*", n, n)),
			sReturn{loc("m")}}}}, callF},
		// mutual recursion, defined after use
		{[]stmt{
			sFunc{"f", []param{{"n", ""}}, "", []stmt{sIf{conds: []expr{le0}, blocks: [][]stmt{{sReturn{lit("f")}}}}, sReturn{bin(".", lit("f"), call("h", dec))}}},
			sFunc{"h", []param{{"n", ""}}, "", []stmt{sIf{conds: []expr{le0}, blocks: [][]stmt{{sReturn{lit("h")}}}}, sReturn{bin(".", lit("h"), call("f", dec))}}},
		}, callF},
		// recursive subroutine with an oosvar counter and a caller-named local
		{[]stmt{sSubr{"s", []param{{"n", ""}}, []stmt{
			opasg(oos("c"), "+", lit(1)),
			asg(loc("x"), n),
			sIf{conds: []expr{bin(">", n, lit(0))}, blocks: [][]stmt{{sCall{"s", []expr{dec}}}}},
			pr(lit("s"), n, loc("x"))}}}, callS},
		// subroutine calling a function calling the subroutine's namesake function (separate namespaces)
		{[]stmt{
			sSubr{"s", []param{{"n", "int"}}, []stmt{pr(lit("subr"), call("s", n)), opasg(oos("c"), "+", lit(1))}},
			sFunc{"s", []param{{"n", "int"}}, "int", []stmt{sIf{conds: []expr{le0}, blocks: [][]stmt{{sReturn{lit(0)}}}}, sReturn{bin("+", lit(1), call("s", dec))}}},
		}, callS},
		// missing return on one path of a typed function: fatal only when that path is taken
		{[]stmt{sFunc{"f", []param{{"n", "int"}}, "int", []stmt{
			sIf{conds: []expr{bin("<", n, lit(2))}, blocks: [][]stmt{{sReturn{n}}}}}}}, callF},
		// return inside a loop inside a block
		{[]stmt{sFunc{"f", []param{{"n", ""}}, "", []stmt{
			sFor2{"k", "v", mapLit(lit("a"), lit(1), lit("b"), lit(2), lit("c"), lit(3)), []stmt{
				sIf{conds: []expr{bin(">=", loc("v"), n)}, blocks: [][]stmt{{sReturn{loc("k")}}}}}},
			sReturn{lit("none")}}}}, callF},
	}
	argVals := []expr{lit(0), lit(1), lit(2), lit(3)}
	if a.Level >= 1 {
		argVals = append(argVals, eCtx{"NR"}, fld("a"), lit("str"))
	}
	for ti, t := range ts {
		for _, av := range argVals {
			for _, inEnd := range []bool{false, true} {
				t, av, ti, inEnd := t, av, ti, inEnd
				if inEnd {
					if _, isField := av.(eField); isField {
						continue
					}
				}
				emit(func() *progCase {
					body := t.call(av)
					if inEnd {
						return &progCase{family: "recur", size: ti, top: append(append([]stmt{}, t.defs...), sEnd{body}), opts: runOpts{q: true}}
					}
					return &progCase{family: "recur", size: ti, top: append(append([]stmt{}, body...), t.defs...), opts: runOpts{q: true}}
				})
			}
		}
	}
}

// genRecurMultiArg: calls with two or more arguments where the same callsite is re-entered by
// recursion while a later argument of the outer call is still being evaluated (per-call argument
// binding: every activation must keep its own already-evaluated arguments).
func genRecurMultiArg(a progArgs, emit func(func() *progCase)) {
	n, m := loc("n"), loc("m")
	acc, sv := loc("acc"), loc("s")
	ret := func(x expr) stmt { return sReturn{x} }
	ifz := func(c expr, then ...stmt) stmt { return sIf{conds: []expr{c}, blocks: [][]stmt{then}} }
	sub1 := func(x expr) expr { return bin("-", x, lit(1)) }
	le0 := func(x expr) expr { return bin("<=", x, lit(0)) }
	dot := func(xs ...expr) expr {
		e := xs[0]
		for _, x := range xs[1:] {
			e = bin(".", e, x)
		}
		return e
	}
	type tmpl struct {
		name string
		defs []stmt
		body func(args []expr) []stmt
		args [][]expr
	}
	prF := func(fn string) func(args []expr) []stmt {
		return func(args []expr) []stmt {
			return []stmt{asg(loc("n"), lit(100)), asg(loc("m"), lit(200)), asg(loc("z"), eCall{fn, args}), pr(lit("result"), loc("z")), pr(lit("caller"), loc("n"), loc("m"))}
		}
	}
	var ackArgs, natPairs, strPairs [][]expr
	for i := 0; i <= 2; i++ {
		for j := 0; j <= 3; j++ {
			ackArgs = append(ackArgs, []expr{lit(i), lit(j)})
		}
	}
	for i := 0; i <= 3; i++ {
		for _, j := range []int{0, 5} {
			natPairs = append(natPairs, []expr{lit(i), lit(j)})
		}
		strPairs = append(strPairs, []expr{lit(i), lit("s")})
	}
	ts := []tmpl{
		{"ackermann", []stmt{sFunc{"ack", []param{{"m", ""}, {"n", ""}}, "", []stmt{
			sIf{conds: []expr{bin("==", m, lit(0)), bin("==", n, lit(0))},
				blocks: [][]stmt{{ret(bin("+", n, lit(1)))}, {ret(call("ack", sub1(m), lit(1)))}},
				els:    []stmt{ret(call("ack", sub1(m), call("ack", m, sub1(n))))}, hasEls: true}}}},
			prF("ack"), ackArgs},
		{"ackermann-typed", []stmt{sFunc{"ack", []param{{"m", "int"}, {"n", "int"}}, "int", []stmt{
			sIf{conds: []expr{bin("==", m, lit(0)), bin("==", n, lit(0))},
				blocks: [][]stmt{{ret(bin("+", n, lit(1)))}, {ret(call("ack", sub1(m), lit(1)))}},
				els:    []stmt{ret(call("ack", sub1(m), call("ack", m, sub1(n))))}, hasEls: true}}}},
			prF("ack"), ackArgs},
		// second argument is a recursive call of the function itself with the same callsite re-entered inside
		{"self-in-second-arg", []stmt{sFunc{"f", []param{{"n", ""}, {"acc", ""}}, "", []stmt{
			ifz(le0(n), ret(acc)),
			ret(call("f", sub1(n), call("f", sub1(n), bin("+", acc, n))))}}},
			prF("f"), natPairs},
		{"self-in-second-arg-weighted", []stmt{sFunc{"f", []param{{"n", ""}, {"acc", ""}}, "", []stmt{
			ifz(le0(n), ret(acc)),
			ret(bin("+", bin("*", n, lit(1000)), call("f", sub1(n), call("f", bin("-", n, lit(2)), bin("+", bin("*", acc, lit(3)), n)))))}}},
			prF("f"), natPairs},
		{"self-in-second-arg-strings", []stmt{sFunc{"f", []param{{"n", ""}, {"s", ""}}, "", []stmt{
			ifz(le0(n), ret(sv)),
			ret(dot(call("f", sub1(n), call("f", sub1(n), dot(sv, lit("<"), n))), lit(">"), n))}}},
			prF("f"), strPairs},
		{"self-in-first-arg", []stmt{sFunc{"f", []param{{"acc", ""}, {"n", ""}}, "", []stmt{
			ifz(le0(n), ret(acc)),
			ret(call("f", call("f", bin("+", acc, n), sub1(n)), sub1(n)))}}},
			func(args []expr) []stmt { return prF("f")([]expr{args[1], args[0]}) }, natPairs},
		{"three-args", []stmt{sFunc{"t", []param{{"n", ""}, {"b", ""}, {"c", ""}}, "", []stmt{
			ifz(le0(n), ret(dot(loc("b"), lit("|"), loc("c")))),
			ret(call("t", sub1(n), call("t", sub1(n), dot(loc("b"), n), loc("c")), call("t", sub1(n), loc("c"), dot(loc("b"), lit("x")))))}}},
			func(args []expr) []stmt { return prF("t")([]expr{args[0], lit("B"), lit("C")}) }, strPairs[:3]},
		// mutual recursion with two arguments: h's second argument calls g, g's second argument calls g
		{"mutual-g-h", []stmt{
			sFunc{"g", []param{{"n", ""}, {"acc", ""}}, "", []stmt{
				ifz(le0(n), ret(bin("+", acc, lit(10)))),
				ret(call("h", sub1(n), call("g", sub1(n), bin("+", acc, n))))}},
			sFunc{"h", []param{{"n", ""}, {"acc", ""}}, "", []stmt{
				ifz(le0(n), ret(acc)),
				ret(call("g", n, bin("+", call("g", sub1(n), acc), lit(1))))}}},
			prF("g"), natPairs},
		// string-building two-function recursion
		{"mutual-strings-p-q", []stmt{
			sFunc{"p", []param{{"n", ""}, {"s", ""}}, "", []stmt{
				ifz(le0(n), ret(sv)),
				ret(call("q", sub1(n), call("p", sub1(n), dot(sv, lit("p"), n))))}},
			sFunc{"q", []param{{"n", ""}, {"s", ""}}, "", []stmt{
				ifz(le0(n), ret(dot(sv, lit("!")))),
				ret(call("p", sub1(n), call("q", sub1(n), dot(sv, lit("q"), n))))}}},
			prF("p"), strPairs},
		// the same through a subroutine with an oosvar accumulator: the argument of `call s` runs a
		// function that calls s, whose body reaches the same `call s` callsite again
		{"subroutine-oosvar", []stmt{
			sSubr{"s", []param{{"n", ""}, {"v", ""}}, []stmt{
				sIf{conds: []expr{le0(n)}, blocks: [][]stmt{{opasg(oos("acc"), ".", dot(loc("v"), lit(";")))}},
					els: []stmt{sCall{"s", []expr{sub1(n), call("w", n, loc("v"))}}, opasg(oos("acc"), ".", dot(lit("["), n, loc("v"), lit("]")))}, hasEls: true}}},
			sFunc{"w", []param{{"n", ""}, {"v", ""}}, "", []stmt{
				sCall{"s", []expr{sub1(n), dot(loc("v"), lit("w"))}},
				ret(dot(loc("v"), n))}}},
			func(args []expr) []stmt {
				return []stmt{asg(loc("n"), lit(100)), asg(oos("acc"), lit("^")), sCall{"s", args}, pr(lit("acc"), oos("acc")), pr(lit("caller"), loc("n"))}
			}, strPairs},
	}
	for ti, t := range ts {
		for _, args := range t.args {
			for _, inEnd := range []bool{true, false} {
				t, args, ti, inEnd := t, args, ti, inEnd
				emit(func() *progCase {
					body := t.body(args)
					if inEnd {
						return &progCase{family: "recur", size: 100 + ti, top: append(append([]stmt{}, t.defs...), sEnd{body}), noInput: true}
					}
					return &progCase{family: "recur", size: 100 + ti, top: append(append([]stmt{}, body...), t.defs...), opts: runOpts{q: true}}
				})
			}
		}
	}
}

// ---------------------------------------------------------------- higher-order functions

func genHofFamily(a progArgs, emit func(func() *progCase)) {
	arr := arrLit(lit(3), lit(1), lit(2))
	mp := mapLit(lit("c"), lit(3), lit("a"), lit(1), lit("b"), lit(2))
	e, acc := loc("e"), loc("acc")
	k, v := loc("k"), loc("v")
	fl := func(params []string, body ...stmt) expr {
		ps := make([]param, len(params))
		for i, p := range params {
			ps[i] = param{p, ""}
		}
		return eFuncLit{params: ps, body: body}
	}
	ret := func(x expr) stmt { return sReturn{x} }
	type hc struct {
		name string
		e    expr
	}
	var cases []hc
	add := func(n string, x expr) { cases = append(cases, hc{n, x}) }
	// arrays
	for _, f := range []expr{bin("+", e, lit(1)), bin("*", e, e), bin(".", lit("s"), e), mapLit(lit("v"), e), arrLit(e, e)} {
		add("apply-arr", call("apply", arr, fl([]string{"e"}, ret(f))))
	}
	for _, f := range []expr{bin("<", e, lit(2)), bin("==", e, lit(2)), lit(true), lit(false), bin("!=", e, lit(3))} {
		add("select-arr", call("select", arr, fl([]string{"e"}, ret(f))))
		add("any-arr", call("any", arr, fl([]string{"e"}, ret(f))))
		add("every-arr", call("every", arr, fl([]string{"e"}, ret(f))))
	}
	for _, f := range []expr{bin("+", acc, e), call("min", acc, e), bin(".", acc, bin(".", lit("-"), e)), bin("-", acc, e)} {
		add("reduce-arr", call("reduce", arr, fl([]string{"acc", "e"}, ret(f))))
		add("fold-arr", call("fold", arr, fl([]string{"acc", "e"}, ret(f)), lit(10)))
	}
	for _, f := range []expr{bin("<=>", loc("a"), loc("b")), bin("<=>", loc("b"), loc("a"))} {
		add("sort-arr", call("sort", arr, fl([]string{"a", "b"}, ret(f))))
	}
	// maps
	for _, f := range []expr{mapLit(k, bin("+", v, lit(1))), mapLit(bin(".", k, lit("x")), v), mapLit(lit("same"), v)} {
		add("apply-map", call("apply", mp, fl([]string{"k", "v"}, ret(f))))
	}
	for _, f := range []expr{bin("<", v, lit(2)), bin("==", k, lit("a")), lit(true), lit(false)} {
		add("select-map", call("select", mp, fl([]string{"k", "v"}, ret(f))))
		add("any-map", call("any", mp, fl([]string{"k", "v"}, ret(f))))
		add("every-map", call("every", mp, fl([]string{"k", "v"}, ret(f))))
	}
	ak, av, ek, ev := loc("ak"), loc("av"), loc("ek"), loc("ev")
	for _, f := range []expr{mapLit(lit("sum"), bin("+", av, ev)), mapLit(bin(".", ak, ek), call("min", av, ev))} {
		add("reduce-map", call("reduce", mp, fl([]string{"ak", "av", "ek", "ev"}, ret(f))))
		add("fold-map", call("fold", mp, fl([]string{"ak", "av", "ek", "ev"}, ret(f)), mapLit(lit("start"), lit(10))))
	}
	bk, bv := loc("bk"), loc("bv")
	for _, f := range []expr{bin("<=>", av, bv), bin("<=>", bv, av), bin("<=>", ak, bk), bin("<=>", bk, ak)} {
		add("sort-map", call("sort", mp, fl([]string{"ak", "av", "bk", "bv"}, ret(f))))
	}
	for _, c := range cases {
		c := c
		emit(func() *progCase {
			return &progCase{family: "hof", size: 1, top: []stmt{sEnd{[]stmt{pr(c.e), pr(lit("done"))}}}, noInput: true}
		})
		// through an untyped local, then called with the collection in a local
		emit(func() *progCase {
			cc := c.e.(eCall)
			body := []stmt{asg(loc("coll"), cc.args[0]), asg(loc("fn"), cc.args[1])}
			args := append([]expr{loc("coll"), loc("fn")}, cc.args[2:]...)
			body = append(body, asg(loc("out"), eCall{cc.name, args}), pr(loc("out")), pr(loc("coll")))
			return &progCase{family: "hof", size: 2, top: []stmt{sEnd{body}}, noInput: true}
		})
	}
	// function literals as values
	one := fl([]string{"s", "t"}, ret(bin(".", loc("s"), bin(".", lit(":"), loc("t")))))
	withCap := fl([]string{"i"}, sIf{conds: []expr{bin(">=", loc("i"), loc("cap"))}, blocks: [][]stmt{{ret(lit("above"))}}, els: []stmt{ret(lit("below"))}, hasEls: true})
	for _, typ := range []string{"", "funct", "var"} {
		typ := typ
		emit(func() *progCase {
			body := []stmt{sAssign{typ: typ, lhs: loc("f"), rhs: one}, pr(call("f", lit("a"), lit("b")))}
			return &progCase{family: "hof", size: 3, top: []stmt{sEnd{body}}, noInput: true}
		})
		emit(func() *progCase {
			// the literal reads a local of its enclosing scope that is assigned after the literal (documented example)
			body := []stmt{sAssign{typ: typ, lhs: loc("f"), rhs: withCap}, asg(loc("cap"), lit(10)), pr(call("f", lit(5)), call("f", lit(10)), call("f", lit(11)))}
			return &progCase{family: "hof", size: 3, top: []stmt{sEnd{body}}, noInput: true}
		})
	}
	emit(func() *progCase {
		// chosen by a ternary (documented example)
		body := []stmt{asg(loc("p"), fl([]string{"s"}, ret(bin(".", loc("s"), lit(" above"))))), asg(loc("q"), fl([]string{"s"}, ret(bin(".", loc("s"), lit(" below"))))),
			asg(loc("f"), eTern{bin(">=", eCtx{"NR"}, lit(2)), loc("p"), loc("q")}), asg(fld("z"), call("f", fld("b")))}
		return &progCase{family: "hof", size: 4, top: body}
	})
	emit(func() *progCase {
		// funct-typed parameter and return value (documented example)
		top := []stmt{
			sFunc{"makefunc", nil, "funct", []stmt{ret(fl([]string{"x", "y"}, ret(bin("+", bin("*", lit(10), loc("x")), loc("y")))))}},
			sFunc{"callfunc", []param{{"f", "funct"}, {"x", "num"}, {"y", "num"}}, "num", []stmt{ret(call("f", loc("x"), loc("y")))}},
			sEnd{[]stmt{asg(loc("f"), call("makefunc")), pr(call("f", lit(2), lit(3))), pr(call("callfunc", loc("f"), lit(3), lit(5)))}},
		}
		return &progCase{family: "hof", size: 5, top: top, noInput: true}
	})
	emit(func() *progCase {
		// a named function passed where a function is expected
		top := []stmt{
			sFunc{"inc", []param{{"e", ""}}, "", []stmt{ret(bin("+", loc("e"), lit(1)))}},
			sEnd{[]stmt{pr(call("apply", arr, loc("inc")))}},
		}
		return &progCase{family: "hof", size: 5, top: top, noInput: true}
	})
}
