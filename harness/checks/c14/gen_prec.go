package c14

// Family "prec": precedence and associativity of every operator token of
// docs/src/reference-dsl-operators.md. For every expression tree with up to N
// operators the tree is printed twice: with the minimal parentheses the
// documented table requires, and fully parenthesised. Both are evaluated by
// the real parser + BIFs in one run and must give the same value: only the
// *shape* the parser reconstructs is under test (C07/C08 own the arithmetic).
// Evidence counts how many trees are discriminating (the opposite association
// or grouping gives a different value on the real code).

import (
	"fmt"
	"strings"

	"verif/harness/vf"
)

var precBinOps = []string{"||", "^^", "&&", "==", "!=", "=~", "!=~", "<=>", "<", "<=", ">", ">=", "|", "^", "&",
	"<<", ">>", ">>>", "+", "-", "*", "/", "//", "%", ".", "??", "???", "**"}
var precUnOps = []string{"!", "~", "+", "-"}

type precNodeKind int

// fullParen prints every composite subexpression inside parentheses.
func fullParen(e expr) string {
	switch t := e.(type) {
	case eBin:
		return "(" + fullParen(t.l) + " " + t.op + " " + fullParen(t.r) + ")"
	case eUn:
		return "(" + t.op + " " + fullParen(t.e) + ")"
	case eTern:
		return "(" + fullParen(t.c) + " ? " + fullParen(t.a) + " : " + fullParen(t.b) + ")"
	}
	return unparseExpr(e)
}

// trees with exactly n operator nodes; leaves are numbered placeholders filled later
func precTrees(n int, withTernary bool, cb func(e expr)) {
	var gen func(n int) []expr
	memo := map[int][]expr{}
	gen = func(n int) []expr {
		if v, ok := memo[n]; ok {
			return v
		}
		var out []expr
		if n == 0 {
			out = []expr{eLocal{"_"}}
		} else {
			for _, op := range precUnOps {
				for _, s := range gen(n - 1) {
					out = append(out, eUn{op, s})
				}
			}
			for l := 0; l <= n-1; l++ {
				for _, op := range precBinOps {
					for _, a := range gen(l) {
						for _, b := range gen(n - 1 - l) {
							out = append(out, eBin{op, a, b})
						}
					}
				}
			}
			if withTernary {
				for i := 0; i <= n-1; i++ {
					for j := 0; i+j <= n-1; j++ {
						for _, c := range gen(i) {
							for _, a := range gen(j) {
								for _, b := range gen(n - 1 - i - j) {
									out = append(out, eTern{c, a, b})
								}
							}
						}
					}
				}
			}
		}
		memo[n] = out
		return out
	}
	for _, e := range gen(n) {
		cb(e)
	}
}

func fillLeaves(e expr, vals []expr, next *int) expr {
	switch t := e.(type) {
	case eLocal:
		v := vals[*next%len(vals)]
		*next++
		return v
	case eUn:
		return eUn{t.op, fillLeaves(t.e, vals, next)}
	case eBin:
		l := fillLeaves(t.l, vals, next)
		return eBin{t.op, l, fillLeaves(t.r, vals, next)}
	case eTern:
		c := fillLeaves(t.c, vals, next)
		a := fillLeaves(t.a, vals, next)
		return eTern{c, a, fillLeaves(t.b, vals, next)}
	}
	return e
}

func opsOf(e expr, out *[]string) {
	switch t := e.(type) {
	case eUn:
		*out = append(*out, "unary"+t.op)
		opsOf(t.e, out)
	case eBin:
		*out = append(*out, t.op)
		opsOf(t.l, out)
		opsOf(t.r, out)
	case eTern:
		*out = append(*out, "?:")
		opsOf(t.c, out)
		opsOf(t.a, out)
		opsOf(t.b, out)
	}
}

func precWorker(w *vf.Worker) {
	var a progArgs
	_ = jsonUnmarshal(w.Args, &a)
	sing := snapshotSingletons()
	leafSets := [][]expr{
		{lit(7), lit(2), lit(3), lit(5)},
		{lit(12), lit(10), lit(5), lit(3)},
		{lit(true), lit(false), lit(true), lit(false)},
		{lit(true), lit(2), lit(3), lit(false)},
		{lit(6), lit(true), lit(false), lit(4)},
	}
	if a.Level >= 1 {
		leafSets = append(leafSets, []expr{lit("a"), lit(2), lit("b"), lit(3)}, []expr{lit(1), lit(1), lit(2), lit(2)})
	}
	hits := map[string]int64{}
	var idx uint64
	var ncases, nparen, nsame int64
	const batch = 24
	type cs struct{ min, full string }
	var pend []cs
	flush := func() {
		if len(pend) == 0 {
			return
		}
		var sb strings.Builder
		sb.WriteString("end {")
		for i, c := range pend {
			if i > 0 {
				sb.WriteString("; ")
			}
			fmt.Fprintf(&sb, "print typeof(%s) . \"|\" . typeof(%s); print %s; print %s", c.min, c.full, c.min, c.full)
		}
		sb.WriteString("}")
		r, hung := runWithCPUWatchdog([]string{"-n", "put", sb.String()}, nil)
		if hung {
			w.Violation("prec[hang]:"+pend[0].min, fmt.Sprintf("evaluating a batch of expressions starting with `%s` does not terminate", pend[0].min), nil)
			w.Abandon()
		}
		sing.check()
		lines := strings.Split(strings.TrimSuffix(r.Stdout, "\n"), "\n")
		if r.Exit != 0 || r.Panic != "" || len(lines) != 3*len(pend) {
			// run them one by one to attribute
			for _, c := range pend {
				prog := fmt.Sprintf("end {print typeof(%s) . \"|\" . typeof(%s); print %s; print %s}", c.min, c.full, c.min, c.full)
				r1 := vf.RunMlr([]string{"-n", "put", prog}, vf.MlrOpts{})
				sing.check()
				l1 := strings.Split(strings.TrimSuffix(r1.Stdout, "\n"), "\n")
				if r1.Panic != "" {
					w.Violation(fmt.Sprintf("prec[panic]:%03d:%s", len(c.min), c.min), fmt.Sprintf("`mlr -n put '%s'` panics: %s", prog, r1.Panic), map[string]any{"program": prog})
					continue
				}
				if r1.Exit != 0 || len(l1) != 3 {
					// the minimal-parentheses text must at least be accepted wherever the fully parenthesised one is
					rf := vf.RunMlr([]string{"-n", "put", "end{print " + c.full + "}"}, vf.MlrOpts{})
					rm := vf.RunMlr([]string{"-n", "put", "end{print " + c.min + "}"}, vf.MlrOpts{})
					sing.check()
					if rf.Exit == 0 && rm.Exit != 0 {
						w.Violation(fmt.Sprintf("prec[rejected]:%03d:%s", len(c.min), c.min), fmt.Sprintf("`%s` is rejected (%s) although `%s` is accepted and the documented precedence table makes them the same expression", c.min, trunc(strings.TrimSpace(rm.Stderr+rm.Err), 200), c.full), map[string]any{"min": c.min, "full": c.full})
					} else {
						w.Count("prec_both_forms_rejected_or_multiline", 1)
					}
					continue
				}
				checkPrec(w, c.min, c.full, l1, &nsame)
			}
			pend = pend[:0]
			return
		}
		for i, c := range pend {
			checkPrec(w, c.min, c.full, lines[3*i:3*i+3], &nsame)
		}
		pend = pend[:0]
	}
	for n := 1; n <= a.Size; n++ {
		precTrees(n, true, func(shape expr) {
			idx++
			if !w.Mine(idx) {
				return
			}
			w.Begin(idx)
			w.Label(func() string { return "prec: " + unparseExpr(shape) })
			for _, ls := range leafSets {
				next := 0
				e := fillLeaves(shape, ls, &next)
				min, full := unparseExpr(e), fullParen(e)
				var ops []string
				opsOf(e, &ops)
				for _, o := range ops {
					hits[o]++
				}
				ncases++
				if strings.Contains(min, "(") {
					nparen++
				}
				w.Eval(1)
				pend = append(pend, cs{min, full})
				if len(pend) >= batch {
					flush()
				}
			}
		})
	}
	flush()
	// discriminating power: for every ordered pair of binary operators, do the two associations of
	// a op1 b op2 c evaluate differently (on the real code) for at least one operand set?
	var pairIdx uint64 = 1 << 40
	for _, op1 := range precBinOps {
		for _, op2 := range precBinOps {
			pairIdx++
			if !w.Mine(pairIdx) {
				continue
			}
			w.Begin(pairIdx)
			var sb strings.Builder
			sb.WriteString("end {")
			for i, ls := range leafSets {
				if i > 0 {
					sb.WriteString("; ")
				}
				l := fullParen(eBin{op2, eBin{op1, ls[0], ls[1]}, ls[2]})
				r := fullParen(eBin{op1, ls[0], eBin{op2, ls[1], ls[2]}})
				fmt.Fprintf(&sb, "print %s; print %s", l, r)
			}
			sb.WriteString("}")
			r, hung := runWithCPUWatchdog([]string{"-n", "put", sb.String()}, nil)
			sing.check()
			if hung || r.Exit != 0 {
				continue
			}
			lines := strings.Split(strings.TrimSuffix(r.Stdout, "\n"), "\n")
			for i := 0; i+1 < len(lines); i += 2 {
				if lines[i] != lines[i+1] {
					w.AddSet("prec-operator-pairs-whose-association-is-observable", op1+" "+op2)
					break
				}
			}
		}
	}
	w.Nontrivial(ncases)
	w.Count("family:prec:expressions", ncases)
	w.Count("family:prec:needing-some-parentheses", nparen)
	w.Count("family:prec:agreeing", nsame)
	w.Count("prod:Parenthesized", nparen)
	for k, v := range hits {
		w.Count("prod:Operator:"+k, v)
	}
}

func checkPrec(w *vf.Worker, min, full string, l []string, nsame *int64) {
	types := strings.SplitN(l[0], "|", 2)
	if len(types) == 2 && types[0] == types[1] && l[1] == l[2] {
		*nsame++
		w.AddSet("outcomes:prec", l[0]+":"+l[1])
		return
	}
	w.Violation(fmt.Sprintf("prec[shape]:%03d:%s", len(min), min),
		fmt.Sprintf("`%s` evaluates to %s (%s) but the documented precedence/associativity makes it `%s`, which evaluates to %s (%s)", min, l[1], types[0], full, l[2], types[len(types)-1]),
		map[string]any{"command": fmt.Sprintf("mlr -n put 'end{print %s; print %s}'", min, full)})
}
