package c14

// Family "blocks": every sequence (bounded length) of top-level items over an
// alphabet of begin/end blocks, pattern-action blocks, out-of-stream
// accumulations (scalar, keyed, whole-record), filter statements, bare
// booleans, unsets, tee, emit/dump in end blocks; run as put, put -q, put -x.
// Family "filter": the filter verb (bare booleans incl. inside if/else, -x, -q).
// Family "chain": two puts in one then-chain keep private @-spaces.

func blockAlphabet(level int) []stmt {
	c, s, m := oos("c"), oos("s"), oos("m")
	al := []stmt{
		sBegin{[]stmt{asg(c, lit(10))}},
		opasg(c, "+", lit(1)),
		opasg(c, "+", fld("c")), // $c is absent in the third record
		opasg(s, ".", fld("b")),
		opasg(idx(m, fld("b")), "+", fld("a")),
		asg(oos("last"), eSrec{}),
		asg(fld("new"), c),
		asg(fld("m"), idx(m, fld("b"))),
		sCond{nrEq(2), []stmt{asg(oos("hit"), eCtx{"NR"})}},
		sCond{bin(">", fld("a"), lit(1)), []stmt{asg(fld("big"), lit(true))}},
		sFilter{bin("!=", fld("a"), lit(2))},
		sFilter{lit(false)},
		// a filter statement that is executed for some records only: it must decide about that record alone
		sCond{nrEq(1), []stmt{sFilter{lit(false)}}},
		sCond{nrEq(2), []stmt{sFilter{lit(true)}}},
		sBare{bin("==", fld("a"), lit(1))},
		sCond{nrEq(2), []stmt{sUnset{[]expr{c}}}},
		sCond{nrEq(3), []stmt{sUnset{[]expr{eOosAll{}}}}},
		sEnd{[]stmt{sEmit{kw: "emit", items: []expr{c}}}},
		sEnd{[]stmt{sDump{}}},
		sEnd{[]stmt{pr(lit("NR at end"), eCtx{"NR"})}},
		sEnd{[]stmt{sEmit{kw: "emit", items: []expr{m}, names: []expr{lit("b")}}}},
	}
	if level >= 1 {
		al = append(al,
			sBegin{[]stmt{asg(s, lit("b:")), asg(loc("x"), lit(5))}},
			asg(idx(oos("r"), eCtx{"NR"}), fld("a")),
			asg(loc("x"), c),
			asg(fld("x"), loc("x")),
			sIf{conds: []expr{call("is_present", fld("c"))}, blocks: [][]stmt{{opasg(oos("n"), "+", lit(1))}}, els: []stmt{asg(eSrec{}, oos("last"))}, hasEls: true},
			sEnd{[]stmt{sEmitF{[]expr{c, s}}}},
			sEnd{[]stmt{sEmit1{mapLit(lit("c"), c)}}},
			sFilter{bin("||", nrEq(1), nrEq(3))},
			sEmit1{mapLit(lit("nr"), eCtx{"NR"})},
			sUnset{[]expr{fld("b")}},
		)
	}
	return al
}

func hasFilterStmt(ss []stmt) bool {
	for _, s := range ss {
		if _, ok := s.(sFilter); ok {
			return true
		}
	}
	return false
}

func hasConditionalFilter(ss []stmt) bool {
	for _, s := range ss {
		if c, ok := s.(sCond); ok && hasFilterStmt(c.body) {
			return true
		}
	}
	return false
}

func genBlocksFamily(a progArgs, emit func(func() *progCase)) {
	al := blockAlphabet(a.Level)
	var rec func(n int, prefix []stmt)
	rec = func(n int, prefix []stmt) {
		if len(prefix) > 0 {
			p := append([]stmt(nil), prefix...)
			for _, o := range []runOpts{{}, {q: true}, {x: true}} {
				o := o
				if o.x && !hasFilterStmt(p) {
					continue
				}
				cause := ""
				if hasConditionalFilter(p) {
					cause = "filter-statement-on-some-records-only"
				}
				emit(func() *progCase { return &progCase{family: "blocks", size: len(p), top: p, opts: o, cause: cause} })
			}
		}
		if n == 0 {
			return
		}
		for _, s := range al {
			rec(n-1, append(prefix[:len(prefix):len(prefix)], s))
		}
	}
	rec(a.Size, nil)
}

func genFilterFamily(a progArgs, emit func(func() *progCase)) {
	al := []stmt{
		sBare{bin(">", fld("a"), lit(1))},
		sBare{bin("==", fld("b"), lit("pan"))},
		sBare{lit(true)},
		sBare{lit(false)},
		sBare{call("is_present", fld("c"))},
		asg(fld("new"), bin("+", fld("a"), lit(10))),
		opasg(oos("sum"), "+", fld("a")),
		sBare{bin(">", oos("sum"), lit(2))},
		sIf{conds: []expr{bin("<", eCtx{"NR"}, lit(2))}, blocks: [][]stmt{{sBare{lit(false)}}}, els: []stmt{sBare{bin("==", fld("b"), lit("pan"))}}, hasEls: true},
		sCond{nrEq(2), []stmt{sBare{lit(false)}}},
		sEnd{[]stmt{sEmit{kw: "emit", items: []expr{oos("sum")}}}},
		pr(lit("seen"), fld("a")),
	}
	var rec func(n int, prefix []stmt)
	rec = func(n int, prefix []stmt) {
		if len(prefix) > 0 {
			p := append([]stmt(nil), prefix...)
			for _, o := range []runOpts{{filterVerb: true}, {filterVerb: true, x: true}, {filterVerb: true, q: true}} {
				o := o
				emit(func() *progCase { return &progCase{family: "filter", size: len(p), top: p, opts: o} })
			}
		}
		if n == 0 {
			return
		}
		for _, s := range al {
			rec(n-1, append(prefix[:len(prefix):len(prefix)], s))
		}
	}
	rec(a.Size, nil)
}

func genChainFamily(a progArgs, emit func(func() *progCase)) {
	c := oos("c")
	progs := [][]stmt{
		{opasg(c, "+", fld("a")), sEnd{[]stmt{sEmit{kw: "emit", items: []expr{c}}}}},
		{opasg(c, "+", lit(1)), asg(fld("n"), c)},
		{sBegin{[]stmt{asg(c, lit(100))}}, opasg(c, "+", lit(1)), asg(fld("k"), c), sEnd{[]stmt{sEmit{kw: "emit", items: []expr{c}}}}},
		{sCond{call("is_present", fld("a")), []stmt{asg(fld("a"), bin("*", fld("a"), lit(10))), opasg(c, "+", fld("a"))}}, sEnd{[]stmt{sEmit{kw: "emit", items: []expr{c}}}}},
		{asg(fld("seen"), call("is_present", c)), asg(c, lit(1))},
		{sFilter{bin("!=", fld("a"), lit(2))}, opasg(idx(c, fld("b")), "+", lit(1)), sEnd{[]stmt{sEmit{kw: "emit", items: []expr{c}, names: []expr{lit("b")}}}}},
	}
	for i, p1 := range progs {
		for j, p2 := range progs {
			for _, q1 := range []bool{false, true} {
				p1, p2, i, j, q1 := p1, p2, i, j, q1
				emit(func() *progCase {
					return &progCase{family: "chain", size: i*10 + j, top: p1, opts: runOpts{q: q1}, then: p2}
				})
			}
		}
	}
}
