package c14

// Runs one generated program through the real parser + CST in-process and
// compares stdout (records as JSON Lines, printed lines, their interleaving)
// and error/no-error with the reference interpreter's prediction.

import (
	"bytes"
	"encoding/json"
	"fmt"
	"hash/fnv"
	"os"
	"strings"
	"syscall"
	"time"

	"verif/harness/vf"
)

// The fixed input: three records, heterogeneous in one field.
const inputText = "a=1,b=pan,c=3\na=2,b=eks,c=4\na=3,b=pan\n"

func fixedInput() []*omap {
	mk := func(kvs ...any) *omap {
		m := &omap{}
		for i := 0; i+1 < len(kvs); i += 2 {
			switch t := kvs[i+1].(type) {
			case int:
				m.put(kvs[i].(string), vInt(int64(t)))
			case string:
				m.put(kvs[i].(string), vStr(t))
			}
		}
		return m
	}
	return []*omap{mk("a", 1, "b", "pan", "c", 3), mk("a", 2, "b", "eks", "c", 4), mk("a", 3, "b", "pan")}
}

func parseItems(out string) ([]item, error) {
	var items []item
	pos := 0
	for pos < len(out) {
		c := out[pos]
		if c == '{' || c == '[' {
			dec := json.NewDecoder(strings.NewReader(out[pos:]))
			dec.UseNumber()
			v, err := fromJSON(dec)
			if err != nil {
				return items, fmt.Errorf("stdout is not parseable at byte %d: %v", pos, err)
			}
			pos += int(dec.InputOffset())
			// rest of the line must be empty
			nl := strings.IndexByte(out[pos:], '\n')
			if nl < 0 {
				nl = len(out) - pos
			}
			if strings.TrimSpace(out[pos:pos+nl]) != "" {
				return items, fmt.Errorf("trailing text after a JSON value: %q", out[pos:pos+nl])
			}
			pos += nl
			if pos < len(out) {
				pos++
			}
			items = append(items, item{k: itJSON, v: v})
			continue
		}
		nl := strings.IndexByte(out[pos:], '\n')
		if nl < 0 {
			return items, fmt.Errorf("last line of stdout is not newline-terminated: %q", out[pos:])
		}
		items = append(items, item{k: itText, s: out[pos : pos+nl]})
		pos += nl + 1
	}
	return items, nil
}

// canonFlat flattens nested maps with "." and rewrites ":" in keys to "." (emitp: the
// keyword text says ":", the shipped examples show "."; JSON output keeps the nesting).
func canonFlat(v val) val {
	if v.k != kMap {
		return v
	}
	out := &omap{}
	var walk func(prefix string, m *omap)
	walk = func(prefix string, m *omap) {
		for _, e := range m.e {
			k := strings.ReplaceAll(e.k, ":", ".")
			if prefix != "" {
				k = prefix + "." + k
			}
			if e.v.k == kMap && len(e.v.m.e) > 0 {
				walk(k, e.v.m)
			} else {
				out.e = append(out.e, kv{k, e.v})
			}
		}
	}
	walk("", v.m)
	return vMap(out)
}

func renderItems(items []item) string {
	var sb strings.Builder
	for _, it := range items {
		if it.k == itJSON {
			sb.WriteString("J " + it.v.render() + "\n")
		} else {
			sb.WriteString("T " + it.s + "\n")
		}
	}
	return sb.String()
}

func itemsEqual(a, b []item, flat bool) bool {
	if len(a) != len(b) {
		return false
	}
	for i := range a {
		if a[i].k != b[i].k {
			return false
		}
		if a[i].k == itText {
			if a[i].s != b[i].s {
				return false
			}
			continue
		}
		x, y := a[i].v, b[i].v
		if flat {
			x, y = canonFlat(x), canonFlat(y)
		}
		if !x.equal(y) {
			return false
		}
	}
	return true
}

type famStats struct {
	generated, compared, expectFatal, uncon, nonterm int64
}

type caseRunner struct {
	w        *vf.Worker
	sing     *singletons
	prodHits map[string]int64
	semHits  map[string]int64
	stats    map[string]*famStats
	uncons   map[string]int64
	sampled  map[string]bool

	saidInexhaustive bool
}

func newCaseRunner(w *vf.Worker) *caseRunner {
	return &caseRunner{w: w, sing: snapshotSingletons(), prodHits: map[string]int64{}, semHits: map[string]int64{},
		stats: map[string]*famStats{}, uncons: map[string]int64{}, sampled: map[string]bool{}}
}

func (cr *caseRunner) fam(f string) *famStats {
	s := cr.stats[f]
	if s == nil {
		s = &famStats{}
		cr.stats[f] = s
	}
	return s
}

func (cr *caseRunner) flush() {
	for k, v := range cr.prodHits {
		cr.w.Count("prod:"+k, v)
	}
	for k, v := range cr.semHits {
		cr.w.Count(k, v)
	}
	for f, s := range cr.stats {
		cr.w.Count("family:"+f+":generated", s.generated)
		cr.w.Count("family:"+f+":compared", s.compared)
		cr.w.Count("family:"+f+":expected-fatal", s.expectFatal)
		cr.w.Count("family:"+f+":unconstrained-not-asserted", s.uncon)
		cr.w.Count("family:"+f+":nonterminating-not-run", s.nonterm)
	}
	for k, v := range cr.uncons {
		cr.w.Count("unconstrained:"+k, v)
	}
	cr.sing.full = true
	if bad := cr.sing.check(); len(bad) > 0 {
		cr.w.Violation("singleton-overwritten:end-of-shard", "a process-wide constant changed its printed value: "+strings.Join(bad, ", "), nil)
	}
}

type progCase struct {
	family  string
	size    int
	top     []stmt
	opts    runOpts
	noInput bool    // mlr -n
	input   []*omap // nil: the fixed three records
	stdin   string
	flat    bool   // compare records after flattening (emitp)
	then    []stmt // a second put in the same then-chain
	always  bool   // run the real code even when the reference is unconstrained (crash / side-effect predicates only)
	preArgs []string
	cause   string // extra cause label for the violation group
}

func (pc *progCase) args(text string) []string {
	a := []string{"--ojsonl"}
	a = append(a, pc.preArgs...)
	if pc.noInput {
		a = append(a, "-n")
	}
	if pc.opts.filterVerb {
		a = append(a, "filter")
	} else {
		a = append(a, "put")
	}
	if pc.opts.q {
		a = append(a, "-q")
	}
	if pc.opts.x {
		a = append(a, "-x")
	}
	a = append(a, text)
	if pc.then != nil {
		a = append(a, "then", "put", unparse(pc.then, nil))
	}
	return a
}

func shellQuote(args []string) string {
	var parts []string
	for _, a := range args {
		if strings.ContainsAny(a, " \"'$*;{}()[]<>|&!?") || a == "" {
			parts = append(parts, "'"+strings.ReplaceAll(a, "'", `'\''`)+"'")
		} else {
			parts = append(parts, a)
		}
	}
	return strings.Join(parts, " ")
}

func unconClass(s string) string {
	if i := strings.IndexAny(s, "0123456789"); i > 12 {
		return s
	}
	return s
}

// run executes one program case. Returns true when it was compared.
func (cr *caseRunner) run(pc *progCase) bool {
	st := cr.fam(pc.family)
	st.generated++
	sem := map[string]int64{}
	var input []*omap
	stdinText := inputText
	if !pc.noInput {
		input = fixedInput()
		if pc.input != nil {
			input, stdinText = pc.input, pc.stdin
		}
	}
	ref := runReference(program{top: pc.top, opts: pc.opts}, input, sem)
	if pc.then != nil && ref.uncon == "" && ref.fatal == "" && !ref.nonterm {
		// the second put sees the first one's output records as its input, with its own @-space
		var mid []*omap
		for _, it := range ref.items {
			if it.k != itJSON || it.v.k != kMap {
				ref.uncon = "chain: the first put prints"
				break
			}
			mid = append(mid, it.v.m)
		}
		if ref.uncon == "" {
			ref = runReference(program{top: pc.then}, mid, sem)
			sem["sem:chain-private-oosvars"]++
		}
	}
	if ref.nonterm {
		st.nonterm++
		return false
	}
	if ref.uncon != "" {
		st.uncon++
		cr.uncons[unconClass(ref.uncon)]++
		if !pc.always {
			return false
		}
	}
	prod := map[string]int64{}
	text := unparse(pc.top, prod)
	args := pc.args(text)
	var stdin *string
	if !pc.noInput {
		s := stdinText
		stdin = &s
	}
	if hangBudgetSpent() {
		// several programs already hung in this run: the tree is badly broken; do not spend
		// hangCPUSeconds on each of the remaining ones
		cr.w.Count("family:"+pc.family+":skipped-after-hang-budget", 1)
		if !cr.saidInexhaustive {
			cr.saidInexhaustive = true
			cr.w.Inexhaustive(fmt.Sprintf("%d programs hung; the remaining programs of the run were not executed", maxHangs))
		}
		return false
	}
	r, hung := runWithCPUWatchdog(args, stdin)
	if hung {
		noteHang()
		// the reference interpreter terminates on this program within its step budget; the real one
		// has burnt hangCPUSeconds of CPU time on it (CPU time, not wall time: machine load cannot cause this)
		cr.w.Violation(fmt.Sprintf("%s[hang]:%03d:%s", pc.family, pc.size, text),
			fmt.Sprintf("`mlr %s` does not terminate (more than %d s of CPU time); the reference interpreter finishes it with output %q", shellQuote(args), hangCPUSeconds, trunc(renderItems(ref.items), 300)),
			map[string]any{"command": "mlr " + shellQuote(args), "stdin": stdinText})
		cr.flush()
		cr.w.Abandon()
	}
	cr.w.Eval(1)
	for k, v := range prod {
		cr.prodHits[k] += v
	}
	for k, v := range sem {
		cr.semHits[k] += v
	}
	replay := func() map[string]any {
		m := map[string]any{"command": "mlr " + shellQuote(args), "expected": renderItems(ref.items), "stdout": r.Stdout, "stderr": r.Stderr, "exit": r.Exit}
		if !pc.noInput {
			m["stdin"] = stdinText
		}
		if ref.fatal != "" {
			m["expected_fatal"] = ref.fatal
		}
		return m
	}
	key := func(cause string) string {
		if pc.cause != "" {
			cause += ";" + pc.cause
		}
		if len(ref.tags) > 0 {
			cause += ";" + strings.Join(ref.tags, ";")
		}
		return fmt.Sprintf("%s[%s]:%03d:%s", pc.family, cause, pc.size, text)
	}
	if bad := cr.sing.check(); len(bad) > 0 {
		cr.w.Violation(key("singleton-overwritten"), fmt.Sprintf("after `mlr %s` the process-wide constant %s", shellQuote(args), strings.Join(bad, ", ")), replay())
	}
	if r.Panic != "" {
		cr.w.Violation(key("panic"), fmt.Sprintf("`mlr %s` panics: %s", shellQuote(args), r.Panic), replay())
		return true
	}
	if ref.uncon != "" {
		cr.w.Count("family:"+pc.family+":unconstrained-run-for-crash-and-side-effect-predicates-only", 1)
		return false
	}
	if ref.fatal != "" {
		st.expectFatal++
		st.compared++
		cr.w.Nontrivial(1)
		if r.Exit == 0 {
			cr.w.Violation(key("no-error."+fatalClass(ref.fatal)), fmt.Sprintf("`mlr %s` exits 0; the language reference makes this a fatal error (%s). stdout=%q", shellQuote(args), ref.fatal, trunc(r.Stdout, 300)), replay())
		}
		return true
	}
	st.compared++
	cr.w.Nontrivial(1)
	if r.Exit != 0 {
		cr.w.Violation(key("unexpected-error"), fmt.Sprintf("`mlr %s` fails (exit %d: %s); the reference interpreter runs it to completion with output %q", shellQuote(args), r.Exit, trunc(strings.TrimSpace(r.Stderr+r.Err), 200), trunc(renderItems(ref.items), 300)), replay())
		return true
	}
	got, err := parseItems(r.Stdout)
	if err != nil {
		cr.w.Violation(key("unparseable-output"), fmt.Sprintf("`mlr %s`: %v; stdout=%q", shellQuote(args), err, trunc(r.Stdout, 300)), replay())
		return true
	}
	if !itemsEqual(got, ref.items, pc.flat) {
		cr.w.Violation(key("output-differs"), fmt.Sprintf("`mlr %s` prints %q; the reference interpreter gives %q", shellQuote(args), trunc(renderItems(got), 400), trunc(renderItems(ref.items), 400)), replay())
		return true
	}
	h := fnv.New64a()
	h.Write([]byte(renderItems(ref.items)))
	cr.w.AddSet("outcomes:"+pc.family, fmt.Sprintf("%x", h.Sum64()))
	if !cr.sampled[pc.family] && len(ref.items) > 2 {
		cr.sampled[pc.family] = true
		cr.w.Sample(map[string]any{"family": pc.family, "command": "mlr " + shellQuote(args), "output": trunc(r.Stdout, 300)})
	}
	return true
}

const hangCPUSeconds = 15
const maxHangs = 6

// hang budget shared by all workers of one check run (they have the same parent process)
func hangFile() string { return fmt.Sprintf("/dev/shm/verif-c14-hangs-%d", os.Getppid()) }

func hangBudgetSpent() bool {
	b, err := os.ReadFile(hangFile())
	return err == nil && len(b) >= maxHangs
}

func noteHang() {
	if f, err := os.OpenFile(hangFile(), os.O_APPEND|os.O_CREATE|os.O_WRONLY, 0644); err == nil {
		f.Write([]byte{'h'})
		f.Close()
	}
}

func cpuSeconds() float64 {
	var ru syscall.Rusage
	if err := syscall.Getrusage(syscall.RUSAGE_SELF, &ru); err != nil {
		return 0
	}
	return float64(ru.Utime.Sec) + float64(ru.Utime.Usec)/1e6 + float64(ru.Stime.Sec) + float64(ru.Stime.Usec)/1e6
}

// runWithCPUWatchdog runs one in-process invocation; it gives up when this process has consumed
// hangCPUSeconds of CPU time since the invocation started (normal cases take well under 10 ms).
func runWithCPUWatchdog(args []string, stdin *string) (vf.MlrResult, bool) {
	done := make(chan vf.MlrResult, 1)
	start := cpuSeconds()
	go func() { done <- vf.RunMlr(args, vf.MlrOpts{Stdin: stdin}) }()
	tick := time.NewTicker(250 * time.Millisecond)
	defer tick.Stop()
	for {
		select {
		case r := <-done:
			return r, false
		case <-tick.C:
			if cpuSeconds()-start > hangCPUSeconds {
				return vf.MlrResult{}, true
			}
		}
	}
}

func fatalClass(msg string) string {
	switch {
	case strings.Contains(msg, "already been defined"):
		return "redeclaration"
	case strings.Contains(msg, "return type"):
		return "return-type-gate"
	case strings.Contains(msg, "type gate"):
		return "type-gate"
	case strings.Contains(msg, "redefined"):
		return "redefinition"
	}
	return "other"
}

func trunc(s string, n int) string {
	if len(s) > n {
		return s[:n] + "..."
	}
	return s
}

var _ = bytes.NewReader
