package c06

// Reference classifier for Miller's from-data type inference, written from
//   - the property statement of C06,
//   - docs/src/reference-main-arithmetic.md ("Input scanning"),
//   - docs/src/reference-main-data-types.md ("Type inference for literal and record data"),
//   - docs/src/new-in-miller-6.md ("Type-inference") and the -S/-A/-O flag help.
//
// It is a hand-written recogniser over bytes: no regexp, no strconv parsing on
// the deciding path, no code shared with pkg/scan or pkg/mlrval. Integer values
// are accumulated by hand (uint64 with overflow detection, math/big beyond),
// float values are the exact rational mantissa*10^exp rounded once by
// big.Rat.Float64 (round-to-nearest-even, subnormals included).
//
// Cells the documentation does not determine are returned as kFree with a
// reason; the check counts them and asserts only mutual consistency there.

import (
	"math"
	"math/big"
)

type kind uint8

const (
	kString kind = iota
	kEmpty
	kInt
	kFloat
	kNumAny // numeric with a determined value; int or float both documented (docs disagree)
	kFree   // undetermined by the documentation
	kBool   // only for JSON-number/FromInferredType position: never produced by classify
)

func (k kind) String() string {
	return [...]string{"string", "empty", "int", "float", "numeric", "unconstrained", "boolean"}[k]
}

const (
	modeDefault = iota
	modeS
	modeA
	modeO
	nModes
)

var modeNames = [nModes]string{"default", "-S", "-A", "-O"}

// grammar categories (coverage accounting; also used for violation key groups)
const (
	catString = iota
	catEmpty
	catDecInt
	catBigDec    // decimal integer outside int64: float
	catLzOct     // leading zero, all digits octal
	catLzDec     // leading zero, some digit 8/9
	catHex       // 0x, value <= 2^63-1
	catHex2c     // 0x, exactly 16 digits, leading nibble >= 8: two's complement
	catHexFree   // 0x, magnitude not representable and not the 16-digit form / negated 16-digit form
	catOct       // 0o
	catBin       // 0b
	catBaseFree  // 0o/0b magnitude outside int64
	catMinIntBas // -0o.../-0b... with magnitude exactly 2^63
	catFloatFrac // has '.', no exponent
	catFloatExp  // has exponent
	catFloatOver // float form whose magnitude rounds to infinity
	nCats
)

var catNames = [nCats]string{"string", "empty", "decint", "bigdec->float", "lz-octal", "lz-decimal", "hex", "hex-2c-negative", "hex-unconstrained",
	"octal-0o", "binary-0b", "0o/0b-overflow-unconstrained", "0o/0b-minint", "float-frac", "float-exp", "float-overflow-unconstrained"}

type cls struct {
	kind kind
	cat  uint8
	i    int64
	f    float64
	why  string // for kFree / kNumAny
}

func isDec(c byte) bool { return c >= '0' && c <= '9' }
func isOct(c byte) bool { return c >= '0' && c <= '7' }
func hexVal(c byte) int {
	switch {
	case c >= '0' && c <= '9':
		return int(c - '0')
	case c >= 'a' && c <= 'f':
		return int(c-'a') + 10
	case c >= 'A' && c <= 'F':
		return int(c-'A') + 10
	}
	return -1
}

// accumulate digits in the given base; ok=false when the magnitude exceeds 2^64-1.
func accum(s string, base uint64) (v uint64, ok bool) {
	for i := 0; i < len(s); i++ {
		d := uint64(hexVal(s[i]))
		if v > (math.MaxUint64-d)/base {
			return 0, false
		}
		v = v*base + d
	}
	return v, true
}

var (
	bigTen  = big.NewInt(10)
	pow10c  = map[int]*big.Int{}
	two63u  = uint64(1) << 63
	maxI64u = uint64(math.MaxInt64)
)

func pow10(n int) *big.Int {
	if p, ok := pow10c[n]; ok {
		return p
	}
	p := new(big.Int).Exp(bigTen, big.NewInt(int64(n)), nil)
	if len(pow10c) < 4096 {
		pow10c[n] = p
	}
	return p
}

// exact decimal digits -> big.Int, by hand
func bigFromDigits(s string) *big.Int {
	v := new(big.Int)
	// chunks of 18 digits keep this cheap
	for i := 0; i < len(s); {
		j := i + 18
		if j > len(s) {
			j = len(s)
		}
		var c uint64
		for k := i; k < j; k++ {
			c = c*10 + uint64(s[k]-'0')
		}
		v.Mul(v, pow10(j-i))
		v.Add(v, new(big.Int).SetUint64(c))
		i = j
	}
	return v
}

// correctly rounded value of mant * 10^e10
func roundDecimal(mant *big.Int, e10 int) float64 {
	if mant.Sign() == 0 {
		return 0
	}
	// cheap range cuts so that absurd exponents do not build huge powers
	nd := len(mant.Text(10))
	if nd+e10 > 400 {
		return math.Inf(1)
	}
	if nd+e10 < -400 {
		return 0
	}
	r := new(big.Rat)
	if e10 >= 0 {
		r.SetInt(new(big.Int).Mul(mant, pow10(e10)))
	} else {
		r.SetFrac(mant, pow10(-e10))
	}
	f, _ := r.Float64()
	return f
}

// classify returns the documented classification of a field value under mode.
func classify(s string, mode int) cls {
	c := classifyBase(s)
	switch mode {
	case modeS:
		if c.kind == kEmpty {
			return c
		}
		// -S: every value is a string
		return cls{kind: kString, cat: c.cat}
	case modeA:
		if c.cat == catLzOct || c.cat == catLzDec {
			return cls{kind: kString, cat: c.cat}
		}
		if c.kind == kInt {
			// -A: every int becomes the float of the same value
			return cls{kind: kFloat, cat: c.cat, f: float64(c.i)}
		}
		return c
	case modeO:
		return c // leading-zero categories already carry their -O meaning
	default:
		if c.cat == catLzOct || c.cat == catLzDec {
			return cls{kind: kString, cat: c.cat}
		}
		return c
	}
}

// classifyBase: the grammar with the -O reading for leading-zero integers
// (callers turn those into strings for the other modes).
func classifyBase(s string) cls {
	if len(s) == 0 {
		return cls{kind: kEmpty, cat: catEmpty}
	}
	str := cls{kind: kString, cat: catString}
	neg := false
	body := s
	if s[0] == '-' || s[0] == '+' {
		neg = s[0] == '-'
		body = s[1:]
	}
	if len(body) == 0 {
		return str
	}
	// prefixed integers
	if len(body) >= 2 && body[0] == '0' {
		var base uint64
		switch body[1] {
		case 'x', 'X':
			base = 16
		case 'o', 'O':
			base = 8
		case 'b', 'B':
			base = 2
		}
		if base != 0 {
			digits := body[2:]
			if len(digits) == 0 {
				return str
			}
			for i := 0; i < len(digits); i++ {
				d := hexVal(digits[i])
				if d < 0 || uint64(d) >= base {
					return str
				}
			}
			v, ok := accum(digits, base)
			cat := uint8(catHex)
			if base == 8 {
				cat = catOct
			} else if base == 2 {
				cat = catBin
			}
			if ok && v <= maxI64u {
				iv := int64(v)
				if neg {
					iv = -iv
				}
				return cls{kind: kInt, cat: cat, i: iv}
			}
			if base == 16 {
				if len(digits) == 16 && hexVal(digits[0]) >= 8 {
					if neg {
						return cls{kind: kFree, cat: catHexFree, why: "negated 16-digit two's-complement hex"}
					}
					return cls{kind: kInt, cat: catHex2c, i: int64(v)} // v - 2^64
				}
				return cls{kind: kFree, cat: catHexFree, why: "hex magnitude outside int64, not the 16-digit two's-complement form"}
			}
			if ok && neg && v == two63u {
				return cls{kind: kInt, cat: catMinIntBas, i: math.MinInt64}
			}
			return cls{kind: kFree, cat: catBaseFree, why: "0o/0b magnitude outside int64"}
		}
	}
	// decimal integer / float forms: digits* [. digits*] [(e|E) [+-] digits+], at least one mantissa digit
	i := 0
	for i < len(body) && isDec(body[i]) {
		i++
	}
	intPart := body[:i]
	if i == len(body) {
		// pure digits (intPart non-empty since body is non-empty and all digits)
		return classifyDigits(intPart, neg)
	}
	fracPart := ""
	hasDot := false
	if body[i] == '.' {
		hasDot = true
		i++
		j := i
		for j < len(body) && isDec(body[j]) {
			j++
		}
		fracPart = body[i:j]
		i = j
	}
	if len(intPart) == 0 && len(fracPart) == 0 {
		return str // ".", ".e5", "e5", letters ...
	}
	exp := 0
	hasExp := false
	if i < len(body) {
		if body[i] != 'e' && body[i] != 'E' {
			return str
		}
		i++
		eneg := false
		if i < len(body) && (body[i] == '+' || body[i] == '-') {
			eneg = body[i] == '-'
			i++
		}
		if i == len(body) {
			return str // "1e", "1e+"
		}
		for k := i; k < len(body); k++ {
			if !isDec(body[k]) {
				return str
			}
		}
		hasExp = true
		// clamp: beyond +-100000 nothing changes
		for k := i; k < len(body); k++ {
			if exp < 1000000 {
				exp = exp*10 + int(body[k]-'0')
			}
		}
		if eneg {
			exp = -exp
		}
	}
	if !hasDot && !hasExp {
		return str // not reached
	}
	mant := bigFromDigits(intPart + fracPart)
	f := roundDecimal(mant, exp-len(fracPart))
	cat := uint8(catFloatFrac)
	if hasExp {
		cat = catFloatExp
	}
	if math.IsInf(f, 0) {
		return cls{kind: kFree, cat: catFloatOver, why: "float form whose magnitude exceeds the double range"}
	}
	if neg {
		f = -f
	}
	return cls{kind: kFloat, cat: cat, f: f}
}

func classifyDigits(digits string, neg bool) cls {
	if len(digits) > 1 && digits[0] == '0' {
		// leading-zero integer: string by default; with -O octal if all digits are octal, else decimal
		allOct := true
		for i := 0; i < len(digits); i++ {
			if !isOct(digits[i]) {
				allOct = false
			}
		}
		if allOct {
			v, ok := accum(digits, 8)
			if !ok || v > maxI64u {
				if ok && neg && v == two63u {
					return cls{kind: kInt, cat: catLzOct, i: math.MinInt64}
				}
				return cls{kind: kFree, cat: catLzOct, why: "-O leading-zero octal outside int64"}
			}
			iv := int64(v)
			if neg {
				iv = -iv
			}
			return cls{kind: kInt, cat: catLzOct, i: iv}
		}
		v, ok := accum(digits, 10)
		if !ok || v > maxI64u {
			return cls{kind: kFree, cat: catLzDec, why: "-O leading-zero decimal outside int64"}
		}
		f := float64(v)
		iv := int64(v)
		if neg {
			f, iv = -f, -iv
		}
		// reference-main-arithmetic.md and new-in-miller-6.md: decimal int; the -O flag help: float
		return cls{kind: kNumAny, cat: catLzDec, i: iv, f: f, why: "-O with digits 8/9: docs say decimal int (arithmetic, new-in-6) and float (flag help)"}
	}
	v, ok := accum(digits, 10)
	if ok {
		if v <= maxI64u {
			iv := int64(v)
			if neg {
				iv = -iv
			}
			return cls{kind: kInt, cat: catDecInt, i: iv}
		}
		if neg && v == two63u {
			return cls{kind: kInt, cat: catDecInt, i: math.MinInt64}
		}
	}
	// does not fit in 64 bits: float (property statement; "otherwise, input scannable as float is treated as float")
	f := roundDecimal(bigFromDigits(digits), 0)
	if math.IsInf(f, 0) {
		return cls{kind: kFree, cat: catFloatOver, why: "decimal integer beyond the double range"}
	}
	if neg {
		f = -f
	}
	return cls{kind: kFloat, cat: catBigDec, f: f}
}

// validJSONNumber: RFC 8259 number = [ minus ] int [ frac ] [ exp ]
func validJSONNumber(s string) bool {
	i, n := 0, len(s)
	if i < n && s[i] == '-' {
		i++
	}
	if i >= n {
		return false
	}
	if s[i] == '0' {
		i++
	} else if s[i] >= '1' && s[i] <= '9' {
		for i < n && isDec(s[i]) {
			i++
		}
	} else {
		return false
	}
	if i < n && s[i] == '.' {
		i++
		if i >= n || !isDec(s[i]) {
			return false
		}
		for i < n && isDec(s[i]) {
			i++
		}
	}
	if i < n && (s[i] == 'e' || s[i] == 'E') {
		i++
		if i < n && (s[i] == '+' || s[i] == '-') {
			i++
		}
		if i >= n || !isDec(s[i]) {
			return false
		}
		for i < n && isDec(s[i]) {
			i++
		}
	}
	return i == n
}
