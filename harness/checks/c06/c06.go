// Package c06: check for property C06 (see /verif/DESIGN.md §3 C06).
package c06
