// Package c06: type inference from data follows the documented number grammar
// exactly. Bounded exhaustive enumeration of strings over the numeric alphabet
// (plus a generated boundary list), every string classified by the real
// inferrer in each of the four inference modes and compared with a hand-written
// reference recogniser (ref.go); a smaller in-process CLI pass binds the
// classification to typeof / is_* / asserting_* / arithmetic / sort -n, to the
// DKVP, CSV, JSON-number and JSON-string positions, and to DSL literals.
package c06

import (
	"encoding/json"
	"fmt"
	"math"
	"sort"
	"strconv"
	"strings"
	"time"

	"github.com/johnkerl/miller/v6/pkg/bifs"
	"github.com/johnkerl/miller/v6/pkg/mlrval"

	"verif/harness/vf"
)

func init() {
	vf.Register(&vf.CheckDef{ID: "C06", Level: "model_checking", Run: run,
		Workers: map[string]vf.WorkerFunc{"bulk": bulkWorker, "cli": cliWorker}})
}

// ---------------------------------------------------------------- alphabets and blocks

// 23 symbols: digits thinned to those that distinguish binary/octal/decimal,
// a f F for hex, sign, point, exponent, the three radix letters in both cases,
// digit separator, space, and i n (inf/nan prefixes).
var alpha23 = []byte("01789+-.eExXoObBafF_ in")

// 11 symbols, all of them meaningful inside some numeric form: used beyond the
// length bound of the 23-symbol alphabet.
var alpha11 = []byte("0178+-.exob")

type block struct {
	alpha  []byte
	length int   // string length; -1: all lengths 0..3 over alpha; -2: boundary chunk
	prefix []int // fixed leading symbol indexes
	lo, hi int   // boundary chunk range
	deep   bool  // also run the direct agreement clause and the JSON-string position
}

const boundaryChunk = 1024

func allPrefixes(n, k int) [][]int {
	out := [][]int{{}}
	for i := 0; i < k; i++ {
		var nx [][]int
		for _, p := range out {
			for s := 0; s < n; s++ {
				q := append(append([]int{}, p...), s)
				nx = append(nx, q)
			}
		}
		out = nx
	}
	return out
}

type bounds struct {
	full23, deep23, max11, nBoundary int
}

func tierBounds(quick bool) bounds {
	if quick {
		return bounds{full23: 5, deep23: 4, max11: 7}
	}
	return bounds{full23: 6, deep23: 5, max11: 8}
}

// thorough only, run when the time budget allows: one more length over the 11-symbol alphabet
const extLen11 = 9

func extBlocks() []block {
	var out []block
	for _, p := range allPrefixes(len(alpha11), 3) {
		out = append(out, block{alpha: alpha11, length: extLen11, prefix: p})
	}
	return out
}

func blocks(quick bool) []block {
	b := tierBounds(quick)
	var out []block
	out = append(out, block{alpha: alpha23, length: -1, deep: true})
	for L := 4; L <= b.full23; L++ {
		k := 1
		if L >= 5 {
			k = 2
		}
		for _, p := range allPrefixes(len(alpha23), k) {
			out = append(out, block{alpha: alpha23, length: L, prefix: p, deep: L <= b.deep23})
		}
	}
	for L := b.full23 + 1; L <= b.max11; L++ {
		k := 1
		if L >= 7 {
			k = 2
		}
		for _, p := range allPrefixes(len(alpha11), k) {
			out = append(out, block{alpha: alpha11, length: L, prefix: p})
		}
	}
	n := len(boundaryAll())
	for lo := 0; lo < n; lo += boundaryChunk {
		hi := lo + boundaryChunk
		if hi > n {
			hi = n
		}
		out = append(out, block{length: -2, lo: lo, hi: hi, deep: true})
	}
	return out
}

var boundaryCache []string

// boundaryAll = CLI-safe boundary list followed by the direct-only strings.
func boundaryAll() []string {
	if boundaryCache == nil {
		boundaryCache = append(append([]string{}, boundaryList(true)...), directOnlyList()...)
	}
	return boundaryCache
}

func enumBlock(b block, f func(s string)) {
	switch b.length {
	case -1:
		for L := 0; L <= 3; L++ {
			enumFixed(b.alpha, L, nil, f)
		}
	case -2:
		all := boundaryAll()
		for _, s := range all[b.lo:b.hi] {
			f(s)
		}
	default:
		enumFixed(b.alpha, b.length, b.prefix, f)
	}
}

func enumFixed(alpha []byte, L int, prefix []int, f func(s string)) {
	buf := make([]byte, L)
	ix := make([]int, L)
	for i, p := range prefix {
		ix[i] = p
		buf[i] = alpha[p]
	}
	k0 := len(prefix)
	for i := k0; i < L; i++ {
		buf[i] = alpha[0]
	}
	for {
		f(string(buf))
		i := L - 1
		for ; i >= k0; i-- {
			ix[i]++
			if ix[i] < len(alpha) {
				buf[i] = alpha[ix[i]]
				break
			}
			ix[i] = 0
			buf[i] = alpha[0]
		}
		if i < k0 {
			return
		}
	}
}

// ---------------------------------------------------------------- modes

func setMode(mode int) {
	mlrval.VerifResetGlobals()
	switch mode {
	case modeS:
		mlrval.SetInferrerStringOnly()
	case modeA:
		mlrval.SetInferrerIntAsFloat()
	case modeO:
		mlrval.SetInferrerOctalAsInt()
	}
}

// ---------------------------------------------------------------- comparing a real value with the reference

func describe(mv *mlrval.Mlrval) string {
	switch mv.Type() {
	case mlrval.MT_INT:
		v, _ := mv.GetIntValue()
		return fmt.Sprintf("int %d", v)
	case mlrval.MT_FLOAT:
		v, _ := mv.GetFloatValue()
		return "float " + strconv.FormatFloat(v, 'g', -1, 64)
	case mlrval.MT_VOID:
		return "empty"
	case mlrval.MT_STRING:
		return "string"
	}
	return mv.GetTypeName()
}

func (c cls) String() string {
	switch c.kind {
	case kInt:
		return fmt.Sprintf("int %d", c.i)
	case kFloat:
		return "float " + strconv.FormatFloat(c.f, 'g', -1, 64)
	case kNumAny:
		return fmt.Sprintf("int %d or float %s", c.i, strconv.FormatFloat(c.f, 'g', -1, 64))
	case kFree:
		return "unconstrained (" + c.why + ")"
	}
	return c.kind.String()
}

// conforms: does the real value have the documented type and value?
func conforms(exp cls, mv *mlrval.Mlrval) bool {
	t := mv.Type()
	switch exp.kind {
	case kString:
		return t == mlrval.MT_STRING
	case kEmpty:
		return t == mlrval.MT_VOID
	case kInt:
		v, ok := mv.GetIntValue()
		return t == mlrval.MT_INT && ok && v == exp.i
	case kFloat:
		v, ok := mv.GetFloatValue()
		return t == mlrval.MT_FLOAT && ok && v == exp.f
	case kNumAny:
		if v, ok := mv.GetIntValue(); ok && t == mlrval.MT_INT {
			return v == exp.i
		}
		if v, ok := mv.GetFloatValue(); ok && t == mlrval.MT_FLOAT {
			return v == exp.f
		}
		return false
	case kFree:
		return t == mlrval.MT_STRING || t == mlrval.MT_INT || t == mlrval.MT_FLOAT
	case kBool:
		return t == mlrval.MT_BOOL
	}
	return false
}

func group(exp cls) string {
	switch exp.cat {
	case catBigDec:
		return "bigdec"
	case catMinIntBas:
		return "minint"
	}
	return "infer"
}

func q(s string) string { return strconv.QuoteToASCII(s) }

// kind observed on the real value, for consistency-only assertions
func kindOf(mv *mlrval.Mlrval) kind {
	switch mv.Type() {
	case mlrval.MT_INT:
		return kInt
	case mlrval.MT_FLOAT:
		return kFloat
	case mlrval.MT_VOID:
		return kEmpty
	case mlrval.MT_STRING:
		return kString
	case mlrval.MT_BOOL:
		return kBool
	}
	return kFree
}

// ---------------------------------------------------------------- bulk worker (direct calls)

type bulkState struct {
	w        *vf.Worker
	mode     int
	deep     bool
	sym      [256]int64
	symNum   [256]int64
	cat      [nCats]int64
	free     [nCats]int64
	pos      map[string]int64
	out      map[string]bool
	zero     *mlrval.Mlrval
	void     *mlrval.Mlrval
	cur      string
	nStrings int64
}

func jsonSafe(s string) bool {
	for i := 0; i < len(s); i++ {
		if s[i] < 0x20 || s[i] == '"' || s[i] == '\\' || s[i] >= 0x7f {
			return false
		}
	}
	return true
}

func (st *bulkState) viol(grp, pos, s string, exp cls, got string) {
	m := modeNames[st.mode]
	st.w.Violation(fmt.Sprintf("%s:%s:%s:%s", grp, m, pos, q(s)),
		fmt.Sprintf("mode %s, %s position: %s infers as %s; documented grammar: %s [%s]", m, pos, q(s), got, exp, catNames[exp.cat]),
		map[string]any{"mode": m, "position": pos, "value": s, "expected": exp.String(), "got": got, "category": catNames[exp.cat],
			"reproduce": fmt.Sprintf("printf 'x=%%s\\n' %s | mlr %s put '$t=typeof($x);$v=$x+0'", q(s), strings.TrimSpace(strings.Replace(m, "default", "", 1)))})
}

func (st *bulkState) safeEval(s string) {
	defer func() {
		if r := recover(); r != nil {
			st.w.Violation(fmt.Sprintf("panic:%s:%s", modeNames[st.mode], q(s)), fmt.Sprintf("mode %s: inferring %s panics: %v", modeNames[st.mode], q(s), r),
				map[string]any{"mode": modeNames[st.mode], "value": s, "panic": fmt.Sprint(r)})
		}
	}()
	st.evalOne(s)
}

func (st *bulkState) evalOne(s string) {
	w := st.w
	st.nStrings++
	exp := classify(s, st.mode)
	// --- data position
	mv := mlrval.FromDeferredType(s)
	ok := conforms(exp, mv)
	w.Eval(1)
	st.pos["data"]++
	st.cat[exp.cat]++
	nontrivial := exp.kind != kString || (len(s) > 0 && (isDec(s[0]) || s[0] == '+' || s[0] == '-' || s[0] == '.'))
	if nontrivial {
		w.Nontrivial(1)
	}
	numeric := exp.kind == kInt || exp.kind == kFloat || exp.kind == kNumAny
	for i := 0; i < len(s); i++ {
		st.sym[s[i]]++
		if numeric {
			st.symNum[s[i]]++
		}
	}
	if exp.kind == kFree {
		st.free[exp.cat]++
	}
	if !ok {
		st.viol(group(exp), "data", s, exp, describe(mv))
	}
	if mv.String() != s {
		st.viol("spelling", "data", s, exp, "value whose string form is "+q(mv.String()))
	}
	if exp.kind != kString || mv.Type() != mlrval.MT_STRING {
		st.out[modeNames[st.mode]+":data:"+catNames[exp.cat]+"->"+mv.GetTypeName()] = true
	}
	if exp.kind == kFloat && st.mode != modeA {
		// guard on the reference itself: its exact-rational rounding must agree with strconv on this spelling
		if f, err := strconv.ParseFloat(s, 64); err == nil && f != exp.f {
			w.Broken("reference model: %q rounds to %v by big.Rat but strconv gives %v", s, exp.f, f)
		}
	}
	// --- JSON number position
	if validJSONNumber(s) {
		jv, err := mlrval.TryUnmarshalJSON([]byte(s))
		w.Eval(1)
		st.pos["json-number"]++
		if nontrivial {
			w.Nontrivial(1)
		}
		if err != nil || jv == nil {
			st.viol("json", "json-number", s, exp, fmt.Sprintf("decode error %v", err))
		} else {
			if !conforms(exp, jv) {
				st.viol(group(exp), "json-number", s, exp, describe(jv))
			}
			if jv.String() != s {
				st.viol("spelling", "json-number", s, exp, "value whose string form is "+q(jv.String()))
			}
			st.out[modeNames[st.mode]+":json-number:"+catNames[exp.cat]+"->"+jv.GetTypeName()] = true
		}
	}
	if !st.deep {
		return
	}
	// --- JSON string position: never inferred, whatever the mode
	{
		var doc []byte
		if jsonSafe(s) {
			doc = []byte(`"` + s + `"`)
		} else if b, err := json.Marshal(s); err == nil && strings.ToValidUTF8(s, "") == s {
			doc = b
		}
		if doc != nil {
			jv, err := mlrval.TryUnmarshalJSON(doc)
			w.Eval(1)
			st.pos["json-string"]++
			if nontrivial {
				w.Nontrivial(1)
			}
			want := cls{kind: kString}
			if s == "" {
				want = cls{kind: kEmpty, cat: catEmpty}
			}
			if err != nil || jv == nil {
				st.viol("json", "json-string", s, want, fmt.Sprintf("decode error %v", err))
			} else if !conforms(want, jv) || jv.String() != s {
				st.viol("jsonstring", "json-string", s, want, describe(jv)+" "+q(jv.String()))
			}
		}
	}
	// --- agreement clause, direct: every accessor is exercised on a fresh (still pending) value
	fresh := func() *mlrval.Mlrval { return mlrval.FromDeferredType(s) }
	k := kindOf(mv) // agreement is with the single classification the inferrer made (its conformance to the grammar is judged above)
	w.Eval(1)
	st.pos["agreement-direct"]++
	bad := func(fn string, got any, want any) {
		m := modeNames[st.mode]
		w.Violation(fmt.Sprintf("agree:%s:%s:%s", m, fn, q(s)), fmt.Sprintf("mode %s: %s(%s) = %v but the value classifies as %s (expected %v)", m, fn, q(s), got, k, want),
			map[string]any{"mode": m, "function": fn, "value": s, "classification": k.String(), "got": fmt.Sprint(got), "expected": fmt.Sprint(want)})
	}
	if tn := bifs.BIF_typeof(fresh()).String(); tn != k.String() {
		bad("typeof", tn, k.String())
	}
	type pred struct {
		name string
		fn   func(*mlrval.Mlrval) *mlrval.Mlrval
		want bool
	}
	isNum := k == kInt || k == kFloat
	for _, p := range []pred{
		{"is_int", bifs.BIF_is_int, k == kInt},
		{"is_float", bifs.BIF_is_float, k == kFloat},
		{"is_numeric", bifs.BIF_is_numeric, isNum},
		{"is_string", bifs.BIF_is_string, k == kString || k == kEmpty},
		{"is_empty", bifs.BIF_is_empty, k == kEmpty},
		{"is_not_empty", bifs.BIF_is_notempty, k != kEmpty},
		{"is_null", bifs.BIF_is_null, k == kEmpty},
		{"is_not_null", bifs.BIF_is_notnull, k != kEmpty},
		{"is_present", bifs.BIF_is_present, true},
		{"is_absent", bifs.BIF_is_absent, false},
		{"is_error", bifs.BIF_is_error, false},
		{"is_boolean", bifs.BIF_is_boolean, false},
		{"is_map", bifs.BIF_is_map, false},
		{"is_nan", bifs.BIF_is_nan, false},
	} {
		r := p.fn(fresh())
		b, isb := r.GetBoolValue()
		if !isb || b != p.want {
			bad(p.name, r.String(), p.want)
		}
	}
	// arithmetic: $x + 0 keeps type and value of a number, is an error for a string
	sum := bifs.BIF_plus_binary(fresh(), st.zero)
	switch k {
	case kInt:
		iv, _ := mv.GetIntValue()
		if v, ok := sum.GetIntValue(); !ok || v != iv {
			bad("plus0", describe(sum), fmt.Sprintf("int %d", iv))
		}
	case kFloat:
		fv, _ := mv.GetFloatValue()
		if v, ok := sum.GetFloatValue(); !ok || v != fv {
			bad("plus0", describe(sum), "float "+strconv.FormatFloat(fv, 'g', -1, 64))
		}
	case kString:
		if !sum.IsError() {
			bad("plus0", describe(sum), "error")
		}
	}
	// dot: spelling preserved
	if d := bifs.BIF_dot(fresh(), st.void); d.String() != s {
		bad("dot", q(d.String()), q(s))
	}
	// collation used by sort -nf: numbers order numerically among themselves
	if isNum {
		fv, _ := mv.GetNumericToFloatValue()
		if !math.IsInf(fv, 0) && !math.IsNaN(fv) {
			lo, hi := sentinels(mv)
			if lo != nil && mlrval.NumericAscendingComparator(fresh(), lo) <= 0 {
				bad("numeric-collation", "not above "+lo.String(), "above")
			}
			if hi != nil && mlrval.NumericAscendingComparator(fresh(), hi) >= 0 {
				bad("numeric-collation", "not below "+hi.String(), "below")
			}
		}
	}
}

// sentinels returns numbers strictly below and above the (finite) numeric value of mv.
func sentinels(mv *mlrval.Mlrval) (lo, hi *mlrval.Mlrval) {
	if iv, ok := mv.GetIntValue(); ok {
		if iv > math.MinInt64 {
			lo = mlrval.FromInt(iv - 1)
		} else {
			lo = mlrval.FromFloat(-1e19)
		}
		if iv < math.MaxInt64 {
			hi = mlrval.FromInt(iv + 1)
		} else {
			hi = mlrval.FromFloat(1e19)
		}
		return
	}
	fv, _ := mv.GetFloatValue()
	d := math.Abs(fv)/2 + 1
	if l := fv - d; !math.IsInf(l, 0) {
		lo = mlrval.FromFloat(l)
	}
	if h := fv + d; !math.IsInf(h, 0) {
		hi = mlrval.FromFloat(h)
	}
	return
}

func bulkWorker(w *vf.Worker) {
	bl := blocks(w.Quick())
	var a struct{ Part string }
	json.Unmarshal(w.Args, &a)
	if a.Part == "ext" {
		bl = extBlocks()
	}
	st := &bulkState{w: w, pos: map[string]int64{}, out: map[string]bool{}, zero: mlrval.FromInt(0), void: mlrval.FromString("")}
	modeHits := [nModes]int64{}
	for bi, b := range bl {
		for mode := 0; mode < nModes; mode++ {
			idx := uint64(bi*nModes + mode)
			if !w.Mine(idx) {
				continue
			}
			w.Begin(idx)
			b := b
			w.Label(func() string {
				return fmt.Sprintf("mode %s block %d (len %d prefix %v alpha %q)", modeNames[mode], bi, b.length, b.prefix, string(b.alpha))
			})
			setMode(mode)
			st.mode, st.deep = mode, b.deep
			before := st.nStrings
			enumBlock(b, st.safeEval)
			modeHits[mode] += st.nStrings - before
		}
	}
	setMode(modeDefault)
	for c := 0; c < 256; c++ {
		if st.sym[c] > 0 {
			w.Count("symbol-occurrences:"+q(string(rune(c))), st.sym[c])
			w.Count("symbol-occurrences-in-numeric:"+q(string(rune(c))), st.symNum[c])
		}
	}
	for c := 0; c < nCats; c++ {
		if st.cat[c] > 0 {
			w.Count("category:"+catNames[c], st.cat[c])
		}
		if st.free[c] > 0 {
			w.Count("unconstrained:"+catNames[c], st.free[c])
		}
	}
	for m := 0; m < nModes; m++ {
		if modeHits[m] > 0 {
			w.Count("mode:"+modeNames[m], modeHits[m])
		}
	}
	for p, n := range st.pos {
		w.Count("position:"+p, n)
	}
	w.Count("strings-x-modes", st.nStrings)
	for o := range st.out {
		w.AddSet("outcomes", o)
	}
	if w.Shard == 0 {
		w.Sample(map[string]any{"value": "0x8000000000000000", "mode": "default", "expected": classify("0x8000000000000000", modeDefault).String()})
		w.Sample(map[string]any{"value": "0789", "mode": "-O", "expected": classify("0789", modeO).String()})
	}
}

// ---------------------------------------------------------------- CLI worker (in-process mlr)

var modeFlags = [nModes][]string{{""}, {"-S", "--infer-none"}, {"-A", "--infer-int-as-float"}, {"-O", "--infer-octal"}}

const cliChunk = 48

func cliStrings(quick bool) []string {
	seen := map[string]bool{}
	var out []string
	add := func(s string) {
		if !seen[s] {
			seen[s] = true
			out = append(out, s)
		}
	}
	for L := 0; L <= 3; L++ {
		enumFixed(alpha23, L, nil, add)
	}
	for _, s := range boundaryList(!quick) {
		add(s)
	}
	return out
}

const agreeExpr = `$t=typeof($x); $ii=is_int($x); $if=is_float($x); $in=is_numeric($x); $is=is_string($x); $ie=is_empty($x); $ine=is_not_empty($x); $inl=is_null($x); $inn=is_not_null($x);` +
	`$tp=typeof($x+0);` +
	`$d=is_int($x) ? "<".fmtnum($x,"%d").">" : "NA";` +
	`$q=is_int($x+0) ? "<".fmtnum($x+0,"%d").">" : "NA";` +
	`$g=is_float($x) ? "<".fmtnum($x,"%.17e").">" : "NA";` +
	`$p=is_float($x+0) ? "<".fmtnum($x+0,"%.17e").">" : "NA";` +
	`$c="<".$x.">"; unset $x`

type cliState struct {
	w     *vf.Worker
	mode  int
	flag  string
	flags map[string]int64
	verbs map[string]int64
	pos   map[string]int64
	law   map[string]string
}

func (st *cliState) args(rest ...string) []string {
	if st.flag == "" {
		return rest
	}
	return append([]string{st.flag}, rest...)
}

func (st *cliState) viol(grp, pos, s, what string, replay map[string]any) {
	m := modeNames[st.mode]
	if replay == nil {
		replay = map[string]any{}
	}
	replay["mode"], replay["flag"], replay["position"], replay["value"] = m, st.flag, pos, s
	st.w.Violation(fmt.Sprintf("%s:%s:%s:%s", grp, m, pos, q(s)), fmt.Sprintf("mode %s, %s: %s: %s", m, pos, q(s), what), replay)
}

func parseBracket(s string) (string, bool) {
	if len(s) >= 2 && s[0] == '<' && s[len(s)-1] == '>' {
		return s[1 : len(s)-1], true
	}
	return "", false
}

// obs: what typeof / fmtnum say about a value in one CLI position: the single
// classification every other clause has to agree with.
type obs struct {
	ok   bool
	kind kind
	i    int64
	f    float64
}

// checkRecord compares one output record of agreeExpr with the reference classification
// (groups infer/bigdec/minint) and checks that all fields of the record agree among themselves (group agree).
func (st *cliState) checkRecord(pos, s string, exp cls, rec map[string]any) (o obs) {
	str := func(k string) string { v, _ := rec[k].(string); return v }
	boolean := func(k string) (bool, bool) { v, ok := rec[k].(bool); return v, ok }
	t := str("t")
	var k kind
	switch t {
	case "int":
		k = kInt
	case "float":
		k = kFloat
	case "string":
		k = kString
	case "empty":
		k = kEmpty
	case "boolean":
		k = kBool
	default:
		st.viol("agree", pos, s, fmt.Sprintf("typeof gives %q", t), nil)
		return
	}
	o.kind = k
	o.ok = true
	fail := func(grp, what string) {
		st.viol(grp, pos, s, what+fmt.Sprintf(" [documented: %s, category %s]", exp, catNames[exp.cat]), map[string]any{"record": rec, "expected": exp.String()})
	}
	// 1. classification by typeof against the reference
	switch exp.kind {
	case kString, kEmpty, kInt, kFloat, kBool:
		if k != exp.kind {
			fail(group(exp), fmt.Sprintf("typeof is %s", t))
		}
	case kNumAny:
		if k != kInt && k != kFloat {
			fail(group(exp), fmt.Sprintf("typeof is %s", t))
		}
	}
	// 2. values
	if k == kInt {
		d, ok1 := parseBracket(str("d"))
		qv, ok2 := parseBracket(str("q"))
		if !ok1 || !ok2 || d != qv || str("tp") != "int" {
			fail("agree", fmt.Sprintf("int but fmtnum(%%d)=%q, $x+0 -> %q (%s)", str("d"), str("q"), str("tp")))
			o.ok = false
		} else {
			iv, err := strconv.ParseInt(d, 10, 64)
			o.i = iv
			if err != nil {
				fail("agree", "int but fmtnum(%d) gives "+d)
				o.ok = false
			} else if (exp.kind == kInt || exp.kind == kNumAny) && iv != exp.i {
				fail(group(exp), "int value is "+d)
			}
		}
	}
	if k == kFloat {
		g, ok1 := parseBracket(str("g"))
		p, ok2 := parseBracket(str("p"))
		gf, e1 := strconv.ParseFloat(g, 64)
		pf, e2 := strconv.ParseFloat(p, 64)
		if !ok1 || !ok2 || e1 != nil || e2 != nil || gf != pf || str("tp") != "float" {
			fail("agree", fmt.Sprintf("float but fmtnum(%%.17e)=%q, $x+0 -> %q (%s)", str("g"), str("p"), str("tp")))
			o.ok = false
		} else {
			o.f = gf
			if (exp.kind == kFloat || exp.kind == kNumAny) && gf != exp.f {
				fail(group(exp), "float value is "+g)
			}
		}
	}
	if k == kString && str("tp") != "error" {
		fail("agree", fmt.Sprintf("string but $x+0 has type %s", str("tp")))
	}
	// 3. predicates agree with the single classification
	isNum := k == kInt || k == kFloat
	for _, p := range []struct {
		f    string
		want bool
	}{{"ii", k == kInt}, {"if", k == kFloat}, {"in", isNum}, {"is", k == kString || k == kEmpty}, {"ie", k == kEmpty}, {"ine", k != kEmpty}, {"inl", k == kEmpty}, {"inn", k != kEmpty}} {
		if b, ok := boolean(p.f); !ok || b != p.want {
			fail("agree", fmt.Sprintf("typeof is %s but predicate field %s = %v", t, p.f, rec[p.f]))
		}
	}
	// 4. spelling preserved through the dot operator
	if c, ok := parseBracket(str("c")); !ok || c != s {
		fail("spelling", fmt.Sprintf("$x . \"\" gives %q", str("c")))
	}
	return o
}

func decodeJSONRecords(out string) ([]map[string]any, error) {
	dec := json.NewDecoder(strings.NewReader(out))
	dec.UseNumber()
	var recs []map[string]any
	if err := dec.Decode(&recs); err != nil {
		return nil, err
	}
	return recs, nil
}

// batch runs agreeExpr over one input holding all strings of a chunk (one record
// each). mk builds the input for a sub-list, so that a failing run can be
// attributed to single strings by re-running them alone.
func (st *cliState) batch(pos string, ss []string, exps []cls, mk func(ss []string) string, ifmt string) []obs {
	if len(ss) == 0 {
		return nil
	}
	input := mk(ss)
	r := vf.RunMlr(st.args(ifmt, "--ojson", "put", agreeExpr), vf.MlrOpts{Stdin: &input})
	st.w.Eval(int64(len(ss)))
	st.pos[pos] += int64(len(ss))
	st.verbs["put"]++
	if st.flag != "" {
		st.flags[st.flag]++
	}
	st.flags[ifmt]++
	var recs []map[string]any
	var err error
	if r.OK() {
		recs, err = decodeJSONRecords(r.Stdout)
	}
	if !r.OK() || err != nil || len(recs) != len(ss) {
		if len(ss) == 1 {
			st.viol("run", pos, ss[0], fmt.Sprintf("mlr %s fails or prints something else than one record: %s (%v)", strings.Join(st.args(ifmt, "--ojson", "put", "..."), " "), r.String(), err), map[string]any{"input": input, "stdout": r.Stdout})
			return []obs{{}}
		}
		out := make([]obs, 0, len(ss))
		for i := range ss {
			out = append(out, st.batch(pos, ss[i:i+1], exps[i:i+1], mk, ifmt)...)
		}
		return out
	}
	out := make([]obs, len(ss))
	for i, s := range ss {
		out[i] = st.checkRecord(pos, s, exps[i], recs[i])
		if exps[i].kind != kString {
			st.w.Nontrivial(1)
		}
	}
	return out
}

var assertFns = []struct {
	name string
	want func(k kind) bool
}{
	{"asserting_int", func(k kind) bool { return k == kInt }},
	{"asserting_float", func(k kind) bool { return k == kFloat }},
	{"asserting_numeric", func(k kind) bool { return k == kInt || k == kFloat }},
	{"asserting_string", func(k kind) bool { return k == kString || k == kEmpty }},
	{"asserting_empty", func(k kind) bool { return k == kEmpty }},
	{"asserting_not_null", func(k kind) bool { return k != kEmpty }},
}

func (st *cliState) kOrder(r vf.MlrResult) string {
	var ks []string
	for _, ln := range strings.Split(strings.TrimSpace(r.Stdout), "\n") {
		if i := strings.Index(ln, "k="); i == 0 {
			j := strings.IndexByte(ln, ',')
			if j < 0 {
				j = len(ln)
			}
			ks = append(ks, ln[2:j])
		}
	}
	return strings.Join(ks, "")
}

func (st *cliState) sortRun(flag string, xs []string) (string, vf.MlrResult) {
	var sb strings.Builder
	for i, x := range xs {
		fmt.Fprintf(&sb, "k=%d,x=%s\n", i+1, x)
	}
	in := sb.String()
	r := vf.RunMlr(st.args("sort", flag, "x"), vf.MlrOpts{Stdin: &in})
	st.w.Eval(1)
	st.verbs["sort "+flag]++
	return st.kOrder(r), r
}

func fmtSentinel(mv *mlrval.Mlrval) string {
	if mv == nil {
		return ""
	}
	if iv, ok := mv.GetIntValue(); ok {
		return strconv.FormatInt(iv, 10)
	}
	fv, _ := mv.GetFloatValue()
	s := strconv.FormatFloat(fv, 'e', -1, 64)
	return s
}

// expected classification of the sentinel spelling itself must be what we think (guards the harness)
func sentinelOK(s string, mode int) bool {
	c := classify(s, mode)
	return c.kind == kInt || c.kind == kFloat
}

func (st *cliState) sortClause(s string, o obs) {
	if st.mode == modeS || !o.ok {
		return // -S: every value is a string: numeric sort has nothing documented to order by
	}
	switch o.kind {
	case kInt, kFloat:
		var ref *mlrval.Mlrval
		var val string
		if o.kind == kInt {
			ref = mlrval.FromInt(o.i)
			val = fmt.Sprintf("int %d", o.i)
		} else {
			if math.IsInf(o.f, 0) || math.IsNaN(o.f) {
				return
			}
			ref = mlrval.FromFloat(o.f)
			val = "float " + strconv.FormatFloat(o.f, 'g', -1, 64)
		}
		lo, hi := sentinels(ref)
		los, his := fmtSentinel(lo), fmtSentinel(hi)
		if los == "" || his == "" || !sentinelOK(los, st.mode) || !sentinelOK(his, st.mode) {
			return
		}
		st.pos["sort"]++
		st.w.Nontrivial(1)
		if got, r := st.sortRun("-nf", []string{his, s, los}); got != "321" {
			st.viol("sort", "sort -nf", s, fmt.Sprintf("records x=%s, x=%s, x=%s come out in k-order %q, expected 3,2,1 (typeof/fmtnum say the value is %s); %s", his, s, los, got, val, r.Stderr), map[string]any{"lo": los, "hi": his})
		}
		if got, r := st.sortRun("-nr", []string{los, s, his}); got != "321" {
			st.viol("sort", "sort -nr", s, fmt.Sprintf("records x=%s, x=%s, x=%s come out in k-order %q, expected 3,2,1 (typeof/fmtnum say the value is %s); %s", los, s, his, got, val, r.Stderr), map[string]any{"lo": los, "hi": his})
		}
	case kEmpty:
		st.pos["sort"]++
		if got, _ := st.sortRun("-nf", []string{"2", s, "1"}); got != "312" {
			st.viol("sort", "sort -nf", s, fmt.Sprintf("empty value: k-order %q, usage says nulls sort last (expected 3,1,2)", got), nil)
		}
		if got, _ := st.sortRun("-nr", []string{"1", s, "2"}); got != "231" {
			st.viol("sort", "sort -nr", s, fmt.Sprintf("empty value: k-order %q, usage says nulls sort first (expected 2,3,1)", got), nil)
		}
	case kString:
		// law on the real code: a value classified as string is placed like any other string; numbers stay ordered
		st.pos["sort"]++
		for _, f := range []string{"-nf", "-nr"} {
			if _, ok := st.law[f]; !ok {
				st.law[f], _ = st.sortRun(f, []string{"2", "abc", "1", "3"})
			}
			got, _ := st.sortRun(f, []string{"2", s, "1", "3"})
			if got != st.law[f] {
				st.viol("sort", "sort "+f, s, fmt.Sprintf("typeof says string, but records x=2, x=%s, x=1, x=3 come out in k-order %q whereas with x=abc in its place the order is %q", s, got, st.law[f]), nil)
			}
			// records are k=3 (x=1), k=1 (x=2), k=4 (x=3)
			i1, i2, i3 := strings.Index(got, "3"), strings.Index(got, "1"), strings.Index(got, "4")
			if (f == "-nf" && !(i1 < i2 && i2 < i3)) || (f == "-nr" && !(i1 > i2 && i2 > i3)) || i1 < 0 || i2 < 0 || i3 < 0 {
				st.viol("sort", "sort "+f, s, fmt.Sprintf("numeric records 1,2,3 are not in numeric order around a string value: k-order %q", got), nil)
			}
		}
	}
}

// DSL literal position (default mode): only spellings the documented DSL number syntax
// shares with the data grammar: unsigned decimal ints without leading zero, 0x hex, floats.
func literalEligible(s string) bool {
	if s == "" || !(isDec(s[0]) || s[0] == '.') {
		return false
	}
	if len(s) >= 2 && s[0] == '0' {
		if s[1] == 'x' {
			return true
		}
		if s[1] != '.' && s[1] != 'e' && s[1] != 'E' {
			return false // leading zero ints, 0o/0b/0X: DSL syntax not documented as identical
		}
	}
	for i := 0; i < len(s); i++ {
		if !(isDec(s[i]) || strings.IndexByte(".eE+-", s[i]) >= 0) {
			return s[1] == 'x'
		}
	}
	return true
}

func (st *cliState) literalClause(s string, exp cls) {
	if st.mode != modeDefault || !literalEligible(s) {
		return
	}
	if exp.kind != kInt && exp.kind != kFloat && exp.kind != kFree {
		return
	}
	prog := fmt.Sprintf(`end{print typeof(%s); print is_int(%s) ? fmtnum(%s,"%%d") : is_float(%s) ? fmtnum(%s,"%%.17e") : "NA";}`, s, s, s, s, s)
	r := vf.RunMlr([]string{"-n", "put", prog}, vf.MlrOpts{})
	st.w.Eval(1)
	st.pos["dsl-literal"]++
	st.w.Nontrivial(1)
	lines := strings.Split(strings.TrimSpace(r.Stdout), "\n")
	rep := map[string]any{"program": prog, "expected": exp.String(), "stdout": r.Stdout, "stderr": r.Stderr, "exit": r.Exit, "reproduce": "mlr -n put '" + prog + "'"}
	ice := strings.Contains(r.Stderr, "nternal coding error")
	if exp.kind == kFree && !ice && r.Panic == "" && r.Exit == 1 && strings.Contains(r.Stderr, "mlr:") {
		st.pos["dsl-literal-rejected-cleanly"]++
		return // no documented value: an ordinary mlr: error is an acceptable answer, an internal-error abort is not
	}
	if !r.OK() || len(lines) != 2 || ice {
		what := fmt.Sprintf("as a DSL literal: exit %d, stdout %q, stderr %q %s; documented grammar: %s", r.Exit, r.Stdout, strings.TrimSpace(r.Stderr), r.Panic, exp)
		grp := "literal"
		if exp.kind == kFree {
			grp = "literalcrash" // the documentation does not fix type/value here, but an internal-error abort is not an answer
		}
		st.viol(grp, "dsl-literal", s, what, rep)
		return
	}
	switch exp.kind {
	case kInt:
		if lines[0] != "int" || lines[1] != strconv.FormatInt(exp.i, 10) {
			st.viol("literal", "dsl-literal", s, fmt.Sprintf("as a DSL literal is %s %s; documented grammar: %s", lines[0], lines[1], exp), rep)
		}
	case kFloat:
		f, err := strconv.ParseFloat(lines[1], 64)
		if lines[0] != "float" || err != nil || f != exp.f {
			st.viol("literal", "dsl-literal", s, fmt.Sprintf("as a DSL literal is %s %s; documented grammar: %s", lines[0], lines[1], exp), rep)
		}
	}
}

func cliWorker(w *vf.Worker) {
	ss := cliStrings(w.Quick())
	st := &cliState{w: w, flags: map[string]int64{}, verbs: map[string]int64{}, pos: map[string]int64{}}
	nChunks := (len(ss) + cliChunk - 1) / cliChunk
	nShort := 1 + len(alpha23) + len(alpha23)*len(alpha23) // enumeration strings of length <= 2 come first
	for ci := 0; ci < nChunks; ci++ {
		for mode := 0; mode < nModes; mode++ {
			idx := uint64(ci*nModes + mode)
			if !w.Mine(idx) {
				continue
			}
			w.Begin(idx)
			lo, hi := ci*cliChunk, (ci+1)*cliChunk
			if hi > len(ss) {
				hi = len(ss)
			}
			chunk := ss[lo:hi]
			w.Label(func() string {
				return fmt.Sprintf("mode %s strings %d..%d (%q ...)", modeNames[mode], lo, hi, chunk[0])
			})
			st.mode = mode
			st.flag = modeFlags[mode][ci%len(modeFlags[mode])]
			st.law = map[string]string{}
			exps := make([]cls, len(chunk))
			for i, s := range chunk {
				exps[i] = classify(s, mode)
			}
			// batch agreement per position
			mkDkvp := func(ss []string) string {
				var b strings.Builder
				for _, s := range ss {
					b.WriteString("x=" + s + "\n")
				}
				return b.String()
			}
			mkSep := func(sep string) func(ss []string) string {
				return func(ss []string) string {
					var b strings.Builder
					b.WriteString("x" + sep + "k\n")
					for i, s := range ss {
						fmt.Fprintf(&b, "%s%s%d\n", s, sep, i)
					}
					return b.String()
				}
			}
			mkJSONNum := func(ss []string) string {
				var b strings.Builder
				for _, s := range ss {
					b.WriteString(`{"x":` + s + "}\n")
				}
				return b.String()
			}
			mkJSONStr := func(ss []string) string {
				var b strings.Builder
				for _, s := range ss {
					q, _ := json.Marshal(s)
					b.WriteString(`{"x":` + string(q) + "}\n")
				}
				return b.String()
			}
			dobs := st.batch("dkvp", chunk, exps, mkDkvp, "--idkvp")
			st.batch("csv", chunk, exps, mkSep(","), "--icsv")
			st.batch("csvlite", chunk, exps, mkSep(","), "--icsvlite")
			st.batch("tsv", chunk, exps, mkSep("\t"), "--itsv")
			var jns []string
			var jne, jse []cls
			for i, s := range chunk {
				if validJSONNumber(s) {
					jns = append(jns, s)
					jne = append(jne, exps[i])
				}
				want := cls{kind: kString}
				if s == "" {
					want = cls{kind: kEmpty, cat: catEmpty}
				}
				jse = append(jse, want)
			}
			st.batch("json-number", jns, jne, mkJSONNum, "--ijson")
			st.batch("json-string", chunk, jse, mkJSONStr, "--ijson")
			// per-string clauses on the DKVP position, judged against the classification typeof reported there
			for i, s := range chunk {
				if dobs != nil && dobs[i].ok {
					o := dobs[i]
					in := "x=" + s + "\n"
					for ai, a := range assertFns {
						if w.Quick() && len(s) == 3 && lo+i >= nShort && ai%3 != (lo+i)%3 {
							continue // quick tier: length-3 enumeration strings get a rotating pair of the six assertions
						}
						r := vf.RunMlr(st.args("put", "-q", a.name+"($x)"), vf.MlrOpts{Stdin: &in})
						w.Eval(1)
						st.pos["asserting"]++
						st.verbs[a.name]++
						want := a.want(o.kind)
						passed := r.Exit == 0 && r.Panic == ""
						failedCleanly := r.Exit == 1 && r.Panic == "" && strings.Contains(r.Stderr, "type-assertion failed")
						if (want && !passed) || (!want && !failedCleanly) {
							st.viol("asserting", a.name, s, fmt.Sprintf("typeof says %s, so %s should %s; got %s", o.kind, a.name, map[bool]string{true: "pass", false: "abort with a type-assertion failure"}[want], r.String()), nil)
						}
					}
					st.sortClause(s, o)
				}
				st.literalClause(s, exps[i])
			}
		}
	}
	for k, n := range st.flags {
		w.Count("cli-flag:"+k, n)
	}
	for k, n := range st.verbs {
		w.Count("cli-verb-or-function:"+k, n)
	}
	for k, n := range st.pos {
		w.Count("cli-position:"+k, n)
	}
	if w.Shard == 0 {
		w.Sample(map[string]any{"cli": "mlr -O --icsv --ojson put '" + agreeExpr[:60] + "...'", "strings": len(ss)})
	}
}

// ---------------------------------------------------------------- orchestrator

func run(c *vf.Ctx) {
	b := tierBounds(c.Quick())
	c.Rule = fmt.Sprintf("every string of length <= %d over the 23-symbol alphabet %q, every string of length %d..%d over the 11-symbol alphabet %q, (thorough: plus length 9 when the time budget allows, see 'extension'), and a generated boundary list (2^k, 2^k+-1 for k<=65 in radix 2/8/10/16 with each sign, int64/uint64/double limits, 16-digit hex with each leading nibble, the spellings named in the design, an exhaustive product of sign x int x frac x exp x suffix fragments), each under the 4 inference modes {default,-S,-A,-O}; positions: data field (direct inferrer call), JSON number (RFC-8259-valid spellings) and, for length <= %d and the boundary list, JSON string plus the direct typeof/is_*/+/./collation agreement clause. CLI pass (in-process mlr): all strings of length <= 3 and the boundary list x 4 modes through DKVP, CSV, CSV-lite, TSV, JSON-number, JSON-string with typeof/is_*/fmtnum/$x+0/dot, 6 asserting_* functions, sort -nf/-nr, and DSL literals. A (string, mode, position) case is non-trivial when the reference classifies it as anything but string or when the string starts with a digit, sign or point (it enters the scanner's number states); all cases are distinct by construction.",
		b.full23, string(alpha23), b.full23+1, b.max11, string(alpha11), b.deep23)
	c.Assume("alphabet thinning: digits 2-6 behave like 1/7, hex letters c d (and A-E) like a f F; other bytes (beyond the boundary list's samples) are not enumerated")
	c.Assume("unconstrained by the documentation, counted but only checked for mutual consistency and absence of panics: float forms whose magnitude exceeds the double range (1e309), hex magnitudes outside int64 that are not the 16-digit two's-complement form, negated 16-digit two's-complement hex, 0o/0b/-O-leading-zero magnitudes outside int64")
	c.Assume("-O with a leading-zero integer containing 8 or 9: reference-main-arithmetic.md and new-in-miller-6.md say decimal int, the flag help says float; both accepted, value asserted")
	c.Assume("a leading + is accepted as a sign like - (property statement: 'signed'), also in front of 0x/0o/0b; upper-case prefixes 0X/0O/0B and upper-case exponent E count like the lower-case ones; signed zero of floats is not asserted")
	c.Assume("combinations of -S/-A/-O are not explored (the documentation does not define precedence); empty + 0 is left to C08; sort -n under -S is not asserted; placement of strings relative to numbers under sort -n is asserted only as a law (same as any other string)")
	c.Assume("DSL literal position: default mode only and only spellings whose DSL syntax is documented identically to data (unsigned decimal ints without leading zero, lower-case 0x hex, float forms); binary/octal/upper-case prefixes, leading-zero ints and signed literals (unary operators) are excluded")
	c.Assume("'random longer strings' of the quantifier are replaced by the deterministic fragment product; nothing is sampled")
	c.Assume("JSON number position covers only RFC-8259-valid spellings (others are rejected by the JSON parser: C01/C17)")

	res := c.RunPool(vf.PoolSpec{Worker: "bulk", Shards: 256, Args: map[string]string{"part": "main"}})
	c.RunPool(vf.PoolSpec{Worker: "cli", Shards: 192})
	if !c.Quick() {
		// optional extension of the thorough tier: one more length over the 11-symbol alphabet, only when
		// the main enumeration left enough of the 15-minute budget (coverage only, never a verdict)
		// (main + CLI take about 1 minute on 16 idle cores and the extension about 4; if the first part needed
		// more than 3 minutes the machine is shared and the extension would break the 15-minute limit)
		c.SetBudget(3 * time.Minute)
		if c.OverBudget() {
			c.Exhaustive = false
			c.Extra["inexhaustive"] = []string{fmt.Sprintf("time budget: strings of length %d over the 11-symbol alphabet were not enumerated; everything named in the rule up to length %d was completed", extLen11, b.max11)}
		} else {
			r2 := c.RunPool(vf.PoolSpec{Worker: "bulk", Shards: 512, Args: map[string]string{"part": "ext"}})
			for k := range r2.Sets["outcomes"] {
				if res.Sets["outcomes"] == nil {
					res.Sets["outcomes"] = map[string]bool{}
				}
				res.Sets["outcomes"][k] = true
			}
			c.Extra["extension"] = fmt.Sprintf("all strings of length %d over the 11-symbol alphabet (data + JSON-number positions, 4 modes) completed", extLen11)
		}
	}

	// evidence: hit counts per symbol / category / mode / position / flag
	per := func(prefix string) map[string]int64 {
		m := map[string]int64{}
		for k, v := range c.Counters {
			if strings.HasPrefix(k, prefix) {
				m[strings.TrimPrefix(k, prefix)] = v
			}
		}
		return m
	}
	for _, p := range []string{"symbol-occurrences:", "symbol-occurrences-in-numeric:", "category:", "unconstrained:", "mode:", "position:", "cli-flag:", "cli-verb-or-function:", "cli-position:"} {
		m := per(p)
		c.Extra[strings.TrimSuffix(p, ":")] = m
		for k := range m {
			delete(c.Counters, p+k)
		}
	}
	c.Extra["distinct_outcomes(mode:position:category->type)"] = vf.SortedSet(res, "outcomes")
	c.Extra["boundary_list_size"] = len(boundaryList(true))
	c.Extra["cli_strings"] = len(cliStrings(c.Quick()))
	c.Extra["bulk_blocks"] = len(blocks(c.Quick()))
	// vacuity guards
	sym := per("symbol-occurrences:")
	_ = sym
	symc := c.Extra["symbol-occurrences"].(map[string]int64)
	for _, a := range alpha23 {
		if symc[q(string(rune(a)))] == 0 {
			c.Broken("alphabet symbol %q never exercised", string(rune(a)))
		}
	}
	cats := c.Extra["category"].(map[string]int64)
	var missing []string
	for i := 0; i < nCats; i++ {
		if cats[catNames[i]] == 0 {
			missing = append(missing, catNames[i])
		}
	}
	sort.Strings(missing)
	if len(missing) > 0 {
		c.Broken("grammar categories never exercised: %v", missing)
	}
}
