package c06

// Generated (never sampled) boundary strings: magnitudes around 2^k, the int64
// and uint64 limits in every radix and sign, the double range limits, the
// spellings named in DESIGN §3 C06, and an exhaustive product of grammar
// fragments giving longer structured strings.

import (
	"math/big"
	"sort"
	"strings"
)

// full=false thins the fragment product (used by the quick CLI pass only).
func boundaryList(full bool) []string {
	set := map[string]bool{}
	add := func(ss ...string) {
		for _, s := range ss {
			set[s] = true
		}
	}
	signs := []string{"", "-", "+"}
	one := big.NewInt(1)
	for k := 0; k <= 65; k++ {
		p := new(big.Int).Lsh(one, uint(k))
		for _, d := range []int64{-1, 0, 1} {
			v := new(big.Int).Add(p, big.NewInt(d))
			for _, sg := range signs {
				add(sg + v.Text(10))
				add(sg + "0x" + v.Text(16))
				if k >= 30 || k%4 == 0 {
					add(sg + "0o" + v.Text(8))
					add(sg + "0b" + v.Text(2))
				}
				if k >= 60 {
					add(sg+"0X"+strings.ToUpper(v.Text(16)), sg+"0"+v.Text(8), sg+"0"+v.Text(10))
					add(sg + v.Text(10) + ".")
					add(sg + v.Text(10) + ".0")
					add(sg + v.Text(10) + "e0")
				}
			}
		}
	}
	// 2^53 neighbourhood (float precision) as ints and floats
	for _, s := range []string{"9007199254740991", "9007199254740992", "9007199254740993", "9007199254740994", "9007199254740995"} {
		add(s, "-"+s, s+".0", s+"e0", s+".5")
	}
	// decimal integers around and beyond the limits
	add("9223372036854775806", "9223372036854775807", "9223372036854775808", "9223372036854775809",
		"-9223372036854775807", "-9223372036854775808", "-9223372036854775809", "-9223372036854775810",
		"+9223372036854775807", "+9223372036854775808",
		"9999999999999999999", "10000000000000000000", "18446744073709551615", "18446744073709551616", "18446744073709551617",
		"-18446744073709551615", "-18446744073709551616",
		"99999999999999999999", "-99999999999999999999", "+99999999999999999999", "100000000000000000000",
		"123456789012345678901234567890", "-123456789012345678901234567890",
		"1234567890123456789012345678.90", "0.000000000000000000000000000001", "0.123456789012345678901234567890",
		"340282366920938463463374607431768211456", // 2^128
		"1"+strings.Repeat("0", 308), "1"+strings.Repeat("0", 309), "-1"+strings.Repeat("0", 309),
		"17976931348623157"+strings.Repeat("0", 292), "17976931348623159"+strings.Repeat("0", 292))
	// 16-digit hex with every leading nibble, both cases; 15 and 17 digits
	for _, n := range "0123456789abcdefABCDEF" {
		for _, tail := range []string{"000000000000000", "fffffffffffffff", "FFFFFFFFFFFFFFF", "123456789abcdef", "000000000000001"} {
			h := string(n) + tail
			add("0x"+h, "0X"+h, "-0x"+h, "+0x"+h)
			add("0x"+h[:15], "0x0"+h, "0x"+h+"0", "0x00"+h)
		}
	}
	add("0x7fffffffffffffff", "0x8000000000000000", "0xffffffffffffffff", "0x10000000000000000", "0x1ffffffffffffffff", "0x0ffffffffffffffff",
		"-0x7fffffffffffffff", "-0x8000000000000000", "-0xffffffffffffffff", "-0x8000000000000001",
		"0x00000000000000001", "0x0000000000000000000000001", "0x"+strings.Repeat("f", 32))
	// octal / binary limits
	add("0o777777777777777777777", "0o1000000000000000000000", "-0o1000000000000000000000", "0o1777777777777777777777", "0o2000000000000000000000", "-0o777777777777777777777",
		"0b"+strings.Repeat("1", 63), "0b1"+strings.Repeat("0", 63), "-0b1"+strings.Repeat("0", 63), "0b"+strings.Repeat("1", 64), "0b1"+strings.Repeat("0", 64), "-0b"+strings.Repeat("1", 63),
		"0777777777777777777777", "01000000000000000000000", "-01000000000000000000000", "01777777777777777777777", "09223372036854775807", "09223372036854775808", "099999999999999999999")
	// double range
	add("1e308", "1E308", "1.7976931348623157e308", "1.7976931348623158e308", "1.7976931348623159e308", "1.797693134862315807e308", "1.797693134862315808e308",
		"-1.7976931348623157e308", "-1.7976931348623159e308", "1e309", "-1e309", "1e400", "1e999", "1e9999", "1e99999", "1e-99999", "2e308", "0e999", "0.0e999", "0e-999",
		"4.9e-324", "5e-324", "4.9406564584124654e-324", "2.4703282292062327e-324", "2.4703282292062328e-324", "2.47e-324", "2.48e-324", "2.5e-324", "2.4e-324", "1e-323", "1e-324", "1e-325", "1e-400", "-1e-400",
		"2.2250738585072014e-308", "2.2250738585072011e-308", "2.2250738585072009e-308", "2.2250738585072012e-308",
		"0.1", "0.2", "0.3", "0.30000000000000004", "1.0000000000000002", "1.00000000000000011102230246251565404236316680908203125", "1.00000000000000011102230246251565404236316680908203126", "1.00000000000000011102230246251565404236316680908203124",
		"9007199254740993.0", "9007199254740992.5", "9007199254740993.5", "9223372036854775807.0", "9223372036854775808.0", "9223372036854775807e0", "1e19", "1e18", "1e+18", "1E+18", "123e-2", "12300e-2",
		"3.", "3.e0", "3.e-0", "-3.", "+3.", ".3", "-.3", "+.3", ".3e1", "-.3E-1")
	// spellings named in the design
	add("08", "09", "0789", "-007", "+007", "007", "00", "000", "-0", "+0", "0", "-00", "0377", "06789", "-0377", "+0377", "-06789", "007.5", "004.56", "00.5", "0e0", "00e1", "08.5", "08e1", "0.", "00.", ".0", ".00",
		"1.", ".1", "1.e5", ".e5", "1e", "1e+", "1e-", "1e+5", "1E-5", "1e5", "1E5", "1e05", "1e+05", "1e5.", "1e5.0", "1e.5", "1.5e", "1.5e+", "e5", "E5", ".", "-", "+", "-.", "+.", "..", "1..", "1.2.3", "1e5e5", "1-2", "1+2", "--1", "+-1", "-+1", "++1", "1-", "1+",
		"0x", "0X", "0o", "0b", "-0x", "+0x", "0x.8", "0x1p3", "0x1P3", "0x1.8p3", "0x1p-3", "0xg", "0xG", "0x1g", "0o8", "0o78", "0b2", "0b12", "0b102", "0x-1", "0x+1", "0x 1", "0x_1", "0x1_", "x10", "0xx1", "00x1", "0x0x1", "0b0b1", "1x0", "1b1", "1o1",
		"0xF", "0XF", "0xf", "0B11", "0O17", "0o17", "0b11", "+0x10", "-0x10", "-0b11", "+0b11", "-0o17", "+0o17", "0xdeadbeef", "0xDEADBEEF", "0xDeadBeef", "0xcafe", "0xabcd", "0xff", "0o377", "0b1101", "0b1011",
		"Inf", "inf", "INF", "+Inf", "-Inf", "+inf", "-inf", "Infinity", "infinity", "+infinity", "-infinity", "INFINITY", "NaN", "nan", "NAN", "+NaN", "-NaN", "-nan", "in", "na", "infi", "1inf", "inf1",
		"true", "false", "True", "TRUE", "FALSE", "t", "f", "null", "nil", "1_000", "1_0", "_1", "1_", "1__0", "0_1", "1_000.5", "1.5_0", "1e1_0", "0x_ff", "0xf_f", "0b1_0", "0o1_7",
		" 1", "1 ", " 1 ", "1 2", "- 1", "-1 ", " -1", "1. 5", "1 .5", "1e 5", " ", "  ", "0x 10", " 0x10", "0x10 ",
		"1d5", "1D5", "1f", "1F", "1L", "1l", "1u", "1.5f", "1e5f", "0x1L", "1h", "1i", "1j", "1n", "1%", "$1", "1$", "#1", "1#", "(1)", "1/2", "1*2", "1:2", "1;", "'1'", "1'000", "1k", "1K", "1M", "½", "１", "١", "1‬", "²", "−1", "1 ", "٣.٥")
	// exhaustive product of grammar fragments: longer structured strings
	ints := []string{"", "0", "00", "1", "10", "01", "08", "12345", "9223372036854775807", "9223372036854775808"}
	fracs := []string{"", ".", ".0", ".5", ".05", ".50", ".e"}
	exps := []string{"", "e", "e5", "E5", "e+5", "e-5", "e+", "e05", "e5.", "e5e5", "e400", "e-400", "e+307", "e-07"}
	sufs := []string{"", " ", "_", "x", "f", "0"}
	psigns := []string{"", "-", "+", "--", " "}
	if !full {
		sufs = sufs[:1]
		psigns = psigns[:2]
	}
	for _, sg := range psigns {
		for _, a := range ints {
			for _, b := range fracs {
				for _, c := range exps {
					for _, d := range sufs {
						add(sg + a + b + c + d)
					}
				}
			}
		}
	}
	prefs := []string{"0x", "0X", "0o", "0O", "0b", "0B"}
	digs := []string{"", "0", "1", "7", "8", "9", "a", "f", "F", "g", "10", "17", "18", "1a", "ff", "0000", "0017", "1e1", "1.0", "1p1", "1_1", "1 1", "-1", "+1", "x1"}
	for _, sg := range signs {
		for _, p := range prefs {
			for _, d := range digs {
				add(sg + p + d)
				if full {
					add(sg + p + d + " ")
				}
			}
		}
	}
	out := make([]string, 0, len(set))
	for s := range set {
		if strings.ContainsAny(s, ",=\"\\\n\r\t") { // keep every string representable in all CLI positions used
			continue
		}
		out = append(out, s)
	}
	sort.Slice(out, func(i, j int) bool {
		if len(out[i]) != len(out[j]) {
			return len(out[i]) < len(out[j])
		}
		return out[i] < out[j]
	})
	return out
}

// directOnlyList: strings containing format separators or control bytes; they
// are only fed to the inferrer directly (no file format position).
func directOnlyList() []string {
	return []string{"1,5", "1,000", "1=2", "\"1\"", "'1'", "1\n", "\n1", "1\r", "1\t", "\t1", "1\x00", "\x001", "1\\", "\\1", "1;2", "\xff", "1\xff", "\xef\xbb\xbf1", "0x\xff", "1e\x80",
		" 1", "1 ", "​1", "1​", " 1", "1\v", "\f1", "-\x00", "0\x00", "0x1\x00", "1.\x00", "1e1\x00"}
}
