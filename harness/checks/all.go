// Package checks links every property check into the harness binary.
package checks

import (
	_ "verif/harness/checks/c07"
)
