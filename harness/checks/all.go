// Package checks links every property check into the harness binary.
package checks

import (
	_ "verif/harness/checks/c01"
	_ "verif/harness/checks/c02"
	_ "verif/harness/checks/c03"
	_ "verif/harness/checks/c04"
	_ "verif/harness/checks/c05"
	_ "verif/harness/checks/c06"
	_ "verif/harness/checks/c07"
	_ "verif/harness/checks/c08"
	_ "verif/harness/checks/c09"
	_ "verif/harness/checks/c10"
	_ "verif/harness/checks/c11"
	_ "verif/harness/checks/c12"
	_ "verif/harness/checks/c13"
	_ "verif/harness/checks/c14"
	_ "verif/harness/checks/c15"
	_ "verif/harness/checks/c16"
	_ "verif/harness/checks/c17"
	_ "verif/harness/checks/c18"
	_ "verif/harness/checks/c19"
	_ "verif/harness/checks/c20"
)
