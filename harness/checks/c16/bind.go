package c16

// CLI binding pass (in-process mlr): every DSL name is wired to the BIF the
// bulk workers exercised; --tz / TZ / ENV["TZ"] select the zone of the *_local
// functions and leave the GMT ones alone; the sec2gmt / sec2gmtdate verbs equal
// the functions.

import (
	"bytes"
	"encoding/json"
	"fmt"
	"io"
	"os"
	"strconv"
	"strings"
	"time"

	"github.com/johnkerl/miller/v6/pkg/climain"
	"github.com/johnkerl/miller/v6/pkg/stream"

	"verif/harness/vf"
)

type nopWC struct{ io.Writer }

func (nopWC) Close() error { return nil }

// runWithEnvTZ runs `mlr args...` in-process with TZ present in the process
// environment at start-up, the way a shell `TZ=... mlr ...` does (vf.RunMlr
// clears TZ before each run, so it cannot express this mechanism).
func runWithEnvTZ(zone string, args []string) (stdout string, errText string) {
	os.Setenv("TZ", zone)
	defer os.Unsetenv("TZ")
	var buf bytes.Buffer
	p, _ := vf.Try(func() {
		options, xf, err := climain.ParseCommandLine(append([]string{"mlr"}, args...))
		if err != nil {
			errText = err.Error()
			return
		}
		if err := stream.Stream(options.FileNames, options, xf, nopWC{&buf}, true); err != nil {
			errText = err.Error()
		}
	})
	if p != nil {
		errText = fmt.Sprintf("panic: %v", p)
	}
	return buf.String(), errText
}

func dslStr(s string) string { return `"` + s + `"` }

// localProgram prints, per instant, one line of GMT results and one line of local results.
// zoneArg == "": forms that consult TZ; else the explicit-zone forms.
func localProgram(prefix string, instants []int64, zoneArg string) string {
	var b strings.Builder
	b.WriteString("end{")
	b.WriteString(prefix)
	z := ""
	if zoneArg != "" {
		z = "," + dslStr(zoneArg)
	}
	F := dslStr("%Y-%m-%d %H:%M:%S %j %a %s %Z")
	P := dslStr("%Y-%m-%d %H:%M:%S")
	for _, t := range instants {
		c := gmtCivil(t)
		wall := dslStr(c.local())
		g := dslStr(c.iso())
		ts := strconv.FormatInt(t, 10)
		ns := ts + "000000000"
		if !nsRep(t) {
			ns = "0"
		}
		// GMT group
		fmt.Fprintf(&b, `print "G;".sec2gmt(%s).";".sec2gmt(%s,3).";".sec2gmtdate(%s).";".strftime(%s,%s).";".strptime(%s,%s).";".gmt2sec(%s).";".nsec2gmt(%s).";".strfntime(%s,%s).";".strpntime(%s,%s).";".nsec2gmtdate(%s).";".gmt2nsec(%s);`,
			ts, ts, ts, ts, F, wall, P, g, ns, ns, F, wall, P, ns, g)
		// local group
		n0 := ",0"
		if zoneArg == "" {
			n0 = ""
		}
		fmt.Fprintf(&b, `print "L;".sec2localtime(%s%s%s).";".sec2localtime(%s,3%s).";".sec2localdate(%s%s).";".strftime_local(%s,%s%s).";".strfntime_local(%s,%s%s).";".nsec2localtime(%s%s%s).";".nsec2localdate(%s%s).";".localtime2sec(%s%s).";".localtime2nsec(%s%s).";".strptime_local(%s,%s%s).";".strpntime_local(%s,%s%s).";".gmt2localtime(%s%s).";".localtime2gmt(%s%s);`,
			ts, n0, z, ts, z, ts, z, ts, F, z, ns, F, z, ns, n0, z, ns, z, wall, z, wall, z, wall, P, z, wall, P, z, g, z, wall, z)
	}
	b.WriteString("}")
	return b.String()
}

// gmtLineExpected: the reference for the G line.
func gmtLineExpected(t int64) string {
	c := gmtCivil(t)
	fexp, _ := c.expand(tokenize("%Y-%m-%d %H:%M:%S %j %a %s %Z"))
	cn := gmtCivil(0)
	if nsRep(t) {
		cn = c
	}
	nfexp, _ := cn.expand(tokenize("%Y-%m-%d %H:%M:%S %j %a %s %Z"))
	return strings.Join([]string{"G", c.iso(), c.isoN(3), c.date(), fexp, strconv.FormatInt(t, 10), strconv.FormatInt(t, 10), cn.iso(), nfexp,
		strconv.FormatInt(t*1000000000, 10), cn.date(), strconv.FormatInt(t*1000000000, 10)}, ";")
}

func bindInstants(zt *zoneTable, n int) []int64 {
	var out []int64
	seen := map[int64]bool{}
	add := func(t int64) {
		if !seen[t] && nsRep(t) {
			seen[t] = true
			out = append(out, t)
		}
	}
	for _, t := range []int64{0, 1500000000, -1, 951782400, 1 << 31, -1577943676} {
		add(t)
	}
	if zt != nil && len(zt.Trans) > 0 {
		step := len(zt.Trans)/((n-6)/4+1) + 1
		for i := 0; i < len(zt.Trans); i += step {
			T := zt.Trans[i].T
			add(T - 1)
			add(T)
			add(T + 3599)
			add(T + 86400*30)
		}
	}
	for t := int64(86400 * 200); len(out) < n; t += 86400*173 + 3601 {
		add(t)
	}
	if len(out) > n {
		out = out[:n]
	}
	return out
}

func bindWorker(w *vf.Worker) {
	k := newKit(w)
	defer k.flush()
	var za zoneArgs
	json.Unmarshal(w.Args, &za)
	tables, err := loadTransitions(za.TransitionsFile)
	if err != nil {
		w.Broken("cannot read the transitions table %s: %v", za.TransitionsFile, err)
		return
	}
	var idx uint64

	// ---- (a) TZ mechanisms
	mechs := []string{"--tz", "ENV-assignment", "TZ-environment", "ENV-reassignment"}
	for zi, zone := range zoneList {
		insts := bindInstants(tables[zone], 25)
		for _, mech := range mechs {
			idx++
			if !w.Mine(idx) {
				continue
			}
			w.Begin(idx)
			zone, mech := zone, mech
			w.Label(func() string { return "TZ mechanism " + mech + " zone " + zone })
			// explicit-zone run: no TZ anywhere, process local zone forced to UTC
			time.Local = time.UTC
			ex := vf.RunMlr([]string{"-n", "put", localProgram("", insts, zone)}, vf.MlrOpts{})
			if !ex.OK() {
				report(w, "bind:explicit-zone-program("+zone+")", "mlr -n put with explicit zone arguments failed: "+ex.String(), nil)
				continue
			}
			time.Local = time.UTC
			var got string
			var errText string
			other := zoneList[(zi+3)%len(zoneList)]
			switch mech {
			case "--tz":
				r := vf.RunMlr([]string{"--tz", zone, "-n", "put", localProgram("", insts, "")}, vf.MlrOpts{})
				got, errText = r.Stdout, r.Err+r.Panic
			case "ENV-assignment":
				r := vf.RunMlr([]string{"-n", "put", localProgram(`ENV["TZ"]=`+dslStr(zone)+";", insts, "")}, vf.MlrOpts{})
				got, errText = r.Stdout, r.Err+r.Panic
			case "ENV-reassignment":
				// first another zone through --tz, then re-assigned inside the program
				r := vf.RunMlr([]string{"--tz", other, "-n", "put", localProgram(`ENV["TZ"]=`+dslStr(zone)+";", insts, "")}, vf.MlrOpts{})
				got, errText = r.Stdout, r.Err+r.Panic
			case "TZ-environment":
				got, errText = runWithEnvTZ(zone, []string{"-n", "put", localProgram("", insts, "")})
			}
			time.Local = time.UTC
			k.note("tzmech:" + mech)
			k.note("zone:" + zone)
			gl, el := strings.Split(strings.TrimSpace(got), "\n"), strings.Split(strings.TrimSpace(ex.Stdout), "\n")
			if errText != "" || len(gl) != 2*len(insts) || len(el) != 2*len(insts) {
				report(w, "bind:tz-mechanism("+mech+","+zone+")", fmt.Sprintf("zone selected through %s: program failed or printed %d lines instead of %d: %s", mech, len(gl), 2*len(insts), errText), nil)
				continue
			}
			visible := false
			for i, t := range insts {
				k.hit("fn:tz-mechanism-instant")
				// GMT line: equal to the reference, whatever the zone
				if exp := gmtLineExpected(t); gl[2*i] != exp {
					field := firstDiff(gl[2*i], exp)
					report(w, "bind:gmt-under-tz("+mech+","+zone+","+field+")", fmt.Sprintf("GMT functions at t=%d with zone %s selected through %s printed %q, expected %q (fields: sec2gmt;sec2gmt,3;sec2gmtdate;strftime;strptime;gmt2sec;nsec2gmt;strfntime;strpntime;nsec2gmtdate;gmt2nsec)", t, zone, mech, gl[2*i], exp), nil)
				}
				if exp := gmtLineExpected(t); el[2*i] != exp {
					field := firstDiff(el[2*i], exp)
					report(w, "bind:gmt-functions("+field+")", fmt.Sprintf("GMT functions at t=%d printed %q, expected %q", t, el[2*i], exp), nil)
				}
				// local line: mechanism == explicit zone argument
				if gl[2*i+1] != el[2*i+1] {
					field := firstDiff(gl[2*i+1], el[2*i+1])
					report(w, "bind:tz-mechanism("+mech+","+zone+","+field+")", fmt.Sprintf("*_local functions at t=%d with zone %s selected through %s printed %q; with the zone passed as an argument %q (fields: sec2localtime;sec2localtime,3;sec2localdate;strftime_local;strfntime_local;nsec2localtime;nsec2localdate;localtime2sec;localtime2nsec;strptime_local;strpntime_local;gmt2localtime;localtime2gmt)", t, zone, mech, gl[2*i+1], el[2*i+1]), nil)
				}
				if !strings.HasPrefix(el[2*i+1], "L;"+gmtCivil(t).local()+";") {
					visible = true
				}
			}
			if visible {
				k.note("tz-effect-visible:" + mech)
			}
		}
	}

	// ---- (b) DSL names are bound to the functions
	idx++
	if w.Mine(idx) {
		w.Begin(idx)
		w.Label(func() string { return "DSL name binding" })
		bindNames(k, w)
	}

	// ---- (c) verbs
	decs := []string{"", "-1", "-2", "-3", "-4", "-5", "-6", "-7", "-8", "-9"}
	units := []struct {
		flag string
		div  string
	}{{"", ""}, {"--millis", "1000"}, {"--micros", "1000000"}, {"--nanos", "1000000000"}}
	for _, d := range decs {
		for _, u := range units {
			idx++
			if !w.Mine(idx) {
				continue
			}
			w.Begin(idx)
			d, u := d, u
			w.Label(func() string { return "verb sec2gmt " + d + " " + u.flag })
			verbSec2gmt(k, w, d, u.flag, u.div)
		}
	}
	idx++
	if w.Mine(idx) {
		w.Begin(idx)
		verbSec2gmtdate(k, w)
		w.Sample(map[string]any{"worker": "bind", "tz_mechanisms": mechs, "verb_flag_combinations": len(decs) * len(units)})
	}
}

func firstDiff(a, b string) string {
	fa, fb := strings.Split(a, ";"), strings.Split(b, ";")
	for i := 0; i < len(fa) && i < len(fb); i++ {
		if fa[i] != fb[i] {
			return "field " + strconv.Itoa(i)
		}
	}
	return "field count"
}

// bindNames: one evaluation per DSL name, expected from the reference.
func bindNames(k *kit, w *vf.Worker) {
	t := int64(1440768801) // 2015-08-28T13:33:21Z, the instant of the help examples
	c := gmtCivil(t)
	ist := civilOf(t, 3*3600) // Asia/Istanbul in 2015 (EEST, +03): stated in the help examples
	ist.zname = "EEST"
	type tc struct{ expr, want string }
	cn := c
	cn.ns = 123456789
	istn := ist
	istn.ns = 123456789
	cases := []tc{
		{`sec2gmt(1440768801)`, c.iso()},
		{`sec2gmt(1440768801.5, 1)`, "2015-08-28T13:33:21.5Z"},
		{`sec2gmtdate(1440768801)`, c.date()},
		{`nsec2gmt(1440768801123456789)`, c.iso()},
		{`nsec2gmt(1440768801123456789, 6)`, cn.isoN(6)},
		{`nsec2gmtdate(1440768801123456789)`, c.date()},
		{`strftime(1440768801, "%Y-%m-%dT%H:%M:%SZ %j")`, c.iso() + " " + fmt.Sprintf("%03d", c.yday)},
		{`strftime(1440768801.5, "%H:%M:%3S")`, "13:33:21.500"},
		{`strfntime(1440768801123456789, "%Y-%m-%d %H:%M:%9S")`, cn.localN(9)},
		{`strptime("2015-08-28T13:33:21Z", "%Y-%m-%dT%H:%M:%SZ")`, "1440768801"},
		{`strpntime("2015-08-28T13:33:21Z", "%Y-%m-%dT%H:%M:%SZ")`, "1440768801000000000"},
		{`gmt2sec("2015-08-28T13:33:21Z")`, "1440768801"},
		{`gmt2nsec("2015-08-28T13:33:21Z")`, "1440768801000000000"},
		{`sec2localtime(1440768801, 0, "Asia/Istanbul")`, ist.local()},
		{`sec2localdate(1440768801, "Asia/Istanbul")`, ist.date()},
		{`nsec2localtime(1440768801123456789, 6, "Asia/Istanbul")`, istn.localN(6)},
		{`nsec2localdate(1440768801123456789, "Asia/Istanbul")`, ist.date()},
		{`strftime_local(1440768801, "%Y-%m-%d %H:%M:%S %z", "Asia/Istanbul")`, ist.local() + " +0300"},
		{`strfntime_local(1440768801123456789, "%Y-%m-%d %H:%M:%3S %z", "Asia/Istanbul")`, istn.localN(3) + " +0300"},
		{`strptime_local("2015-08-28 16:33:21", "%Y-%m-%d %H:%M:%S", "Asia/Istanbul")`, "1440768801"},
		{`strpntime_local("2015-08-28 16:33:21", "%Y-%m-%d %H:%M:%S", "Asia/Istanbul")`, "1440768801000000000"},
		{`localtime2sec("2015-08-28 16:33:21", "Asia/Istanbul")`, "1440768801"},
		{`localtime2nsec("2015-08-28 16:33:21", "Asia/Istanbul")`, "1440768801000000000"},
		{`gmt2localtime("2015-08-28T13:33:21Z", "Asia/Istanbul")`, ist.local()},
		{`localtime2gmt("2015-08-28 16:33:21", "Asia/Istanbul")`, c.iso()},
		{`sec2dhms(500000)`, "5d18h53m20s"},
		{`fsec2dhms(500000.25)`, "5d18h53m20.250000s"},
		{`sec2hms(5000)`, "01:23:20"},
		{`fsec2hms(5000.25)`, "01:23:20.250000"},
		{`dhms2sec("5d18h53m20s")`, "500000"},
		{`dhms2fsec("5d18h53m20.250000s")`, "500000.25"},
		{`hms2sec("01:23:20")`, "5000"},
		{`hms2sec("-00:00:01")`, "-1"},
		{`hms2fsec("01:23:20.250000")`, "5000.25"},
		{`datediff(strptime("2020-01-01", "%Y-%m-%d"), strptime("2023-05-15", "%Y-%m-%d"), "m")`, "40"},
		{`datediff(strptime("2020-01-01", "%Y-%m-%d"), strptime("2023-05-15", "%Y-%m-%d"), "d")`, "1230"},
		{`sec2gmt("abc")`, "abc"},
		{`sec2gmtdate("abc")`, "abc"},
		{`sec2gmt("")`, ""},
	}
	for _, c := range cases {
		time.Local = time.UTC
		r := vf.RunMlr([]string{"-n", "put", "end{print " + c.expr + "}"}, vf.MlrOpts{})
		k.hit("fn:dsl-binding")
		got := strings.TrimSuffix(r.Stdout, "\n")
		if got != c.want {
			if gf, e1 := strconv.ParseFloat(got, 64); e1 == nil {
				if wf, e2 := strconv.ParseFloat(c.want, 64); e2 == nil && gf == wf {
					continue // same number, different spelling of the float
				}
			}
			report(w, "bind:dsl("+c.expr+")", fmt.Sprintf("DSL `%s` printed %q (%s), expected %q", c.expr, got, r.Err+r.Panic, c.want), map[string]any{"expr": c.expr, "expected": c.want, "got": got})
		}
	}
}

// verb input: numeric and non-numeric values
var verbRows = []string{"0", "1", "-1", "1500000000", "1500000000123", "1500000000123456", "-1500000000", "86399", "951782400", "253402300799", "4102444800000",
	"1.5", "-1.5", "1500000000.6", "0.25", "1e3", "0x10", "abc", "", "-", "2017-07-14T02:40:00Z", "2017-07-14", "true", "12:34:56", "1500000000s", "0xZZ", "1.2.3", "12 34"}

func verbInput() string {
	var b strings.Builder
	b.WriteString("id,t,u,keep\n")
	for i, v := range verbRows {
		u := verbRows[(i*7+3)%len(verbRows)]
		fmt.Fprintf(&b, "%d,%s,%s,%s\n", i, v, u, v)
	}
	return b.String()
}

func parseCSV(s string) [][]string {
	var out [][]string
	for _, l := range strings.Split(strings.TrimRight(s, "\n"), "\n") {
		out = append(out, strings.Split(l, ","))
	}
	return out
}

func verbSec2gmt(k *kit, w *vf.Worker, dec, unit, div string) {
	in := verbInput()
	args := []string{"--icsv", "--ocsv", "sec2gmt"}
	if dec != "" {
		args = append(args, dec)
	}
	if unit != "" {
		args = append(args, unit)
	}
	args = append(args, "t,u,nosuchfield")
	k.note("verbflag:sec2gmt " + dec)
	k.note("verbflag:sec2gmt " + unit)
	v := vf.RunMlr(args, vf.MlrOpts{Stdin: &in})
	n := "0"
	if dec != "" {
		n = dec[1:]
	}
	expr := func(f string) string {
		arg := "$" + f
		if div != "" {
			arg = "$" + f + " / " + div
		}
		if dec == "" {
			return "sec2gmt(" + arg + ")"
		}
		return "sec2gmt(" + arg + ", " + n + ")"
	}
	// the documented equivalence, guarded so that non-numeric fields stay as they are ("leaves non-numbers as-is")
	prog := `if (is_numeric($t)) {$t = ` + expr("t") + `} if (is_numeric($u)) {$u = ` + expr("u") + `}`
	f := vf.RunMlr([]string{"--icsv", "--ocsv", "put", prog}, vf.MlrOpts{Stdin: &in})
	key := "verb:sec2gmt(" + strings.TrimSpace(dec+" "+unit) + ")"
	if !v.OK() || !f.OK() {
		report(w, key, fmt.Sprintf("mlr %s failed: %s / function form: %s", strings.Join(args, " "), v.String(), f.String()), nil)
		return
	}
	vr, fr, ir := parseCSV(v.Stdout), parseCSV(f.Stdout), parseCSV(in)
	if len(vr) != len(ir) || len(fr) != len(ir) {
		report(w, key, fmt.Sprintf("mlr %s printed %d lines for %d input lines", strings.Join(args, " "), len(vr), len(ir)), nil)
		return
	}
	nd, _ := strconv.Atoi(n)
	for i := 1; i < len(ir); i++ {
		if len(vr[i]) != 4 || len(fr[i]) != 4 {
			report(w, key, fmt.Sprintf("record %d has %d fields, expected 4: %q", i, len(vr[i]), vr[i]), nil)
			continue
		}
		for col := 0; col < 4; col++ {
			k.hit("fn:verb:sec2gmt")
			inV, outV, fnV := ir[i][col], vr[i][col], fr[i][col]
			what := ""
			switch {
			case col == 0 || col == 3:
				if outV != inV {
					what = fmt.Sprintf("field not named on the command line changed from %q to %q", inV, outV)
				}
			case !looksNumeric(inV):
				if outV != inV {
					what = fmt.Sprintf("non-numeric value %q became %q (must stay unchanged)", inV, outV)
				}
			default:
				if outV != fnV {
					what = fmt.Sprintf("value %q: verb printed %q, the function form `%s` printed %q", inV, outV, expr("t"), fnV)
				} else if iv, err := strconv.ParseInt(inV, 10, 64); err == nil && div == "" && iv >= minT && iv <= maxT {
					if exp := gmtCivil(iv).isoN(nd); outV != exp {
						what = fmt.Sprintf("value %q: verb printed %q, the calendar says %q", inV, outV, exp)
					}
				}
			}
			if what != "" {
				report(w, key+fmt.Sprintf(":%s", inV), fmt.Sprintf("mlr %s: %s", strings.Join(args, " "), what), map[string]any{"args": args, "input": in})
			}
		}
	}
}

// looksNumeric: the values of verbRows that Miller's documented number grammar accepts (decided here by construction of the list).
func looksNumeric(s string) bool {
	switch s {
	case "abc", "", "-", "2017-07-14T02:40:00Z", "2017-07-14", "true", "12:34:56", "1500000000s", "0xZZ", "1.2.3", "12 34":
		return false
	}
	return true
}

func verbSec2gmtdate(k *kit, w *vf.Worker) {
	in := verbInput()
	k.note("verbflag:sec2gmtdate")
	args := []string{"--icsv", "--ocsv", "sec2gmtdate", "t,u,nosuchfield"}
	v := vf.RunMlr(args, vf.MlrOpts{Stdin: &in})
	f := vf.RunMlr([]string{"--icsv", "--ocsv", "put", `$t = sec2gmtdate($t); $u = sec2gmtdate($u)`}, vf.MlrOpts{Stdin: &in})
	key := "verb:sec2gmtdate()"
	if !v.OK() || !f.OK() {
		report(w, key, fmt.Sprintf("mlr sec2gmtdate failed: %s / function form: %s", v.String(), f.String()), nil)
		return
	}
	vr, fr, ir := parseCSV(v.Stdout), parseCSV(f.Stdout), parseCSV(in)
	if len(vr) != len(ir) || len(fr) != len(ir) {
		report(w, key, fmt.Sprintf("mlr sec2gmtdate printed %d lines for %d input lines", len(vr), len(ir)), nil)
		return
	}
	for i := 1; i < len(ir); i++ {
		if len(vr[i]) != 4 || len(fr[i]) != 4 {
			report(w, key, fmt.Sprintf("record %d has %d fields, expected 4", i, len(vr[i])), nil)
			continue
		}
		for col := 0; col < 4; col++ {
			k.hit("fn:verb:sec2gmtdate")
			inV, outV, fnV := ir[i][col], vr[i][col], fr[i][col]
			what := ""
			switch {
			case col == 0 || col == 3:
				if outV != inV {
					what = fmt.Sprintf("field not named on the command line changed from %q to %q", inV, outV)
				}
			case !looksNumeric(inV):
				if outV != inV {
					what = fmt.Sprintf("non-numeric value %q became %q (must stay unchanged)", inV, outV)
				}
			default:
				if outV != fnV {
					what = fmt.Sprintf("value %q: verb printed %q, the function printed %q", inV, outV, fnV)
				} else if iv, err := strconv.ParseInt(inV, 10, 64); err == nil && iv >= minT && iv <= maxT {
					if exp := gmtCivil(iv).date(); outV != exp {
						what = fmt.Sprintf("value %q: verb printed %q, the calendar says %q", inV, outV, exp)
					}
				}
			}
			if what != "" {
				report(w, key+":"+inV, "mlr sec2gmtdate t,u,nosuchfield: "+what, map[string]any{"args": args, "input": in})
			}
		}
	}
}
