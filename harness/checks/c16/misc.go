package c16

// Format-token enumeration, the d/h/m/s family, datediff.

import (
	"fmt"
	"math"
	"math/big"
	"regexp"
	"strconv"
	"strings"

	"github.com/johnkerl/miller/v6/pkg/bifs"

	"verif/harness/vf"
)

// ---------------------------------------------------------------- format token sequences

func fmtTokens() []string {
	var t []string
	for _, c := range allCodes {
		t = append(t, "%"+c)
	}
	// literal characters, chosen to collide with the fractional-seconds rewrite ("<digit>S"), the code letters, and the usual separators
	t = append(t, "1", "9", "S", "s", "Z", ":", "-", " ", "T", "0", "x")
	return t
}

type fmtInstant struct {
	arg  *M     // int or float seconds, or int nanoseconds
	ns   bool   // strfntime
	text string // argument as written in the DSL
	c    civil
}

func fmtInstants(quick bool) []fmtInstant {
	var out []fmtInstant
	secs := []int64{0, 86399, daysFromCivil(2000, 2, 29)*86400 + 3723, 1700000000, -1, -86400 * 400, 4102444799, maxT, minT, daysFromCivil(2023, 1, 1) * 86400, daysFromCivil(2021, 1, 3)*86400 + 13*3600, daysFromCivil(2026, 12, 31)*86400 + 12*3600}
	if quick {
		secs = secs[:9]
	}
	for _, t := range secs {
		out = append(out, fmtInstant{arg: mi(t), text: strconv.FormatInt(t, 10), c: gmtCivil(t)})
	}
	for _, x := range []float64{1.25, -1.5, 1500000000.5} {
		fl := int64(math.Floor(x))
		c := gmtCivil(fl)
		c.ns = int64((x - float64(fl)) * 1e9)
		out = append(out, fmtInstant{arg: mf(x), text: fstr(x), c: c})
	}
	for _, ns := range []int64{1500000000123456789, -1, 999999999, 1440768801000000089} {
		c := gmtCivil(floorDiv(ns, 1000000000))
		c.ns = floorMod(ns, 1000000000)
		out = append(out, fmtInstant{arg: mi(ns), ns: true, text: strconv.FormatInt(ns, 10), c: c})
	}
	return out
}

// culprit finds the first token whose expected rendering is not where it should be in got.
func culprit(c civil, tokens []string, got string) (int, string) {
	rest := got
	for i, t := range tokens {
		exp := t
		if len(t) >= 2 && t[0] == '%' {
			exp, _ = c.render(t[1:])
		}
		if !strings.HasPrefix(rest, exp) {
			return i, exp
		}
		rest = rest[len(exp):]
	}
	return len(tokens) - 1, ""
}

func formatsWorker(w *vf.Worker) {
	g := newGmtChecker(w)
	defer g.flush()
	toks := fmtTokens()
	insts := fmtInstants(w.Quick())
	maxLen := 2
	if !w.Quick() {
		maxLen = 3
	}
	var idx uint64
	check := func(seq []string) {
		f := strings.Join(seq, "")
		// the concatenation must tokenize back to the same sequence (literal runs merge), else the format means something else
		re := tokenize(f)
		if strings.Join(re, "\x00") != strings.Join(mergeLiterals(seq), "\x00") {
			g.note("domain:format-concatenation-retokenizes")
			return
		}
		for k := range insts {
			in := &insts[k]
			if len(seq) == 3 && k%2 == 1 {
				continue
			}
			exp, ok := in.c.expand(seq)
			if !ok {
				g.note("unconstrained:format-with-undetermined-code")
				continue
			}
			var r *M
			fn := "strftime"
			if in.ns {
				fn = "strfntime"
				r = bifs.BIF_strfntime(in.arg, ms(f))
			} else {
				r = bifs.BIF_strftime(in.arg, ms(f))
			}
			g.hit("fn:" + fn)
			if r.String() != exp || r.IsError() {
				if in.c.Y < 1000 && strings.Contains(f, "%Y") || strings.Contains(f, "%F") && in.c.Y < 1000 || strings.Contains(f, "%c") && in.c.Y < 1000 || strings.Contains(f, "%v") && in.c.Y < 1000 {
					// unpadded years would be acceptable; compare modulo leading zeros of the year
					if strings.ReplaceAll(r.String(), year4(in.c.Y), strconv.FormatInt(in.c.Y, 10)) == strings.ReplaceAll(exp, year4(in.c.Y), strconv.FormatInt(in.c.Y, 10)) {
						continue
					}
				}
				// attribute: a code that is already wrong on its own, else the interaction of adjacent tokens
				tokDesc := ""
				for _, tk := range seq {
					if len(tk) >= 2 && tk[0] == '%' {
						e1, _ := in.c.render(tk[1:])
						var r1 *M
						if in.ns {
							r1 = bifs.BIF_strfntime(in.arg, ms(tk))
						} else {
							r1 = bifs.BIF_strftime(in.arg, ms(tk))
						}
						if r1.String() != e1 {
							tokDesc = "code " + tk
							break
						}
					}
				}
				if tokDesc == "" {
					i, _ := culprit(in.c, seq, r.String())
					isCode := func(t string) bool { return len(t) >= 2 && t[0] == '%' }
					switch {
					case isCode(seq[i]) && i+1 < len(seq):
						// a code that is right alone but wrong here: name it with its successor
						tokDesc = "sequence " + seq[i] + "+" + seq[i+1]
					case i > 0:
						tokDesc = "sequence " + seq[i-1] + "+" + seq[i]
					case len(seq) > 1:
						tokDesc = "sequence " + seq[0] + "+" + seq[1]
					default:
						tokDesc = "sequence " + seq[0]
					}
					// canonical form of the two-literal pattern "<digit>S" wherever it sits in the sequence
					for j := 0; j+1 < len(seq); j++ {
						if !isCode(seq[j]) && seq[j+1] == "S" && seq[j][0] >= '1' && seq[j][0] <= '9' {
							without := append(append([]string{}, seq[:j+1]...), seq[j+2:]...)
							if e2, ok2 := in.c.expand(without); ok2 && e2 == r.String() {
								tokDesc = "sequence " + seq[j] + "+S"
							}
							break
						}
					}
				}
				if r.IsError() {
					tokDesc = "error"
				}
				g.bad(fn, "format "+tokDesc, "", fn+"("+in.text+","+q(f)+")", show(r), q(exp))
			}
		}
	}
	for _, a := range toks {
		idx++
		if !w.Mine(idx) {
			continue
		}
		w.Begin(idx)
		a := a
		w.Label(func() string { return "formats starting with token " + a })
		p, stack := vf.Try(func() {
			check([]string{a})
			for _, b := range toks {
				check([]string{a, b})
				if maxLen >= 3 {
					for _, c := range toks {
						check([]string{a, b, c})
					}
				}
			}
		})
		if p != nil {
			report(w, "panic(formats,"+a+")", fmt.Sprintf("panic in strftime with a format starting with %s: %v\n%s", a, p, stack), nil)
		}
	}
	if w.Shard == 0 {
		w.Sample(map[string]any{"worker": "formats", "tokens": toks, "max_sequence_length": maxLen, "instants": len(insts)})
	}
}

func mergeLiterals(seq []string) []string {
	var out []string
	for _, t := range seq {
		isLit := !(len(t) >= 2 && t[0] == '%')
		if isLit && len(out) > 0 {
			last := out[len(out)-1]
			if !(len(last) >= 2 && last[0] == '%') {
				out[len(out)-1] = last + t
				continue
			}
		}
		out = append(out, t)
	}
	return out
}

// ---------------------------------------------------------------- d/h/m/s family

var (
	dhmsRe  = regexp.MustCompile(`^(-?)(?:(\d+)d)?(?:(\d+)h)?(?:(\d+)m)?(\d+)s$`)
	fdhmsRe = regexp.MustCompile(`^(-?)(?:(\d+)d)?(?:(\d+)h)?(?:(\d+)m)?(\d+\.\d{6})s$`)
	hmsRe   = regexp.MustCompile(`^(-?)(\d{2,}):(\d\d):(\d\d)$`)
	fhmsRe  = regexp.MustCompile(`^(-?)(\d{2,}):(\d\d):(\d\d\.\d{6})$`)
)

func bigOf(s string) *big.Int {
	if s == "" {
		return new(big.Int)
	}
	v, _ := new(big.Int).SetString(s, 10)
	return v
}

// evalDHMS reads sign, d, h, m and an integer s: value and whether the lower fields are in range.
func evalParts(sign, d, h, m string, s *big.Rat) (*big.Rat, bool) {
	D, H, Mi := bigOf(d), bigOf(h), bigOf(m)
	inRange := true
	if d != "" && H.Cmp(big.NewInt(24)) >= 0 {
		inRange = false
	}
	if (d != "" || h != "") && Mi.Cmp(big.NewInt(60)) >= 0 {
		inRange = false
	}
	tot := new(big.Int).Mul(D, big.NewInt(86400))
	tot.Add(tot, new(big.Int).Mul(H, big.NewInt(3600)))
	tot.Add(tot, new(big.Int).Mul(Mi, big.NewInt(60)))
	v := new(big.Rat).SetInt(tot)
	v.Add(v, s)
	if sign == "-" {
		v.Neg(v)
	}
	return v, inRange
}

func ratOfDec(s string) *big.Rat { r, _ := new(big.Rat).SetString(s); return r }

func dhmsInts(quick bool) []int64 {
	var out []int64
	for k := int64(1); k <= 40; k++ {
		for _, d := range []int64{-1, 0, 1} {
			out = append(out, 86400*k*25+d, -(86400*k*25 + d))
		}
	}
	for _, v := range []int64{1 << 31, (1 << 31) - 1, (1 << 31) + 1, 1 << 32, 1 << 53, (1 << 53) - 1, (1 << 53) + 1, 1 << 62, math.MaxInt64, math.MaxInt64 - 1, 31536000, 3155760000} {
		out = append(out, v, -v)
	}
	out = append(out, math.MinInt64)
	return out
}

func dhmsWorker(w *vf.Worker) {
	k := newKit(w)
	defer k.flush()
	var idx uint64
	R := int64(200000)
	if w.Quick() {
		R = 100000
	}
	const blk = 2048
	for lo := int64(-R); lo <= R; lo += blk {
		idx++
		if !w.Mine(idx) {
			continue
		}
		w.Begin(idx)
		lo := lo
		w.Label(func() string { return fmt.Sprintf("dhms integers %d..%d", lo, lo+blk-1) })
		p, stack := vf.Try(func() {
			for t := lo; t < lo+blk && t <= R; t++ {
				dhmsInt(k, t)
				for _, f := range []float64{0.25, 0.5, 0.999999} {
					x := float64(t) + f
					dhmsFloat(k, x)
				}
				dhmsFloat(k, float64(t))
			}
		})
		if p != nil {
			report(w, fmt.Sprintf("panic(dhms,%d)", lo), fmt.Sprintf("panic in the d/h/m/s family on integers %d..%d: %v\n%s", lo, lo+blk-1, p, stack), nil)
		}
	}
	idx++
	if w.Mine(idx) {
		w.Begin(idx)
		for _, t := range dhmsInts(w.Quick()) {
			t := t
			p, stack := vf.Try(func() {
				dhmsInt(k, t)
				if t >= -(1<<53) && t <= 1<<53 {
					dhmsFloat(k, float64(t))
					if t > -(1<<40) && t < 1<<40 {
						dhmsFloat(k, float64(t)+0.5)
					}
				}
			})
			if p != nil {
				report(w, fmt.Sprintf("panic(dhms,%d)", t), fmt.Sprintf("panic in the d/h/m/s family on %d: %v\n%s", t, p, stack), nil)
			}
		}
		// fraction that rounds up into the next second / minute
		for _, x := range []float64{59.9999996, 3599.9999996, 86399.9999996, -59.9999996, 0.9999996, 1e-7, -1e-7, 4.5e-7, 5.5e-7} {
			dhmsFloat(k, x)
		}
		w.Sample(map[string]any{"worker": "dhms", "range": []int64{-R, R}, "specials": len(dhmsInts(w.Quick()))})
	}
}

func magClass(t int64) string {
	a := t
	if a < 0 {
		a = -a
	}
	s := "nonneg"
	if t < 0 {
		s = "neg"
	}
	switch {
	case t == math.MinInt64:
		return "-2^63"
	case a < 60:
		return s + ",<1m"
	case a < 3600:
		return s + ",<1h"
	case a < 86400:
		return s + ",<1d"
	case a <= 1<<53:
		return s + ",>=1d"
	}
	return s + ",>2^53"
}

func dhmsInt(k *kit, t int64) {
	ts := strconv.FormatInt(t, 10)
	T := new(big.Rat).SetInt64(t)
	cls := magClass(t)
	// sec2dhms
	k.hit("fn:sec2dhms")
	a := bifs.BIF_sec2dhms(mi(t))
	if m := dhmsRe.FindStringSubmatch(a.String()); m == nil {
		k.bad("sec2dhms", "", cls, "sec2dhms("+ts+")", show(a), "text of the form [-][Dd][HHh][MMm]SSs")
	} else if v, inr := evalParts(m[1], m[2], m[3], m[4], new(big.Rat).SetInt(bigOf(m[5]))); v.Cmp(T) != 0 || !inr || ((m[2] != "" || m[3] != "" || m[4] != "") && bigOf(m[5]).Cmp(big.NewInt(60)) >= 0) {
		k.bad("sec2dhms", "", cls, "sec2dhms("+ts+")", show(a), "d/h/m/s text worth "+ts+" seconds with h<24, m<60, s<60")
	}
	k.hit("fn:dhms2sec")
	if r := bifs.BIF_dhms2sec(a); !intEq(r, t) {
		k.bad("dhms2sec", "of sec2dhms", cls, "dhms2sec(sec2dhms("+ts+")="+show(a)+")", show(r), ts)
	}
	// sec2hms
	k.hit("fn:sec2hms")
	b := bifs.BIF_sec2hms(mi(t))
	if m := hmsRe.FindStringSubmatch(b.String()); m == nil {
		k.bad("sec2hms", "", cls, "sec2hms("+ts+")", show(b), "text of the form [-]HH:MM:SS")
	} else {
		v, _ := evalParts(m[1], "", m[2], m[3], new(big.Rat).SetInt(bigOf(m[4])))
		if v.Cmp(T) != 0 || bigOf(m[3]).Cmp(big.NewInt(60)) >= 0 || bigOf(m[4]).Cmp(big.NewInt(60)) >= 0 {
			k.bad("sec2hms", "", cls, "sec2hms("+ts+")", show(b), "HH:MM:SS text worth "+ts+" seconds with MM<60, SS<60")
		}
	}
	k.hit("fn:hms2sec")
	if r := bifs.BIF_hms2sec(b); !intEq(r, t) {
		k.bad("hms2sec", "of sec2hms", cls, "hms2sec(sec2hms("+ts+")="+show(b)+")", show(r), ts)
	}
	// the documented text shapes read back: "5d18h53m20s" and "01:23:20"
	if t >= 86400 && t < 1<<53 {
		txt := fmt.Sprintf("%dd%02dh%02dm%02ds", t/86400, t%86400/3600, t%3600/60, t%60)
		k.hit("fn:dhms2sec")
		if r := bifs.BIF_dhms2sec(ms(txt)); !intEq(r, t) {
			k.bad("dhms2sec", "documented shape", cls, "dhms2sec("+q(txt)+")", show(r), ts)
		}
		k.hit("fn:dhms2fsec")
		if r := bifs.BIF_dhms2fsec(ms(txt)); !numEq(r, t) {
			k.bad("dhms2fsec", "documented shape", cls, "dhms2fsec("+q(txt)+")", show(r), ts)
		}
	}
	if t >= 0 && t < 1<<53 {
		txt := fmt.Sprintf("%02d:%02d:%02d", t/3600, t%3600/60, t%60)
		k.hit("fn:hms2sec")
		if r := bifs.BIF_hms2sec(ms(txt)); !intEq(r, t) {
			k.bad("hms2sec", "documented shape", cls, "hms2sec("+q(txt)+")", show(r), ts)
		}
		k.hit("fn:hms2fsec")
		if r := bifs.BIF_hms2fsec(ms(txt)); !numEq(r, t) {
			k.bad("hms2fsec", "documented shape", cls, "hms2fsec("+q(txt)+")", show(r), ts)
		}
	}
}

func dhmsFloat(k *kit, x float64) {
	xs := fstr(x)
	X := new(big.Rat).SetFloat64(x)
	tol := new(big.Rat).SetFloat64(1e-6 + math.Abs(x)*4.5e-16)
	cls := magClass(int64(math.Trunc(x)))
	if x != math.Trunc(x) {
		cls += ",fractional"
	}
	near := func(v *big.Rat) bool {
		d := new(big.Rat).Sub(v, X)
		d.Abs(d)
		return d.Cmp(tol) <= 0
	}
	nearF := func(r *M) bool {
		v, ok := r.GetNumericToFloatValue()
		return ok && math.Abs(v-x) <= 1e-6+math.Abs(x)*4.5e-16
	}
	k.hit("fn:fsec2dhms")
	a := bifs.BIF_fsec2dhms(mf(x))
	if m := fdhmsRe.FindStringSubmatch(a.String()); m == nil {
		k.bad("fsec2dhms", "", cls, "fsec2dhms("+xs+")", show(a), "text of the form [-][Dd][HHh][MMm]SS.ffffffs")
	} else {
		v, inr := evalParts(m[1], m[2], m[3], m[4], ratOfDec(m[5]))
		if !near(v) || !inr {
			k.bad("fsec2dhms", "", cls, "fsec2dhms("+xs+")", show(a), "d/h/m/s text worth "+xs+" seconds (to 1e-6)")
		} else if ratOfDec(m[5]).Cmp(big.NewRat(60, 1)) >= 0 && (m[2] != "" || m[3] != "" || m[4] != "") {
			k.note("unconstrained:fsec2dhms-seconds-field-60")
		}
	}
	k.hit("fn:dhms2fsec")
	if r := bifs.BIF_dhms2fsec(a); !nearF(r) {
		k.bad("dhms2fsec", "of fsec2dhms", cls, "dhms2fsec(fsec2dhms("+xs+")="+show(a)+")", show(r), xs+" (to 1e-6)")
	}
	k.hit("fn:fsec2hms")
	b := bifs.BIF_fsec2hms(mf(x))
	if m := fhmsRe.FindStringSubmatch(b.String()); m == nil {
		k.bad("fsec2hms", "", cls, "fsec2hms("+xs+")", show(b), "text of the form [-]HH:MM:SS.ffffff")
	} else {
		v, _ := evalParts(m[1], "", m[2], m[3], ratOfDec(m[4]))
		if !near(v) || bigOf(m[3]).Cmp(big.NewInt(60)) >= 0 {
			k.bad("fsec2hms", "", cls, "fsec2hms("+xs+")", show(b), "HH:MM:SS.ffffff text worth "+xs+" seconds (to 1e-6)")
		} else if ratOfDec(m[4]).Cmp(big.NewRat(60, 1)) >= 0 {
			k.note("unconstrained:fsec2hms-seconds-field-60")
		}
	}
	k.hit("fn:hms2fsec")
	if r := bifs.BIF_hms2fsec(b); !nearF(r) {
		k.bad("hms2fsec", "of fsec2hms", cls, "hms2fsec(fsec2hms("+xs+")="+show(b)+")", show(r), xs+" (to 1e-6)")
	}
}

// ---------------------------------------------------------------- datediff

func datediffDays(quick bool) []int64 {
	var out []int64
	addRange := func(y1, m1, d1, y2, m2, d2 int64) {
		for d := daysFromCivil(y1, m1, d1); d <= daysFromCivil(y2, m2, d2); d++ {
			out = append(out, d)
		}
	}
	if quick {
		addRange(2019, 12, 25, 2021, 3, 5)
	} else {
		addRange(2018, 12, 25, 2022, 3, 5)
	}
	addRange(1899, 12, 30, 1900, 3, 2)
	addRange(1999, 12, 30, 2000, 3, 2)
	addRange(2023, 1, 28, 2023, 3, 2)
	out = append(out, daysFromCivil(1, 1, 1), daysFromCivil(9999, 12, 31), 0, -1, daysFromCivil(1600, 2, 29), daysFromCivil(2400, 2, 29))
	return out
}

var ddUnits = []string{"d", "m", "y", "ym", "md", "yd"}

// refDatediff: expectation from the help text; ok=false where it does not fix the value.
func refDatediff(D1, D2 int64, unit string) (int64, bool) {
	sign := int64(1)
	if D1 > D2 {
		D1, D2 = D2, D1
		sign = -1
	}
	y1, m1, d1 := civilFromDays(D1)
	y2, m2, d2 := civilFromDays(D2)
	endIsMonthEnd := d2 == daysInMonth(y2, m2)
	months := (y2-y1)*12 + (m2 - m1)
	if d2 < d1 {
		months--
	}
	years := y2 - y1
	if m2 < m1 || (m2 == m1 && d2 < d1) {
		years--
	}
	borrowAmbiguous := d2 < d1 && endIsMonthEnd
	switch unit {
	case "d":
		return sign * (D2 - D1), true
	case "m":
		return sign * months, !borrowAmbiguous
	case "y":
		return sign * years, !(borrowAmbiguous && m1 == m2)
	case "ym":
		return sign * (months - 12*years), !borrowAmbiguous
	case "md":
		if d2 >= d1 {
			return sign * (d2 - d1), true
		}
		return 0, false
	case "yd":
		ay := y2
		if m1 > m2 || (m1 == m2 && d1 > d2) {
			ay--
		}
		if m1 == 2 && d1 == 29 && !isLeap(ay) {
			return 0, false
		}
		return sign * (D2 - daysFromCivil(ay, m1, d1)), true
	}
	return 0, false
}

func datediffWorker(w *vf.Worker) {
	k := newKit(w)
	defer k.flush()
	days := datediffDays(w.Quick())
	var idx uint64
	for i, D1 := range days {
		idx++
		if !w.Mine(idx) {
			continue
		}
		w.Begin(idx)
		D1 := D1
		w.Label(func() string { y, m, d := civilFromDays(D1); return fmt.Sprintf("datediff from %04d-%02d-%02d", y, m, d) })
		p, stack := vf.Try(func() {
			for j, D2 := range days {
				// times of day vary deterministically and must be ignored
				sod1 := int64((i*7919 + j*31) % 86400)
				sod2 := int64((j*104729 + i*17) % 86400)
				var a, b *M
				t1, t2 := D1*86400+sod1, D2*86400+sod2
				if (i+j)%3 == 0 {
					a, b = mf(float64(t1)+0.5), mf(float64(t2)+0.25)
				} else {
					a, b = mi(t1), mi(t2)
				}
				for _, u := range ddUnits {
					unit := u
					if (i+j)%5 == 0 {
						unit = strings.ToUpper(u)
					}
					k.hit("fn:datediff")
					k.note("unit:" + u)
					r := bifs.BIF_datediff(a, b, ms(unit))
					exp, ok := refDatediff(D1, D2, u)
					if !ok {
						k.note("unconstrained:datediff-" + u)
						if !isNum(r) {
							k.bad("datediff", u, "undetermined-borrow", fmt.Sprintf("datediff(%s,%s,%q)", a.String(), b.String(), unit), show(r), "an integer")
						}
						continue
					}
					if !intEq(r, exp) {
						cls := "forward"
						if D1 > D2 {
							cls = "backward"
						}
						y1, m1, d1 := civilFromDays(D1)
						y2, m2, d2 := civilFromDays(D2)
						k.bad("datediff", u, cls, fmt.Sprintf("datediff(%s,%s,%q)", a.String(), b.String(), unit), show(r),
							fmt.Sprintf("%d (dates %04d-%02d-%02d and %04d-%02d-%02d GMT)", exp, y1, m1, d1, y2, m2, d2))
					}
				}
			}
			k.hit("fn:datediff")
			if r := bifs.BIF_datediff(mi(D1*86400), mi(0), ms("w")); !r.IsError() {
				k.bad("datediff", "invalid unit", "", fmt.Sprintf("datediff(%d,0,\"w\")", D1*86400), show(r), "(error)")
			}
		})
		if p != nil {
			report(w, fmt.Sprintf("panic(datediff,%d)", D1), fmt.Sprintf("panic in datediff from day %d: %v\n%s", D1, p, stack), nil)
		}
	}
	if w.Shard == 0 {
		w.Sample(map[string]any{"worker": "datediff", "dates": len(days), "pairs": len(days) * len(days), "units": ddUnits})
	}
}
