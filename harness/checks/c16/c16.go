// Package c16: time conversion functions agree with the Gregorian / IANA
// calendar (property C16, DESIGN §3 C16).
//
// Engine E2: bounded exhaustive enumeration of instants x functions x formats
// x zones on the real BIFs (direct calls), each case compared with
//   - civil.go: proleptic-Gregorian civil-from-days / days-from-civil in
//     integer arithmetic (no use of Go's time package), for everything GMT;
//   - harness/pyref/tzref.py: Python 3 zoneinfo on the system tzdata, one
//     batch subprocess per worker shard, for everything zone-dependent;
//   - laws on the real code on both sides (strptime(strftime(t,f),f)==t,
//     dhms inverse pairs, verb == function, TZ mechanism == explicit zone
//     argument).
package c16

import (
	"fmt"
	"math"
	"os"
	"os/exec"
	"path/filepath"
	"sort"
	"strings"
	"sync"

	"github.com/johnkerl/miller/v6/pkg/mlrval"

	"verif/harness/vf"
)

func init() {
	vf.Register(&vf.CheckDef{ID: "C16", Level: "model_checking", Run: run,
		Workers: map[string]vf.WorkerFunc{
			"days":      daysWorker,
			"seconds":   secondsWorker,
			"frac":      fracWorker,
			"fracparse": fracParseWorker,
			"fraczone":  fracZoneWorker,
			"formats":   formatsWorker,
			"dhms":      dhmsWorker,
			"datediff":  datediffWorker,
			"zone":      zoneWorker,
			"bind":      bindWorker,
		}})
}

// ---------------------------------------------------------------- shared helpers

type M = mlrval.Mlrval

func mi(v int64) *M   { return mlrval.FromInt(v) }
func mf(v float64) *M { return mlrval.FromFloat(v) }
func ms(v string) *M  { return mlrval.FromString(v) }

// show describes a result value for messages.
func show(m *M) string {
	if m == nil {
		return "<nil>"
	}
	switch m.Type() {
	case mlrval.MT_ERROR:
		return "(error)"
	case mlrval.MT_INT:
		v, _ := m.GetIntValue()
		return fmt.Sprintf("%d", v)
	case mlrval.MT_FLOAT:
		v, _ := m.GetFloatValue()
		return fmt.Sprintf("%v (float)", v)
	case mlrval.MT_ABSENT:
		return "(absent)"
	}
	return fmt.Sprintf("%q", m.String())
}

// numEq: m is a number equal to the integer t (|t| < 2^53 everywhere here).
func numEq(m *M, t int64) bool {
	switch m.Type() {
	case mlrval.MT_INT:
		v, _ := m.GetIntValue()
		return v == t
	case mlrval.MT_FLOAT:
		v, _ := m.GetFloatValue()
		return v == float64(t)
	}
	return false
}

// intEq: m is the int v (documented "integer nanoseconds").
func intEq(m *M, v int64) bool {
	if m.Type() != mlrval.MT_INT {
		return false
	}
	g, ok := m.GetIntValue()
	return ok && g == v
}

func isNum(m *M) bool { t := m.Type(); return t == mlrval.MT_INT || t == mlrval.MT_FLOAT }

// kit bundles the worker with cheap local hit counters.
type kit struct {
	w   *vf.Worker
	cnt map[string]int64
}

func newKit(w *vf.Worker) *kit  { return &kit{w: w, cnt: map[string]int64{}} }
func (k *kit) hit(name string)  { k.cnt[name]++; k.w.Eval(1) }
func (k *kit) note(name string) { k.cnt[name]++ }
func (k *kit) flush() {
	for n, v := range k.cnt {
		k.w.Count(n, v)
	}
}

// bad records a violation: key fn(arg,class); what carries the concrete call.
func (k *kit) bad(fn, arg, class, call, got, exp string) {
	key := fn + "(" + arg
	if class != "" {
		if arg != "" {
			key += ","
		}
		key += class
	}
	key += ")"
	report(k.w, key, fmt.Sprintf("%s = %s, expected %s", call, got, exp),
		map[string]any{"function": fn, "call": call, "got": got, "expected": exp, "class": class,
			"reproduce": "mlr -n put 'end{print " + call + "}'"})
}

// report records a violation (and, as a debugging aid, appends the first 5 per key and worker process to $VERIF_C16_DUMP, without the framework's per-group cap).
var dumpSeen = map[string]int{}

func report(w *vf.Worker, key, what string, replay any) {
	if f := os.Getenv("VERIF_C16_DUMP"); f != "" && dumpSeen[key] < 5 {
		dumpSeen[key]++
		if fh, err := os.OpenFile(f, os.O_APPEND|os.O_CREATE|os.O_WRONLY, 0644); err == nil {
			fmt.Fprintf(fh, "%s\t%s\n", key, strings.ReplaceAll(what, "\n", "\\n"))
			fh.Close()
		}
	}
	w.Violation(key, what, replay)
}

const (
	minT = -62135596800 // 0001-01-01T00:00:00Z
	maxT = 253402300799 // 9999-12-31T23:59:59Z
	// whole seconds whose nanosecond count fits int64
	minNsT = -9223372036
	maxNsT = 9223372036
)

func nsRep(t int64) bool { return t >= minNsT && t <= maxNsT }

// era classifies an instant for violation keys (the classes are the ranges in
// which the anchored code takes different paths: int64-nanosecond
// representability, |t| < 2^32 where float64(nanoseconds)/1e9 is still exact
// to the second, and the sign of the epoch).
func era(t int64) string {
	switch {
	case t < minNsT:
		return "0001..1677"
	case t < -(1 << 32):
		return "1677..1833"
	case t < 0:
		return "1833..1969"
	case t < 1<<32:
		return "1970..2106"
	case t <= maxNsT:
		return "2106..2262"
	}
	return "2262..9999"
}

func q(s string) string { return `"` + s + `"` }

// ---------------------------------------------------------------- python reference plumbing

func pyScript() string { return filepath.Join(vf.Root, "harness", "pyref", "tzref.py") }

// pyBatch runs the reference once over a request file and returns the answer lines.
func pyBatch(requests []byte) ([]string, error) {
	dir := "/dev/shm"
	if _, err := os.Stat(dir); err != nil {
		dir = os.TempDir()
	}
	in, err := os.CreateTemp(dir, "verif-c16-req-")
	if err != nil {
		return nil, err
	}
	defer os.Remove(in.Name())
	if _, err := in.Write(requests); err != nil {
		return nil, err
	}
	in.Seek(0, 0)
	cmd := exec.Command("python3", pyScript(), "batch")
	cmd.Stdin = in
	cmd.Env = append(os.Environ(), "PYTHONHASHSEED=0")
	var eb strings.Builder
	cmd.Stderr = &eb
	out, err := cmd.Output()
	in.Close()
	if err != nil {
		return nil, fmt.Errorf("python3 tzref.py batch: %v: %s", err, eb.String())
	}
	lines := strings.Split(strings.TrimRight(string(out), "\n"), "\n")
	return lines, nil
}

// ---------------------------------------------------------------- orchestrator

var zoneList = []string{"Asia/Kolkata", "Asia/Kathmandu", "America/Sao_Paulo", "America/New_York", "Europe/London",
	"Australia/Lord_Howe", "Pacific/Apia", "Africa/Casablanca", "Asia/Istanbul", "UTC"}

const (
	zoneLo = -2208988800 // 1900-01-01T00:00:00Z
	zoneHi = 2145916800  // 2038-01-01T00:00:00Z
)

type zoneArgs struct {
	TransitionsFile string `json:"transitions_file"`
}

func run(c *vf.Ctx) {
	c.Rule = "every enumerated (function, instant, format/decimals, zone) tuple is compared with an independent reference (integer civil-from-days for GMT, Python zoneinfo for zones) or a law on the real code; " +
		"instants: every day of the year range x {00:00:00,12:00:00,23:59:59}, every second of +-36 h windows around calendar boundaries, every second of a window around every tz transition 1900-2037 of 10 zones, " +
		"fractional seconds/nanoseconds x 0..9 decimals, 10 fraction digit strings (1..9 digits) in the TEXT given to every float-seconds and integer-nanosecond parse function at every second of a window around 18 representation limits and at 3 instants of every year 0001..9999 (GMT; in 10 zones against zoneinfo), all integers of a range for the d/h/m/s family, all pairs of a date set for datediff. distinct_nontrivial = number of distinct (function, argument tuple) evaluations that were compared with an expectation (all tuples are distinct by construction)"
	c.Assume("years outside 0001..9999 are not explored (the property's range); leap seconds are not modelled by either side (Unix time)")
	c.Assume("float inputs: the exact binary value of the double is the instant; with n decimals the text may be floor or round-half-up of that value to n decimals, evaluated with a slack of one ulp (or 2^-52 s) on the input: the documentation does not say truncate or round")
	c.Assume("sec2gmtdate/%s on negative fractional floats: floor and truncation toward zero are both accepted ('integer part' in the help text)")
	c.Assume("a parsed text with a fractional second: a float result is compared with the exact rational t + digits/10^k and must be within 2 ulp of it (float64 seconds cannot do better: 2 us near years 1677/2262, 60 us in year 9999); localtime2sec with a fraction, i.e. a fraction after a FINAL %S: reference-dsl-time.md (Fractional seconds) shows (error) for it, so an error is accepted there and a number must be the instant")
	c.Assume("strptime %s is not in the documented strptime format table (reference-dsl-time.md): not asserted, only counted")
	c.Assume("strpntime/gmt2nsec/nsec* are only asserted where the nanosecond count fits int64 (1677-09-21..2262-04-11); outside, counted as unrepresentable")
	c.Assume("%y round trips only for years 1969..2068 (POSIX pivot); %z is not asserted for UTC offsets that are not whole minutes (pre-1920 local mean times)")
	c.Assume("DST gaps: a wall-clock text that does not exist in the zone must yield a number or an error (documentation fixes no resolution); DST overlaps: either of the two valid instants is accepted")
	c.Assume("zones: the 10 zones of the design between 1900 and 2037; transitions are located by probing zoneinfo every 6 h and bisecting (two transitions within 6 h that cancel exactly would be missed)")
	c.Assume("datediff: units m/y/ym when the end day-of-month is below the start day and is the last day of its month, md when the end day is below the start day, yd/y with a Feb-29 start: the documentation does not fix the borrow convention, counted as unconstrained")
	c.Assume("fsec2hms/fsec2dhms may print a seconds field of 60.000000 when the fraction rounds up; the property only requires the inverse to agree within 1e-6, so this is counted, not asserted")

	if _, err := exec.LookPath("python3"); err != nil {
		c.Broken("python3 not found: %v", err)
		return
	}

	// zone transition tables from the reference, one subprocess per zone in parallel
	trFile, err := scanTransitions()
	if err != nil {
		c.Broken("tzref.py transitions failed: %v", err)
		return
	}
	defer os.Remove(trFile)

	sets := map[string]map[string]bool{}
	merge := func(r *vf.PoolResult) {
		for k, m := range r.Sets {
			if sets[k] == nil {
				sets[k] = map[string]bool{}
			}
			for s := range m {
				sets[k][s] = true
			}
		}
	}
	only := os.Getenv("VERIF_C16_ONLY") // debugging aid: comma list of workers
	want := func(n string) bool { return only == "" || strings.Contains(","+only+",", ","+n+",") }
	if want("days") {
		merge(c.RunPool(vf.PoolSpec{Worker: "days", Shards: 128}))
	}
	if want("seconds") {
		merge(c.RunPool(vf.PoolSpec{Worker: "seconds", Shards: 128}))
	}
	if want("frac") {
		merge(c.RunPool(vf.PoolSpec{Worker: "frac", Shards: 32}))
	}
	if want("fracparse") {
		merge(c.RunPool(vf.PoolSpec{Worker: "fracparse", Shards: 128}))
	}
	if want("fraczone") {
		merge(c.RunPool(vf.PoolSpec{Worker: "fraczone", Shards: 48}))
	}
	if want("formats") {
		merge(c.RunPool(vf.PoolSpec{Worker: "formats", Shards: 64}))
	}
	if want("dhms") {
		merge(c.RunPool(vf.PoolSpec{Worker: "dhms", Shards: 32}))
	}
	if want("datediff") {
		merge(c.RunPool(vf.PoolSpec{Worker: "datediff", Shards: 64}))
	}
	if want("zone") {
		merge(c.RunPool(vf.PoolSpec{Worker: "zone", Shards: 96, Args: zoneArgs{TransitionsFile: trFile}}))
	}
	if want("bind") {
		merge(c.RunPool(vf.PoolSpec{Worker: "bind", Shards: 16, Args: zoneArgs{TransitionsFile: trFile}}))
	}

	c.DistinctNontrivial = c.Evaluations
	// per-symbol hit counts
	hits := map[string]int64{}
	for k, v := range c.Counters {
		if strings.HasPrefix(k, "limit:") || strings.HasPrefix(k, "parsefrac") || strings.HasPrefix(k, "fn:") || strings.HasPrefix(k, "code:") || strings.HasPrefix(k, "zone:") || strings.HasPrefix(k, "verbflag:") || strings.HasPrefix(k, "tzmech:") || strings.HasPrefix(k, "unit:") {
			hits[k] = v
		}
	}
	c.Extra["hits"] = hits
	for _, s := range []string{"outcomes", "formats-roundtrip", "zones", "transition-kinds"} {
		if m := sets[s]; m != nil {
			var l []string
			for k := range m {
				l = append(l, k)
			}
			sort.Strings(l)
			if len(l) > 80 {
				c.Extra["distinct_"+s+"_count"] = len(l)
				l = l[:80]
			}
			c.Extra["distinct_"+s] = l
		}
	}
	if only == "" {
		// vacuity guard: every function of the time class that the property names must have been exercised
		for _, fn := range []string{"sec2gmt", "sec2gmt/2", "sec2gmtdate", "nsec2gmt", "nsec2gmt/2", "nsec2gmtdate", "strftime", "strfntime", "strptime", "strpntime", "gmt2sec", "gmt2nsec",
			"sec2localtime/1", "sec2localtime/2", "sec2localtime/3", "nsec2localtime/1", "nsec2localtime/3", "sec2localdate/1", "sec2localdate/2", "nsec2localdate/1", "nsec2localdate/2",
			"strftime_local/2", "strftime_local/3", "strfntime_local/2", "strfntime_local/3", "strptime_local/2", "strptime_local/3", "strpntime_local/2", "strpntime_local/3",
			"localtime2sec/1", "localtime2sec/2", "localtime2nsec/1", "localtime2nsec/2", "gmt2localtime/1", "gmt2localtime/2", "localtime2gmt/1", "localtime2gmt/2",
			"sec2dhms", "fsec2dhms", "sec2hms", "fsec2hms", "dhms2sec", "dhms2fsec", "hms2sec", "hms2fsec", "datediff", "verb:sec2gmt", "verb:sec2gmtdate"} {
			if c.Counters["fn:"+fn] == 0 {
				c.Broken("vacuity: function %s was never exercised", fn)
			}
		}
		for _, lc := range limitCentres() {
			if c.Counters["limit:"+lc.name] == 0 {
				c.Broken("vacuity: limit centre %s was never exercised with fractional texts", lc.name)
			}
		}
		for _, f := range parseFracs {
			if c.Counters["parsefrac:."+f.digits] == 0 {
				c.Broken("vacuity: fraction text .%s was never parsed", f.digits)
			}
		}
		if c.Counters["year-sweep-years"] != 9999 {
			c.Broken("vacuity: the every-year sweep of fractional texts covered %d years, expected 9999", c.Counters["year-sweep-years"])
		}
		for _, z := range zoneList {
			if c.Counters["zone:"+z] == 0 {
				c.Broken("vacuity: zone %s was never exercised", z)
			}
		}
	}
	_ = math.Abs
}

// scanTransitions runs tzref.py transitions for every zone in parallel and
// merges the JSON objects into one file.
func scanTransitions() (string, error) {
	type res struct {
		zone string
		out  []byte
		err  error
	}
	var wg sync.WaitGroup
	results := make([]res, len(zoneList))
	for i, z := range zoneList {
		wg.Add(1)
		go func(i int, z string) {
			defer wg.Done()
			cmd := exec.Command("python3", pyScript(), "transitions", fmt.Sprint(zoneLo), fmt.Sprint(zoneHi), z)
			out, err := cmd.Output()
			results[i] = res{z, out, err}
		}(i, z)
	}
	wg.Wait()
	var parts []string
	for _, r := range results {
		if r.err != nil {
			return "", fmt.Errorf("%s: %v", r.zone, r.err)
		}
		s := strings.TrimSpace(string(r.out))
		if len(s) < 2 || s[0] != '{' {
			return "", fmt.Errorf("%s: unexpected output %q", r.zone, s)
		}
		parts = append(parts, s[1:len(s)-1])
	}
	dir := "/dev/shm"
	if _, err := os.Stat(dir); err != nil {
		dir = os.TempDir()
	}
	f, err := os.CreateTemp(dir, "verif-c16-transitions-")
	if err != nil {
		return "", err
	}
	defer f.Close()
	if _, err := f.WriteString("{" + strings.Join(parts, ",") + "}\n"); err != nil {
		return "", err
	}
	return f.Name(), nil
}
