// Package c16: check for property C16 (see /verif/DESIGN.md §3 C16).
package c16
