package c16

// Parse direction with a NON-ZERO FRACTIONAL SECOND in the text, at every
// representation limit of the anchored code (added after a second-round miss:
// the year guard of bifs.timeToEpochSeconds widened from 1678..2261 to
// 1677..2262, so that t.UnixNano() overflowed for fractional texts in
// 1677-01-01..1677-09-21 and 2262-04-11..2262-12-31).
//
// New dimension: fraction digit string (10 strings, 1..9 digits) x instant,
// where the instants are
//   (a) every second of a window around each "limit centre": the epoch, the
//       int64-nanosecond limits, the starts of the years 1677 1678 2261 2262
//       2263 (and 0100, 1000), +-2^31 s, +-2^32 s, +-2^53 ns, the start of year
//       0001 and the end of year 9999;
//   (b) three instants (Jan 1 00:00:00, Jul 2 12:00:00, Dec 31 23:59:59) of
//       EVERY year 0001..9999, so that a year-based guard placed anywhere is
//       crossed;
// for every parse function that yields float seconds (gmt2sec, strptime with
// "%S" + literal, with "%S.%f", with "%z"; strptime_local /2 /3 and
// localtime2sec /1 /2 in 10 zones) and, where the nanosecond count fits int64,
// the integer-nanosecond flavours.
//
// Oracle (independent of the code): the exact rational  t + digits/10^k  with t
// from the integer civil calendar (civil.go) for GMT, from Python zoneinfo for
// wall-clock texts in a zone; a float result must lie within 2 ulp of it
// (two correctly rounded float64 operations), an integer-nanosecond result must
// equal it exactly. Plus the property's law on the real code on both sides:
// strptime(strftime(x, "...%nS..."), "...%S...") == x for x = t + dyadic fraction.

import (
	"bytes"
	"fmt"
	"math"
	"math/big"
	"os"
	"strconv"

	"github.com/johnkerl/miller/v6/pkg/bifs"
	"github.com/johnkerl/miller/v6/pkg/mlrval"

	"verif/harness/vf"
)

type limitCentre struct {
	name string
	t    int64
}

func limitCentres() []limitCentre {
	ys := func(y int64) int64 { return daysFromCivil(y, 1, 1) * 86400 }
	return []limitCentre{
		{"epoch", 0},
		{"int64-ns-min", minNsT},
		{"int64-ns-max", maxNsT},
		{"year-1677-start", ys(1677)},
		{"year-1678-start", ys(1678)},
		{"year-2261-start", ys(2261)},
		{"year-2262-start", ys(2262)},
		{"year-2263-start", ys(2263)},
		{"2^31", 1 << 31},
		{"-2^31", -(1 << 31)},
		{"2^32", 1 << 32},
		{"-2^32", -(1 << 32)},
		{"2^53ns", 9007199},
		{"-2^53ns", -9007199},
		{"year-0001-start", minT},
		{"year-9999-end", maxT},
		{"year-0100-start", ys(100)},
		{"year-1000-start", ys(1000)},
	}
}

type fracText struct {
	digits string
	num    int64
	k      int
}

func mkFracs(ds ...string) []fracText {
	var out []fracText
	for _, d := range ds {
		n, _ := strconv.ParseInt(d, 10, 64)
		out = append(out, fracText{d, n, len(d)})
	}
	return out
}

// 1..9 digits; zero, halves, the documented ".345", the smallest and largest micro- and nanosecond fractions
var parseFracs = mkFracs("0", "5", "25", "1", "345", "999999", "000001", "123456789", "999999999", "000000001")
var zoneFracs = mkFracs("5", "25", "999999", "123456789")

// exact: t + num/10^k.
func (f fracText) exact(t int64) *big.Rat {
	r := new(big.Rat).SetFrac(big.NewInt(f.num), pow10(f.k))
	return r.Add(r, new(big.Rat).SetInt64(t))
}

// exactNs: the nanosecond count, ok=false if it does not fit int64.
func (f fracText) exactNs(t int64) (int64, bool) {
	v := new(big.Int).Mul(big.NewInt(t), big.NewInt(1000000000))
	v.Add(v, new(big.Int).Mul(big.NewInt(f.num), pow10(9-f.k)))
	if !v.IsInt64() {
		return 0, false
	}
	return v.Int64(), true
}

// floatNear: m is a number within 2 ulp of the exact rational E.
func floatNear(m *M, E *big.Rat) bool {
	if !isNum(m) {
		return false
	}
	v, ok := m.GetNumericToFloatValue()
	if !ok || math.IsNaN(v) || math.IsInf(v, 0) {
		return false
	}
	want, _ := E.Float64()
	a := math.Abs(want)
	u := math.Nextafter(a, math.Inf(1)) - a
	d := new(big.Rat).Sub(new(big.Rat).SetFloat64(v), E)
	d.Abs(d)
	return d.Cmp(new(big.Rat).SetFloat64(2*u)) <= 0
}

func ratStr(E *big.Rat) string { return E.FloatString(9) }

const (
	fracInFmt = "%Y-%m-%d %H:%M:%S.%f"
	offFmt    = "%Y-%m-%d %H:%M:%S %z"
)

// fracParseGMT: every GMT parse form x every fraction text at the whole second t.
func (g *gmtChecker) fracParseGMT(t int64) {
	c := gmtCivil(t)
	base := c.iso()[:19] // YYYY-mm-ddTHH:MM:SS
	loc := c.local()
	cOff := civilOf(t, 19800)
	for _, f := range parseFracs {
		cls := era(t) + ",fractional text"
		if f.num == 0 {
			cls = era(t) + ",zero fraction text"
		}
		g.note("parsefrac:." + f.digits)
		E := f.exact(t)
		es := ratStr(E)
		okFloat := func(r *M) bool {
			if f.num == 0 {
				return numEq(r, t)
			}
			return floatNear(r, E)
		}
		isoText := base + "." + f.digits + "Z"
		g.hit("fn:gmt2sec")
		if r := bifs.BIF_gmt2sec(ms(isoText)); !okFloat(r) {
			g.bad("gmt2sec", "", cls, "gmt2sec("+q(isoText)+")", show(r), es)
		}
		g.hit("fn:strptime")
		if r := bifs.BIF_strptime(ms(isoText), ms(isoFmt)); !okFloat(r) {
			g.bad("strptime", isoFmt, cls, "strptime("+q(isoText)+","+q(isoFmt)+")", show(r), es)
		}
		if cOff.Y >= 1 && cOff.Y <= 9999 {
			text := cOff.local() + "." + f.digits + " +0530"
			g.hit("fn:strptime")
			if r := bifs.BIF_strptime(ms(text), ms(offFmt)); !okFloat(r) {
				g.bad("strptime", offFmt, cls, "strptime("+q(text)+","+q(offFmt)+")", show(r), es)
			}
		}
		if f.k <= 6 {
			text := loc + "." + f.digits
			g.hit("fn:strptime")
			g.note("code:strptime-%f")
			if r := bifs.BIF_strptime(ms(text), ms(fracInFmt)); !okFloat(r) {
				g.bad("strptime", fracInFmt, cls, "strptime("+q(text)+","+q(fracInFmt)+")", show(r), es)
			}
		}
		// integer-nanosecond flavours where the count fits int64
		if ns, ok := f.exactNs(t); ok {
			nss := strconv.FormatInt(ns, 10)
			g.hit("fn:gmt2nsec")
			if r := bifs.BIF_gmt2nsec(ms(isoText)); !intEq(r, ns) {
				g.bad("gmt2nsec", "", cls, "gmt2nsec("+q(isoText)+")", show(r), nss)
			}
			g.hit("fn:strpntime")
			if r := bifs.BIF_strpntime(ms(isoText), ms(isoFmt)); !intEq(r, ns) {
				g.bad("strpntime", isoFmt, cls, "strpntime("+q(isoText)+","+q(isoFmt)+")", show(r), nss)
			}
			if f.k <= 6 {
				text := loc + "." + f.digits
				g.hit("fn:strpntime")
				if r := bifs.BIF_strpntime(ms(text), ms(fracInFmt)); !intEq(r, ns) {
					g.bad("strpntime", fracInFmt, cls, "strpntime("+q(text)+","+q(fracInFmt)+")", show(r), nss)
				}
			}
		} else {
			g.note("domain:ns-unrepresentable")
		}
	}
	// the property's law with a fractional instant: strptime(strftime(x, f), f') == x, x = t + dyadic fraction (exact in float64 and in 3/6/9 decimals)
	if t >= maxT {
		return
	}
	for _, fr := range []struct {
		f  float64
		ns int64
	}{{0.5, 500000000}, {0.25, 250000000}, {0.75, 750000000}} {
		x := float64(t) + fr.f
		xs := fstr(x)
		cc := c
		cc.ns = fr.ns
		cls := era(t) + ",fractional"
		E := new(big.Rat).SetFloat64(x)
		for _, n := range []int{3, 6, 9} {
			ff := fmt.Sprintf("%%Y-%%m-%%dT%%H:%%M:%%%dSZ", n)
			g.hit("fn:strftime")
			g.note(fmt.Sprintf("code:%%%dS", n))
			s := bifs.BIF_strftime(mf(x), ms(ff))
			if s.String() != cc.isoN(n) {
				g.bad("strftime", fmt.Sprintf("%%%dS", n), cls, "strftime("+xs+","+q(ff)+")", show(s), q(cc.isoN(n)))
				continue
			}
			g.hit("fn:strptime")
			if r := bifs.BIF_strptime(s, ms(isoFmt)); !floatNear(r, E) {
				g.bad("strptime", fmt.Sprintf("of strftime %%%dS", n), cls, "strptime(strftime("+xs+","+q(ff)+")="+q(s.String())+","+q(isoFmt)+")", show(r), xs)
			}
		}
	}
}

// yearInstants: the three instants of year y used by the every-year sweep.
func yearInstants(y int64) [3]int64 {
	return [3]int64{daysFromCivil(y, 1, 1) * 86400, daysFromCivil(y, 7, 2)*86400 + 43200, daysFromCivil(y, 12, 31)*86400 + 86399}
}

func fracParseHalf(quick bool) int64 {
	if quick {
		return 300
	}
	return 1800
}

func fracParseWorker(w *vf.Worker) {
	g := newGmtChecker(w)
	defer g.flush()
	var idx uint64
	W := fracParseHalf(w.Quick())
	run := func(label string, f func()) {
		w.Label(func() string { return label })
		p, stack := vf.Try(f)
		if p != nil {
			report(w, "panic(fracparse,"+label+")", fmt.Sprintf("panic in a time parse function, %s: %v\n%s", label, p, stack), nil)
		}
	}
	for _, lc := range limitCentres() {
		lo, hi := lc.t-W, lc.t+W
		if lo < minT {
			lo = minT
		}
		if hi > maxT {
			hi = maxT
		}
		for a := lo; a <= hi; a += 60 {
			idx++
			if !w.Mine(idx) {
				continue
			}
			w.Begin(idx)
			b := a + 59
			if b > hi {
				b = hi
			}
			g.note("limit:" + lc.name)
			run(fmt.Sprintf("fractional texts at limit %s seconds %d..%d", lc.name, a, b), func() {
				for t := a; t <= b; t++ {
					g.fracParseGMT(t)
				}
			})
		}
	}
	for y0 := int64(1); y0 <= 9999; y0 += 50 {
		idx++
		if !w.Mine(idx) {
			continue
		}
		w.Begin(idx)
		run(fmt.Sprintf("fractional texts in every year %d..%d", y0, y0+49), func() {
			for y := y0; y < y0+50 && y <= 9999; y++ {
				for _, t := range yearInstants(y) {
					g.fracParseGMT(t)
				}
				g.note("year-sweep-years")
			}
		})
	}
	if w.Shard == 0 {
		var names []string
		for _, lc := range limitCentres() {
			names = append(names, fmt.Sprintf("%s=%d", lc.name, lc.t))
		}
		var ds []string
		for _, f := range parseFracs {
			ds = append(ds, "."+f.digits)
		}
		w.Sample(map[string]any{"worker": "fracparse", "limit_centres": names, "window_halfwidth_s": W, "fraction_texts": ds, "year_sweep": "years 1..9999 x {Jan 1 00:00:00, Jul 2 12:00:00, Dec 31 23:59:59}",
			"example": "gmt2sec(\"2262-12-31T23:59:59.5Z\") vs 9246182399.5"})
	}
}

// ---------------------------------------------------------------- the same in a zone

type fzBlock struct {
	zone  string
	label string
	walls []int64 // wall-clock seconds (civil fields read as if UTC)
}

func fracZoneBlocks(quick bool) []fzBlock {
	var out []fzBlock
	w := int64(60)
	yLo, yHi := int64(1), int64(9999)
	if quick {
		w = 10
		yLo, yHi = 1401, 2600
	}
	okWall := func(L int64) bool { return L >= minT+2*86400 && L <= maxT-2*86400 } // the Python reference cannot leave 0001..9999
	for _, z := range zoneList {
		for _, lc := range limitCentres() {
			b := fzBlock{zone: z, label: "limit " + lc.name}
			for L := lc.t - w; L <= lc.t+w; L++ {
				if okWall(L) {
					b.walls = append(b.walls, L)
				}
			}
			if len(b.walls) > 0 {
				out = append(out, b)
			}
		}
		for y0 := yLo; y0 <= yHi; y0 += 200 {
			b := fzBlock{zone: z, label: fmt.Sprintf("every year %d..%d", y0, y0+199)}
			for y := y0; y < y0+200 && y <= yHi; y++ {
				for _, L := range yearInstants(y) {
					if okWall(L) {
						b.walls = append(b.walls, L)
					}
				}
			}
			out = append(out, b)
		}
	}
	return out
}

func fracZoneWorker(w *vf.Worker) {
	k := newKit(w)
	defer k.flush()
	blocks := fracZoneBlocks(w.Quick())
	var mine []int
	for i := range blocks {
		if w.Mine(uint64(i)) {
			mine = append(mine, i)
		}
	}
	if len(mine) == 0 {
		return
	}
	var req bytes.Buffer
	for _, i := range mine {
		b := blocks[i]
		for _, L := range b.walls {
			c := civilOf(L, 0)
			fmt.Fprintf(&req, "P %s %d %d %d %d %d %d\n", b.zone, c.Y, c.M, c.D, c.h, c.mi, c.s)
		}
	}
	ans, err := pyBatch(req.Bytes())
	if err != nil {
		w.Broken("reference subprocess failed: %v", err)
		return
	}
	pos := 0
	for _, i := range mine {
		b := blocks[i]
		w.Begin(uint64(i))
		w.Label(func() string { return "fractional wall-clock texts in zone " + b.zone + ", " + b.label })
		if err := setProcessTZ(b.zone); err != nil {
			w.Broken("cannot select zone %s: %v", b.zone, err)
			return
		}
		k.note("zone:" + b.zone)
		broken := ""
		p, stack := vf.Try(func() {
			for _, L := range b.walls {
				if pos >= len(ans) {
					broken = "reference answers exhausted"
					return
				}
				line := ans[pos]
				pos++
				var t0, v0, t1, v1 int64
				if n, _ := fmt.Sscanf(line, "%d %d %d %d", &t0, &v0, &t1, &v1); n != 4 {
					broken = fmt.Sprintf("bad P answer %q for %s wall %d", line, b.zone, L)
					return
				}
				var valid []int64
				if v0 == 1 {
					valid = append(valid, t0)
				}
				if v1 == 1 && (v0 != 1 || t1 != t0) {
					valid = append(valid, t1)
				}
				fracParseZone(k, b.zone, L, valid)
			}
		})
		if broken != "" {
			w.Broken("%s", broken)
			return
		}
		if p != nil {
			report(w, fmt.Sprintf("panic(fraczone,%s,%s)", b.zone, b.label), fmt.Sprintf("panic in a *_local parse function in zone %s, %s: %v\n%s", b.zone, b.label, p, stack), nil)
			w.Inexhaustive("fraczone shard stopped after a panic at " + b.zone + " " + b.label)
			return
		}
	}
	os.Unsetenv("TZ")
	if w.Shard == 0 {
		var ds []string
		for _, f := range zoneFracs {
			ds = append(ds, "."+f.digits)
		}
		w.Sample(map[string]any{"worker": "fraczone", "blocks": len(blocks), "zones": zoneList, "fraction_texts": ds})
	}
}

// fracParseZone: wall-clock text with a fraction in zone (process TZ = zone). valid: the instants of the whole-second wall time.
func fracParseZone(k *kit, zone string, L int64, valid []int64) {
	wc := civilOf(L, 0)
	loc := wc.local()
	base := wc.iso()[:19]
	zq := q(zone)
	var t int64
	if len(valid) > 0 {
		t = valid[0]
	} else {
		t = L
	}
	for _, f := range zoneFracs {
		cls := zone + "," + era(t) + ",fractional text"
		k.note("parsefrac-zone:." + f.digits)
		var exps []*big.Rat
		expS := "no such local time (gap)"
		for i, v := range valid {
			exps = append(exps, f.exact(v))
			if i == 0 {
				expS = ratStr(exps[0])
			} else {
				expS += " or " + ratStr(exps[i])
			}
		}
		// must: documented form, a number near one of the valid instants (gap: a number or an error)
		// may: form the documentation does not determine (an error is accepted, a number must be right)
		check := func(fn, arg, call string, r *M, may bool) {
			if len(valid) == 0 {
				k.note("unconstrained:gap-wall-time")
				if !isNum(r) && !r.IsError() {
					k.bad(fn, arg, cls+",in gap", call, show(r), "a number or an error")
				}
				return
			}
			if may && r.IsError() {
				k.note("unconstrained:fraction-after-final-%S")
				return
			}
			for _, E := range exps {
				if floatNear(r, E) {
					return
				}
			}
			k.bad(fn, arg, cls, call, show(r), expS)
		}
		checkNs := func(fn, arg, call string, r *M) {
			if len(valid) == 0 {
				return
			}
			any := false
			for _, v := range valid {
				ns, ok := f.exactNs(v)
				if !ok {
					k.note("domain:ns-unrepresentable")
					return
				}
				any = any || intEq(r, ns)
			}
			if !any {
				k.bad(fn, arg, cls, call, show(r), "("+expS+") * 10^9")
			}
		}
		// the documented example form: strptime_local("2015-08-28T13:33:21.345Z","%Y-%m-%dT%H:%M:%SZ")
		isoText := base + "." + f.digits + "Z"
		k.hit("fn:strptime_local/2")
		check("strptime_local", "TZ,"+isoFmt, "strptime_local("+q(isoText)+","+q(isoFmt)+") with TZ="+zone, bifs.BIF_strptime_local_binary(ms(isoText), ms(isoFmt)), false)
		k.hit("fn:strptime_local/3")
		check("strptime_local", "zone arg,"+isoFmt, "strptime_local("+q(isoText)+","+q(isoFmt)+","+zq+")", bifs.BIF_strptime_local_ternary(ms(isoText), ms(isoFmt), ms(zone)), false)
		k.hit("fn:strpntime_local/3")
		checkNs("strpntime_local", "zone arg,"+isoFmt, "strpntime_local("+q(isoText)+","+q(isoFmt)+","+zq+")", bifs.BIF_strpntime_local_ternary(ms(isoText), ms(isoFmt), ms(zone)))
		text := loc + "." + f.digits
		if f.k <= 6 {
			k.hit("fn:strptime_local/2")
			check("strptime_local", "TZ,"+fracInFmt, "strptime_local("+q(text)+","+q(fracInFmt)+") with TZ="+zone, bifs.BIF_strptime_local_binary(ms(text), ms(fracInFmt)), false)
			k.hit("fn:strptime_local/3")
			check("strptime_local", "zone arg,"+fracInFmt, "strptime_local("+q(text)+","+q(fracInFmt)+","+zq+")", bifs.BIF_strptime_local_ternary(ms(text), ms(fracInFmt), ms(zone)), false)
			k.hit("fn:strpntime_local/2")
			checkNs("strpntime_local", "TZ,"+fracInFmt, "strpntime_local("+q(text)+","+q(fracInFmt)+") with TZ="+zone, bifs.BIF_strpntime_local_binary(ms(text), ms(fracInFmt)))
		}
		// localtime2sec: "integer seconds" in the help; a fractional text may be refused, a number must be the instant
		k.hit("fn:localtime2sec/1")
		check("localtime2sec", "TZ", "localtime2sec("+q(text)+") with TZ="+zone, bifs.BIF_localtime2sec_unary(ms(text)), true)
		k.hit("fn:localtime2sec/2")
		check("localtime2sec", "zone arg", "localtime2sec("+q(text)+","+zq+")", bifs.BIF_localtime2sec_binary(ms(text), ms(zone)), true)
		// the GMT parser is not affected by TZ
		k.hit("fn:gmt2sec")
		if r := bifs.BIF_gmt2sec(ms(isoText)); !floatNear(r, f.exact(L)) {
			k.bad("gmt2sec", "under TZ", cls, "gmt2sec("+q(isoText)+") with TZ="+zone, show(r), ratStr(f.exact(L)))
		}
	}
}

var _ = mlrval.FromInt
