package c16

// Zone part: every second of a window around every tz transition 1900..2037
// of the 10 zones, both directions (instant -> wall text, wall text ->
// instant). Reference: Python zoneinfo (harness/pyref/tzref.py), one batch
// subprocess per worker shard.

import (
	"bytes"
	"encoding/json"
	"fmt"
	"os"
	"strconv"
	"strings"

	"github.com/johnkerl/miller/v6/pkg/bifs"
	"github.com/johnkerl/miller/v6/pkg/lib"

	"verif/harness/vf"
)

type transition struct {
	T            int64
	OffB, OffA   int64
	NameB, NameA string
	DstB, DstA   int64
}

type zoneTable struct {
	InitialOff  int64
	InitialName string
	Trans       []transition
}

func loadTransitions(path string) (map[string]*zoneTable, error) {
	b, err := os.ReadFile(path)
	if err != nil {
		return nil, err
	}
	var raw map[string]struct {
		Initial     []any   `json:"initial"`
		Transitions [][]any `json:"transitions"`
	}
	if err := json.Unmarshal(b, &raw); err != nil {
		return nil, err
	}
	out := map[string]*zoneTable{}
	num := func(v any) int64 { f, _ := v.(float64); return int64(f) }
	str := func(v any) string { s, _ := v.(string); return s }
	for z, r := range raw {
		zt := &zoneTable{}
		if len(r.Initial) >= 2 {
			zt.InitialOff, zt.InitialName = num(r.Initial[0]), str(r.Initial[1])
		}
		for _, t := range r.Transitions {
			if len(t) < 7 {
				return nil, fmt.Errorf("bad transition row for %s", z)
			}
			zt.Trans = append(zt.Trans, transition{T: num(t[0]), OffB: num(t[1]), OffA: num(t[2]), NameB: str(t[3]), NameA: str(t[4]), DstB: num(t[5]), DstA: num(t[6])})
		}
		out[z] = zt
	}
	return out, nil
}

// offsetAt: table lookup (used by the bind worker to pick interesting instants only).
func (zt *zoneTable) offsetAt(t int64) int64 {
	off := zt.InitialOff
	for _, tr := range zt.Trans {
		if tr.T <= t {
			off = tr.OffA
		} else {
			break
		}
	}
	return off
}

type zoneCase struct {
	zone       string
	name       string
	T          int64 // window centre (first second of the new rule for a transition)
	offB, offA int64
	kind       string
}

func zoneCases(tables map[string]*zoneTable) []zoneCase {
	var out []zoneCase
	for _, z := range zoneList {
		zt := tables[z]
		if zt == nil {
			continue
		}
		for _, tr := range zt.Trans {
			kind := "same-offset(name only)"
			switch {
			case tr.OffA > tr.OffB:
				kind = "gap"
			case tr.OffA < tr.OffB:
				kind = "overlap"
			}
			d := tr.OffA - tr.OffB
			if d < 0 {
				d = -d
			}
			kind += fmt.Sprintf(" %ds", d)
			out = append(out, zoneCase{zone: z, name: fmt.Sprintf("transition %d", tr.T), T: tr.T, offB: tr.OffB, offA: tr.OffA, kind: kind})
		}
		// windows away from transitions
		for _, t := range []int64{0, daysFromCivil(2000, 1, 1) * 86400, zoneLo + 86400, zoneHi - 86400, 1 << 31 >> 1, daysFromCivil(2024, 2, 29) * 86400} {
			o := zt.offsetAt(t)
			out = append(out, zoneCase{zone: z, name: fmt.Sprintf("plain window %d", t), T: t, offB: o, offA: o, kind: "no transition"})
		}
	}
	return out
}

func (zc zoneCase) ranges(W int64) (fLo, fHi, pLo, pHi int64) {
	fLo, fHi = zc.T-W, zc.T+W
	lo, hi := zc.offB, zc.offA
	if lo > hi {
		lo, hi = hi, lo
	}
	pLo, pHi = zc.T+lo-W, zc.T+hi+W
	return
}

const zfFull = "%Y-%m-%d %H:%M:%S %z %Z|%j|%a|%s|%I%p|%e|%U"
const zfNoZ = "%Y-%m-%d %H:%M:%S %Z|%j|%a|%s|%I%p|%e|%U"
const zfRT = "%Y-%m-%d %H:%M:%S %z"
const localFmt = "%Y-%m-%d %H:%M:%S"

func setProcessTZ(zone string) error {
	os.Setenv("TZ", zone)
	return lib.SetTZFromEnv()
}

func zoneWorker(w *vf.Worker) {
	k := newKit(w)
	defer k.flush()
	var za zoneArgs
	json.Unmarshal(w.Args, &za)
	tables, err := loadTransitions(za.TransitionsFile)
	if err != nil {
		w.Broken("cannot read the transitions table %s: %v", za.TransitionsFile, err)
		return
	}
	cases := zoneCases(tables)
	// every second within +-core of the transition (forward) and of both wall-clock edges (backward); every stride-th second out to +-W
	W, core, stride, exStride := int64(7200), int64(900), int64(7), int64(7)
	if w.Quick() {
		core, stride, exStride = 60, 127, 17
	}
	dense := func(x int64, edges ...int64) bool {
		for _, e := range edges {
			if x-e >= -core && x-e < core {
				return true
			}
		}
		return floorMod(x, stride) == 0
	}
	var mine []int
	for i := range cases {
		if w.Mine(uint64(i)) {
			mine = append(mine, i)
		}
	}
	if len(mine) == 0 {
		return
	}
	// phase 1: requests
	var req bytes.Buffer
	for _, i := range mine {
		zc := cases[i]
		fLo, fHi, pLo, pHi := zc.ranges(W)
		for t := fLo; t < fHi; t++ {
			if !dense(t, zc.T) {
				continue
			}
			req.WriteString("F ")
			req.WriteString(zc.zone)
			req.WriteByte(' ')
			req.WriteString(strconv.FormatInt(t, 10))
			req.WriteByte('\n')
		}
		for L := pLo; L < pHi; L++ {
			if !dense(L, zc.T+zc.offB, zc.T+zc.offA) {
				continue
			}
			c := civilOf(L, 0)
			fmt.Fprintf(&req, "P %s %d %d %d %d %d %d\n", zc.zone, c.Y, c.M, c.D, c.h, c.mi, c.s)
		}
	}
	// reference self-check: the Go civil algorithm against Python datetime (UTC) on a spread of instants
	var gref []int64
	if w.Shard == 0 {
		for t := int64(minT); t <= maxT; t += 86400*73 + 12345 {
			gref = append(gref, t)
		}
		for _, t := range gref {
			fmt.Fprintf(&req, "G %d\n", t)
		}
	}
	// phase 2: one batch subprocess
	ans, err := pyBatch(req.Bytes())
	if err != nil {
		w.Broken("reference subprocess failed: %v", err)
		return
	}
	req.Reset()
	pos := 0
	next := func() string {
		if pos >= len(ans) {
			return ""
		}
		s := ans[pos]
		pos++
		return s
	}
	// phase 3: the real code, compared line by line
	for _, i := range mine {
		zc := cases[i]
		w.Begin(uint64(i))
		w.Label(func() string { return fmt.Sprintf("zone %s %s (%s)", zc.zone, zc.name, zc.kind) })
		if err := setProcessTZ(zc.zone); err != nil {
			w.Broken("cannot select zone %s: %v", zc.zone, err)
			return
		}
		k.note("zone:" + zc.zone)
		w.AddSet("zones", zc.zone)
		w.AddSet("transition-kinds", zc.zone+": "+zc.kind)
		fLo, fHi, pLo, pHi := zc.ranges(W)
		broken := ""
		p, stack := vf.Try(func() {
			for t := fLo; t < fHi; t++ {
				if !dense(t, zc.T) {
					continue
				}
				line := next()
				c, ok := parseF(line, t)
				if !ok {
					broken = fmt.Sprintf("bad F answer %q for %s %d", line, zc.zone, t)
					return
				}
				if mine := civilOf(t, c.off); mine.Y != c.Y || mine.M != c.M || mine.D != c.D || mine.h != c.h || mine.mi != c.mi || mine.s != c.s || mine.wday != c.wday || mine.yday != c.yday {
					broken = fmt.Sprintf("reference disagreement: Go civil %+v vs Python %+v", mine, c)
					return
				}
				near := t-zc.T >= -3 && t-zc.T <= 3
				zoneForward(k, w, zc, t, c, near || floorMod(t, exStride) == 0)
			}
			for L := pLo; L < pHi; L++ {
				if !dense(L, zc.T+zc.offB, zc.T+zc.offA) {
					continue
				}
				line := next()
				var t0, v0, t1, v1 int64
				if n, _ := fmt.Sscanf(line, "%d %d %d %d", &t0, &v0, &t1, &v1); n != 4 {
					broken = fmt.Sprintf("bad P answer %q for %s wall %d", line, zc.zone, L)
					return
				}
				var valid []int64
				if v0 == 1 {
					valid = append(valid, t0)
				}
				if v1 == 1 && (v0 != 1 || t1 != t0) {
					valid = append(valid, t1)
				}
				near := false
				for _, e := range []int64{zc.T + zc.offB, zc.T + zc.offA} {
					if L-e >= -3 && L-e <= 3 {
						near = true
					}
				}
				zoneBackward(k, w, zc, L, valid, near || floorMod(L, exStride) == 0)
			}
		})
		if broken != "" {
			w.Broken("%s", broken)
			return
		}
		if p != nil {
			report(w, fmt.Sprintf("panic(zone,%s,%s)", zc.zone, zc.name), fmt.Sprintf("panic in a *_local time function in zone %s %s: %v\n%s", zc.zone, zc.name, p, stack), nil)
			// answers are now out of step: stop this shard here
			w.Inexhaustive("zone shard stopped after a panic at " + zc.zone + " " + zc.name)
			return
		}
	}
	for _, t := range gref {
		line := next()
		var y, m, d, h, mi_, s, wd, yd int64
		if n, _ := fmt.Sscanf(line, "%d %d %d %d %d %d %d %d", &y, &m, &d, &h, &mi_, &s, &wd, &yd); n != 8 {
			w.Broken("bad G answer %q", line)
			return
		}
		c := civilOf(t, 0)
		if c.Y != y || c.M != m || c.D != d || c.h != h || c.mi != mi_ || c.s != s || c.wday != wd || c.yday != yd {
			w.Broken("reference disagreement at %d: Go civil %+v vs Python %s", t, c, line)
			return
		}
		k.note("reference-selfcheck-instants")
	}
	os.Unsetenv("TZ")
	if w.Shard == 0 {
		w.Sample(map[string]any{"worker": "zone", "cases": len(cases), "window_halfwidth_s": W, "every_second_within_s": core, "stride_outside_s": stride, "example": cases[len(cases)/3]})
	}
}

func parseF(line string, t int64) (civil, bool) {
	p := strings.SplitN(line, " ", 12)
	if len(p) != 12 {
		return civil{}, false
	}
	v := make([]int64, 11)
	for i := 0; i < 11; i++ {
		x, err := strconv.ParseInt(p[i], 10, 64)
		if err != nil {
			return civil{}, false
		}
		v[i] = x
	}
	c := civil{Y: v[0], M: v[1], D: v[2], h: v[3], mi: v[4], s: v[5], wday: v[6], yday: v[7], off: v[8], epoch: t, zname: p[11]}
	return c, true
}

// zoneForward: instant -> wall text. The process TZ is zc.zone.
func zoneForward(k *kit, w *vf.Worker, zc zoneCase, t int64, c civil, withExplicit bool) {
	ts := strconv.FormatInt(t, 10)
	cls := zc.zone + "," + zc.kind
	zq := q(zc.zone)
	local, date := c.local(), c.date()
	g := gmtCivil(t)
	giso := g.iso()

	k.hit("fn:sec2localtime/1")
	if r := bifs.BIF_sec2localtime_unary(mi(t)); r.String() != local {
		k.bad("sec2localtime", "TZ", cls, "sec2localtime("+ts+") with TZ="+zc.zone, show(r), q(local))
	}
	k.hit("fn:sec2localdate/1")
	if r := bifs.BIF_sec2localdate_unary(mi(t)); r.String() != date {
		k.bad("sec2localdate", "TZ", cls, "sec2localdate("+ts+") with TZ="+zc.zone, show(r), q(date))
	}
	zf := zfFull
	if c.off%60 != 0 {
		zf = zfNoZ
		k.note("unconstrained:%z-sub-minute-offset")
	}
	exp, _ := c.expand(tokenize(zf))
	k.hit("fn:strftime_local/2")
	if r := bifs.BIF_strftime_local_binary(mi(t), ms(zf)); r.String() != exp {
		k.bad("strftime_local", "TZ", cls, "strftime_local("+ts+","+q(zf)+") with TZ="+zc.zone, show(r), q(exp))
	}
	k.hit("fn:gmt2localtime/1")
	if r := bifs.BIF_gmt2localtime_unary(ms(giso)); r.String() != local {
		k.bad("gmt2localtime", "TZ", cls, "gmt2localtime("+q(giso)+") with TZ="+zc.zone, show(r), q(local))
	}
	// GMT functions are not affected by TZ
	k.hit("fn:sec2gmt")
	if r := bifs.BIF_sec2gmt_unary(mi(t)); r.String() != giso {
		k.bad("sec2gmt", "under TZ", cls, "sec2gmt("+ts+") with TZ="+zc.zone, show(r), q(giso))
	}
	k.hit("fn:strftime")
	if r := bifs.BIF_strftime(mi(t), ms(isoFmt)); r.String() != giso {
		k.bad("strftime", "under TZ", cls, "strftime("+ts+","+q(isoFmt)+") with TZ="+zc.zone, show(r), q(giso))
	}
	// law: text with a numeric offset determines the instant
	if c.off%60 == 0 {
		k.hit("fn:strftime_local/2")
		s := bifs.BIF_strftime_local_binary(mi(t), ms(zfRT))
		k.hit("fn:strptime_local/2")
		if r := bifs.BIF_strptime_local_binary(s, ms(zfRT)); !numEq(r, t) {
			k.bad("strptime_local", "%z round trip", cls, "strptime_local("+q(s.String())+","+q(zfRT)+") with TZ="+zc.zone, show(r), ts)
		}
	}
	if !withExplicit {
		return
	}
	// explicit zone argument forms, nanosecond forms, decimals
	k.hit("fn:sec2localtime/3")
	if r := bifs.BIF_sec2localtime_ternary(mi(t), mi(0), ms(zc.zone)); r.String() != local {
		k.bad("sec2localtime", "zone arg", cls, "sec2localtime("+ts+",0,"+zq+")", show(r), q(local))
	}
	c5 := c
	c5.ns = 500000000
	k.hit("fn:sec2localtime/3")
	if r := bifs.BIF_sec2localtime_ternary(mf(float64(t)+0.5), mi(3), ms(zc.zone)); r.String() != c5.localN(3) {
		k.bad("sec2localtime", "zone arg,3 decimals", cls, "sec2localtime("+ts+".5,3,"+zq+")", show(r), q(c5.localN(3)))
	}
	k.hit("fn:sec2localtime/2")
	if r := bifs.BIF_sec2localtime_binary(mf(float64(t)+0.5), mi(1)); r.String() != c5.localN(1) {
		k.bad("sec2localtime", "TZ,1 decimal", cls, "sec2localtime("+ts+".5,1) with TZ="+zc.zone, show(r), q(c5.localN(1)))
	}
	k.hit("fn:sec2localdate/2")
	if r := bifs.BIF_sec2localdate_binary(mi(t), ms(zc.zone)); r.String() != date {
		k.bad("sec2localdate", "zone arg", cls, "sec2localdate("+ts+","+zq+")", show(r), q(date))
	}
	k.hit("fn:strftime_local/3")
	if r := bifs.BIF_strftime_local_ternary(mi(t), ms(zf), ms(zc.zone)); r.String() != exp {
		k.bad("strftime_local", "zone arg", cls, "strftime_local("+ts+","+q(zf)+","+zq+")", show(r), q(exp))
	}
	k.hit("fn:gmt2localtime/2")
	if r := bifs.BIF_gmt2localtime_binary(ms(giso), ms(zc.zone)); r.String() != local {
		k.bad("gmt2localtime", "zone arg", cls, "gmt2localtime("+q(giso)+","+zq+")", show(r), q(local))
	}
	if nsRep(t) {
		ns := t*1000000000 + 123456789
		nss := strconv.FormatInt(ns, 10)
		cn := c
		cn.ns = 123456789
		k.hit("fn:nsec2localtime/1")
		if r := bifs.BIF_nsec2localtime_unary(mi(ns)); r.String() != local {
			k.bad("nsec2localtime", "TZ", cls, "nsec2localtime("+nss+") with TZ="+zc.zone, show(r), q(local))
		}
		k.hit("fn:nsec2localtime/2")
		if r := bifs.BIF_nsec2localtime_binary(mi(ns), mi(6)); r.String() != cn.localN(6) {
			k.bad("nsec2localtime", "TZ,6 decimals", cls, "nsec2localtime("+nss+",6) with TZ="+zc.zone, show(r), q(cn.localN(6)))
		}
		k.hit("fn:nsec2localtime/3")
		if r := bifs.BIF_nsec2localtime_ternary(mi(ns), mi(9), ms(zc.zone)); r.String() != cn.localN(9) {
			k.bad("nsec2localtime", "zone arg,9 decimals", cls, "nsec2localtime("+nss+",9,"+zq+")", show(r), q(cn.localN(9)))
		}
		k.hit("fn:nsec2localdate/1")
		if r := bifs.BIF_nsec2localdate_unary(mi(ns)); r.String() != date {
			k.bad("nsec2localdate", "TZ", cls, "nsec2localdate("+nss+") with TZ="+zc.zone, show(r), q(date))
		}
		k.hit("fn:nsec2localdate/2")
		if r := bifs.BIF_nsec2localdate_binary(mi(ns), ms(zc.zone)); r.String() != date {
			k.bad("nsec2localdate", "zone arg", cls, "nsec2localdate("+nss+","+zq+")", show(r), q(date))
		}
		nf := "%Y-%m-%d %H:%M:%6S %Z"
		nexp, _ := cn.expand(tokenize(nf))
		k.hit("fn:strfntime_local/2")
		if r := bifs.BIF_strfntime_local_binary(mi(ns), ms(nf)); r.String() != nexp {
			k.bad("strfntime_local", "TZ", cls, "strfntime_local("+nss+","+q(nf)+") with TZ="+zc.zone, show(r), q(nexp))
		}
		k.hit("fn:strfntime_local/3")
		if r := bifs.BIF_strfntime_local_ternary(mi(ns), ms(nf), ms(zc.zone)); r.String() != nexp {
			k.bad("strfntime_local", "zone arg", cls, "strfntime_local("+nss+","+q(nf)+","+zq+")", show(r), q(nexp))
		}
	}
}

// zoneBackward: wall text -> instant. valid: the instants the zone maps to this wall time (0 in a gap, 2 in an overlap).
func zoneBackward(k *kit, w *vf.Worker, zc zoneCase, L int64, valid []int64, withExplicit bool) {
	wc := civilOf(L, 0)
	text := wc.local()
	cls := zc.zone + "," + zc.kind
	zq := q(zc.zone)
	expS := "no such local time (gap)"
	switch len(valid) {
	case 1:
		expS = strconv.FormatInt(valid[0], 10)
	case 2:
		expS = fmt.Sprintf("%d or %d (overlap)", valid[0], valid[1])
	}
	inValid := func(r *M) bool {
		for _, v := range valid {
			if numEq(r, v) {
				return true
			}
		}
		return false
	}
	check := func(fn, arg, call string, r *M, wantInt bool, scale int64) {
		if len(valid) == 0 {
			k.note("unconstrained:gap-wall-time")
			if !isNum(r) && !r.IsError() {
				k.bad(fn, arg, cls+",in gap", call, show(r), "a number or an error")
			}
			return
		}
		ok := false
		for _, v := range valid {
			if wantInt {
				ok = ok || intEq(r, v*scale)
			} else {
				ok = ok || numEq(r, v*scale)
			}
		}
		if !ok {
			k.bad(fn, arg, cls, call, show(r), expS)
			return
		}
		if len(valid) == 2 {
			if numEq(r, valid[0]*scale) {
				w.AddSet("outcomes", "overlap resolved to the earlier instant")
			} else {
				w.AddSet("outcomes", "overlap resolved to the later instant")
			}
		}
	}
	_ = inValid
	k.hit("fn:localtime2sec/1")
	check("localtime2sec", "TZ", "localtime2sec("+q(text)+") with TZ="+zc.zone, bifs.BIF_localtime2sec_unary(ms(text)), false, 1)
	k.hit("fn:strptime_local/2")
	check("strptime_local", "TZ", "strptime_local("+q(text)+","+q(localFmt)+") with TZ="+zc.zone, bifs.BIF_strptime_local_binary(ms(text), ms(localFmt)), false, 1)
	k.hit("fn:localtime2gmt/1")
	r := bifs.BIF_localtime2gmt_unary(ms(text))
	if len(valid) == 0 {
		k.note("unconstrained:gap-wall-time")
	} else {
		ok := false
		var exps []string
		for _, v := range valid {
			e := gmtCivil(v).iso()
			exps = append(exps, e)
			ok = ok || r.String() == e
		}
		if !ok {
			k.bad("localtime2gmt", "TZ", cls, "localtime2gmt("+q(text)+") with TZ="+zc.zone, show(r), strings.Join(exps, " or "))
		}
	}
	// the GMT parser is not affected by TZ
	k.hit("fn:strptime")
	if r := bifs.BIF_strptime(ms(text), ms(localFmt)); !numEq(r, L) {
		k.bad("strptime", "under TZ", cls, "strptime("+q(text)+","+q(localFmt)+") with TZ="+zc.zone, show(r), strconv.FormatInt(L, 10))
	}
	if !withExplicit {
		return
	}
	k.hit("fn:localtime2sec/2")
	check("localtime2sec", "zone arg", "localtime2sec("+q(text)+","+zq+")", bifs.BIF_localtime2sec_binary(ms(text), ms(zc.zone)), false, 1)
	k.hit("fn:strptime_local/3")
	check("strptime_local", "zone arg", "strptime_local("+q(text)+","+q(localFmt)+","+zq+")", bifs.BIF_strptime_local_ternary(ms(text), ms(localFmt), ms(zc.zone)), false, 1)
	k.hit("fn:localtime2gmt/2")
	r = bifs.BIF_localtime2gmt_binary(ms(text), ms(zc.zone))
	if len(valid) > 0 {
		ok := false
		var exps []string
		for _, v := range valid {
			e := gmtCivil(v).iso()
			exps = append(exps, e)
			ok = ok || r.String() == e
		}
		if !ok {
			k.bad("localtime2gmt", "zone arg", cls, "localtime2gmt("+q(text)+","+zq+")", show(r), strings.Join(exps, " or "))
		}
	}
	k.hit("fn:localtime2nsec/1")
	check("localtime2nsec", "TZ", "localtime2nsec("+q(text)+") with TZ="+zc.zone, bifs.BIF_localtime2nsec_unary(ms(text)), true, 1000000000)
	k.hit("fn:localtime2nsec/2")
	check("localtime2nsec", "zone arg", "localtime2nsec("+q(text)+","+zq+")", bifs.BIF_localtime2nsec_binary(ms(text), ms(zc.zone)), true, 1000000000)
	k.hit("fn:strpntime_local/2")
	check("strpntime_local", "TZ", "strpntime_local("+q(text)+","+q(localFmt)+") with TZ="+zc.zone, bifs.BIF_strpntime_local_binary(ms(text), ms(localFmt)), true, 1000000000)
	k.hit("fn:strpntime_local/3")
	check("strpntime_local", "zone arg", "strpntime_local("+q(text)+","+q(localFmt)+","+zq+")", bifs.BIF_strpntime_local_ternary(ms(text), ms(localFmt), ms(zc.zone)), true, 1000000000)
}
