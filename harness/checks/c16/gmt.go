package c16

// GMT part: every day of the year range, every second of windows around
// calendar boundaries, fractional seconds x decimals. Reference: civil.go.

import (
	"fmt"
	"math"
	"math/big"
	"regexp"
	"strconv"
	"strings"

	"github.com/johnkerl/miller/v6/pkg/bifs"

	"verif/harness/vf"
)

const isoFmt = "%Y-%m-%dT%H:%M:%SZ"

// every documented strftime code, '|'-separated so that one call covers all
var allCodes = []string{"Y", "m", "d", "H", "M", "S", "j", "a", "A", "b", "B", "h", "e", "y", "C", "u", "w", "U", "W", "V", "s", "I", "p", "k", "l",
	"D", "F", "T", "R", "r", "c", "v", "x", "X", "Z", "z", "n", "t", "%", "N", "O", "1S", "2S", "3S", "4S", "5S", "6S", "7S", "8S", "9S"}

func allCodesFormat() string {
	var p []string
	for _, c := range allCodes {
		p = append(p, "%"+c)
	}
	return strings.Join(p, "|")
}

// round-trip formats: each determines the instant (given GMT). lo/hi: year domain.
type rtFormat struct {
	f      string
	lo, hi int64
}

var rtFormats = []rtFormat{
	{"%Y-%m-%dT%H:%M:%SZ", 1, 9999},
	{"%Y-%m-%d %H:%M:%S", 1, 9999},
	{"%FT%TZ", 1, 9999},
	{"%d/%m/%Y %H:%M:%S", 1, 9999},
	{"%Y%m%d%H%M%S", 1, 9999},
	{"%Y %j %H %M %S", 1, 9999},
	{"%b %d %Y %H:%M:%S", 1, 9999},
	{"%B %e, %Y %T", 1, 9999},
	{"%a %b %e %H:%M:%S %Y", 1, 9999},
	{"%c", 1, 9999},
	{"%A, %d %B %Y %I:%M:%S %p", 1, 9999},
	{"%Y-%m-%d %H:%M:%S %z", 1, 9999},
	{"%Y-%m-%d %H:%M:%S %Z", 1, 9999},
	{"%m/%d/%y %H:%M:%S", 1969, 2068},
	{"%D %T", 1969, 2068},
	{"%Y-%m-%d %r", 1, 9999},
	{"%F %R:%S", 1, 9999},
}

type dayBlock struct {
	lo, hi int64   // inclusive range, or
	days   []int64 // explicit list
}

func dayBlocks(quick bool) []dayBlock {
	var out []dayBlock
	addRange := func(lo, hi int64) {
		for a := lo; a <= hi; a += 512 {
			b := a + 511
			if b > hi {
				b = hi
			}
			out = append(out, dayBlock{lo: a, hi: b})
		}
	}
	if !quick {
		addRange(daysFromCivil(1, 1, 1), daysFromCivil(9999, 12, 31))
		return out
	}
	addRange(daysFromCivil(1850, 1, 1), daysFromCivil(2150, 12, 31))
	// every year: the days around the year end and around the end of February
	var list []int64
	for y := int64(1); y <= 9999; y++ {
		if y >= 1850 && y <= 2150 {
			continue
		}
		list = append(list, daysFromCivil(y, 1, 1), daysFromCivil(y, 2, 28), daysFromCivil(y, 2, 28)+1, daysFromCivil(y, 3, 1), daysFromCivil(y, 12, 31))
	}
	for i := 0; i < len(list); i += 500 {
		j := i + 500
		if j > len(list) {
			j = len(list)
		}
		out = append(out, dayBlock{days: list[i:j]})
	}
	return out
}

func (b dayBlock) each(f func(day int64)) {
	if b.days != nil {
		for _, d := range b.days {
			f(d)
		}
		return
	}
	for d := b.lo; d <= b.hi; d++ {
		f(d)
	}
}

type gmtChecker struct {
	*kit
	allFmt    string
	allTokens []string
}

func newGmtChecker(w *vf.Worker) *gmtChecker {
	g := &gmtChecker{kit: newKit(w)}
	g.allFmt = allCodesFormat()
	g.allTokens = tokenize(g.allFmt)
	return g
}

func gmtCivil(t int64) civil {
	c := civilOf(t, 0)
	c.zname = "UTC"
	return c
}

// basic: the cheap battery for an integer instant.
func (g *gmtChecker) basic(t int64) {
	c := gmtCivil(t)
	iso := c.iso()
	cls := era(t)
	ts := strconv.FormatInt(t, 10)

	g.hit("fn:sec2gmt")
	if r := bifs.BIF_sec2gmt_unary(mi(t)); r.String() != iso {
		g.bad("sec2gmt", "int", cls, "sec2gmt("+ts+")", show(r), q(iso))
	}
	g.hit("fn:gmt2sec")
	if r := bifs.BIF_gmt2sec(ms(iso)); !numEq(r, t) {
		g.bad("gmt2sec", "", cls, "gmt2sec("+q(iso)+")", show(r), ts)
	}
	g.hit("fn:strftime")
	if r := bifs.BIF_strftime(mi(t), ms(isoFmt)); r.String() != iso {
		g.bad("strftime", isoFmt, cls, "strftime("+ts+","+q(isoFmt)+")", show(r), q(iso))
	}
	if nsRep(t) {
		ns := t * 1000000000
		nss := strconv.FormatInt(ns, 10)
		g.hit("fn:nsec2gmt")
		if r := bifs.BIF_nsec2gmt_unary(mi(ns)); r.String() != iso {
			g.bad("nsec2gmt", "int", cls, "nsec2gmt("+nss+")", show(r), q(iso))
		}
		g.hit("fn:gmt2nsec")
		if r := bifs.BIF_gmt2nsec(ms(iso)); !intEq(r, ns) {
			g.bad("gmt2nsec", "", cls, "gmt2nsec("+q(iso)+")", show(r), nss)
		}
		g.hit("fn:strfntime")
		if r := bifs.BIF_strfntime(mi(ns), ms(isoFmt)); r.String() != iso {
			g.bad("strfntime", isoFmt, cls, "strfntime("+nss+","+q(isoFmt)+")", show(r), q(iso))
		}
	} else {
		g.note("domain:ns-unrepresentable")
	}
}

// full: the per-day battery (all codes, dates, round trips).
func (g *gmtChecker) full(t int64) {
	c := gmtCivil(t)
	cls := era(t)
	ts := strconv.FormatInt(t, 10)

	g.hit("fn:sec2gmtdate")
	if r := bifs.BIF_sec2gmtdate(mi(t)); r.String() != c.date() {
		g.bad("sec2gmtdate", "int", cls, "sec2gmtdate("+ts+")", show(r), q(c.date()))
	}
	// every documented code in one call
	g.hit("fn:strftime")
	r := bifs.BIF_strftime(mi(t), ms(g.allFmt))
	g.compareCodes("strftime", ts, cls, c, r.String(), r.IsError())
	if nsRep(t) {
		ns := t * 1000000000
		nss := strconv.FormatInt(ns, 10)
		g.hit("fn:nsec2gmtdate")
		if r := bifs.BIF_nsec2gmtdate(mi(ns)); r.String() != c.date() {
			g.bad("nsec2gmtdate", "int", cls, "nsec2gmtdate("+nss+")", show(r), q(c.date()))
		}
		g.hit("fn:strfntime")
		r := bifs.BIF_strfntime(mi(ns), ms(g.allFmt))
		g.compareCodes("strfntime", nss, cls, c, r.String(), r.IsError())
	}
	// round-trip law on the real code on both sides
	for i := range rtFormats {
		f := &rtFormats[i]
		if c.Y < f.lo || c.Y > f.hi {
			g.note("domain:roundtrip-format-outside-year-range")
			continue
		}
		g.hit("fn:strftime")
		s := bifs.BIF_strftime(mi(t), ms(f.f))
		if s.IsError() {
			g.bad("strftime", f.f, cls, "strftime("+ts+","+q(f.f)+")", "(error)", "a timestamp")
			continue
		}
		g.hit("fn:strptime")
		back := bifs.BIF_strptime(s, ms(f.f))
		if !numEq(back, t) {
			g.bad("strptime", f.f, cls, "strptime("+q(s.String())+","+q(f.f)+")", show(back), ts+" (text produced by strftime("+ts+", same format))")
		}
		if nsRep(t) && i < 6 {
			ns := t * 1000000000
			g.hit("fn:strpntime")
			back := bifs.BIF_strpntime(s, ms(f.f))
			if !intEq(back, ns) {
				g.bad("strpntime", f.f, cls, "strpntime("+q(s.String())+","+q(f.f)+")", show(back), strconv.FormatInt(ns, 10))
			}
		}
	}
}

// compareCodes splits the '|'-joined output and compares token by token.
func (g *gmtChecker) compareCodes(fn, arg, cls string, c civil, got string, isErr bool) {
	if isErr {
		g.bad(fn, "all-codes", cls, fn+"("+arg+","+q(g.allFmt)+")", "(error)", "a formatted timestamp")
		return
	}
	parts := strings.Split(got, "|")
	if len(parts) != len(allCodes) {
		g.bad(fn, "all-codes", cls, fn+"("+arg+","+q(g.allFmt)+")", q(got), fmt.Sprintf("%d '|'-separated fields", len(allCodes)))
		return
	}
	for i, code := range allCodes {
		exp, ok := c.render(code)
		if !ok {
			g.note("unconstrained:code-" + code)
			continue
		}
		g.note("code:%" + code)
		if parts[i] != exp {
			if code == "Y" && c.Y < 1000 && parts[i] == strconv.FormatInt(c.Y, 10) {
				continue // unpadded year: "year with century as a decimal number" allows it
			}
			g.bad(fn, "%"+code, cls, fn+"("+arg+","+q("%"+code)+")", q(parts[i]), q(exp))
		}
	}
}

func daysWorker(w *vf.Worker) {
	g := newGmtChecker(w)
	defer g.flush()
	blocks := dayBlocks(w.Quick())
	for bi, b := range blocks {
		idx := uint64(bi)
		if !w.Mine(idx) {
			continue
		}
		w.Begin(idx)
		b := b
		w.Label(func() string { return fmt.Sprintf("day block %d: %+v", bi, b) })
		p, stack := vf.Try(func() {
			b.each(func(day int64) {
				// the three instants of the day get the cheap battery; the full battery (all codes, round trips) rotates over them
				for i, sod := range []int64{0, 43200, 86399} {
					t := day*86400 + sod
					g.basic(t)
					if int64(i) == floorMod(day, 3) {
						g.full(t)
					}
				}
			})
		})
		if p != nil {
			report(w, fmt.Sprintf("panic(days,block %d)", bi), fmt.Sprintf("panic in a time function on day block %+v: %v\n%s", b, p, stack), nil)
		}
	}
	if w.Shard == 0 {
		w.Sample(map[string]any{"worker": "days", "blocks": len(blocks), "example": "sec2gmt(951782400) vs " + gmtCivil(951782400).iso(), "all_codes_format": g.allFmt})
	}
}

// ---------------------------------------------------------------- per-second windows

type window struct {
	name   string
	lo, hi int64
}

func secondWindows(quick bool) []window {
	var ws []window
	half := int64(36 * 3600)
	if quick {
		half = 12 * 3600
	}
	add := func(name string, centre int64) {
		lo, hi := centre-half, centre+half
		if lo < minT {
			lo = minT
		}
		if hi > maxT {
			hi = maxT
		}
		ws = append(ws, window{name, lo, hi})
	}
	add("epoch", 0)
	add("2^31", 1<<31)
	add("-2^31", -(1 << 31))
	add("1900-03-01", daysFromCivil(1900, 3, 1)*86400)
	add("2000-03-01", daysFromCivil(2000, 3, 1)*86400)
	add("2100-03-01", daysFromCivil(2100, 3, 1)*86400)
	add("2000-01-01", daysFromCivil(2000, 1, 1)*86400)
	add("year-1-start", minT)
	add("year-9999-end", maxT)
	add("int64-ns-min", minNsT)
	add("int64-ns-max", maxNsT)
	add("1582-10-15", daysFromCivil(1582, 10, 15)*86400)
	add("1972-07-01(leap-second date)", daysFromCivil(1972, 7, 1)*86400)
	add("2^32", 1<<32)
	if !quick {
		half = 12 * 3600
		for y := int64(100); y <= 9900; y += 100 {
			if y == 1900 || y == 2000 || y == 2100 {
				continue
			}
			add(fmt.Sprintf("%04d-03-01", y), daysFromCivil(y, 3, 1)*86400)
		}
		for _, y := range []int64{1, 2, 4, 5, 1000, 1601, 1970, 1999, 2001, 2024, 2038, 3000, 9999} {
			add(fmt.Sprintf("%04d-12-31", y), daysFromCivil(y, 12, 31)*86400+86400)
		}
	}
	return ws
}

func secondsWorker(w *vf.Worker) {
	g := newGmtChecker(w)
	defer g.flush()
	var idx uint64
	localFmt := "%Y-%m-%d %H:%M:%S"
	for _, win := range secondWindows(w.Quick()) {
		for lo := win.lo; lo <= win.hi; lo += 3600 {
			idx++
			if !w.Mine(idx) {
				continue
			}
			w.Begin(idx)
			hi := lo + 3599
			if hi > win.hi {
				hi = win.hi
			}
			win, lo := win, lo
			w.Label(func() string { return fmt.Sprintf("window %s seconds %d..%d", win.name, lo, hi) })
			p, stack := vf.Try(func() {
				for t := lo; t <= hi; t++ {
					g.basic(t)
					c := gmtCivil(t)
					ts := strconv.FormatInt(t, 10)
					g.hit("fn:sec2gmtdate")
					if r := bifs.BIF_sec2gmtdate(mi(t)); r.String() != c.date() {
						g.bad("sec2gmtdate", "int", era(t), "sec2gmtdate("+ts+")", show(r), q(c.date()))
					}
					g.hit("fn:strptime")
					if r := bifs.BIF_strptime(ms(c.local()), ms(localFmt)); !numEq(r, t) {
						g.bad("strptime", localFmt, era(t), "strptime("+q(c.local())+","+q(localFmt)+")", show(r), ts)
					}
					if t%61 == 0 {
						g.full(t)
					}
				}
			})
			if p != nil {
				report(w, fmt.Sprintf("panic(seconds,%s)", win.name), fmt.Sprintf("panic in a time function in window %s %d..%d: %v\n%s", win.name, lo, hi, p, stack), nil)
			}
		}
	}
	if w.Shard == 0 {
		w.Sample(map[string]any{"worker": "seconds", "windows": len(secondWindows(w.Quick())), "window_halfwidth_s": map[bool]int{true: 12 * 3600, false: 36 * 3600}[w.Quick()]})
	}
}

// ---------------------------------------------------------------- fractional seconds

var isoNRe = regexp.MustCompile(`^(\d{4,})-(\d\d)-(\d\d)T(\d\d):(\d\d):(\d\d)(?:\.(\d+))?Z$`)

// parseIsoN parses strict ISO text with exactly n decimals into (whole
// seconds, fraction scaled by 10^n). ok=false if malformed or a field is out
// of range (e.g. seconds 60).
func parseIsoN(s string, n int) (sec int64, frac int64, ok bool) {
	m := isoNRe.FindStringSubmatch(s)
	if m == nil {
		return 0, 0, false
	}
	if (n == 0) != (m[7] == "") || (n > 0 && len(m[7]) != n) {
		return 0, 0, false
	}
	v := make([]int64, 7)
	for i := 1; i <= 6; i++ {
		v[i], _ = strconv.ParseInt(m[i], 10, 64)
	}
	y, mo, d, h, mi_, se := v[1], v[2], v[3], v[4], v[5], v[6]
	if mo < 1 || mo > 12 || d < 1 || d > daysInMonth(y, mo) || h > 23 || mi_ > 59 || se > 59 {
		return 0, 0, false
	}
	if n > 0 {
		frac, _ = strconv.ParseInt(m[7], 10, 64)
	}
	return daysFromCivil(y, mo, d)*86400 + h*3600 + mi_*60 + se, frac, true
}

// floatSlack: the exact value of x widened by one ulp (at least 2^-52).
func floatBounds(x float64) (lo, hi *big.Rat) {
	s := math.Nextafter(math.Abs(x), math.Inf(1)) - math.Abs(x)
	if s < 1.0/(1<<52) {
		s = 1.0 / (1 << 52)
	}
	X := new(big.Rat).SetFloat64(x)
	S := new(big.Rat).SetFloat64(s)
	return new(big.Rat).Sub(X, S), new(big.Rat).Add(X, S)
}

// acceptFloatText: text with n decimals is an acceptable rendering of float x.
func acceptFloatText(s string, x float64, n int) (bool, string) {
	sec, frac, ok := parseIsoN(s, n)
	if !ok {
		return false, "a well-formed timestamp with exactly " + strconv.Itoa(n) + " decimals and fields in range"
	}
	lo, hi := floatBounds(x)
	scaled := new(big.Int).Add(new(big.Int).Mul(big.NewInt(sec), pow10(n)), big.NewInt(frac))
	a := floorScaled(lo, n)
	b := roundScaled(hi, n)
	if scaled.Cmp(a) >= 0 && scaled.Cmp(b) <= 0 {
		return true, ""
	}
	X := new(big.Rat).SetFloat64(x)
	fl := floorScaled(X, n)
	return false, fmt.Sprintf("the instant %s truncated or rounded to %d decimals (scaled value %s; got %s)", X.FloatString(12), n, fl.String(), scaled.String())
}

var fracList = []float64{0, 0.25, 0.4, 0.5, 0.75, 0.999999, 0.9999995, 0.99999999999}
var nsFracList = []int64{0, 1, 9, 10, 999, 1000, 123456789, 499999999, 500000000, 987654321, 999999000, 999999999}

func fracCentres() []int64 {
	return []int64{0, 1 << 31, -(1 << 31), daysFromCivil(2000, 3, 1) * 86400, daysFromCivil(1900, 3, 1) * 86400, daysFromCivil(2015, 8, 28)*86400 + 48801,
		daysFromCivil(1969, 12, 31) * 86400, -86400 * 365, 1500000000, minNsT + 200, maxNsT - 200, daysFromCivil(1600, 1, 1) * 86400, daysFromCivil(9999, 12, 31)*86400 + 86399 - 130, minT + 130,
		// the windows below CROSS the int64-nanosecond limits and the year boundaries next to them
		minNsT, maxNsT, daysFromCivil(1677, 1, 1) * 86400, daysFromCivil(1678, 1, 1) * 86400, daysFromCivil(2262, 1, 1) * 86400, daysFromCivil(2263, 1, 1) * 86400}
}

func fracWorker(w *vf.Worker) {
	g := newGmtChecker(w)
	defer g.flush()
	var idx uint64
	span := int64(120)
	if w.Quick() {
		span = 70
	}
	for ci, centre := range fracCentres() {
		for k := -span; k <= span; k++ {
			idx++
			if !w.Mine(idx) {
				continue
			}
			w.Begin(idx)
			t := centre + k
			if t < minT || t >= maxT {
				continue
			}
			ci := ci
			w.Label(func() string { return fmt.Sprintf("fractional battery at centre #%d second %d", ci, t) })
			p, stack := vf.Try(func() {
				g.fracFloat(t)
				if t > minNsT && t < maxNsT {
					g.fracNs(t)
				}
			})
			if p != nil {
				report(w, fmt.Sprintf("panic(frac,%d)", t), fmt.Sprintf("panic in a time function at second %d with fractional parts: %v\n%s", t, p, stack), nil)
			}
		}
	}
	if w.Shard == 0 {
		w.Sample(map[string]any{"worker": "frac", "centres": fracCentres(), "float_fractions": fracList, "ns_fractions": nsFracList})
	}
}

func fstr(x float64) string { return strconv.FormatFloat(x, 'f', -1, 64) }

func (g *gmtChecker) fracFloat(t int64) {
	for _, f := range fracList {
		x := float64(t) + f
		X := new(big.Rat).SetFloat64(x)
		fl := floorScaled(X, 0).Int64()
		cls := era(fl)
		if f != 0 {
			cls += ",fractional"
		}
		xs := fstr(x)
		for n := 0; n <= 9; n++ {
			var r *M
			var call string
			if n == 0 {
				g.hit("fn:sec2gmt")
				r = bifs.BIF_sec2gmt_unary(mf(x))
				call = "sec2gmt(" + xs + ")"
				// no decimals requested: the documented examples truncate (sec2gmt(1234567890.123456) = ...:30Z)
				exp := gmtCivil(fl).iso()
				lo, hi := floatBounds(x)
				alt := gmtCivil(floorScaled(hi, 0).Int64()).iso()
				alt2 := gmtCivil(floorScaled(lo, 0).Int64()).iso()
				if s := r.String(); s != exp && s != alt && s != alt2 {
					g.bad("sec2gmt", "float", cls, call, show(r), q(exp))
				}
			}
			g.hit("fn:sec2gmt/2")
			r = bifs.BIF_sec2gmt_binary(mf(x), mi(int64(n)))
			call = fmt.Sprintf("sec2gmt(%s,%d)", xs, n)
			if ok, why := acceptFloatText(r.String(), x, n); !ok {
				g.bad("sec2gmt", fmt.Sprintf("float,%d", n), cls, call, show(r), why)
			}
			if n >= 1 {
				ff := fmt.Sprintf("%%Y-%%m-%%dT%%H:%%M:%%%dSZ", n)
				g.hit("fn:strftime")
				g.note(fmt.Sprintf("code:%%%dS", n))
				r = bifs.BIF_strftime(mf(x), ms(ff))
				call = "strftime(" + xs + "," + q(ff) + ")"
				if ok, why := acceptFloatText(r.String(), x, n); !ok {
					g.bad("strftime", fmt.Sprintf("%%%dS", n), cls, call, show(r), why)
				}
			}
		}
		// date and %s: floor (or truncation toward zero: "integer part")
		tr := floorScaled(X, 0).Int64()
		if x < 0 && X.IsInt() == false {
			tr = fl + 1
		}
		g.hit("fn:sec2gmtdate")
		if r := bifs.BIF_sec2gmtdate(mf(x)); r.String() != gmtCivil(fl).date() && r.String() != gmtCivil(tr).date() {
			g.bad("sec2gmtdate", "float", cls, "sec2gmtdate("+xs+")", show(r), q(gmtCivil(fl).date()))
		}
		g.hit("fn:strftime")
		g.note("code:%s")
		if r := bifs.BIF_strftime(mf(x), ms("%s")); r.String() != strconv.FormatInt(fl, 10) && r.String() != strconv.FormatInt(tr, 10) {
			g.bad("strftime", "%s", cls, "strftime("+xs+",\"%s\")", show(r), strconv.FormatInt(fl, 10))
		}
		// integer-valued floats and ints agree
		if f == 0 {
			g.hit("fn:sec2gmt/2")
			for _, n := range []int64{1, 3, 6, 9} {
				c := gmtCivil(t)
				if r := bifs.BIF_sec2gmt_binary(mi(t), mi(n)); r.String() != c.isoN(int(n)) {
					g.bad("sec2gmt", fmt.Sprintf("int,%d", n), era(t), fmt.Sprintf("sec2gmt(%d,%d)", t, n), show(r), q(c.isoN(int(n))))
				}
			}
			// decimals outside 0..9: the help text says "n decimal places"; only sanity (a timestamp for the same second)
			for _, n := range []int64{-1, 10, 12} {
				r := bifs.BIF_sec2gmt_binary(mi(t), mi(n))
				g.note("unconstrained:sec2gmt-decimals-outside-0..9")
				if !strings.HasPrefix(r.String(), gmtCivil(t).iso()[:19]) {
					g.bad("sec2gmt", fmt.Sprintf("int,%d", n), era(t), fmt.Sprintf("sec2gmt(%d,%d)", t, n), show(r), "a timestamp starting with "+q(gmtCivil(t).iso()[:19]))
				}
			}
		}
	}
}

func (g *gmtChecker) fracNs(t int64) {
	const fracIn = "%Y-%m-%d %H:%M:%S.%f"
	for _, nf := range nsFracList {
		ns := t*1000000000 + nf
		c := gmtCivil(t)
		c.ns = nf
		cls := era(t)
		if nf != 0 {
			cls += ",fractional"
		}
		nss := strconv.FormatInt(ns, 10)
		g.hit("fn:nsec2gmt")
		if r := bifs.BIF_nsec2gmt_unary(mi(ns)); r.String() != c.iso() {
			g.bad("nsec2gmt", "int", cls, "nsec2gmt("+nss+")", show(r), q(c.iso()))
		}
		g.hit("fn:nsec2gmtdate")
		if r := bifs.BIF_nsec2gmtdate(mi(ns)); r.String() != c.date() {
			g.bad("nsec2gmtdate", "int", cls, "nsec2gmtdate("+nss+")", show(r), q(c.date()))
		}
		for n := 0; n <= 9; n++ {
			g.hit("fn:nsec2gmt/2")
			if r := bifs.BIF_nsec2gmt_binary(mi(ns), mi(int64(n))); r.String() != c.isoN(n) {
				g.bad("nsec2gmt", strconv.Itoa(n), cls, fmt.Sprintf("nsec2gmt(%s,%d)", nss, n), show(r), q(c.isoN(n)))
			}
			if n >= 1 {
				ff := fmt.Sprintf("%%Y-%%m-%%dT%%H:%%M:%%%dSZ", n)
				g.hit("fn:strfntime")
				g.note(fmt.Sprintf("code:%%%dS", n))
				if r := bifs.BIF_strfntime(mi(ns), ms(ff)); r.String() != c.isoN(n) {
					g.bad("strfntime", fmt.Sprintf("%%%dS", n), cls, "strfntime("+nss+","+q(ff)+")", show(r), q(c.isoN(n)))
				}
			}
		}
		g.hit("fn:strfntime")
		exp := fmt.Sprintf("%09d|%d|%d|%02d", nf, nf, t, c.s)
		if r := bifs.BIF_strfntime(mi(ns), ms("%N|%O|%s|%S")); r.String() != exp {
			g.bad("strfntime", "%N|%O|%s|%S", cls, "strfntime("+nss+",\"%N|%O|%s|%S\")", show(r), q(exp))
		}
		// documented fractional parse: "%S.%f" reads microseconds
		if nf%1000 == 0 {
			text := c.local() + "." + fracDigits(nf, 6)
			g.hit("fn:strpntime")
			g.note("code:strptime-%f")
			if r := bifs.BIF_strpntime(ms(text), ms(fracIn)); !intEq(r, ns) {
				g.bad("strpntime", fracIn, cls, "strpntime("+q(text)+","+q(fracIn)+")", show(r), nss)
			}
			g.hit("fn:strptime")
			r := bifs.BIF_strptime(ms(text), ms(fracIn))
			want, _ := new(big.Rat).SetFrac(big.NewInt(ns), big.NewInt(1000000000)).Float64()
			if v, ok := r.GetNumericToFloatValue(); !ok || math.Abs(v-want) > math.Abs(want)*2.3e-16+1e-12 {
				g.bad("strptime", fracIn, cls, "strptime("+q(text)+","+q(fracIn)+")", show(r), fstr(want))
			}
			// law: the text strfntime prints with %6S parses back
			g.hit("fn:strfntime")
			s := bifs.BIF_strfntime(mi(ns), ms("%Y-%m-%d %H:%M:%6S"))
			g.hit("fn:strpntime")
			if r := bifs.BIF_strpntime(s, ms(fracIn)); !intEq(r, ns) {
				g.bad("strpntime", "%6S->"+fracIn, cls, "strpntime(strfntime("+nss+",\"%Y-%m-%d %H:%M:%6S\")="+q(s.String())+","+q(fracIn)+")", show(r), nss)
			}
		}
	}
}
