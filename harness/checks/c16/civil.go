package c16

// Reference calendar: proleptic Gregorian civil-from-days / days-from-civil in
// pure integer arithmetic. Shares nothing with Go's time package (which Miller
// uses): no import of "time" in this file.

import (
	"fmt"
	"math/big"
	"strconv"
)

// floorDiv / floorMod for int64 with positive divisor.
func floorDiv(a, b int64) int64 {
	q := a / b
	if (a%b != 0) && ((a < 0) != (b < 0)) {
		q--
	}
	return q
}
func floorMod(a, b int64) int64 { return a - floorDiv(a, b)*b }

// daysFromCivil: days since 1970-01-01 of the proleptic Gregorian date y-m-d.
func daysFromCivil(y, m, d int64) int64 {
	if m <= 2 {
		y--
	}
	era := floorDiv(y, 400)
	yoe := y - era*400 // [0, 399]
	mp := m + 9
	if m > 2 {
		mp = m - 3
	}
	doy := (153*mp+2)/5 + d - 1        // [0, 365]
	doe := yoe*365 + yoe/4 - yoe/100 + doy // [0, 146096]
	return era*146097 + doe - 719468
}

// civilFromDays: inverse of daysFromCivil.
func civilFromDays(z int64) (y, m, d int64) {
	z += 719468
	era := floorDiv(z, 146097)
	doe := z - era*146097                                  // [0, 146096]
	yoe := (doe - doe/1460 + doe/36524 - doe/146096) / 365 // [0, 399]
	y = yoe + era*400
	doy := doe - (365*yoe + yoe/4 - yoe/100) // [0, 365]
	mp := (5*doy + 2) / 153                  // [0, 11]
	d = doy - (153*mp+2)/5 + 1
	if mp < 10 {
		m = mp + 3
	} else {
		m = mp - 9
	}
	if m <= 2 {
		y++
	}
	return
}

func isLeap(y int64) bool { return y%4 == 0 && (y%100 != 0 || y%400 == 0) }

func daysInMonth(y, m int64) int64 {
	switch m {
	case 2:
		if isLeap(y) {
			return 29
		}
		return 28
	case 4, 6, 9, 11:
		return 30
	}
	return 31
}

var (
	wdayAbbr  = []string{"Sun", "Mon", "Tue", "Wed", "Thu", "Fri", "Sat"}
	wdayFull  = []string{"Sunday", "Monday", "Tuesday", "Wednesday", "Thursday", "Friday", "Saturday"}
	monthAbbr = []string{"", "Jan", "Feb", "Mar", "Apr", "May", "Jun", "Jul", "Aug", "Sep", "Oct", "Nov", "Dec"}
	monthFull = []string{"", "January", "February", "March", "April", "May", "June", "July", "August", "September", "October", "November", "December"}
)

// civil is a broken-down wall-clock time (no zone arithmetic inside).
type civil struct {
	Y, M, D    int64
	h, mi, s   int64
	wday       int64 // 0 = Sunday
	yday       int64 // 1-based
	days       int64 // days since 1970-01-01 of the wall date
	ns         int64 // nanoseconds within the second, [0, 1e9)
	epoch      int64 // the instant (whole seconds, floor)
	off        int64 // UTC offset of the wall clock in seconds
	zname      string
	offUnknown bool
}

// civilOf breaks down wall-clock seconds (epoch + offset).
func civilOf(epoch, off int64) civil {
	w := epoch + off
	days := floorDiv(w, 86400)
	sod := w - days*86400
	y, m, d := civilFromDays(days)
	return civil{Y: y, M: m, D: d, h: sod / 3600, mi: sod % 3600 / 60, s: sod % 60,
		wday: floorMod(days+4, 7), yday: days - daysFromCivil(y, 1, 1) + 1, days: days, epoch: epoch, off: off}
}

func (c civil) iso() string {
	return fmt.Sprintf("%04d-%02d-%02dT%02d:%02d:%02dZ", c.Y, c.M, c.D, c.h, c.mi, c.s)
}
func (c civil) date() string { return fmt.Sprintf("%04d-%02d-%02d", c.Y, c.M, c.D) }
func (c civil) local() string {
	return fmt.Sprintf("%04d-%02d-%02d %02d:%02d:%02d", c.Y, c.M, c.D, c.h, c.mi, c.s)
}

// fracDigits: first n digits of the 9-digit nanosecond field (truncation).
func fracDigits(ns int64, n int) string {
	s := fmt.Sprintf("%09d", ns)
	return s[:n]
}

// isoN: ISO text with n decimals (n=0: none), truncating.
func (c civil) isoN(n int) string {
	if n <= 0 {
		return c.iso()
	}
	return fmt.Sprintf("%04d-%02d-%02dT%02d:%02d:%02d.%sZ", c.Y, c.M, c.D, c.h, c.mi, c.s, fracDigits(c.ns, n))
}
func (c civil) localN(n int) string {
	if n <= 0 {
		return c.local()
	}
	return c.local() + "." + fracDigits(c.ns, n)
}

// isoWeek: ISO 8601 week number.
func (c civil) isoWeek() int64 {
	// weekday Monday=1..Sunday=7
	wd := c.wday
	if wd == 0 {
		wd = 7
	}
	w := (c.yday - wd + 10) / 7
	if w < 1 {
		// last week of previous year
		py := c.Y - 1
		pdays := int64(365)
		if isLeap(py) {
			pdays = 366
		}
		return (c.yday + pdays - wd + 10) / 7
	}
	if w == 53 {
		ydays := int64(365)
		if isLeap(c.Y) {
			ydays = 366
		}
		// Dec 29-31 may belong to week 1 of next year
		if c.yday-wd+3 >= ydays { // Thursday of this week falls in next year
			return 1
		}
	}
	return w
}

func pad2(v int64) string { return fmt.Sprintf("%02d", v) }
func sp2(v int64) string  { return fmt.Sprintf("%2d", v) }

func (c civil) hour12() int64 {
	h := c.h % 12
	if h == 0 {
		h = 12
	}
	return h
}
func (c civil) ampm() string {
	if c.h < 12 {
		return "AM"
	}
	return "PM"
}

// zoff: +HHMM
func (c civil) zoff() string {
	o := c.off
	sign := "+"
	if o < 0 {
		sign = "-"
		o = -o
	}
	return fmt.Sprintf("%s%02d%02d", sign, o/3600, o%3600/60)
}

// year4: the documented 4-digit (ISO-8601) year for 1..9999.
func year4(y int64) string { return fmt.Sprintf("%04d", y) }

// render: expected strftime output of one %-code (the letter after '%', or
// "1S".."9S"). ok=false when the documentation does not determine the output.
func (c civil) render(code string) (string, bool) {
	switch code {
	case "A":
		return wdayFull[c.wday], true
	case "a":
		return wdayAbbr[c.wday], true
	case "B":
		return monthFull[c.M], true
	case "b", "h":
		return monthAbbr[c.M], true
	case "C":
		return pad2(floorDiv(c.Y, 100)), true
	case "c":
		// "national representation of time and date": C locale
		return fmt.Sprintf("%s %s %s %02d:%02d:%02d %s", wdayAbbr[c.wday], monthAbbr[c.M], sp2(c.D), c.h, c.mi, c.s, year4(c.Y)), true
	case "D", "x":
		return fmt.Sprintf("%02d/%02d/%02d", c.M, c.D, floorMod(c.Y, 100)), true
	case "d":
		return pad2(c.D), true
	case "e":
		return sp2(c.D), true
	case "F":
		return c.date(), true
	case "H":
		return pad2(c.h), true
	case "I":
		return pad2(c.hour12()), true
	case "j":
		return fmt.Sprintf("%03d", c.yday), true
	case "k":
		return sp2(c.h), true
	case "l":
		return sp2(c.hour12()), true
	case "M":
		return pad2(c.mi), true
	case "m":
		return pad2(c.M), true
	case "n":
		return "\n", true
	case "N":
		return fmt.Sprintf("%09d", c.ns), true
	case "O":
		return strconv.FormatInt(c.ns, 10), true
	case "p":
		return c.ampm(), true
	case "R":
		return fmt.Sprintf("%02d:%02d", c.h, c.mi), true
	case "r":
		return fmt.Sprintf("%02d:%02d:%02d %s", c.hour12(), c.mi, c.s, c.ampm()), true
	case "s":
		return strconv.FormatInt(c.epoch, 10), true
	case "S":
		return pad2(c.s), true
	case "T", "X":
		return fmt.Sprintf("%02d:%02d:%02d", c.h, c.mi, c.s), true
	case "t":
		return "\t", true
	case "U":
		return pad2((c.yday - 1 + 7 - c.wday) / 7), true
	case "u":
		if c.wday == 0 {
			return "7", true
		}
		return strconv.FormatInt(c.wday, 10), true
	case "V":
		return pad2(c.isoWeek()), true
	case "v":
		return fmt.Sprintf("%s-%s-%s", sp2(c.D), monthAbbr[c.M], year4(c.Y)), true
	case "W":
		return pad2((c.yday - 1 + 7 - floorMod(c.wday+6, 7)) / 7), true
	case "w":
		return strconv.FormatInt(c.wday, 10), true
	case "Y":
		return year4(c.Y), true
	case "y":
		return pad2(floorMod(c.Y, 100)), true
	case "Z":
		if c.zname == "" {
			return "", false
		}
		return c.zname, true
	case "z":
		if c.offUnknown || c.off%60 != 0 {
			return "", false // sub-minute offsets: the docs do not fix the text
		}
		return c.zoff(), true
	case "%":
		return "%", true
	}
	if len(code) == 2 && code[1] == 'S' && code[0] >= '1' && code[0] <= '9' {
		n := int(code[0] - '0')
		return pad2(c.s) + "." + fracDigits(c.ns, n), true
	}
	return "", false
}

// expand renders a whole format made of tokens (see fmtTokens). ok=false when
// any token is undetermined.
func (c civil) expand(tokens []string) (string, bool) {
	out := ""
	for _, t := range tokens {
		if len(t) >= 2 && t[0] == '%' {
			s, ok := c.render(t[1:])
			if !ok {
				return "", false
			}
			out += s
		} else {
			out += t
		}
	}
	return out, true
}

// tokenize splits a strftime format into %-tokens and literal runs, with the
// documented grammar: %<letter>, %<1-9>S, %%.
func tokenize(f string) []string {
	var out []string
	lit := ""
	for i := 0; i < len(f); i++ {
		if f[i] == '%' && i+1 < len(f) {
			if lit != "" {
				out = append(out, lit)
				lit = ""
			}
			if f[i+1] >= '1' && f[i+1] <= '9' && i+2 < len(f) && f[i+2] == 'S' {
				out = append(out, f[i:i+3])
				i += 2
			} else {
				out = append(out, f[i:i+2])
				i++
			}
			continue
		}
		lit += string(f[i])
	}
	if lit != "" {
		out = append(out, lit)
	}
	return out
}

// ---------------------------------------------------------------- exact float helpers

var bigTen = big.NewInt(10)

func pow10(n int) *big.Int { return new(big.Int).Exp(bigTen, big.NewInt(int64(n)), nil) }

// floorScaled: floor(x * 10^n) for an exact rational x.
func floorScaled(x *big.Rat, n int) *big.Int {
	v := new(big.Rat).Mul(x, new(big.Rat).SetInt(pow10(n)))
	q := new(big.Int).Div(v.Num(), v.Denom()) // Euclidean with positive denominator = floor
	return q
}

// roundScaled: floor(x*10^n + 1/2).
func roundScaled(x *big.Rat, n int) *big.Int {
	v := new(big.Rat).Mul(x, new(big.Rat).SetInt(pow10(n)))
	v.Add(v, big.NewRat(1, 2))
	return new(big.Int).Div(v.Num(), v.Denom())
}
