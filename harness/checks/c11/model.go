package c11

// Reference model for C11: records as ordered key/value lists, streams as
// lists of records, and the selecting verbs as pure list algebra written from
// the property statement and the verbs' usage texts. Nothing in this file
// calls Miller.

import (
	"sort"
	"strconv"
	"strings"
)

type field struct{ k, v string }

// rec is one record: an ordered list of fields. num marks values that are
// written as bare JSON numbers in the JSON passes (DKVP has no such notion).
type rec struct {
	f   []field
	num map[string]bool
}

func (r rec) get(k string) (string, bool) {
	for _, f := range r.f {
		if f.k == k {
			return f.v, true
		}
	}
	return "", false
}

func (r rec) keys() []string {
	out := make([]string, len(r.f))
	for i, f := range r.f {
		out[i] = f.k
	}
	return out
}

// dkvp formats the record as a DKVP line with "," and "=".
func (r rec) dkvp() string {
	var b strings.Builder
	for i, f := range r.f {
		if i > 0 {
			b.WriteByte(',')
		}
		b.WriteString(f.k)
		b.WriteByte('=')
		b.WriteString(f.v)
	}
	return b.String()
}

// nidx formats the values only, joined with ",": what `grep -a` is documented
// to match against.
func (r rec) nidx() string {
	var b strings.Builder
	for i, f := range r.f {
		if i > 0 {
			b.WriteByte(',')
		}
		b.WriteString(f.v)
	}
	return b.String()
}

// jsonl formats the record as one line of JSON.
func (r rec) jsonl() string {
	var b strings.Builder
	b.WriteByte('{')
	for i, f := range r.f {
		if i > 0 {
			b.WriteString(", ")
		}
		b.WriteString(strconv.Quote(f.k))
		b.WriteString(": ")
		if r.num[f.k] {
			b.WriteString(f.v)
		} else {
			b.WriteString(strconv.Quote(f.v))
		}
	}
	b.WriteByte('}')
	return b.String()
}

func (r rec) prepend(k, v string, isNum bool) rec {
	n := rec{f: append([]field{{k, v}}, r.f...), num: map[string]bool{}}
	for kk, vv := range r.num {
		n.num[kk] = vv
	}
	if isNum {
		n.num[k] = true
	}
	return n
}

// trivial: zero fields, or every value empty (skip-trivial-records usage text).
func (r rec) trivial() bool {
	for _, f := range r.f {
		if f.v != "" {
			return false
		}
	}
	return true
}

const sep = "\x1f" // never part of any alphabet symbol

// groupKey is the tuple of values at the group-by fields; ok=false when the
// record lacks one of them (it then belongs to no group).
func groupKey(r rec, G []string) (string, bool) {
	if len(G) == 0 {
		return "", true
	}
	parts := make([]string, len(G))
	for i, g := range G {
		v, ok := r.get(g)
		if !ok {
			return "", false
		}
		parts[i] = v
	}
	return strings.Join(parts, sep), true
}

type grouping struct {
	order []string         // group keys in first-appearance order
	lists map[string][]int // record indices per group, in stream order
	keyOf []string         // per record; "" + has=false when it belongs to no group
	has   []bool
	nHave int
}

func groupBy(st []rec, keyf func(rec) (string, bool)) grouping {
	g := grouping{lists: map[string][]int{}, keyOf: make([]string, len(st)), has: make([]bool, len(st))}
	for i, r := range st {
		k, ok := keyf(r)
		if !ok {
			continue
		}
		g.has[i] = true
		g.keyOf[i] = k
		g.nHave++
		if _, seen := g.lists[k]; !seen {
			g.order = append(g.order, k)
		}
		g.lists[k] = append(g.lists[k], i)
	}
	return g
}

func groupByFields(st []rec, G []string) grouping {
	return groupBy(st, func(r rec) (string, bool) { return groupKey(r, G) })
}

func ascending(idx []int) []int {
	out := append([]int(nil), idx...)
	sort.Ints(out)
	return out
}

func clamp(v, lo, hi int) int {
	if v < lo {
		return lo
	}
	if v > hi {
		return hi
	}
	return v
}

// perGroupSlice applies a slice [from(len):to(len)] to every group's list.
func perGroupSlice(g grouping, bounds func(n int) (from, to int)) []int {
	var out []int
	for _, k := range g.order {
		l := g.lists[k]
		from, to := bounds(len(l))
		from = clamp(from, 0, len(l))
		to = clamp(to, from, len(l))
		out = append(out, l[from:to]...)
	}
	return out // grouped order (first appearance); callers sort when stream order is wanted
}

// head -n k: the first k (k >= 0) or all but the last |k| (k < 0), per group.
func refHead(g grouping, k int) []int {
	return perGroupSlice(g, func(n int) (int, int) {
		if k >= 0 {
			return 0, k
		}
		return 0, n + k
	})
}

// tail -n k (k >= 0): the last k, per group.
func refTail(g grouping, k int) []int {
	return perGroupSlice(g, func(n int) (int, int) { return n - k, n })
}

// tail -n +k (k >= 1): start at the k-th record, i.e. all but the first k-1, per group.
func refTailFrom(g grouping, k int) []int {
	return perGroupSlice(g, func(n int) (int, int) { return k - 1, n })
}

// decimate -n n: one of every n per group; last of each bunch (default, -e) or
// first (-b). For -b the first record of a trailing incomplete bunch is
// returned separately: the usage text does not say whether an incomplete bunch
// counts.
func refDecimate(g grouping, n int, first bool) (req []int, opt []int) {
	for _, k := range g.order {
		l := g.lists[k]
		for i, ix := range l {
			if first {
				if i%n == 0 {
					if i+n <= len(l) {
						req = append(req, ix)
					} else {
						opt = append(opt, ix)
					}
				}
			} else if i%n == n-1 {
				req = append(req, ix)
			}
		}
	}
	return
}

// groupedOrder: group-by / group-like output: groups in first-appearance
// order, stream order within each group.
func groupedOrder(g grouping) []int {
	var out []int
	for _, k := range g.order {
		out = append(out, g.lists[k]...)
	}
	return out
}

func reversed(n int) []int {
	out := make([]int, n)
	for i := range out {
		out[i] = n - 1 - i
	}
	return out
}

func identity(n int) []int {
	out := make([]int, n)
	for i := range out {
		out[i] = i
	}
	return out
}

func equalInts(a, b []int) bool {
	if len(a) != len(b) {
		return false
	}
	for i := range a {
		if a[i] != b[i] {
			return false
		}
	}
	return true
}

// uniq -a: first occurrences of distinct records, with repeat counts. Two
// records are the same when their ordered key/value lists (and JSON types) are
// the same.
func refUniqAll(st []rec, ident func(rec) string) (firsts []int, counts []int) {
	pos := map[string]int{}
	for i, r := range st {
		id := ident(r)
		if p, ok := pos[id]; ok {
			counts[p]++
			continue
		}
		pos[id] = len(firsts)
		firsts = append(firsts, i)
		counts = append(counts, 1)
	}
	return
}

// ---------------------------------------------------------------- expectation + comparison

const (
	mExact    = iota // output index list equals idx
	mOrdered         // output is in stream order; req within out within req+opt
	mGroupSet        // same multiset as idx, and within every group the stream order is kept; order across groups is not constrained
)

type expect struct {
	mode  int
	idx   []int
	opt   []int
	keyOf []string // mGroupSet: group of each record
}

// compare returns "" when out satisfies e, else a description.
func (e expect) compare(out []int) string {
	switch e.mode {
	case mExact:
		if !equalInts(out, e.idx) {
			return "expected exactly " + fmtIdx(e.idx)
		}
	case mOrdered:
		for i := 1; i < len(out); i++ {
			if out[i] <= out[i-1] {
				return "output is not in input order (or repeats a record); expected " + fmtIdx(ascending(e.idx)) + optNote(e.opt)
			}
		}
		in := map[int]bool{}
		for _, o := range out {
			in[o] = true
		}
		allowed := map[int]bool{}
		for _, r := range e.idx {
			allowed[r] = true
			if !in[r] {
				return "record #" + strconv.Itoa(r+1) + " is missing; expected " + fmtIdx(ascending(e.idx)) + optNote(e.opt)
			}
		}
		for _, o := range e.opt {
			allowed[o] = true
		}
		for _, o := range out {
			if !allowed[o] {
				return "record #" + strconv.Itoa(o+1) + " must not be output; expected " + fmtIdx(ascending(e.idx)) + optNote(e.opt)
			}
		}
	case mGroupSet:
		if !equalInts(ascending(out), ascending(e.idx)) {
			return "expected the set " + fmtIdx(ascending(e.idx))
		}
		last := map[string]int{}
		for _, o := range out {
			k := e.keyOf[o]
			if p, ok := last[k]; ok && o < p {
				return "stream order within a group is not kept; expected the set " + fmtIdx(ascending(e.idx)) + " with each group in input order"
			}
			last[k] = o
		}
	}
	return ""
}

func optNote(opt []int) string {
	if len(opt) == 0 {
		return ""
	}
	return " (optionally also " + fmtIdx(ascending(opt)) + ")"
}

// fmtIdx prints 1-based record numbers.
func fmtIdx(idx []int) string {
	var b strings.Builder
	b.WriteByte('[')
	for i, v := range idx {
		if i > 0 {
			b.WriteByte(' ')
		}
		b.WriteString(strconv.Itoa(v + 1))
	}
	b.WriteByte(']')
	return b.String()
}

// nontrivial: the required selection is neither empty nor the unchanged input.
func nontrivialSel(idx []int, n int) bool {
	return len(idx) > 0 && !equalInts(idx, identity(n))
}
