package c11

// Shared plumbing of the three passes: one stream + one verb configuration =
// one in-process Miller run, whose output lines are mapped back to input
// records by whole-line identity.

import (
	"fmt"
	"sort"
	"strconv"
	"strings"

	"verif/harness/vf"
)

type hits map[string]int64

func (h hits) add(name string) { h[name]++ }

func (h hits) flush(w *vf.Worker) {
	for k, v := range h {
		w.Count(k, v)
	}
}

// sctx is one stream under test.
type sctx struct {
	w      *vf.Worker
	h      hits
	st     []rec
	n      int
	lines  []string       // the input record lines as they must re-appear in the output
	lineIx map[string]int // line -> record index (only when lines are pairwise distinct)
	text   string         // stdin
	descr  string         // canonical description of the stream, part of violation keys
	io     []string       // format flags
	prefix string         // violation key prefix ("" or "commakey:")
	memo   *catMemo       // JSON passes: what cat prints per record
	// tolerateReject: a non-zero exit (not a panic) of the next runs is not a
	// violation (spellings/values the usage text does not promise to accept).
	tolerateReject bool
}

func itoa(i int) string { return strconv.Itoa(i) }

func withG(args []string, G []string) []string {
	if len(G) == 0 {
		return args
	}
	return append(append([]string(nil), args...), "-g", strings.Join(G, ","))
}

func gName(G []string) string {
	if len(G) == 0 {
		return "none"
	}
	return strings.Join(G, ",")
}

func (s *sctx) key(main, verbArgs []string) string {
	rest := append(append([]string(nil), main...), verbArgs[1:]...)
	return s.prefix + verbArgs[0] + ":" + strings.Join(rest, " ") + ":" + s.descr
}

func (s *sctx) cmdline(main, verbArgs []string) string {
	all := append(append(append([]string(nil), s.io...), main...), verbArgs...)
	for i, a := range all {
		if a == "" || strings.ContainsAny(a, " $\"'()|*^=<>!&;,") {
			all[i] = "'" + a + "'"
		}
	}
	return "mlr " + strings.Join(all, " ")
}

func (s *sctx) viol(main, verbArgs []string, what string, got string) {
	s.w.Violation(s.key(main, verbArgs),
		fmt.Sprintf("%s on input %s: %s", s.cmdline(main, verbArgs), s.inputBrief(), what),
		map[string]any{"args": append(append(append([]string(nil), s.io...), main...), verbArgs...), "stdin": s.text, "stdout": got, "problem": what})
}

func (s *sctx) inputBrief() string {
	if s.n == 0 {
		return "(no records)"
	}
	return "{" + strings.Join(s.lines, " | ") + "}"
}

// run executes one invocation; ok=false (and a violation) unless it exits 0.
func (s *sctx) run(main, verbArgs []string) (vf.MlrResult, bool) {
	args := append(append(append([]string(nil), s.io...), main...), verbArgs...)
	r := vf.RunMlr(args, vf.MlrOpts{Stdin: &s.text})
	s.w.Eval(1)
	s.h.add("verb:" + verbArgs[0])
	for _, a := range verbArgs[1:] {
		if strings.HasPrefix(a, "-") && len(a) > 1 && !(a[1] >= '0' && a[1] <= '9') {
			s.h.add("flag:" + verbArgs[0] + " " + a)
		}
	}
	if !r.OK() && r.Panic == "" && s.tolerateReject {
		s.h.add("unconstrained:rejected " + verbArgs[0] + " " + strings.Join(verbArgs[1:], " "))
		return r, false
	}
	if !r.OK() {
		what := fmt.Sprintf("exit status %d", r.Exit)
		if r.Panic != "" {
			what = "PANIC: " + r.Panic
		}
		s.viol(main, verbArgs, what+"; stderr: "+firstLine(r.Stderr+r.Err), r.Stdout)
		return r, false
	}
	return r, true
}

func firstLine(s string) string {
	s = strings.TrimSpace(s)
	if i := strings.IndexByte(s, '\n'); i >= 0 {
		s = s[:i]
	}
	if len(s) > 300 {
		s = s[:300]
	}
	return s
}

func splitLines(out string) []string {
	if out == "" {
		return nil
	}
	return strings.Split(strings.TrimSuffix(out, "\n"), "\n")
}

// sel runs a verb that must only select: every output line has to be, byte
// for byte, the line of an input record (identified through its unique id).
// strip, when given, removes a documented added field from an output line
// first and returns the remainder.
func (s *sctx) sel(main, verbArgs []string, strip func(line string, pos int) (string, string)) ([]int, bool) {
	r, ok := s.run(main, verbArgs)
	if !ok {
		return nil, false
	}
	var out []int
	for pos, l := range splitLines(r.Stdout) {
		if strip != nil {
			rest, problem := strip(l, pos)
			if problem != "" {
				s.viol(main, verbArgs, fmt.Sprintf("output line %d %q: %s", pos+1, l, problem), r.Stdout)
				return nil, false
			}
			l = rest
		}
		ix, found := s.lineIx[l]
		if !found {
			s.viol(main, verbArgs, fmt.Sprintf("output line %d %q is not an input record (altered or invented)", pos+1, l), r.Stdout)
			return nil, false
		}
		out = append(out, ix)
	}
	return out, true
}

// check compares a selection with the reference and counts non-trivial cases.
func (s *sctx) check(main, verbArgs []string, e expect, out []int) {
	if nontrivialSel(e.idx, s.n) || (len(e.opt) > 0 && s.n > 1) {
		s.w.Nontrivial(1)
	}
	if msg := e.compare(out); msg != "" {
		s.viol(main, verbArgs, "output records "+fmtIdx(out)+"; "+msg, "")
	}
	s.w.AddSet("outcomes", outcomeClass(out, s.n))
}

func outcomeClass(out []int, n int) string {
	switch {
	case len(out) == 0:
		return "empty"
	case equalInts(out, identity(n)):
		return "identity"
	case sort.IntsAreSorted(out) && len(out) < n:
		return "proper-subsequence"
	case len(out) == n:
		return "permutation-or-resample"
	case len(out) > n:
		return "longer-than-input"
	}
	return "reordered-subset"
}

func hasDup(out []int) bool {
	seen := map[int]bool{}
	for _, o := range out {
		if seen[o] {
			return true
		}
		seen[o] = true
	}
	return false
}

// partition asserts that a and b are disjoint and together the given universe
// (each is separately checked against its own reference for order). Keys:
// law:<law>:<parameters>:<stream>.
func (s *sctx) partition(law string, params []string, a, b []int, universe []int) {
	s.w.Eval(1)
	s.h.add("law:" + law)
	all := append(append([]int(nil), a...), b...)
	if hasDup(all) || !equalInts(ascending(all), ascending(universe)) {
		p := strings.Join(params, " ")
		s.w.Violation(s.prefix+"law:"+law+":"+p+":"+s.descr,
			fmt.Sprintf("law %s with %s on input %s: the two outputs %s and %s do not partition %s", law, p, s.inputBrief(), fmtIdx(a), fmtIdx(b), fmtIdx(ascending(universe))),
			map[string]any{"law": law, "params": params, "io": s.io, "stdin": s.text})
	}
}
