package c11

// Pass "gval": the group-VALUE dimension. DKVP streams of N records with a
// unique id, a first group-by field g in {a, EMPTY, absent, "(absent)",
// "(error)"} and a second group-by field h in {absent, EMPTY}. A record LACKING
// a group-by field belongs to no group; a record whose group-by value is the
// EMPTY string, or a string that spells one of Miller's own sentinels
// ("(absent)", "(error)": the print representations of the absent and error
// values), belongs to the group of that value like any other. Every grouping
// verb of the property is run with -g g, -g g,h (thorough: also -g h,g) and compared with
// the list-algebra reference (model.go groupKey: "has every field" is a
// separate bit, never a reserved key).

import (
	"fmt"
	"strings"

	"verif/harness/vf"
)

var gvG = []string{"a", "", absent, "(absent)", "(error)"}
var gvGC = []string{"a", "e", "-", "A", "E"}
var gvGName = []string{"a", "empty", "absent", "(absent)", "(error)"}
var gvH = []string{absent, ""}
var gvHC = []string{"-", "e"}

func gvalMaxN(quick bool) int {
	if quick {
		return 4
	}
	return 5
}

func buildGvalStream(n, code int) (st []rec, descr string) {
	var d []string
	base := len(gvG) * len(gvH)
	for i := 0; i < n; i++ {
		digit := code % base
		code /= base
		gi, hi := digit/len(gvH), digit%len(gvH)
		r := rec{f: []field{{"id", idPool[i]}}}
		if gvG[gi] != absent {
			r.f = append(r.f, field{"g", gvG[gi]})
		}
		if gvH[hi] != absent {
			r.f = append(r.f, field{"h", gvH[hi]})
		}
		st = append(st, r)
		d = append(d, gvGC[gi]+gvHC[hi])
	}
	return st, descrN(n, d)
}

func gvalWorker(w *vf.Worker) {
	h := hits{}
	var idx uint64
	base := len(gvG) * len(gvH)
	for n := 0; n <= gvalMaxN(w.Quick()); n++ {
		total := ipow(base, n)
		for code := 0; code < total; code++ {
			idx++
			if !w.Mine(idx) {
				continue
			}
			w.Begin(idx)
			st, descr := buildGvalStream(n, code)
			w.Label(func() string { return "gval stream " + descr })
			s := newDKVPStream(w, h, st, descr)
			s.prefix = "gval:"
			h.add(fmt.Sprintf("gval-streams:N=%d", n))
			lack, empty := false, false
			for _, r := range st {
				gv, gok := r.get("g")
				switch {
				case !gok:
					h.add("symbol:gval g=absent")
					lack = true
				case gv == "":
					h.add("symbol:gval g=empty")
					empty = true
				default:
					h.add("symbol:gval g=" + gv)
				}
				if hv, hok := r.get("h"); !hok {
					h.add("symbol:gval h=absent")
				} else if hv == "" {
					h.add("symbol:gval h=empty")
				}
			}
			if lack && empty {
				h.add("vacuity:gval streams with both a record lacking g and a record with empty g")
			}
			checkGvalStream(s)
			if idx == 700 {
				w.Sample(map[string]any{"gval_stream": s.lines, "example": "head/tail/decimate/sample/group-by/cat -n with -g g | g,h | h,g: lacking a field is not the same as having it empty"})
			}
		}
	}
	h.flush(w)
}

func checkGvalStream(s *sctx) {
	st, n := s.st, s.n
	all := identity(n)
	Gs := [][]string{{"g"}, {"g", "h"}}
	if !s.w.Quick() {
		Gs = append(Gs, []string{"h", "g"})
	}
	for _, G := range Gs {
		g := groupByFields(st, G)
		universe := groupedOrder(g)
		if len(g.order) > 1 && g.nHave < n {
			s.h.add("vacuity:gval cases with >= 2 groups and a record outside every group")
		}

		// head: first k / all but the last k of every group
		heads := map[int][]int{}
		for _, k := range []int{1, 2, -1} {
			args := withG([]string{"head", "-n", itoa(k)}, G)
			if out, ok := s.sel(nil, args, nil); ok {
				e := expect{mode: mOrdered, idx: refHead(g, k)}
				if k < 0 {
					e = expect{mode: mGroupSet, idx: refHead(g, k), keyOf: g.keyOf}
				}
				s.check(nil, args, e, out)
				heads[k] = out
			}
		}
		// tail: last k of every group; from the k-th of every group
		tails := map[int][]int{}
		for _, k := range []int{1, 2} {
			args := withG([]string{"tail", "-n", itoa(k)}, G)
			if out, ok := s.sel(nil, args, nil); ok {
				s.check(nil, args, expect{mode: mGroupSet, idx: refTail(g, k), keyOf: g.keyOf}, out)
				tails[k] = out
			}
		}
		froms := map[int][]int{}
		for _, k := range []int{1, 2} {
			args := withG([]string{"tail", "-n", "+" + itoa(k)}, G)
			if out, ok := s.sel(nil, args, nil); ok {
				s.check(nil, args, expect{mode: mOrdered, idx: refTailFrom(g, k)}, out)
				froms[k] = out
			}
		}
		if a, ok := heads[1]; ok {
			if b, ok := froms[2]; ok {
				s.partition("head -n k + tail -n +(k+1)", withG([]string{"k=1"}, G), a, b, universe)
			}
		}
		if a, ok := heads[-1]; ok {
			if b, ok := tails[1]; ok {
				s.partition("head -n -k + tail -n k", withG([]string{"k=1"}, G), a, b, universe)
			}
		}
		// decimate
		for _, a := range [][]string{{"decimate", "-n", "1"}, {"decimate", "-n", "2"}, {"decimate", "-n", "2", "-b"}} {
			args := withG(a, G)
			if out, ok := s.sel(nil, args, nil); ok {
				nn := 1
				if a[2] == "2" {
					nn = 2
				}
				req, opt := refDecimate(g, nn, len(a) == 4)
				s.check(nil, args, expect{mode: mOrdered, idx: req, opt: opt}, out)
			}
		}
		// sample: min(k, group size) of every group, nothing from outside the groups
		for _, k := range []int{1, 2} {
			main := []string{"--seed", "1"}
			args := withG([]string{"sample", "-k", itoa(k)}, G)
			out, ok := s.sel(main, args, nil)
			if !ok {
				continue
			}
			if problem := sampleProblem(g, k, out); problem != "" {
				s.viol(main, args, "output records "+fmtIdx(out)+"; "+problem, "")
			}
			if g.nHave > 0 {
				s.w.Nontrivial(1)
			}
		}
		// group-by: groups in first-appearance order, sizes sum to the number of records having the fields
		{
			args := []string{"group-by", strings.Join(G, ",")}
			if out, ok := s.sel(nil, args, nil); ok {
				s.check(nil, args, expect{mode: mExact, idx: universe}, out)
			}
		}
		// cat -n -g / cat -N name -g: every group numbered 1..n; nothing dropped or reordered
		for _, name := range []string{"n", "idx"} {
			args := []string{"cat", "-n"}
			if name != "n" {
				args = []string{"cat", "-N", name}
			}
			args = withG(args, G)
			seen := map[string]int{}
			wantN := make([]string, n)
			for i := range st {
				if !g.has[i] {
					continue // record outside every group: its counter is not documented
				}
				seen[g.keyOf[i]]++
				wantN[i] = itoa(seen[g.keyOf[i]])
			}
			out, ok := s.sel(nil, args, stripCount(name, func(pos int) string {
				if pos < n {
					if wantN[pos] == "" {
						s.h.add("unconstrained:cat -n -g counter of a record lacking the field")
					}
					return wantN[pos]
				}
				return ""
			}))
			if ok {
				if g.nHave > 1 {
					s.w.Nontrivial(1)
				}
				s.check(nil, args, expect{mode: mExact, idx: all}, out)
			}
		}
	}
}

// sampleProblem: sampling is without replacement, takes min(k, group size)
// records of every group and nothing from outside the groups.
func sampleProblem(g grouping, k int, out []int) string {
	if hasDup(out) {
		return "a record is output twice (sampling is without replacement)"
	}
	cnt := map[string]int{}
	for _, o := range out {
		if !g.has[o] {
			return fmt.Sprintf("record #%d lacks a group-by field but is output", o+1)
		}
		cnt[g.keyOf[o]]++
	}
	for _, gk := range g.order {
		want := len(g.lists[gk])
		if k < want {
			want = k
		}
		if cnt[gk] != want {
			return fmt.Sprintf("group %q has %d records, -k %d: expected %d in the output, got %d", gk, len(g.lists[gk]), k, want, cnt[gk])
		}
	}
	return ""
}
