package c11

// Boundary values and spellings of the numeric options of the selecting verbs
// (head -n, tail -n, decimate -n, sample -k, bootstrap -n), on every stream of
// the ids pass:
//
//   - the glued spelling `-nK` / `-kK` (K = 0..N+1) must mean `-n K`;
//   - signed zeros: `tail -n +0` (asserted in ids.go), `head -n -0`, `tail -n -0`;
//   - values a verb documents as invalid (decimate -n 0/-1, sample -k -1,
//     bootstrap -n -1): may be rejected, must not panic, must not invent;
//   - (streams of at most hugeMaxN records) the int64 extremes 2^63-1, -(2^63-1),
//     -2^63 and the int32 wrap-arounds 2^32+1, -(2^32+1), 2^31: a count at or
//     beyond the group size has one meaning whatever its magnitude.
//
// The reference is the same list algebra as for the in-range counts.

import (
	"fmt"
)

const (
	maxI64    = "9223372036854775807"
	negMaxI64 = "-9223372036854775807"
	minI64    = "-9223372036854775808"
	wrap32    = "4294967297"  // 2^32+1: 1 after truncation to 32 bits
	negWrap32 = "-4294967297" // -(2^32+1)
	two31     = "2147483648"  // 2^31: negative after truncation to int32
)

// hugeMaxN: the extreme values are run on streams of at most this many records
// (91 streams): the result cannot depend on more than "count >= group size".
const hugeMaxN = 2

// selOnly runs a configuration whose count is not documented: it may be
// rejected, but it must not panic, and when accepted it must only select
// (every output line an input record, none twice).
func (s *sctx) selOnly(main, args []string, class string) {
	s.h.add("unconstrained:" + class)
	s.tolerateReject = true
	out, ok := s.sel(main, args, nil)
	s.tolerateReject = false
	if ok && hasDup(out) {
		s.viol(main, args, "output repeats a record: "+fmtIdx(out), "")
	}
}

func checkSpellings(s *sctx, Gs [][]string) {
	n := s.n
	for _, G := range Gs {
		g := groupByFields(s.st, G)
		universe := ascending(groupedOrder(g))
		headE := func(k int) expect {
			if k < 0 && len(G) > 0 {
				return expect{mode: mGroupSet, idx: refHead(g, k), keyOf: g.keyOf}
			}
			return expect{mode: mOrdered, idx: refHead(g, k)}
		}
		tailE := func(k int) expect {
			if len(G) > 0 {
				return expect{mode: mGroupSet, idx: refTail(g, k), keyOf: g.keyOf}
			}
			return expect{mode: mOrdered, idx: refTail(g, k)}
		}

		// ---- glued spelling -nK: the same as -n K (accepted by the command-line pre-pass; when a
		// build rejects it nothing is asserted)
		s.tolerateReject = true
		for k := 0; k <= n+1; k++ {
			s.h.add("param:glued -nK=" + kClass(k, n))
			args := withG([]string{"head", "-n" + itoa(k)}, G)
			if out, ok := s.sel(nil, args, nil); ok {
				s.check(nil, args, headE(k), out)
			}
			args = withG([]string{"tail", "-n" + itoa(k)}, G)
			if out, ok := s.sel(nil, args, nil); ok {
				s.check(nil, args, tailE(k), out)
			}
			if k >= 1 {
				args = withG([]string{"decimate", "-n" + itoa(k)}, G)
				if out, ok := s.sel(nil, args, nil); ok {
					req, _ := refDecimate(g, k, false)
					s.check(nil, args, expect{mode: mOrdered, idx: req}, out)
				}
			}
			main := []string{"--seed", "1"}
			args = withG([]string{"sample", "-k" + itoa(k)}, G)
			if out, ok := s.sel(main, args, nil); ok {
				if problem := sampleProblem(g, k, out); problem != "" {
					s.viol(main, args, "output records "+fmtIdx(out)+"; "+problem, "")
				}
			}
			if len(G) == 0 {
				args = []string{"bootstrap", "-n" + itoa(k)}
				if out, ok := s.sel(main, args, nil); ok {
					want := k
					if n == 0 {
						want = 0
					}
					if len(out) != want {
						s.viol(main, args, fmt.Sprintf("%d records out, expected %d", len(out), want), "")
					}
				}
			}
		}
		s.tolerateReject = false

		// ---- signed zero
		{
			// head -n -0: "first 0" (nothing) or "all but the last 0" (everything): both readings of the usage text are accepted, nothing else
			args := withG([]string{"head", "-n", "-0"}, G)
			s.h.add("unconstrained:head -n -0 (nothing or everything)")
			if out, ok := s.sel(nil, args, nil); ok {
				if len(out) != 0 && !equalInts(ascending(out), universe) {
					s.viol(nil, args, "output records "+fmtIdx(out)+"; expected nothing (first 0) or "+fmtIdx(universe)+" (all but the last 0)", "")
				}
				if hasDup(out) {
					s.viol(nil, args, "output repeats a record: "+fmtIdx(out), "")
				}
			}
			s.selOnly(nil, withG([]string{"tail", "-n", "-0"}, G), "tail -n negative")
		}

		// ---- values documented or reported as invalid
		s.selOnly(nil, withG([]string{"decimate", "-n", "0"}, G), "decimate -n 0")
		s.selOnly(nil, withG([]string{"decimate", "-n", "-1"}, G), "decimate -n negative")
		s.selOnly([]string{"--seed", "1"}, withG([]string{"sample", "-k", "-1"}, G), "sample -k negative")
		if len(G) == 0 {
			// "Must be non-negative": whatever happens, only input records, and not more than... nothing more is documented
			s.selOnlyDupOK([]string{"--seed", "1"}, []string{"bootstrap", "-n", "-1"}, "bootstrap -n negative")
		}

		// ---- extremes
		if n > hugeMaxN {
			continue
		}
		for _, v := range []string{maxI64, wrap32, two31} {
			s.h.add("param:huge " + v)
			// first k with k >= group size: everything
			args := withG([]string{"head", "-n", v}, G)
			if out, ok := s.sel(nil, args, nil); ok {
				s.check(nil, args, expect{mode: mOrdered, idx: universe}, out)
			}
			// last k: everything
			args = withG([]string{"tail", "-n", v}, G)
			if out, ok := s.sel(nil, args, nil); ok {
				s.check(nil, args, expect{mode: mGroupSet, idx: universe, keyOf: g.keyOf}, out)
			}
			// start at the k-th: nothing
			args = withG([]string{"tail", "-n", "+" + v}, G)
			if out, ok := s.sel(nil, args, nil); ok {
				s.check(nil, args, expect{mode: mExact}, out)
			}
			// one of every k, last of each bunch: no bunch completes; -b: the first of the only (incomplete) bunch is optional
			for _, mode := range []string{"", "-b"} {
				args = []string{"decimate", "-n", v}
				if mode != "" {
					args = append(args, mode)
				}
				args = withG(args, G)
				if out, ok := s.sel(nil, args, nil); ok {
					req, opt := refDecimate(g, 1<<40, mode == "-b")
					s.check(nil, args, expect{mode: mOrdered, idx: req, opt: opt}, out)
				}
			}
		}
		for _, v := range []string{negMaxI64, minI64, negWrap32} {
			s.h.add("param:huge " + v)
			// all but the last |k|, |k| >= group size: nothing
			args := withG([]string{"head", "-n", v}, G)
			if out, ok := s.sel(nil, args, nil); ok {
				s.check(nil, args, expect{mode: mExact}, out)
			}
			s.selOnly(nil, withG([]string{"tail", "-n", v}, G), "tail -n negative")
		}
		// sample -k: only 2^63-1 (a count between 2^27 and 2^63 would make an unpatched sample
		// allocate k slots up front): min(k, group size) = the whole group
		{
			main := []string{"--seed", "1"}
			args := withG([]string{"sample", "-k", maxI64}, G)
			if out, ok := s.sel(main, args, nil); ok {
				if problem := sampleProblem(g, 1<<40, out); problem != "" {
					s.viol(main, args, "output records "+fmtIdx(out)+"; "+problem, "")
				}
			}
		}
	}
}

// selOnlyDupOK: as selOnly for a verb that samples with replacement.
func (s *sctx) selOnlyDupOK(main, args []string, class string) {
	s.h.add("unconstrained:" + class)
	s.tolerateReject = true
	s.sel(main, args, nil)
	s.tolerateReject = false
}
