package c11

// JSON-Lines passes.
//
// "anon": streams of records WITHOUT an id over the 9 shapes g in {"a", "",
// absent} x x in {1, "", absent} (this includes the zero-field record {} and
// repeated records), for the verbs whose behaviour depends on whole-record
// content: uniq -a, skip-trivial-records, group-like, having-fields, and a
// cross-section of the positional verbs. The expected output text is the
// concatenation of what `mlr cat` prints for each selected record alone (a law
// with real code on both sides: no assumption about JSON spacing).
//
// "comma": streams with ids whose group-by values / field names contain the
// character ',' : two-field group-by lists must still keep (g,h) tuples apart.

import (
	"fmt"
	"sort"
	"strings"

	"verif/harness/vf"
)

var jsonIO = []string{"--ijsonl", "--ojsonl"}

type catMemo struct {
	w *vf.Worker
	m map[string]string
}

// one returns the line `mlr --ijsonl --ojsonl cat` prints for this record alone.
func (c *catMemo) one(r rec) string {
	in := r.jsonl()
	if l, ok := c.m[in]; ok {
		return l
	}
	text := in + "\n"
	res := vf.RunMlr(append(append([]string(nil), jsonIO...), "cat"), vf.MlrOpts{Stdin: &text})
	out := res.Stdout
	if !res.OK() || !strings.HasSuffix(out, "\n") || strings.Count(out, "\n") != 1 {
		c.w.Broken("baseline: mlr --ijsonl --ojsonl cat on %q gives %s", in, res.String())
		out = in + "\n"
	}
	l := strings.TrimSuffix(out, "\n")
	c.m[in] = l
	return l
}

func (c *catMemo) text(rs []rec) string {
	var b strings.Builder
	for _, r := range rs {
		b.WriteString(c.one(r))
		b.WriteByte('\n')
	}
	return b.String()
}

func pick(st []rec, idx []int) []rec {
	out := make([]rec, 0, len(idx))
	for _, i := range idx {
		out = append(out, st[i])
	}
	return out
}

// ---------------------------------------------------------------- anon

var anonG = []string{"a", "", absent}
var anonX = []string{"1", "", absent}
var anonGC = []string{"a", "e", "-"}

func buildAnonStream(n, code int) (st []rec, descr string) {
	var d []string
	for i := 0; i < n; i++ {
		digit := code % 9
		code /= 9
		gi, xi := digit/3, digit%3
		r := rec{num: map[string]bool{}}
		if anonG[gi] != absent {
			r.f = append(r.f, field{"g", anonG[gi]})
		}
		if anonX[xi] != absent {
			r.f = append(r.f, field{"x", anonX[xi]})
			if anonX[xi] == "1" {
				r.num["x"] = true
			}
		}
		st = append(st, r)
		d = append(d, anonGC[gi]+xChar[xi])
	}
	return st, descrN(n, d)
}

func anonMaxN(quick bool) int {
	if quick {
		return 4
	}
	return 5
}

var anonHFCases = hfCases([][]string{{"g"}, {"x"}, {"g", "x"}, {"g", "g"}})

func anonWorker(w *vf.Worker) {
	h := hits{}
	memo := &catMemo{w: w, m: map[string]string{}}
	var idx uint64
	for n := 0; n <= anonMaxN(w.Quick()); n++ {
		total := ipow(9, n)
		for code := 0; code < total; code++ {
			idx++
			if !w.Mine(idx) {
				continue
			}
			w.Begin(idx)
			st, descr := buildAnonStream(n, code)
			w.Label(func() string { return "anon stream " + descr })
			h.add(fmt.Sprintf("anon-streams:N=%d", n))
			s := &sctx{w: w, h: h, st: st, n: n, descr: descr, io: jsonIO}
			var in []string
			for _, r := range st {
				in = append(in, r.jsonl())
				s.lines = append(s.lines, r.jsonl())
				switch {
				case len(r.f) == 0:
					h.add("symbol:record {}")
				case r.trivial():
					h.add("symbol:record with only empty values")
				}
			}
			if n > 0 {
				s.text = strings.Join(in, "\n") + "\n"
			}
			checkAnonStream(s, memo)
			if idx == 3000 {
				w.Sample(map[string]any{"anon_stream": in, "example": "uniq -a [-c|-n], skip-trivial-records, group-like, having-fields on records without ids"})
			}
		}
	}
	h.flush(w)
}

// expectRecs: the output text must be exactly the given records, as cat prints them.
func (s *sctx) expectRecs(memo *catMemo, main, verbArgs []string, alternatives ...[]rec) {
	r, ok := s.run(main, verbArgs)
	if !ok {
		return
	}
	var wants []string
	for _, a := range alternatives {
		want := memo.text(a)
		if r.Stdout == want {
			s.w.AddSet("outcomes", outcomeClassN(len(a), s.n))
			return
		}
		wants = append(wants, want)
	}
	s.viol(main, verbArgs, fmt.Sprintf("output %q, expected %q", r.Stdout, strings.Join(wants, " or ")), r.Stdout)
}

func outcomeClassN(k, n int) string {
	switch {
	case k == 0:
		return "empty"
	case k == n:
		return "same-length"
	case k < n:
		return "shorter"
	}
	return "longer-than-input"
}

func (s *sctx) nt(idx []int) {
	if nontrivialSel(idx, s.n) {
		s.w.Nontrivial(1)
	}
}

func checkAnonStream(s *sctx, memo *catMemo) {
	st, n := s.st, s.n
	all := identity(n)
	sel := func(args []string, idx []int) {
		s.nt(idx)
		s.expectRecs(memo, nil, args, pick(st, idx))
	}
	sel([]string{"cat"}, all)
	sel([]string{"nothing"}, nil)
	sel([]string{"tac"}, reversed(n))
	sel([]string{"tac", "then", "tac"}, all)

	// skip-trivial-records: drop zero-field records and records whose values are all empty
	var nontriv []int
	for i, r := range st {
		if !r.trivial() {
			nontriv = append(nontriv, i)
		}
	}
	sel([]string{"skip-trivial-records"}, nontriv)

	// uniq -a
	firsts, counts := refUniqAll(st, func(r rec) string { return r.jsonl() })
	sel([]string{"uniq", "-a"}, firsts)
	for _, name := range []string{"count", "cnt"} {
		args := []string{"uniq", "-a", "-c"}
		if name != "count" {
			args = append(args, "-o", name)
		}
		var pre, post []rec
		for j, i := range firsts {
			pre = append(pre, st[i].prepend(name, itoa(counts[j]), true))
			ap := rec{f: append(append([]field(nil), st[i].f...), field{name, itoa(counts[j])}), num: map[string]bool{name: true}}
			for k, v := range st[i].num {
				ap.num[k] = v
			}
			post = append(post, ap)
		}
		if len(firsts) < n {
			s.w.Nontrivial(1)
		}
		s.expectRecs(memo, nil, args, pre, post) // the usage text does not say on which side the count goes
	}
	s.expectRecs(memo, nil, []string{"uniq", "-a", "-n"}, []rec{{f: []field{{"count", itoa(len(firsts))}}, num: map[string]bool{"count": true}}})

	// group-like: same ordered list of field names
	gl := groupBy(st, func(r rec) (string, bool) { return strings.Join(r.keys(), sep), true })
	sel([]string{"group-like"}, groupedOrder(gl))

	// group-by g, x and g,x (the empty string is a value like any other; {} and records lacking a field are in no group)
	for _, G := range [][]string{{"g"}, {"x"}, {"g", "x"}} {
		g := groupByFields(st, G)
		sel([]string{"group-by", strings.Join(G, ",")}, groupedOrder(g))
	}

	// having-fields, including the vacuous cases on {}
	for _, hc := range anonHFCases {
		var want []int
		for i, r := range st {
			if hc.ref(r.keys()) {
				want = append(want, i)
			}
		}
		if hc.dup && n > dupListMaxN {
			continue
		}
		s.h.add("param:having-fields " + hc.args[0])
		save := s.prefix
		if hc.dup {
			s.prefix = "duplist:" + save
		}
		sel(append([]string{"having-fields"}, hc.args...), want)
		s.prefix = save
	}

	// positional verbs on records that may repeat or be empty
	for _, G := range [][]string{nil, {"g"}} {
		g := groupByFields(st, G)
		for _, k := range []int{-2, -1, 0, 1, 2} {
			if k >= 0 || len(G) == 0 {
				sel(withG([]string{"head", "-n", itoa(k)}, G), ascending(refHead(g, k)))
			}
			if k >= 0 && len(G) == 0 {
				sel([]string{"tail", "-n", itoa(k)}, ascending(refTail(g, k)))
			}
			if k >= 1 {
				sel(withG([]string{"tail", "-n", "+" + itoa(k)}, G), ascending(refTailFrom(g, k)))
			}
		}
		req, _ := refDecimate(g, 2, false)
		sel(withG([]string{"decimate", "-n", "2"}, G), ascending(req))
	}

	// filter partition on typed JSON values
	for _, e := range []string{"is_present($x)", `$g=="a"`, "is_empty($g)"} {
		var yes, no []int
		for i, r := range st {
			keep := false
			switch e {
			case "is_present($x)":
				_, keep = r.get("x")
			case `$g=="a"`:
				v, ok := r.get("g")
				keep = ok && v == "a"
			default:
				v, ok := r.get("g")
				keep = ok && v == ""
			}
			if keep {
				yes = append(yes, i)
			} else {
				no = append(no, i)
			}
		}
		sel([]string{"filter", e}, yes)
		sel([]string{"filter", "-x", e}, no)
	}

	// cat -n: counter prepended, rest unchanged
	var numbered []rec
	for i, r := range st {
		numbered = append(numbered, r.prepend("n", itoa(i+1), true))
	}
	s.expectRecs(memo, nil, []string{"cat", "-n"}, numbered)

	// shuffle / bootstrap / sample: multiset laws over the cat lines
	inLines := make([]string, n)
	inCount := map[string]int{}
	for i, r := range st {
		inLines[i] = memo.one(r)
		inCount[inLines[i]]++
	}
	sortedIn := append([]string(nil), inLines...)
	sort.Strings(sortedIn)
	for seed := 1; seed <= 2; seed++ {
		main := []string{"--seed", itoa(seed)}
		if r, ok := s.run(main, []string{"shuffle"}); ok {
			got := splitLines(r.Stdout)
			sort.Strings(got)
			if strings.Join(got, "\n") != strings.Join(sortedIn, "\n") {
				s.viol(main, []string{"shuffle"}, fmt.Sprintf("output %q is not a permutation of the input", r.Stdout), r.Stdout)
			}
		}
		if r, ok := s.run(main, []string{"bootstrap"}); ok {
			got := splitLines(r.Stdout)
			bad := len(got) != n
			for _, l := range got {
				if inCount[l] == 0 {
					bad = true
				}
			}
			if bad {
				s.viol(main, []string{"bootstrap"}, fmt.Sprintf("output %q is not %d draws from the input", r.Stdout, n), r.Stdout)
			}
		}
		for _, k := range []int{1, 2} {
			args := []string{"sample", "-k", itoa(k)}
			if r, ok := s.run(main, args); ok {
				got := splitLines(r.Stdout)
				want := k
				if n < k {
					want = n
				}
				c := map[string]int{}
				bad := len(got) != want
				for _, l := range got {
					c[l]++
					if c[l] > inCount[l] {
						bad = true
					}
				}
				if bad {
					s.viol(main, args, fmt.Sprintf("output %q is not a %d-subset of the input (without replacement)", r.Stdout, want), r.Stdout)
				}
			}
		}
	}
}

// ---------------------------------------------------------------- comma

func commaMaxN(quick bool) int {
	if quick {
		return 4
	}
	return 5
}

var commaG = []string{"a", "a,b"}
var commaH = []string{"c", "b,c"}

// names used in stream descriptions (file-name safe): AB.C is g="a,b", h="c"
var commaName = map[string]string{"a": "A", "a,b": "AB", "c": "C", "b,c": "BC"}

func commaWorker(w *vf.Worker) {
	h := hits{}
	memo := &catMemo{w: w, m: map[string]string{}}
	var idx uint64
	maxN := commaMaxN(w.Quick())
	// part 1: values with commas under -g g,h
	for n := 0; n <= maxN; n++ {
		for code := 0; code < ipow(4, n); code++ {
			idx++
			if !w.Mine(idx) {
				continue
			}
			w.Begin(idx)
			var st []rec
			var d []string
			c := code
			for i := 0; i < n; i++ {
				digit := c % 4
				c /= 4
				g, hh := commaG[digit/2], commaH[digit%2]
				st = append(st, rec{f: []field{{"id", itoa(i + 1)}, {"g", g}, {"h", hh}}, num: map[string]bool{"id": true}})
				d = append(d, commaName[g]+"."+commaName[hh])
			}
			s := newJSONStream(w, h, memo, st, descrN(n, d))
			w.Label(func() string { return "comma stream " + s.descr })
			h.add(fmt.Sprintf("comma-streams:N=%d", n))
			checkCommaValues(s)
			if idx == 100 {
				w.Sample(map[string]any{"comma_stream": s.lines, "example": "head/tail/decimate/sample/cat -n with -g g,h and group-by g,h: (a,b|c) and (a|b,c) are different groups"})
			}
		}
	}
	// part 2: field names with commas under group-like
	shapes := [][]string{{"a,b"}, {"a", "b"}, {"a"}}
	for n := 0; n <= maxN; n++ {
		for code := 0; code < ipow(3, n); code++ {
			idx++
			if !w.Mine(idx) {
				continue
			}
			w.Begin(idx)
			var st []rec
			var d []string
			c := code
			for i := 0; i < n; i++ {
				sh := shapes[c%3]
				c /= 3
				r := rec{f: []field{{"id", itoa(i + 1)}}, num: map[string]bool{"id": true}}
				for _, k := range sh {
					r.f = append(r.f, field{k, "1"})
					r.num[k] = true
				}
				st = append(st, r)
				d = append(d, "keys."+strings.ReplaceAll(strings.Join(sh, "+"), ",", "COMMA"))
			}
			s := newJSONStream(w, h, memo, st, descrN(n, d))
			w.Label(func() string { return "comma-keys stream " + s.descr })
			h.add(fmt.Sprintf("comma-key-streams:N=%d", n))
			gl := groupBy(st, func(r rec) (string, bool) { return strings.Join(r.keys(), sep), true })
			if out, ok := s.sel(nil, []string{"group-like"}, nil); ok {
				s.check(nil, []string{"group-like"}, expect{mode: mExact, idx: groupedOrder(gl)}, out)
			}
		}
	}
	h.flush(w)
}

func newJSONStream(w *vf.Worker, h hits, memo *catMemo, st []rec, descr string) *sctx {
	s := &sctx{w: w, h: h, st: st, n: len(st), descr: descr, io: jsonIO, lineIx: map[string]int{}, prefix: "commakey:", memo: memo}
	var in []string
	for i, r := range st {
		in = append(in, r.jsonl())
		l := memo.one(r)
		s.lines = append(s.lines, l)
		s.lineIx[l] = i
	}
	if len(st) > 0 {
		s.text = strings.Join(in, "\n") + "\n"
	}
	return s
}

func checkCommaValues(s *sctx) {
	st := s.st
	for _, G := range [][]string{{"g"}, {"g", "h"}, {"h", "g"}} {
		g := groupByFields(st, G)
		for _, k := range []int{-1, 1, 2} {
			args := withG([]string{"head", "-n", itoa(k)}, G)
			if out, ok := s.sel(nil, args, nil); ok {
				e := expect{mode: mOrdered, idx: refHead(g, k)}
				if k < 0 {
					e = expect{mode: mGroupSet, idx: refHead(g, k), keyOf: g.keyOf}
				}
				s.check(nil, args, e, out)
			}
		}
		args := withG([]string{"tail", "-n", "1"}, G)
		if out, ok := s.sel(nil, args, nil); ok {
			s.check(nil, args, expect{mode: mGroupSet, idx: refTail(g, 1), keyOf: g.keyOf}, out)
		}
		args = withG([]string{"tail", "-n", "+2"}, G)
		if out, ok := s.sel(nil, args, nil); ok {
			s.check(nil, args, expect{mode: mOrdered, idx: refTailFrom(g, 2)}, out)
		}
		for _, mode := range []string{"-e", "-b"} {
			args = withG([]string{"decimate", "-n", "2", mode}, G)
			if out, ok := s.sel(nil, args, nil); ok {
				req, opt := refDecimate(g, 2, mode == "-b")
				s.check(nil, args, expect{mode: mOrdered, idx: req, opt: opt}, out)
			}
		}
		args = []string{"group-by", strings.Join(G, ",")}
		if out, ok := s.sel(nil, args, nil); ok {
			s.check(nil, args, expect{mode: mExact, idx: groupedOrder(g)}, out)
		}
		// sample -k 1 -g: one record per (g,h) group
		main := []string{"--seed", "1"}
		args = withG([]string{"sample", "-k", "1"}, G)
		if out, ok := s.sel(main, args, nil); ok {
			cnt := map[string]int{}
			for _, o := range out {
				cnt[g.keyOf[o]]++
			}
			bad := len(out) != len(g.order)
			for _, gk := range g.order {
				if cnt[gk] != 1 {
					bad = true
				}
			}
			if len(g.order) > 1 {
				s.w.Nontrivial(1)
			}
			if bad {
				s.viol(main, args, fmt.Sprintf("output records %s: expected exactly one record from each of the %d groups", fmtIdx(out), len(g.order)), "")
			}
		}
		// cat -n -g: 1..n within each group, counter prepended, rest unchanged
		seen := map[string]int{}
		var numbered []rec
		for i, r := range st {
			seen[g.keyOf[i]]++
			numbered = append(numbered, r.prepend("n", itoa(seen[g.keyOf[i]]), true))
		}
		if len(g.order) > 1 {
			s.w.Nontrivial(1)
		}
		s.expectRecs(s.memo, nil, withG([]string{"cat", "-n"}, G), numbered)
	}
}
