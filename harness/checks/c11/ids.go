package c11

// Pass "ids": DKVP streams of N records, each with a unique id field, an
// optional group field g in {a, b, absent} and an optional payload field x in
// {1, empty, absent}. Every selecting verb with every parameter value in range
// is run on every stream; the output is mapped back to input records by
// whole-line identity and compared with the list-algebra reference.

import (
	"fmt"
	"regexp"
	"strings"

	"verif/harness/vf"
)

// The ids are number-like strings whose spelling any numeric re-formatting
// would change: "unchanged" is byte equality of the whole record line.
var idPool = []string{"0x1", "002", "3.0", "+4", "5e0", "6.", ".7e1", "0b1000", "9_"}

const absent = "\x00absent"

var gSyms = []string{"a", "b", absent}
var xSyms = []string{"1", "", absent}
var gChar = []string{"a", "b", "-"}
var xChar = []string{"1", "e", "-"}

type idBounds struct {
	fullN int // all 9^N group x payload patterns up to here
	maxN  int // group patterns only (payload cycles with the position) up to here
	gx    bool
}

func idBoundsFor(quick bool) idBounds {
	if quick {
		return idBounds{fullN: 4, maxN: 6}
	}
	return idBounds{fullN: 5, maxN: 8, gx: true}
}

func ipow(b, e int) int {
	r := 1
	for i := 0; i < e; i++ {
		r *= b
	}
	return r
}

func buildIDStream(n, base, code int) (st []rec, descr string) {
	var d []string
	for i := 0; i < n; i++ {
		digit := code % base
		code /= base
		gi, xi := digit, i%3
		if base == 9 {
			gi, xi = digit/3, digit%3
		}
		r := rec{f: []field{{"id", idPool[i]}}}
		if gSyms[gi] != absent {
			r.f = append(r.f, field{"g", gSyms[gi]})
		}
		if xSyms[xi] != absent {
			r.f = append(r.f, field{"x", xSyms[xi]})
		}
		st = append(st, r)
		d = append(d, gChar[gi]+xChar[xi])
	}
	return st, descrN(n, d)
}

// descrN: canonical stream description; the length comes first so that sorted
// violation keys list the smallest counterexample first.
func descrN(n int, parts []string) string {
	return "N" + itoa(n) + "[" + strings.Join(parts, " ") + "]"
}

func idWorker(w *vf.Worker) {
	b := idBoundsFor(w.Quick())
	h := hits{}
	var idx uint64
	for n := 0; n <= b.maxN; n++ {
		base := 9
		if n > b.fullN {
			base = 3
		}
		total := ipow(base, n)
		for code := 0; code < total; code++ {
			idx++
			if !w.Mine(idx) {
				continue
			}
			w.Begin(idx)
			st, descr := buildIDStream(n, base, code)
			w.Label(func() string { return "ids stream " + descr })
			s := newDKVPStream(w, h, st, descr)
			h.add(fmt.Sprintf("streams:N=%d", n))
			for _, r := range st {
				gv, gok := r.get("g")
				if !gok {
					gv = "absent"
				}
				h.add("symbol:g=" + gv)
				xv, xok := r.get("x")
				if !xok {
					xv = "absent"
				} else if xv == "" {
					xv = "empty"
				}
				h.add("symbol:x=" + xv)
			}
			checkIDStream(s, b)
			if idx == 5000 {
				w.Sample(map[string]any{"stream": s.lines, "example": "head -n k, tail -n k, tail -n +k for every k in -(N+1)..N+1 (N+2 for +k), with and without -g g"})
			}
		}
	}
	h.flush(w)
}

func newDKVPStream(w *vf.Worker, h hits, st []rec, descr string) *sctx {
	s := &sctx{w: w, h: h, st: st, n: len(st), descr: descr, lineIx: map[string]int{}}
	for i, r := range st {
		l := r.dkvp()
		s.lines = append(s.lines, l)
		s.lineIx[l] = i
	}
	if len(st) > 0 {
		s.text = strings.Join(s.lines, "\n") + "\n"
	}
	return s
}

type filterCase struct {
	expr string
	// per record: +1 kept, -1 dropped, 0 not determined by the documentation.
	// nil: only the partition law is evaluated.
	ref func(r rec, nr int) int
	// boolean-or-absent domain predicate of the property (true = inside)
	domain func(st []rec) bool
}

func xIs(r rec, v string) bool { s, ok := r.get("x"); return ok && s == v }

var filterCases = []filterCase{
	{expr: "true", ref: func(rec, int) int { return 1 }},
	{expr: "false", ref: func(rec, int) int { return -1 }},
	{expr: "$x==1", ref: func(r rec, _ int) int {
		switch {
		case xIs(r, "1"):
			return 1
		case xIs(r, ""):
			return 0 // empty compared with a number: not fixed by the docs
		}
		return -1 // absent: "mlr filter '$x > 10' for records not having a $x" does not pass
	}},
	{expr: "$x>0", ref: func(r rec, _ int) int {
		switch {
		case xIs(r, "1"):
			return 1
		case xIs(r, ""):
			return 0
		}
		return -1
	}},
	{expr: "is_present($x)", ref: func(r rec, _ int) int {
		if _, ok := r.get("x"); ok {
			return 1
		}
		return -1
	}},
	{expr: "$nosuch==1", ref: func(rec, int) int { return -1 }},
	{expr: `$g=="a"`, ref: func(r rec, _ int) int {
		if v, ok := r.get("g"); ok && v == "a" {
			return 1
		}
		return -1
	}},
	{expr: "NR%2==0", ref: func(_ rec, nr int) int {
		if nr%2 == 0 {
			return 1
		}
		return -1
	}},
	{expr: `$x==1 || $g=="b"`},
	{expr: `$x==1 && $g=="a"`},
	{expr: `is_empty($x) || is_absent($g)`},
	// not boolean unless x is absent in every record: outside the property's domain otherwise
	{expr: "$x", domain: func(st []rec) bool {
		for _, r := range st {
			if _, ok := r.get("x"); ok {
				return false
			}
		}
		return true
	}, ref: func(rec, int) int { return -1 }},
}

var grepPatterns = []string{"a", "B", "^id=0x1", ",$", "=1$", "^0x1,a"}

type hfCase struct {
	args []string
	ref  func(keys []string) bool
	dup  bool
}

func keySet(keys []string) map[string]bool {
	m := map[string]bool{}
	for _, k := range keys {
		m[k] = true
	}
	return m
}

func hfAtLeast(names ...string) func([]string) bool {
	return func(keys []string) bool {
		m := keySet(keys)
		for _, n := range names {
			if !m[n] {
				return false
			}
		}
		return true
	}
}

func hfAtMost(names ...string) func([]string) bool {
	return func(keys []string) bool {
		m := keySet(names)
		for _, k := range keys {
			if !m[k] {
				return false
			}
		}
		return true
	}
}

func hfWhichAre(names ...string) func([]string) bool {
	al, am := hfAtLeast(names...), hfAtMost(names...)
	return func(keys []string) bool { return al(keys) && am(keys) }
}

func hfRegex(re string, mode string) func([]string) bool {
	rx := regexp.MustCompile(re)
	return func(keys []string) bool {
		any, all := false, true
		for _, k := range keys {
			if rx.MatchString(k) {
				any = true
			} else {
				all = false
			}
		}
		switch mode {
		case "all":
			return all
		case "any":
			return any
		}
		return !any
	}
}

func hfCases(names [][]string) []hfCase {
	var out []hfCase
	for _, n := range names {
		l := strings.Join(n, ",")
		dup := len(n) == 2 && n[0] == n[1]
		out = append(out,
			hfCase{[]string{"--at-least", l}, hfAtLeast(n...), dup},
			hfCase{[]string{"--which-are", l}, hfWhichAre(n...), dup},
			hfCase{[]string{"--at-most", l}, hfAtMost(n...), dup})
	}
	for _, re := range []struct{ arg, re string }{{"^[gi]", "^[gi]"}, {"^x$", "^x$"}, {`"^G"i`, "(?i)^G"}, {`"d"`, "d"}} {
		out = append(out,
			hfCase{[]string{"--all-matching", re.arg}, hfRegex(re.re, "all"), false},
			hfCase{[]string{"--any-matching", re.arg}, hfRegex(re.re, "any"), false},
			hfCase{[]string{"--none-matching", re.arg}, hfRegex(re.re, "none"), false})
	}
	return out
}

var idHFCases = hfCases([][]string{{"id"}, {"id", "g"}, {"id", "g", "x"}, {"id", "x"}, {"g", "g"}})

func checkIDStream(s *sctx, b idBounds) {
	st, n := s.st, s.n
	Gs := [][]string{nil, {"g"}}
	if b.gx {
		Gs = append(Gs, []string{"g", "x"})
	}
	all := identity(n)

	// ------------------------------------------------------------ head, tail and their laws
	for _, G := range Gs {
		g := groupByFields(st, G)
		universe := groupedOrder(g)
		headOut := map[int][]int{}
		tailFrom := map[int][]int{}
		tailOut := map[int][]int{}
		for k := -(n + 1); k <= n+1; k++ {
			s.h.add("param:head -n k=" + kClass(k, n))
			args := withG([]string{"head", "-n", itoa(k)}, G)
			if out, ok := s.sel(nil, args, nil); ok {
				e := expect{mode: mOrdered, idx: refHead(g, k)}
				if k < 0 && len(G) > 0 {
					// emitted as records fall out of each group's window: order across groups is not documented
					e = expect{mode: mGroupSet, idx: refHead(g, k), keyOf: g.keyOf}
				}
				s.check(nil, args, e, out)
				headOut[k] = out
			}
			s.h.add("param:tail -n k=" + kClass(k, n))
			args = withG([]string{"tail", "-n", itoa(k)}, G)
			if out, ok := s.sel(nil, args, nil); ok {
				if k >= 0 {
					e := expect{mode: mOrdered, idx: refTail(g, k)}
					if len(G) > 0 {
						// the reference-verbs example prints group after group; the usage text fixes no order across groups
						e = expect{mode: mGroupSet, idx: refTail(g, k), keyOf: g.keyOf}
					}
					s.check(nil, args, e, out)
					tailOut[k] = out
				} else {
					// a negative tail count is not documented: selection-only, no repeats
					s.h.add("unconstrained:tail -n negative")
					if hasDup(out) {
						s.viol(nil, args, "output repeats a record: "+fmtIdx(out), "")
					}
				}
			}
		}
		for k := 0; k <= n+2; k++ {
			s.h.add("param:tail -n +k=" + kClass(k, n))
			args := withG([]string{"tail", "-n", "+" + itoa(k)}, G)
			out, ok := s.sel(nil, args, nil)
			if !ok {
				continue
			}
			// "+n: start at the nth record", records being numbered from 1: the records whose
			// 1-based position in their group is >= k. For k=0 that is every record, the same
			// as +1 (reference-verbs.md: "As with GNU tail, a leading + starts at the nth record").
			s.check(nil, args, expect{mode: mOrdered, idx: refTailFrom(g, k)}, out)
			tailFrom[k] = out
		}
		// starting later never adds a record: tail -n +k is a superset of tail -n +(k+1), for every k >= 0
		for k := 0; k <= n+1; k++ {
			a, ok1 := tailFrom[k]
			bb, ok2 := tailFrom[k+1]
			if ok1 && ok2 {
				s.w.Eval(1)
				s.h.add("law:tail -n +k superset of tail -n +(k+1)")
				in := map[int]bool{}
				for _, o := range a {
					in[o] = true
				}
				for _, o := range bb {
					if !in[o] {
						p := strings.Join(withG([]string{"k=" + itoa(k)}, G), " ")
						s.w.Violation(s.prefix+"law:tail -n +k superset of tail -n +(k+1):"+p+":"+s.descr,
							fmt.Sprintf("tail -n +%d outputs %s but tail -n +%d outputs %s on input %s (%s): starting later must not add records", k, fmtIdx(a), k+1, fmtIdx(bb), s.inputBrief(), p),
							map[string]any{"law": "tail -n +k superset of tail -n +(k+1)", "params": p, "stdin": s.text})
						break
					}
				}
			}
		}
		// |head -n k| + |tail -n +(k+1)| = number of records having the group-by fields, and the two partition them
		for k := 0; k <= n+1; k++ {
			a, ok1 := headOut[k]
			bb, ok2 := tailFrom[k+1]
			if ok1 && ok2 {
				s.partition("head -n k + tail -n +(k+1)", withG([]string{"k=" + itoa(k)}, G), a, bb, universe)
			}
			// head -n -k (all but the last k) and tail -n k (the last k)
			a, ok1 = headOut[-k]
			bb, ok2 = tailOut[k]
			if k > 0 && ok1 && ok2 {
				s.partition("head -n -k + tail -n k", withG([]string{"k=" + itoa(k)}, G), a, bb, universe)
			}
		}
		// defaults (count 10)
		for _, v := range []string{"head", "tail"} {
			args := withG([]string{v}, G)
			if out, ok := s.sel(nil, args, nil); ok {
				e := expect{mode: mOrdered, idx: refHead(g, 10)}
				if v == "tail" {
					e = expect{mode: mOrdered, idx: refTail(g, 10)}
					if len(G) > 0 {
						e = expect{mode: mGroupSet, idx: refTail(g, 10), keyOf: g.keyOf}
					}
				}
				s.check(nil, args, e, out)
			}
		}
	}
	// boundary values and spellings of every numeric option
	checkSpellings(s, Gs[:2])

	// the same counts with one record per batch (head signals "done" upstream between batches)
	{
		g := groupByFields(st, nil)
		main := []string{"--records-per-batch", "1"}
		for k := -(n + 1); k <= n+1; k++ {
			args := []string{"head", "-n", itoa(k)}
			if out, ok := s.sel(main, args, nil); ok {
				s.check(main, args, expect{mode: mOrdered, idx: refHead(g, k)}, out)
			}
			if k >= 0 {
				args = []string{"tail", "-n", itoa(k)}
				if out, ok := s.sel(main, args, nil); ok {
					s.check(main, args, expect{mode: mOrdered, idx: refTail(g, k)}, out)
				}
			}
		}
	}

	// ------------------------------------------------------------ decimate
	for _, G := range Gs {
		g := groupByFields(st, G)
		for _, nn := range append(rangeInts(1, n+1), 10) {
			for _, mode := range []string{"", "-b", "-e"} {
				args := []string{"decimate"}
				if nn != 10 {
					args = append(args, "-n", itoa(nn))
				}
				if mode != "" {
					args = append(args, mode)
				}
				args = withG(args, G)
				s.h.add("param:decimate -n=" + kClass(nn, n))
				out, ok := s.sel(nil, args, nil)
				if !ok {
					continue
				}
				req, opt := refDecimate(g, nn, mode == "-b")
				if len(opt) > 0 {
					s.h.add("unconstrained:decimate -b incomplete last bunch")
				}
				s.check(nil, args, expect{mode: mOrdered, idx: req, opt: opt}, out)
			}
		}
	}

	// ------------------------------------------------------------ filter / filter -x
	for _, fc := range filterCases {
		inDomain := fc.domain == nil || fc.domain(st)
		if !inDomain {
			// non-boolean, non-absent filter value: excluded by the property ("boolean or absent"); it must still not crash
			s.h.add("domain:filter non-boolean (outside)")
			r := vf.RunMlr([]string{"filter", fc.expr}, vf.MlrOpts{Stdin: &s.text})
			s.w.Eval(1)
			if r.Panic != "" {
				s.viol(nil, []string{"filter", fc.expr}, "PANIC: "+r.Panic, r.Stdout)
			}
			continue
		}
		s.h.add("domain:filter boolean-or-absent (inside)")
		s.h.add("param:filter " + fc.expr)
		pos, ok1 := s.sel(nil, []string{"filter", fc.expr}, nil)
		neg, ok2 := s.sel(nil, []string{"filter", "-x", fc.expr}, nil)
		if ok1 && ok2 {
			s.partition("filter X + filter -x X", []string{fc.expr}, pos, neg, all)
		}
		if fc.ref != nil {
			var req, opt, nreq []int
			for i, r := range st {
				switch fc.ref(r, i+1) {
				case 1:
					req = append(req, i)
				case 0:
					opt = append(opt, i)
					s.h.add("unconstrained:filter cell (empty vs number)")
				default:
					nreq = append(nreq, i)
				}
			}
			if ok1 {
				s.check(nil, []string{"filter", fc.expr}, expect{mode: mOrdered, idx: req, opt: opt}, pos)
			}
			if ok2 {
				s.check(nil, []string{"filter", "-x", fc.expr}, expect{mode: mOrdered, idx: nreq, opt: opt}, neg)
			}
		}
	}
	if out, ok := s.sel(nil, []string{"filter", "-q", "true"}, nil); ok {
		s.check(nil, []string{"filter", "-q", "true"}, expect{mode: mExact}, out)
	}

	// ------------------------------------------------------------ grep
	for _, pat := range grepPatterns {
		for _, ci := range []bool{false, true} {
			for _, valuesOnly := range []bool{false, true} {
				base := []string{"grep"}
				rxs := pat
				if ci {
					base = append(base, "-i")
					rxs = "(?i)" + pat
				}
				if valuesOnly {
					base = append(base, "-a")
				}
				rx := regexp.MustCompile(rxs)
				var yes, no []int
				for i, r := range st {
					l := r.dkvp()
					if valuesOnly {
						l = r.nidx()
					}
					if rx.MatchString(l) {
						yes = append(yes, i)
					} else {
						no = append(no, i)
					}
				}
				s.h.add("param:grep " + pat)
				a1 := append(append([]string(nil), base...), pat)
				a2 := append(append(append([]string(nil), base...), "-v"), pat)
				o1, ok1 := s.sel(nil, a1, nil)
				o2, ok2 := s.sel(nil, a2, nil)
				if ok1 {
					s.check(nil, a1, expect{mode: mOrdered, idx: yes}, o1)
				}
				if ok2 {
					s.check(nil, a2, expect{mode: mOrdered, idx: no}, o2)
				}
				if ok1 && ok2 {
					s.partition("grep + grep -v", a1[1:], o1, o2, all)
				}
			}
		}
	}

	// ------------------------------------------------------------ having-fields
	checkHavingFields(s, idHFCases)

	// ------------------------------------------------------------ sample, bootstrap, shuffle
	for _, G := range Gs[:2] {
		g := groupByFields(st, G)
		for k := 0; k <= n+1; k++ {
			for seed := 1; seed <= 3; seed++ {
				main := []string{"--seed", itoa(seed)}
				args := withG([]string{"sample", "-k", itoa(k)}, G)
				s.h.add("param:sample -k=" + kClass(k, n))
				out, ok := s.sel(main, args, nil)
				if !ok {
					continue
				}
				if k > 0 && k < n {
					s.w.Nontrivial(1)
				}
				// without replacement: no repeats; per group exactly min(k, group size); nothing from outside the groups
				problem := ""
				if hasDup(out) {
					problem = "a record is output twice (sampling is without replacement)"
				}
				cnt := map[string]int{}
				for _, o := range out {
					if !g.has[o] {
						problem = fmt.Sprintf("record #%d lacks the group-by field but is output", o+1)
						break
					}
					cnt[g.keyOf[o]]++
				}
				for _, gk := range g.order {
					want := len(g.lists[gk])
					if k < want {
						want = k
					}
					if cnt[gk] != want && problem == "" {
						problem = fmt.Sprintf("group %q has %d records, -k %d: expected %d in the output, got %d", gk, len(g.lists[gk]), k, want, cnt[gk])
					}
				}
				if problem != "" {
					s.viol(main, args, "output records "+fmtIdx(out)+"; "+problem, "")
				}
				s.w.AddSet("outcomes", outcomeClass(out, n))
			}
		}
	}
	shuffles := map[string]bool{}
	for seed := 1; seed <= 3; seed++ {
		main := []string{"--seed", itoa(seed)}
		if out, ok := s.sel(main, []string{"shuffle"}, nil); ok {
			if n > 1 {
				s.w.Nontrivial(1)
			}
			if !equalInts(ascending(out), all) {
				s.viol(main, []string{"shuffle"}, "output records "+fmtIdx(out)+" are not a permutation of the input "+fmtIdx(all), "")
			}
			shuffles[fmtIdx(out)] = true
			s.w.AddSet("outcomes", outcomeClass(out, n))
		}
		if out, ok := s.sel(main, []string{"bootstrap"}, nil); ok {
			if n > 1 {
				s.w.Nontrivial(1)
			}
			// every line is an input record (sel); the default sample size is the input size
			if len(out) != n {
				s.viol(main, []string{"bootstrap"}, fmt.Sprintf("%d records out, expected %d (defaults to the number of input records)", len(out), n), "")
			}
			s.w.AddSet("outcomes", outcomeClass(out, n))
		}
	}
	if n >= 4 && len(shuffles) > 1 {
		s.h.add("vacuity:streams with >= 2 distinct shuffle orders")
	}
	for _, m := range []int{0, 1, n + 1} {
		main := []string{"--seed", "1"}
		args := []string{"bootstrap", "-n", itoa(m)}
		if out, ok := s.sel(main, args, nil); ok {
			want := m
			if n == 0 {
				want = 0 // nothing to draw from, and nothing may be invented
			}
			if len(out) != want {
				s.viol(main, args, fmt.Sprintf("%d records out, expected %d", len(out), want), "")
			}
		}
	}

	// ------------------------------------------------------------ tac
	if out, ok := s.sel(nil, []string{"tac"}, nil); ok {
		s.check(nil, []string{"tac"}, expect{mode: mExact, idx: reversed(n)}, out)
	}
	if out, ok := s.sel(nil, []string{"tac", "then", "tac"}, nil); ok {
		s.check(nil, []string{"tac", "then", "tac"}, expect{mode: mExact, idx: all}, out)
	}
	{
		main := []string{"--records-per-batch", "1"}
		if out, ok := s.sel(main, []string{"tac", "then", "tac"}, nil); ok {
			s.check(main, []string{"tac", "then", "tac"}, expect{mode: mExact, idx: all}, out)
		}
	}

	// head after / before tac: the first k reversed, and the last k reversed
	{
		g := groupByFields(st, nil)
		for k := 0; k <= n+1; k++ {
			args := []string{"head", "-n", itoa(k), "then", "tac"}
			if out, ok := s.sel(nil, args, nil); ok {
				want := ascending(refHead(g, k))
				rev := make([]int, len(want))
				for i, v := range want {
					rev[len(want)-1-i] = v
				}
				s.check(nil, args, expect{mode: mExact, idx: rev}, out)
			}
			args = []string{"tac", "then", "head", "-n", itoa(k)}
			if out, ok := s.sel(nil, args, nil); ok {
				want := ascending(refTail(g, k))
				rev := make([]int, len(want))
				for i, v := range want {
					rev[len(want)-1-i] = v
				}
				s.check(nil, args, expect{mode: mExact, idx: rev}, out)
			}
		}
	}

	// ------------------------------------------------------------ group-by, group-like
	for _, G := range [][]string{{"g"}, {"x"}, {"g", "x"}, {"x", "g"}} {
		g := groupByFields(st, G)
		args := []string{"group-by", strings.Join(G, ",")}
		if out, ok := s.sel(nil, args, nil); ok {
			s.check(nil, args, expect{mode: mExact, idx: groupedOrder(g)}, out)
			// group sizes sum to the number of records having the group-by fields
			s.w.Eval(1)
			if len(out) != g.nHave {
				s.w.Violation("law:group sizes sum:group-by "+strings.Join(G, ",")+":"+s.descr, fmt.Sprintf("mlr group-by %s on input %s: %d records out, but %d records have the group-by fields", strings.Join(G, ","), s.inputBrief(), len(out), g.nHave), map[string]any{"stdin": s.text})
			}
		}
	}
	{
		g := groupBy(st, func(r rec) (string, bool) { return strings.Join(r.keys(), sep), true })
		if out, ok := s.sel(nil, []string{"group-like"}, nil); ok {
			s.check(nil, []string{"group-like"}, expect{mode: mExact, idx: groupedOrder(g)}, out)
		}
	}

	// ------------------------------------------------------------ uniq -a (every record is distinct here: see the anon pass for repeats)
	if out, ok := s.sel(nil, []string{"uniq", "-a"}, nil); ok {
		s.check(nil, []string{"uniq", "-a"}, expect{mode: mExact, idx: all}, out)
	}
	if out, ok := s.sel(nil, []string{"uniq", "-a", "-c"}, stripCount("count", func(int) string { return "1" })); ok {
		s.check(nil, []string{"uniq", "-a", "-c"}, expect{mode: mExact, idx: all}, out)
	}
	if r, ok := s.run(nil, []string{"uniq", "-a", "-n"}); ok {
		if want := "count=" + itoa(n) + "\n"; r.Stdout != want {
			s.viol(nil, []string{"uniq", "-a", "-n"}, fmt.Sprintf("output %q, expected %q", r.Stdout, want), r.Stdout)
		}
	}

	// ------------------------------------------------------------ cat, cat -n/-N [-g]
	for _, a := range [][]string{{"cat"}, {"cat", "-g", "g"}} {
		if out, ok := s.sel(nil, a, nil); ok {
			s.check(nil, a, expect{mode: mExact, idx: all}, out)
		}
	}
	for _, name := range []string{"n", "idx"} {
		for _, G := range [][]string{nil, {"g"}, {"g", "x"}} {
			g := groupByFields(st, G)
			args := []string{"cat", "-n"}
			if name != "n" {
				args = []string{"cat", "-N", name}
			}
			args = withG(args, G)
			// expected counter of the record at output position pos (cat keeps the stream order)
			seen := map[string]int{}
			wantN := make([]string, n)
			for i := range st {
				if !g.has[i] {
					wantN[i] = "" // record outside every group: its counter is not documented
					continue
				}
				seen[g.keyOf[i]]++
				wantN[i] = itoa(seen[g.keyOf[i]])
			}
			out, ok := s.sel(nil, args, stripCount(name, func(pos int) string {
				if pos < n {
					if wantN[pos] == "" {
						s.h.add("unconstrained:cat -n -g counter of a record lacking the field")
					}
					return wantN[pos]
				}
				return ""
			}))
			if ok {
				if n > 1 && len(g.order) > 1 {
					s.w.Nontrivial(1)
				}
				s.check(nil, args, expect{mode: mExact, idx: all}, out)
			}
		}
	}

	// ------------------------------------------------------------ nothing, skip-trivial-records
	if out, ok := s.sel(nil, []string{"nothing"}, nil); ok {
		s.check(nil, []string{"nothing"}, expect{mode: mExact}, out)
	}
	if out, ok := s.sel(nil, []string{"skip-trivial-records"}, nil); ok {
		s.check(nil, []string{"skip-trivial-records"}, expect{mode: mExact, idx: all}, out) // the id is never empty
	}
}

// A field name listed twice (--at-least g,g) is enumerated on streams of at
// most this many records only.
const dupListMaxN = 2

func checkHavingFields(s *sctx, cases []hfCase) {
	all := identity(s.n)
	byArgs := map[string][]int{}
	for _, hc := range cases {
		args := append([]string{"having-fields"}, hc.args...)
		var want []int
		for i, r := range s.st {
			if hc.ref(r.keys()) {
				want = append(want, i)
			}
		}
		if hc.dup && s.n > dupListMaxN {
			continue
		}
		s.h.add("param:having-fields " + hc.args[0])
		out, ok := s.sel(nil, args, nil)
		if !ok {
			continue
		}
		if hc.dup {
			// a name listed twice: same set of names; kept under its own key group
			save := s.prefix
			s.prefix = "duplist:" + save
			s.check(nil, args, expect{mode: mOrdered, idx: want}, out)
			s.prefix = save
			continue
		}
		s.check(nil, args, expect{mode: mOrdered, idx: want}, out)
		byArgs[strings.Join(hc.args, " ")] = out
	}
	for _, hc := range cases {
		if hc.args[0] != "--any-matching" {
			continue
		}
		a, ok1 := byArgs["--any-matching "+hc.args[1]]
		b, ok2 := byArgs["--none-matching "+hc.args[1]]
		if ok1 && ok2 {
			s.partition("having-fields any-matching + none-matching", []string{hc.args[1]}, a, b, all)
		}
	}
}

// stripCount removes a counter field named name from a DKVP output line. The
// counter must be the first field (cat -n: "Prepend") or, for uniq -c whose
// usage does not say where the count goes, the first or the last. want gives
// the required value for the line at an output position ("" = not asserted).
func stripCount(name string, want func(pos int) string) func(line string, pos int) (string, string) {
	return func(line string, pos int) (string, string) {
		pre := name + "="
		var val, rest string
		switch {
		case strings.HasPrefix(line, pre):
			val, rest, _ = strings.Cut(line[len(pre):], ",")
		case name == "count" && strings.Contains(line, ","+pre):
			i := strings.LastIndex(line, ","+pre)
			val, rest = line[i+len(pre)+1:], line[:i]
		default:
			return "", "has no leading counter field " + name
		}
		if w := want(pos); w != "" && val != w {
			return "", fmt.Sprintf("counter %s=%s, expected %s", name, val, w)
		}
		return rest, ""
	}
}

func rangeInts(lo, hi int) []int {
	var out []int
	for i := lo; i <= hi; i++ {
		out = append(out, i)
	}
	return out
}

// kClass names a count relative to the stream length, for hit counting.
func kClass(k, n int) string {
	switch {
	case k == 0:
		return "0"
	case k < 0 && -k > n:
		return "-(N+1)"
	case k < 0 && -k == n:
		return "-N"
	case k < 0:
		return "negative"
	case k == n+1:
		return "N+1"
	case k > n+1:
		return "beyond N+1"
	case k == n:
		return "N"
	case k == n-1:
		return "N-1"
	case k == 1:
		return "1"
	}
	return "inner"
}
