// Package c11: check for property C11 (see /verif/DESIGN.md §3 C11).
package c11
