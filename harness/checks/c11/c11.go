// Package c11: record-selecting verbs only select (property C11, see
// /verif/DESIGN.md §3 C11). Bounded exhaustive enumeration of record streams x
// verb parameters through the real command line, in-process, against a
// list-algebra reference (model.go) and the property's laws.
package c11

import (
	"fmt"
	"sort"
	"strings"

	"verif/harness/vf"
)

func init() {
	vf.Register(&vf.CheckDef{ID: "C11", Level: "model_checking", Run: run,
		Workers: map[string]vf.WorkerFunc{"ids": idWorker, "anon": anonWorker, "comma": commaWorker, "gval": gvalWorker}})
}

var anchoredVerbs = []string{"head", "tail", "decimate", "filter", "grep", "having-fields", "sample", "bootstrap", "shuffle", "tac",
	"group-by", "group-like", "uniq", "cat", "nothing", "skip-trivial-records"}

func run(c *vf.Ctx) {
	b := idBoundsFor(c.Quick())
	c.Rule = fmt.Sprintf("case = (record stream, verb + parameters), all pairs distinct by construction and run through the real CLI in-process. "+
		"ids pass: every DKVP stream of N records (unique number-like id per record) with g in {a,b,absent} x x in {1,empty,absent} per record for N<=%d (9^N) and every g pattern for N<=%d (3^N, x cycling); "+
		"on each: head/tail -n k for EVERY k in -(N+1)..N+1, tail -n +k for k in 0..N+2, with and without -g (and --records-per-batch 1), decimate -n 1..N+1 and default x {default,-b,-e} x -g, "+
		"%d filter expressions x {-,-x}, %d grep patterns x -i x -a x -v, %d having-fields configurations, sample -k 0..N+1 x -g x 3 seeds, bootstrap, shuffle, tac, tac then tac, group-by (4 lists), group-like, uniq -a [-c|-n], cat [-n|-N] [-g], nothing, skip-trivial-records. "+
		"anon pass: every JSON-Lines stream of N<=%d records without ids over 9 shapes (incl. {} and repeats). comma pass: every stream of N<=%d records over 4 (g,h) value pairs containing ',' and 3 key shapes containing ','. "+
		"spellings (on every ids stream, with and without -g): glued -nK/-kK for K in 0..N+1 (head, tail, decimate, sample, bootstrap), head -n -0, tail -n +0/-0, invalid counts (decimate -n 0/-1, sample -k -1, bootstrap -n -1), and for N<=%d the extremes 2^63-1, -(2^63-1), -2^63, 2^32+1, -(2^32+1), 2^31 of head/tail/tail +/decimate [-b] (sample: 2^63-1 only). "+
		"gval pass: every DKVP stream of N<=%d records (unique id) over g in {a, EMPTY, absent, '(absent)', '(error)'} x h in {absent, EMPTY} (10^N); on each, with -g g and -g g,h (thorough tier: also -g h,g): head -n 1|2|-1, tail -n 1|2|+1|+2, decimate -n 1|2|2 -b, sample -k 1|2, group-by, cat -n|-N idx, and the two partition laws. "+
		"distinct_nontrivial counts the cases whose required selection is neither empty nor the whole input unchanged.",
		b.fullN, b.maxN, len(filterCases), len(grepPatterns), len(idHFCases), anonMaxN(c.Quick()), commaMaxN(c.Quick()), hugeMaxN, gvalMaxN(c.Quick()))

	c.Assume("records lacking a -g / group-by field belong to no group and are not output by head/tail/decimate/sample/group-by (property: 'group sizes sum to the number of records having the group-by fields'); cat -n -g passes them with a counter whose value is not asserted")
	c.Assume("order ACROSS groups is not asserted for tail -n k -g, head -n -k -g and sample -g (usage texts fix none); the set, and the input order within each group, are")
	c.Assume("not documented, so only 'selects input records, none twice, no panic' is asserted: tail -n with a negative count (incl. -0 and -2^63); head -n +k is not run (spelling not in head's usage); head -n -0 may print nothing (first 0) or everything (all but the last 0)")
	c.Assume("tail -n +0 is tail -n +1: '+n starts at the nth record' of records numbered from 1, 'as with GNU tail' (reference-verbs.md); tail -n +k is a superset of tail -n +(k+1) for every k >= 0")
	c.Assume("a record lacking a group-by field belongs to no group, whatever VALUES other records have there: the empty string and strings spelling Miller's sentinels ('(absent)', '(error)') are ordinary group values")
	c.Assume("the glued spelling -nK (source: lib.Getoptify, regression cases verb-head/0006, verb-tail/0006) means -n K when accepted; counts a verb reports as invalid (decimate -n <= 0, sample -k < 0, bootstrap -n < 0) may be rejected or accepted, but never panic or invent records")
	c.Assume("sample -k between 2^27 and 2^63-2 and bootstrap -n beyond N+1 are not run (memory / output proportional to the count)")
	c.Assume("decimate -b: whether the first record of a trailing incomplete bunch is printed is not asserted; decimate -b together with -e is not run")
	c.Assume("filter: for $x==1 and $x>0 the cell 'x is empty' is not asserted (comparison of empty with a number); compound expressions are checked by the partition law only; a filter value that is neither boolean nor absent is outside the property (must only not panic)")
	c.Assume("sample/bootstrap/shuffle: multiset laws only (sizes, membership, no repeats for sample/shuffle) under --seed 1..3; which records are drawn, and their order, are free; statistical uniformity is out of reach")
	c.Assume("uniq -a -c: the count field may be first or last (usage does not say); records are the same when their ordered key/value lists and JSON types are the same; records differing only in field order are not enumerated")
	c.Assume("grep and having-fields regexes are evaluated in the reference with Go's regexp (the documented regex dialect) on the line the grep usage describes (DKVP, or values only with -a, joined by ',')")
	c.Assume("'unchanged' = the whole output line equals the input record's line byte for byte (DKVP), or equals what `mlr cat` prints for that record alone (JSON Lines passes)")
	c.Assume("streaming latency (when a verb emits) is not observed: verbs are driven through the CLI, outputs compared at end of stream; batch sizes other than 500 and 1 are C04's business")
	c.Assume(fmt.Sprintf("having-fields with a name listed twice (g,g) is enumerated on streams of at most %d records only (key group 'duplist'); uniq -d/-u do not exist in this tree (only count-distinct -u) and are not run", dupListMaxN))
	c.Assume("streams longer than the bound, more than two distinct group values, and formats other than DKVP / JSON Lines are not explored")

	r1 := c.RunPool(vf.PoolSpec{Worker: "ids", Shards: 128})
	r2 := c.RunPool(vf.PoolSpec{Worker: "anon", Shards: 64})
	c.RunPool(vf.PoolSpec{Worker: "comma", Shards: 16})
	c.RunPool(vf.PoolSpec{Worker: "gval", Shards: 64})

	// evidence: hit counts per verb / flag / parameter class / alphabet symbol
	groups := map[string]map[string]int64{}
	for k, v := range c.Counters {
		if i := strings.IndexByte(k, ':'); i > 0 {
			g := k[:i]
			if groups[g] == nil {
				groups[g] = map[string]int64{}
			}
			groups[g][k[i+1:]] = v
		}
	}
	for g, m := range groups {
		c.Extra["hits_"+g] = m
		for k := range m {
			delete(c.Counters, g+":"+k)
		}
	}
	for _, v := range anchoredVerbs {
		if groups["verb"][v] == 0 {
			c.Broken("verb %s was never exercised", v)
		}
	}
	for _, sym := range []string{"g=a", "g=b", "g=absent", "x=1", "x=empty", "x=absent", "record {}", "record with only empty values",
		"gval g=a", "gval g=empty", "gval g=absent", "gval g=(absent)", "gval g=(error)", "gval h=absent", "gval h=empty"} {
		if groups["symbol"][sym] == 0 {
			c.Broken("alphabet symbol %s was never exercised", sym)
		}
	}
	if groups["vacuity"]["gval streams with both a record lacking g and a record with empty g"] == 0 {
		c.Broken("gval pass: no stream mixes a record lacking g with a record whose g is empty")
	}
	for _, p := range []string{"huge " + maxI64, "huge " + minI64, "glued -nK=0", "glued -nK=N+1"} {
		if groups["param"][p] == 0 {
			c.Broken("numeric-option boundary %s was never exercised", p)
		}
	}
	outcomes := vf.SortedSet(r1, "outcomes")
	c.Extra["distinct_outcome_classes_ids"] = outcomes
	c.Extra["distinct_outcome_classes_anon"] = vf.SortedSet(r2, "outcomes")
	if len(outcomes) < 4 {
		c.Broken("only %d outcome classes seen: %v", len(outcomes), outcomes)
	}
	var dom []string
	for k, v := range groups["domain"] {
		dom = append(dom, fmt.Sprintf("%s=%d", k, v))
	}
	sort.Strings(dom)
	c.Extra["domain_predicate_sides"] = dom
	c.Extra["bounds"] = map[string]int{"ids_fullN": b.fullN, "ids_maxN": b.maxN, "anon_maxN": anonMaxN(c.Quick()), "comma_maxN": commaMaxN(c.Quick()), "gval_maxN": gvalMaxN(c.Quick()), "huge_maxN": hugeMaxN}
}
