package c03

import (
	"strconv"
	"strings"
	"unicode/utf8"
)

// One field of a record as text.
type kv struct{ k, v string }

// A format pair: how the input is written for Miller's reader and how Miller's
// output is taken apart again. Encoders/decoders are written from
// file-formats.md and share no code with Miller.
type format struct {
	name    string
	inFlags []string
	ouFlags []string
	in      string // "dkvp","csv","tsv","xtab","nidx"
	out     string
}

var formats = []format{
	{"dkvp", []string{"--idkvp"}, []string{"--odkvp"}, "dkvp", "dkvp"},
	{"csv", []string{"--icsv"}, []string{"--ocsv"}, "csv", "csv"},
	{"tsv", []string{"--itsv"}, []string{"--otsv"}, "tsv", "tsv"},
	{"xtab", []string{"--ixtab"}, []string{"--oxtab"}, "xtab", "xtab"},
	{"nidx-in", []string{"--inidx", "--ifs", "space"}, []string{"--odkvp"}, "nidx", "dkvp"},
	{"nidx-out", []string{"--idkvp"}, []string{"--onidx", "--ofs", "space"}, "dkvp", "nidx"},
	{"pprint", []string{"--ipprint"}, []string{"--opprint"}, "pprint", "pprint"},
	{"csvlite", []string{"--icsvlite"}, []string{"--ocsvlite"}, "csvlite", "csvlite"},
	// JSON readers -> non-JSON writers (the property's quantifier is "non-JSON output": the INPUT may be JSON). A
	// JSON-read record always carries a key index (hashed), and its values are typed by the JSON decoder, not by the
	// deferred from-data inference. "json-num": every value that is a legal RFC-8259 number is written as a bare
	// number token, everything else as a JSON string; "json-str": every value is a JSON string; "jsonl": one-line objects.
	{"json-num", []string{"--ijson"}, []string{"--odkvp"}, "json", "dkvp"},
	{"json-str", []string{"--ijson"}, []string{"--ocsv"}, "jsonstr", "csv"},
	{"jsonl", []string{"--ijsonl"}, []string{"--oxtab"}, "jsonl", "xtab"},
}

// shape grid: field x (and w) is a JSON collection; the batch "spelling" is the raw JSON text of the value.
var shapeFormats = []format{
	{"json-shape>dkvp", []string{"--ijson"}, []string{"--odkvp"}, "jsonraw", "dkvp"},
	{"jsonl-shape>xtab", []string{"--ijsonl"}, []string{"--oxtab"}, "jsonraw", "xtab"},
}

func formatByName(n string) *format {
	for i := range formats {
		if formats[i].name == n {
			return &formats[i]
		}
	}
	return nil
}

// inDomain: can the value be represented as one cell of the format at all
// (file-formats.md)? Values outside the domain are not generated for that
// format; evidence counts both sides.
func inDomainOne(f string, v string) bool {
	if strings.Contains(v, "\r") {
		// CR: readers document CRLF/LF line-ending normalisation, so the byte-for-byte law is not stated for it
		return false
	}
	if strings.Contains(v, "\n") {
		// an embedded line feed: only CSV can carry it (inside double quotes, RFC-4180)
		return f == "csv"
	}
	switch f {
	case "json", "jsonstr", "jsonl":
		// JSON text is Unicode: a byte string that is not valid UTF-8 is not representable as a JSON string
		return utf8.ValidString(v)
	case "jsonraw":
		return true
	case "dkvp":
		return !strings.Contains(v, ",")
	case "csv":
		// a cell starting with the UTF-8 BOM at the start of the file would be BOM-stripped: never first cell here (id or x?) -- excluded anyway
		return !strings.HasPrefix(v, "\xef\xbb\xbf")
	case "tsv":
		return !strings.ContainsAny(v, "\t\\")
	case "xtab":
		// "key value" with repeated spaces as padding: leading spaces of a value are not representable; trailing ones are outside the format's domain as well (alignment padding)
		return !strings.HasPrefix(v, " ") && !strings.HasSuffix(v, " ")
	case "nidx":
		// space-separated, repeated separators collapse: no empty values, no spaces
		return v != "" && !strings.Contains(v, " ")
	case "pprint":
		// space-aligned columns: no empty values (written as "-"), no spaces; a line starting with '+' or '|' is
		// barred-pprint decoration to the reader, so such values (possible first cell) are outside the domain
		// "-" is the format's spelling of the empty value
		return v != "" && v != "-" && !strings.Contains(v, " ") && v[0] != '+' && v[0] != '|'
	case "csvlite":
		// "CSV-lite naively splits lines on newline, and fields on comma -- embedded commas and newlines are not
		// escaped in any way": no separator, and no double quote (quote handling is only loosely specified)
		return !strings.ContainsAny(v, ",\"")
	}
	return false
}

func (f *format) inDomain(v string) bool {
	if f.in == "jsonraw" {
		return true // v is the raw JSON text of a collection whose leaves are chosen inside the domain of both shape writers
	}
	return inDomainOne(f.in, v) && inDomainOne(f.out, v)
}

func csvCell(v string) string {
	if v == "" {
		return ""
	}
	if strings.ContainsAny(v, ",\"\n\r") || strings.HasPrefix(v, " ") || strings.HasSuffix(v, " ") {
		// quoting a cell with leading/trailing space is always legal RFC-4180 and avoids any trimming question
		return "\"" + strings.ReplaceAll(v, "\"", "\"\"") + "\""
	}
	return v
}

// encode writes the records in the input format.
func encode(f string, recs [][]kv) string {
	var sb strings.Builder
	switch f {
	case "dkvp":
		for _, r := range recs {
			for i, p := range r {
				if i > 0 {
					sb.WriteByte(',')
				}
				sb.WriteString(p.k)
				sb.WriteByte('=')
				sb.WriteString(p.v)
			}
			sb.WriteByte('\n')
		}
	case "pprint":
		if len(recs) > 0 {
			for i, p := range recs[0] {
				if i > 0 {
					sb.WriteByte(' ')
				}
				sb.WriteString(p.k)
			}
			sb.WriteByte('\n')
		}
		for _, r := range recs {
			for i, p := range r {
				if i > 0 {
					sb.WriteByte(' ')
				}
				sb.WriteString(p.v)
			}
			sb.WriteByte('\n')
		}
	case "csv", "tsv", "csvlite":
		sep := byte(',')
		if f == "tsv" {
			sep = '\t'
		}
		if len(recs) > 0 {
			for i, p := range recs[0] {
				if i > 0 {
					sb.WriteByte(sep)
				}
				sb.WriteString(p.k)
			}
			sb.WriteByte('\n')
		}
		for _, r := range recs {
			for i, p := range r {
				if i > 0 {
					sb.WriteByte(sep)
				}
				if f == "csv" {
					sb.WriteString(csvCell(p.v))
				} else {
					sb.WriteString(p.v)
				}
			}
			sb.WriteByte('\n')
		}
	case "xtab":
		for ri, r := range recs {
			if ri > 0 {
				sb.WriteByte('\n')
			}
			for _, p := range r {
				sb.WriteString(p.k)
				sb.WriteByte(' ')
				sb.WriteString(p.v)
				sb.WriteByte('\n')
			}
		}
	case "nidx":
		for _, r := range recs {
			for i, p := range r {
				if i > 0 {
					sb.WriteByte(' ')
				}
				sb.WriteString(p.v)
			}
			sb.WriteByte('\n')
		}
	case "json", "jsonstr", "jsonl":
		return encodeJSON(f, recs, nil)
	}
	return sb.String()
}

// isJSONNumber: the RFC-8259 number grammar  -?(0|[1-9][0-9]*)(\.[0-9]+)?([eE][+-]?[0-9]+)?
func isJSONNumber(s string) bool {
	i, n := 0, len(s)
	if i < n && s[i] == '-' {
		i++
	}
	if i >= n {
		return false
	}
	if s[i] == '0' {
		i++
	} else if s[i] >= '1' && s[i] <= '9' {
		for i < n && s[i] >= '0' && s[i] <= '9' {
			i++
		}
	} else {
		return false
	}
	if i < n && s[i] == '.' {
		i++
		j := i
		for i < n && s[i] >= '0' && s[i] <= '9' {
			i++
		}
		if i == j {
			return false
		}
	}
	if i < n && (s[i] == 'e' || s[i] == 'E') {
		i++
		if i < n && (s[i] == '+' || s[i] == '-') {
			i++
		}
		j := i
		for i < n && s[i] >= '0' && s[i] <= '9' {
			i++
		}
		if i == j {
			return false
		}
	}
	return i == n
}

// jsonString: RFC-8259 string token for a valid-UTF-8 text (control characters as \u00XX).
func jsonString(v string) string {
	var sb strings.Builder
	sb.WriteByte('"')
	for i := 0; i < len(v); i++ {
		c := v[i]
		switch {
		case c == '"':
			sb.WriteString("\\\"")
		case c == '\\':
			sb.WriteString("\\\\")
		case c == '\n':
			sb.WriteString("\\n")
		case c == '\t':
			sb.WriteString("\\t")
		case c < 0x20:
			sb.WriteString("\\u00")
			sb.WriteByte("0123456789abcdef"[c>>4])
			sb.WriteByte("0123456789abcdef"[c&15])
		default:
			sb.WriteByte(c)
		}
	}
	sb.WriteByte('"')
	return sb.String()
}

// encodeJSON writes the records as JSON text. raw names a set of field names whose value text already IS JSON (shape grid).
func encodeJSON(f string, recs [][]kv, raw map[string]bool) string {
	var sb strings.Builder
	oneLine := f == "jsonl"
	if !oneLine {
		sb.WriteString("[\n")
	}
	for ri, r := range recs {
		sb.WriteByte('{')
		for i, p := range r {
			if i > 0 {
				sb.WriteString(", ")
			}
			sb.WriteString(jsonString(p.k))
			sb.WriteString(": ")
			switch {
			case raw[p.k]:
				sb.WriteString(p.v)
			case f != "jsonstr" && isJSONNumber(p.v):
				sb.WriteString(p.v)
			default:
				sb.WriteString(jsonString(p.v))
			}
		}
		sb.WriteByte('}')
		if !oneLine && ri < len(recs)-1 {
			sb.WriteByte(',')
		}
		sb.WriteByte('\n')
	}
	if !oneLine {
		sb.WriteString("]\n")
	}
	return sb.String()
}

// ---- shape grid: a JSON value tree with the exact token text of its leaves

type jval struct {
	kind  byte   // 'l' leaf, 'a' array, 'm' map
	text  string // leaf: the text the value has (string content, or the number/boolean token itself)
	keys  []string
	elems []*jval
}

// parseRaw parses the JSON subset the check itself generates (shapes.go): arrays, maps with plain keys, string
// tokens as written by jsonString, bare number/boolean tokens.
func parseRaw(s string) *jval {
	v, rest := parseRawAt(s)
	if v == nil || strings.TrimSpace(rest) != "" {
		panic("c03: parseRaw cannot parse " + s)
	}
	return v
}

func parseRawAt(s string) (*jval, string) {
	s = strings.TrimLeft(s, " ")
	if s == "" {
		return nil, s
	}
	switch s[0] {
	case '[':
		v := &jval{kind: 'a'}
		s = strings.TrimLeft(s[1:], " ")
		for s != "" && s[0] != ']' {
			var e *jval
			e, s = parseRawAt(s)
			if e == nil {
				return nil, s
			}
			v.elems = append(v.elems, e)
			s = strings.TrimLeft(s, " ")
			if s != "" && s[0] == ',' {
				s = s[1:]
			}
			s = strings.TrimLeft(s, " ")
		}
		if s == "" {
			return nil, s
		}
		return v, s[1:]
	case '{':
		v := &jval{kind: 'm'}
		s = strings.TrimLeft(s[1:], " ")
		for s != "" && s[0] != '}' {
			var k, e *jval
			k, s = parseRawAt(s)
			s = strings.TrimLeft(s, " ")
			if k == nil || s == "" || s[0] != ':' {
				return nil, s
			}
			e, s = parseRawAt(s[1:])
			if e == nil {
				return nil, s
			}
			v.keys = append(v.keys, k.text)
			v.elems = append(v.elems, e)
			s = strings.TrimLeft(s, " ")
			if s != "" && s[0] == ',' {
				s = s[1:]
			}
			s = strings.TrimLeft(s, " ")
		}
		if s == "" {
			return nil, s
		}
		return v, s[1:]
	case '"':
		var sb strings.Builder
		i := 1
		for i < len(s) && s[i] != '"' {
			if s[i] == '\\' && i+1 < len(s) {
				switch s[i+1] {
				case 'n':
					sb.WriteByte('\n')
				case 't':
					sb.WriteByte('\t')
				case 'u':
					n, _ := strconv.ParseUint(s[i+2:i+6], 16, 32)
					sb.WriteRune(rune(n))
					i += 4
				default:
					sb.WriteByte(s[i+1])
				}
				i += 2
				continue
			}
			sb.WriteByte(s[i])
			i++
		}
		if i >= len(s) {
			return nil, ""
		}
		return &jval{kind: 'l', text: sb.String()}, s[i+1:]
	}
	i := 0
	for i < len(s) && !strings.ContainsRune(",]} :", rune(s[i])) {
		i++
	}
	if i == 0 {
		return nil, s
	}
	return &jval{kind: 'l', text: s[:i]}, s[i:]
}

// flattenRef: the documented key-spreading of flatten-unflatten.md: map keys and 1-up array indices are joined to
// the field name with the separator, depth first, in the value's own order.
func flattenRef(name string, v *jval, sep string, out *[]kv) {
	switch v.kind {
	case 'l':
		*out = append(*out, kv{name, v.text})
	case 'a':
		for i, e := range v.elems {
			flattenRef(name+sep+strconv.Itoa(i+1), e, sep, out)
		}
	case 'm':
		for i, e := range v.elems {
			flattenRef(name+sep+v.keys[i], e, sep, out)
		}
	}
}

// parseCSV: RFC-4180 rows (quotes, doubled quotes, embedded separators and line breaks).
func parseCSV(s string) [][]string {
	var rows [][]string
	var row []string
	var cell strings.Builder
	i := 0
	n := len(s)
	for i < n {
		// start of a cell
		if s[i] == '"' {
			i++
			for i < n {
				if s[i] == '"' {
					if i+1 < n && s[i+1] == '"' {
						cell.WriteByte('"')
						i += 2
						continue
					}
					i++
					break
				}
				cell.WriteByte(s[i])
				i++
			}
		}
		for i < n && s[i] != ',' && s[i] != '\n' {
			cell.WriteByte(s[i])
			i++
		}
		c := cell.String()
		cell.Reset()
		if i < n && s[i] == ',' {
			row = append(row, c)
			i++
			if i == n { // trailing empty cell at EOF without newline
				row = append(row, "")
				rows = append(rows, row)
				row = nil
			}
			continue
		}
		// end of line or of input
		c = strings.TrimSuffix(c, "\r")
		row = append(row, c)
		rows = append(rows, row)
		row = nil
		i++
	}
	return rows
}

// decode takes Miller's output apart. For "nidx" the keys are positional
// ("1","2",...) and are re-labelled by the caller.
func decode(f string, out string) [][]kv {
	var recs [][]kv
	switch f {
	case "dkvp":
		for _, line := range strings.Split(out, "\n") {
			if line == "" {
				continue
			}
			var r []kv
			for _, cell := range strings.Split(line, ",") {
				if i := strings.IndexByte(cell, '='); i >= 0 {
					r = append(r, kv{cell[:i], cell[i+1:]})
				} else {
					r = append(r, kv{"", cell}) // key-less cell: never matches an original name
				}
			}
			recs = append(recs, r)
		}
	case "pprint":
		var header []string
		for _, line := range strings.Split(out, "\n") {
			if line == "" {
				header = nil // a new block (changed keys) starts with its own header line
				continue
			}
			cells := spaceFields(line)
			if header == nil {
				header = cells
				continue
			}
			if len(cells) != len(header) {
				// a value containing spaces (or an empty key) cannot be told apart in this format: not an input record of ours
				recs = append(recs, []kv{{"", line}})
				continue
			}
			r := make([]kv, len(cells))
			for i, c := range cells {
				r[i] = kv{header[i], c}
			}
			recs = append(recs, r)
		}
	case "csv", "tsv", "csvlite":
		var rows [][]string
		if f == "csv" || f == "csvlite" {
			rows = parseCSV(out)
		} else {
			for _, line := range strings.Split(out, "\n") {
				rows = append(rows, strings.Split(line, "\t"))
			}
			if len(rows) > 0 && len(rows[len(rows)-1]) == 1 && rows[len(rows)-1][0] == "" {
				rows = rows[:len(rows)-1]
			}
		}
		var header []string
		for _, row := range rows {
			if len(row) == 1 && row[0] == "" {
				header = nil // blank line: a new header block follows (csvlite style); csv proper never does this
				continue
			}
			if header == nil {
				header = row
				continue
			}
			var r []kv
			for i, c := range row {
				if i < len(header) {
					r = append(r, kv{header[i], c})
				}
			}
			recs = append(recs, r)
		}
	case "xtab":
		var r []kv
		for _, line := range strings.Split(out, "\n") {
			if line == "" {
				if r != nil {
					recs = append(recs, r)
					r = nil
				}
				continue
			}
			k, v := line, ""
			if i := strings.IndexByte(line, ' '); i >= 0 {
				k = line[:i]
				v = strings.TrimLeft(line[i:], " ")
			}
			r = append(r, kv{k, v})
		}
		if r != nil {
			recs = append(recs, r)
		}
	case "nidx":
		for _, line := range strings.Split(out, "\n") {
			if line == "" {
				continue
			}
			var r []kv
			for _, c := range strings.Split(line, " ") {
				r = append(r, kv{"", c})
			}
			recs = append(recs, r)
		}
	}
	return recs
}

// spaceFields splits on runs of the ASCII space only (the PPRINT separator); TAB, NBSP etc. are data.
func spaceFields(line string) []string {
	var out []string
	for _, c := range strings.Split(line, " ") {
		if c != "" {
			out = append(out, c)
		}
	}
	return out
}
