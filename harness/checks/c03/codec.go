package c03

import (
	"strings"
)

// One field of a record as text.
type kv struct{ k, v string }

// A format pair: how the input is written for Miller's reader and how Miller's
// output is taken apart again. Encoders/decoders are written from
// file-formats.md and share no code with Miller.
type format struct {
	name    string
	inFlags []string
	ouFlags []string
	in      string // "dkvp","csv","tsv","xtab","nidx"
	out     string
}

var formats = []format{
	{"dkvp", []string{"--idkvp"}, []string{"--odkvp"}, "dkvp", "dkvp"},
	{"csv", []string{"--icsv"}, []string{"--ocsv"}, "csv", "csv"},
	{"tsv", []string{"--itsv"}, []string{"--otsv"}, "tsv", "tsv"},
	{"xtab", []string{"--ixtab"}, []string{"--oxtab"}, "xtab", "xtab"},
	{"nidx-in", []string{"--inidx", "--ifs", "space"}, []string{"--odkvp"}, "nidx", "dkvp"},
	{"nidx-out", []string{"--idkvp"}, []string{"--onidx", "--ofs", "space"}, "dkvp", "nidx"},
	{"pprint", []string{"--ipprint"}, []string{"--opprint"}, "pprint", "pprint"},
	{"csvlite", []string{"--icsvlite"}, []string{"--ocsvlite"}, "csvlite", "csvlite"},
}

func formatByName(n string) *format {
	for i := range formats {
		if formats[i].name == n {
			return &formats[i]
		}
	}
	return nil
}

// inDomain: can the value be represented as one cell of the format at all
// (file-formats.md)? Values outside the domain are not generated for that
// format; evidence counts both sides.
func inDomainOne(f string, v string) bool {
	if strings.Contains(v, "\r") {
		// CR: readers document CRLF/LF line-ending normalisation, so the byte-for-byte law is not stated for it
		return false
	}
	if strings.Contains(v, "\n") {
		// an embedded line feed: only CSV can carry it (inside double quotes, RFC-4180)
		return f == "csv"
	}
	switch f {
	case "dkvp":
		return !strings.Contains(v, ",")
	case "csv":
		// a cell starting with the UTF-8 BOM at the start of the file would be BOM-stripped: never first cell here (id or x?) -- excluded anyway
		return !strings.HasPrefix(v, "\xef\xbb\xbf")
	case "tsv":
		return !strings.ContainsAny(v, "\t\\")
	case "xtab":
		// "key value" with repeated spaces as padding: leading spaces of a value are not representable; trailing ones are outside the format's domain as well (alignment padding)
		return !strings.HasPrefix(v, " ") && !strings.HasSuffix(v, " ")
	case "nidx":
		// space-separated, repeated separators collapse: no empty values, no spaces
		return v != "" && !strings.Contains(v, " ")
	case "pprint":
		// space-aligned columns: no empty values (written as "-"), no spaces; a line starting with '+' or '|' is
		// barred-pprint decoration to the reader, so such values (possible first cell) are outside the domain
		// "-" is the format's spelling of the empty value
		return v != "" && v != "-" && !strings.Contains(v, " ") && v[0] != '+' && v[0] != '|'
	case "csvlite":
		// "CSV-lite naively splits lines on newline, and fields on comma -- embedded commas and newlines are not
		// escaped in any way": no separator, and no double quote (quote handling is only loosely specified)
		return !strings.ContainsAny(v, ",\"")
	}
	return false
}

func (f *format) inDomain(v string) bool {
	return inDomainOne(f.in, v) && inDomainOne(f.out, v)
}

func csvCell(v string) string {
	if v == "" {
		return ""
	}
	if strings.ContainsAny(v, ",\"\n\r") || strings.HasPrefix(v, " ") || strings.HasSuffix(v, " ") {
		// quoting a cell with leading/trailing space is always legal RFC-4180 and avoids any trimming question
		return "\"" + strings.ReplaceAll(v, "\"", "\"\"") + "\""
	}
	return v
}

// encode writes the records in the input format.
func encode(f string, recs [][]kv) string {
	var sb strings.Builder
	switch f {
	case "dkvp":
		for _, r := range recs {
			for i, p := range r {
				if i > 0 {
					sb.WriteByte(',')
				}
				sb.WriteString(p.k)
				sb.WriteByte('=')
				sb.WriteString(p.v)
			}
			sb.WriteByte('\n')
		}
	case "pprint":
		if len(recs) > 0 {
			for i, p := range recs[0] {
				if i > 0 {
					sb.WriteByte(' ')
				}
				sb.WriteString(p.k)
			}
			sb.WriteByte('\n')
		}
		for _, r := range recs {
			for i, p := range r {
				if i > 0 {
					sb.WriteByte(' ')
				}
				sb.WriteString(p.v)
			}
			sb.WriteByte('\n')
		}
	case "csv", "tsv", "csvlite":
		sep := byte(',')
		if f == "tsv" {
			sep = '\t'
		}
		if len(recs) > 0 {
			for i, p := range recs[0] {
				if i > 0 {
					sb.WriteByte(sep)
				}
				sb.WriteString(p.k)
			}
			sb.WriteByte('\n')
		}
		for _, r := range recs {
			for i, p := range r {
				if i > 0 {
					sb.WriteByte(sep)
				}
				if f == "csv" {
					sb.WriteString(csvCell(p.v))
				} else {
					sb.WriteString(p.v)
				}
			}
			sb.WriteByte('\n')
		}
	case "xtab":
		for ri, r := range recs {
			if ri > 0 {
				sb.WriteByte('\n')
			}
			for _, p := range r {
				sb.WriteString(p.k)
				sb.WriteByte(' ')
				sb.WriteString(p.v)
				sb.WriteByte('\n')
			}
		}
	case "nidx":
		for _, r := range recs {
			for i, p := range r {
				if i > 0 {
					sb.WriteByte(' ')
				}
				sb.WriteString(p.v)
			}
			sb.WriteByte('\n')
		}
	}
	return sb.String()
}

// parseCSV: RFC-4180 rows (quotes, doubled quotes, embedded separators and line breaks).
func parseCSV(s string) [][]string {
	var rows [][]string
	var row []string
	var cell strings.Builder
	i := 0
	n := len(s)
	for i < n {
		// start of a cell
		if s[i] == '"' {
			i++
			for i < n {
				if s[i] == '"' {
					if i+1 < n && s[i+1] == '"' {
						cell.WriteByte('"')
						i += 2
						continue
					}
					i++
					break
				}
				cell.WriteByte(s[i])
				i++
			}
		}
		for i < n && s[i] != ',' && s[i] != '\n' {
			cell.WriteByte(s[i])
			i++
		}
		c := cell.String()
		cell.Reset()
		if i < n && s[i] == ',' {
			row = append(row, c)
			i++
			if i == n { // trailing empty cell at EOF without newline
				row = append(row, "")
				rows = append(rows, row)
				row = nil
			}
			continue
		}
		// end of line or of input
		c = strings.TrimSuffix(c, "\r")
		row = append(row, c)
		rows = append(rows, row)
		row = nil
		i++
	}
	return rows
}

// decode takes Miller's output apart. For "nidx" the keys are positional
// ("1","2",...) and are re-labelled by the caller.
func decode(f string, out string) [][]kv {
	var recs [][]kv
	switch f {
	case "dkvp":
		for _, line := range strings.Split(out, "\n") {
			if line == "" {
				continue
			}
			var r []kv
			for _, cell := range strings.Split(line, ",") {
				if i := strings.IndexByte(cell, '='); i >= 0 {
					r = append(r, kv{cell[:i], cell[i+1:]})
				} else {
					r = append(r, kv{"", cell}) // key-less cell: never matches an original name
				}
			}
			recs = append(recs, r)
		}
	case "pprint":
		var header []string
		for _, line := range strings.Split(out, "\n") {
			if line == "" {
				header = nil // a new block (changed keys) starts with its own header line
				continue
			}
			cells := spaceFields(line)
			if header == nil {
				header = cells
				continue
			}
			if len(cells) != len(header) {
				// a value containing spaces (or an empty key) cannot be told apart in this format: not an input record of ours
				recs = append(recs, []kv{{"", line}})
				continue
			}
			r := make([]kv, len(cells))
			for i, c := range cells {
				r[i] = kv{header[i], c}
			}
			recs = append(recs, r)
		}
	case "csv", "tsv", "csvlite":
		var rows [][]string
		if f == "csv" || f == "csvlite" {
			rows = parseCSV(out)
		} else {
			for _, line := range strings.Split(out, "\n") {
				rows = append(rows, strings.Split(line, "\t"))
			}
			if len(rows) > 0 && len(rows[len(rows)-1]) == 1 && rows[len(rows)-1][0] == "" {
				rows = rows[:len(rows)-1]
			}
		}
		var header []string
		for _, row := range rows {
			if len(row) == 1 && row[0] == "" {
				header = nil // blank line: a new header block follows (csvlite style); csv proper never does this
				continue
			}
			if header == nil {
				header = row
				continue
			}
			var r []kv
			for i, c := range row {
				if i < len(header) {
					r = append(r, kv{header[i], c})
				}
			}
			recs = append(recs, r)
		}
	case "xtab":
		var r []kv
		for _, line := range strings.Split(out, "\n") {
			if line == "" {
				if r != nil {
					recs = append(recs, r)
					r = nil
				}
				continue
			}
			k, v := line, ""
			if i := strings.IndexByte(line, ' '); i >= 0 {
				k = line[:i]
				v = strings.TrimLeft(line[i:], " ")
			}
			r = append(r, kv{k, v})
		}
		if r != nil {
			recs = append(recs, r)
		}
	case "nidx":
		for _, line := range strings.Split(out, "\n") {
			if line == "" {
				continue
			}
			var r []kv
			for _, c := range strings.Split(line, " ") {
				r = append(r, kv{"", c})
			}
			recs = append(recs, r)
		}
	}
	return recs
}

// spaceFields splits on runs of the ASCII space only (the PPRINT separator); TAB, NBSP etc. are data.
func spaceFields(line string) []string {
	var out []string
	for _, c := range strings.Split(line, " ") {
		if c != "" {
			out = append(out, c)
		}
	}
	return out
}
