package c03

import (
	"fmt"
	"os"
	"regexp"
	"sort"
	"strconv"
	"strings"

	"github.com/johnkerl/miller/v6/pkg/dsl/cst"
	"github.com/johnkerl/miller/v6/pkg/transformers"
)

// A reader template: a verb chain (argv after the main flags) that READS field
// x (or reads nothing, or assigns ANOTHER field) and never assigns x.
// Placeholders: {id} {x} {y} {w} {z} {all} {rev} {xpos} {lj} LEFT LEFTX in
// args; in DSL text `$x`, `$y`, ... are rewritten to `${actualname}`.
type tmpl struct {
	name         string
	verb         string // name in TRANSFORMER_LOOKUP_TABLE this template is accounted to
	group        string // "verb", "dsl", "dslfn", "chain", "identity"
	args         []string
	assigns      []string          // logical names this template is documented to (possibly) assign or re-create
	assignsEmpty []string          // logical names assigned only when their input text is empty; "*" = every field
	moves        []string          // logical names whose position the verb is documented to change; "*" = all
	renames      map[string]string // logical name -> new field name
	firstRenamed string            // label: the first field of the record is renamed to this
	numericOnly  bool              // verb aborts on non-numeric input: feed only the check's own number grammar
	valueOK      func(string) bool // identity-on-domain verbs: only values in the documented identity domain
	mainFlags    []string
	left         string // "", "id", "x", "empty": join's left file
	hetero       bool   // output records have differing keys: csv/tsv writers refuse them by design (unset/schema change)
	foreign      bool   // also emits records that are not input records (gap, stats1 -s): those are skipped
	core         bool   // member of the spelling-exhaustive pass (thorough)
	core1        bool   // ... also in the quick tier, and a member of the ordered-pair chains
	light        bool   // reduced format/layout grid
	tmpfile      bool   // uses {tmp} output prefix; files are removed afterwards
	flatsep      string // shape grid: the separator this template key-spreads collections with (default ".")
	wfill        bool   // generated function form whose other arguments are $w: reduced scalar grid, full shape grid
}

func (t *tmpl) A(n ...string) *tmpl  { t.assigns = append(t.assigns, n...); return t }
func (t *tmpl) AE(n ...string) *tmpl { t.assignsEmpty = append(t.assignsEmpty, n...); return t }
func (t *tmpl) M(n ...string) *tmpl  { t.moves = append(t.moves, n...); return t }
func (t *tmpl) R(from, to string) *tmpl {
	if t.renames == nil {
		t.renames = map[string]string{}
	}
	t.renames[from] = to
	return t
}
func (t *tmpl) Num() *tmpl                   { t.numericOnly = true; return t }
func (t *tmpl) Core() *tmpl                  { t.core = true; return t }
func (t *tmpl) Het() *tmpl                   { t.hetero = true; return t }
func (t *tmpl) Foreign() *tmpl               { t.foreign = true; return t }
func (t *tmpl) Main(f ...string) *tmpl       { t.mainFlags = append(t.mainFlags, f...); return t }
func (t *tmpl) Left(k string) *tmpl          { t.left = k; return t }
func (t *tmpl) Light() *tmpl                 { t.light = true; return t }
func (t *tmpl) Group(g string) *tmpl         { t.group = g; return t }
func (t *tmpl) OK(f func(string) bool) *tmpl { t.valueOK = f; return t }
func (t *tmpl) Sep(s string) *tmpl           { t.flatsep = s; return t }

func v(args ...string) *tmpl {
	return &tmpl{name: strings.Join(args, " "), verb: args[0], group: "verb", args: args}
}

func put(expr string) *tmpl {
	return &tmpl{name: "put " + expr, verb: "put", group: "dsl", args: []string{"put", expr}}
}
func putq(expr string) *tmpl {
	return &tmpl{name: "put -q " + expr, verb: "put", group: "dsl", args: []string{"put", "-q", expr}}
}
func filter(expr string, flags ...string) *tmpl {
	a := append([]string{"filter"}, flags...)
	a = append(a, expr)
	return &tmpl{name: strings.Join(a, " "), verb: "filter", group: "dsl", args: a}
}

func isASCII(s string) bool {
	for i := 0; i < len(s); i++ {
		if s[i] >= 0x80 {
			return false
		}
	}
	return true
}
func noSpace(s string) bool { return !strings.ContainsAny(s, " ") }

// moderate: numbers of ordinary magnitude (the iterative fitters of stats2 abort on overflowing or non-finite sums).
func moderate(s string) bool {
	if !looksNumeric(s) {
		return false
	}
	if f, err := strconv.ParseFloat(s, 64); err == nil {
		return f > -1e6 && f < 1e6
	}
	if i, err := strconv.ParseInt(s, 0, 64); err == nil {
		return i > -1000000 && i < 1000000
	}
	return false
}

// Verbs that are outside the property's quantifier, with the reason. Every verb
// of TRANSFORMER_LOOKUP_TABLE is either here or has at least one template;
// anything else is reported as uncovered.
var excludedVerbs = map[string]string{
	"altkv":         "re-creates the whole record from value pairs (assigns every field)",
	"bootstrap-ci":  "emits only computed statistics, no input field passes through",
	"check":         "emits nothing",
	"count":         "emits only counts",
	"describe":      "emits only a computed schema",
	"format-values": "documented to re-format every field value (assigns every field)",
	"histogram":     "emits only bin counts",
	"nothing":       "emits nothing",
	"seqgen":        "ignores the input stream",
	"sparkline":     "emits only computed sparklines",
	"summary":       "emits only computed summaries",
	"surv":          "emits only a computed survival curve",
}

const big = "1000000"

func verbTemplates() []*tmpl {
	T := []*tmpl{
		// ---- pass-through without reading
		v("cat").Core(),
		v("cat", "-n"),
		v("cat", "-N", "idx"),
		v("cat", "-n", "-g", "{x}"),
		v("cat", "-g", "{x},{y}"),
		v("cat", "--filename", "--filenum"),
		v("tac"),
		v("group-like"),
		v("regularize"),
		v("skip-trivial-records"),
		v("remove-empty-columns"),
		v("shuffle").Main("--seed", "1"),
		v("bootstrap").Main("--seed", "1"),
		v("bootstrap", "-n", "300").Main("--seed", "2"),
		v("sample", "-k", big).Main("--seed", "1"),
		v("sample", "-k", "2", "-g", "{y}").Main("--seed", "1"),
		v("sample", "-k", "1", "-g", "{x}").Main("--seed", "1"),
		v("decimate", "-n", "1"),
		v("decimate", "-n", "2", "-b"),
		v("decimate", "-n", "2", "-e", "-g", "{y}"),
		v("decimate", "-n", "1", "-g", "{x}"),
		v("tee", "/dev/null"),
		v("tee", "-a", "/dev/null"),
		v("head", "-n", big),
		v("head", "-n", big, "-g", "{x}").Core(),
		v("head", "-n", "1", "-g", "{x}"),
		v("head", "-n", "2", "-g", "{y}"),
		v("head", "-n", "-1"),
		v("tail", "-n", big),
		v("tail", "-n", big, "-g", "{x}"),
		v("tail", "-n", "1", "-g", "{x}"),
		v("tail", "-n", "+2"),
		v("repeat", "-n", "2"),
		v("repeat", "-f", "{y}"),
		v("gap", "-n", "2").Foreign(),
		v("gap", "-g", "{y}").Foreign(),
		v("gap", "-g", "{x}").Foreign(),
		v("grep", "r"),
		v("grep", "-i", "R"),
		v("grep", "-v", "zzzz"),
		v("grep", "-a", "r"),
		v("grep", "-i", "-a", "-v", "ZZZZ"),
		v("group-by", "{x}").Core(),
		v("group-by", "{y}"),
		v("group-by", "{y},{x}"),
		v("having-fields", "--at-least", "{x}"),
		v("having-fields", "--at-least", "{x},{id}"),
		v("having-fields", "--any-matching", "^{x}$"),
		v("having-fields", "--all-matching", "."),
		v("having-fields", "--none-matching", "^nosuch$"),
		v("having-fields", "--at-most", "{all},more"),
		v("having-fields", "--which-are", "{rev}"),
		v("clean-whitespace", "-k"),
		v("clean-whitespace", "--keys-only"),
		v("unspace", "-k"),
		v("unspace", "-k", "-f", "."),
		v("case", "-k", "-l", "-f", "{x}"),
		v("case", "-k", "-l", "-f", "{z}"),
		v("case", "-v", "-u", "-f", "{z}").A("z"),
		v("case", "-u", "-v", "-f", "{y}").A("y"),
		v("case", "-s", "-v", "-f", "{z}").A("z"),
		v("case", "-t", "-v", "-f", "{z}").A("z"),
		v("flatten"),
		v("flatten", "-f", "{y}"),
		v("flatten", "-s", ":").Sep(":"),
		v("unflatten"),
		v("unflatten", "-f", "{y}"),
		v("unflatten", "-s", ":"),
		v("json-parse", "-f", "{z}").A("z"),
		v("json-parse", "-k", "-f", "{z}").A("z"),
		v("json-stringify", "-f", "{z}").A("z"),
		v("json-stringify", "--jvstack", "-f", "{y}").A("y"),
		v("json-stringify", "--no-jvstack", "-f", "{y}").A("y"),
		v("label", "lab").firstTo("lab"),
		v("rename", "{y},yy").R("y", "yy"),
		v("rename", "{x},xx").R("x", "xx"),
		v("rename", "{x},xx,{y},yy").R("x", "xx").R("y", "yy"),
		v("rename", "-r", "^{x}$,xx").R("x", "xx"),
		v("rename", "-g", "-r", "^{x}$,xx").R("x", "xx"),
		v("rename", "-r", "^nosuch(.)$,q_\\1"),
		v("sec2gmt", "{y}").A("y").Core(),
		v("sec2gmt", "-3", "{y}").A("y"),
		v("sec2gmt", "-1", "{y}").A("y"),
		v("sec2gmt", "-6", "--millis", "{y}").A("y"),
		v("sec2gmt", "-9", "--micros", "{y}").A("y"),
		v("sec2gmt", "--nanos", "{y}").A("y"),
		v("sec2gmt", "nosuch"),
		v("sec2gmt", "-2", "{y}").A("y"),
		v("sec2gmt", "-4", "{y}").A("y"),
		v("sec2gmt", "-5", "{y}").A("y"),
		v("sec2gmt", "-7", "{y}").A("y"),
		v("sec2gmt", "-8", "{y}").A("y"),
		v("sec2gmtdate", "{y}").A("y"),
		v("sec2gmtdate", "{y},{z}").A("y", "z"),
		v("bar", "-f", "{y}", "--lo", "0", "--hi", "5").A("y"),
		v("bar", "-f", "{y}", "--lo", "0", "--hi", "5", "-w", "10", "-c", "+", "-x", "X", "-b", "_").A("y"),
		v("bar", "-f", "{y}", "--auto").A("y"),
		v("gsub", "-f", "{z}", "p", "P").A("z"),
		v("sub", "-f", "{z}", "p", "P").A("z"),
		v("ssub", "-f", "{z}", "p", "P").A("z"),
		v("gsub", "-r", "-f", "^{z}$", "p", "P").A("z"),
		v("sub", "-r", "-f", "^{z}$", "p", "P").A("z"),
		v("ssub", "-r", "-f", "^{z}$", "p", "P").A("z"),
		v("split", "-v", "-n", big, "--prefix", "{tmp}").tmp(),
		v("split", "-v", "-m", "1", "--prefix", "{tmp}", "--suffix", "out").tmp(),
		v("split", "-v", "-g", "{y}", "--prefix", "{tmp}", "-j", "-", "-e").tmp(),

		// ---- readers of x: ordering
		v("sort", "-f", "{x}").Core(),
		v("sort", "-r", "{x}"),
		v("sort", "-c", "{x}").Core(),
		v("sort", "-cr", "{x}"),
		v("sort", "-nf", "{x}").Core(),
		v("sort", "-n", "{x}"),
		v("sort", "-nr", "{x}").Core(),
		v("sort", "-t", "{x}").Core(),
		v("sort", "-tr", "{x}"),
		v("sort", "-f", "{y}", "-nr", "{x}"),
		v("sort", "-nf", "{x}", "-f", "{w}"),
		v("sort", "-nf", "{x},{w},{y}"),
		v("sort", "-b", "-nf", "{x}").M("x"),
		v("sort", "-b", "-f", "{w},{x}").M("x", "w"),
		v("top", "-a", "-n", "2000", "-f", "{x}").Core(),
		v("top", "-a", "-n", "2000", "--min", "-f", "{x}"),
		v("top", "-a", "-n", "2000", "--max", "-f", "{x}", "-g", "{y}"),
		v("top", "-a", "-n", "3", "-F", "-f", "{x}"),
		v("top", "-a", "-n", "2000", "-o", "idx", "-f", "{x}"),
		v("top", "-a", "-n", "5", "-f", "{y}", "-g", "{x}"),
		v("rank", "-f", "{x}").Core(),
		v("rank", "-f", "{x}", "-g", "{y}"),
		v("rank", "-f", "{x}", "--sorted"),
		v("rank", "-f", "{y}", "-g", "{x}"),

		// ---- readers of x: grouping
		v("count-similar", "-g", "{x}").Core(),
		v("count-similar", "-g", "{x},{y}", "-o", "c"),
		v("count-distinct", "-f", "{id},{x}").M("*"),
		v("count-distinct", "-f", "{x},{id}", "-o", "cnt").M("*"),
		v("count-distinct", "-x", "{y}").M("*"),
		v("uniq", "-g", "{id},{x},{w}").M("*").Core(),
		v("uniq", "-f", "{x},{id}", "-c").M("*"),
		v("uniq", "-g", "{id},{x}", "-c", "-o", "cnt").M("*"),
		v("uniq", "-x", "{y}").M("*"),
		v("uniq", "-x", "{y}", "-c").M("*"),
		v("uniq", "-a").Core(),
		v("uniq", "-a", "-c"),
		v("uniq", "-a", "-c", "-o", "cnt"),
		v("most-frequent", "-n", big, "-f", "{id},{x}").M("*"),
		v("most-frequent", "-n", big, "-b", "-f", "{x},{id}").M("*"),
		v("least-frequent", "-n", big, "-f", "{id},{x}", "-o", "c").M("*"),
		v("least-frequent", "-n", big, "-b", "-f", "{id},{x}").M("*"),
		v("most-frequent", "-n", big, "-o", "c", "-f", "{id},{x}").M("*"),
		v("nest", "--ivar", ";", "-f", "{y}").A("y"),
		v("nest", "--implode", "--values", "--across-records", "--nested-fs", ";", "-f", "{y}").A("y"),
		v("nest", "--evar", ";", "-f", "{z}").A("z"),
		v("nest", "--explode", "--values", "--across-records", "--nested-fs", ";", "-f", "{z}").A("z"),
		v("nest", "--explode", "--values", "--across-fields", "--nested-fs", ";", "-f", "{z}").A("z"),
		v("nest", "--explode", "--pairs", "--across-records", "--nested-fs", ";", "--nested-ps", ":", "-f", "{z}").A("z").Het(),
		v("nest", "--explode", "--pairs", "--across-fields", "-f", "{z}").A("z"),
		v("nest", "--explode", "--values", "--across-records", "-r", "^{z}$").A("z"),
		v("reshape", "-i", "{y},{z}", "-o", "k,v").A("y", "z"),
		v("reshape", "-r", "^{y}$", "-o", "k,v").A("y"),
		v("reshape", "-r", "^{y}$", "-r", "^{z}$", "-o", "k,v").A("y", "z"),
		v("reshape", "-s", "{z},{y}").A("y", "z").Het(),
		v("reshape", "-i", "{y},{z}", "-o", "k,v", "then", "reshape", "-s", "k,v").A("y", "z").M("y", "z"),

		// ---- readers of x: emptiness tests
		v("fill-down", "-f", "{x}").AE("x").Core(),
		v("fill-down", "-a", "-f", "{x}"),
		v("fill-down", "--only-if-absent", "-f", "{x},{w}"),
		v("fill-down", "--all").AE("*"),
		v("fill-down", "-a", "--all"),
		v("fill-down", "-f", "{y}").AE("y"),
		v("fill-empty").AE("*").Core(),
		v("fill-empty", "-v", "X").AE("*"),
		v("fill-empty", "-v", "0").AE("*"),
		v("fill-empty", "-S", "-v", "0").AE("*"),
		v("sparsify").AE("*").Het(),
		v("sparsify", "-s", "ZZ"),
		v("sparsify", "-f", "{y}").AE("y"),
		v("sparsify", "-f", "{x}").AE("x").Het(),
		v("unsparsify"),
		v("unsparsify", "--fill-with", "X"),
		v("unsparsify", "-f", "nosuch,{x}"),
		v("unsparsify", "--fill-with", "0", "-f", "nosuch"),
		v("template", "-f", "{rev}").M("*"),
		v("template", "-f", "{all},new", "--fill-with", "X"),
		v("template", "-f", "{id},{x}").M("*"),
		v("template", "-f", "new,{x},{id}").M("*"),
		v("cut", "-f", "{id},{x},{w}").Core(),
		v("cut", "-o", "-f", "{w},{x},{id}").M("*").Core(),
		v("cut", "-x", "-f", "{y}"),
		v("cut", "--complement", "-f", "{y},{z}"),
		v("cut", "-r", "-f", "^({id}|{x}|{w})$"),
		v("cut", "-x", "-r", "-f", "^{y}$"),
		v("cut", "-r", "-f", "\"^{X}$\"i,^{id}$"),
		v("reorder", "-f", "{x}").M("x").Core(),
		v("reorder", "-e", "-f", "{x}").M("x"),
		v("reorder", "-f", "{w},{x}").M("w", "x"),
		v("reorder", "-e", "-f", "{x},{id}").M("x", "id"),
		v("reorder", "-r", "^{x}$").M("x"),
		v("reorder", "-b", "{id}", "-f", "{x}").M("x", "id"),
		v("reorder", "-a", "{id}", "-f", "{x}").M("x", "id"),
		v("sort-within-records").M("*"),
		v("sort-within-records", "-r").M("*"),
		v("sort-within-records", "-n").M("*"),
		v("sort-within-records", "-f", "{x},{id}").M("*"),
		v("sort-within-records", "-r", "^({x}|{w})$").M("*"),

		// ---- readers of x: numeric
		v("step", "-a", "counter,delta,ewma,from-first,ratio,rprod,rsum,shift,shift_lag,shift_lead,slwin_2_2", "-f", "{x}").Core(),
		v("step", "-a", "delta", "-f", "{x}").Core(),
		v("step", "-a", "shift,shift_lead", "-f", "{x}"),
		v("step", "-a", "delta_2,ratio_2,shift_lag_2,shift_lead_2,shift_2", "-f", "{x}"),
		v("step", "-a", "rsum,counter", "-f", "{x}", "-g", "{y}"),
		v("step", "-a", "ewma", "-d", "0.1,0.9", "-o", "smooth,rough", "-f", "{x},{y}"),
		v("step", "-a", "ewma", "-F", "-f", "{x}"),
		v("step", "-a", "slwin_0_1,slwin_1_0,from-first", "-f", "{x},{w}"),
		v("step", "-a", "delta", "-f", "{y}", "-g", "{x}"),
		v("merge-fields", "-k", "-a", "sum,count", "-f", "{x},{y}", "-o", "o").Core(),
		v("merge-fields", "-k", "-a", "count,null_count,distinct_count,mode,antimode,sum,mean,mad,var,stddev,meaneb,skewness,kurtosis,min,max,minlen,maxlen", "-f", "{x},{y},{w}", "-o", "o"),
		v("merge-fields", "-k", "-a", "p10,p50,median,p90", "-f", "{x},{y}", "-o", "o"),
		v("merge-fields", "-k", "-i", "-a", "p25,p75", "-f", "{x},{y}", "-o", "o"),
		v("merge-fields", "-k", "-a", "sum", "-r", "^{x}$,^{y}$", "-o", "o"),
		v("merge-fields", "-k", "-a", "count,sum", "-c", "{x}"),
		v("merge-fields", "-a", "sum,max", "-f", "{y}", "-o", "o").A("y"),
		v("merge-fields", "-a", "sum", "-f", "{y},{z}", "-o", "o", "-S", "-F").A("y", "z"),
		v("stats1", "-w", "2", "-a", "mean,sum,count,min,max,mode,antimode,p50,median,distinct_count,null_count,minlen,maxlen", "-f", "{x}").Core(),
		v("stats1", "-w", "3", "-a", "var,stddev,meaneb,skewness,kurtosis,mad", "-f", "{x},{y}"),
		v("stats1", "-w", "3", "-i", "-a", "p10,p25.2,p98", "-f", "{x}", "-g", "{y}"),
		v("stats1", "-w", "2", "-a", "count,mode", "--fr", "^{x}$", "--gr", "^{y}$"),
		v("stats1", "-w", "2", "-a", "count", "--fx", "^({id}|{z}|{y}|{w}|g[0-9])$"),
		v("stats1", "-w", "2", "-a", "count", "--fr", "^{y}$", "--gx", "^({id}|{z}|{y}|{w}|g[0-9])$"),
		v("stats1", "-w", "2", "-a", "max", "--grfx", "^{y}$"),
		v("stats1", "-s", "-a", "sum,count", "-f", "{x}").Foreign().Het(),
		v("stats1", "-s", "-a", "p50,max", "-f", "{x}", "-g", "{y}", "-S", "-F").Foreign().Het(),
		v("stats1", "-w", "2", "-a", "sum", "-f", "{y}", "-g", "{x}"),
		v("stats2", "--fit", "-a", "linreg-ols", "-f", "{x},{y}").Num(),
		v("stats2", "--fit", "-v", "-S", "-F", "-a", "linreg-ols", "-f", "{x},{y}").Num(),
		v("stats2", "--fit", "-a", "linreg-pca", "-f", "{x},{y}").Num().OK(moderate),
		v("stats2", "--fit", "-a", "linreg-ols", "-f", "{y},{x}", "-g", "{y}").Num(),
		v("stats2", "--fit", "-a", "linreg-ols,linreg-pca", "-f", "{y},{x}").Num().OK(moderate),
		v("stats2", "--fit", "-a", "logireg", "-f", "{x},{y}").Num().OK(moderate),
		v("fraction", "-f", "{x}").Num(),
		v("fraction", "-f", "{x}", "-p", "-c").Num(),
		v("fraction", "-f", "{y}", "-g", "{x}"),
		v("fraction", "-f", "{y}"),

		// ---- join: the main stream is the right side; x passes through paired and unpaired
		v("join", "-j", "{id}", "-l", "{ljid}", "-f", "LEFT").Left("id").M("id"),
		v("join", "--ul", "--ur", "-j", "{id}", "-l", "{ljid}", "-f", "LEFT").Left("id").M("id").Foreign().Het(),
		v("join", "-u", "--lp", "L_", "-j", "{id}", "-l", "{ljid}", "-f", "LEFT").Left("id").M("id"),
		v("join", "-s", "--ur", "-j", "{id}", "-l", "{ljid}", "-f", "LEFT").Left("id").M("id").Het(),
		v("join", "--np", "--ur", "-j", "{id}", "-l", "{ljid}", "-f", "LEFT").Left("empty"),
		v("join", "--lk", "", "-j", "{id}", "-l", "{ljid}", "-f", "LEFT").Left("id").M("id"),
		v("join", "-j", "{x}", "-l", "{ljid}", "-f", "LEFT").Left("x").M("x"),
		v("join", "--ur", "--ignore-empty", "-j", "{x}", "-l", "{ljid}", "-f", "LEFT").Left("x").M("x").Het(),
		v("join", "-j", "{id}", "-r", "{id}", "-l", "{ljid}", "-f", "LEFT").Left("id").M("id"),

		// ---- verbs documented as the identity on a stated domain of values
		v("utf8-to-latin1").OK(isASCII).Group("identity"),
		v("latin1-to-utf8").OK(isASCII).Group("identity"),
		v("unspace").OK(noSpace).Group("identity"),
		v("unspace", "-v").OK(noSpace).Group("identity"),
		v("unspace", "-f", "X").OK(noSpace).Group("identity"),
	}
	return T
}

func (t *tmpl) firstTo(n string) *tmpl { t.firstRenamed = n; return t }
func (t *tmpl) tmp() *tmpl             { t.tmpfile = true; return t }

// Hand-written DSL forms that read $x without assigning it.
func dslTemplates() []*tmpl {
	exprs := []string{
		// arithmetic and dot operators
		`$o = $x + 1`, `$o = 1 + $x`, `$o = $x - 1`, `$o = $x * 1`, `$o = $x * 2.5`, `$o = $x / 3`, `$o = $x // 1`, `$o = $x % 7`, `$o = $x ** 2`, `$o = -$x`, `$o = +$x`, `$o = ~$x`,
		`$o = $x .+ 1`, `$o = $x .- 1`, `$o = $x .* 3`, `$o = $x ./ 2`, `$o = $x & 255`, `$o = $x | 1`, `$o = $x ^ 1`, `$o = $x << 1`, `$o = $x >> 1`, `$o = $x >>> 1`,
		`$o = $x + $y`, `$o = $x * $w`, `$o = $x . ""`, `$o = "" . $x`, `$o = $x . $y`, `$o = $x . $x`,
		// comparisons, logic, absent/empty coalescing
		`$o = $x < 1`, `$o = $x <= $y`, `$o = $x > 0.5`, `$o = $x >= "a"`, `$o = $x == 1`, `$o = $x != $w`, `$o = $x == $x`, `$o = $x < "abc"`, `$o = $x == ""`,
		`$o = $x =~ "^[0-9]+$"`, `$o = $x !=~ "a"`, `$o = $x =~ "^(.)(.*)$" ? "\1:\2" : "no"`, `if ($x =~ "^(0x)?([0-9a-f]+)$"i) { $o = "\2" } else { $o = "n" }`,
		`$o = $x ?? "d"`, `$o = $x ??? "d"`, `$o = $nosuch ?? $x`, `$o = is_empty($x) ? "e" : "ne"`, `$o = $x < 0 ? "neg" : "nonneg"`,
		`$o = ($x > 0) && ($x < 10)`, `$o = ($x == 1) || ($y == 1)`, `$o = !($x == 1)`, `$o = ($x < 1) ^^ ($y < 2)`, `$o = min($x, $y)`, `$o = max($x, $y, $w)`, `$o = $x <=> $y`,
		// type tests
		`$o = typeof($x)`, `$o = asserting_present($x)`, `$o = asserting_not_map($x)`, `$o = asserting_not_array($x)`, `$o = asserting_not_empty($y) . asserting_not_null($y)`,
		`$o = is_string($x) . is_numeric($x) . is_int($x) . is_float($x) . is_empty($x) . is_not_empty($x) . is_null($x) . is_not_null($x) . is_absent($x) . is_present($x) . is_error($x) . is_nan($x) . is_not_array($x) . is_map($x) . is_boolean($x)`,
		`$o = typeof($*["{x}"])`, `$o = typeof($[[[{xpos}]]])`, `$o = $[[{xpos}]]`, `$o = typeof($x) . typeof($w)`,
		// conversions and formatting into another field
		`$o = fmtnum($x, "%d")`, `$o = fmtnum($x, "%08.3lf")`, `$o = fmtnum($x, "%x")`, `$o = fmtnum($x, "%.3e")`, `$o = fmtnum($x, "%s")`, `$o = fmtifnum($x, "%.2f")`, `$o = hexfmt($x)`,
		`$o = int($x)`, `$o = float($x)`, `$o = string($x)`, `$o = boolean($x)`, `$o = abs($x)`, `$o = ceil($x)`, `$o = floor($x)`, `$o = round($x)`, `$o = roundm($x, 2)`, `$o = sgn($x)`, `$o = truncate($x, 2)`,
		`$o = sec2gmt($x)`, `$o = sec2gmt($x, 3)`, `$o = sec2gmtdate($x)`, `$o = sec2dhms($x)`, `$o = fsec2hms($x)`, `$o = strftime($x, "%Y-%m-%dT%H:%M:%3SZ")`, `$o = strptime($x, "%s")`, `$o = gmt2sec($x)`,
		`$o = strlen($x)`, `$o = toupper($x)`, `$o = capitalize($x)`, `$o = lstrip($x)`, `$o = clean_whitespace($x)`, `$o = sub($x, "0", "z")`, `$o = gsub($x, "[0-9]", "d")`, `$o = ssub($x, ".", "p")`, `$o = regextract_or_else($x, "[0-9]+", "none")`,
		`$o = substr($x, 0, 1)`, `$o = $x[1:2]`, `$o = leftpad($x, 10, "0")`, `$o = unformat("{}", $x)`, `$o = unformatx("<>;<>", $x)`, `$o = md5($x)`, `$o = sha1($x)`, `$o = json_stringify($x)`, `$o = json_parse($x)`,
		`$o = format("{}:{}", $x, $y)`, `$o = splitax($x, ",")`, `$o = splitnv($x, "e")`, `$o = splitax($x, "")`, `$o = joink({"a": $x}, ",") . joinv({"a": $x}, ",")`, `$o = bitcount($x)`, `$o = msub($x, 1, 7)`, `$o = exp($x)`, `$o = log10($x)`, `$o = sqrt($x)`, `$o = invqnorm($x)`,
		// collections built from x
		`$o = [$x, $y][1]`, `$o = {"a": $x}["a"]`, `$o = sort([$x, $y, $w])[1]`, `$o = sort([$x, $y, $w], "nr")[1]`, `$o = sort([$x, $y], func(a,b) {return a <=> b})[1]`, `$o = sort({"a": $x, "b": $y}, func(ak,av,bk,bv) {return av <=> bv})`,
		`$o = any([$x], func(e) {return e > 0})`, `$o = apply([$x], func(e) {return e . "s"})[1]`, `$o = fold([$x, $y], func(acc,e) {return acc + e}, 0)`, `$o = percentile([$x, $y, $w], 50)`, `$o = median([$x, $y])`, `$o = mean([$x, $y])`, `$o = sum([$x])`,
		`$o = minlen([$x, $y])`, `$o = mode([$x, $x, $y])`, `$o = distinct_count([$x, $w])`, `$o = sort_collection([$x, $y, $w])[1]`, `$o = variance([$x, $y, $w])`, `$o = concat($x, [$y])[1]`, `$o = append([$y], $x)[2]`, `$o = flatten({"a": {"b": $x}}, ".")["a.b"]`,
		`$o = haskey($*, "{x}")`, `$o = length($*)`, `$o = depth($x)`, `$o = leafcount($*)`, `$o = mapdiff($*, {"{id}": 0})["{x}"]`, `$o = mapsum({"a": 1}, $*)["{x}"]`, `$o = mapselect($*, "{x}")["{x}"]`, `$o = mapexcept($*, "{y}")["{x}"]`, `$o = get_values($*)[{xpos}]`, `$o = joinv($*, ";")`, `$o = json_stringify($*)`,
		// record-level reads
		`map m = $*; $o = m["{x}"] + 1`, `var t = $x; $o = t . ""`, `num n = is_numeric($x) ? $x : 0; $o = n + 1`, `str s = string($x); $o = s`,
		`for (k, v in $*) { if (is_numeric(v)) { $o = k } }`, `for (k, v in $*) { @last[k] = v } $o = @last["{x}"] . ""`, `for ((k1, k2), v in {"a": $*}) { $o = typeof(v) }`, `for (e in [$x, $y]) { $o = e + 1 }`, `o = ""; for (k, v in $*) { o = o . v } $o = strlen(o)`,
		`@sum += $x; $o = @sum`, `@m[$x] = NR; $o = length(@m)`, `@m[$y][$x] = $w; $o = 1`, `@v = $x; $o = @v . ""`, `@r = $*; $o = @r["{x}"] + 1`, `@count[$x] += 1; $o = @count[$x]`, `@max = max(@max, $x); $o = @max`, `@first = is_absent(@first) ? $x : @first; $o = @first`,
		`begin { @p = "" } $o = @p; @p = $x`, `if ($x > 0) { $o = "pos" } elif ($x == "") { $o = "empty" } else { $o = "other" }`, `if (is_numeric($x)) { $o = $x + 0 }`, `while ($x < 0) { $o = 1; break }`, `do { $o = $x . "" } while (false)`,
		`$x > 0 { $o = 1 }`, `is_string($x) { $o = "s" }`, `func f(a) { return a + 1 } $o = f($x)`, `func f(str a): str { return a . "!" } $o = f(string($x))`, `subr s(a) { $o = a * 2 } call s($x)`,
		`unset $y`, `unset $nosuch`, `unset $o`, `$y = $x`, `$y = $x + 0`, `$new = NR`, `$o = NF . ":" . NR . ":" . FNR . ":" . FILENAME`, `$o = M_PI + $x`, `$o = ENV["HOME"] . $x`, `$o = $x; unset $o`, `$o = $x; $o = $o + 1`,
		`$[[{ypos}]] = "yy"`, `$[[[{ypos}]]] = "newvalue"`, `$[[{xpos}]] = "xx"`, `$*["{y}"] = $*["{x}"] . "!"`, `${new field} = $x`, `$[$x . "_k"] = 1`, `$["k_" . $x] = $y`,
		`eprintn $x`, `eprint typeof($x)`, `printn > "/dev/null", $x`, `print > stderr, $x . ""`, `dump > "/dev/null", $*`, `tee > "/dev/null", $*`, `emit > "/dev/null", mapexcept($*, "{y}")`,
		`$o = strfntime($x, "%Y")`, `$o = sec2gmtdate($x) . sec2localdate($x, "Asia/Istanbul")`, `$o = dhms2sec($x)`, `$o = latin1_to_utf8($x)`, `$o = gssub($x, "0", "1")`, `$o = os() . $x`, `$o = strmatchx($x, "([0-9])")["captures"][1]`, `$o = index($x, "0")`, `$o = contains($x, "e")`, `$o = $x .+ $x .* $x`, `$o = percentiles([$x, $y], [25, 75])`, `$o = kurtosis([$x, $y, $w, 1])`, `$o = sort({"b": $x, "a": $y})`,
	}
	var T []*tmpl
	for _, e := range exprs {
		t := put(e)
		switch {
		case strings.HasPrefix(e, "unset $y"), strings.HasPrefix(e, "$y ="), strings.Contains(e, `$*["{y}"] =`), strings.HasPrefix(e, "$[[[{ypos}]]]"):
			t.A("y")
		case strings.HasPrefix(e, "$[[{ypos}]]"):
			t.R("y", "yy")
		case strings.HasPrefix(e, "$[[{xpos}]]"):
			t.R("x", "xx")
		case strings.HasPrefix(e, `$[$x . "_k"]`), strings.HasPrefix(e, `$["k_" . $x]`):
			t.Het() // a new field named after the data: every record has its own key list
		}
		T = append(T, t)
	}
	for _, e := range []string{`$o = $x + 1`, `$o = $x . ""`, `$o = typeof($x)`, `$o = fmtnum($x, "%d")`, `$o = $x < 1`, `$o = strlen($x)`, `$o = $x =~ "^0"`, `$o = min($x, $y)`, `$o = -$x`, `$o = $x & 255`,
		`$o = abs($x)`, `$o = int($x)`, `$o = float($x)`, `$o = hexfmt($x)`, `$o = sec2gmt($x)`, `$o = $x ?? 0`, `$o = is_string($x) . is_numeric($x) . is_int($x) . is_float($x) . is_empty($x) . is_not_empty($x) . is_null($x) . is_not_null($x) . is_absent($x) . is_present($x) . is_error($x) . is_nan($x) . is_not_array($x) . is_map($x) . is_boolean($x)`,
		`for (k, v in $*) { if (is_numeric(v)) { $o = k } }`, `@m[$x] = NR; $o = length(@m)`, `$o = splitax($x, "e")`, `$o = json_stringify($x)`, `$o = $x[1:2]`, `$o = sort([$x, $y, $w])[1]`, `$y = $x`, `map m = $*; $o = m["{x}"] + 1`, `$o = $x == $w`, `$o = $*["{x}"] . ""`, `$o = $x .+ 1`, `$o = $x ** 2`, `$o = round($x)`} {
		for _, t := range T {
			if t.args[1] == e {
				t.core = true
			}
		}
	}
	// put flags, -q with emit, filters
	T = append(T,
		&tmpl{name: `put -S $o = $x . "s"`, verb: "put", group: "dsl", args: []string{"put", "-S", `$o = $x . "s"`}},
		&tmpl{name: `put -F $o = $x + 1`, verb: "put", group: "dsl", args: []string{"put", "-F", `$o = $x + 1`}},
		&tmpl{name: `put -s v=1 $o = $x + @v`, verb: "put", group: "dsl", args: []string{"put", "-s", "v=1", `$o = $x + @v`}},
		&tmpl{name: `put -x false`, verb: "put", group: "dsl", args: []string{"put", "-x", `$o = $x . ""; filter false`}},
		&tmpl{name: `put -e -e`, verb: "put", group: "dsl", args: []string{"put", "-e", `$o = $x + 1;`, "-e", `$p = $x . ""`}},
		putq(`emit mapexcept($*, "nosuch")`).Group("dsl-emit").Core(),
		putq(`emit mapexcept($*, "{y}")`).Group("dsl-emit"),
		putq(`emit mapsum($*, {"new": 1})`).Group("dsl-emit"),
		putq(`@r = $*; emit @r`).Group("dsl-emit"),
		putq(`@r[$id] = $*; end { emit @r, "{id}" }`).Group("dsl-emit").M("id"),
		putq(`@r[NR] = $*; end { emit @r, "NR" }`).Group("dsl-emit"),
		putq(`emit1 {"{x}": $x, "{id}": $id}`).Group("dsl-emit").M("*"),
		putq(`@a[$id] = {"{x}": $x}; @b[$id] = {"{w}": $w}; end { emit (@a, @b), "{id}" }`).Group("dsl-emit").M("*"),
		putq(`@x = $x; @idv = $id; emitf @idv, @x`).Group("dsl-emit").R("id", "idv").R("x", "x").M("*"),
		putq(`tee > "/dev/null", $*; emit mapsum($*)`).Group("dsl-emit"),
		putq(`if ($x == $x || true) { emit mapsum($*, {}) }`).Group("dsl-emit"),
		putq(`map m = $*; emit m`).Group("dsl-emit"),
		putq(`emit1 {"{id}": $id, "{x}": $x, "n": NR}`).Group("dsl-emit").M("*"),
		putq(`@recs[NR] = $*; end { for (k, r in @recs) { emit r } }`).Group("dsl-emit"),
		putq(`@recs[NR] = $*; end { emit @recs, "NR" }`).Group("dsl-emit"),
		filter(`$x == $x || true`).Core(),
		filter(`true`),
		filter(`is_present($x)`),
		filter(`$x > 1`, "-x"),
		filter(`$x > 1 || $x <= 1 || is_string($x) || is_empty($x)`),
		filter(`$x =~ "." || $x == ""`),
		filter(`typeof($x) != "map"`),
		filter(`is_numeric($x) || !is_numeric($x)`),
		filter(`$x < $w || $x >= $w || true`),
		filter(`NR >= 1`),
		filter(`false`, "-x"),
		filter(`$o = $x + 1; true`),
		filter(`strlen($x) >= 0`),
		filter(`any([$x], func(e) {return true})`),
		filter(`true`, "-S"),
		filter(`true`, "-F"),
	)
	return T
}

// Hand-written readers of a COLLECTION-valued x (shape grid). None assigns x. On a scalar x most of them evaluate
// to an error value or abort (nothing asserted there).
func collTemplates() []*tmpl {
	exprs := []string{
		// statistics that sort internally
		`$o = median($x)`, `$o = median($x, {"interpolate_linearly": true})`, `$o = percentile($x, 25)`, `$o = percentile($x, 25, {"output_array_not_map": true})`,
		`$o = percentile($x, 75, {"array_is_sorted": true})`, `$o = percentiles($x, [25, 75])`, `$o = percentiles($x, [25, 75], {"interpolate_linearly": true, "output_array_not_map": true})`,
		`$o = percentiles($x, ["p10", "median", "p90"])`, `$o = sort_collection($x)`, `$o = sort_collection($x)[1]`, `$o = median($*)`, `$o = sort_collection($*)[1]`, `$o = percentiles($w, $x)`,
		`$o = mode($x) . antimode($x) . count($x) . distinct_count($x) . null_count($x)`, `$o = sum($x) . mean($x) . variance($x) . minlen($x) . maxlen($x)`, `$o = kurtosis($x) . skewness($x) . meaneb($x) . stddev($x) . sum2($x) . sum3($x) . sum4($x)`,
		// sorting functions: documented to return a sorted COPY
		`$o = sort($x)`, `$o = sort($x, "nr")`, `$o = sort($x, "f")`, `$o = sort($x, "c")`, `$o = sort($x, "cr")`, `$o = sort($x, "t")`, `$o = sort($x, "tr")`, `$o = sort($x, func(a,b) { return b <=> a })`,
		`$o = sort($x, func(ak,av,bk,bv) { return bv <=> av })`, `$o = sort($*)["{x}"]`, `$o = sort($*, "r")["{x}"]`, `$o = sort(get_values($x))`, `$o = sort(get_keys($x), "r")`,
		// higher-order functions
		`$o = apply($x, func(e) { return e . "s" })`, `$o = apply($x, func(k,v) { return {toupper(k): v . "s"} })`, `$o = select($x, func(e) { return true })`, `$o = select($x, func(k,v) { return k != "a" })`,
		`$o = reduce($x, func(acc,e) { return acc . e })`, `$o = reduce($x, func(acck,accv,ek,ev) { return {"r": accv . ev} })`, `$o = fold($x, func(acc,e) { return acc . e }, "")`, `$o = fold($x, func(acck,accv,ek,ev) { return {"r": accv . ev} }, {"r": ""})`,
		`$o = any($x, func(e) { return e == 5 })`, `$o = every($x, func(e) { return is_present(e) })`, `$o = any($x, func(k,v) { return v == 5 })`, `$o = every($x, func(k,v) { return true })`,
		// indexing and slicing
		`$o = $x[1]`, `$o = $x[-1]`, `$o = $x[1:2]`, `$o = $x["b"]`, `$o = $x[1][1]`, `$o = $x["b"]["a"]`, `$o = $x[1]["b"]`, `$o = $*["{x}"][1]`, `$o = $x[1] . $x[2]`, `$o = $x[1] + 1`, `$o = $x["b"] + 1`, `$o = $x[1] < $x[2]`, `$o = fmtnum($x[1], "%.3f")`, `$o = typeof($x[1]) . asserting_not_null($x)`,
		// copies that are then modified: an assignment to ANOTHER variable or field is not an assignment to x
		`$o = $x; $o[1] = "new"`, `$o = $x; $o["b"] = "new"`, `$o = $x; unset $o[1]`, `$o = $x; unset $o["b"]`, `$o = $x; $o[1][1] = "new"`, `var a = $x; a[1] = "new"; $o = a`, `var a = $x; a["b"] = "new"; $o = a`, `var a = $x; unset a[1]; $o = a`,
		`@a = $x; @a[1] = "new"; $o = @a`, `@a = $x; @a["b"] = "new"; $o = @a`, `@a[NR] = $x; @a[NR][1] = "new"; $o = 1`, `map m = $*; m["{x}"][1] = "new"; $o = m["{x}"]`, `map m = $*; m["{x}"]["b"] = "new"; $o = m["{x}"]`, `@r = $*; @r["{x}"][1] = "new"; @r["{x}"]["b"] = "new"; $o = 1`,
		`$o = $*; $o["{x}"][1] = "new"; $o = 1`, `$y = $x; $y[1] = "new"`, `$o = [$x, $w]; $o[1][1] = "new"`, `$o = {"k": $x}; $o["k"][1] = "new"; $o["k"]["b"] = "new"`,
		// by-value argument passing (reference-dsl-variables.md)
		`func f(a) { a[1] = "new"; return a } $o = f($x)`, `func f(a) { a["b"] = "new"; return a } $o = f($x)`, `func f(map a): map { a["b"] = "new"; return a } $o = f($x)`, `func f(arr a): arr { a[1] = "new"; return a } $o = f($x)`,
		`func f(a) { unset a[1]; return 1 } $o = f($x)`, `subr s(a) { a[1] = "new"; a["b"] = "new"; print > "/dev/null", a } call s($x)`, `func f(a) { a["{x}"][1] = "new"; return 1 } $o = f($*)`, `func f(a) { return sort_collection(a) } $o = f($x)`,
		// loops: the bound variables are bound to a copy (reference-dsl-control-structures.md)
		`for (e in $x) { e = "new"; $o = e }`, `for (k, v in $x) { v = "new"; $o = k }`, `for (k, v in $*) { if (is_array(v)) { v[1] = "new" } elif (is_map(v)) { v["b"] = "new" } } $o = 1`, `for ((k1, k2), v in $x) { $o = k1 . k2 . v }`, `for ((k1, k2), v in $*) { v = "new"; $o = k2 }`,
		`for (e in $x) { if (is_array(e)) { e[1] = "new" } elif (is_map(e)) { e["b"] = "new" } } $o = 1`, `o = ""; for (e in $x) { o = o . typeof(e) } $o = o`, `for (i = 1; i <= length($x); i += 1) { $o = $x[i] }`, `i = 1; while (i <= length($x)) { $o = typeof($x[i]); i += 1 }`,
		// collection functions
		`$o = append($x, "new")`, `$o = append($x, $w)`, `$o = concat($x, ["new"])`, `$o = concat(["new"], $x)`, `$o = concat($x)`, `$o = concat($x, $w, $x)`, `$o = arrayify($x)`, `$o = arrayify({"1": $x[1], "2": $x})`, `$o = json_parse(json_stringify($x))`, `$o = json_stringify($x)`, `$o = json_stringify($x, "multiline")`, `$o = hasvalue($x, 5) . hasvalue($x, "0xff")`,
		`$o = flatten($x, ":")`, `$o = flatten("p", ":", $x)`, `$o = flatten($*, ":")`, `$o = unflatten($x, ":")`, `$o = unflatten(flatten($*, "."), ".")["{x}"]`, `$o = get_keys($x)`, `$o = get_values($x)`, `$o = get_values($x); $o[1] = "new"`, `$o = haskey($x, 1) . haskey($x, -1) . haskey($x, "b")`,
		`$o = length($x) . depth($x) . leafcount($x)`, `$o = mapdiff($x, {"a": 0})`, `$o = mapdiff($x, $w)`, `$o = mapsum($x, {"new": 1})`, `$o = mapsum($x, $w)`, `$o = mapsum({"new": 1}, $x)`, `$o = mapexcept($x, "a")`, `$o = mapexcept($x, ["a", "b"])`, `$o = mapselect($x, "a")`, `$o = mapselect($x, ["a", "c"])`,
		`$o = joink($x, ";") . joinv($x, ";") . joinkv($x, "=", ";")`, `$o = splitax(joinv($x, ";"), ";")`, `$o = string($x)`, `$o = $x . ""`, `$o = strlen($x)`, `$o = toupper($x)`, `$o = format("{}:{}", $x, $w)`, `$o = latin1_to_utf8($x)`, `$o = utf8_to_latin1($x)`,
		`$o = is_array($x) . is_map($x) . is_not_map($x) . is_not_array($x) . is_empty_map($x) . is_nonempty_map($x) . is_not_empty($x) . is_string($x) . is_error($x) . is_absent($x)`, `$o = typeof($x) . typeof($w)`, `$o = asserting_array($x)`, `$o = asserting_map($x)`, `$o = asserting_not_empty($x)`,
		`$o = $x == $w`, `$o = $x != $w`, `$o = $x < $w`, `$o = $x <=> $w`, `$o = min($x, $w)`, `$o = max($x, 1)`, `$o = $x ?? "d"`, `$o = $x ??? "d"`, `$o = is_present($x) ? $x : "d"`, `$o = $x + 1`, `$o = -$x`, `$o = $x . $w`, `$o = $x =~ "5"`, `$o = index($x, "5")`, `$o = contains($x, "5")`, `$o = unformat("{}", $x)`,
		`$o = percentile(apply($x, func(e) { return e }), 50)`, `$o = median(get_values($x))`, `$o = sort_collection(mapsum($x))`,
		// output statements
		`print > "/dev/null", $x`, `dump > "/dev/null", $x`, `emit > "/dev/null", {"k": $x}`, `tee > "/dev/null", $*`, `eprintn ""; $o = typeof($x)`, `emit1 {"k": $x}`, `@s[NR] = $x; end { emit > "/dev/null", @s }`, `@s = $x; $o = typeof(@s); unset @s`,
	}
	var T []*tmpl
	for _, e := range exprs {
		t := put(e).Group("dsl-coll").Light()
		if strings.HasPrefix(e, "$y =") {
			t.A("y")
		}
		T = append(T, t)
	}
	T = append(T,
		filter(`sort_collection($x)[1] < 1 || true`).Group("dsl-coll"),
		filter(`is_present(median($x)) || true`).Group("dsl-coll"),
		filter(`length(sort($x)) >= 0`).Group("dsl-coll"),
		filter(`any(get_values($x), func(e) { return true }) || true`).Group("dsl-coll"),
		putq(`emit mapsum({"{id}": $id}, {"k": sort_collection($x)}, {"{x}": $x})`).Group("dsl-coll").M("*"),
		putq(`@r[NR] = $*; end { for (k, r in @r) { r["o"] = median(r["{x}"]); emit r } }`).Group("dsl-coll"),
		putq(`@x[NR] = $x; @id[NR] = $id; end { for (k, v in @x) { emit mapsum({"{id}": @id[k], "m": sort_collection(v), "{x}": v}) } }`).Group("dsl-coll").M("*"),
	)
	return T
}

// reuseTemplates: the NAME RE-USE family. A structural edit S (rename / remove / move of a field) followed by an
// operation U addressed to the name the edit retired. After S that name denotes no field (or a different, assigned
// one), so U must leave every original field alone -- in particular the renamed, never-assigned x. A record that
// carries a key index (>= 12 fields, JSON-read, --hash-records) and keeps a stale entry for the retired name
// redirects U to the wrong field. Full product S x U; {n} is the retired name.
func reuseTemplates() []*tmpl {
	type sop struct {
		args []string
		n    string // logical name retired by S
		mk   func(t *tmpl)
	}
	S := []sop{
		{[]string{"rename", "{x},xx"}, "x", func(t *tmpl) { t.R("x", "xx") }},
		{[]string{"rename", "-r", "^{x}$,xx"}, "x", func(t *tmpl) { t.R("x", "xx") }},
		{[]string{"rename", "-g", "-r", "^{x}$,xx"}, "x", func(t *tmpl) { t.R("x", "xx") }},
		{[]string{"put", `$[[{xpos}]] = "xx"`}, "x", func(t *tmpl) { t.R("x", "xx") }},
		{[]string{"rename", "{x},xx", "then", "rename", "xx,{x}"}, "xx", func(t *tmpl) {}},
		{[]string{"rename", "{y},yy"}, "y", func(t *tmpl) { t.R("y", "yy") }},
		{[]string{"cut", "-x", "-f", "{y}"}, "y", func(t *tmpl) { t.A("y") }},
		{[]string{"put", `unset $y`}, "y", func(t *tmpl) { t.A("y") }},
		{[]string{"reorder", "-f", "{x}"}, "y", func(t *tmpl) { t.A("y").M("x") }},
		{[]string{"reorder", "-e", "-f", "{x}"}, "y", func(t *tmpl) { t.A("y").M("x") }},
		{[]string{"sort-within-records"}, "y", func(t *tmpl) { t.A("y").M("*") }},
	}
	type uop struct {
		args []string
		het  bool
	}
	U := []uop{
		{[]string{"put", `${n} = "new"`}, false},
		{[]string{"put", `$*["{n}"] = "new"`}, false},
		{[]string{"put", `unset ${n}`}, false},
		{[]string{"put", `$o = is_present(${n}) . typeof(${n}) . ${n}`}, false},
		// (a leading scalar key: emit treats a map whose FIRST value is a map as a map of records)
		{[]string{"put", "-q", `emit mapsum({"_": 0}, mapexcept($*, "{n}"))`}, false},
		{[]string{"put", `${n} = NR; unset ${n}`}, false},
		{[]string{"sec2gmt", "{n}"}, false},
		{[]string{"sec2gmtdate", "{n}"}, false},
		{[]string{"cut", "-x", "-f", "{n}"}, false},
		{[]string{"cut", "-x", "-r", "-f", "^{n}$"}, false},
		{[]string{"rename", "{n},qq"}, false},
		{[]string{"rename", "-r", "^{n}$,qq"}, false},
		{[]string{"reorder", "-e", "-f", "{n}"}, false},
		{[]string{"reorder", "-f", "{n}"}, false},
		{[]string{"fill-down", "-a", "-f", "{n}"}, false},
		{[]string{"fill-down", "-f", "{n}"}, false},
		{[]string{"unsparsify", "-f", "{n}"}, false},
		{[]string{"nest", "--evar", ";", "-f", "{n}"}, false},
		{[]string{"sub", "-f", "{n}", "e", "E"}, false},
		{[]string{"case", "-u", "-f", "{n}"}, false},
		{[]string{"json-parse", "-f", "{n}"}, false},
		{[]string{"json-stringify", "-f", "{n}"}, false},
		{[]string{"merge-fields", "-k", "-a", "count", "-f", "{n}", "-o", "o"}, false},
		{[]string{"step", "-a", "shift", "-f", "{n}"}, false},
		{[]string{"sparsify", "-f", "{n}"}, false},
	}
	var T []*tmpl
	for _, s := range S {
		for _, u := range U {
			args := append([]string{}, s.args...)
			args = append(args, "then")
			for _, a := range u.args {
				ph := "{" + s.n + "}" // placeholder of a logical name; "xx" is a literal name
				if s.n == "xx" {
					ph = "xx"
				}
				a = strings.ReplaceAll(a, "${n}", "${"+ph+"}")
				a = strings.ReplaceAll(a, "{n}", ph)
				args = append(args, a)
			}
			t := &tmpl{name: strings.Join(args, " "), verb: "chain", group: "reuse", args: args, hetero: u.het}
			s.mk(t)
			T = append(T, t)
		}
	}
	return T
}

var letterRe = regexp.MustCompile(`^[a-z_][a-z_0-9]*$`)

// functions never generated: they run external commands or read files named by the data.
var deniedFunctions = map[string]string{
	"system": "runs a shell command taken from the data",
	"exec":   "runs a command taken from the data",
	"stat":   "stats a file named by the data",
}

// argument positions (0-based) in which a data value is a repeat count / width: a huge number there makes the
// function allocate without bound (the worker is killed): outside this property (C18's business).
var deniedArgPositions = map[string]map[int]string{
	"leftpad":  {1: "pad width taken from the data"},
	"rightpad": {1: "pad width taken from the data"},
}

// dslFunctionTemplates walks the builtin function table: every function or
// operator that takes at least one argument is applied to $x in every argument
// position (other positions take $y). A form that does not parse or aborts at
// run time emits nothing and asserts nothing (counted).
func dslFunctionTemplates() ([]*tmpl, []string) {
	var T []*tmpl
	var skipped []string
	seen := map[string]bool{}
	add := func(fn, e string) {
		if seen[e] {
			return
		}
		seen[e] = true
		T = append(T, &tmpl{name: "put " + e, verb: "put", group: "dslfn:" + fn, args: []string{"put", e}, light: true, wfill: strings.Contains(e, "$w")})
	}
	tab := cst.VerifC03BuiltinTable()
	sort.SliceStable(tab, func(i, j int) bool { return tab[i].Name < tab[j].Name })
	for _, b := range tab {
		if why, bad := deniedFunctions[b.Name]; bad {
			skipped = append(skipped, b.Name+": "+why)
			continue
		}
		isFn := letterRe.MatchString(b.Name)
		n := 0
		call := func(args ...string) {
			n++
			for pos, why := range deniedArgPositions[b.Name] {
				if pos < len(args) && args[pos] == "$x" {
					skipped = append(skipped, fmt.Sprintf("%s with $x as argument %d: %s", b.Name, pos+1, why))
					return
				}
			}
			if isFn {
				add(b.Name, "$o = "+b.Name+"("+strings.Join(args, ", ")+")")
				return
			}
			switch len(args) {
			case 1:
				add(b.Name, "$o = "+b.Name+" "+args[0])
			case 2:
				add(b.Name, "$o = "+args[0]+" "+b.Name+" "+args[1])
			case 3:
				if b.Name == "?:" {
					add(b.Name, "$o = "+args[0]+" ? "+args[1]+" : "+args[2])
				}
			}
		}
		if b.Unary {
			call("$x")
		}
		if b.Binary {
			call("$x", "$y")
			call("$y", "$x")
			call("$x", "$x")
			// second filler: the neighbour field w (another spelling; in the shape grid another collection)
			call("$x", "$w")
			call("$w", "$x")
		}
		if b.Ternary {
			call("$x", "$y", "$y")
			call("$y", "$x", "$y")
			call("$y", "$y", "$x")
			call("$x", "$w", "$y")
			call("$w", "$x", "$y")
			call("$y", "$w", "$x")
			if b.Name == "?:" {
				call("true", "$x", "$y")
				call("false", "$y", "$x")
			}
		}
		if b.Variadic {
			for k := 1; k <= 3; k++ {
				if k < b.MinVar || (b.MaxVar != 0 && k > b.MaxVar) {
					continue
				}
				for pos := 0; pos < k; pos++ {
					for _, filler := range []string{"$y", "$w"} {
						if k == 1 && filler == "$w" {
							continue
						}
						a := make([]string, k)
						for i := range a {
							a[i] = filler
						}
						a[pos] = "$x"
						call(a...)
					}
				}
			}
		}
		if n == 0 {
			skipped = append(skipped, b.Name+": takes no argument")
		}
	}
	var uniq []string
	for i, m := range skipped {
		if i == 0 || skipped[i-1] != m {
			uniq = append(uniq, m)
		}
	}
	return T, uniq
}

// chainTemplates: ordered pairs of core readers joined with "then" (the first
// reader triggers type inference, the second sees an already-typed value), plus
// a few longer chains.
func chainTemplates(base []*tmpl) []*tmpl {
	var core []*tmpl
	for _, t := range base {
		if t.core1 {
			core = append(core, t)
		}
	}
	var T []*tmpl
	for _, a := range core {
		for _, b := range core {
			c := &tmpl{name: a.name + " then " + b.name, verb: "chain", group: "chain", light: true}
			c.args = append(append(append([]string{}, a.args...), "then"), b.args...)
			c.assigns = append(append([]string{}, a.assigns...), b.assigns...)
			c.assignsEmpty = append(append([]string{}, a.assignsEmpty...), b.assignsEmpty...)
			c.moves = append(append([]string{}, a.moves...), b.moves...)
			c.numericOnly = a.numericOnly || b.numericOnly
			c.hetero = a.hetero || b.hetero
			c.foreign = a.foreign || b.foreign
			c.mainFlags = append(append([]string{}, a.mainFlags...), b.mainFlags...)
			// a field cut away by the first stage may be named by the second: such chains are still legal (the verb ignores a missing field)
			T = append(T, c)
		}
	}
	long := [][]string{
		{"sort", "-nf", "{x}", "then", "put", `$o = $x + 1`, "then", "step", "-a", "delta,shift", "-f", "{x}", "then", "tac", "then", "count-similar", "-g", "{x}"},
		{"put", `$o = $x . ""`, "then", "sort", "-nr", "{x}", "then", "head", "-n", big, "-g", "{x}", "then", "put", `$p = $x * 2`, "then", "fill-down", "-a", "-f", "{x}"},
		{"filter", `$x == $x || true`, "then", "top", "-a", "-n", big, "-f", "{x}", "then", "merge-fields", "-k", "-a", "sum", "-f", "{x},{y}", "-o", "m", "then", "put", `$t = typeof($x)`},
		{"group-by", "{x}", "then", "stats1", "-w", "2", "-a", "mean", "-f", "{x}", "then", "sec2gmt", "{y}", "then", "sort", "-t", "{x}", "then", "uniq", "-a"},
		{"put", "-q", `@r[NR] = $*; end { emit @r, "NR" }`, "then", "put", `$o = fmtnum($x, "%d")`, "then", "sort", "-c", "{x}", "then", "rank", "-f", "{x}"},
		{"cat", "-n", "then", "put", `for (k, v in $*) { $[k . "_t"] = typeof(v) }`, "then", "unsparsify", "then", "regularize", "then", "sort", "-f", "{x}", "-nr", "{w}"},
	}
	for _, l := range long {
		t := &tmpl{name: strings.Join(l, " "), verb: "chain", group: "chain", args: l}
		if strings.Contains(t.name, "sec2gmt") {
			t.A("y")
		}
		T = append(T, t)
	}
	return T
}

// allTemplates returns every template plus the per-verb coverage bookkeeping.
type catalogue struct {
	templates      []*tmpl
	uncoveredVerbs []string // in the lookup table, neither templated nor excluded-with-reason
	excluded       map[string]string
	fnSkipped      []string
	verbOptions    map[string][]string // verb -> options in its usage text no template uses
}

func buildCatalogue() *catalogue {
	c := &catalogue{excluded: excludedVerbs, verbOptions: map[string][]string{}}
	base := append(verbTemplates(), dslTemplates()...)
	{
		have := map[string]bool{}
		for _, t := range base {
			have[t.name] = true
		}
		for _, t := range append(collTemplates(), reuseTemplates()...) {
			if !have[t.name] { // a few collection readers are already among the scalar forms
				have[t.name] = true
				base = append(base, t)
			}
		}
	}
	core1 := map[string]bool{"cat": true, "sort -nf {x}": true, "top -a -n 2000 -f {x}": true, "step -a delta -f {x}": true,
		"merge-fields -k -a sum,count -f {x},{y} -o o": true, "sec2gmt {y}": true, "put $o = $x + 1": true, `put $o = $x . ""`: true, "put $o = typeof($x)": true,
		"filter $x == $x || true": true}
	n1 := 0
	for _, t := range base {
		if core1[t.name] {
			t.core, t.core1 = true, true
			n1++
		}
	}
	if n1 != len(core1) {
		panic("c03: a core1 template name does not exist")
	}
	fn, skipped := dslFunctionTemplates()
	c.fnSkipped = skipped
	c.templates = append(c.templates, base...)
	c.templates = append(c.templates, chainTemplates(base)...)
	have := map[string]bool{}
	for _, t := range c.templates {
		have[t.name] = true
	}
	for _, t := range fn {
		if !have[t.name] { // the same form may already be hand-written
			c.templates = append(c.templates, t)
		}
	}
	byVerb := map[string][]*tmpl{}
	for _, t := range c.templates {
		byVerb[t.verb] = append(byVerb[t.verb], t)
	}
	// names must be unique: they identify cases
	seen := map[string]bool{}
	for _, t := range c.templates {
		if seen[t.name] {
			panic("c03: duplicate template name " + t.name)
		}
		seen[t.name] = true
	}
	for _, setup := range transformers.TRANSFORMER_LOOKUP_TABLE {
		verb := setup.Verb
		if _, ok := excludedVerbs[verb]; ok {
			continue
		}
		ts := byVerb[verb]
		if len(ts) == 0 {
			c.uncoveredVerbs = append(c.uncoveredVerbs, verb)
			continue
		}
		// option coverage: every option the verb declares (structured option list, else its usage text) vs the options some template uses
		used := map[string]bool{}
		for _, t := range ts {
			inVerb := false
			for _, a := range t.args {
				if a == verb {
					inVerb = true
				}
				if inVerb && strings.HasPrefix(a, "-") {
					used[a] = true
				}
			}
		}
		var missing []string
		if verb == "put" || verb == "filter" {
			continue
		}
		if setup.Options != nil {
			for _, o := range setup.Options {
				any := used[o.Flag]
				for _, a := range o.Aliases {
					any = any || used[a]
				}
				if !any && o.Flag != "-h" && o.Flag != "--help" {
					missing = append(missing, o.Flag)
				}
			}
		} else {
			for _, line := range strings.Split(usageText(setup.UsageFunc), "\n") {
				line = strings.TrimSpace(line)
				if !strings.HasPrefix(line, "-") {
					continue
				}
				first := strings.Fields(line)[0]
				any := false
				for _, o := range strings.Split(first, "|") {
					if used[o] {
						any = true
					}
				}
				if !any && first != "-h|--help" {
					missing = append(missing, first)
				}
			}
		}
		if len(missing) > 0 {
			c.verbOptions[verb] = missing
		}
	}
	return c
}

func (c *catalogue) String() string { return fmt.Sprintf("%d templates", len(c.templates)) }

func usageText(f transformers.TransformerUsageFunc) string {
	tf, err := os.CreateTemp("/dev/shm", "verif-c03-usage-")
	if err != nil {
		return ""
	}
	defer os.Remove(tf.Name())
	defer tf.Close()
	func() {
		defer func() { recover() }()
		f(tf)
	}()
	b, _ := os.ReadFile(tf.Name())
	return string(b)
}
