// Package c03: check for property C03 (see /verif/DESIGN.md §3 C03).
package c03
