// Package c03: fields a chain does not assign pass through byte-for-byte.
//
// Pure law, no model: for every input record and every verb chain / DSL
// program that reads but does not assign a field, the output text of that
// field equals its input text and its position among the surviving original
// fields is unchanged. Three exhaustive grids on the real pipeline (in-process
// mlr invocations, many spellings per invocation):
//
//	readers: EVERY reader template (walked from the verb lookup table and the
//	         builtin-function table, plus hand-written DSL forms, chains and the
//	         name re-use family S x U) x inference flag x format pair (text
//	         formats and JSON-in) x position of x x a spelling set
//	shapes:  EVERY reader template x EVERY member of three families of
//	         collection-valued x (arrays, maps, nested; shapes.go) read from
//	         JSON and written key-spread to a non-JSON format
//	spell:   EVERY string over the numeric alphabet up to a length bound
//	         x the core readers x inference flag
package c03

import (
	"encoding/json"
	"fmt"
	"os"
	"path/filepath"
	"regexp"
	"sort"
	"strconv"
	"strings"
	"time"

	"github.com/johnkerl/miller/v6/pkg/transformers"

	"verif/harness/vf"
)

func init() {
	vf.Register(&vf.CheckDef{ID: "C03", Level: "model_checking", Run: run,
		Workers: map[string]vf.WorkerFunc{"readers": readersWorker, "spell": spellWorker, "shapes": shapesWorker}})
}

var inferFlags = []string{"", "-S", "-A", "-O"}

type layout struct {
	name  string
	order []string // logical field names
}

var layouts = []layout{
	{"mid", []string{"id", "y", "x", "w", "z"}},
	{"13th", []string{"id", "y", "w", "z", "g1", "g2", "g3", "g4", "g5", "g6", "g7", "g8", "x", "g9"}},
	{"first", []string{"x", "id", "y", "w", "z"}},
	{"last", []string{"id", "y", "w", "z", "x"}},
}

// spell grid: a slimmer record (id, y, x, w); {z} names a field that does not exist
var slimLayout = layout{"slim", []string{"id", "y", "x", "w"}}

type poolArgs struct {
	Deadline int64 `json:"deadline"` // unix seconds; 0 = none
	MaxLen   int   `json:"maxlen"`   // spell grid: every string up to this length
	S2Len    int   `json:"s2len"`    // readers grid: every string up to this length joins the boundary and nasty lists
}

// ---------------------------------------------------------------- instance of a template

type inst struct {
	t        *tmpl
	f        *format
	l        *layout
	flag     string
	mainOpt  []string
	actual   map[string]string // logical -> actual input field name
	order    []string          // actual names in input order
	logical  map[string]string // actual -> logical
	assigned map[string]bool   // actual names
	assEmpty map[string]bool
	allEmpty bool
	moved    map[string]bool
	allMoved bool
	outName  map[string]string // actual input name -> output name
	argv     []string          // without output-format flags
	tmpPref  string
	probe    string // shape grid: the plainest value of the family
	probed   bool   // the command was tried on the plainest record after its first failure
	dead     bool   // ... and failed there too: it rejects every input
}

var dslFieldRe = regexp.MustCompile(`\$(id|x|y|w|z)\b`)

func newInst(t *tmpl, f *format, l *layout, flag string, mainOpt []string) *inst {
	in := &inst{t: t, f: f, l: l, flag: flag, mainOpt: mainOpt, actual: map[string]string{}, logical: map[string]string{},
		assigned: map[string]bool{}, assEmpty: map[string]bool{}, moved: map[string]bool{}, outName: map[string]string{}}
	for i, n := range l.order {
		a := n
		if f.in == "nidx" {
			a = strconv.Itoa(i + 1)
		}
		in.actual[n] = a
		in.logical[a] = n
		in.order = append(in.order, a)
		in.outName[a] = a
	}
	pos := func(n string) string {
		for i, o := range l.order {
			if o == n {
				return strconv.Itoa(i + 1)
			}
		}
		return "0"
	}
	rev := make([]string, len(in.order))
	for i, a := range in.order {
		rev[len(in.order)-1-i] = a
	}
	ljid := in.actual["id"]
	if t.left == "x" {
		ljid = in.actual["x"]
	}
	if f.in == "nidx" {
		ljid = "1"
	}
	in.tmpPref = filepath.Join("/dev/shm", fmt.Sprintf("verif-c03-%d-split", os.Getpid()))
	if _, ok := in.actual["z"]; !ok {
		in.actual["z"] = "nosuchz"
	}
	rep := strings.NewReplacer(
		"{id}", in.actual["id"], "{x}", in.actual["x"], "{y}", in.actual["y"], "{w}", in.actual["w"], "{z}", in.actual["z"],
		"{X}", strings.ToUpper(in.actual["x"]), "{all}", strings.Join(in.order, ","), "{rev}", strings.Join(rev, ","),
		"{xpos}", pos("x"), "{ypos}", pos("y"), "{ljid}", ljid, "{tmp}", in.tmpPref)
	for _, n := range t.assigns {
		in.assigned[in.actual[n]] = true
	}
	for _, n := range t.assignsEmpty {
		if n == "*" {
			in.allEmpty = true
		} else {
			in.assEmpty[in.actual[n]] = true
		}
	}
	for _, n := range t.moves {
		if n == "*" {
			in.allMoved = true
		} else {
			in.moved[in.actual[n]] = true
		}
	}
	for from, to := range t.renames {
		in.outName[in.actual[from]] = to
	}
	if t.firstRenamed != "" {
		in.outName[in.order[0]] = t.firstRenamed
	}
	if flag != "" {
		in.argv = append(in.argv, flag)
	}
	in.argv = append(in.argv, t.mainFlags...)
	in.argv = append(in.argv, mainOpt...)
	in.argv = append(in.argv, f.inFlags...)
	for _, a := range t.args {
		a = dslFieldRe.ReplaceAllStringFunc(a, func(m string) string { return "${" + in.actual[m[1:]] + "}" })
		in.argv = append(in.argv, rep.Replace(a))
	}
	return in
}

// full argv: main flags, output flags inserted before the verb chain.
func (in *inst) command(ouFlags []string) []string {
	n := 0
	if in.flag != "" {
		n++
	}
	n += len(in.t.mainFlags) + len(in.mainOpt) + len(in.f.inFlags)
	out := append([]string{}, in.argv[:n]...)
	out = append(out, ouFlags...)
	out = append(out, in.argv[n:]...)
	return out
}

// records of a batch in the instance's layout.
func (in *inst) records(batch []string) [][]kv {
	recs := make([][]kv, len(batch))
	n := len(batch)
	for i, s := range batch {
		r := make([]kv, 0, len(in.order))
		for _, a := range in.order {
			var v string
			switch ln := in.logical[a]; ln {
			case "id":
				v = "r" + strconv.Itoa(i)
			case "x":
				v = s
			case "y":
				v = strconv.Itoa(1 + i%3)
			case "w":
				v = batch[(i+1)%n]
			case "z":
				v = "p:" + strconv.Itoa(i) + ";q:" + strconv.Itoa(i)
			default: // fillers g1..g9: floats with a trailing zero, themselves unassigned pass-through values
				v = ln[1:] + "." + strconv.Itoa(i) + "0"
			}
			r = append(r, kv{a, v})
		}
		recs[i] = r
	}
	return recs
}

func (in *inst) files(batch []string) vf.VFS {
	if in.t.left == "" {
		return nil
	}
	var recs [][]kv
	if in.t.left != "empty" {
		jn := in.actual["id"]
		if in.t.left == "x" {
			jn = in.actual["x"]
		}
		if in.f.in == "nidx" {
			jn = "1"
		}
		for i, s := range batch {
			jv := "r" + strconv.Itoa(i)
			if in.t.left == "x" {
				jv = s
			}
			if in.f.in == "nidx" {
				// positional names: a second left field would be named "2" and collide with the right record's field 2
				recs = append(recs, []kv{{jn, jv}})
			} else {
				recs = append(recs, []kv{{jn, jv}, {"lf", "L" + strconv.Itoa(i)}})
			}
		}
	}
	return vf.VFS{"LEFT": in.encodeRecs(recs)}
}

// encodeRecs writes records in the instance's input format; in the shape grid the values of x and w are raw JSON.
func (in *inst) encodeRecs(recs [][]kv) string {
	if in.f.in == "jsonraw" {
		f := "json"
		if in.f.inFlags[0] == "--ijsonl" {
			f = "jsonl"
		}
		return encodeJSON(f, recs, map[string]bool{in.actual["x"]: true, in.actual["w"]: true})
	}
	return encode(in.f.in, recs)
}

// expected: the input records as the oracle sees them: in the shape grid the collection-valued fields are
// key-spread (flatten-unflatten.md) with the template's flatten separator.
func (in *inst) expected(recs [][]kv) [][]kv {
	if in.f.in != "jsonraw" {
		return recs
	}
	sep := "."
	if in.t.flatsep != "" {
		sep = in.t.flatsep
	}
	out := make([][]kv, len(recs))
	xn, wn := in.actual["x"], in.actual["w"]
	for i, r := range recs {
		var e []kv
		for _, p := range r {
			if p.k == xn || p.k == wn {
				flattenRef(p.k, parseRaw(p.v), sep, &e)
			} else {
				e = append(e, p)
			}
		}
		out[i] = e
	}
	return out
}

// baseName splits a (possibly key-spread) field name into the record-level name and the spread suffix.
func (in *inst) baseName(n string) (string, string) {
	if in.f.in != "jsonraw" {
		return n, ""
	}
	sep := "."
	if in.t.flatsep != "" {
		sep = in.t.flatsep
	}
	if i := strings.Index(n, sep); i >= 0 {
		return n[:i], n[i:]
	}
	return n, ""
}

// ---------------------------------------------------------------- running and judging

type runner struct {
	w        *vf.Worker
	deadline int64
	over     bool
}

func (r *runner) overBudget() bool {
	if r.over {
		return true
	}
	if r.deadline > 0 && time.Now().Unix() > r.deadline {
		r.over = true
	}
	return r.over
}

func symCounts(s string, acc *[256]int64) {
	for i := 0; i < len(s); i++ {
		acc[s[i]]++
	}
}

type tally struct {
	xCompared, otherCompared, assignedSkipped, unidentified, outRecs, rejected, runs, failedRuns, nidxUnaligned int64
	sym                                                                                                         [256]int64
}

// runBatch runs one invocation on the batch; a failed run (the reader rejected
// some input: nothing to assert) is bisected down to single records, within a
// budget of failed runs per instance.
func (r *runner) runBatch(in *inst, batch []string, tl *tally, failBudget *int) {
	if len(batch) == 0 {
		return
	}
	if *failBudget <= 0 || in.dead {
		tl.rejected += int64(len(batch))
		return
	}
	recs := in.records(batch)
	input := in.encodeRecs(recs)
	files := in.files(batch)
	cmd := in.command(in.f.ouFlags)
	res := vf.RunMlr(cmd, vf.MlrOpts{Stdin: &input, Files: files})
	tl.runs++
	var shape [][]kv
	if res.OK() && in.f.out == "nidx" {
		// key structure of the output records from a second run with a keyed writer; only the KEYS are used
		res2 := vf.RunMlr(in.command([]string{"--odkvp"}), vf.MlrOpts{Stdin: &input, Files: files})
		tl.runs++
		if !res2.OK() {
			res = res2
		} else {
			shape = decode("dkvp", res2.Stdout)
		}
	}
	if in.t.tmpfile {
		if m, _ := filepath.Glob(in.tmpPref + "*"); len(m) > 0 {
			for _, p := range m {
				os.Remove(p)
			}
		}
	}
	if res.Panic != "" && len(batch) == 1 {
		// a panic emits nothing to compare: property C18's business, recorded in evidence here
		r.w.AddSet("panics-observed(C18)", fmt.Sprintf("%s on x=%q: %s", in.t.name, batch[0], firstLine(res.Panic)))
	}
	if !res.OK() {
		tl.failedRuns++
		*failBudget--
		if !in.probed {
			// first failure of this case: does the command work at all (on the plainest record)? A form that does not
			// parse, or a function that aborts on every call, emits nothing for any input: nothing to assert.
			in.probed = true
			probe := "1"
			if in.f.in == "jsonraw" {
				probe = in.probe
			}
			if len(batch) > 1 || batch[0] != probe {
				pin := in.encodeRecs(in.records([]string{probe}))
				pres := vf.RunMlr(cmd, vf.MlrOpts{Stdin: &pin, Files: in.files([]string{probe})})
				tl.runs++
				if !pres.OK() {
					in.dead = true
					r.w.AddSet("reject-reasons", in.t.verb+" (every input): "+firstLine(pres.Stderr+pres.Err+pres.Panic))
					tl.rejected += int64(len(batch))
					return
				}
			}
		}
		if len(batch) == 1 {
			tl.rejected++
			r.w.AddSet("reject-reasons", in.t.verb+": "+firstLine(res.Stderr+res.Err))
			return
		}
		h := len(batch) / 2
		r.runBatch(in, batch[:h], tl, failBudget)
		r.runBatch(in, batch[h:], tl, failBudget)
		return
	}
	out := decode(in.f.out, res.Stdout)
	if in.f.out == "nidx" {
		if len(shape) != len(out) {
			tl.nidxUnaligned += int64(len(out))
			return
		}
		for i := range out {
			if len(out[i]) != len(shape[i]) {
				tl.nidxUnaligned++
				out[i] = nil
				continue
			}
			for j := range out[i] {
				out[i][j].k = shape[i][j].k
			}
		}
	}
	r.judge(in, batch, in.expected(recs), out, cmd, input, tl)
}

func firstLine(s string) string {
	s = strings.TrimSpace(s)
	if i := strings.IndexByte(s, '\n'); i >= 0 {
		s = s[:i]
	}
	if len(s) > 90 {
		s = s[:90]
	}
	// drop the data-dependent part
	if i := strings.IndexAny(s, "\"'"); i > 0 {
		s = s[:i]
	}
	return s
}

func (r *runner) judge(in *inst, batch []string, recs [][]kv, out [][]kv, cmd []string, input string, tl *tally) {
	idOut := in.outName[in.actual["id"]]
	xName := in.actual["x"]
	for _, orec := range out {
		if orec == nil {
			continue
		}
		tl.outRecs++
		idx := -1
		for _, p := range orec {
			if p.k == idOut {
				if len(p.v) >= 2 && p.v[0] == 'r' {
					if n, err := strconv.Atoi(p.v[1:]); err == nil && n >= 0 && n < len(recs) && p.v == "r"+strconv.Itoa(n) {
						idx = n
					}
				}
				break
			}
		}
		if idx < 0 {
			tl.unidentified++
			continue
		}
		irec := recs[idx]
		lastPos := -1
		orderBroken := ""
		for _, ip := range irec {
			name, suf := in.baseName(ip.k)
			if in.assigned[name] || ((in.allEmpty || in.assEmpty[name]) && ip.v == "") {
				tl.assignedSkipped++
				continue
			}
			on := in.outName[name] + suf
			pos := -1
			for j, op := range orec {
				if op.k == on {
					pos = j
					break
				}
			}
			if pos < 0 {
				if name == xName {
					r.viol(in, "missing", batch[idx], cmd, input, fmt.Sprintf("output record of input record %d (id r%d) has no field %q; x was %q; output record %v", idx, idx, on, ip.v, orec))
				}
				continue
			}
			got := orec[pos].v
			if got != ip.v {
				what := "x"
				if name != xName {
					what = in.logical[name]
				}
				sp := ip.v
				if in.f.in == "jsonraw" {
					sp = batch[idx] // the whole collection value of x
				}
				r.viol(in, "text", sp, cmd, input, fmt.Sprintf("field %s (%s) of record id r%d: input text %q, output text %q", on, what, idx, ip.v, got))
			} else if name == xName {
				tl.xCompared++
				symCounts(ip.v, &tl.sym)
			} else {
				tl.otherCompared++
			}
			if !in.allMoved && !in.moved[name] {
				if pos < lastPos && orderBroken == "" {
					orderBroken = on
				}
				if pos > lastPos {
					lastPos = pos
				}
			}
		}
		if orderBroken != "" {
			r.viol(in, "order", batch[idx], cmd, input, fmt.Sprintf("field %s of record id r%d moved relative to the other surviving original fields: input order %v, output record %v", orderBroken, idx, in.order, orec))
		}
	}
}

func (r *runner) viol(in *inst, kind, spelling string, cmd []string, input string, what string) {
	if kind == "text" && in.f.out == "tsv" && strings.Contains(what, "\ufffd") {
		kind = "text-tsv-invalid-utf8" // cause label only: the TSV writer re-encodes invalid UTF-8 bytes as U+FFFD
	}
	key := fmt.Sprintf("L%02d %s[%s](%s | %s | %s | %s | %q)", len(spelling), kind, in.t.verb, in.t.name, in.flag, in.f.name, in.l.name, spelling)
	if len(input) > 6000 {
		input = input[:6000] + "...(truncated)"
	}
	r.w.Violation(key, fmt.Sprintf("mlr %s: %s", shellJoin(cmd), what), map[string]any{"argv": cmd, "stdin": input, "spelling": spelling, "what": what})
}

func shellJoin(a []string) string {
	var sb strings.Builder
	for i, s := range a {
		if i > 0 {
			sb.WriteByte(' ')
		}
		if s != "" && !strings.ContainsAny(s, " \t\n'\"$*?()[]{}|&;<>\\!#~`") {
			sb.WriteString(s)
		} else {
			sb.WriteString("'" + strings.ReplaceAll(s, "'", `'\''`) + "'")
		}
	}
	return sb.String()
}

func (r *runner) flush(in *inst, tl *tally) {
	w := r.w
	w.Nontrivial(tl.xCompared)
	w.Eval(tl.outRecs - tl.unidentified) // one oracle evaluation per output record traced back to its input record
	c := func(k string, n int64) {
		if n != 0 {
			w.Count(k, n)
		}
	}
	c("x_cells_compared", tl.xCompared)
	c("other_unassigned_cells_compared", tl.otherCompared)
	c("assigned_cells_skipped", tl.assignedSkipped)
	c("output_records", tl.outRecs)
	c("output_records_without_input_id(skipped)", tl.unidentified)
	c("records_rejected_by_reader(no output, nothing asserted)", tl.rejected)
	c("mlr_invocations", tl.runs)
	c("mlr_invocations_failed(bisected)", tl.failedRuns)
	c("nidx_records_unaligned(skipped)", tl.nidxUnaligned)
	c("verb:"+in.t.verb, tl.xCompared)
	c("flag:"+flagName(in.flag), tl.xCompared)
	c("format:"+in.f.name, tl.xCompared)
	c("layout:"+in.l.name, tl.xCompared)
	g := in.t.group
	if i := strings.IndexByte(g, ':'); i >= 0 {
		c("fn:"+g[i+1:], tl.xCompared)
		g = g[:i]
	}
	c("group:"+g, tl.xCompared)
	if len(in.mainOpt) > 0 {
		c("mainopt:"+strings.Join(in.mainOpt, " "), tl.xCompared)
	}
	for i := 0; i < len(alphabet); i++ {
		c("sym:"+string(alphabet[i]), tl.sym[alphabet[i]])
	}
	if tl.xCompared > 0 {
		w.AddSet("templates-effective", in.t.name)
	} else {
		w.AddSet("templates-silent", in.t.name+" @ "+in.f.name)
	}
	if tl.unidentified > 0 && !in.t.foreign {
		w.AddSet("templates-with-unidentified-output", in.t.name)
	}
}

func flagName(f string) string {
	if f == "" {
		return "default"
	}
	return f
}

// ---------------------------------------------------------------- spelling sets

func s2(maxLen int) []string {
	seen := map[string]bool{}
	var out []string
	add := func(s string) {
		if !seen[s] {
			seen[s] = true
			out = append(out, s)
		}
	}
	n := countStrings(maxLen)
	for k := uint64(0); k < n; k++ {
		add(nthString(k))
	}
	for _, s := range boundaryList() {
		add(s)
	}
	for _, s := range nastyStrings() {
		add(s)
	}
	return out
}

func domainFilter(in *inst, all []string) (keep []string, excluded int64) {
	for _, s := range all {
		ok := in.f.inDomain(s)
		if ok && in.t.numericOnly && !looksNumeric(s) {
			ok = false
		}
		if ok && in.t.valueOK != nil && !in.t.valueOK(s) {
			ok = false
		}
		if ok {
			keep = append(keep, s)
		} else {
			excluded++
		}
	}
	return
}

// ---------------------------------------------------------------- workers

const batchB = 256

// readers grid: one case per (template, inference flag, format, layout[, extra main option]).
type rcase struct {
	t    *tmpl
	f    *format
	l    *layout
	flag string
	opt  []string
	wide bool // the larger spelling set (thorough only)
}

var extraMainOpts = [][]string{{"--records-per-batch", "1"}, {"--no-hash-records"}, {"--hash-records"}, {"--nr-progress-mod", "1000000"}, {"--no-auto-flatten"}, {"--no-auto-unflatten"},
	{"--infer-none"}, {"--infer-int-as-float"}, {"--infer-octal"}, {"--no-dedupe-field-names"}, {"--records-per-batch", "7"}, {"--ofs", ","}}

func fmtIdx(name string) int {
	for i := range formats {
		if formats[i].name == name {
			return i
		}
	}
	panic("c03: no format " + name)
}

func skipFormat(t *tmpl, f *format) bool {
	return t.hetero && (f.out == "csv" || f.out == "tsv" || f.out == "nidx")
}

// readerCases: quick = a pairwise-covering selection of (format, layout, flag) per template (every format, every
// layout, every flag occurs with every template; dkvp x mid gets all four flags); thorough = the full product on the
// small spelling set plus the quick selection on the large one.
func readerCases(cat *catalogue, quick bool) []rcase {
	var out []rcase
	add := func(t *tmpl, fi, li int, flag string, opt []string, wide bool) {
		if skipFormat(t, &formats[fi]) {
			return
		}
		out = append(out, rcase{t, &formats[fi], &layouts[li], flag, opt, wide})
	}
	// pass 1: the covering selection for every template (thorough: on the large spelling set) and the extra main options
	for _, t := range cat.templates {
		isFn := strings.HasPrefix(t.group, "dslfn:") || t.group == "dsl-coll"
		isPair := t.group == "chain" && t.light
		wide := !quick
		if t.wfill {
			// generated function form with $w as the other argument: one scalar case; its weight is in the shape grid
			add(t, 0, 0, "", nil, wide)
			continue
		}
		if t.group == "reuse" {
			// name re-use after a structural edit: what matters is whether the record carries a key index: wide (13th: 14
			// fields) and narrow layouts, JSON-read records, and the explicit hashing switches
			// (small spelling set: the boundary list; the spelling dimension of these chains is covered by their stages)
			add(t, 0, 0, "", nil, false)
			add(t, 0, 1, "", nil, false)
			add(t, 0, 0, "", []string{"--hash-records"}, false)
			add(t, 0, 1, "", []string{"--no-hash-records"}, false)
			add(t, fmtIdx("json-num"), 0, "-O", nil, false)
			add(t, fmtIdx("json-str"), 3, "-S", nil, false)
			continue
		}
		if t.group == "dsl-coll" {
			add(t, 0, 0, "", nil, wide)
			// readers of collections: on scalars most evaluate to an error value; their weight is in the shape grid
			add(t, fmtIdx("json-num"), 0, "", nil, wide)
			continue
		}
		for _, flag := range inferFlags {
			add(t, 0, 0, flag, nil, wide)
		}
		if !isPair && isFn {
			add(t, 1, 1, "", nil, wide)
			add(t, fmtIdx("json-num"), 0, "", nil, wide)
		}
		if !isPair && !isFn {
			for fi := 1; fi < len(formats); fi++ {
				if quick && (formats[fi].name == "jsonl" || formats[fi].name == "json-str") && !t.core {
					// quick tier, core readers only: the JSON Lines flag selects the same reader as --ijson, and a JSON string
					// value is never type-inferred; json-num (values typed by the JSON decoder) runs with every template
					continue
				}
				add(t, fi, fi%len(layouts), inferFlags[fi%len(inferFlags)], nil, wide)
			}
			for li := 1; li < len(layouts); li++ {
				add(t, 0, li, inferFlags[(li+1)%len(inferFlags)], nil, wide)
			}
		}
		if !isFn && !isPair && (t.core1 || !quick) {
			// writer options of CSV/TSV that change quoting only (the decoder is RFC-4180, so quoting is transparent)
			add(t, 1, 0, "", []string{"--quote-all"}, false)
			add(t, 1, 1, "-O", []string{"--quote-original"}, false)
			add(t, 1, 2, "-A", []string{"--lazy-quotes"}, false)
			for oi, opt := range extraMainOpts {
				if quick {
					add(t, 0, oi%2, "", opt, false)
				} else {
					add(t, 0, 0, "", opt, false)
					add(t, 0, 1, "", opt, false)
				}
			}
		}
	}
	if quick {
		return out
	}
	// pass 2 (thorough): the full product format x layout x flag on the small spelling set
	for _, t := range cat.templates {
		isFn := strings.HasPrefix(t.group, "dslfn:") || t.group == "dsl-coll"
		if t.group == "chain" && t.light {
			continue
		}
		for fi := range formats {
			for li := range layouts {
				if isFn && (li > 1 || fi == 2 || (fi > 3 && formats[fi].name != "json-num")) {
					continue // generated function forms: dkvp, csv, xtab, json-num x (mid, 13th)
				}
				if t.wfill && (fi > 0 || li > 0) {
					continue
				}
				if t.group == "reuse" && (li > 1 || fi == 2 || fi == 3 || (fi > 4 && fi < 8) || formats[fi].name == "jsonl") {
					continue // narrow (mid) and wide (13th) records; dkvp, csv, nidx-in, json-num, json-str
				}
				if fi >= 8 && li > 1 {
					continue // JSON-in formats: mid and 13th
				}
				for _, flag := range inferFlags {
					add(t, fi, li, flag, nil, false)
				}
			}
		}
	}
	return out
}

func readersWorker(w *vf.Worker) {
	var a poolArgs
	json.Unmarshal(w.Args, &a)
	cat := buildCatalogue()
	narrow := s2(2)
	boundary := boundaryList()
	// JSON-in formats, small set: what distinguishes them from the text readers is the values the JSON decoder types
	// itself: every legal JSON number of the small set, plus the boundary list (numbers and strings)
	var jsonSet []string
	{
		inB := map[string]bool{}
		for _, b := range boundary {
			inB[b] = true
		}
		for _, v := range narrow {
			if isJSONNumber(v) || inB[v] {
				jsonSet = append(jsonSet, v)
			}
		}
	}
	var wideSet []string
	r := &runner{w: w, deadline: a.Deadline}
	only := os.Getenv("VERIF_C03_ONLY") // debugging: substring of the template name
	cases := readerCases(cat, w.Quick())
	for i, cs := range cases {
		idx := uint64(i + 1)
		if !w.Mine(idx) {
			continue
		}
		t := cs.t
		if only != "" && !strings.Contains(t.name, only) {
			continue
		}
		if r.overBudget() {
			w.Inexhaustive(fmt.Sprintf("readers grid: time budget reached at case %d of %d; the remaining cases of this shard were skipped", i, len(cases)))
			break
		}
		w.Begin(idx)
		w.Label(func() string {
			return fmt.Sprintf("%s | %s | %s | %s | %v", t.name, cs.flag, cs.f.name, cs.l.name, cs.opt)
		})
		S := narrow
		if t.group == "reuse" && !cs.wide {
			S = boundary
		} else if !cs.wide && (cs.f.in == "json" || cs.f.in == "jsonstr" || cs.f.in == "jsonl") {
			S = jsonSet
		}
		if cs.wide {
			if wideSet == nil {
				wideSet = s2(a.S2Len)
			}
			S = wideSet
		}
		t0 := time.Now()
		in := newInst(t, cs.f, cs.l, cs.flag, cs.opt)
		keep, excl := domainFilter(in, S)
		w.Count("spellings_outside_format_or_verb_domain(excluded)", excl)
		w.Count("spellings_inside_domain", int64(len(keep)))
		var tl tally
		budget := 48
		for i := 0; i < len(keep); i += batchB {
			j := i + batchB
			if j > len(keep) {
				j = len(keep)
			}
			r.runBatch(in, keep[i:j], &tl, &budget)
			w.Heartbeat()
		}
		if budget <= 0 || in.dead {
			w.AddSet("templates-rejecting-most-input", t.name+" @ "+flagName(cs.flag)+" "+cs.f.name)
		}
		r.flush(in, &tl)
		if d := time.Since(t0); d > 3*time.Second {
			w.AddSet("slow-cases", fmt.Sprintf("%5.1fs %s | %s | %s | %s | %v (%d runs)", d.Seconds(), t.name, cs.flag, cs.f.name, cs.l.name, cs.opt, tl.runs))
		}
	}
	if w.Shard == 0 {
		ex := newInst(cat.templates[100], &formats[1], &layouts[1], "-O", nil)
		w.Sample(map[string]any{"grid": "readers", "cases": len(cases), "argv": ex.command(formats[1].ouFlags), "spellings_per_case": len(narrow), "first_input_record": encode("csv", ex.records([]string{"0x00ff", "1e5"})[:1])})
	}
}

const batchA = 1000
const blockA = 20 * batchA

// spell grid: every string up to MaxLen x core readers x inference flags, dkvp in and out, record id,y,x,w.
func spellWorker(w *vf.Worker) {
	var a poolArgs
	json.Unmarshal(w.Args, &a)
	cat := buildCatalogue()
	type pass struct {
		core   []*tmpl
		maxLen int
	}
	var c1, c2 []*tmpl
	for _, t := range cat.templates {
		if t.core1 {
			c1 = append(c1, t)
		} else if t.core {
			c2 = append(c2, t)
		}
	}
	passes := []pass{{c1, a.MaxLen}}
	if !w.Quick() {
		passes = append(passes, pass{c2, a.MaxLen - 1})
	}
	r := &runner{w: w, deadline: a.Deadline}
	f := &formats[0]
	l := &slimLayout
	var idx uint64
	only := os.Getenv("VERIF_C03_ONLY")
	for _, ps := range passes {
		total := countStrings(ps.maxLen)
		// block-major order: all readers see the short strings before anyone sees the long ones
		for lo := uint64(0); lo < total; lo += blockA {
			hi := lo + blockA
			if hi > total {
				hi = total
			}
			var block []string
			for _, t := range ps.core {
				for _, flag := range inferFlags {
					idx++
					if !w.Mine(idx) {
						continue
					}
					if only != "" && !strings.Contains(t.name, only) {
						continue
					}
					if r.overBudget() {
						w.Inexhaustive(fmt.Sprintf("spell grid: time budget reached inside strings %d..%d of %d (length <= %d)", lo, hi, total, ps.maxLen))
						return
					}
					w.Begin(idx)
					w.Label(func() string { return fmt.Sprintf("%s | %s | strings %d..%d", t.name, flag, lo, hi) })
					if block == nil {
						block = make([]string, 0, hi-lo)
						for k := lo; k < hi; k++ {
							block = append(block, nthString(k))
						}
					}
					in := newInst(t, f, l, flag, nil)
					keep, excl := domainFilter(in, block)
					w.Count("spellings_outside_format_or_verb_domain(excluded)", excl)
					w.Count("spellings_inside_domain", int64(len(keep)))
					var tl tally
					budget := 64
					for i := 0; i < len(keep); i += batchA {
						j := i + batchA
						if j > len(keep) {
							j = len(keep)
						}
						r.runBatch(in, keep[i:j], &tl, &budget)
						w.Heartbeat()
					}
					r.flush(in, &tl)
				}
			}
		}
	}
	if w.Shard == 0 {
		w.Sample(map[string]any{"grid": "spell", "strings": countStrings(a.MaxLen), "core_readers_all_lengths": len(c1), "core_readers_one_shorter": len(c2), "last_string": nthString(countStrings(a.MaxLen) - 1)})
	}
}

// ---------------------------------------------------------------- orchestrator

func run(c *vf.Ctx) {
	c.Rule = "case = (reader template, inference flag, format pair, position of x, spelling): the spelling is the text of field x of one input record of an in-process mlr invocation (256 or 1000 records per invocation); oracle: every original field the template does not assign has byte-identical text in every output record carrying that record's id, and unassigned, unmoved original fields keep their relative order. A case is non-trivial when the x cell was found in the output and compared; all non-trivial cases are distinct by construction (distinct_nontrivial = compared x cells). Shape grid: case = (reader template, collection value of x, format pair, inference flag, position): x (and its neighbour w) is a JSON array / map / nested collection held by the record, every member of three families enumerated; same oracle on the documented key-spread form (x.1, x.b.2, ...): every leaf of a collection nobody assigns keeps its input text, its path and its order (one compared leaf of x = one non-trivial case)"
	c.Assume("JSON/YAML output and --ofmt are outside the property (documented re-renderings) and are not generated")
	c.Assume("per-format domain predicates (codec.go:inDomainOne): dkvp no ','; tsv no TAB/backslash (TSV escapes); xtab no leading/trailing space (alignment padding); nidx non-empty and no space; no CR/LF in any format (line-ending normalisation is documented); csv cells starting with a BOM excluded. Excluded cells are counted")
	c.Assume("a template that assigns a field (sec2gmt y, nest -f z, $y = ...) is checked on every OTHER field; fields a verb is documented to fill only when empty (fill-down, fill-empty, sparsify) are checked when non-empty; verbs documented to move fields (reorder, sort -b, cut -o, template, sort-within-records, uniq -g, count-distinct, join field) are exempt from the order clause for those fields only")
	c.Assume("verbs that assign every field or emit no input field are excluded with a reason (coverage.excluded_verbs); forms assigning $x or $* are not generated (the property's own wording)")
	c.Assume("an invocation that exits non-zero (reader aborts on the input, e.g. fraction on a non-number, or a generated function call that does not parse) emits nothing to compare: it is bisected to the offending records, which are counted as rejected, never as a verdict")
	c.Assume("output records without the id of an input record (gap's empty records, stats1 -s summaries, emitf of oosvars) are skipped and counted")
	c.Assume("nidx output has no keys: the key list of each output record is taken from a second run of the same command with --odkvp (keys only, never values); records whose cell count differs are skipped and counted")
	c.Assume("numeric-only readers (fraction, stats2) get only spellings accepted by the check's own loose number grammar (spell.go:looksNumeric); identity-on-domain verbs (utf8-to-latin1, latin1-to-utf8: ASCII; unspace: no spaces) only values inside the documented identity domain")

	c.Assume("JSON INPUT is inside the quantifier (only JSON/YAML OUTPUT is excluded): formats json-num (legal RFC-8259 numbers as bare number tokens, everything else as a JSON string), json-str (every value a JSON string) and jsonl feed the same templates; domain: valid UTF-8 text (JSON text is Unicode); YAML input is not generated (its reader carries numbers by value and sorts keys: property C01's known findings)")
	c.Assume("shape grid: the expected output names are the documented key-spreading of flatten-unflatten.md (map keys and 1-up array indices joined with '.', or the template's own separator for flatten -s); empty collections and JSON null are not generated (the shipped docs do not say how they are spelled on non-JSON output); leaves are chosen inside the domain of both writers used (dkvp, xtab); numeric-only readers (fraction, stats2) are not run on collections; --no-auto-flatten (documented to JSON-stringify collections) is not combined with collection-valued fields")
	c.Assume("shape grid, assignments to OTHER variables: `$o = $x; $o[1] = ...`, `var a = $x; a[1] = ...`, `@a = $x; ...`, a function parameter or a loop variable bound to $x and then modified are not assignments to x (property text; reference-dsl-variables.md: arguments are passed by value; reference-dsl-control-structures.md: loop variables are bound to a copy; sort is documented to return a sorted copy)")
	c.Assume("name re-use family: after `rename x,xx` (or cut -x / unset / positional rename / reorder) an operation addressed to the retired name is not an assignment to the renamed field: xx keeps the text of x and its position; run on narrow and wide (14 fields >= the 12-field hashing threshold) text records, with --hash-records / --no-hash-records, and on JSON-read records (always indexed)")

	cat := buildCatalogue()
	quick := c.Quick()
	start := time.Now()
	var bud1, bud2, bud3 time.Duration
	a := poolArgs{}
	if quick {
		a.MaxLen, a.S2Len = 4, 2
		bud1, bud3, bud2 = 45*time.Second, 65*time.Second, 85*time.Second
	} else {
		a.MaxLen, a.S2Len = 5, 3
		bud1, bud3, bud2 = 7*time.Minute, 10*time.Minute, 13*time.Minute+30*time.Second
	}
	if s := os.Getenv("VERIF_C03_BUDGET_X"); s != "" { // debugging on a loaded machine: stretch the time budgets
		if k, err := strconv.Atoi(s); err == nil && k > 0 {
			bud1, bud2, bud3 = bud1*time.Duration(k), bud2*time.Duration(k), bud3*time.Duration(k)
		}
	}
	if s := os.Getenv("VERIF_C03_MAXLEN"); s != "" {
		a.MaxLen, _ = strconv.Atoi(s)
	}
	a.Deadline = start.Add(bud1).Unix()
	res1 := c.RunPool(vf.PoolSpec{Worker: "readers", Shards: 192, Args: a, StallSecs: 120})
	c.Extra["wall_readers_grid_s"] = int(time.Since(start).Seconds())
	a.Deadline = start.Add(bud3).Unix()
	res3 := c.RunPool(vf.PoolSpec{Worker: "shapes", Shards: 192, Args: a, StallSecs: 120})
	c.Extra["wall_readers+shape_grids_s"] = int(time.Since(start).Seconds())
	a.Deadline = start.Add(bud2).Unix()
	res2 := c.RunPool(vf.PoolSpec{Worker: "spell", Shards: 128, Args: a, StallSecs: 120})

	// ---- evidence
	byPrefix := func(p string) map[string]int64 {
		m := map[string]int64{}
		for k, v := range c.Counters {
			if strings.HasPrefix(k, p) {
				m[k[len(p):]] = v
				delete(c.Counters, k)
			}
		}
		return m
	}
	verbHits := byPrefix("verb:")
	c.Extra["x_cells_compared_per_verb"] = verbHits
	c.Extra["x_cells_compared_per_flag"] = byPrefix("flag:")
	c.Extra["x_cells_compared_per_format"] = byPrefix("format:")
	c.Extra["x_cells_compared_per_position"] = byPrefix("layout:")
	c.Extra["x_cells_compared_per_template_group"] = byPrefix("group:")
	c.Extra["x_cells_compared_per_extra_main_option"] = byPrefix("mainopt:")
	syms := byPrefix("sym:")
	c.Extra["alphabet_symbol_hits_in_compared_x"] = syms
	shapeHits := byPrefix("shape:")
	c.Extra["shape_grid_x_leaves_compared_per_family"] = shapeHits
	shapeFn := byPrefix("shapefn:")
	c.Extra["builtin_functions_applied_to_collection_valued_x"] = len(shapeFn)
	fams := shapeFamilies(quick)
	famSizes := map[string]int{}
	for i := range fams {
		famSizes[fams[i].name] = len(fams[i].values)
		c.Extra["shape_grid_templates_effective:"+fams[i].name] = len(res3.Sets["shape-templates-effective:"+fams[i].name])
		if shapeHits[fams[i].name] == 0 {
			c.Broken("shape family %q never had a leaf of x compared", fams[i].name)
		}
	}
	c.Extra["shape_grid_family_sizes"] = famSizes
	c.Extra["shape_grid_cases"] = len(shapeCases(cat, quick, len(fams)))
	fnHits := byPrefix("fn:")
	c.Extra["builtin_functions_applied_to_x"] = len(fnHits)
	var fnSilent []string
	fnAll := map[string]bool{}
	for _, t := range cat.templates {
		if strings.HasPrefix(t.group, "dslfn:") {
			fnAll[t.group[6:]] = true
		}
	}
	for f := range fnAll {
		if fnHits[f] == 0 {
			fnSilent = append(fnSilent, f)
		}
	}
	sort.Strings(fnSilent)
	c.Extra["builtin_functions_generated_but_never_emitting(parse/run error on every form)"] = fnSilent
	c.Extra["builtin_functions_not_generated"] = cat.fnSkipped

	eff := map[string]bool{}
	for k := range res1.Sets["templates-effective"] {
		eff[k] = true
	}
	for k := range res2.Sets["templates-effective"] {
		eff[k] = true
	}
	for k := range res3.Sets["templates-effective"] {
		eff[k] = true
	}
	var silent []string
	nT := map[string]int{}
	for _, t := range cat.templates {
		g := t.group
		if i := strings.IndexByte(g, ':'); i >= 0 {
			g = g[:i]
		}
		nT[g]++
		if !eff[t.name] && !strings.HasPrefix(t.group, "dslfn:") {
			silent = append(silent, t.name)
		}
	}
	c.Extra["templates_per_group"] = nT
	c.Extra["templates_total"] = len(cat.templates)
	c.Extra["templates_effective(x compared at least once)"] = len(eff)
	c.Extra["templates_never_comparing_x(vacuous)"] = append([]string{}, silent...)
	c.Extra["templates_with_unidentified_output_not_declared"] = vf.SortedSet(res1, "templates-with-unidentified-output")
	c.Extra["slow_cases(>3s wall, informational)"] = append(vf.SortedSet(res1, "slow-cases"), vf.SortedSet(res3, "slow-cases")...)
	c.Extra["templates_rejecting_most_input"] = vf.SortedSet(res1, "templates-rejecting-most-input")
	rr := vf.SortedSet(res1, "reject-reasons")
	if len(rr) > 60 {
		rr = rr[:60]
	}
	c.Extra["reject_reasons(sample)"] = rr
	c.Extra["excluded_verbs"] = cat.excluded
	c.Extra["uncovered_verbs(in lookup table, no template, not excluded)"] = append([]string{}, cat.uncoveredVerbs...)
	c.Extra["verb_options_no_template_uses"] = cat.verbOptions
	c.Extra["verbs_in_lookup_table"] = len(transformers.TRANSFORMER_LOOKUP_TABLE)
	c.Extra["verbs_with_x_compared"] = len(verbHits) - boolInt(verbHits["chain"] > 0)
	c.Extra["spell_grid_max_length"] = a.MaxLen
	c.Extra["spell_grid_strings"] = countStrings(a.MaxLen)
	c.Extra["readers_grid_spellings_small_set"] = len(s2(2))
	if !quick {
		c.Extra["readers_grid_spellings_large_set"] = len(s2(a.S2Len))
	}
	c.Extra["readers_grid_cases"] = len(readerCases(cat, quick))
	c.DistinctNontrivial = c.Counters["x_cells_compared"]

	// vacuity guards that are harness bugs when they fire
	for i := 0; i < len(alphabet); i++ {
		if syms[string(alphabet[i])] == 0 {
			c.Broken("alphabet symbol %q never appeared in a compared x cell", string(alphabet[i]))
		}
	}
	if c.Exhaustive {
		if len(silent) > 0 {
			c.Broken("%d hand-written template(s) never compared an x cell (vacuous): %v", len(silent), silent[:min(len(silent), 8)])
		}
	}
}

func boolInt(b bool) int {
	if b {
		return 1
	}
	return 0
}
