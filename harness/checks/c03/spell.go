package c03

import (
	"strings"
)

// The numeric alphabet of the property (C06's alphabet): every string over it
// up to a length bound is a spelling under test, whatever Miller's classifier
// thinks of it (numbers and non-numbers alike must pass through unchanged).
const alphabet = "01789+-.eExXoObBafF_ "

// nthString returns the k-th string (k >= 0) of the canonical enumeration of all
// strings over the alphabet: by length, then lexicographic in alphabet order.
// k = 0 is the empty string.
func nthString(k uint64) string {
	n := uint64(len(alphabet))
	l := 0
	block := uint64(1)
	for k >= block {
		k -= block
		block *= n
		l++
	}
	b := make([]byte, l)
	for i := l - 1; i >= 0; i-- {
		b[i] = alphabet[k%n]
		k /= n
	}
	return string(b)
}

// countStrings is the number of strings of length <= maxLen.
func countStrings(maxLen int) uint64 {
	n := uint64(len(alphabet))
	total, block := uint64(0), uint64(1)
	for l := 0; l <= maxLen; l++ {
		total += block
		block *= n
	}
	return total
}

// boundary spellings named by the property statement and the design.
func boundaryList() []string {
	l := []string{
		// hex / binary / octal, signs, case of the prefix
		"0xff", "0xFF", "0XFF", "0Xff", "0x00ff", "0x0", "0x00", "0x7fffffffffffffff", "0x8000000000000000", "0xffffffffffffffff", "0xFFFFFFFFFFFFFFFF",
		"0x10000000000000000", "-0xff", "+0xff", "-0x8000000000000000", "-0xffffffffffffffff", "0x1p3", "0x1.8p1", "0x", "0xg", "0x_ff", "0xf_f",
		"0b1011", "0B1011", "0b0", "0b00001", "-0b11", "+0b11", "0b2", "0b", "0b1111111111111111111111111111111111111111111111111111111111111111",
		"0b10000000000000000000000000000000000000000000000000000000000000000",
		"0o17", "0O17", "0o0", "0o007", "-0o17", "+0o17", "0o8", "0o", "0o777777777777777777777", "0o1777777777777777777777", "0o2000000000000000000000",
		// leading '+', leading zeros
		"+1", "+0", "+00", "+1.5", "+.5", "+1e5", "+", "++1", "+-1", "-+1", "--1",
		"007", "0377", "06789", "08", "09", "00", "000", "0001", "-007", "+007", "00.5", "007.25", "-00.5", "0e0", "00e0", "01e5", "0_7",
		// exponent forms
		"1e5", "1E5", "1e+5", "1e-5", "1E-3", "1e05", "1e005", "1.e5", ".1e5", "1e", "e5", "1e5.0", "1e400", "1e-400", "-1e400", "1e308", "1.7976931348623157e308", "1.7976931348623159e308",
		"4.9e-324", "2.4e-324", "5e-324", "1e22", "1e23", "1e21", "123456789e-3", "1.5e3", "1.50e3", "15e2",
		// trailing zeros, trailing / leading dot
		"1.500", "1.0", "1.00", "1.", ".5", "0.5", "-.5", "5.", "-5.", ".", "-.", "0.", ".0", "0.0", "-0.0", "+0.0", "0.10", "0.100", "100", "100.", "100.0",
		// excess digits
		"1234567890123456789012345", "0.1234567890123456789012345", "1.0000000000000000000000001", "12345678901234567890.12345678901234567890",
		"9223372036854775807", "9223372036854775808", "-9223372036854775808", "-9223372036854775809", "18446744073709551615", "18446744073709551616",
		"99999999999999999999", "0.30000000000000004", "0.1", "0.3", "3.14159265358979323846264338327950288", "9007199254740993", "9007199254740992.5",
		"1.10", "1.1000000000000001", "2.5000000000000001e+00", "00000000000000000000000001", "123456789012345678", "1234567890123456789",
		// minus zero and friends
		"-0", "+0", "-00", "-0.0", "-0e0", "-0x0", "-0b0", "-0o0", "0", "-1", "1",
		// separators inside numbers, spaces
		"1_000", "1_000.5", "_1", "1_", "1__0", "1,5",
		" 1", "1 ", " 1 ", "  1", "1  ", " 0x10", "0x10 ", "1 2", " ", "  ", " -1", "- 1", "1 e5", "\t1", "1\t",
		// special float names
		"NaN", "nan", "NAN", "Inf", "inf", "+Inf", "-Inf", "-inf", "infinity", "Infinity", "-Infinity", "+infinity", "INF", "iNf", "NaN1", "nanx",
		// near-numbers
		"1a", "a1", "1f", "1F", "1d", "1L", "1.5f", "0x1f", "abc", "0a", "1x", "x1", "1e5x", "true", "false", "null", "-", "e", "E", "x", "0e", "0E", "1.2.3", "1-2", "1+2", "1e5e5", "..", "1..", "..1",
		"1/2", "50%", "$1", "1:2", "1;2", "١٢٣", "１２３", "1²", "½", "−1",
	}
	return l
}

// nastyStrings: arbitrary strings (every byte must be kept). Separators are
// excluded per format by the format's domain predicate.
func nastyStrings() []string {
	return []string{
		"", "a", "A", "abc", "hello world", "a b  c", " lead", "trail ", "a=b", "=", "==", "a=", "=a", "a,b", ",", ",,", "a;b", ";", "a:b", "a|b", "a\tb", "\t", "a\\tb", "a\\nb", "\\", "\\\\", "a\\",
		"\"", "\"\"", "\"a\"", "a\"b", "\"a", "a\"", "'a'", "it's", "a\nb", "\n", "a\r\nb", "a\rb", "{}", "[]", "{", "}", "[1,2]", "{\"a\":1}", "{\"a\":{\"b\":2}}", "[ ]", "{ }",
		"#", "#comment", "-", "--", "-x", "(error)", "(absent)", "absent", "error", "_", "__", "a.b", "a.b.c", ".a", "a.", "x_y", "$x", "${x}", "@x", "\\1", "\\.", "a*", "a+", "(a)", "(", ")", "[a-z]", "^a$", "a|", "?", "*", ".*",
		"é", "ü", "日本語", "héllo", "\xe9", "\xff", "a\xffb", "\xc3", "\xef\xbb\xbf", "\xef\xbb\xbfa", "😀", "a b", " ", " ", "a​b", "\x00", "a\x00b", "\x01", "\x1f", "\x7f", "\x1b[0m",
		"%d", "%s", "%08.3lf", "%", "%%", "%5d", "0%", "1e5%", "<a>", "&amp;", "&", "<", ">", "<=", "!", "!=", "~", "`", "``", "a`b",
		"1970-01-01", "1970-01-01T00:00:00Z", "12:34:56", "1d2h3m4s", "-1d", "1h", "00:00:01", "2023-01-01 00:00:00",
		strings.Repeat("9", 400), strings.Repeat("a", 300), "0." + strings.Repeat("0", 330) + "1", strings.Repeat("1", 64), "0x" + strings.Repeat("f", 40),
	}
}

// looksNumeric is the check's own loose number grammar, written from
// reference-main-arithmetic.md ("Anything scannable as int, e.g 123 or 0xabcd
// ... otherwise scannable as float ... 0x, 0o, 0b prefixes"). It is used ONLY
// as a domain predicate for the few verbs that abort on non-numeric input
// (fraction, stats2, histogram-like); a disagreement with Miller's scanner
// shows up as a failed run, which is bisected, never as a verdict.
func looksNumeric(s string) bool {
	if s == "" {
		return false
	}
	t := s
	if t[0] == '+' || t[0] == '-' {
		t = t[1:]
	}
	if t == "" {
		return false
	}
	low := strings.ToLower(t)
	digits := func(u, set string) bool {
		if u == "" {
			return false
		}
		for i := 0; i < len(u); i++ {
			if !strings.ContainsRune(set, rune(u[i])) {
				return false
			}
		}
		return true
	}
	switch {
	case strings.HasPrefix(low, "0x"):
		return digits(low[2:], "0123456789abcdef") && len(low) <= 18
	case strings.HasPrefix(low, "0b"):
		return digits(low[2:], "01") && len(low) <= 66
	case strings.HasPrefix(low, "0o"):
		return digits(low[2:], "01234567") && len(low) <= 23
	}
	// decimal: digits [. digits] [e [sign] digits]
	mant, exp := low, ""
	if i := strings.IndexByte(low, 'e'); i >= 0 {
		mant, exp = low[:i], low[i+1:]
		if exp != "" && (exp[0] == '+' || exp[0] == '-') {
			exp = exp[1:]
		}
		if !digits(exp, "0123456789") {
			return false
		}
	}
	ip, fp := mant, ""
	hasDot := false
	if i := strings.IndexByte(mant, '.'); i >= 0 {
		ip, fp, hasDot = mant[:i], mant[i+1:], true
	}
	if ip == "" && fp == "" {
		return false
	}
	if ip != "" && !digits(ip, "0123456789") {
		return false
	}
	if len(ip) > 1 && ip[0] == '0' {
		return false // leading zeros: a string unless -O; kept out of the numeric-only domain
	}
	if fp != "" && !digits(fp, "0123456789") {
		return false
	}
	_ = hasDot
	return true
}
