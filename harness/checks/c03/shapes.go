package c03

import (
	"encoding/json"
	"fmt"
	"os"
	"strings"
	"time"

	"verif/harness/vf"
)

// The SHAPE dimension: field x (and its neighbour w) is not a scalar but a JSON
// collection held by the record, and every reader template is run on it. The
// oracle is the same law as everywhere in this check, stated on the key-spread
// (auto-flattened, flatten-unflatten.md) form of the value: every leaf of a
// collection-valued field nobody assigns comes out as x.<path> with its input
// text, the leaves in their input order. A reader that sorts, re-types,
// re-renders, truncates or aliases the caller's collection in place breaks it.
//
// Families (every member enumerated, no sampling):
//
//	array : every array of length 1..maxLen over the leaf alphabet (all orders, all repetitions)
//	map   : every map of length 1..maxLen over the leaf alphabet, keys b,a,c,... (deliberately unsorted)
//	nested: outer array / outer map of length 1..2 whose elements are leaves, arrays (length 1..2) or maps (length 1..2;
//	        quick tier: length 1) over a two-leaf alphabet
//
// Empty collections are not generated: the shipped docs do not say how an empty map or array is spelled when key-spread.

// leaf tokens as written in the JSON input; the text the value has is the token itself (numbers, booleans) or the string content.
var shapeLeavesQuick = []string{`5`, `1e1`, `3.50`, `"0xff"`, `""`}
var shapeLeavesThorough = []string{`5`, `1e1`, `3.50`, `0.25`, `"0xff"`, `""`, `-0`, `"a b"`, `true`}
var shapeLeavesNested = []string{`1.0`, `"b"`}
var shapeMapKeys = []string{"b", "a", "c", "e", "d"}

type shapeFamily struct {
	name   string
	probe  string
	values []string // raw JSON text of each member, canonical order (shortest first)
}

func tuples(alpha []string, minLen, maxLen int) [][]string {
	var out [][]string
	var cur []string
	var rec func(l int)
	for l := minLen; l <= maxLen; l++ {
		rec = func(left int) {
			if left == 0 {
				out = append(out, append([]string{}, cur...))
				return
			}
			for _, a := range alpha {
				cur = append(cur, a)
				rec(left - 1)
				cur = cur[:len(cur)-1]
			}
		}
		rec(l)
	}
	return out
}

func rawArray(el []string) string { return "[" + strings.Join(el, ", ") + "]" }
func rawMap(el []string) string {
	p := make([]string, len(el))
	for i, e := range el {
		p[i] = jsonString(shapeMapKeys[i]) + ": " + e
	}
	return "{" + strings.Join(p, ", ") + "}"
}

func shapeFamilies(quick bool) []shapeFamily {
	leaves, maxLen := shapeLeavesThorough, 3
	if quick {
		leaves = shapeLeavesQuick
	}
	var arr, mp, nested []string
	for _, t := range tuples(leaves, 1, maxLen) {
		arr = append(arr, rawArray(t))
		mp = append(mp, rawMap(t))
	}
	nl, innerMapLen := shapeLeavesNested, 2
	if quick {
		innerMapLen = 1
	}
	var elems []string
	elems = append(elems, nl...)
	for _, t := range tuples(nl, 1, 2) {
		elems = append(elems, rawArray(t))
	}
	for _, t := range tuples(nl, 1, innerMapLen) {
		elems = append(elems, rawMap(t))
	}
	for _, t := range tuples(elems, 1, 2) {
		nested = append(nested, rawArray(t))
	}
	for _, t := range tuples(elems, 1, 2) {
		nested = append(nested, rawMap(t))
	}
	return []shapeFamily{{"array", "[1]", arr}, {"map", `{"b": 1}`, mp}, {"nested", "[[1]]", nested}}
}

type scase struct {
	t    *tmpl
	fam  int
	f    *format
	l    *layout
	flag string
}

// shapeCases: quick = every template x every family, format/flag/layout rotated so that each family meets both
// formats and each inference flag over the template list; thorough = family x format x flag on the mid layout, plus the
// wide (13th) layout with (json>dkvp, default) and (jsonl>xtab, -O).
func shapeCases(cat *catalogue, quick bool, nFam int) []scase {
	var out []scase
	for ti, t := range cat.templates {
		if t.numericOnly {
			continue // fed only by the number grammar: a collection is outside it
		}
		for fam := 0; fam < nFam; fam++ {
			if quick {
				if t.light && t.group == "chain" && fam > 0 {
					continue // ordered pairs of core readers: the array family only in the quick tier
				}
				k := ti + fam
				out = append(out, scase{t, fam, &shapeFormats[k%2], &layouts[(k/2)%2], inferFlags[(k/4+fam)%4]})
				if t.group == "dsl-coll" {
					// the readers that take collections: the other format, on the wide (13th) layout if the first was mid
					out = append(out, scase{t, fam, &shapeFormats[(k+1)%2], &layouts[(k/2+1)%2], inferFlags[(k/4+fam+2)%4]})
				}
				continue
			}
			for fi := range shapeFormats {
				for li := 0; li < 2; li++ {
					for _, flag := range inferFlags {
						if t.light && t.group == "chain" && (li > 0 || flag == "-S") {
							continue
						}
						if strings.HasPrefix(t.group, "dslfn:") && li > 0 {
							continue // generated function forms: the position of x is immaterial to a function call
						}
						if li > 0 && !((fi == 0 && flag == "") || (fi == 1 && flag == "-O")) {
							continue
						}
						out = append(out, scase{t, fam, &shapeFormats[fi], &layouts[li], flag})
					}
				}
			}
		}
	}
	return out
}

func shapesWorker(w *vf.Worker) {
	var a poolArgs
	json.Unmarshal(w.Args, &a)
	cat := buildCatalogue()
	fams := shapeFamilies(w.Quick())
	r := &runner{w: w, deadline: a.Deadline}
	only := os.Getenv("VERIF_C03_ONLY")
	cases := shapeCases(cat, w.Quick(), len(fams))
	for i, cs := range cases {
		idx := uint64(i + 1)
		if !w.Mine(idx) {
			continue
		}
		t := cs.t
		if only != "" && !strings.Contains(t.name, only) {
			continue
		}
		if r.overBudget() {
			w.Inexhaustive(fmt.Sprintf("shape grid: time budget reached at case %d of %d; the remaining cases of this shard were skipped", i, len(cases)))
			break
		}
		fam := &fams[cs.fam]
		w.Begin(idx)
		w.Label(func() string {
			return fmt.Sprintf("shape %s | %s | %s | %s | %s", fam.name, t.name, cs.flag, cs.f.name, cs.l.name)
		})
		t0 := time.Now()
		in := newInst(t, cs.f, cs.l, cs.flag, nil)
		in.probe = fam.probe
		keep, excl := domainFilter(in, fam.values)
		w.Count("spellings_outside_format_or_verb_domain(excluded)", excl)
		w.Count("spellings_inside_domain", int64(len(keep)))
		var tl tally
		budget := 24
		const batchS = 1024
		for i := 0; i < len(keep); i += batchS {
			j := i + batchS
			if j > len(keep) {
				j = len(keep)
			}
			r.runBatch(in, keep[i:j], &tl, &budget)
			w.Heartbeat()
		}
		r.flush(in, &tl)
		if tl.xCompared > 0 {
			w.Count("shape:"+fam.name, tl.xCompared)
			w.AddSet("shape-templates-effective:"+fam.name, t.name)
			if strings.HasPrefix(t.group, "dslfn:") {
				w.Count("shapefn:"+t.group[6:], tl.xCompared)
			}
		}
		if d := time.Since(t0); d > 3*time.Second {
			w.AddSet("slow-cases", fmt.Sprintf("%5.1fs shape %s | %s | %s | %s (%d runs)", d.Seconds(), fam.name, t.name, cs.flag, cs.f.name, tl.runs))
		}
	}
	if w.Shard == 0 {
		ex := newInst(cat.templates[0], &shapeFormats[0], &layouts[0], "", nil)
		recs := ex.records(fams[2].values[len(fams[2].values)-3:])
		w.Sample(map[string]any{"grid": "shapes", "cases": len(cases), "family_sizes": map[string]int{"array": len(fams[0].values), "map": len(fams[1].values), "nested": len(fams[2].values)},
			"input": ex.encodeRecs(recs[:1]), "expected_key_spread_record": fmt.Sprint(ex.expected(recs[:1])[0])})
	}
}
