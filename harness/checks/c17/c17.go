// Package c17: check for property C17 (see /verif/DESIGN.md §3 C17).
package c17
