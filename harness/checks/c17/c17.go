// Package c17: failures are never silent. E1 x E4: every fault kind at every
// enumerated position, in every batch size, explored over ALL goroutine
// schedules of the real pipeline. Oracles on every execution: the run
// terminates (no deadlock / horizon / stall) and, whenever the fault is
// certainly reached, it fails (non-nil error from Stream or a trapped non-zero
// os.Exit) with a diagnostic. A real-binary layer pins the exit-status mapping.
package c17

import (
	"bytes"
	"encoding/json"
	"errors"
	"fmt"
	"io"
	"os"
	"os/exec"
	"path/filepath"
	"strings"
	"syscall"
	"time"

	"github.com/johnkerl/miller/v6/pkg/verifrt"

	"verif/harness/vf"
)

func init() {
	vf.Register(&vf.CheckDef{ID: "C17", Level: "fault_enumeration", Run: run,
		Workers: map[string]vf.WorkerFunc{"sched": schedWorker, "binary": binaryWorker}, Replay: replay})
}

const N = 4

// ---------------------------------------------------------------- controlled I/O

type failingReader struct {
	data []byte
	pos  int
	lim  int // deliver this many bytes, then fail
	err  error
}

func (r *failingReader) Read(p []byte) (int, error) {
	if r.pos >= r.lim {
		return 0, r.err
	}
	n := copy(p, r.data[r.pos:r.lim])
	r.pos += n
	return n, nil
}
func (r *failingReader) Close() error { return nil }

type failingWriter struct {
	buf    bytes.Buffer
	writes int
	failAt int // 1-up index of the Write call that fails (0 = never)
	fired  bool
}

func (w *failingWriter) Write(p []byte) (int, error) {
	w.writes++
	if w.failAt > 0 && w.writes >= w.failAt {
		w.fired = true
		return 0, errors.New("verif: injected write failure (ENOSPC)")
	}
	return w.buf.Write(p)
}
func (w *failingWriter) Close() error { return nil }

// ---------------------------------------------------------------- fault configurations

type cfg struct {
	Kind   string
	Name   string   // canonical: kind:chain:position
	Argv   []string // without --records-per-batch; "@T" tee path, "@D" dir
	Files  vf.VFS
	Must   bool           // the fault is certainly reached: every schedule must fail
	ReadAt map[string]int // file -> byte count after which reads fail
	FailW  int            // stdout write index that fails
	Bs     []int
}

func dkvpRecs(het int) string {
	var b strings.Builder
	for i := 1; i <= N; i++ {
		if i == het {
			fmt.Fprintf(&b, "h=%d\n", i) // a different key: not a prefix of the first record's keys, so the CSV writer cannot fill it
		} else {
			fmt.Fprintf(&b, "i=%d,g=a\n", i)
		}
	}
	return b.String()
}

func csvRecs(bad int, kind string) string {
	var b strings.Builder
	b.WriteString("i,g\n")
	for i := 1; i <= N; i++ {
		if i == bad {
			switch kind {
			case "ragged-short":
				fmt.Fprintf(&b, "%d\n", i)
			case "ragged-long":
				fmt.Fprintf(&b, "%d,a,extra\n", i)
			case "quote":
				fmt.Fprintf(&b, "%d,\"a\n", i) // unterminated quote swallows the rest
			}
		} else {
			fmt.Fprintf(&b, "%d,a\n", i)
		}
	}
	return b.String()
}

func jsonRecs(bad int, kind string) string {
	var b strings.Builder
	for i := 1; i <= N; i++ {
		if i == bad {
			switch kind {
			case "syntax":
				fmt.Fprintf(&b, "{\"i\": %d, \"g\": }\n", i)
			case "nonmap":
				fmt.Fprintf(&b, "%d\n", i)
			case "truncated":
				fmt.Fprintf(&b, "{\"i\": %d, \"g\"\n", i)
				return b.String()
			}
		} else {
			fmt.Fprintf(&b, "{\"i\": %d, \"g\": \"a\"}\n", i)
		}
	}
	return b.String()
}

func allBs() []int { return []int{1, 2, 3, 4, 5} }

func configs(quick bool) []cfg {
	var out []cfg
	S := strings.Fields
	add := func(c cfg) {
		if c.Bs == nil {
			c.Bs = allBs()
			if quick {
				c.Bs = []int{1, 2, 5}
			}
		}
		out = append(out, c)
	}
	type chainT struct {
		name string
		args []string
		must bool
	}
	full := []chainT{{"cat", S("cat"), true}, {"tac", S("tac"), true}, {"put", []string{"put", "$z=1"}, true}, {"head1", S("head -n 1"), false}, {"cat-then-head1", S("cat then head -n 1"), false}}
	short := []chainT{{"cat", S("cat"), true}, {"head1", S("head -n 1"), false}}
	positions := []int{1, 2, 3, 4}
	// F1 malformed CSV rows
	for _, kind := range []string{"ragged-short", "ragged-long", "quote"} {
		chs := full
		if kind != "ragged-short" {
			chs = short
		}
		for _, p := range positions {
			for _, ch := range chs {
				must := ch.must || p == 1
				if kind == "quote" && p == N {
					// an unterminated quote on the last line: reaches EOF inside a quoted field
				}
				add(cfg{Kind: "csv-" + kind, Name: fmt.Sprintf("csv-%s:%s:p=%d", kind, ch.name, p), Argv: append(append(S("--icsv --ojson"), ch.args...), "/vfs/in.csv"),
					Files: vf.VFS{"/vfs/in.csv": csvRecs(p, kind)}, Must: must})
			}
		}
	}
	// F2 malformed JSON
	for _, kind := range []string{"syntax", "nonmap", "truncated"} {
		for _, p := range positions {
			for _, ch := range short {
				add(cfg{Kind: "json-" + kind, Name: fmt.Sprintf("json-%s:%s:p=%d", kind, ch.name, p), Argv: append(append(S("--ijson --ojson"), ch.args...), "/vfs/in.json"),
					Files: vf.VFS{"/vfs/in.json": jsonRecs(p, kind)}, Must: ch.must || p == 1})
			}
		}
	}
	// F3 record not expressible in the output format: CSV with a change in field count
	for _, p := range []int{2, 3, 4} {
		for _, ch := range []chainT{{"cat", S("cat"), true}, {"put", []string{"put", "$z=1"}, true}, {"tac", S("tac"), true}} {
			add(cfg{Kind: "ocsv-schema", Name: fmt.Sprintf("ocsv-schema:%s:p=%d", ch.name, p), Argv: append(append(S("--ocsv"), ch.args...), "/vfs/in.dkvp"),
				Files: vf.VFS{"/vfs/in.dkvp": dkvpRecs(p)}, Must: true})
		}
	}
	// F4 DSL run-time failure at record p, failing verb in each chain position
	progs := map[string]string{
		"typed-local": `if (NR==%d) {int y = "abc"}`,
		"srec-nonmap": `if (NR==%d) {$* = 3}`,
		"ret-type":    `func f(str s): int { return s } if (NR==%d) {$y = f("a")}`,
		"assertion":   `if (NR==%d) {$y = asserting_null($i)}`,
	}
	for pname, prog := range progs {
		for _, p := range positions {
			e := fmt.Sprintf(prog, p)
			chs := map[string][]string{
				"alone":    {"put", e},
				"cat-put":  {"cat", "then", "put", e},
				"put-cat":  {"put", e, "then", "cat"},
				"put-tac":  {"put", e, "then", "tac"},
				"3rd-of-3": {"cat", "then", "cat", "then", "put", e},
				"2nd-of-3": {"cat", "then", "put", e, "then", "cat"},
			}
			if quick && pname != "typed-local" {
				chs = map[string][]string{"alone": chs["alone"], "put-cat": chs["put-cat"]}
			}
			for cn, args := range chs {
				add(cfg{Kind: "dsl-" + pname, Name: fmt.Sprintf("dsl-%s:%s:p=%d", pname, cn, p), Argv: append(args, "/vfs/in.dkvp"), Files: vf.VFS{"/vfs/in.dkvp": dkvpRecs(0)}, Must: true})
			}
			if pname == "typed-local" {
				add(cfg{Kind: "dsl-" + pname, Name: fmt.Sprintf("dsl-%s:put-head1:p=%d", pname, p), Argv: []string{"put", e, "then", "head", "-n", "1", "/vfs/in.dkvp"}, Files: vf.VFS{"/vfs/in.dkvp": dkvpRecs(0)}, Must: p == 1})
			}
		}
	}
	// end-block failure
	for _, pr := range []string{`end{int y = "abc"}`, `end{$y = asserting_null(1)}`} {
		add(cfg{Kind: "dsl-end", Name: "dsl-end:" + pr, Argv: []string{"put", pr, "/vfs/in.dkvp"}, Files: vf.VFS{"/vfs/in.dkvp": dkvpRecs(0)}, Must: true})
		add(cfg{Kind: "dsl-end", Name: "dsl-end-then-cat:" + pr, Argv: []string{"put", pr, "then", "cat", "/vfs/in.dkvp"}, Files: vf.VFS{"/vfs/in.dkvp": dkvpRecs(0)}, Must: true})
	}
	// F5 redirected-output / tee / split target whose per-file writer errors at record p
	for _, p := range []int{2, 3, 4} {
		f := vf.VFS{"/vfs/in.dkvp": dkvpRecs(p)}
		add(cfg{Kind: "tee-redirect-writer", Name: fmt.Sprintf("tee-redirect-writer:put-q-tee:p=%d", p), Argv: []string{"--ocsv", "put", "-q", `tee > "@T", $*`, "/vfs/in.dkvp"}, Files: f, Must: true})
		add(cfg{Kind: "tee-redirect-writer", Name: fmt.Sprintf("tee-redirect-writer:emit:p=%d", p), Argv: []string{"--ocsv", "put", "-q", `emit > "@T", $*`, "/vfs/in.dkvp"}, Files: f, Must: true})
		add(cfg{Kind: "tee-verb-writer", Name: fmt.Sprintf("tee-verb-writer:tee-then-put-q:p=%d", p), Argv: []string{"--ocsv", "tee", "@T", "then", "put", "-q", "true", "/vfs/in.dkvp"}, Files: f, Must: true})
		add(cfg{Kind: "split-writer", Name: fmt.Sprintf("split-writer:split-n-then-nothing:p=%d", p), Argv: []string{"--ocsv", "split", "-n", "10", "--prefix", "@D/sp", "/vfs/in.dkvp"}, Files: f, Must: true})
	}
	// F5b split with SEVERAL output files: the writer error of any of them must surface, in particular one that only
	// shows when a non-last file is finished (size mode closes file k when it opens file k+1)
	for _, p := range []int{2, 3, 4} {
		f := vf.VFS{"/vfs/in.dkvp": dkvpRecs(p)}
		// (with two handlers open at end of stream they are closed in Go map-iteration order; the sched build iterates those
		// maps in sorted key order - tools/vinstr sortedRangeSites - so that the scheduler owns this choice too)
		for _, mode := range [][]string{{"-n", "2"}, {"-n", "3"}, {"-m", "2"}, {"-g", "i"}} {
			add(cfg{Kind: "split-writer-multi", Name: fmt.Sprintf("split-writer-multi:split %s:p=%d", strings.Join(mode, " "), p),
				Argv: append(append([]string{"--ocsv", "split"}, mode...), "--prefix", "@D/sp", "/vfs/in.dkvp"), Files: f, Must: mode[0] != "-g" && !(mode[0] == "-m" && p >= 3) && !(mode[0] == "-n" && mode[1] == "3" && p == 4) && !(mode[0] == "-n" && mode[1] == "2" && p == 3)})
		}
	}
	// F5c the LEFT file of a join is an input like any other: malformed row at p, read error after k bytes, missing file -
	// unsorted and sorted (-s) joins, with and without --ul, the right input ending before or after the faulty left row
	leftCSV := func(bad int) string {
		var b strings.Builder
		b.WriteString("i,l\n")
		for i := 1; i <= N; i++ {
			if i == bad {
				fmt.Fprintf(&b, "%d\n", i)
			} else {
				fmt.Fprintf(&b, "%d,x\n", i)
			}
		}
		return b.String()
	}
	joinBs := []int{1, 2, 500}
	if quick {
		joinBs = []int{1, 500}
	}
	jms := [][]string{{}, {"-s"}, {"-s", "--ul"}, {"--np", "--ul"}}
	rights := []struct{ name, text string }{{"right=1..2", "i=1,g=a\ni=2,g=a\n"}, {"right=1..4", dkvpRecs(0)}, {"right=empty", ""}}
	if quick {
		jms = jms[:2]
		rights = []struct{ name, text string }{rights[0], rights[2]}
	}
	for _, jm := range jms {
		for _, right := range rights {
			jn := strings.TrimSpace("join " + strings.Join(jm, " "))
			base := append(append([]string{"join"}, jm...), "-i", "csv", "-j", "i", "-f", "/vfs/left.csv", "/vfs/in.dkvp")
			for _, p := range []int{1, 3, 4} {
				if quick && p == 3 {
					continue
				}
				add(cfg{Kind: "join-left-malformed", Name: fmt.Sprintf("join-left-malformed:%s:%s:p=%d", jn, right.name, p), Argv: base,
					Files: vf.VFS{"/vfs/in.dkvp": right.text, "/vfs/left.csv": leftCSV(p)}, Must: true, Bs: joinBs})
			}
			lt := leftCSV(0)
			for _, k := range []int{0, len(lt) / 2, len(lt) - 1} {
				if quick && k != len(lt)/2 {
					continue
				}
				add(cfg{Kind: "join-left-read-error", Name: fmt.Sprintf("join-left-read-error:%s:%s:k=%d", jn, right.name, k), Argv: base,
					Files: vf.VFS{"/vfs/in.dkvp": right.text, "/vfs/left.csv": lt}, ReadAt: map[string]int{"/vfs/left.csv": k}, Must: true, Bs: joinBs})
			}
			miss := append([]string{}, base...)
			for i := range miss {
				if miss[i] == "/vfs/left.csv" {
					miss[i] = "/nonexistent-dir/left.csv"
				}
			}
			add(cfg{Kind: "join-left-missing", Name: fmt.Sprintf("join-left-missing:%s:%s", jn, right.name), Argv: miss, Files: vf.VFS{"/vfs/in.dkvp": right.text}, Must: true, Bs: []int{1, 500}})
		}
	}
	// several redirected statements in one put: the error of ANY of them must surface, in particular one that only
	// shows when its target is closed at end of stream (writer error on the LAST record; failing statement first/last)
	for _, p := range []int{2, N} {
		f := vf.VFS{"/vfs/in.dkvp": dkvpRecs(p)}
		add(cfg{Kind: "two-redirects", Name: fmt.Sprintf("two-redirects:failing-first:p=%d", p), Argv: []string{"--ocsv", "put", "-q", `tee > "@T", $*; print > "@D/sp.txt", "x"`, "/vfs/in.dkvp"}, Files: f, Must: true})
		add(cfg{Kind: "two-redirects", Name: fmt.Sprintf("two-redirects:failing-last:p=%d", p), Argv: []string{"--ocsv", "put", "-q", `print > "@D/sp.txt", "x"; tee > "@T", $*`, "/vfs/in.dkvp"}, Files: f, Must: true})
		add(cfg{Kind: "two-redirects", Name: fmt.Sprintf("two-redirects:failing-middle-of-3:p=%d", p), Argv: []string{"--ocsv", "put", "-q", `print > "@D/sp1.txt", "x"; emit > "@T", $*; dump > "@D/sp2.txt"`, "/vfs/in.dkvp"}, Files: f, Must: true})
	}
	for _, tgt := range []string{"tee", "print", "emit", "dump"} {
		st := map[string]string{"tee": `tee > "/nonexistent-dir/x", $*`, "print": `print > "/nonexistent-dir/x", "a"`, "emit": `emit > "/nonexistent-dir/x", $*`, "dump": `dump > "/nonexistent-dir/x"`}[tgt]
		add(cfg{Kind: "redirect-unwritable", Name: "redirect-unwritable:" + tgt, Argv: []string{"put", "-q", st, "/vfs/in.dkvp"}, Files: vf.VFS{"/vfs/in.dkvp": dkvpRecs(0)}, Must: true})
	}
	add(cfg{Kind: "redirect-unwritable", Name: "redirect-unwritable:tee-verb", Argv: S("tee /nonexistent-dir/x /vfs/in.dkvp"), Files: vf.VFS{"/vfs/in.dkvp": dkvpRecs(0)}, Must: true})
	add(cfg{Kind: "redirect-unwritable", Name: "redirect-unwritable:split-verb", Argv: S("split -n 2 --prefix /nonexistent-dir/x /vfs/in.dkvp"), Files: vf.VFS{"/vfs/in.dkvp": dkvpRecs(0)}, Must: true})
	// F6 stdout write failure at the n-th write
	for _, n := range []int{1, 2, 4} {
		add(cfg{Kind: "stdout-write", Name: fmt.Sprintf("stdout-write:fflush-cat:n=%d", n), Argv: S("--fflush cat /vfs/in.dkvp"), Files: vf.VFS{"/vfs/in.dkvp": dkvpRecs(0)}, FailW: n, Must: true})
		add(cfg{Kind: "stdout-write", Name: fmt.Sprintf("stdout-write:fflush-put-print:n=%d", n), Argv: []string{"--fflush", "put", "-q", "print $i", "/vfs/in.dkvp"}, Files: vf.VFS{"/vfs/in.dkvp": dkvpRecs(0)}, FailW: n, Must: true})
	}
	add(cfg{Kind: "stdout-write", Name: "stdout-write:final-flush-cat", Argv: S("cat /vfs/in.dkvp"), Files: vf.VFS{"/vfs/in.dkvp": dkvpRecs(0)}, FailW: 1, Must: true})
	add(cfg{Kind: "stdout-write", Name: "stdout-write:final-flush-tac", Argv: S("tac /vfs/in.dkvp"), Files: vf.VFS{"/vfs/in.dkvp": dkvpRecs(0)}, FailW: 1, Must: true})
	add(cfg{Kind: "stdout-write", Name: "stdout-write:final-flush-ojson", Argv: S("--ojson cat /vfs/in.dkvp"), Files: vf.VFS{"/vfs/in.dkvp": dkvpRecs(0)}, FailW: 1, Must: true})
	// F7 read error after k bytes, per reader
	type rd struct{ flag, file, text string }
	readers := []rd{
		{"--idkvp", "/vfs/in.dkvp", dkvpRecs(0)}, {"--inidx", "/vfs/in.nidx", "1 a\n2 a\n3 a\n4 a\n"}, {"--icsv", "/vfs/in.csv", csvRecs(0, "")},
		{"--icsvlite", "/vfs/in.csv", csvRecs(0, "")}, {"--itsv", "/vfs/in.tsv", strings.ReplaceAll(csvRecs(0, ""), ",", "\t")}, {"--ijson", "/vfs/in.json", jsonRecs(0, "")},
		{"--ixtab", "/vfs/in.xtab", "i 1\ng a\n\ni 2\ng a\n\ni 3\ng a\n"}, {"--ipprint", "/vfs/in.pprint", "i g\n1 a\n2 a\n3 a\n4 a\n"},
		{"--imd", "/vfs/in.md", "| i | g |\n| --- | --- |\n| 1 | a |\n| 2 | a |\n"}, {"--ijsonl", "/vfs/in.jsonl", jsonRecs(0, "")},
		{"--iyaml", "/vfs/in.yaml", "- i: 1\n  g: a\n- i: 2\n  g: a\n"}, {"--idkvpx", "/vfs/in.dkvpx", dkvpRecs(0)},
	}
	for _, r := range readers {
		ks := []int{0, len(r.text) / 2, len(r.text)}
		// at every line boundary in thorough
		if !quick {
			ks = []int{0}
			for i, ch := range r.text {
				if ch == '\n' {
					ks = append(ks, i, i+1)
				}
			}
		}
		seen := map[int]bool{}
		for _, k := range ks {
			if seen[k] || k > len(r.text) {
				continue
			}
			seen[k] = true
			add(cfg{Kind: "read-error" + r.flag, Name: fmt.Sprintf("read-error:%s:cat:k=%d", r.flag, k), Argv: []string{r.flag, "--ojson", "cat", r.file}, Files: vf.VFS{r.file: r.text},
				ReadAt: map[string]int{r.file: k}, Must: true, Bs: []int{1, 2, 500}})
		}
	}
	// F7b read error in the second of two files (the first must have been emitted; the run must still fail)
	for _, r := range readers[:6] {
		second := strings.Replace(r.file, "in.", "in2.", 1)
		for _, ch := range []chainT{{"cat", S("cat"), true}, {"tac", S("tac"), true}, {"head1", S("head -n 1"), false}} {
			add(cfg{Kind: "read-error-2nd-file" + r.flag, Name: fmt.Sprintf("read-error-2nd-file:%s:%s", r.flag, ch.name), Argv: append(append([]string{r.flag, "--ojson"}, ch.args...), r.file, second),
				Files: vf.VFS{r.file: r.text, second: r.text}, ReadAt: map[string]int{second: len(r.text) / 2}, Must: ch.must, Bs: []int{1, 2, 500}})
		}
	}
	// F8 missing file at list position i of 3
	for i := 1; i <= 3; i++ {
		names := []string{"/vfs/a.dkvp", "/vfs/b.dkvp", "/vfs/c.dkvp"}
		files := vf.VFS{}
		for j, n := range names {
			if j+1 != i {
				files[n] = "i=1,g=a\ni=2,g=a\n"
			} else {
				names[j] = "/nonexistent-dir/missing.dkvp"
			}
		}
		for _, ch := range []chainT{{"cat", S("cat"), true}, {"sort", S("sort -f g"), true}, {"head1", S("head -n 1"), false}} {
			add(cfg{Kind: "missing-file", Name: fmt.Sprintf("missing-file:%s:pos=%d", ch.name, i), Argv: append(append([]string{}, ch.args...), names...), Files: files, Must: ch.must || i == 1, Bs: []int{1, 2, 3}})
		}
	}
	return out
}

// ---------------------------------------------------------------- exploration

func trunc(s string, n int) string {
	if len(s) > n {
		return s[:n] + "..."
	}
	return s
}

func replay(c *vf.Ctx, raw json.RawMessage) {
	var rp struct {
		Config   string   `json:"config"`
		B        int      `json:"b"`
		Schedule []int    `json:"schedule"`
		Command  string   `json:"command"`
		Argv     []string `json:"argv"`
	}
	json.Unmarshal(raw, &rp)
	if rp.Command != "" {
		fmt.Printf("replay of a real-binary case: run\n  MLR=$(cd /verif && bin/verif mlr) D=$(mktemp -d) sh -c %q\n", rp.Command)
		return
	}
	if !verifrt.Instrumented {
		vf.ExecSchedReplay("C17", c.Only)
		return
	}
	dir, _ := os.MkdirTemp("/dev/shm", "verif-c17r-")
	defer os.RemoveAll(dir)
	for _, quick := range []bool{true, false} {
		cs := configs(quick)
		for i := range cs {
			if cs[i].Name != rp.Config {
				continue
			}
			w := &vf.Worker{Only: -1}
			replaySched = rp.Schedule
			defer func() { replaySched = nil }()
			exploreCfg(w, &cs[i], rp.B, dir)
			return
		}
	}
	fmt.Println("replay: configuration not found in the current enumeration")
}

// when set, exploreCfg replays this one schedule (twice, with trace) instead of exploring
var replaySched []int

func exploreCfg(w *vf.Worker, c *cfg, b int, dir string) {
	tee := filepath.Join(dir, "tee.out")
	var argv []string
	argv = append(argv, "--records-per-batch", fmt.Sprint(b))
	for _, a := range c.Argv {
		a = strings.ReplaceAll(a, "@T", tee)
		a = strings.ReplaceAll(a, "@D", dir)
		argv = append(argv, a)
	}
	var fw *failingWriter
	var stderrText string
	spec := vf.ExploreSpec{
		Before: func() {
			os.Remove(tee)
			matches, _ := filepath.Glob(filepath.Join(dir, "sp*"))
			for _, m := range matches {
				os.Remove(m)
			}
		},
		Body: func() string {
			o := vf.MlrOpts{Files: c.Files}
			if c.ReadAt != nil {
				o.Open = func(path string) (io.ReadCloser, error, bool) {
					if k, ok := c.ReadAt[path]; ok {
						return &failingReader{data: []byte(c.Files[path]), lim: k, err: errors.New("verif: injected read failure (EIO)")}, nil, true
					}
					return nil, nil, false
				}
			}
			fw = nil
			if c.FailW > 0 {
				fw = &failingWriter{failAt: c.FailW}
				o.Out = fw
			}
			_, err := vf.InvokeMlr(argv, o)
			if err != nil {
				return "FAIL err=" + err.Error()
			}
			return "OK"
		},
		After: func(o string, r *verifrt.Result) string {
			stderrText = vf.TakeStderr()
			if strings.HasPrefix(o, "FAULT exit(") && !strings.HasPrefix(o, "FAULT exit(0)") {
				if strings.TrimSpace(stderrText) == "" {
					return "FAIL-SILENT " + o
				}
				return "FAIL exit"
			}
			if strings.HasPrefix(o, "FAIL err=") {
				return "FAIL err"
			}
			if o == "OK" && fw != nil && !fw.fired {
				return "OK-fault-not-fired"
			}
			return o
		},
		MaxExecs:  400000,
		MaxSteps:  4000,
		StallSecs: 10,
	}
	if replaySched != nil {
		o1, r1 := vf.ReplaySchedule(spec, replaySched)
		o2, r2 := vf.ReplaySchedule(spec, replaySched)
		fmt.Printf("replay of %s|b=%d\n  argv %v\n  schedule %v\n  deadlock=%v horizon=%v steps=%d outcome=%q\n", c.Name, b, argv, replaySched, r1.Deadlock, r1.Horizon, r1.Steps, o1)
		if r1.Deadlock {
			fmt.Printf("  blocked: %v\n", r1.Blocked)
		}
		fmt.Println("  trace (goroutine:operation@site):")
		for i, t := range r1.Trace {
			fmt.Printf("    %3d %s\n", i, t)
		}
		if o1 != o2 || r1.Deadlock != r2.Deadlock || r1.Steps != r2.Steps {
			fmt.Println("BROKEN: property=C17 the same schedule produced different observations on two replays")
		} else {
			fmt.Println("  second replay: identical observations")
		}
		return
	}
	r := vf.Explore(spec)
	if os.Getenv("VERIF_C17_TRACE") != "" {
		fmt.Fprintf(vf.RealStderr(), "  explore %s b=%d: execs=%d completed=%d cut=%d states=%d transitions=%d deadlocks=%d horizons=%d faults=%d maxdepth=%d maxsteps=%d exhaustive=%v stalled=%v\n",
			c.Name, b, r.Execs, r.Completed, r.Cut, r.States, r.Transitions, r.Deadlocks, r.Horizons, len(r.Faults), r.MaxDepth, r.MaxSteps, r.Exhaustive, r.Stalled)
	}
	w.Rep.States += r.States
	w.Rep.Transitions += r.Transitions
	w.Eval(int64(r.Execs))
	w.Count("executions_completed", int64(r.Completed))
	w.Count("configurations", 1)
	w.Count("kind:"+c.Kind, 1)
	key := fmt.Sprintf("%s|b=%d", c.Name, b)
	rp := func(sched []int) map[string]any {
		return map[string]any{"config": c.Name, "b": b, "argv": argv, "files": c.Files, "read_fail_after": c.ReadAt, "stdout_write_fails_at": c.FailW, "schedule": sched}
	}
	if r.Stalled {
		w.Stalled("stall:"+key, "a goroutine ran 10 s without reaching a scheduling point (spin / non-termination; normal steps take microseconds) in "+key, rp(r.StalledAt))
	}
	if !r.Exhaustive {
		w.Inexhaustive(fmt.Sprintf("%s: execution budget hit (states=%d)", key, r.States))
	}
	if r.Branchings > 0 {
		w.Nontrivial(1)
	}
	if r.Deadlocks > 0 {
		w.Violation("deadlock:"+key, fmt.Sprintf("deadlock (hang) in %d of %d executions of %s (blocked: %s)", r.Deadlocks, r.Execs, key, strings.Join(r.Blocked, " ")), rp(r.DeadlockAt))
	}
	if r.Horizons > 0 {
		w.Violation("horizon:"+key, fmt.Sprintf("step horizon exceeded in %d executions of %s (the run does not terminate)", r.Horizons, key), rp(r.HorizonAt))
	}
	fails, oks := 0, 0
	for f, n := range r.Faults {
		switch {
		case f == "FAIL exit":
			fails += n
		case strings.HasPrefix(f, "FAIL-SILENT"):
			w.Violation("silent-exit:"+key, fmt.Sprintf("%s: process exit with empty stderr in %d executions: %s", key, n, f), rp(r.FaultAt[f]))
		case strings.HasPrefix(f, "FAULT exit(0)"):
			oks += n
			if c.Must {
				w.Violation("exit0:"+key, fmt.Sprintf("%s: os.Exit(0) although the fault was reached (%d executions)", key, n), rp(r.FaultAt[f]))
			}
		default:
			w.Violation("panic:"+key, fmt.Sprintf("%s: %s (%d executions)", key, trunc(f, 400), n), rp(r.FaultAt[f]))
		}
	}
	for o, n := range r.Outcomes {
		switch o {
		case "FAIL err":
			fails += n
		case "OK":
			oks += n
			if c.Must {
				w.Violation("lost-error:"+key, fmt.Sprintf("%s: Stream returned nil (exit 0) in %d of %d complete executions although the fault was reached; failing executions: %d", key, n, r.Completed, fails), rp(r.Witness[o]))
			}
		case "OK-fault-not-fired":
			w.Count("vacuous_fault_not_fired", int64(n))
		}
	}
	w.Count("failing_executions", int64(fails))
	w.Count("succeeding_executions", int64(oks))
	if fails == 0 && r.Deadlocks == 0 && r.Horizons == 0 {
		w.Count("configs_where_fault_never_surfaced", 1)
	}
	w.AddSet("outcome-classes", fmt.Sprintf("%s fails=%v oks=%v", c.Kind, fails > 0, oks > 0))
	if len(w.Rep.Samples) < 2 {
		w.Sample(map[string]any{"config": c.Name, "argv": argv, "b": b, "must_fail": c.Must, "executions": r.Execs, "states": r.States, "failing_executions": fails, "succeeding_executions": oks})
	}
}

func schedWorker(w *vf.Worker) {
	if !verifrt.Instrumented {
		w.Broken("C17 sched worker started in a build without sched instrumentation")
		return
	}
	dir, err := os.MkdirTemp("/dev/shm", "verif-c17-")
	if err != nil {
		w.Broken("tempdir: %v", err)
		return
	}
	defer os.RemoveAll(dir)
	cs := configs(w.Quick())
	var idx uint64
	for i := range cs {
		for _, b := range cs[i].Bs {
			idx++
			if !w.Mine(idx) {
				continue
			}
			w.Begin(idx)
			w.Label(func() string { return fmt.Sprintf("%s|b=%d", cs[i].Name, b) })
			t0 := time.Now()
			exploreCfg(w, &cs[i], b, dir)
			if os.Getenv("VERIF_C17_TRACE") != "" {
				fmt.Fprintf(vf.RealStderr(), "%6.2fs idx=%d %s|b=%d evals=%d\n", time.Since(t0).Seconds(), idx, cs[i].Name, b, w.Rep.Evaluations)
			}
		}
	}
}

// ---------------------------------------------------------------- real-binary layer: exit status and diagnostic

type binCase struct {
	name   string
	sh     string // shell command; $MLR is the binary, $D a scratch dir
	expect string // "fail" | "ok"
}

func binCases() []binCase {
	return []binCase{
		{"missing-file", `$MLR cat $D/nosuch`, "fail"},
		{"missing-file-2nd", `$MLR cat $D/ok.dkvp $D/nosuch`, "fail"},
		{"missing-file-then", `$MLR cat then put '$z=1' $D/nosuch`, "fail"},
		{"directory-as-input-dkvp", `$MLR cat $D`, "fail"},
		{"directory-as-input-csv", `$MLR --icsv --ojson cat $D`, "fail"},
		{"directory-as-input-json", `$MLR --ijson --ojson cat $D`, "fail"},
		{"directory-as-input-nidx", `$MLR --inidx --ojson cat $D`, "fail"},
		{"directory-as-input-xtab", `$MLR --ixtab --ojson cat $D`, "fail"},
		{"directory-as-input-tsv", `$MLR --itsv --ojson cat $D`, "fail"},
		{"directory-as-input-pprint", `$MLR --ipprint --ojson cat $D`, "fail"},
		{"unreadable-file", `chmod 000 $D/secret.dkvp; setpriv --reuid=65534 --regid=65534 --clear-groups $MLR cat $D/secret.dkvp`, "fail"},
		{"dev-full-cat", `$MLR cat $D/ok.dkvp > /dev/full`, "fail"},
		{"dev-full-big", `$MLR cat $D/big.dkvp > /dev/full`, "fail"},
		{"dev-full-json", `$MLR --ojson cat $D/ok.dkvp > /dev/full`, "fail"},
		{"dev-full-print", `$MLR -n put 'end{print "x"}' > /dev/full`, "fail"},
		{"dev-full-tac", `$MLR tac $D/ok.dkvp > /dev/full`, "fail"},
		{"dev-full-pprint", `$MLR --opprint cat $D/ok.dkvp > /dev/full`, "fail"},
		{"tee-dev-full", `$MLR tee /dev/full $D/big.dkvp`, "fail"},
		{"tee-redirect-dev-full", `$MLR put -q 'tee > "/dev/full", $*' $D/big.dkvp`, "fail"},
		{"print-redirect-dev-full", `$MLR put -q 'print > "/dev/full", $i' $D/big.dkvp`, "fail"},
		{"emit-redirect-dev-full", `$MLR put -q 'emit > "/dev/full", $*' $D/big.dkvp`, "fail"},
		{"dump-redirect-dev-full", `$MLR put -q '@x[NR]=$i; end{dump > "/dev/full"}' $D/big.dkvp`, "fail"},
		{"two-redirects-first-dev-full", `$MLR put -q 'print > "/dev/full", $i; print > "'$D'/ok.txt", $i' $D/ok.dkvp`, "fail"},
		{"two-redirects-last-dev-full", `$MLR put -q 'print > "'$D'/ok.txt", $i; print > "/dev/full", $i' $D/ok.dkvp`, "fail"},
		{"three-redirects-middle-dev-full", `$MLR put -q 'tee > "'$D'/a.txt", $*; emit > "/dev/full", $*; dump > "'$D'/b.txt"' $D/ok.dkvp`, "fail"},
		{"two-puts-first-dev-full", `$MLR put -q 'print > "/dev/full", $i' then put -q 'print > "'$D'/ok.txt", $i' $D/ok.dkvp`, "fail"},
		{"tee-small-dev-full", `$MLR tee /dev/full $D/ok.dkvp`, "fail"},
		{"split-small-dev-full-like", `$MLR tee /dev/full then put '$z=1' $D/ok.dkvp`, "fail"},
		{"split-unwritable-dir", `$MLR split -n 2 --prefix /nonexistent-dir/x $D/ok.dkvp`, "fail"},
		{"tee-unwritable", `$MLR tee /nonexistent-dir/x $D/ok.dkvp`, "fail"},
		// split with several output files: a failure of ANY of them, whichever position it has
		{"split-n-first-file-dev-full", `ln -s /dev/full $D/s_1.dkvp; $MLR split -n 100 --prefix $D/s $D/big.dkvp`, "fail"},
		{"split-n-middle-file-dev-full", `ln -s /dev/full $D/s_3.dkvp; $MLR split -n 100 --prefix $D/s $D/big.dkvp`, "fail"},
		{"split-n-last-file-dev-full", `ln -s /dev/full $D/s_6.dkvp; $MLR split -n 100 --prefix $D/s $D/big.dkvp`, "fail"},
		{"split-m-first-file-dev-full", `ln -s /dev/full $D/s_1.dkvp; $MLR split -m 3 --prefix $D/s $D/big.dkvp`, "fail"},
		{"split-m-last-file-dev-full", `ln -s /dev/full $D/s_3.dkvp; $MLR split -m 3 --prefix $D/s $D/big.dkvp`, "fail"},
		{"split-g-one-file-dev-full", `ln -s /dev/full $D/s_2.dkvp; $MLR put '$k = NR % 3' then split -g k --prefix $D/s $D/big.dkvp`, "fail"},
		{"split-n-csv-schema-change-first-file", `printf 'a=1\nb=2\na=3\na=4\na=5\na=6\n' | $MLR --ocsv split -n 2 --prefix $D/s`, "fail"},
		{"split-n-csv-schema-change-middle-file", `printf 'a=1\na=2\na=3\nb=4\na=5\na=6\n' | $MLR --ocsv split -n 2 --prefix $D/s`, "fail"},
		{"split-n-csv-schema-change-last-file", `printf 'a=1\na=2\na=3\na=4\na=5\nb=6\n' | $MLR --ocsv split -n 2 --prefix $D/s`, "fail"},
		{"split-m-csv-schema-change", `printf 'a=1\na=2\nb=3\na=4\n' | $MLR --ocsv split -m 2 --prefix $D/s`, "fail"},
		{"split-g-csv-schema-change", `printf 'g=x,a=1\ng=y,a=2\ng=x,b=3\ng=y,a=4\n' | $MLR --ocsv split -g g --prefix $D/s`, "fail"},
		// the left file of a join
		{"join-left-missing-unsorted", `$MLR join -j i -f $D/nosuch $D/ok.dkvp`, "fail"},
		{"join-left-missing-sorted-empty-right", `$MLR join -s -j i -f $D/nosuch /dev/null`, "fail"},
		{"join-left-directory", `$MLR join -j i -f $D $D/ok.dkvp`, "fail"},
		{"join-left-ragged-csv-late-row-sorted", `printf 'i,l\n1,a\n2,b\n3,c\n4\n5,e\n' > $D/left.csv; printf 'i=1\ni=2\n' | $MLR join -s -i csv -j i -f $D/left.csv`, "fail"},
		{"join-left-ragged-csv-late-row-unsorted", `printf 'i,l\n1,a\n2,b\n3,c\n4\n5,e\n' > $D/left.csv; printf 'i=1\ni=2\n' | $MLR join -i csv -j i -f $D/left.csv`, "fail"},
		{"pipe-redirect-failing-cmd", `$MLR put -q 'print | "exit 3", $i' $D/ok.dkvp`, "any"},
		{"csv-ragged", `printf 'a,b\n1,2\n3\n' | $MLR --icsv --ojson cat`, "fail"},
		{"csv-ragged-head", `printf 'a,b\n1\n3,4\n' | $MLR --icsv --ojson cat`, "fail"},
		{"json-syntax", `printf '{"a":1}\n{"a":\n' | $MLR --ijson --ojson cat`, "fail"},
		{"dsl-parse-error", `$MLR -n put '$x ='`, "fail"},
		{"dsl-runtime-typed-local", `$MLR put 'int y = "abc"' $D/ok.dkvp`, "fail"},
		{"dsl-runtime-end", `$MLR put 'end{int y = "abc"}' $D/ok.dkvp`, "fail"},
		{"ocsv-schema-change", `printf 'a=1,b=2\nc=3\n' | $MLR --ocsv cat`, "fail"},
		{"ocsv-schema-change-tee", `printf 'a=1,b=2\nc=3\n' | $MLR --ocsv put -q 'tee > "'$D'/t.csv", $*'`, "fail"},
		{"nosuch-verb", `$MLR nosuchverb $D/ok.dkvp`, "fail"},
		{"bad-flag", `$MLR --nosuchflag cat $D/ok.dkvp`, "fail"},
		{"gz-corrupt", `printf 'not gzip' > $D/x.gz; $MLR --gzin cat $D/x.gz`, "fail"},
		{"prepipe-failing", `$MLR --prepipe 'false' cat $D/ok.dkvp`, "any"},
		{"gz-truncated-dkvp", `gzip -c $D/big.dkvp | head -c 200 > $D/t.gz; $MLR --gzin cat $D/t.gz`, "fail"},
		{"gz-truncated-csv", `(echo a,b; cat $D/big.dkvp) | gzip -c | head -c 200 > $D/t.csv.gz; $MLR --icsv --ojson cat $D/t.csv.gz`, "fail"},
		{"gz-truncated-json", `$MLR --ojson cat $D/big.dkvp | gzip -c | head -c 300 > $D/t.json.gz; $MLR --ijson --ojson cat $D/t.json.gz`, "fail"},
		{"zlib-garbage-by-extension", `printf 'x\234garbage' > $D/t.z; $MLR cat $D/t.z`, "fail"},
		{"stdin-closed-dir", `$MLR cat < $D`, "fail"},
		{"nr-progress-mod-dev-full-stderr", `$MLR --nr-progress-mod 1 cat $D/ok.dkvp 2> /dev/full`, "ok"},
		{"ok-cat", `$MLR cat $D/ok.dkvp`, "ok"},
		{"ok-head", `$MLR head -n 1 $D/big.dkvp`, "ok"},
		{"ok-empty", `$MLR cat /dev/null`, "ok"},
	}
}

func binaryWorker(w *vf.Worker) {
	mlr := vf.MlrBin()
	if mlr == "" {
		w.Broken("no plain mlr binary (VERIF_BIN_MLR)")
		return
	}
	cases := binCases()
	for i, bc := range cases {
		idx := uint64(i + 1)
		if !w.Mine(idx) {
			continue
		}
		w.Begin(idx)
		w.Label(func() string { return bc.name })
		dir, err := os.MkdirTemp("/dev/shm", "verif-c17b-")
		if err != nil {
			w.Broken("tempdir: %v", err)
			return
		}
		os.Chmod(dir, 0755)
		os.WriteFile(filepath.Join(dir, "ok.dkvp"), []byte("i=1,g=a\ni=2,g=b\n"), 0644)
		os.WriteFile(filepath.Join(dir, "secret.dkvp"), []byte("i=1\n"), 0644)
		var big strings.Builder
		for k := 0; k < 3000; k++ {
			fmt.Fprintf(&big, "i=%d,g=abcdefghij\n", k)
		}
		os.WriteFile(filepath.Join(dir, "big.dkvp"), []byte(big.String()), 0644)
		// a hang is decided by a generous deadline (normal duration: ~10 ms) and re-run 3x
		hangs, code, stderr := 0, 0, ""
		for attempt := 0; attempt < 3; attempt++ {
			var timedOut bool
			code, stderr, timedOut = runShell(bc.sh, mlr, dir, 30*time.Second)
			if !timedOut {
				hangs = 0
				break
			}
			hangs++
		}
		os.Chmod(filepath.Join(dir, "secret.dkvp"), 0644)
		os.RemoveAll(dir)
		w.Eval(1)
		w.Nontrivial(1)
		rp := map[string]any{"command": bc.sh, "exit": code, "stderr": trunc(stderr, 500)}
		if hangs == 3 {
			w.Violation("binary-hang:"+bc.name, fmt.Sprintf("`%s` did not terminate within 30 s in 3 of 3 runs (unbounded output or hang)", bc.sh), rp)
			continue
		}
		switch bc.expect {
		case "fail":
			if code == 0 {
				w.Violation("binary-exit0:"+bc.name, fmt.Sprintf("`%s` exits 0 (stderr %q): the failure is silent", bc.sh, trunc(stderr, 200)), rp)
			} else if !strings.Contains(stderr, "mlr") {
				w.Violation("binary-nodiag:"+bc.name, fmt.Sprintf("`%s` exits %d without an mlr diagnostic on stderr (%q)", bc.sh, code, trunc(stderr, 200)), rp)
			}
		case "ok":
			if code != 0 {
				w.Violation("binary-spurious-failure:"+bc.name, fmt.Sprintf("`%s` exits %d (%q)", bc.sh, code, trunc(stderr, 200)), rp)
			}
		}
		if strings.Contains(stderr, "goroutine ") && strings.Contains(stderr, "panic") {
			w.Violation("binary-panic:"+bc.name, fmt.Sprintf("`%s` dies with a Go panic: %s", bc.sh, trunc(stderr, 300)), rp)
		}
		if i < 2 {
			w.Sample(rp)
		}
	}
}

func runShell(sh, mlr, dir string, deadline time.Duration) (code int, stderr string, timedOut bool) {
	cmd := exec.Command("/bin/sh", "-c", sh)
	cmd.Env = append(os.Environ(), "MLR="+mlr, "D="+dir, "MLRRC=__none__")
	cmd.SysProcAttr = &syscall.SysProcAttr{Setpgid: true}
	var eb bytes.Buffer
	cmd.Stderr = &limitedWriter{w: &eb, n: 1 << 16}
	cmd.Stdout = &limitedWriter{w: io.Discard, n: 1 << 62}
	if err := cmd.Start(); err != nil {
		return -1, err.Error(), false
	}
	done := make(chan error, 1)
	go func() { done <- cmd.Wait() }()
	select {
	case err := <-done:
		if err != nil {
			if ee, ok := err.(*exec.ExitError); ok {
				return ee.ExitCode(), eb.String(), false
			}
			return -1, err.Error(), false
		}
		return 0, eb.String(), false
	case <-time.After(deadline):
		syscall.Kill(-cmd.Process.Pid, syscall.SIGKILL)
		<-done
		return -1, eb.String(), true
	}
}

type limitedWriter struct {
	w io.Writer
	n int
}

func (l *limitedWriter) Write(p []byte) (int, error) {
	if l.n > 0 {
		k := len(p)
		if k > l.n {
			k = l.n
		}
		l.w.Write(p[:k])
		l.n -= k
	}
	return len(p), nil
}

func run(c *vf.Ctx) {
	c.Rule = "fault configurations = fault kind x position (record index / byte offset / write index / file position) x verb chain (failing verb in each chain position) x --records-per-batch; each is explored over ALL goroutine schedules of the real pipeline (E1). evaluations = executions; distinct_nontrivial = fault configurations with a branching schedule space plus real-binary cases"
	c.Assume("a fault behind an early-exit verb (head) may legitimately never be reached: there only termination is asserted")
	c.Assume("the scheduler owns channels/selects/spawns; reads and writes are instantaneous answers of controlled readers/writers (faults are positional, not timing-dependent)")
	c.Assume("real-binary layer: hangs are decided by a 30 s deadline (normal runs take ~10 ms), re-run 3 times")
	cs := configs(c.Quick())
	n := 0
	kinds := map[string]int{}
	for _, x := range cs {
		n += len(x.Bs)
		kinds[x.Kind]++
	}
	c.Extra["fault_configurations"] = n
	c.Extra["fault_kinds"] = kinds
	res := c.RunPool(vf.PoolSpec{Worker: "sched", Sched: true, Shards: 64, StallSecs: 600,
		CrashKey: func(idx uint64, label, kind, tail string) (string, string) {
			return "crash:" + label, fmt.Sprintf("worker %s while exploring %s: %s", kind, label, trunc(tail, 600))
		}})
	c.RunPool(vf.PoolSpec{Worker: "binary", Shards: len(binCases()), StallSecs: 600})
	c.Extra["outcome_classes"] = vf.SortedSet(res, "outcome-classes")
}
