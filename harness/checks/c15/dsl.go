package c15

// Family "dsl": binds DSL names, operators and literal forms to what the
// direct-call families exercised, and covers what only exists at the DSL
// level: capture state across statements (=~ / !=~ / "\1" literals / UDF
// frames / reset), "..."i regex literals, string-literal escapes, and the
// examples quoted in the function help texts.

import (
	"fmt"
	"strings"

	"github.com/johnkerl/miller/v6/pkg/bifs"
	"github.com/johnkerl/miller/v6/pkg/lib"
	"github.com/johnkerl/miller/v6/pkg/mlrval"

	"verif/harness/vf"
)

// ---------------------------------------------------------------- name binding

type bindFn struct {
	expr string // DSL expression over $s
	name string
	fn   func(s *mlrval.Mlrval) *mlrval.Mlrval
}

func i64(n int64) *mlrval.Mlrval { return mlrval.FromInt(n) }

var bindFns = []bindFn{
	{`strlen($s)`, "strlen", bifs.BIF_strlen},
	{`toupper($s)`, "toupper", bifs.BIF_toupper},
	{`tolower($s)`, "tolower", bifs.BIF_tolower},
	{`capitalize($s)`, "capitalize", bifs.BIF_capitalize},
	{`lstrip($s)`, "lstrip", bifs.BIF_lstrip},
	{`rstrip($s)`, "rstrip", bifs.BIF_rstrip},
	{`strip($s)`, "strip", bifs.BIF_strip},
	{`collapse_whitespace($s)`, "collapse_whitespace", bifs.BIF_collapse_whitespace},
	{`clean_whitespace($s)`, "clean_whitespace", bifs.BIF_clean_whitespace},
	{`md5($s)`, "md5", bifs.BIF_md5},
	{`sha1($s)`, "sha1", bifs.BIF_sha1},
	{`sha256($s)`, "sha256", bifs.BIF_sha256},
	{`sha512($s)`, "sha512", bifs.BIF_sha512},
	{`base64_encode($s)`, "base64_encode", bifs.BIF_base64_encode},
	{`hex_encode($s)`, "hex_encode", bifs.BIF_hex_encode},
	{`string(base64_decode(base64_encode($s)))`, "base64_decode", func(s *mlrval.Mlrval) *mlrval.Mlrval {
		return bifs.BIF_string(bifs.BIF_base64_decode(bifs.BIF_base64_encode(s)))
	}},
	{`string(hex_decode(hex_encode($s)))`, "hex_decode", func(s *mlrval.Mlrval) *mlrval.Mlrval {
		return bifs.BIF_string(bifs.BIF_hex_decode(bifs.BIF_hex_encode(s)))
	}},
	{`latin1_to_utf8($s)`, "latin1_to_utf8", bifs.BIF_latin1_to_utf8},
	{`utf8_to_latin1($s)`, "utf8_to_latin1", bifs.BIF_utf8_to_latin1},
	// help: "substr is an alias for substr0"
	{`substr($s,1,2)`, "substr", func(s *mlrval.Mlrval) *mlrval.Mlrval { return bifs.BIF_substr_0_up(s, i64(1), i64(2)) }},
	{`substr0($s,1,2)`, "substr0", func(s *mlrval.Mlrval) *mlrval.Mlrval { return bifs.BIF_substr_0_up(s, i64(1), i64(2)) }},
	{`substr1($s,1,2)`, "substr1", func(s *mlrval.Mlrval) *mlrval.Mlrval { return bifs.BIF_substr_1_up(s, i64(1), i64(2)) }},
	{`substr1($s,-2,-1)`, "substr1", func(s *mlrval.Mlrval) *mlrval.Mlrval { return bifs.BIF_substr_1_up(s, i64(-2), i64(-1)) }},
	{`truncate($s,1)`, "truncate", func(s *mlrval.Mlrval) *mlrval.Mlrval { return bifs.BIF_truncate(s, i64(1)) }},
	{`leftpad($s,4,"é")`, "leftpad", func(s *mlrval.Mlrval) *mlrval.Mlrval { return bifs.BIF_leftpad(s, i64(4), sval("é")) }},
	{`rightpad($s,4,"ab")`, "rightpad", func(s *mlrval.Mlrval) *mlrval.Mlrval { return bifs.BIF_rightpad(s, i64(4), sval("ab")) }},
	{`index($s,"B")`, "index", func(s *mlrval.Mlrval) *mlrval.Mlrval { return bifs.BIF_index(s, sval("B")) }},
	{`contains($s,"B")`, "contains", func(s *mlrval.Mlrval) *mlrval.Mlrval { return bifs.BIF_contains(s, sval("B")) }},
	{`ssub($s,"a",".")`, "ssub", func(s *mlrval.Mlrval) *mlrval.Mlrval { return bifs.BIF_ssub(s, sval("a"), sval(".")) }},
	{`gssub($s,"a",".")`, "gssub", func(s *mlrval.Mlrval) *mlrval.Mlrval { return bifs.BIF_gssub(s, sval("a"), sval(".")) }},
	{`sub($s,"a|B","<\0>")`, "sub", func(s *mlrval.Mlrval) *mlrval.Mlrval { return bifs.BIF_sub(s, sval("a|B"), sval(`<\0>`)) }},
	{`gsub($s,"[aB]","<\0>")`, "gsub", func(s *mlrval.Mlrval) *mlrval.Mlrval { return bifs.BIF_gsub(s, sval("[aB]"), sval(`<\0>`)) }},
	{`gsub($s,"b"i,"<\0>")`, "gsub-i", func(s *mlrval.Mlrval) *mlrval.Mlrval { return bifs.BIF_gsub(s, sval(`"b"i`), sval(`<\0>`)) }},
	{`regextract_or_else($s,"B+","ZZ")`, "regextract_or_else", func(s *mlrval.Mlrval) *mlrval.Mlrval {
		return bifs.BIF_regextract_or_else(s, sval("B+"), sval("ZZ"))
	}},
	{`strmatch($s,"^a")`, "strmatch", func(s *mlrval.Mlrval) *mlrval.Mlrval { return bifs.BIF_strmatch(s, sval("^a")) }},
	{`strmatchx($s,"(a)(B)?")["matched"]`, "strmatchx", func(s *mlrval.Mlrval) *mlrval.Mlrval {
		return bifs.BIF_strmatchx(s, sval("(a)(B)?")).AcquireMapValue().Get("matched")
	}},
	{`joinv(splitax($s," "),"|")`, "splitax/joinv", func(s *mlrval.Mlrval) *mlrval.Mlrval {
		return bifs.BIF_joinv(bifs.BIF_splitax(s, sval(" ")), sval("|"))
	}},
	{`format("{}:{}",$s,$s)`, "format", func(s *mlrval.Mlrval) *mlrval.Mlrval { return bifs.BIF_format([]*mlrval.Mlrval{sval("{}:{}"), s, s}) }},
	{`$s . "x"`, ".", func(s *mlrval.Mlrval) *mlrval.Mlrval { return bifs.BIF_dot(s, sval("x")) }},
	{`json_parse(json_stringify($s))`, "json_stringify/json_parse", func(s *mlrval.Mlrval) *mlrval.Mlrval {
		return bifs.BIF_json_parse(bifs.BIF_json_stringify_unary(s))
	}},
}

func bindProgram() string {
	var sb strings.Builder
	for _, f := range bindFns {
		sb.WriteString("print \"[\" . " + f.expr + " . \"]\";\n")
	}
	return sb.String()
}

func lineOf(mv *mlrval.Mlrval, pn string) string {
	if pn != "" {
		return "<" + pn + ">"
	}
	if mv.IsError() {
		return "(error)"
	}
	if mv.IsAbsent() {
		return "[]" // absent dotted with strings is the empty string
	}
	return "[" + mv.String() + "]"
}

// ---------------------------------------------------------------- help-text examples

type docEx struct {
	expr string
	want string // exact print output
}

var docExamples = []docEx{
	{`sub("ababab", "ab", "XY")`, "XYabab"},
	{`sub("abc.def", ".", "X")`, "Xbc.def"},
	{`sub("abc.def", "\.", "X")`, "abcXdef"},
	{`sub("abcdefg", "[ce]", "X")`, "abXdefg"},
	{`sub("prefix4529:suffix8567", "suffix([0-9]+)", "name\1")`, "prefix4529:name8567"},
	{`gsub("ababab", "ab", "XY")`, "XYXYXY"},
	{`gsub("abc.def", ".", "X")`, "XXXXXXX"},
	{`gsub("abc.def", "\.", "X")`, "abcXdef"},
	{`gsub("abcdefg", "[ce]", "X")`, "abXdXfg"},
	{`gsub("prefix4529:suffix8567", "(....ix)([0-9]+)", "[\1 : \2]")`, "[prefix : 4529]:[suffix : 8567]"},
	{`regextract("index ab09 file", "[a-z][a-z][0-9][0-9]")`, "ab09"},
	{`is_absent(regextract("index a999 file", "[a-z][a-z][0-9][0-9]"))`, "true"},
	{`regextract_or_else("index ab09 file", "[a-z][a-z][0-9][0-9]", "nonesuch")`, "ab09"},
	{`regextract_or_else("index a999 file", "[a-z][a-z][0-9][0-9]", "nonesuch")`, "nonesuch"},
	{`ssub("abc.def", ".", "X")`, "abcXdef"},
	{`gssub("ab.d.fg", ".", "X")`, "abXdXfg"},
	{`strmatch("a", "abc")`, "false"},
	{`strmatch("abc", "a")`, "true"},
	{`strmatch("abc", "a[a-z]c")`, "true"},
	{`strmatch("abc", "(a).(c)")`, "true"},
	{`strmatch(12345, "34")`, "true"},
	{`strmatchx("a", "abc")["matched"]`, "false"},
	{`length(strmatchx("a", "abc"))`, "1"},
	{`joink(strmatchx("abc", "a"), ",")`, "matched,full_capture,full_start,full_end"},
	{`joinv(strmatchx("abc", "a"), ",")`, "true,a,1,1"},
	{`joink(strmatchx("[zy:3458]", "([a-z]+):([0-9]+)"), ",")`, "matched,full_capture,full_start,full_end,captures,starts,ends"},
	{`strmatchx("[zy:3458]", "([a-z]+):([0-9]+)")["full_capture"]`, "zy:3458"},
	{`strmatchx("[zy:3458]", "([a-z]+):([0-9]+)")["full_start"]`, "2"},
	{`strmatchx("[zy:3458]", "([a-z]+):([0-9]+)")["full_end"]`, "8"},
	{`joinv(strmatchx("[zy:3458]", "([a-z]+):([0-9]+)")["captures"], ",")`, "zy,3458"},
	{`joinv(strmatchx("[zy:3458]", "([a-z]+):([0-9]+)")["starts"], ",")`, "2,5"},
	{`joinv(strmatchx("[zy:3458]", "([a-z]+):([0-9]+)")["ends"], ",")`, "3,8"},
	{`leftpad("abcdefg", 10 , "*")`, "***abcdefg"},
	{`leftpad("abcdefg", 10 , "XY")`, "XYabcdefg"},
	{`leftpad("1234567", 10 , "0")`, "0001234567"},
	{`rightpad("abcdefg", 10 , "*")`, "abcdefg***"},
	{`rightpad("abcdefg", 10 , "XY")`, "abcdefgXY"},
	{`rightpad("1234567", 10 , "0")`, "1234567000"},
	{`format("{}:{}:{}", 1,2)`, "1:2:"},
	{`format("{}:{}:{}", 1,2,3)`, "1:2:3"},
	{`format("{}:{}:{}", 1,2,3,4)`, "1:2:3"},
	{`format("{1}:{2}:{1}", "a","b")`, "a:b:a"},
	{`format("{2}{}:{1}{}", 3,4)`, "43:34"},
	{`joinv(unformat("{}:{}:{}",  "1:2:3"), ",")`, "1,2,3"},
	{`typeof(unformat("{}:{}:{}",  "1:2:3")[1])`, "int"},
	{`joinv(unformat("{}h{}m{}s", "3h47m22s"), ",")`, "3,47,22"},
	{`is_error(unformat("{}h{}m{}s", "3:47:22"))`, "true"},
	{`joinv(unformatx("{}:{}:{}",  "1:2:3"), ",")`, "1,2,3"},
	{`typeof(unformatx("{}:{}:{}",  "1:2:3")[1])`, "string"},
	{`joinv(unformatx("{}h{}m{}s", "3h47m22s"), ",")`, "3,47,22"},
	{`is_error(unformatx("{}h{}m{}s", "3:47:22"))`, "true"},
	{`index("abcde", "e")`, "5"},
	{`index("abcde", "x")`, "-1"},
	{`index(12345, 34)`, "3"},
	{`index("forêt", "t")`, "5"},
	{`is_error(index([1,2,3], 2))`, "true"},
	{`contains("abcde", "e")`, "true"},
	{`contains("abcde", "x")`, "false"},
	{`contains(12345, 34)`, "true"},
	{`contains("forêt", "ê")`, "true"},
	{`base64_encode("hello")`, "aGVsbG8="},
	{`base64_encode(b"\xff")`, "/w=="},
	{`string(base64_decode("aGVsbG8="))`, "hello"},
	{`hex_encode("hi")`, "6869"},
	{`string(hex_decode("6869"))`, "hi"},
	{`fmtifnum(3.4, "%.6f")`, "3.400000"},
	{`fmtifnum("abc", "%.6f")`, "abc"},
	{`hexfmt(255)`, "0xff"},
	{`fmtnum(17, "%08d")`, "00000017"},
	{`fmtnum(3.1, "%.6e")`, "3.100000e+00"},
	{`fmtnum(17, "%12d")`, "          17"},
	{`fmtnum(3.1*4.3,"%08f")`, "13.330000"},
	{`fmtnum(int(0xffff*0xff),"%08x")`, "00feff01"},
	{`hexfmt(0xffff*0xff)`, "0xfeff01"},
	{`splitax("3,4,5", ",")[2]`, "4"},
	{`joink({"a":3,"b":4,"c":5}, ",")`, "a,b,c"},
	{`joinv([3,4,5], ",")`, "3,4,5"},
	{`"abcde"[1]`, "a"},
	{`"abcde"[-1]`, "e"},
	{`"abcde"[1:2]`, "ab"},
	{`"abcde"[-2:-1]`, "de"},
	{`"abcde"[3:4]`, "cd"},
	{`"abcde"[:2]`, "ab"},
	{`"abcde"[3:]`, "cde"},
	{`"abcde"[1:-1]`, "abcde"},
	{`"abcde"[2:-2]`, "bcd"},
	{`"abcde"[5]`, "e"},
	{`is_error("abcde"[6])`, "true"},
	{`"<" . "abcde"[1:6] . ">"`, "<abcde>"},
	{`"<" . "abcde"[10:20] . ">"`, "<>"},
	{`"a\x62c"`, "abc"},
	{`"\u2766\U00010877"`, "\u2766\U00010877"},
	{`strlen("\u2766\U00010877")`, "2"},
	{`sub("a.b", "\.", "\t") . "|" . strlen(sub("a.b", "\.", "\t"))`, "a\tb|3"},
	{`gsub("a\tb", "\t", "TAB")`, "aTABb"},
	{`joinv(fmtifnum({"a":3.1,"b":"x"}, "%.2f"), ",")`, "3.10,x"},
	{`joinv(fmtnum([1,2], "%03d"), ",")`, "001,002"},
	// "an arbitrary number [of captures] are supported here"; "\15 is treated as \1 followed by an unrelated 5"
	{`joinv(strmatchx("abcdefghijk", "(a)(b)(c)(d)(e)(f)(g)(h)(i)(j)(k)")["captures"], "")`, "abcdefghijk"},
	{`strmatchx("abcdefghijk", "(a)(b)(c)(d)(e)(f)(g)(h)(i)(j)(k)")["starts"][11]`, "11"},
	{`sub("abcdefghijk", "(a)(b)(c)(d)(e)(f)(g)(h)(i)(j)(k)", "<\9\10>")`, "<ia0>"},
	{`any([1,2,3], func(e) {return e =~ "2"})`, "true"},
	{`any(["a","b"], func(e) {return e =~ "c"})`, "false"},
}

// ---------------------------------------------------------------- capture-state sequences

type capStep struct {
	kind    string // "m", "r", "f"
	subj    string
	regex   string
	ci, neg bool
}

var capMenu = []capStep{
	{kind: "m", subj: "ab_cde", regex: "(..)_(...)"},
	{kind: "m", subj: "abc", regex: "..."},
	{kind: "m", subj: "abc", regex: "(.)x(.)"},
	{kind: "m", subj: "ac", regex: "a(x)?(c)"},
	{kind: "m", subj: "ABC", regex: "(b)", ci: true},
	{kind: "m", subj: "abc", regex: "(b)(c)", neg: true},
	{kind: "m", subj: "abc", regex: "(z)", neg: true},
	{kind: "r"},
	{kind: "f", subj: "456 defg", regex: "([0-9]+) ([a-z]+)"},
}

const capLiteral = `<\0|\1|\2|\15>`
const capInnerLiteral = `INNER:\1:\2`

func (s capStep) dsl() string {
	rx := `"` + s.regex + `"`
	if s.ci {
		rx += "i"
	}
	switch s.kind {
	case "m":
		op := "=~"
		if s.neg {
			op = "!=~"
		}
		return fmt.Sprintf("m = \"%s\" %s %s; print m;", s.subj, op, rx)
	case "r":
		return `m = "abc" =~ null; print "-";`
	}
	return "print f();"
}

func (s capStep) ref() []any {
	switch s.kind {
	case "m":
		return []any{"m", s.subj, s.regex, s.ci, s.neg}
	case "r":
		return []any{"r"}
	}
	return []any{"f", s.subj, s.regex, s.ci, capInnerLiteral}
}

func capSequences(maxLen int) [][]int {
	var out [][]int
	var rec func(cur []int)
	rec = func(cur []int) {
		if len(cur) > 0 {
			out = append(out, append([]int{}, cur...))
		}
		if len(cur) == maxLen {
			return
		}
		for i := range capMenu {
			rec(append(cur, i))
		}
	}
	// shortest first
	for l := 1; l <= maxLen; l++ {
		var lv [][]int
		var r2 func(cur []int)
		r2 = func(cur []int) {
			if len(cur) == l {
				lv = append(lv, append([]int{}, cur...))
				return
			}
			for i := range capMenu {
				r2(append(cur, i))
			}
		}
		r2(nil)
		out = append(out, lv...)
	}
	_ = rec
	return out
}

// ---------------------------------------------------------------- worker

func dslQuote(s string) string {
	var sb strings.Builder
	for i := 0; i < len(s); i++ {
		switch c := s[i]; c {
		case '\\':
			sb.WriteString(`\\`)
		case '"':
			sb.WriteString(`\"`)
		case '\t':
			sb.WriteString(`\t`)
		default:
			sb.WriteByte(c)
		}
	}
	return sb.String()
}

func dslWorker(w *vf.Worker) {
	trap()
	var idx uint64
	next := func() bool { idx++; return w.Mine(idx) }
	ck := &checker{w: w, family: "dsl"}

	// ---- A. every DSL name on every string of <= 2 symbols: equals the direct BIF the docs name
	bindStrings, bsyms := allStrings(strAlphabet, 2)
	prog := bindProgram()
	for bi, s := range bindStrings {
		if !next() {
			continue
		}
		w.Begin(idx)
		w.Label(func() string { return "DSL binding on " + q(s) })
		in := "s=" + s + "\n"
		r := vf.RunMlr([]string{"--ifs", ";", "put", "-q", prog}, vf.MlrOpts{Stdin: &in})
		w.Eval(1)
		if !r.OK() {
			w.Violation(fmt.Sprintf("bind-run:%02d:%s", len(bsyms[bi]), q(s)), "binding program on "+q(s)+": "+r.String(), map[string]any{"s": s})
			continue
		}
		lines := strings.Split(strings.TrimSuffix(r.Stdout, "\n"), "\n")
		if len(lines) != len(bindFns) {
			// a result containing a newline cannot occur with this alphabet
			w.Violation(fmt.Sprintf("bind-run:%02d:%s", len(bsyms[bi]), q(s)), fmt.Sprintf("binding program on %s printed %d lines, expected %d", q(s), len(lines), len(bindFns)), map[string]any{"s": s, "stdout": r.Stdout})
			continue
		}
		for fi, f := range bindFns {
			got, pn := call(func() *mlrval.Mlrval { return f.fn(mlrval.FromInferredType(s)) })
			want := lineOf(got, pn)
			w.Eval(1)
			w.Nontrivial(1)
			w.Count("calls:dsl:"+f.name, 1)
			w.Count("asserted:dsl:"+f.name, 1)
			if lines[fi] != want {
				w.Violation(fmt.Sprintf("bind[%s]:%02d:%s", f.name, len(bsyms[bi]), q(s)), fmt.Sprintf("DSL `%s` with $s=%s prints %s, the function the docs name gives %s", f.expr, q(s), q(lines[fi]), q(want)), map[string]any{"s": s, "expr": f.expr})
			}
		}
	}

	// ---- B. examples quoted in the help texts / reference-main-strings.md
	for _, ex := range docExamples {
		if !next() {
			continue
		}
		w.Begin(idx)
		r := vf.RunMlr([]string{"-n", "put", "end{print " + ex.expr + "}"}, vf.MlrOpts{})
		w.Eval(1)
		w.Nontrivial(1)
		w.Count("calls:doc-example", 1)
		w.Count("asserted:doc-example", 1)
		got := strings.TrimSuffix(r.Stdout, "\n")
		if !r.OK() || got != ex.want {
			w.Violation(fmt.Sprintf("doc-example:%02d:%s", len(ex.expr), ex.expr), fmt.Sprintf("documented example `%s` gives %s (%s), the documentation says %s", ex.expr, q(got), strings.TrimSpace(r.Stderr+r.Err+r.Panic), q(ex.want)), map[string]any{"expr": ex.expr})
		}
	}

	// ---- C. regex operators and names through the DSL: pattern literal in the program, subjects as records
	maxNodes := 3
	if !w.Quick() {
		maxNodes = 4
	}
	pats := allRegexes(maxNodes)
	subj := wordsOver("aAb", 2)
	repl := []string{`<\1>`, `<\0>`}
	type cjob struct {
		p   rx
		idx uint64
		at  int
	}
	var cjobs []cjob
	var reqs []any
	for _, p := range pats {
		if !next() {
			continue
		}
		if p.unsafe {
			continue
		}
		cjobs = append(cjobs, cjob{p, idx, len(reqs)})
		reqs = append(reqs,
			map[string]any{"k": "regex", "p": p.s, "ci": false, "subj": subj, "repl": repl, "orelse": orElse},
			map[string]any{"k": "regex", "p": p.s, "ci": true, "subj": subj, "repl": repl, "orelse": orElse})
	}
	// ---- D. capture-state sequences
	maxSeq := 2
	if !w.Quick() {
		maxSeq = 3
	}
	seqs := capSequences(maxSeq)
	type sjob struct {
		seq []int
		idx uint64
		at  int
	}
	var sjobs []sjob
	for _, sq := range seqs {
		if !next() {
			continue
		}
		steps := []any{[]any{"l", capLiteral}}
		for _, k := range sq {
			steps = append(steps, capMenu[k].ref(), []any{"l", capLiteral})
		}
		sjobs = append(sjobs, sjob{sq, idx, len(reqs)})
		reqs = append(reqs, map[string]any{"k": "capseq", "steps": steps})
	}
	// ---- E. string-literal escapes: lib.UnbackslashStringLiteral exhaustively, the DSL literal on the documented forms
	escAlpha := []string{`\`, "t", "x", "4", "1", "u", "0", `"`}
	maxEsc := 5
	if !w.Quick() {
		maxEsc = 6
	}
	lits, _ := allStrings(escAlpha, maxEsc)
	const escBlock = 4096
	type ejob struct {
		from, to int
		idx      uint64
		at       int
	}
	var ejobs []ejob
	for b := 0; b < len(lits); b += escBlock {
		if !next() {
			continue
		}
		e := b + escBlock
		if e > len(lits) {
			e = len(lits)
		}
		ejobs = append(ejobs, ejob{b, e, idx, len(reqs)})
		reqs = append(reqs, map[string]any{"k": "unbblock", "lits": lits[b:e]})
	}
	dslLits := []string{`a\tb`, `\a`, `\b`, `\f`, `\r`, `\v`, `\\`, `\"`, `\\t`, `\101`, `\000x`, `\377`, `\x41`, `\x7f`, `\xff`, `é`, `日`, `\U0001F600`, `a\x62c`,
		`\t\t`, `x\\`, `\\\\`, `\"\"`, `\101\102`, `\x41\x42`, `tab:\t:`, `AB`, `q\"q`, `\x4g`, `\q`, `\.`, `\u00`, `\8`}
	for c := byte(0x21); c <= 0x7e; c++ {
		l := `\` + string(c)
		dup := false
		for _, x := range dslLits {
			if x == l {
				dup = true
			}
		}
		if !dup && c != '"' {
			dslLits = append(dslLits, l)
		}
	}
	type ljob struct {
		lit string
		idx uint64
		at  int
	}
	var ljobs []ljob
	for _, l := range dslLits {
		if !next() {
			continue
		}
		ljobs = append(ljobs, ljob{l, idx, len(reqs)})
		reqs = append(reqs, map[string]any{"k": "unb", "lit": l})
	}

	// ---- F. backslash + every printable ASCII character in regex position ("all strings in regex position are implicit r-strings";
	// RE2 syntax as pasted into reference-main-regular-expressions.md: \* is a literal * for any punctuation character)
	var asciiSubject strings.Builder
	for c := byte(0x20); c <= 0x7e; c++ {
		asciiSubject.WriteByte(c)
	}
	asciiSubject.WriteString("\t")
	subjectAll := asciiSubject.String()
	type rjob struct {
		c   byte
		idx uint64
		at  int // -1: not asserted
	}
	var rjobs []rjob
	for c := byte(0x21); c <= 0x7e; c++ {
		if !next() {
			continue
		}
		isAlnum := (c >= '0' && c <= '9') || (c >= 'a' && c <= 'z') || (c >= 'A' && c <= 'Z')
		py := `\` + string(c)
		switch {
		case !isAlnum:
		case strings.IndexByte("ABDSWbdfnrstvw", c) >= 0:
		case c == 'z':
			py = `\Z`
		default:
			rjobs = append(rjobs, rjob{c, idx, -1})
			continue
		}
		rjobs = append(rjobs, rjob{c, idx, len(reqs)})
		reqs = append(reqs, map[string]any{"k": "regex", "p": py, "ci": false, "subj": []string{subjectAll}, "repl": []string{"#"}, "orelse": orElse})
	}
	// ---- G. raw characters inside a string literal
	rawChars := []string{"\t", "\x01", "\x7f", "\u00e9", "\u65e5", "e\u0301", "\uffff", "\U00010000", "\U0001F600", "'", "#", "$"}
	type gjob struct {
		r   string
		idx uint64
	}
	var gjobs []gjob
	for _, r := range rawChars {
		if next() {
			gjobs = append(gjobs, gjob{r, idx})
		}
	}

	ans, err := pyBatch(reqs)
	if err != nil {
		w.Broken("%v", err)
		return
	}

	// F
	for _, j := range rjobs {
		w.Begin(j.idx)
		lit := `\` + string(j.c)
		in := subjectAll + "\n"
		r := vf.RunMlr([]string{"--inidx", "--ifs", `\x1f`, "put", "-q", `print gsub($1, "` + lit + `", "#")`}, vf.MlrOpts{Stdin: &in})
		w.Eval(1)
		w.Count("calls:dsl-regex-escape", 1)
		if j.at < 0 {
			w.Count("unconstrained:dsl-regex-escape", 1)
			if r.Panic != "" {
				w.Violation(fmt.Sprintf("crash[dsl-regex-escape]:02:%s", lit), "regex literal \""+lit+"\": "+r.String(), nil)
			}
			continue
		}
		var rows []rxRow
		if !mustUnmarshal(w, ans[j.at], &rows) {
			return
		}
		w.Nontrivial(1)
		w.Count("asserted:dsl-regex-escape", 1)
		want := unhex(strings.TrimPrefix(strings.Split(rows[0].Gsub[0], "|")[0], "s:"))
		got := strings.TrimSuffix(r.Stdout, "\n")
		if !r.OK() || got != want {
			cause := "wrong-result"
			if strings.Contains(r.Stderr+r.Err, "lexer") || strings.Contains(r.Stderr+r.Err, "parse") {
				cause = "not-parsed"
			}
			w.Violation(fmt.Sprintf("regex-literal[%s]:02:%s", cause, lit), fmt.Sprintf("gsub($1, \"%s\", \"#\") on all printable ASCII gives %s (%s); Go/RE2 regex syntax gives %s", lit, q(got), strings.TrimSpace(r.Stderr+r.Err), q(want)), map[string]any{"regex_literal": lit, "subject": subjectAll})
		}
	}
	// G
	for _, j := range gjobs {
		w.Begin(j.idx)
		lit := "a" + j.r + "b"
		r := vf.RunMlr([]string{"-n", "put", `end{print hex_encode("` + lit + `")}`}, vf.MlrOpts{})
		w.Eval(1)
		w.Nontrivial(1)
		w.Count("calls:dsl-raw-char-literal", 1)
		w.Count("asserted:dsl-raw-char-literal", 1)
		got := strings.TrimSuffix(r.Stdout, "\n")
		if !r.OK() || got != hx(lit) {
			w.Violation(fmt.Sprintf("string-literal[raw-char]:%02d:%s", len(j.r), q(j.r)), fmt.Sprintf("string literal containing the raw character %s evaluates to bytes %q (%s), expected %s", q(j.r), got, strings.TrimSpace(r.Stderr+r.Err), hx(lit)), map[string]any{"literal": lit})
		}
	}

	// C
	for _, j := range cjobs {
		w.Begin(j.idx)
		w.Label(func() string { return "DSL regex " + j.p.s })
		var rowsCS, rowsCI []rxRow
		if !mustUnmarshal(w, ans[j.at], &rowsCS) || !mustUnmarshal(w, ans[j.at+1], &rowsCI) {
			return
		}
		P := j.p.s
		program := fmt.Sprintf(`print "[" . sub($s, "%[1]s", "<\1>") . "]";
print "[" . gsub($s, "%[1]s", "<\0>") . "]";
print "[" . sub($s, "%[1]s"i, "<\1>") . "]";
print "[" . gsub($s, "%[1]s"i, "<\0>") . "]";
print "[" . regextract_or_else($s, "%[1]s", "ZZ") . "]";
print "[" . regextract_or_else($s, "%[1]s"i, "ZZ") . "]";
print strmatch($s, "%[1]s");
print strmatch($s, "%[1]s"i);
print strmatchx($s, "%[1]s")["matched"];
m = $s =~ "%[1]s"; print m;
print "[\0|\1|\2]";
m = $s =~ "%[1]s"i; print m;
print "[\0|\1|\2]";
m = $s !=~ "%[1]s"; print m;
print any([$s], func(e) {return e =~ "%[1]s"});
if ($s =~ "%[1]s") {print "yes:\0"} else {print "no:\0"}
`, P)
		var in strings.Builder
		for _, s := range subj {
			in.WriteString("s=" + s + "\n")
		}
		ins := in.String()
		r := vf.RunMlr([]string{"--ifs", ";", "put", "-q", program}, vf.MlrOpts{Stdin: &ins})
		w.Eval(1)
		const per = 16
		lines := strings.Split(strings.TrimSuffix(r.Stdout, "\n"), "\n")
		if !r.OK() || len(lines) != per*len(subj) {
			w.Violation(fmt.Sprintf("dsl-regex-run:%02d:%s", j.p.nodes, P), fmt.Sprintf("regex program for %q: %d lines (expected %d) %s", P, len(lines), per*len(subj), r.String()), map[string]any{"program": program})
			continue
		}
		str := func(want string) string { // "s:hex" -> "[text]"
			return "[" + unhex(strings.TrimPrefix(want, "s:")) + "]"
		}
		boolOf := func(want string) string { return strings.TrimPrefix(want, "b:") }
		capsOf := func(row rxRow) string {
			c := row.Captures
			if c == nil {
				c = make([]string, 10)
			}
			return "[" + c[0] + "|" + c[1] + "|" + c[2] + "]"
		}
		notOf := func(b string) string {
			if b == "true" {
				return "false"
			}
			return "true"
		}
		for si, s := range subj {
			cs, ci := rowsCS[si], rowsCI[si]
			l := lines[si*per : (si+1)*per]
			oe := func(row rxRow) string {
				if row.RegextrOE == "u" {
					return ""
				}
				return str(row.RegextrOE)
			}
			yes := "no:"
			if boolOf(cs.Strmatch) == "true" {
				yes = "yes:" + cs.Captures[0]
			}
			alts := func(want string) []string { // "s:hex|s:hex" -> bracketed texts
				var out []string
				for _, a := range strings.Split(want, "|") {
					out = append(out, "["+unhex(strings.TrimPrefix(a, "s:"))+"]")
				}
				return out
			}
			one := func(s string) []string { return []string{s} }
			wantLines := []struct {
				name string
				want []string
			}{
				{"sub", alts(cs.Sub[0])}, {"gsub", alts(cs.Gsub[1])}, {`sub "..."i`, alts(ci.Sub[0])}, {`gsub "..."i`, alts(ci.Gsub[1])},
				{"regextract_or_else", one(oe(cs))}, {`regextract_or_else "..."i`, one(oe(ci))},
				{"strmatch", one(boolOf(cs.Strmatch))}, {`strmatch "..."i`, one(boolOf(ci.Strmatch))}, {"strmatchx", one(boolOf(cs.Strmatch))},
				{"=~", one(boolOf(cs.Strmatch))}, {"captures after =~", one(capsOf(cs))},
				{`=~ "..."i`, one(boolOf(ci.Strmatch))}, {`captures after =~ "..."i`, one(capsOf(ci))},
				{"!=~", one(notOf(boolOf(cs.Strmatch)))}, {"any+=~", one(boolOf(cs.Strmatch))}, {"if =~", one(yes)},
			}
			for li, wl := range wantLines {
				w.Eval(1)
				w.Count("calls:dsl-regex:"+wl.name, 1)
				if wl.want[0] == "" {
					w.Count("unconstrained:dsl-regex:"+wl.name, 1)
					continue
				}
				w.Nontrivial(1)
				w.Count("asserted:dsl-regex:"+wl.name, 1)
				ok := false
				for _, a := range wl.want {
					if l[li] == a {
						ok = true
					}
				}
				if !ok {
					w.Violation(fmt.Sprintf("dsl-regex[%s]:%02d:%s:%s", wl.name, j.p.nodes+len(s), P, q(s)), fmt.Sprintf("DSL %s with regex %q on %s prints %s; reference: %s", wl.name, P, q(s), q(l[li]), q(strings.Join(wl.want, " or "))), map[string]any{"regex": P, "subject": s, "program_line": li + 1})
				}
			}
		}
	}

	// D
	for _, j := range sjobs {
		w.Begin(j.idx)
		var wants []string
		if !mustUnmarshal(w, ans[j.at], &wants) {
			return
		}
		var body strings.Builder
		body.WriteString("print \"" + capLiteral + "\";\n")
		var names []string
		for _, k := range j.seq {
			st := capMenu[k]
			body.WriteString(st.dsl() + "\nprint \"" + capLiteral + "\";\n")
			names = append(names, strings.TrimSuffix(st.dsl(), " print m;"))
		}
		fst := capMenu[len(capMenu)-1]
		program := fmt.Sprintf("func f(): str {\n  m = \"%s\" =~ \"%s\";\n  return \"%s\";\n}\nend {\n%s}\n", fst.subj, fst.regex, capInnerLiteral, body.String())
		r := vf.RunMlr([]string{"-n", "put", program}, vf.MlrOpts{})
		w.Eval(1)
		key := strings.Join(names, " ; ")
		lines := strings.Split(strings.TrimSuffix(r.Stdout, "\n"), "\n")
		if !r.OK() || len(lines) != len(wants) {
			w.Violation(fmt.Sprintf("capture-seq-run:%02d:%s", len(j.seq), key), fmt.Sprintf("capture program: %d lines (expected %d) %s", len(lines), len(wants), r.String()), map[string]any{"program": program})
			continue
		}
		for li, want := range wants {
			var exp string
			switch {
			case want == "-":
				exp = "-"
			case strings.HasPrefix(want, "b:"):
				exp = want[2:]
			default:
				exp = unhex(want[2:])
			}
			w.Eval(1)
			w.Nontrivial(1)
			w.Count("calls:capture-sequence", 1)
			w.Count("asserted:capture-sequence", 1)
			if lines[li] != exp {
				w.Violation(fmt.Sprintf("capture-seq:%02d:%s:line%d", len(j.seq), key, li+1), fmt.Sprintf("after [%s] output line %d is %s; reference-main-regular-expressions.md gives %s", key, li+1, q(lines[li]), q(exp)), map[string]any{"program": program, "stdout": r.Stdout})
				break
			}
		}
	}

	// E
	for _, j := range ejobs {
		w.Begin(j.idx)
		var wants []string
		if !mustUnmarshal(w, ans[j.at], &wants) {
			return
		}
		for k, want := range wants {
			l := lits[j.from+k]
			var got string
			p, _ := vf.Try(func() { got = lib.UnbackslashStringLiteral(l) })
			w.Eval(1)
			w.Count("calls:UnbackslashStringLiteral", 1)
			if p != nil {
				w.Violation(fmt.Sprintf("crash[unbackslash]:%02d:%s", len(l), l), fmt.Sprintf("UnbackslashStringLiteral(%q) panics: %v", l, p), nil)
				continue
			}
			if want == "u" {
				w.Count("unconstrained:UnbackslashStringLiteral", 1)
				continue
			}
			w.Nontrivial(1)
			w.Count("asserted:UnbackslashStringLiteral", 1)
			if "s:"+hx(got) != want {
				w.Violation(fmt.Sprintf("escape[lib]:%02d:%s", len(l), l), fmt.Sprintf("UnbackslashStringLiteral(%q) = %s; the escape table in reference-main-strings.md gives %s", l, q(got), show(want)), map[string]any{"literal": l})
			}
		}
	}
	for _, j := range ljobs {
		w.Begin(j.idx)
		var want string
		if !mustUnmarshal(w, ans[j.at], &want) {
			return
		}
		r := vf.RunMlr([]string{"-n", "put", `end{print hex_encode("` + j.lit + `")}`}, vf.MlrOpts{})
		w.Eval(1)
		w.Count("calls:dsl-string-literal", 1)
		if want == "u" {
			w.Count("unconstrained:dsl-string-literal", 1)
			if r.Panic != "" {
				w.Violation(fmt.Sprintf("crash[dsl-literal]:%02d:%s", len(j.lit), j.lit), "literal \""+j.lit+"\": "+r.String(), nil)
			}
			continue
		}
		w.Nontrivial(1)
		w.Count("asserted:dsl-string-literal", 1)
		got := strings.TrimSuffix(r.Stdout, "\n")
		if !r.OK() || "s:"+got != want {
			w.Violation(fmt.Sprintf("escape[dsl]:%02d:%s", len(j.lit), j.lit), fmt.Sprintf("string literal \"%s\" evaluates to bytes %s (%s); the escape table gives %s", j.lit, got, strings.TrimSpace(r.Stderr+r.Err), show(want)), map[string]any{"literal": j.lit})
		}
	}
	_ = ck
	w.Sample(map[string]any{"family": "dsl", "binding_strings": len(bindStrings), "binding_expressions": len(bindFns), "doc_examples": len(docExamples), "dsl_regexes": len(pats), "capture_sequences": len(seqs), "escape_literals": len(lits)})
}

func unhex(h string) string {
	var out []byte
	for i := 0; i+1 < len(h); i += 2 {
		var b byte
		fmt.Sscanf(h[i:i+2], "%02x", &b)
		out = append(out, b)
	}
	return string(out)
}
