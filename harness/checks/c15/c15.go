// Package c15: check for property C15 (see /verif/DESIGN.md §3 C15).
package c15
