// Package c15: string, regex, formatting and hash functions match independent
// references (see /verif/DESIGN.md §3 C15).
//
// Engine E2: bounded exhaustive enumeration of argument tuples, real BIFs called
// directly (pkg/bifs), DSL names / operators / verbs / main flags bound through
// in-process mlr runs. The reference lives in another language
// (harness/pyref/strref.py: Python str, re, hashlib, base64, binascii, json and
// a C99-rule integer formatter validated against glibc printf), one batch
// subprocess per worker shard. Model-free laws (inverse pairs, verb == function
// per field) are evaluated on the real code on both sides.
package c15

import (
	"bytes"
	"encoding/hex"
	"encoding/json"
	"fmt"
	"os"
	"os/exec"
	"path/filepath"
	"sort"
	"strconv"
	"strings"

	"github.com/johnkerl/miller/v6/pkg/mlrval"
	"github.com/johnkerl/miller/v6/pkg/verifrt"

	"verif/harness/vf"
)

func init() {
	vf.Register(&vf.CheckDef{ID: "C15", Level: "model_checking", Run: run,
		Workers: map[string]vf.WorkerFunc{
			"str":   strWorker,
			"regex": regexWorker,
			"fmt":   fmtWorker,
			"inv":   invWorker,
			"dsl":   dslWorker,
			"verbs": verbsWorker,
			"spin":  spinWorker,
		}})
}

// ---------------------------------------------------------------- python reference plumbing

func pyScript() string { return filepath.Join(vf.Root, "harness", "pyref", "strref.py") }

// pyBatch runs the reference once over the requests (one JSON object per line)
// and returns one raw JSON answer per request.
func pyBatch(reqs []any) ([]json.RawMessage, error) {
	if len(reqs) == 0 {
		return nil, nil
	}
	dir := "/dev/shm"
	if _, err := os.Stat(dir); err != nil {
		dir = os.TempDir()
	}
	in, err := os.CreateTemp(dir, "verif-c15-req-")
	if err != nil {
		return nil, err
	}
	defer os.Remove(in.Name())
	var buf bytes.Buffer
	enc := json.NewEncoder(&buf)
	enc.SetEscapeHTML(false)
	for _, r := range reqs {
		if err := enc.Encode(r); err != nil {
			return nil, err
		}
	}
	if _, err := in.Write(buf.Bytes()); err != nil {
		return nil, err
	}
	in.Seek(0, 0)
	cmd := exec.Command("python3", pyScript())
	cmd.Stdin = in
	cmd.Env = append(os.Environ(), "PYTHONHASHSEED=0", "PYTHONIOENCODING=utf-8")
	var eb strings.Builder
	cmd.Stderr = &eb
	out, err := cmd.Output()
	in.Close()
	if err != nil {
		return nil, fmt.Errorf("python3 strref.py: %v: %s", err, eb.String())
	}
	lines := bytes.Split(bytes.TrimRight(out, "\n"), []byte("\n"))
	if len(lines) != len(reqs) {
		return nil, fmt.Errorf("python3 strref.py: %d answers for %d requests: %s", len(lines), len(reqs), eb.String())
	}
	res := make([]json.RawMessage, len(lines))
	for i, l := range lines {
		res[i] = json.RawMessage(l)
	}
	return res, nil
}

func mustUnmarshal(w *vf.Worker, raw json.RawMessage, into any) bool {
	if err := json.Unmarshal(raw, into); err != nil {
		w.Broken("cannot decode reference answer %s: %v", trunc(string(raw), 200), err)
		return false
	}
	return true
}

func trunc(s string, n int) string {
	if len(s) > n {
		return s[:n] + "..."
	}
	return s
}

func hx(s string) string { return hex.EncodeToString([]byte(s)) }

// q shows a byte string readably (Go quoting) for messages and keys.
func q(s string) string { return strconv.QuoteToASCII(s) }

// ---------------------------------------------------------------- rendering Miller values in the reference's notation

func render(mv *mlrval.Mlrval) string {
	if mv == nil {
		return "nil"
	}
	switch mv.Type() {
	case mlrval.MT_STRING, mlrval.MT_VOID:
		return "s:" + hx(mv.String())
	case mlrval.MT_INT:
		v, _ := mv.GetIntValue()
		return "i:" + strconv.FormatInt(v, 10)
	case mlrval.MT_FLOAT:
		return "f:" + mv.String()
	case mlrval.MT_BOOL:
		return "b:" + mv.String()
	case mlrval.MT_ERROR:
		return "e"
	case mlrval.MT_ABSENT:
		return "a"
	case mlrval.MT_BYTES:
		return "y:" + hex.EncodeToString(mv.AcquireBytesValue())
	case mlrval.MT_ARRAY:
		var parts []string
		for _, e := range mv.AcquireArrayValue() {
			parts = append(parts, render(e))
		}
		return "A[" + strings.Join(parts, ",") + "]"
	case mlrval.MT_MAP:
		var parts []string
		for pe := mv.AcquireMapValue().Head; pe != nil; pe = pe.Next {
			parts = append(parts, pe.Key+"="+render(pe.Value))
		}
		return "M{" + strings.Join(parts, ";") + "}"
	}
	return "type:" + mv.GetTypeName()
}

// show turns a rendering / want back into something a human can read.
func show(r string) string {
	alts := strings.Split(r, "|")
	for i, a := range alts {
		switch {
		case strings.HasPrefix(a, "s:"):
			if b, err := hex.DecodeString(a[2:]); err == nil {
				alts[i] = "string " + q(string(b))
			}
		case strings.HasPrefix(a, "ws:"):
			if b, err := hex.DecodeString(a[3:]); err == nil {
				alts[i] = "whitespace-normalised " + q(string(b))
			}
		case strings.HasPrefix(a, "y:"):
			alts[i] = "bytes " + a[2:]
		case a == "e":
			alts[i] = "(error)"
		case a == "a":
			alts[i] = "(absent)"
		case strings.HasPrefix(a, "i:"):
			alts[i] = "int " + a[2:]
		case strings.HasPrefix(a, "A[") || strings.HasPrefix(a, "M{"):
			alts[i] = showNested(a)
		}
	}
	return strings.Join(alts, " or ")
}

func showNested(a string) string {
	// decode every s:<hex> token inside an array/map rendering
	var sb strings.Builder
	for i := 0; i < len(a); {
		if strings.HasPrefix(a[i:], "s:") {
			j := i + 2
			for j < len(a) && strings.IndexByte("0123456789abcdef", a[j]) >= 0 {
				j++
			}
			b, _ := hex.DecodeString(a[i+2 : j])
			sb.WriteString(q(string(b)))
			i = j
			continue
		}
		sb.WriteByte(a[i])
		i++
	}
	return sb.String()
}

func isWS(c byte) bool {
	return c == ' ' || c == '\t' || c == '\n' || c == '\r' || c == '\f' || c == '\v'
}

// matchWant compares a rendering with a want from the reference. Second result:
// the want was "unconstrained".
func matchWant(got string, want string) (ok bool, unconstrained bool) {
	if want == "u" {
		return true, true
	}
	for _, a := range strings.Split(want, "|") {
		if a == got {
			return true, false
		}
		if strings.HasPrefix(a, "ws:") && strings.HasPrefix(got, "s:") {
			gb, err := hex.DecodeString(got[2:])
			if err != nil {
				continue
			}
			okws := true
			for i := range gb {
				if isWS(gb[i]) {
					if i > 0 && isWS(gb[i-1]) {
						okws = false
					}
					gb[i] = ' '
				}
			}
			if okws && hex.EncodeToString(gb) == a[3:] {
				return true, false
			}
		}
	}
	return false, false
}

// ---------------------------------------------------------------- alphabets

// The property's string alphabet: ASCII lower/upper, space, 2-byte, 3-byte, a
// combining sequence (two code points), an invalid byte, tab.
var strAlphabet = []string{"a", "B", " ", "\u00e9", "\u65e5", "e\u0301", "\xff", "\t"}
var strAlphabetNames = []string{"a", "B", "space", "e-acute(2-byte)", "CJK(3-byte)", "e+combining-acute", "invalid-0xff", "tab"}

// allStrings returns every concatenation of up to maxSyms alphabet symbols,
// shortest first, together with the symbols used.
func allStrings(alpha []string, maxSyms int) (out []string, syms [][]int) {
	out = []string{""}
	syms = [][]int{nil}
	prevS, prevY := []string{""}, [][]int{nil}
	for l := 1; l <= maxSyms; l++ {
		var curS []string
		var curY [][]int
		for i, p := range prevS {
			for k, a := range alpha {
				curS = append(curS, p+a)
				y := append(append([]int{}, prevY[i]...), k)
				curY = append(curY, y)
			}
		}
		out = append(out, curS...)
		syms = append(syms, curY...)
		prevS, prevY = curS, curY
	}
	return
}

// sval makes the Mlrval a field value or string literal with these bytes has.
func sval(s string) *mlrval.Mlrval { return mlrval.FromString(s) }

func trap() { verifrt.TrapExits(true) }

// call runs a BIF under panic/exit protection.
func call(f func() *mlrval.Mlrval) (res *mlrval.Mlrval, panicked string) {
	p, _ := vf.Try(func() { res = f() })
	if p != nil {
		if e, ok := p.(verifrt.ExitPanic); ok {
			return nil, fmt.Sprintf("os.Exit(%d)", e.Code)
		}
		return nil, fmt.Sprintf("PANIC %v", p)
	}
	if res == nil {
		return nil, "nil result"
	}
	return res, ""
}

type checker struct {
	w      *vf.Worker
	family string
}

// cmp records one comparison. size prefixes the key so that the smallest
// counterexample sorts first.
func (c *checker) cmp(group string, size int, caseKey string, fn string, got *mlrval.Mlrval, panicked string, want string, replay map[string]any) {
	w := c.w
	w.Eval(1)
	w.Count("calls:"+fn, 1)
	if panicked != "" {
		w.Violation(fmt.Sprintf("crash[%s]:%02d:%s", fn, size, caseKey), fmt.Sprintf("%s: %s (must return a value)", caseKey, panicked), replay)
		return
	}
	g := render(got)
	w.AddSet("outcome-kinds", fn+":"+got.GetTypeName())
	ok, un := matchWant(g, want)
	if un {
		w.Count("unconstrained:"+fn, 1)
		return
	}
	w.Nontrivial(1)
	w.Count("asserted:"+fn, 1)
	if !ok {
		if replay == nil {
			replay = map[string]any{}
		}
		replay["got"] = show(g)
		replay["expected"] = show(want)
		w.Violation(fmt.Sprintf("%s:%02d:%s", group, size, caseKey), fmt.Sprintf("%s = %s; reference: %s", caseKey, show(g), show(want)), replay)
	}
}

// ---------------------------------------------------------------- orchestrator

func run(c *vf.Ctx) {
	c.Rule = "every (function, argument tuple) of each family is evaluated on the real BIF (or through an in-process mlr run for operators, verbs and flags) and compared with the Python reference or with a law on the real code. " +
		"Families: str = all strings of <=3 symbols over {a,B,space,e-acute,CJK,e+combining,0xff,tab} x indices -5..5 (pairs) x widths 0..5 x pads; regex = all regexes of <=N AST nodes over {a,b,.,[ab],^,$,*,+,?,|,()} x all subjects of length <=L over {a,b,c} x replacement strings, also in the \"...\"i form on {a,A,b,c} (interleaved with the case-sensitive form) and on UTF-8 subjects over {a,e-acute,CJK}; " +
		"fmt = %[flags<=2 of -0+space#][width in none,1,5,8][precision in none,.0,.3][verb incl. every l/ll form] x values, plus the directive-syntax families (same values, same oracle): every width numeral 1..W x flags x {none,.0,.3,.10}, every precision numeral .0...P, the bare period and leading-zero numerals x flags<=1 x widths {none,5,10}, every non-canonical flag sequence (other orders, doubled flags) x widths {none,5,10,100} x {none,.3} (bounds in extra.bounds.format_syntax); inv = inverse pairs / decoders / digests; dsl = capture-state sequences, string-literal escapes, DSL-name binding; verbs = wrapping verbs vs put. " +
		"distinct_nontrivial = number of evaluations whose expectation was determined by the documentation (not 'unconstrained') and compared"
	c.Assume("malformed UTF-8 (0xff): the character-aware functions are only required not to crash (docs say nothing); byte-exact functions (digests, base64, hex, ssub/gssub, latin1_to_utf8, format, '.') are asserted on every byte string")
	c.Assume("substr/substr0/substr1 with out-of-bounds or reversed indices: the trimmed substring (as documented for slices) or an error are both accepted; s[m:n] must trim as reference-main-strings.md says; s[k] out of bounds must be an error")
	c.Assume("collapse_whitespace/clean_whitespace: which whitespace character replaces a run is not documented: output compared after mapping whitespace to spaces, and no two adjacent whitespace characters may remain")
	c.Assume("regex safe subset: one quantifier per atom, no quantified anchors, and patterns that put * or + on a group that can match the empty string are excluded (RE2 and backtracking engines document different captures there); gsub on patterns that can match the empty string: both conventions for an empty match next to a previous match (Go's and Python>=3.7's) are accepted")
	c.Assume("strmatchx when a capture group took no part in the match, regextract on an empty first argument, index/contains/ssub/gssub with an empty needle, splitax of the empty string: not documented, counted as unconstrained")
	c.Assume("printf: asserted = what C99 defines AND Go's fmt documents identically: d with flags -0+space; x X o b on non-negative ints with flags -0 (# only on non-zero x X o); e E f g G with all flags on finite values (ints are converted to double), g/G without precision only on values with <=6 significant digits (C uses 6 digits, Go the shortest unique representation); s with flag - on ints and strings. " +
		"Not asserted: floats through integer verbs, negative ints through x/X/o/b, + and space on unsigned verbs, # on d/zero/b, 0 on s, inf/nan, booleans (only: not an error), empty input, text around the verb for numeric verbs, %lle-style modifiers")
	c.Assume("verb == function per field is asserted on string-valued and empty fields only where the verb's usage text promises the DSL function's behaviour; numeric-looking field values are left alone by sub/gsub/ssub by design")
	c.Assume("the sub/gsub third-argument literal is interpolated with the captures of an earlier =~ (documented under 'Resetting captures'): not asserted either way")

	c.Assume("case -t (title case) has no DSL counterpart: asserted per field only on values made of letter-only words separated by single spaces")
	c.Assume("termination probes (leftpad/rightpad with an empty pad string) run the plain mlr binary under RLIMIT_CPU = 10 s (about 1000x a normal run); CPU time, not wall clock")
	c.Assume("the reference's printf cells were validated against glibc printf and its regex safe-subset rule against Go regexp vs Python re directly (see selftest/c15.md); string-position escapes are asserted only for the table in reference-main-strings.md, regex-position escapes only for backslash+punctuation and \\A \\B \\D \\S \\W \\b \\d \\f \\n \\r \\s \\t \\v \\w \\z")

	nodesCS, lenCS, nodesCI, lenCI, nodesU8, lenU8 := regexBounds(c.Quick())
	maxSyms := 3
	if !c.Quick() {
		maxSyms = 4
	}
	nStrings, _ := allStrings(strAlphabet, maxSyms)
	c.Extra["bounds"] = map[string]any{
		"strings":                len(nStrings),
		"string_max_symbols":     maxSyms,
		"index_range":            []int{idxLo, idxHi},
		"pad_widths":             padWidths,
		"pad_strings":            padStrings,
		"regex_case_sensitive":   map[string]int{"max_ast_nodes": nodesCS, "patterns": len(allRegexes(nodesCS)), "subject_max_len": lenCS, "subjects": len(wordsOver("abc", lenCS))},
		"regex_case_insensitive": map[string]int{"max_ast_nodes": nodesCI, "patterns": len(allRegexes(nodesCI)), "subject_max_len": lenCI, "subjects": len(wordsOver("aAbc", lenCI))},
		"regex_utf8_subjects":    map[string]int{"max_ast_nodes": nodesU8, "patterns": len(allRegexes(nodesU8)), "subject_max_len": lenU8, "subjects": len(wordsOver("aXY", lenU8))},
		"replacement_strings":    replacements,
		"format_strings":         len(fmtGrid(c.Quick())),
		"format_syntax":          fmtSyntaxBoundsEvidence(c.Quick()),
		"format_values":          len(fmtInts) + len(fmtFloats) + 3,
		"verb_cases":             len(verbCases(c.Quick())) + 1,
		"capture_step_menu":      len(capMenu),
	}

	if _, err := exec.LookPath("python3"); err != nil {
		c.Broken("python3 not found: %v", err)
		return
	}

	sets := map[string]map[string]bool{}
	merge := func(r *vf.PoolResult) {
		for k, m := range r.Sets {
			if sets[k] == nil {
				sets[k] = map[string]bool{}
			}
			for s := range m {
				sets[k][s] = true
			}
		}
	}
	// the termination probes burn CPU time when the defect is present: run them beside the other pools
	spinDone := make(chan *vf.PoolResult, 1)
	go func() { spinDone <- c.RunPool(vf.PoolSpec{Worker: "spin", Shards: 4, Procs: 4, StallSecs: 600}) }()
	merge(c.RunPool(vf.PoolSpec{Worker: "str", Shards: 48}))
	merge(c.RunPool(vf.PoolSpec{Worker: "regex", Shards: 64}))
	merge(c.RunPool(vf.PoolSpec{Worker: "fmt", Shards: 96}))
	merge(c.RunPool(vf.PoolSpec{Worker: "inv", Shards: 16}))
	merge(c.RunPool(vf.PoolSpec{Worker: "dsl", Shards: 16}))
	merge(c.RunPool(vf.PoolSpec{Worker: "verbs", Shards: 16}))
	merge(<-spinDone)

	// evidence: per-function / per-symbol hit counts out of the merged counters
	calls, asserted, uncon := map[string]int64{}, map[string]int64{}, map[string]int64{}
	symbols := map[string]int64{}
	other := map[string]int64{}
	for k, v := range c.Counters {
		switch {
		case strings.HasPrefix(k, "calls:"):
			calls[k[6:]] = v
		case strings.HasPrefix(k, "asserted:"):
			asserted[k[9:]] = v
		case strings.HasPrefix(k, "unconstrained:"):
			uncon[k[14:]] = v
		case strings.HasPrefix(k, "symbol:"):
			symbols[k[7:]] = v
		default:
			other[k] = v
		}
	}
	c.Extra["calls_per_function"] = calls
	c.Extra["asserted_per_function"] = asserted
	c.Extra["unconstrained_per_function"] = uncon
	c.Extra["alphabet_symbol_hits"] = symbols
	c.Counters = other
	var never []string
	for f, n := range calls {
		if asserted[f] == 0 && n > 0 {
			never = append(never, f)
		}
	}
	sort.Strings(never)
	c.Extra["functions_called_but_never_asserted"] = never
	for name, m := range sets {
		if len(m) <= 64 {
			var l []string
			for s := range m {
				l = append(l, s)
			}
			sort.Strings(l)
			c.Extra["set:"+name] = l
		} else {
			c.Extra["set_size:"+name] = len(m)
		}
	}
	for i, n := range strAlphabetNames {
		if symbols["str:"+n] == 0 {
			c.Broken("alphabet symbol %q (%d) was never exercised", n, i)
		}
	}
	// every decimal digit as the first and as a later digit of the width and precision numerals, numerals of 1..3 digits, every verb
	for _, field := range []string{"width", "prec"} {
		for _, pos := range []string{"lead", "rest"} {
			for d := '0'; d <= '9'; d++ {
				if d == '0' && pos == "lead" && field == "width" {
					continue // a leading 0 is the 0 flag
				}
				if k := fmt.Sprintf("fmt:%s-digit:%s:%c", field, pos, d); symbols[k] == 0 {
					c.Broken("format-syntax symbol %s was never exercised", k)
				}
			}
		}
	}
	for _, field := range []string{"width", "prec"} {
		for l := 1; l <= 3; l++ {
			if k := fmt.Sprintf("fmt:%s-numeral-length:%d", field, l); symbols[k] == 0 {
				c.Broken("format-syntax symbol %s was never exercised", k)
			}
		}
	}
	for _, v := range fmtVerbs {
		if symbols["fmt:verb:"+v] == 0 {
			c.Broken("format verb %%%s was never exercised", v)
		}
	}
}
