package c15

// Family "str": UTF-8 aware string functions on every string of <= 3 alphabet
// symbols, all index pairs -5..5, widths, pad strings; digests, base64/hex
// encoders and the latin1 pair on the same strings.

import (
	"fmt"
	"strings"

	"github.com/johnkerl/miller/v6/pkg/bifs"
	"github.com/johnkerl/miller/v6/pkg/mlrval"

	"verif/harness/vf"
)

const (
	idxLo = -5
	idxHi = 5
)

var unaryFuncs = []struct {
	name string
	fn   func(*mlrval.Mlrval) *mlrval.Mlrval
}{
	{"strlen", bifs.BIF_strlen},
	{"toupper", bifs.BIF_toupper},
	{"tolower", bifs.BIF_tolower},
	{"capitalize", bifs.BIF_capitalize},
	{"lstrip", bifs.BIF_lstrip},
	{"rstrip", bifs.BIF_rstrip},
	{"strip", bifs.BIF_strip},
	{"collapse_whitespace", bifs.BIF_collapse_whitespace},
	{"clean_whitespace", bifs.BIF_clean_whitespace},
	{"md5", bifs.BIF_md5},
	{"sha1", bifs.BIF_sha1},
	{"sha256", bifs.BIF_sha256},
	{"sha512", bifs.BIF_sha512},
	{"base64_encode", bifs.BIF_base64_encode},
	{"hex_encode", bifs.BIF_hex_encode},
	{"latin1_to_utf8", bifs.BIF_latin1_to_utf8},
	{"utf8_to_latin1", bifs.BIF_utf8_to_latin1},
}

var padStrings = []string{"*", "é", "ab"}
var padWidths = []int{-1, 0, 1, 2, 3, 4, 5, 7}

type substrAns struct {
	Pairs   [][]string `json:"pairs"`
	Singles []string   `json:"singles"`
}
type padAns struct {
	Truncate []string   `json:"truncate"`
	Pad      [][]string `json:"pad"`
}

func strWorker(w *vf.Worker) {
	trap()
	maxSyms := 3
	if !w.Quick() {
		maxSyms = 4
	}
	S, syms := allStrings(strAlphabet, maxSyms)
	needles, _ := allStrings(strAlphabet, 2)
	var needleHex, padHex []string
	for _, t := range needles {
		needleHex = append(needleHex, hx(t))
	}
	for _, p := range padStrings {
		padHex = append(padHex, hx(p))
	}
	// pass 1: requests of my cases
	var reqs []any
	var mine []int
	for i, s := range S {
		idx := uint64(i + 1)
		if !w.Mine(idx) {
			continue
		}
		mine = append(mine, i)
		reqs = append(reqs,
			map[string]any{"k": "unary", "s": hx(s)},
			map[string]any{"k": "substr", "s": hx(s), "lo": idxLo, "hi": idxHi},
			map[string]any{"k": "pad", "s": hx(s), "ns": padWidths, "pads": padHex},
			map[string]any{"k": "index", "s": hx(s), "ts": needleHex},
		)
	}
	ans, err := pyBatch(reqs)
	if err != nil {
		w.Broken("%v", err)
		return
	}
	ck := &checker{w: w, family: "str"}
	for j, i := range mine {
		s := S[i]
		idx := uint64(i + 1)
		w.Begin(idx)
		w.Label(func() string { return "string functions on " + q(s) })
		for _, k := range syms[i] {
			w.Count("symbol:str:"+strAlphabetNames[k], 1)
		}
		size := len(syms[i])
		var un map[string]string
		var sub substrAns
		var pad padAns
		var ix [][]string
		if !mustUnmarshal(w, ans[4*j], &un) || !mustUnmarshal(w, ans[4*j+1], &sub) || !mustUnmarshal(w, ans[4*j+2], &pad) || !mustUnmarshal(w, ans[4*j+3], &ix) {
			return
		}
		// unary
		for _, f := range unaryFuncs {
			got, pn := call(func() *mlrval.Mlrval { return f.fn(sval(s)) })
			ck.cmp("unary["+f.name+"]", size, fmt.Sprintf("%s(%s)", f.name, q(s)), f.name, got, pn, un[f.name], map[string]any{"function": f.name, "arg": s, "arg_hex": hx(s)})
		}
		// substr1 / substr0 / substr (direct), s[m:n] and s[k] through the DSL
		sliceGot, singleGot, dslErr := dslSlices(s)
		w.Eval(1)
		if dslErr != "" {
			w.Violation(fmt.Sprintf("slice-run:%02d:%s", size, q(s)), "slice program on "+q(s)+": "+dslErr, map[string]any{"s": s})
		}
		p := 0
		for m := idxLo; m <= idxHi; m++ {
			for n := idxLo; n <= idxHi; n++ {
				wants := sub.Pairs[p]
				mm, nn := mlrval.FromInt(int64(m)), mlrval.FromInt(int64(n))
				got, pn := call(func() *mlrval.Mlrval { return bifs.BIF_substr_1_up(sval(s), mm, nn) })
				ck.cmp("substr1", size, fmt.Sprintf("substr1(%s,%d,%d)", q(s), m, n), "substr1", got, pn, wants[0], map[string]any{"s": s, "m": m, "n": n})
				got, pn = call(func() *mlrval.Mlrval { return bifs.BIF_substr_0_up(sval(s), mm, nn) })
				ck.cmp("substr0", size, fmt.Sprintf("substr0(%s,%d,%d)", q(s), m, n), "substr0", got, pn, wants[1], map[string]any{"s": s, "m": m, "n": n})
				if dslErr == "" {
					ck.cmpRendered(sliceGroup(s, "slice"), size, fmt.Sprintf("%s[%d:%d]", q(s), m, n), "[m:n]", sliceGot[p], wants[2], map[string]any{"s": s, "m": m, "n": n})
				}
				p++
			}
		}
		if dslErr == "" {
			for k := idxLo; k <= idxHi; k++ {
				ck.cmpRendered(sliceGroup(s, "index-access"), size, fmt.Sprintf("%s[%d]", q(s), k), "[k]", singleGot[k-idxLo], sub.Singles[k-idxLo], map[string]any{"s": s, "k": k})
			}
		}
		// truncate / leftpad / rightpad
		pp := 0
		for ni, n := range padWidths {
			nn := mlrval.FromInt(int64(n))
			got, pn := call(func() *mlrval.Mlrval { return bifs.BIF_truncate(sval(s), nn) })
			ck.cmp("truncate", size, fmt.Sprintf("truncate(%s,%d)", q(s), n), "truncate", got, pn, pad.Truncate[ni], map[string]any{"s": s, "n": n})
			for _, ps := range padStrings {
				wants := pad.Pad[pp]
				pp++
				got, pn = call(func() *mlrval.Mlrval { return bifs.BIF_leftpad(sval(s), nn, sval(ps)) })
				ck.cmp("leftpad", size, fmt.Sprintf("leftpad(%s,%d,%s)", q(s), n, q(ps)), "leftpad", got, pn, wants[0], map[string]any{"s": s, "n": n, "pad": ps})
				got, pn = call(func() *mlrval.Mlrval { return bifs.BIF_rightpad(sval(s), nn, sval(ps)) })
				ck.cmp("rightpad", size, fmt.Sprintf("rightpad(%s,%d,%s)", q(s), n, q(ps)), "rightpad", got, pn, wants[1], map[string]any{"s": s, "n": n, "pad": ps})
			}
		}
		// index / contains
		for ti, t := range needles {
			got, pn := call(func() *mlrval.Mlrval { return bifs.BIF_index(sval(s), sval(t)) })
			ck.cmp("index", size, fmt.Sprintf("index(%s,%s)", q(s), q(t)), "index", got, pn, ix[ti][0], map[string]any{"s": s, "t": t})
			got, pn = call(func() *mlrval.Mlrval { return bifs.BIF_contains(sval(s), sval(t)) })
			ck.cmp("contains", size, fmt.Sprintf("contains(%s,%s)", q(s), q(t)), "contains", got, pn, ix[ti][1], map[string]any{"s": s, "t": t})
		}
		// model-free laws on the same string: encoders invert, latin1 pair inverts
		lawInverse(ck, size, s)
	}
	// digests and encoders around the hash block boundaries and on 1 kB / 1 MB blocks
	blockIdx := uint64(len(S) + 1)
	if w.Mine(blockIdx) {
		w.Begin(blockIdx)
		var breqs []any
		var blocks []string
		for _, n := range []int{55, 56, 57, 63, 64, 65, 111, 112, 119, 120, 127, 128, 129, 1000, 1024, 1 << 20} {
			b := make([]byte, n)
			for i := range b {
				b[i] = byte(i*7 + n)
			}
			blocks = append(blocks, string(b), strings.Repeat("a", n))
		}
		for _, b := range blocks {
			breqs = append(breqs, map[string]any{"k": "unary", "s": hx(b)})
		}
		bans, err := pyBatch(breqs)
		if err != nil {
			w.Broken("%v", err)
			return
		}
		for bi, b := range blocks {
			var un map[string]string
			if !mustUnmarshal(w, bans[bi], &un) {
				return
			}
			for _, f := range unaryFuncs {
				switch f.name {
				case "md5", "sha1", "sha256", "sha512", "base64_encode", "hex_encode":
					got, pn := call(func() *mlrval.Mlrval { return f.fn(sval(b)) })
					ck.cmp("block["+f.name+"]", 99, fmt.Sprintf("%s(<%d bytes, first %s>)", f.name, len(b), q(b[:1])), f.name, got, pn, un[f.name], map[string]any{"function": f.name, "length": len(b)})
				}
			}
		}
	}
	if len(mine) > 0 {
		s := S[mine[len(mine)-1]]
		w.Sample(map[string]any{"family": "str", "string": s, "example": fmt.Sprintf("substr1(%s,-2,5) toupper strlen leftpad ... vs Python", q(s))})
	}
}

// cmpRendered is cmp for results that were obtained as text through the DSL.
func (c *checker) cmpRendered(group string, size int, caseKey, fn string, got string, want string, replay map[string]any) {
	w := c.w
	w.Eval(1)
	w.Count("calls:"+fn, 1)
	ok, un := matchWant(got, want)
	if un {
		w.Count("unconstrained:"+fn, 1)
		return
	}
	w.Nontrivial(1)
	w.Count("asserted:"+fn, 1)
	if !ok {
		if replay == nil {
			replay = map[string]any{}
		}
		replay["got"] = show(got)
		replay["expected"] = show(want)
		w.Violation(fmt.Sprintf("%s:%02d:%s", group, size, caseKey), fmt.Sprintf("%s = %s; reference: %s", caseKey, show(got), show(want)), replay)
	}
}

// sliceGroup puts the cause into the violation group.
func sliceGroup(s, base string) string {
	if s == "" {
		return base + "[empty-string]"
	}
	return base
}

const sliceProgram = `for (m = -5; m <= 5; m += 1) { for (n = -5; n <= 5; n += 1) { print "[" . $s[m:n] . "]"; } }
for (k = -5; k <= 5; k += 1) { print "[" . $s[k] . "]"; }`

// dslSlices evaluates s[m:n] for all pairs and s[k] for all k in one in-process run.
func dslSlices(s string) (pairs []string, singles []string, errText string) {
	in := "s=" + s + "\n"
	r := vf.RunMlr([]string{"--ifs", ";", "--ips", "=", "put", "-q", sliceProgram}, vf.MlrOpts{Stdin: &in})
	if !r.OK() {
		return nil, nil, "mlr failed: " + r.String()
	}
	lines := strings.Split(strings.TrimSuffix(r.Stdout, "\n"), "\n")
	np := (idxHi - idxLo + 1) * (idxHi - idxLo + 1)
	ns := idxHi - idxLo + 1
	if len(lines) != np+ns {
		return nil, nil, fmt.Sprintf("expected %d output lines, got %d: %s", np+ns, len(lines), trunc(r.Stdout, 300))
	}
	conv := func(l string) string {
		if l == "(error)" {
			return "e"
		}
		if len(l) >= 2 && l[0] == '[' && l[len(l)-1] == ']' {
			return "s:" + hx(l[1:len(l)-1])
		}
		return "raw:" + hx(l)
	}
	for i, l := range lines {
		if i < np {
			pairs = append(pairs, conv(l))
		} else {
			singles = append(singles, conv(l))
		}
	}
	return
}

// lawInverse: decode(encode(s)) == s for base64 and hex (through bytes and
// string()), utf8_to_latin1(latin1_to_utf8(s)) == s.
func lawInverse(ck *checker, size int, s string) {
	w := ck.w
	type pair struct {
		name     string
		enc, dec func(*mlrval.Mlrval) *mlrval.Mlrval
	}
	for _, p := range []pair{{"base64", bifs.BIF_base64_encode, bifs.BIF_base64_decode}, {"hex", bifs.BIF_hex_encode, bifs.BIF_hex_decode}} {
		var back *mlrval.Mlrval
		_, pn := call(func() *mlrval.Mlrval {
			back = bifs.BIF_string(p.dec(p.enc(sval(s))))
			return back
		})
		w.Eval(1)
		w.Nontrivial(1)
		w.Count("asserted:law:"+p.name+"-roundtrip", 1)
		w.Count("calls:law:"+p.name+"-roundtrip", 1)
		if pn != "" || back.String() != s || (s != "" && back.Type() != mlrval.MT_STRING) {
			got := pn
			if pn == "" {
				got = show(render(back))
			}
			w.Violation(fmt.Sprintf("inverse[%s]:%02d:%s", p.name, size, q(s)), fmt.Sprintf("string(%s_decode(%s_encode(%s))) = %s, expected the input", p.name, p.name, q(s), got), map[string]any{"s": s})
		}
	}
	var back *mlrval.Mlrval
	_, pn := call(func() *mlrval.Mlrval {
		back = bifs.BIF_utf8_to_latin1(bifs.BIF_latin1_to_utf8(sval(s)))
		return back
	})
	w.Eval(1)
	w.Nontrivial(1)
	w.Count("asserted:law:latin1-roundtrip", 1)
	w.Count("calls:law:latin1-roundtrip", 1)
	if pn != "" || back.String() != s {
		got := pn
		if pn == "" {
			got = show(render(back))
		}
		w.Violation(fmt.Sprintf("inverse[latin1]:%02d:%s", size, q(s)), fmt.Sprintf("utf8_to_latin1(latin1_to_utf8(%s)) = %s, expected the input", q(s), got), map[string]any{"s": s})
	}
}
