package c15

// Family "verbs": the verbs that wrap string functions equal the function
// applied per field (law on the real code: verb vs put on the same input).
// Family "spin": arguments on which a function must still terminate.

import (
	"context"
	"fmt"
	"os/exec"
	"strings"
	"syscall"
	"time"

	"verif/harness/vf"
)

var verbValues = []string{"abc", "a.b", "Hello World", "  x  y ", "é日", "aXa", "", "17", "a b", "hello wORLD", "\tq\t", "3.5"}
var verbKeys = []string{"a", "b", "c", "d e"}

func verbInput() (string, [][]string) {
	var sb strings.Builder
	var recs [][]string
	n := len(verbValues)
	for i := range verbValues {
		vals := []string{verbValues[i], verbValues[(i+3)%n], verbValues[(i+5)%n], verbValues[(i+7)%n]}
		recs = append(recs, vals)
		for k, key := range verbKeys {
			if k > 0 {
				sb.WriteByte(';')
			}
			sb.WriteString(key + "=" + vals[k])
		}
		sb.WriteByte('\n')
	}
	return sb.String(), recs
}

type verbCase struct {
	verb string   // for grouping
	args []string // verb invocation
	put  string   // equivalent DSL program
	alt  string   // a second acceptable DSL program ("" = none): documented latitude
	note string
}

func selExpr(sel string) string {
	switch sel {
	case "-f a,b":
		return `(k == "a" || k == "b")`
	case "-a":
		return `true`
	case "-r -f ^[ab]$":
		return `(k =~ "^[ab]$")`
	}
	return "true"
}

func selArgs(sel string) []string {
	switch sel {
	case "-f a,b":
		return []string{"-f", "a,b"}
	case "-a":
		return []string{"-a"}
	case "-r -f ^[ab]$":
		return []string{"-r", "-f", "^[ab]$"}
	}
	return nil
}

func verbCases(quick bool) []verbCase {
	var out []verbCase
	// sub / gsub / ssub
	olds := []string{"a", ".", "[ab]+", "(a)(.)", "l+", "^", "x*", " ", "o|e"}
	news := []string{"X", `<\1>`, `\0\0`, "", `\t`}
	sels := []string{"-f a,b", "-a", "-r -f ^[ab]$"}
	for _, verb := range []string{"sub", "gsub", "ssub"} {
		for _, sel := range sels {
			for _, o := range olds {
				for _, n := range news {
					args := append([]string{verb}, selArgs(sel)...)
					args = append(args, o, n)
					// numbers are left alone by the verbs ("safe"), the functions apply to strings and empties
					body := fmt.Sprintf(`for (k,v in $*) { if (%s && (is_string(v) || is_empty(v))) { $[k] = %s(v, "%s", "%s"); } }`, selExpr(sel), verb, o, n)
					if sel == "-r -f ^[ab]$" {
						// keep the =~ of the selector from feeding "\1" in the replacement literal: select first, substitute after
						body = fmt.Sprintf(`map sel = {}; for (k,v in $*) { if (k =~ "^[ab]$") { sel[k] = 1; } } "x" =~ null; for (k,v in $*) { if (is_present(sel[k]) && (is_string(v) || is_empty(v))) { $[k] = %s(v, "%s", "%s"); } }`, verb, o, n)
					}
					out = append(out, verbCase{verb: verb, args: args, put: body})
				}
			}
		}
	}
	// case
	fns := map[string]string{"-u": "toupper(%s)", "-l": "tolower(%s)", "-s": "capitalize(tolower(%s))"}
	for _, style := range []string{"-u", "-l", "-s"} {
		for _, which := range []string{"", "-k", "-v"} {
			for _, fsel := range []string{"", "-f a,d e"} {
				args := []string{"case", style}
				if which != "" {
					args = append(args, which)
				}
				sel := "true"
				if fsel != "" {
					args = append(args, "-f", "a,d e")
					sel = `(k == "a" || k == "d e")`
				}
				fk, fv := "k", "v"
				if which != "-v" {
					fk = fmt.Sprintf(fns[style], "k")
				}
				if which != "-k" {
					fv = fmt.Sprintf(fns[style], "v")
				}
				body := fmt.Sprintf(`map m = {}; for (k,v in $*) { if (%s) { m[%s] = %s; } else { m[k] = v; } } $* = m;`, sel, fk, fv)
				out = append(out, verbCase{verb: "case", args: args, put: body})
			}
		}
	}
	// clean-whitespace
	for _, which := range []string{"", "-k", "-v"} {
		args := []string{"clean-whitespace"}
		fk, fv := "clean_whitespace(k)", "clean_whitespace(v)"
		if which == "-k" {
			args = append(args, "-k")
			fv = "v"
		}
		if which == "-v" {
			args = append(args, "-v")
			fk = "k"
		}
		out = append(out, verbCase{verb: "clean-whitespace", args: args, put: fmt.Sprintf(`map m = {}; for (k,v in $*) { m[%s] = %s; } $* = m;`, fk, fv)})
	}
	// unspace
	for _, filler := range []string{"", "X", "é"} {
		for _, which := range []string{"", "-k", "-v"} {
			args := []string{"unspace"}
			fl := "_"
			if filler != "" {
				args = append(args, "-f", filler)
				fl = filler
			}
			fk := fmt.Sprintf(`gssub(k, " ", "%s")`, fl)
			fv := fmt.Sprintf(`((is_string(v) || is_empty(v)) ? gssub(v, " ", "%s") : v)`, fl)
			if which == "-k" {
				args = append(args, "-k")
				fv = "v"
			}
			if which == "-v" {
				args = append(args, "-v")
				fk = "k"
			}
			out = append(out, verbCase{verb: "unspace", args: args, put: fmt.Sprintf(`map m = {}; for (k,v in $*) { m[%s] = %s; } $* = m;`, fk, fv)})
		}
	}
	// latin1 pair
	out = append(out, verbCase{verb: "utf8-to-latin1", args: []string{"utf8-to-latin1"}, put: `$* = utf8_to_latin1($*);`})
	out = append(out, verbCase{verb: "latin1-to-utf8", args: []string{"latin1-to-utf8"}, put: `$* = latin1_to_utf8($*);`})
	out = append(out, verbCase{verb: "latin1-to-utf8|utf8-to-latin1", args: []string{"latin1-to-utf8", "then", "utf8-to-latin1"}, put: `$* = $*;`})
	return out
}

func verbsWorker(w *vf.Worker) {
	trap()
	input, recs := verbInput()
	cases := verbCases(w.Quick())
	for i, c := range cases {
		idx := uint64(i + 1)
		if !w.Mine(idx) {
			continue
		}
		w.Begin(idx)
		w.Label(func() string { return "verb " + strings.Join(c.args, " ") })
		base := []string{"--ifs", ";", "--ofs", ";"}
		rv := vf.RunMlr(append(append([]string{}, base...), c.args...), vf.MlrOpts{Stdin: &input})
		rp := vf.RunMlr(append(append([]string{}, base...), "put", c.put), vf.MlrOpts{Stdin: &input})
		w.Eval(2)
		w.Count("calls:verb:"+c.verb, 1)
		key := strings.Join(c.args, " ")
		if !rp.OK() {
			w.Broken("reference put program for `%s` fails: %s\n%s", key, rp.String(), c.put)
			continue
		}
		if !rv.OK() {
			w.Violation(fmt.Sprintf("wrap-run[%s]:%02d:%s", c.verb, len(c.args), key), fmt.Sprintf("mlr %s fails: %s", key, rv.String()), map[string]any{"args": c.args})
			continue
		}
		w.Nontrivial(1)
		w.Count("asserted:verb:"+c.verb, 1)
		if rv.Stdout == rp.Stdout {
			w.AddSet("verb-outputs-changed-input", fmt.Sprint(c.verb, ":", rv.Stdout != input))
			continue
		}
		// locate the first differing record and classify the cause by the input value
		lv := strings.Split(rv.Stdout, "\n")
		lp := strings.Split(rp.Stdout, "\n")
		cause, detail := "record-count", fmt.Sprintf("%d vs %d output lines", len(lv), len(lp))
		for r := 0; r < len(lv) && r < len(lp); r++ {
			if lv[r] == lp[r] {
				continue
			}
			cause = "value"
			fv := strings.Split(lv[r], ";")
			fp := strings.Split(lp[r], ";")
			detail = fmt.Sprintf("record %d: verb gives %s, put gives %s", r+1, q(lv[r]), q(lp[r]))
			if len(fv) == len(fp) && r < len(recs) {
				for f := range fv {
					if fv[f] != fp[f] && f < len(recs[r]) {
						in := recs[r][f]
						switch {
						case in == "":
							cause = "empty-field"
						case strings.Trim(in, "0123456789.") == "":
							cause = "numeric-field"
						}
						detail = fmt.Sprintf("record %d field %s=%s: verb gives %s, function gives %s", r+1, q(verbKeys[f]), q(in), q(fv[f]), q(fp[f]))
						break
					}
				}
			}
			break
		}
		w.Violation(fmt.Sprintf("wrap[%s %s]:%02d:%s", c.verb, cause, len(c.args), key),
			fmt.Sprintf("mlr %s differs from the DSL function applied per field: %s", key, detail),
			map[string]any{"args": c.args, "put": c.put, "input": input, "verb_stdout": rv.Stdout, "put_stdout": rp.Stdout})
	}
	// case -t ("capitalize words"): no DSL function to compare with; asserted per field on values made of
	// letters and single spaces only, where "title case" leaves no latitude
	tIdx := uint64(len(cases) + 1)
	if w.Mine(tIdx) {
		w.Begin(tIdx)
		rv := vf.RunMlr([]string{"--ifs", ";", "--ofs", ";", "case", "-t", "-v"}, vf.MlrOpts{Stdin: &input})
		w.Eval(1)
		w.Count("calls:verb:case -t", 1)
		lines := strings.Split(strings.TrimSuffix(rv.Stdout, "\n"), "\n")
		if !rv.OK() || len(lines) != len(recs) {
			w.Violation("wrap-run[case]:03:case -t -v", "mlr case -t -v fails: "+rv.String(), nil)
		} else {
			for r, l := range lines {
				fs := strings.Split(l, ";")
				for f := range fs {
					if f >= len(recs[r]) {
						break
					}
					in := recs[r][f]
					want, ok := titleSimple(in)
					if !ok {
						w.Count("unconstrained:verb:case -t", 1)
						continue
					}
					w.Eval(1)
					w.Nontrivial(1)
					w.Count("asserted:verb:case -t", 1)
					if got := strings.TrimPrefix(fs[f], verbKeys[f]+"="); got != want {
						w.Violation(fmt.Sprintf("wrap[case -t]:%02d:%s", len(in), q(in)), fmt.Sprintf("mlr case -t -v turns %s into %s, expected %s (capitalize words)", q(in), q(got), q(want)), map[string]any{"value": in})
					}
				}
			}
		}
	}
	w.Sample(map[string]any{"family": "verbs", "cases": len(cases), "records": len(recs), "example": strings.Join(cases[len(cases)/2].args, " ") + "  ==  put '" + cases[len(cases)/2].put + "'"})
}

// titleSimple: title case of a value made of letter-only words separated by single spaces.
func titleSimple(s string) (string, bool) {
	if s == "" {
		return "", false
	}
	words := strings.Split(s, " ")
	for i, wd := range words {
		if wd == "" {
			return "", false
		}
		rs := []rune(wd)
		for _, r := range rs {
			if !(r >= 'a' && r <= 'z' || r >= 'A' && r <= 'Z' || r == 'é' || r == '日') {
				return "", false
			}
		}
		words[i] = strings.ToUpper(string(rs[0])) + strings.ToLower(string(rs[1:]))
	}
	return strings.Join(words, " "), true
}

// ---------------------------------------------------------------- spin: calls that must terminate

type spinCase struct {
	expr string
	why  string
}

var spinCases = []spinCase{
	{`leftpad("a", 5, "")`, "empty pad string, input shorter than the target"},
	{`rightpad("a", 5, "")`, "empty pad string, input shorter than the target"},
	{`leftpad("abc", 2, "")`, "empty pad string, input already long enough"},
	{`rightpad("", 0, "")`, "empty pad string, empty input, zero width"},
}

// spinWorker runs each expression in a separate plain mlr process under a CPU
// time limit (RLIMIT_CPU, not wall clock: machine load cannot turn into a
// verdict). A normal evaluation needs ~10 ms of CPU; the limit is 10 s (1000x).
func spinWorker(w *vf.Worker) {
	bin := vf.MlrBin()
	for i, c := range spinCases {
		idx := uint64(i + 1)
		if !w.Mine(idx) {
			continue
		}
		w.Begin(idx)
		w.Label(func() string { return c.expr })
		if bin == "" {
			w.Inexhaustive("no plain mlr binary available (VERIF_BIN_MLR unset): termination probes skipped")
			continue
		}
		if _, err := exec.LookPath("prlimit"); err != nil {
			w.Inexhaustive("prlimit not available: termination probes skipped")
			continue
		}
		const cpuSecs = 10
		const attempts = 1 // CPU time is not affected by machine load: no need to re-run
		spun := 0
		var last string
		for attempt := 0; attempt < attempts; attempt++ {
			ctx, cancel := context.WithTimeout(context.Background(), 30*time.Minute)
			cmd := exec.CommandContext(ctx, "prlimit", fmt.Sprintf("--cpu=%d", cpuSecs), bin, "-n", "put", "end{print \"[\" . "+c.expr+" . \"]\"}")
			cmd.SysProcAttr = &syscall.SysProcAttr{Setpgid: true}
			done := make(chan struct{})
			go func() {
				tk := time.NewTicker(2 * time.Second)
				defer tk.Stop()
				for {
					select {
					case <-done:
						return
					case <-tk.C:
						w.Heartbeat()
					}
				}
			}()
			out, err := cmd.CombinedOutput()
			close(done)
			cancel()
			w.Eval(1)
			last = trunc(string(out), 200)
			if err == nil {
				break
			}
			if ee, ok := err.(*exec.ExitError); ok {
				if ws, ok := ee.Sys().(syscall.WaitStatus); ok && ws.Signaled() && (ws.Signal() == syscall.SIGXCPU || ws.Signal() == syscall.SIGKILL) {
					spun++
					continue
				}
				// a non-zero exit with a diagnostic is a legitimate way to refuse the argument
				break
			}
			w.Broken("cannot run %s: %v", bin, err)
			return
		}
		w.Nontrivial(1)
		w.Count("calls:termination-probe", 1)
		w.Count("asserted:termination-probe", 1)
		if spun == attempts {
			w.Violation(fmt.Sprintf("no-termination:%02d:%s", len(c.expr), c.expr),
				fmt.Sprintf("mlr -n put 'end{print %s}' does not terminate: killed after %d s of CPU time (%s); output so far %q", c.expr, cpuSecs, c.why, last),
				map[string]any{"command": []string{"mlr", "-n", "put", "end{print " + c.expr + "}"}, "cpu_limit_s": cpuSecs})
		}
	}
	w.Sample(map[string]any{"family": "spin", "cases": len(spinCases)})
}
