package c15

// Family "fmt": every format string %[flags][width][.prec][l|ll]verb of the
// grid x a value set, through fmtnum / fmtifnum (direct), --ofmt and
// format-values (in-process CLI), against C99 printf rules (Python reference
// validated against glibc).
//
// Two sub-families share the value set, the call paths and the oracle:
//
//   - "grid": the semantic cross product flags x {a few widths} x {a few
//     precisions} x verbs (which flag combination does what to which value).
//   - "syntax": the SPELLING of the directive, i.e. everything a directive
//     scanner has to get right before it can even find the verb: the width as
//     a decimal numeral (every width 1..W, hence every digit as the first
//     and as a later digit of numerals of one, two and three digits), the
//     precision as a decimal numeral (every precision 0..P, the bare "." and
//     numerals with leading zeros), the flags as a sequence (every order of two
//     distinct flags, doubled flags - which is also how a width "written with
//     leading zeros" such as %0010d parses in C), and every l/ll length
//     modifier the usage text of format-values allows on every verb.
//     C99 7.19.6.1 defines the result as a function of the flag SET, the width
//     VALUE and the precision VALUE only, which is what the reference computes.

import (
	"fmt"
	"strings"

	"github.com/johnkerl/miller/v6/pkg/bifs"
	"github.com/johnkerl/miller/v6/pkg/mlrval"

	"verif/harness/vf"
)

// Verbs: the conversions of https://pkg.go.dev/fmt the docs defer to, plus the
// length modifiers the format-values usage text asks for ("Miller integers are
// long long so you must use formats which apply to long long, e.g. with ll in
// them"; "Miller floats are double-precision so you must use formats which
// apply to double, e.g. with l[efg] in them"): l and ll on every integer
// conversion, l on every floating-point conversion.
var fmtVerbs = []string{"d", "x", "X", "o", "b", "e", "E", "f", "g", "G", "s", "lf", "le", "lg", "lld", "llx", "ld", "lx",
	"lX", "llX", "lo", "llo", "lb", "llb", "lE", "lG"}

var fmtInts = []string{"0", "1", "-1", "17", "255", "9223372036854775807", "-9223372036854775808"}
var fmtFloats = []string{"0.0", "3.25", "-0.5", "1e10", "0.1", "2.5", "1e-5", "123456789.125", "0.5", "1234567.0"}

func flagSets(maxSize int) []string {
	fl := "-0+ #"
	out := []string{""}
	var rec func(start int, cur string)
	var bySize [][]string = make([][]string, maxSize+1)
	rec = func(start int, cur string) {
		if len(cur) > 0 {
			bySize[len(cur)] = append(bySize[len(cur)], cur)
		}
		if len(cur) == maxSize {
			return
		}
		for i := start; i < len(fl); i++ {
			rec(i+1, cur+string(fl[i]))
		}
	}
	rec(0, "")
	for s := 1; s <= maxSize; s++ {
		out = append(out, bySize[s]...)
	}
	return out
}

type fmtCase struct {
	f           string
	flags, verb string
	size        int
	fam         string // "grid", or the syntax sub-family: "width", "prec", "flagseq"
	width, prec string // the numerals as spelled (prec with its leading '.')
}

// Bounds of the syntax sub-families.
func fmtSyntaxBounds(quick bool) (maxWidth, maxPrec, widthFlags, seqLen int) {
	if quick {
		return 120, 40, 1, 2
	}
	return 200, 99, 2, 3
}

var fmtSynWidthPrecs = []string{"", ".0", ".3", ".10"}            // precisions crossed with every width numeral
var fmtSynPrecWidths = []string{"", "5", "10"}                    // widths crossed with every precision numeral
var fmtSynPrecExtra = []string{".", ".00", ".03", ".010", ".100"} // bare period (= .0), numerals with leading zeros, a three-digit numeral
var fmtSynSeqWidths = []string{"", "5", "10", "100"}              // widths crossed with every flag sequence
var fmtSynSeqPrecs = []string{"", ".3"}                           // precisions crossed with every flag sequence

func fmtSyntaxBoundsEvidence(quick bool) map[string]any {
	maxWidth, maxPrec, widthFlags, seqLen := fmtSyntaxBounds(quick)
	n := map[string]int{}
	for _, c := range fmtGrid(quick) {
		n[c.fam]++
	}
	return map[string]any{
		"width_numerals":           fmt.Sprintf("1..%d", maxWidth),
		"width_family_flags":       fmt.Sprintf("every set of <= %d flags", widthFlags),
		"width_family_precisions":  fmtSynWidthPrecs,
		"precision_numerals":       fmt.Sprintf(".0...%d and %v", maxPrec, fmtSynPrecExtra),
		"precision_family_flags":   "every set of <= 1 flag",
		"precision_family_widths":  fmtSynPrecWidths,
		"flag_sequences":           flagSeqs(seqLen),
		"flag_sequence_max_len":    seqLen,
		"flag_sequence_widths":     fmtSynSeqWidths,
		"flag_sequence_precisions": fmtSynSeqPrecs,
		"verbs":                    fmtVerbs,
		"formats_per_family":       n,
		"formats_already_in_grid":  "skipped (each spelling is run once)",
		"values_per_format":        len(fmtInts) + len(fmtFloats) + 3,
		"paths":                    "fmtnum, fmtifnum (direct), --ofmt, format-values -i / -f / -n -f (in-process mlr)",
		"oracle":                   "C99 7.19.6.1 as a function of (flag set, width value, precision value, verb): harness/pyref/strref.py k_fmt, validated against glibc (strref_validate.py)",
	}
}

// flagSeqs: every sequence of <= n flags which is NOT one of flagSets' canonical
// spellings: the other orders of distinct flags, and sequences with a repeated
// flag (C: "zero or more flags (in any order)").
func flagSeqs(n int) []string {
	fl := "-0+ #"
	canon := map[string]bool{}
	for _, s := range flagSets(n) {
		canon[s] = true
	}
	var out []string
	prev := []string{""}
	for l := 1; l <= n; l++ {
		var cur []string
		for _, p := range prev {
			for i := 0; i < len(fl); i++ {
				cur = append(cur, p+string(fl[i]))
			}
		}
		for _, s := range cur {
			if !canon[s] {
				out = append(out, s)
			}
		}
		prev = cur
	}
	return out
}

func inList(l []string, s string) bool {
	for _, x := range l {
		if x == s {
			return true
		}
	}
	return false
}

// fmtEnumerate walks the whole format enumeration in canonical order (the
// semantic grid, then the syntax sub-families "width", "prec", "flagseq"; a
// spelling which an earlier family already contains is skipped, so every
// spelling has exactly one index) and materialises only the cases want()
// accepts: every worker shard walks it, so the walk itself allocates nothing.
func fmtEnumerate(quick bool, want func(idx int) bool, emit func(idx int, c fmtCase)) (total int) {
	maxFlags := 2
	widths := []string{"", "1", "5", "8"}
	precs := []string{"", ".0", ".3"}
	if !quick {
		maxFlags = 3
		widths = []string{"", "1", "5", "8", "12"}
		precs = []string{"", ".0", ".3", ".10"}
	}
	idx := 0
	add := func(fam, fl, wd, pr string) {
		for _, v := range fmtVerbs {
			idx++
			if want != nil && !want(idx) {
				continue
			}
			c := fmtCase{f: "%" + fl + wd + pr + v, flags: fl, verb: v, fam: fam, width: wd, prec: pr}
			if fam == "grid" {
				c.size = len(fl) + len(v) - 1
				if wd != "" {
					c.size++
				}
				if pr != "" {
					c.size++
				}
			} else {
				c.size = len(c.f) - 1
			}
			emit(idx, c)
		}
	}
	for _, fl := range flagSets(maxFlags) {
		for _, wd := range widths {
			for _, pr := range precs {
				add("grid", fl, wd, pr)
			}
		}
	}
	maxWidth, maxPrec, widthFlags, seqLen := fmtSyntaxBounds(quick)
	if widthFlags > maxFlags {
		panic("c15: the width family's flag sets must be a subset of the grid's")
	}
	wnum := make([]string, maxWidth+1)
	for wdt := 1; wdt <= maxWidth; wdt++ {
		wnum[wdt] = fmt.Sprint(wdt)
	}
	for wdt := 1; wdt <= maxWidth; wdt++ {
		for _, fl := range flagSets(widthFlags) {
			for _, pr := range fmtSynWidthPrecs {
				if inList(widths, wnum[wdt]) && inList(precs, pr) {
					continue // in the grid
				}
				add("width", fl, wnum[wdt], pr)
			}
		}
	}
	var synPrecs []string
	for p := 0; p <= maxPrec; p++ {
		synPrecs = append(synPrecs, "."+fmt.Sprint(p))
	}
	synPrecs = append(synPrecs, fmtSynPrecExtra...)
	for _, pr := range synPrecs {
		for _, fl := range flagSets(1) {
			for _, wd := range fmtSynPrecWidths {
				if inList(widths, wd) && inList(precs, pr) {
					continue // in the grid
				}
				if wd != "" && inList(fmtSynWidthPrecs, pr) {
					continue // in the width family (fmtSynPrecWidths are numerals <= maxWidth)
				}
				add("prec", fl, wd, pr)
			}
		}
	}
	for _, fl := range flagSeqs(seqLen) { // never a canonical spelling: in no other family
		for _, wd := range fmtSynSeqWidths {
			for _, pr := range fmtSynSeqPrecs {
				add("flagseq", fl, wd, pr)
			}
		}
	}
	return idx
}

// fmtGrid materialises the whole enumeration (parent process: counts, evidence).
func fmtGrid(quick bool) []fmtCase {
	var out []fmtCase
	fmtEnumerate(quick, nil, func(_ int, c fmtCase) { out = append(out, c) })
	return out
}

// fmtCliBound: which formats also go through --ofmt / format-values (one
// in-process mlr run each, ~100x the cost of a direct call). All of them call
// the same mlrval.GetFormatter as fmtnum, so the CLI pass binds the flags and
// the verbs to that code rather than re-exploring it: the whole semantic grid,
// every flag sequence, and of the width / precision numeral families the
// spellings without a flag and with the 0 flag (the one flag which is lexically
// ambiguous with a numeral).
func fmtCliBound(c fmtCase) bool {
	switch c.fam {
	case "width", "prec":
		return c.flags == "" || c.flags == "0"
	}
	return true
}

// digitSymbols names the (field, position, digit) symbols a numeral exercises:
// position = lead (first digit) / rest (any later digit).
func digitSymbols(field, numeral string) []string {
	var out []string
	for i := 0; i < len(numeral); i++ {
		pos := "rest"
		if i == 0 {
			pos = "lead"
		}
		out = append(out, fmt.Sprintf("symbol:fmt:%s-digit:%s:%c", field, pos, numeral[i]))
	}
	if len(numeral) > 0 {
		out = append(out, fmt.Sprintf("symbol:fmt:%s-numeral-length:%d", field, len(numeral)))
	}
	return out
}

func isFloatVerb(v string) bool { return strings.ContainsAny(v[len(v)-1:], "eEfgG") }
func isIntVerb(v string) bool   { return strings.ContainsAny(v[len(v)-1:], "dxXob") }

func fmtWorker(w *vf.Worker) {
	trap()
	var vals [][]string
	for _, v := range fmtInts {
		vals = append(vals, []string{"i", v})
	}
	for _, v := range fmtFloats {
		vals = append(vals, []string{"f", v})
	}
	vals = append(vals, []string{"s", "abc"}, []string{"v", ""}, []string{"b", "true"})
	nI, nF := len(fmtInts), len(fmtFloats)

	var reqs []any
	var mine []fmtCase
	var mineIdx []uint64
	total := fmtEnumerate(w.Quick(), func(idx int) bool { return w.Mine(uint64(idx)) }, func(idx int, c fmtCase) {
		mine = append(mine, c)
		mineIdx = append(mineIdx, uint64(idx))
		reqs = append(reqs, map[string]any{"k": "fmt", "fmt": c.f, "vals": vals})
	})
	// one extra case: hexfmt and the documented string formats of format-values
	extraIdx := uint64(total + 1)
	doExtra := w.Mine(extraIdx)
	strSet := []string{"abc", "", "é日", "a b", "B"}
	strFormats := []string{"%s", "_%s", "X%sX", "[%s]", "%5s", "%-5s", "%.2s", "%5.1s", "%-3sX", "%08s"}
	if doExtra {
		reqs = append(reqs, map[string]any{"k": "fmt", "fmt": "%f", "vals": vals})
		reqs = append(reqs, map[string]any{"k": "hexfmt", "vals": fmtInts})
		var hs []string
		for _, s := range strSet {
			hs = append(hs, hx(s))
		}
		for _, f := range strFormats {
			reqs = append(reqs, map[string]any{"k": "fmtstr", "fmt": f, "ss": hs})
		}
	}
	ans, err := pyBatch(reqs)
	if err != nil {
		w.Broken("%v", err)
		return
	}
	mv := func(kind, text string) *mlrval.Mlrval {
		switch kind {
		case "b":
			return mlrval.FromBool(text == "true")
		case "v":
			return mlrval.VOID
		}
		return mlrval.FromInferredType(text)
	}
	viol := func(group string, c fmtCase, key, what string, replay map[string]any) {
		w.Violation(fmt.Sprintf("%s:%02d:%s", group, c.size, key), what, replay)
	}
	for k, c := range mine {
		w.Begin(mineIdx[k])
		w.Label(func() string { return "format " + c.f })
		var wants []string
		if !mustUnmarshal(w, ans[k], &wants) {
			return
		}
		w.Count("symbol:fmt:verb:"+c.verb, 1)
		for _, ch := range c.flags {
			w.Count("symbol:fmt:flag:"+string(ch), 1)
		}
		w.Count("formats:"+c.fam, 1)
		for _, sy := range digitSymbols("width", c.width) {
			w.Count(sy, 1)
		}
		if c.prec == "." {
			w.Count("symbol:fmt:prec-digit:none-after-period", 1)
		} else if c.prec != "" {
			for _, sy := range digitSymbols("prec", c.prec[1:]) {
				w.Count(sy, 1)
			}
		}
		if c.fam == "flagseq" {
			w.Count("symbol:fmt:flag-sequence:"+c.flags, 1)
		}
		fm := sval(c.f)
		group := func(fn string) string { return fmt.Sprintf("printf[%s %%%s]", fn, c.verb) }
		for vi, v := range vals {
			want := wants[vi]
			in := mv(v[0], v[1])
			got, pn := call(func() *mlrval.Mlrval { return bifs.BIF_fmtnum(in, fm) })
			got2, pn2 := call(func() *mlrval.Mlrval { return bifs.BIF_fmtifnum(mv(v[0], v[1]), fm) })
			w.Eval(2)
			w.Count("calls:fmtnum", 1)
			w.Count("calls:fmtifnum", 1)
			// key and replay are built only when a cell is reported
			var key string
			var rp map[string]any
			mk := func() {
				key = fmt.Sprintf("fmtnum(%s,%q)", v[1], c.f)
				rp = map[string]any{"format": c.f, "value": v[1], "kind": v[0]}
			}
			if pn != "" || pn2 != "" {
				mk()
				viol("crash[fmtnum]", c, key, key+": "+pn+pn2, rp)
				continue
			}
			switch {
			case want == "u":
				w.Count("unconstrained:fmtnum", 1)
				w.Count("unconstrained:fmtifnum", 1)
			case want == "E":
				w.Nontrivial(2)
				w.Count("asserted:fmtnum", 1)
				w.Count("asserted:fmtifnum", 1)
				if !got.IsError() {
					mk()
					viol("printf[fmtnum non-numeric]", c, key, fmt.Sprintf("%s = %s, expected an error (fmtifnum help: 'returns the first argument as-is if the output would be an error')", key, show(render(got))), rp)
				}
				if got2.String() != v[1] {
					mk()
					viol("printf[fmtifnum non-numeric]", c, "fmtifnum"+key[6:], fmt.Sprintf("fmtifnum(%q,%q) = %s, expected the input", v[1], c.f, show(render(got2))), rp)
				}
			case want == "N":
				w.Nontrivial(1)
				w.Count("asserted:fmtnum", 1)
				if got.IsError() {
					mk()
					viol("printf[fmtnum bool]", c, key, fmt.Sprintf("%s is an error; the help says fmtnum converts int/float/bool", key), rp)
				}
			default:
				w.Nontrivial(2)
				w.Count("asserted:fmtnum", 1)
				w.Count("asserted:fmtifnum", 1)
				g := "s:" + hx(got.String())
				if got.IsError() {
					g = "e"
				}
				if ok, _ := matchWant(g, want); !ok {
					mk()
					rp["got"], rp["expected"] = show(g), show(want)
					viol(group("fmtnum"), c, key, fmt.Sprintf("%s = %s; C printf gives %s", key, show(g), show(want)), rp)
				}
				g2 := "s:" + hx(got2.String())
				if ok, _ := matchWant(g2, want); !ok {
					mk()
					viol(group("fmtifnum"), c, "fmtifnum"+key[6:], fmt.Sprintf("fmtifnum(%s,%q) = %s; C printf gives %s", v[1], c.f, show(g2), show(want)), rp)
				}
			}
		}
		if !fmtCliBound(c) {
			w.Count("formats-direct-only:"+c.fam, 1)
			continue
		}
		w.Count("formats-cli-bound:"+c.fam, 1)
		// ---- the same format through the CLI
		rec := ""
		for vi, v := range vals[:nI+nF] {
			rec += fmt.Sprintf("n%d=%s;", vi, v[1])
		}
		rec += "s=abc\n"
		parse := func(out string) map[string]string {
			m := map[string]string{}
			for _, kv := range strings.Split(strings.TrimSuffix(out, "\n"), ";") {
				if j := strings.IndexByte(kv, '='); j >= 0 {
					m[kv[:j]] = kv[j+1:]
				}
			}
			return m
		}
		cli := func(fn string, args []string, expect func(vi int, kind string) (string, bool)) {
			full := append([]string{"--ifs", ";", "--ofs", ";"}, args...)
			r := vf.RunMlr(full, vf.MlrOpts{Stdin: &rec})
			w.Eval(1)
			w.Count("calls:"+fn, 1)
			key := fmt.Sprintf("%s %q", fn, c.f)
			if !r.OK() {
				viol("cli-run["+fn+"]", c, key, fmt.Sprintf("mlr %s: %s", strings.Join(args, " "), r.String()), map[string]any{"args": args, "input": rec})
				return
			}
			m := parse(r.Stdout)
			for vi, v := range vals[:nI+nF] {
				want, asserted := expect(vi, v[0])
				if !asserted || want == "u" || want == "E" || want == "N" {
					w.Count("unconstrained:"+fn, 1)
					continue
				}
				w.Eval(1)
				w.Nontrivial(1)
				w.Count("asserted:"+fn, 1)
				g := "s:" + hx(m[fmt.Sprintf("n%d", vi)])
				if ok, _ := matchWant(g, want); !ok {
					viol(fmt.Sprintf("printf[%s %%%s]", fn, c.verb), c, fmt.Sprintf("%s on %s", key, v[1]),
						fmt.Sprintf("mlr %s renders %s as %s; C printf gives %s", strings.Join(args, " "), v[1], show(g), show(want)),
						map[string]any{"args": args, "input": rec, "field": fmt.Sprintf("n%d", vi), "got": show(g), "expected": show(want)})
				}
			}
			if m["s"] != "abc" {
				viol("printf["+fn+" string-field]", c, key, fmt.Sprintf("mlr %s changed the string field abc to %q", strings.Join(args, " "), m["s"]), map[string]any{"args": args})
			}
		}
		same := func(vi int) string { return "s:" + hx(vals[vi][1]) }
		switch {
		case isFloatVerb(c.verb) && !strings.HasPrefix(c.verb, "ll"):
			cli("--ofmt", []string{"--ofmt", c.f, "cat"}, func(vi int, kind string) (string, bool) {
				if kind == "f" {
					return wants[vi], true
				}
				return same(vi), true // ints are not touched by --ofmt
			})
			cli("format-values -f", []string{"format-values", "-f", c.f}, func(vi int, kind string) (string, bool) {
				if kind == "f" {
					return wants[vi], true
				}
				return same(vi), true // default integer format %d
			})
			cli("format-values -n -f", []string{"format-values", "-n", "-f", c.f}, func(vi int, kind string) (string, bool) {
				return wants[vi], true // ints coerced to float, then the float format
			})
		case isIntVerb(c.verb):
			cli("format-values -i", []string{"format-values", "-i", c.f}, func(vi int, kind string) (string, bool) {
				if kind == "i" {
					return wants[vi], true
				}
				return "", false // default float format on the float fields: asserted in the %f rows
			})
		}
	}
	if doExtra {
		w.Begin(extraIdx)
		base := len(mine)
		var hw, dw []string
		if !mustUnmarshal(w, ans[base], &dw) {
			return
		}
		base++
		if !mustUnmarshal(w, ans[base], &hw) {
			return
		}
		ck := &checker{w: w, family: "fmt"}
		// format-values without options: "%d" for ints, "%f" for floats, "%s" for strings
		{
			rec := ""
			for vi, v := range vals[:nI+nF] {
				rec += fmt.Sprintf("n%d=%s;", vi, v[1])
			}
			rec += "s=abc\n"
			r := vf.RunMlr([]string{"--ifs", ";", "--ofs", ";", "format-values"}, vf.MlrOpts{Stdin: &rec})
			fields := map[string]string{}
			for _, kv := range strings.Split(strings.TrimSuffix(r.Stdout, "\n"), ";") {
				if j := strings.IndexByte(kv, '='); j >= 0 {
					fields[kv[:j]] = kv[j+1:]
				}
			}
			for vi, v := range vals[:nI+nF] {
				want := "s:" + hx(v[1])
				if v[0] == "f" {
					want = dw[vi]
				}
				ck.cmpRendered("printf[format-values defaults]", len(v[1]), "format-values on "+v[1], "format-values", "s:"+hx(fields[fmt.Sprintf("n%d", vi)]), want, map[string]any{"value": v[1]})
			}
			ck.cmpRendered("printf[format-values defaults]", 3, "format-values on abc", "format-values", "s:"+hx(fields["s"]), "s:"+hx("abc"), nil)
		}
		for vi, v := range fmtInts {
			got, pn := call(func() *mlrval.Mlrval { return bifs.BIF_hexfmt(mlrval.FromInferredType(v)) })
			ck.cmp("hexfmt", len(v), fmt.Sprintf("hexfmt(%s)", v), "hexfmt", got, pn, hw[vi], map[string]any{"value": v})
		}
		// format-values -s on string fields
		for fi, f := range strFormats {
			var sw []string
			if !mustUnmarshal(w, ans[base+1+fi], &sw) {
				return
			}
			for si, s := range strSet {
				in := "x=" + s + "\n"
				r := vf.RunMlr([]string{"--ifs", ";", "--ofs", ";", "format-values", "-s", f}, vf.MlrOpts{Stdin: &in})
				got := "s:" + hx(strings.TrimPrefix(strings.TrimSuffix(r.Stdout, "\n"), "x="))
				if !r.OK() {
					got = "raw:" + hx(r.String())
				}
				ck.cmpRendered("printf[format-values -s]", len(f)+len(s), fmt.Sprintf("format-values -s %q on %s", f, q(s)), "format-values -s", got, sw[si], map[string]any{"format": f, "value": s})
			}
		}
	}
	if len(mine) > 0 {
		c := mine[len(mine)-1]
		w.Sample(map[string]any{"family": "fmt", "format": c.f, "values": len(vals), "through": "fmtnum, fmtifnum, --ofmt, format-values -i/-f/-n"})
	}
}
