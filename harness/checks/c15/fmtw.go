package c15

// Family "fmt": every format string %[flags][width][.prec][l|ll]verb of the
// grid x a value set, through fmtnum / fmtifnum (direct), --ofmt and
// format-values (in-process CLI), against C99 printf rules (Python reference
// validated against glibc).

import (
	"fmt"
	"strings"

	"github.com/johnkerl/miller/v6/pkg/bifs"
	"github.com/johnkerl/miller/v6/pkg/mlrval"

	"verif/harness/vf"
)

var fmtVerbs = []string{"d", "x", "X", "o", "b", "e", "E", "f", "g", "G", "s", "lf", "le", "lg", "lld", "llx", "ld", "lx"}

var fmtInts = []string{"0", "1", "-1", "17", "255", "9223372036854775807", "-9223372036854775808"}
var fmtFloats = []string{"0.0", "3.25", "-0.5", "1e10", "0.1", "2.5", "1e-5", "123456789.125", "0.5", "1234567.0"}

func flagSets(maxSize int) []string {
	fl := "-0+ #"
	out := []string{""}
	var rec func(start int, cur string)
	var bySize [][]string = make([][]string, maxSize+1)
	rec = func(start int, cur string) {
		if len(cur) > 0 {
			bySize[len(cur)] = append(bySize[len(cur)], cur)
		}
		if len(cur) == maxSize {
			return
		}
		for i := start; i < len(fl); i++ {
			rec(i+1, cur+string(fl[i]))
		}
	}
	rec(0, "")
	for s := 1; s <= maxSize; s++ {
		out = append(out, bySize[s]...)
	}
	return out
}

type fmtCase struct {
	f           string
	flags, verb string
	size        int
}

func fmtGrid(quick bool) []fmtCase {
	maxFlags := 2
	widths := []string{"", "1", "5", "8"}
	precs := []string{"", ".0", ".3"}
	if !quick {
		maxFlags = 3
		widths = []string{"", "1", "5", "8", "12"}
		precs = []string{"", ".0", ".3", ".10"}
	}
	var out []fmtCase
	for _, fl := range flagSets(maxFlags) {
		for _, wd := range widths {
			for _, pr := range precs {
				for _, v := range fmtVerbs {
					sz := len(fl)
					if wd != "" {
						sz++
					}
					if pr != "" {
						sz++
					}
					sz += len(v) - 1
					out = append(out, fmtCase{f: "%" + fl + wd + pr + v, flags: fl, verb: v, size: sz})
				}
			}
		}
	}
	return out
}

func isFloatVerb(v string) bool { return strings.ContainsAny(v[len(v)-1:], "eEfgG") }
func isIntVerb(v string) bool   { return strings.ContainsAny(v[len(v)-1:], "dxXob") }

func fmtWorker(w *vf.Worker) {
	trap()
	grid := fmtGrid(w.Quick())
	var vals [][]string
	for _, v := range fmtInts {
		vals = append(vals, []string{"i", v})
	}
	for _, v := range fmtFloats {
		vals = append(vals, []string{"f", v})
	}
	vals = append(vals, []string{"s", "abc"}, []string{"v", ""}, []string{"b", "true"})
	nI, nF := len(fmtInts), len(fmtFloats)

	var reqs []any
	var mine []int
	for i, c := range grid {
		if !w.Mine(uint64(i + 1)) {
			continue
		}
		mine = append(mine, i)
		reqs = append(reqs, map[string]any{"k": "fmt", "fmt": c.f, "vals": vals})
	}
	// one extra case: hexfmt and the documented string formats of format-values
	extraIdx := uint64(len(grid) + 1)
	doExtra := w.Mine(extraIdx)
	strSet := []string{"abc", "", "é日", "a b", "B"}
	strFormats := []string{"%s", "_%s", "X%sX", "[%s]", "%5s", "%-5s", "%.2s", "%5.1s", "%-3sX", "%08s"}
	if doExtra {
		reqs = append(reqs, map[string]any{"k": "fmt", "fmt": "%f", "vals": vals})
		reqs = append(reqs, map[string]any{"k": "hexfmt", "vals": fmtInts})
		var hs []string
		for _, s := range strSet {
			hs = append(hs, hx(s))
		}
		for _, f := range strFormats {
			reqs = append(reqs, map[string]any{"k": "fmtstr", "fmt": f, "ss": hs})
		}
	}
	ans, err := pyBatch(reqs)
	if err != nil {
		w.Broken("%v", err)
		return
	}
	mv := func(kind, text string) *mlrval.Mlrval {
		switch kind {
		case "b":
			return mlrval.FromBool(text == "true")
		case "v":
			return mlrval.VOID
		}
		return mlrval.FromInferredType(text)
	}
	viol := func(group string, c fmtCase, key, what string, replay map[string]any) {
		w.Violation(fmt.Sprintf("%s:%02d:%s", group, c.size, key), what, replay)
	}
	for k, i := range mine {
		c := grid[i]
		w.Begin(uint64(i + 1))
		w.Label(func() string { return "format " + c.f })
		var wants []string
		if !mustUnmarshal(w, ans[k], &wants) {
			return
		}
		w.Count("symbol:fmt:verb:"+c.verb, 1)
		for _, ch := range c.flags {
			w.Count("symbol:fmt:flag:"+string(ch), 1)
		}
		fm := sval(c.f)
		group := func(fn string) string { return fmt.Sprintf("printf[%s %%%s]", fn, c.verb) }
		for vi, v := range vals {
			want := wants[vi]
			in := mv(v[0], v[1])
			got, pn := call(func() *mlrval.Mlrval { return bifs.BIF_fmtnum(in, fm) })
			got2, pn2 := call(func() *mlrval.Mlrval { return bifs.BIF_fmtifnum(mv(v[0], v[1]), fm) })
			w.Eval(2)
			w.Count("calls:fmtnum", 1)
			w.Count("calls:fmtifnum", 1)
			key := fmt.Sprintf("fmtnum(%s,%q)", v[1], c.f)
			rp := map[string]any{"format": c.f, "value": v[1], "kind": v[0]}
			if pn != "" || pn2 != "" {
				viol("crash[fmtnum]", c, key, key+": "+pn+pn2, rp)
				continue
			}
			switch {
			case want == "u":
				w.Count("unconstrained:fmtnum", 1)
				w.Count("unconstrained:fmtifnum", 1)
			case want == "E":
				w.Nontrivial(2)
				w.Count("asserted:fmtnum", 1)
				w.Count("asserted:fmtifnum", 1)
				if !got.IsError() {
					viol("printf[fmtnum non-numeric]", c, key, fmt.Sprintf("%s = %s, expected an error (fmtifnum help: 'returns the first argument as-is if the output would be an error')", key, show(render(got))), rp)
				}
				if got2.String() != v[1] {
					viol("printf[fmtifnum non-numeric]", c, "fmtifnum"+key[6:], fmt.Sprintf("fmtifnum(%q,%q) = %s, expected the input", v[1], c.f, show(render(got2))), rp)
				}
			case want == "N":
				w.Nontrivial(1)
				w.Count("asserted:fmtnum", 1)
				if got.IsError() {
					viol("printf[fmtnum bool]", c, key, fmt.Sprintf("%s is an error; the help says fmtnum converts int/float/bool", key), rp)
				}
			default:
				w.Nontrivial(2)
				w.Count("asserted:fmtnum", 1)
				w.Count("asserted:fmtifnum", 1)
				g := "s:" + hx(got.String())
				if got.IsError() {
					g = "e"
				}
				if ok, _ := matchWant(g, want); !ok {
					rp["got"], rp["expected"] = show(g), show(want)
					viol(group("fmtnum"), c, key, fmt.Sprintf("%s = %s; C printf gives %s", key, show(g), show(want)), rp)
				}
				g2 := "s:" + hx(got2.String())
				if ok, _ := matchWant(g2, want); !ok {
					viol(group("fmtifnum"), c, "fmtifnum"+key[6:], fmt.Sprintf("fmtifnum(%s,%q) = %s; C printf gives %s", v[1], c.f, show(g2), show(want)), rp)
				}
			}
		}
		// ---- the same format through the CLI
		rec := ""
		for vi, v := range vals[:nI+nF] {
			rec += fmt.Sprintf("n%d=%s;", vi, v[1])
		}
		rec += "s=abc\n"
		parse := func(out string) map[string]string {
			m := map[string]string{}
			for _, kv := range strings.Split(strings.TrimSuffix(out, "\n"), ";") {
				if j := strings.IndexByte(kv, '='); j >= 0 {
					m[kv[:j]] = kv[j+1:]
				}
			}
			return m
		}
		cli := func(fn string, args []string, expect func(vi int, kind string) (string, bool)) {
			full := append([]string{"--ifs", ";", "--ofs", ";"}, args...)
			r := vf.RunMlr(full, vf.MlrOpts{Stdin: &rec})
			w.Eval(1)
			w.Count("calls:"+fn, 1)
			key := fmt.Sprintf("%s %q", fn, c.f)
			if !r.OK() {
				viol("cli-run["+fn+"]", c, key, fmt.Sprintf("mlr %s: %s", strings.Join(args, " "), r.String()), map[string]any{"args": args, "input": rec})
				return
			}
			m := parse(r.Stdout)
			for vi, v := range vals[:nI+nF] {
				want, asserted := expect(vi, v[0])
				if !asserted || want == "u" || want == "E" || want == "N" {
					w.Count("unconstrained:"+fn, 1)
					continue
				}
				w.Eval(1)
				w.Nontrivial(1)
				w.Count("asserted:"+fn, 1)
				g := "s:" + hx(m[fmt.Sprintf("n%d", vi)])
				if ok, _ := matchWant(g, want); !ok {
					viol(fmt.Sprintf("printf[%s %%%s]", fn, c.verb), c, fmt.Sprintf("%s on %s", key, v[1]),
						fmt.Sprintf("mlr %s renders %s as %s; C printf gives %s", strings.Join(args, " "), v[1], show(g), show(want)),
						map[string]any{"args": args, "input": rec, "field": fmt.Sprintf("n%d", vi), "got": show(g), "expected": show(want)})
				}
			}
			if m["s"] != "abc" {
				viol("printf["+fn+" string-field]", c, key, fmt.Sprintf("mlr %s changed the string field abc to %q", strings.Join(args, " "), m["s"]), map[string]any{"args": args})
			}
		}
		same := func(vi int) string { return "s:" + hx(vals[vi][1]) }
		switch {
		case isFloatVerb(c.verb) && !strings.HasPrefix(c.verb, "ll"):
			cli("--ofmt", []string{"--ofmt", c.f, "cat"}, func(vi int, kind string) (string, bool) {
				if kind == "f" {
					return wants[vi], true
				}
				return same(vi), true // ints are not touched by --ofmt
			})
			cli("format-values -f", []string{"format-values", "-f", c.f}, func(vi int, kind string) (string, bool) {
				if kind == "f" {
					return wants[vi], true
				}
				return same(vi), true // default integer format %d
			})
			cli("format-values -n -f", []string{"format-values", "-n", "-f", c.f}, func(vi int, kind string) (string, bool) {
				return wants[vi], true // ints coerced to float, then the float format
			})
		case isIntVerb(c.verb):
			cli("format-values -i", []string{"format-values", "-i", c.f}, func(vi int, kind string) (string, bool) {
				if kind == "i" {
					return wants[vi], true
				}
				return "", false // default float format on the float fields: asserted in the %f rows
			})
		}
	}
	if doExtra {
		w.Begin(extraIdx)
		base := len(mine)
		var hw, dw []string
		if !mustUnmarshal(w, ans[base], &dw) {
			return
		}
		base++
		if !mustUnmarshal(w, ans[base], &hw) {
			return
		}
		ck := &checker{w: w, family: "fmt"}
		// format-values without options: "%d" for ints, "%f" for floats, "%s" for strings
		{
			rec := ""
			for vi, v := range vals[:nI+nF] {
				rec += fmt.Sprintf("n%d=%s;", vi, v[1])
			}
			rec += "s=abc\n"
			r := vf.RunMlr([]string{"--ifs", ";", "--ofs", ";", "format-values"}, vf.MlrOpts{Stdin: &rec})
			fields := map[string]string{}
			for _, kv := range strings.Split(strings.TrimSuffix(r.Stdout, "\n"), ";") {
				if j := strings.IndexByte(kv, '='); j >= 0 {
					fields[kv[:j]] = kv[j+1:]
				}
			}
			for vi, v := range vals[:nI+nF] {
				want := "s:" + hx(v[1])
				if v[0] == "f" {
					want = dw[vi]
				}
				ck.cmpRendered("printf[format-values defaults]", len(v[1]), "format-values on "+v[1], "format-values", "s:"+hx(fields[fmt.Sprintf("n%d", vi)]), want, map[string]any{"value": v[1]})
			}
			ck.cmpRendered("printf[format-values defaults]", 3, "format-values on abc", "format-values", "s:"+hx(fields["s"]), "s:"+hx("abc"), nil)
		}
		for vi, v := range fmtInts {
			got, pn := call(func() *mlrval.Mlrval { return bifs.BIF_hexfmt(mlrval.FromInferredType(v)) })
			ck.cmp("hexfmt", len(v), fmt.Sprintf("hexfmt(%s)", v), "hexfmt", got, pn, hw[vi], map[string]any{"value": v})
		}
		// format-values -s on string fields
		for fi, f := range strFormats {
			var sw []string
			if !mustUnmarshal(w, ans[base+1+fi], &sw) {
				return
			}
			for si, s := range strSet {
				in := "x=" + s + "\n"
				r := vf.RunMlr([]string{"--ifs", ";", "--ofs", ";", "format-values", "-s", f}, vf.MlrOpts{Stdin: &in})
				got := "s:" + hx(strings.TrimPrefix(strings.TrimSuffix(r.Stdout, "\n"), "x="))
				if !r.OK() {
					got = "raw:" + hx(r.String())
				}
				ck.cmpRendered("printf[format-values -s]", len(f)+len(s), fmt.Sprintf("format-values -s %q on %s", f, q(s)), "format-values -s", got, sw[si], map[string]any{"format": f, "value": s})
			}
		}
	}
	if len(mine) > 0 {
		c := grid[mine[len(mine)-1]]
		w.Sample(map[string]any{"family": "fmt", "format": c.f, "values": len(vals), "through": "fmtnum, fmtifnum, --ofmt, format-values -i/-f/-n"})
	}
}
