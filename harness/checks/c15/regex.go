package c15

// Family "regex": every regex of <= N AST nodes over the shared safe subset x
// every subject of length <= L over {a,b,c} x replacement strings, through
// sub, gsub, regextract, regextract_or_else, strmatch, strmatchx and the =~
// BIF with its captures; the same again in the "..."i form on subjects with
// upper-case letters, interleaved with the case-sensitive form (compile cache).

import (
	"fmt"
	"strings"

	"github.com/johnkerl/miller/v6/pkg/bifs"
	"github.com/johnkerl/miller/v6/pkg/mlrval"

	"verif/harness/vf"
)

type rx struct {
	s        string
	nodes    int
	nullable bool // can match the empty string
	unsafe   bool // * or + over a group that can match the empty string
	syms     uint // bit set of grammar symbols used
}

var rxAtoms = []rx{
	{s: "a", nodes: 1, syms: 1 << 0}, {s: "b", nodes: 1, syms: 1 << 1}, {s: ".", nodes: 1, syms: 1 << 2}, {s: "[ab]", nodes: 1, syms: 1 << 3},
	{s: "^", nodes: 1, nullable: true, syms: 1 << 4}, {s: "$", nodes: 1, nullable: true, syms: 1 << 5},
}
var rxSymNames = []string{"a", "b", ".", "[ab]", "^", "$", "*", "+", "?", "|", "()"}

type rxGen struct {
	base, rep, seq, alt map[int][]rx
}

func newRxGen() *rxGen {
	return &rxGen{base: map[int][]rx{}, rep: map[int][]rx{}, seq: map[int][]rx{}, alt: map[int][]rx{}}
}

func (g *rxGen) Base(n int) []rx {
	if v, ok := g.base[n]; ok {
		return v
	}
	var out []rx
	if n == 1 {
		out = append(out, rxAtoms...)
	}
	if n >= 2 {
		for _, a := range g.Alt(n - 1) {
			out = append(out, rx{s: "(" + a.s + ")", nodes: n, nullable: a.nullable, unsafe: a.unsafe, syms: a.syms | 1<<10})
		}
	}
	g.base[n] = out
	return out
}

func (g *rxGen) Rep(n int) []rx {
	if v, ok := g.rep[n]; ok {
		return v
	}
	out := append([]rx{}, g.Base(n)...)
	if n >= 2 {
		for _, b := range g.Base(n - 1) {
			if b.s == "^" || b.s == "$" {
				continue // no quantified anchors
			}
			isGroup := strings.HasPrefix(b.s, "(")
			out = append(out,
				rx{s: b.s + "*", nodes: n, nullable: true, unsafe: b.unsafe || (isGroup && b.nullable), syms: b.syms | 1<<6},
				rx{s: b.s + "+", nodes: n, nullable: b.nullable, unsafe: b.unsafe || (isGroup && b.nullable), syms: b.syms | 1<<7},
				rx{s: b.s + "?", nodes: n, nullable: true, unsafe: b.unsafe, syms: b.syms | 1<<8})
		}
	}
	g.rep[n] = out
	return out
}

func (g *rxGen) Seq(n int) []rx {
	if v, ok := g.seq[n]; ok {
		return v
	}
	out := append([]rx{}, g.Rep(n)...)
	for k := 1; k <= n-2; k++ {
		for _, r := range g.Rep(k) {
			for _, s := range g.Seq(n - 1 - k) {
				out = append(out, rx{s: r.s + s.s, nodes: n, nullable: r.nullable && s.nullable, unsafe: r.unsafe || s.unsafe, syms: r.syms | s.syms})
			}
		}
	}
	g.seq[n] = out
	return out
}

func (g *rxGen) Alt(n int) []rx {
	if v, ok := g.alt[n]; ok {
		return v
	}
	out := append([]rx{}, g.Seq(n)...)
	for k := 1; k <= n-2; k++ {
		for _, s := range g.Seq(k) {
			for _, a := range g.Alt(n - 1 - k) {
				out = append(out, rx{s: s.s + "|" + a.s, nodes: n, nullable: s.nullable || a.nullable, unsafe: s.unsafe || a.unsafe, syms: s.syms | a.syms | 1<<9})
			}
		}
	}
	g.alt[n] = out
	return out
}

// allRegexes: every distinct pattern with at most maxNodes AST nodes, smallest first.
func allRegexes(maxNodes int) []rx {
	g := newRxGen()
	seen := map[string]bool{}
	var out []rx
	for n := 1; n <= maxNodes; n++ {
		for _, p := range g.Alt(n) {
			if seen[p.s] {
				continue
			}
			seen[p.s] = true
			out = append(out, p)
		}
	}
	return out
}

func wordsOver(alpha string, maxLen int) []string {
	out := []string{""}
	prev := []string{""}
	for l := 1; l <= maxLen; l++ {
		var cur []string
		for _, p := range prev {
			for _, c := range alpha {
				cur = append(cur, p+string(c))
			}
		}
		out = append(out, cur...)
		prev = cur
	}
	return out
}

var replacements = []string{"x", `\1`, `\0`, `\2x`, "&", `[\1\0]`, "", "$1"}

const orElse = "ZZ"

type rxRow struct {
	Strmatch  string   `json:"strmatch"`
	Strmatchx string   `json:"strmatchx"`
	Regextr   string   `json:"regextract"`
	RegextrOE string   `json:"regextract_or_else"`
	Captures  []string `json:"captures"`
	Sub       []string `json:"sub"`
	Gsub      []string `json:"gsub"`
}

func regexBounds(quick bool) (nodesCS, lenCS, nodesCI, lenCI, nodesU8, lenU8 int) {
	if quick {
		return 4, 4, 3, 3, 3, 3
	}
	return 6, 4, 4, 4, 4, 3
}

func regexWorker(w *vf.Worker) {
	trap()
	nodesCS, lenCS, nodesCI, lenCI, nodesU8, lenU8 := regexBounds(w.Quick())
	patsCS := allRegexes(nodesCS)
	patsCI := allRegexes(nodesCI)
	patsU8 := allRegexes(nodesU8)
	subjCS := wordsOver("abc", lenCS)
	subjCI := wordsOver("aAbc", lenCI)
	subjU8 := wordsOver("a\u00e9\u65e5", lenU8) // '.' must consume one character, offsets must count characters

	type job struct {
		p  rx
		ci bool
		u8 bool
	}
	var jobs []job
	for _, p := range patsCS {
		jobs = append(jobs, job{p, false, false})
	}
	for _, p := range patsCI {
		jobs = append(jobs, job{p, true, false})
	}
	for _, p := range patsU8 {
		jobs = append(jobs, job{p, false, true})
	}
	var reqs []any
	var mine []int
	ansAt := map[int]int{}   // job -> index of its answer
	ansCSAt := map[int]int{} // ci job -> index of the case-sensitive answer on the same subjects
	for i, j := range jobs {
		if !w.Mine(uint64(i + 1)) {
			continue
		}
		mine = append(mine, i)
		subj := subjCS
		if j.ci {
			subj = subjCI
		}
		if j.u8 {
			subj = subjU8
		}
		ansAt[i] = len(reqs)
		reqs = append(reqs, map[string]any{"k": "regex", "p": j.p.s, "ci": j.ci, "subj": subj, "repl": replacements, "orelse": orElse})
		if j.ci {
			ansCSAt[i] = len(reqs)
			reqs = append(reqs, map[string]any{"k": "regex", "p": j.p.s, "ci": false, "subj": subj, "repl": replacements, "orelse": orElse})
		}
	}
	ans, err := pyBatch(reqs)
	if err != nil {
		w.Broken("%v", err)
		return
	}
	ck := &checker{w: w, family: "regex"}
	for _, i := range mine {
		j := jobs[i]
		w.Begin(uint64(i + 1))
		w.Label(func() string { return fmt.Sprintf("regex %q ci=%v", j.p.s, j.ci) })
		var rows, rowsCS []rxRow
		if !mustUnmarshal(w, ans[ansAt[i]], &rows) {
			return
		}
		if j.ci && !mustUnmarshal(w, ans[ansCSAt[i]], &rowsCS) {
			return
		}
		subj := subjCS
		if j.ci {
			subj = subjCI
		}
		if j.u8 {
			subj = subjU8
		}
		for b := 0; b < len(rxSymNames); b++ {
			if j.p.syms&(1<<uint(b)) != 0 {
				w.Count("symbol:regex:"+rxSymNames[b], 1)
			}
		}
		if j.p.unsafe {
			w.Count("regex_patterns_outside_safe_subset(no-crash only)", 1)
		} else {
			w.Count("regex_patterns_asserted", 1)
		}
		// the regex argument as the DSL hands it to the BIF
		rarg := j.p.s
		tag := "cs"
		if j.ci {
			rarg = `"` + j.p.s + `"i`
			tag = "ci"
		}
		if j.u8 {
			tag = "utf8"
		}
		for si, s := range subj {
			row := rows[si]
			if j.p.unsafe {
				// outside the shared subset: run everything, require a value
				for _, f := range []func() *mlrval.Mlrval{
					func() *mlrval.Mlrval { return bifs.BIF_sub(sval(s), sval(rarg), sval(`\1`)) },
					func() *mlrval.Mlrval { return bifs.BIF_gsub(sval(s), sval(rarg), sval(`\1`)) },
					func() *mlrval.Mlrval { return bifs.BIF_strmatchx(sval(s), sval(rarg)) },
				} {
					_, pn := call(f)
					w.Eval(1)
					if pn != "" {
						w.Violation(fmt.Sprintf("crash[regex]:%02d:%s:%s", j.p.nodes+len(s), rarg, q(s)), fmt.Sprintf("regex %s on %s: %s", rarg, q(s), pn), nil)
					}
				}
				continue
			}
			size := j.p.nodes + len([]rune(s))
			rp := func(extra map[string]any) map[string]any {
				m := map[string]any{"regex": rarg, "subject": s}
				for k, v := range extra {
					m[k] = v
				}
				return m
			}
			if j.ci {
				// interleave: the same pattern text compiled case-sensitively right before the "..."i form
				_, _ = call(func() *mlrval.Mlrval { return bifs.BIF_strmatch(sval(s), sval(j.p.s)) })
			}
			got, pn := call(func() *mlrval.Mlrval { return bifs.BIF_strmatch(sval(s), sval(rarg)) })
			ck.cmp("regex["+tag+" strmatch]", size, fmt.Sprintf("strmatch(%s,%s)", q(s), rarg), "strmatch", got, pn, row.Strmatch, rp(nil))
			got, pn = call(func() *mlrval.Mlrval { return bifs.BIF_strmatchx(sval(s), sval(rarg)) })
			ck.cmp("regex["+tag+" strmatchx]", size, fmt.Sprintf("strmatchx(%s,%s)", q(s), rarg), "strmatchx", got, pn, row.Strmatchx, rp(nil))
			got, pn = call(func() *mlrval.Mlrval { return bifs.BIF_regextract(sval(s), sval(rarg)) })
			ck.cmp("regex["+tag+" regextract]", size, fmt.Sprintf("regextract(%s,%s)", q(s), rarg), "regextract", got, pn, row.Regextr, rp(nil))
			got, pn = call(func() *mlrval.Mlrval { return bifs.BIF_regextract_or_else(sval(s), sval(rarg), sval(orElse)) })
			ck.cmp("regex["+tag+" regextract_or_else]", size, fmt.Sprintf("regextract_or_else(%s,%s,%s)", q(s), rarg, q(orElse)), "regextract_or_else", got, pn, row.RegextrOE, rp(nil))
			for ri, r := range replacements {
				got, pn = call(func() *mlrval.Mlrval { return bifs.BIF_sub(sval(s), sval(rarg), sval(r)) })
				ck.cmp("regex["+tag+" sub]", size, fmt.Sprintf("sub(%s,%s,%s)", q(s), rarg, q(r)), "sub", got, pn, row.Sub[ri], rp(map[string]any{"replacement": r}))
				got, pn = call(func() *mlrval.Mlrval { return bifs.BIF_gsub(sval(s), sval(rarg), sval(r)) })
				ck.cmp("regex["+tag+" gsub]", size, fmt.Sprintf("gsub(%s,%s,%s)", q(s), rarg, q(r)), "gsub", got, pn, row.Gsub[ri], rp(map[string]any{"replacement": r}))
			}
			// =~ and !=~ with the captures they hand to the DSL state
			var caps, ncaps []string
			var neg *mlrval.Mlrval
			got, pn = call(func() *mlrval.Mlrval {
				r, c := bifs.BIF_string_matches_regexp(sval(s), sval(rarg))
				caps = c
				return r
			})
			ck.cmp("regex["+tag+" =~]", size, fmt.Sprintf("%s =~ %s", q(s), rarg), "=~", got, pn, row.Strmatch, rp(nil))
			_, pn2 := call(func() *mlrval.Mlrval {
				r, c := bifs.BIF_string_does_not_match_regexp(sval(s), sval(rarg))
				neg, ncaps = r, c
				return r
			})
			w.Eval(1)
			w.Nontrivial(1)
			w.Count("calls:!=~", 1)
			w.Count("asserted:!=~", 1)
			if pn == "" && pn2 == "" {
				gb, ok1 := got.GetBoolValue()
				nb, ok2 := neg.GetBoolValue()
				if !ok1 || !ok2 || gb == nb {
					w.Violation(fmt.Sprintf("regex[%s !=~]:%02d:%s:%s", tag, size, rarg, q(s)), fmt.Sprintf("%s !=~ %s = %s but =~ gives %s", q(s), rarg, show(render(neg)), show(render(got))), rp(nil))
				}
				if strings.Join(caps, "\x00") != strings.Join(ncaps, "\x00") {
					w.Violation(fmt.Sprintf("regex[%s !=~captures]:%02d:%s:%s", tag, size, rarg, q(s)), fmt.Sprintf("%s !=~ %s sets captures %q, =~ sets %q", q(s), rarg, ncaps, caps), rp(nil))
				}
			}
			w.Eval(1)
			w.Nontrivial(1)
			w.Count("calls:=~captures", 1)
			w.Count("asserted:=~captures", 1)
			if pn == "" {
				want := row.Captures
				if want == nil {
					// "After an unsuccessful match is done, "\1" etc. in a string evaluate to the empty string"
					want = make([]string, 10)
				}
				bad := len(caps) != 10
				for ci := 0; !bad && ci < 10; ci++ {
					if caps[ci] != want[ci] {
						bad = true
					}
				}
				if bad {
					w.Violation(fmt.Sprintf("regex[%s captures]:%02d:%s:%s", tag, size, rarg, q(s)), fmt.Sprintf("%s =~ %s sets \\0..\\9 to %q; reference: %q", q(s), rarg, caps, want), rp(nil))
				}
			}
			if j.ci {
				// and case-sensitively again right after: the flag must not stick to the pattern text
				rc := rowsCS[si]
				got, pn = call(func() *mlrval.Mlrval { return bifs.BIF_strmatch(sval(s), sval(j.p.s)) })
				ck.cmp("regex[cs-after-ci strmatch]", size, fmt.Sprintf("strmatch(%s,%s) after %s", q(s), j.p.s, rarg), "strmatch", got, pn, rc.Strmatch, rp(nil))
				got, pn = call(func() *mlrval.Mlrval { return bifs.BIF_gsub(sval(s), sval(j.p.s), sval("x")) })
				ck.cmp("regex[cs-after-ci gsub]", size, fmt.Sprintf("gsub(%s,%s,\"x\") after %s", q(s), j.p.s, rarg), "gsub", got, pn, rc.Gsub[0], rp(nil))
				w.AddSet("ci-vs-cs-outcomes", row.Strmatch+"/"+rc.Strmatch)
			}
		}
	}
	if len(mine) > 0 {
		j := jobs[mine[len(mine)-1]]
		w.Sample(map[string]any{"family": "regex", "pattern": j.p.s, "case_insensitive": j.ci, "subjects": len(subjCS), "replacements": replacements})
	}
}
