package c15

// Family "inv": ssub/gssub vs str.replace, splitax/joinv, base64/hex decoders
// on arbitrary text, format/unformat, json_parse/json_stringify against an
// independent JSON parser.

import (
	"encoding/hex"
	"fmt"
	"strings"

	"github.com/johnkerl/miller/v6/pkg/bifs"
	"github.com/johnkerl/miller/v6/pkg/mlrval"

	"verif/harness/vf"
)

func invWorker(w *vf.Worker) {
	trap()
	ck := &checker{w: w, family: "inv"}
	var idx uint64
	next := func() bool { idx++; return w.Mine(idx) }

	// ---------------- ssub / gssub on strings full of regex metacharacters
	metaAlpha := []string{"a", ".", "*", `\`, "["}
	subjects, _ := allStrings(metaAlpha, 3)
	olds, _ := allStrings(metaAlpha, 2)
	news := []string{"", "X", `\1`, "&", "a.", "$0"}
	var oldsHex, newsHex []string
	for _, o := range olds {
		oldsHex = append(oldsHex, hx(o))
	}
	for _, n := range news {
		newsHex = append(newsHex, hx(n))
	}
	type pend struct {
		kind string
		s    string
		at   int
		idx  uint64
	}
	var reqs []any
	var pends []pend
	for _, s := range subjects {
		if !next() {
			continue
		}
		pends = append(pends, pend{"ssub", s, len(reqs), idx})
		reqs = append(reqs, map[string]any{"k": "ssub", "s": hx(s), "olds": oldsHex, "news": newsHex})
	}
	// ---------------- splitax / joinv
	S, syms := allStrings(strAlphabet, 3)
	seps := []string{",", ";;", "é", " ", "a", "\t"}
	var sepsHex []string
	for _, d := range seps {
		sepsHex = append(sepsHex, hx(d))
	}
	for _, s := range S {
		if !next() {
			continue
		}
		pends = append(pends, pend{"split", s, len(reqs), idx})
		reqs = append(reqs, map[string]any{"k": "split", "s": hx(s), "ds": sepsHex})
	}
	// ---------------- decoders on arbitrary text
	decAlpha := []string{"Q", "g", "=", "/", "-", " ", "0", "a", "F"}
	decStrings, _ := allStrings(decAlpha, 4)
	const decBlock = 256
	for b := 0; b < len(decStrings); b += decBlock {
		if !next() {
			continue
		}
		e := b + decBlock
		if e > len(decStrings) {
			e = len(decStrings)
		}
		var hs []string
		for _, s := range decStrings[b:e] {
			hs = append(hs, hx(s))
		}
		pends = append(pends, pend{"decode", fmt.Sprint(b), len(reqs), idx})
		reqs = append(reqs, map[string]any{"k": "decode", "ss": hs})
	}
	// ---------------- format / unformat
	templates := []string{"{}:{}", "<{}>", "{}h{}m{}s", "{};{}", "{2}-{1}", "{1}{1}", "{}{2}{}", "{0}", "no placeholders", "{}:{}:{}", "{3}"}
	fargs := []string{"a", "Bc", "5", "é", "17"}
	type fcase struct {
		t    string
		args []string
	}
	var fcases []fcase
	for _, t := range templates {
		fcases = append(fcases, fcase{t, nil})
		for _, a := range fargs {
			fcases = append(fcases, fcase{t, []string{a}})
			for _, b := range fargs {
				fcases = append(fcases, fcase{t, []string{a, b}})
				fcases = append(fcases, fcase{t, []string{a, b, "z"}})
			}
		}
	}
	fmtIdx := uint64(0)
	fmtAt := -1
	if next() {
		fmtIdx, fmtAt = idx, len(reqs)
		for _, fc := range fcases {
			var ah []string
			for _, a := range fc.args {
				ah = append(ah, hx(a))
			}
			if ah == nil {
				ah = []string{}
			}
			reqs = append(reqs, map[string]any{"k": "format", "t": fc.t, "args": ah})
		}
	}
	// ---------------- json: strings of the alphabet (two spellings each)
	jsonIdx := uint64(0)
	jsonAt := -1
	jsonStrings := append(append([]string{}, S...), "\U0001F600", "a\"b\\c", "x\ny", "\x01", "</script>", " ")
	if next() {
		jsonIdx, jsonAt = idx, len(reqs)
		for _, s := range jsonStrings {
			reqs = append(reqs, map[string]any{"k": "jsonenc", "s": hx(s)})
		}
	}
	docIdx := uint64(0)
	if next() {
		docIdx = idx
	}

	ans, err := pyBatch(reqs)
	if err != nil {
		w.Broken("%v", err)
		return
	}

	for _, p := range pends {
		w.Begin(p.idx)
		switch p.kind {
		case "ssub":
			var wants [][]string
			if !mustUnmarshal(w, ans[p.at], &wants) {
				return
			}
			s := p.s
			k := 0
			for _, o := range olds {
				for _, n := range news {
					got, pn := call(func() *mlrval.Mlrval { return bifs.BIF_ssub(sval(s), sval(o), sval(n)) })
					ck.cmp("literal[ssub]", len(s)+len(o), fmt.Sprintf("ssub(%s,%s,%s)", q(s), q(o), q(n)), "ssub", got, pn, wants[k][0], map[string]any{"s": s, "old": o, "new": n})
					got, pn = call(func() *mlrval.Mlrval { return bifs.BIF_gssub(sval(s), sval(o), sval(n)) })
					ck.cmp("literal[gssub]", len(s)+len(o), fmt.Sprintf("gssub(%s,%s,%s)", q(s), q(o), q(n)), "gssub", got, pn, wants[k][1], map[string]any{"s": s, "old": o, "new": n})
					k++
				}
			}
		case "split":
			var wants []string
			if !mustUnmarshal(w, ans[p.at], &wants) {
				return
			}
			s := p.s
			for di, d := range seps {
				var arr *mlrval.Mlrval
				got, pn := call(func() *mlrval.Mlrval { arr = bifs.BIF_splitax(sval(s), sval(d)); return arr })
				ck.cmp("split[splitax]", len(s), fmt.Sprintf("splitax(%s,%s)", q(s), q(d)), "splitax", got, pn, wants[di], map[string]any{"s": s, "sep": d})
				if pn != "" {
					continue
				}
				back, pn2 := call(func() *mlrval.Mlrval { return bifs.BIF_joinv(arr, sval(d)) })
				w.Eval(1)
				w.Nontrivial(1)
				w.Count("calls:law:join-split", 1)
				w.Count("asserted:law:join-split", 1)
				if pn2 != "" || back.String() != s {
					g := pn2
					if pn2 == "" {
						g = show(render(back))
					}
					w.Violation(fmt.Sprintf("inverse[joinv-splitax]:%02d:%s:%s", len(s), q(s), q(d)), fmt.Sprintf("joinv(splitax(%s,%s),%s) = %s, expected the input", q(s), q(d), q(d), g), map[string]any{"s": s, "sep": d})
				}
			}
		case "decode":
			var wants [][]string
			if !mustUnmarshal(w, ans[p.at], &wants) {
				return
			}
			var b int
			fmt.Sscan(p.s, &b)
			for k := range wants {
				s := decStrings[b+k]
				got, pn := call(func() *mlrval.Mlrval { return bifs.BIF_base64_decode(sval(s)) })
				ck.cmp("decode[base64]", len(s), fmt.Sprintf("base64_decode(%s)", q(s)), "base64_decode", got, pn, wants[k][0], map[string]any{"s": s})
				got, pn = call(func() *mlrval.Mlrval { return bifs.BIF_hex_decode(sval(s)) })
				ck.cmp("decode[hex]", len(s), fmt.Sprintf("hex_decode(%s)", q(s)), "hex_decode", got, pn, wants[k][1], map[string]any{"s": s})
			}
		}
	}
	_ = syms

	if fmtAt >= 0 {
		w.Begin(fmtIdx)
		for k, fc := range fcases {
			var want string
			if !mustUnmarshal(w, ans[fmtAt+k], &want) {
				return
			}
			args := []*mlrval.Mlrval{sval(fc.t)}
			for _, a := range fc.args {
				args = append(args, mlrval.FromInferredType(a))
			}
			var res *mlrval.Mlrval
			got, pn := call(func() *mlrval.Mlrval { res = bifs.BIF_format(args); return res })
			key := fmt.Sprintf("format(%s)", q(fc.t)+","+strings.Join(fc.args, ","))
			ck.cmp("format", len(fc.t)+len(fc.args), key, "format", got, pn, want, map[string]any{"template": fc.t, "args": fc.args})
			// inverse law: only sequential placeholders, separated by literal text, arguments free of that text
			if pn != "" || !unformatInvertible(fc.t, fc.args) {
				continue
			}
			back, pn2 := call(func() *mlrval.Mlrval { return bifs.BIF_unformatx(sval(fc.t), res) })
			wantArr := "A["
			for i, a := range fc.args {
				if i > 0 {
					wantArr += ","
				}
				wantArr += "s:" + hx(a)
			}
			wantArr += "]"
			ck.cmp("inverse[unformatx-format]", len(fc.t)+len(fc.args), "unformatx("+q(fc.t)+","+key+")", "unformatx", back, pn2, wantArr, map[string]any{"template": fc.t, "args": fc.args})
			back, pn2 = call(func() *mlrval.Mlrval { return bifs.BIF_unformat(sval(fc.t), res) })
			wantArr = "A["
			for i, a := range fc.args {
				if i > 0 {
					wantArr += ","
				}
				wantArr += render(mlrval.FromInferredType(a)) // "with type-inference"
			}
			wantArr += "]"
			ck.cmp("inverse[unformat-format]", len(fc.t)+len(fc.args), "unformat("+q(fc.t)+","+key+")", "unformat", back, pn2, wantArr, map[string]any{"template": fc.t, "args": fc.args})
		}
	}

	// ---------------- json
	var jreqs []any
	type jpend struct {
		what, orig string
	}
	var jp []jpend
	addJ := func(what, orig, got string) {
		jp = append(jp, jpend{what, orig})
		jreqs = append(jreqs, map[string]any{"k": "json", "orig": hx(orig), "got": hx(got)})
	}
	if jsonAt >= 0 {
		w.Begin(jsonIdx)
		for k, s := range jsonStrings {
			var sp []string
			if !mustUnmarshal(w, ans[jsonAt+k], &sp) {
				return
			}
			if sp == nil {
				// malformed UTF-8: json_stringify must still return something
				_, pn := call(func() *mlrval.Mlrval { return bifs.BIF_json_stringify_unary(sval(s)) })
				w.Eval(1)
				if pn != "" {
					w.Violation(fmt.Sprintf("crash[json_stringify]:%02d:%s", len(s), q(s)), "json_stringify("+q(s)+"): "+pn, nil)
				}
				continue
			}
			for vi, th := range sp {
				tb, _ := hex.DecodeString(th)
				T := string(tb)
				var v *mlrval.Mlrval
				got, pn := call(func() *mlrval.Mlrval { v = bifs.BIF_json_parse(sval(T)); return v })
				variant := []string{"ascii-escaped", "raw-utf8"}[vi]
				ck.cmp("json[parse-string "+variant+"]", len(s), fmt.Sprintf("json_parse(%s)", q(T)), "json_parse", got, pn, "s:"+hx(s), map[string]any{"json": T, "string": s})
			}
			if s == "" {
				continue // json_stringify of the empty value: see the document cases
			}
			out, pn := call(func() *mlrval.Mlrval { return bifs.BIF_json_stringify_unary(sval(s)) })
			w.Count("calls:json_stringify", 1)
			if pn != "" {
				w.Violation(fmt.Sprintf("crash[json_stringify]:%02d:%s", len(s), q(s)), "json_stringify("+q(s)+"): "+pn, nil)
				continue
			}
			tb, _ := hex.DecodeString(sp[1])
			addJ("json_stringify("+q(s)+")", string(tb), out.String())
		}
	}
	if docIdx > 0 {
		w.Begin(docIdx)
		for _, T := range jsonDocs() {
			var v *mlrval.Mlrval
			_, pn := call(func() *mlrval.Mlrval { v = bifs.BIF_json_parse(sval(T)); return v })
			w.Count("calls:json_parse", 1)
			if pn != "" || v.IsError() {
				w.Eval(1)
				w.Violation(fmt.Sprintf("json[parse-doc]:%02d:%s", len(T), T), fmt.Sprintf("json_parse(%s) fails: %s%s", q(T), pn, errText(v)), map[string]any{"json": T})
				continue
			}
			for _, multi := range []bool{false, true} {
				out, pn := call(func() *mlrval.Mlrval {
					if multi {
						return bifs.BIF_json_stringify_binary(v, mlrval.TRUE)
					}
					return bifs.BIF_json_stringify_unary(v)
				})
				w.Count("calls:json_stringify", 1)
				if pn != "" || out.IsError() {
					w.Eval(1)
					w.Violation(fmt.Sprintf("json[stringify-doc]:%02d:%s", len(T), T), fmt.Sprintf("json_stringify(json_parse(%s)) fails: %s%s", q(T), pn, errText(out)), map[string]any{"json": T})
					continue
				}
				addJ(fmt.Sprintf("json_stringify(json_parse(%s)%s)", q(T), map[bool]string{false: "", true: ",true"}[multi]), T, out.String())
			}
		}
	}
	if len(jreqs) > 0 {
		jans, err := pyBatch(jreqs)
		if err != nil {
			w.Broken("%v", err)
			return
		}
		for k, p := range jp {
			var verdict string
			if !mustUnmarshal(w, jans[k], &verdict) {
				return
			}
			w.Eval(1)
			if verdict == "u" {
				w.Count("unconstrained:json_stringify", 1)
				continue
			}
			w.Nontrivial(1)
			w.Count("asserted:json_stringify", 1)
			if verdict != "ok" {
				w.Violation(fmt.Sprintf("json[roundtrip]:%02d:%s", len(p.orig), p.what), fmt.Sprintf("%s: %s (original %s)", p.what, verdict[4:], q(p.orig)), map[string]any{"original": p.orig})
			}
		}
	}
	w.Sample(map[string]any{"family": "inv", "ssub_subjects": len(subjects), "ssub_olds": len(olds), "decoder_inputs": len(decStrings), "json_docs": len(jsonDocs()), "format_cases": len(fcases)})
}

func errText(v *mlrval.Mlrval) string {
	if v == nil {
		return ""
	}
	if isErr, err := v.GetError(); isErr && err != nil {
		return err.Error()
	}
	if v.IsError() {
		return "(error)"
	}
	return ""
}

// unformatInvertible: template made of sequential "{}" only, every pair of
// placeholders separated by literal text, as many arguments as placeholders,
// and no argument contains any character of the literal text.
func unformatInvertible(t string, args []string) bool {
	pieces := strings.Split(t, "{}")
	if len(pieces)-1 != len(args) || len(args) == 0 {
		return false
	}
	if strings.ContainsAny(strings.Join(pieces, ""), "{}") {
		return false
	}
	for i := 1; i < len(pieces)-1; i++ {
		if pieces[i] == "" {
			return false
		}
	}
	lit := strings.Join(pieces, "")
	for _, a := range args {
		if a == "" || strings.ContainsAny(a, lit) {
			return false
		}
	}
	return true
}

// jsonDocs: scalars, then every array/map of one or two elements over the
// scalars, then one more level of nesting.
func jsonDocs() []string {
	scalars := []string{`1`, `-7`, `0.5`, `-0.25`, `1e3`, `1.0`, `9223372036854775807`, `18446744073709551616`, `"abc"`, `""`, `"é日"`, `"a\"b\\c"`,
		`"é"`, `"😀"`, `"tab\there"`, `"new\nline"`, `"\u0001"`, `"\/"`, `"17"`, `"0x1F"`, `"true"`, `true`, `false`}
	keys := []string{`"a"`, `"é"`, `"a b"`, `"k\"q"`, `"1"`}
	docs := append([]string{}, scalars...)
	docs = append(docs, `[]`, `{}`)
	var level1 []string
	for _, a := range scalars {
		level1 = append(level1, `[`+a+`]`)
		for _, k := range keys {
			level1 = append(level1, `{`+k+`: `+a+`}`)
		}
	}
	for i, a := range scalars {
		b := scalars[(i+5)%len(scalars)]
		level1 = append(level1, `[`+a+`, `+b+`]`, `{"x": `+a+`, "y": `+b+`}`)
	}
	docs = append(docs, level1...)
	for i, d := range level1 {
		if i%3 != 0 {
			continue
		}
		docs = append(docs, `{"outer": `+d+`, "n": [[], {}]}`, `[`+d+`, [`+d+`]]`)
	}
	return docs
}
