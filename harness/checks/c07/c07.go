// Package c07: arithmetic is exact on 64-bit ints, overflows to float, never
// crashes. Exhaustive cross product of a boundary grid with itself for every
// operator, against a math/big reference written from the property statement
// and reference-main-arithmetic.md.
package c07

import (
	"fmt"
	"math"
	"math/big"
	"os"
	"sort"
	"strconv"
	"strings"

	"github.com/johnkerl/miller/v6/pkg/bifs"
	"github.com/johnkerl/miller/v6/pkg/mlrval"

	"verif/harness/vf"
)

func init() {
	vf.Register(&vf.CheckDef{ID: "C07", Level: "model_checking", Run: run,
		Workers: map[string]vf.WorkerFunc{"grid": gridWorker, "mod": modWorker, "bind": bindWorker}})
}

// ---------------------------------------------------------------- grids

func intGrid(quick bool) []int64 {
	set := map[int64]bool{}
	add := func(v *big.Int) {
		if v.IsInt64() {
			set[v.Int64()] = true
		}
	}
	for _, v := range []int64{0, 1, -1, 2, -2, 3, -3, 5, 7, -7, 10, 17, 63, 64, 65, -63, -64, -65, 100, 1000,
		3037000499, 3037000500, 3037000501, -3037000499, -3037000500, -3037000501,
		2097151, 2097152, 2097153, // cube root of 2^63
		math.MaxInt64, math.MinInt64, math.MaxInt64 - 1, math.MinInt64 + 1,
		math.MaxInt64 - 511, math.MaxInt64 - 512, math.MaxInt64 - 1023, math.MaxInt64 - 1024, math.MaxInt64 / 2, math.MaxInt64/2 + 1, math.MinInt64 / 2, math.MinInt64/2 - 1,
		math.MaxInt64 / 3, math.MaxInt64/3 + 1, 4611686018427387904, 6148914691236517205, 1 << 32, (1 << 32) + 1, (1 << 32) - 1, -(1 << 32), 1 << 31, (1 << 31) - 1,
		9007199254740991, 9007199254740992, 9007199254740993, -9007199254740993, 9007199254740995,
	} {
		set[v] = true
	}
	step := 1
	ds := []int64{-3, -2, -1, 0, 1, 2, 3}
	if quick {
		step = 3
		ds = []int64{-1, 0, 1}
	} else {
		// thorough: also 3*2^k, 5*2^k and 10^k ladders
		for k := 0; k <= 61; k++ {
			for _, m := range []int64{3, 5} {
				v := new(big.Int).Lsh(big.NewInt(m), uint(k))
				add(v)
				add(new(big.Int).Neg(v))
			}
		}
		t := big.NewInt(1)
		for k := 0; k <= 18; k++ {
			for _, d := range []int64{-1, 0, 1} {
				add(new(big.Int).Add(t, big.NewInt(d)))
				add(new(big.Int).Neg(new(big.Int).Add(t, big.NewInt(d))))
			}
			t = new(big.Int).Mul(t, big.NewInt(10))
		}
	}
	for k := 1; k <= 63; k += step {
		p := new(big.Int).Lsh(big.NewInt(1), uint(k))
		for _, d := range ds {
			add(new(big.Int).Add(p, big.NewInt(d)))
			add(new(big.Int).Neg(new(big.Int).Add(p, big.NewInt(d))))
		}
	}
	// always keep the top of the range dense
	for _, k := range []int{31, 32, 33, 52, 53, 54, 61, 62, 63} {
		p := new(big.Int).Lsh(big.NewInt(1), uint(k))
		for _, d := range []int64{-2, -1, 0, 1, 2} {
			add(new(big.Int).Add(p, big.NewInt(d)))
			add(new(big.Int).Neg(new(big.Int).Add(p, big.NewInt(d))))
		}
	}
	out := make([]int64, 0, len(set))
	for v := range set {
		out = append(out, v)
	}
	sort.Slice(out, func(i, j int) bool { return out[i] < out[j] })
	return out
}

func floatGrid() []float64 {
	return []float64{0, math.Copysign(0, -1), 1, -1, 0.5, -0.5, 1.5, -1.5, 2.5, -2.5, 3, 7, 0.1, 1e-300,
		9007199254740992, 9007199254740994, 9223372036854775808, -9223372036854775808,
		9223372036854774784, 1.8446744073709552e19, 1e308, -1e308, 5e-324, math.Inf(1), math.Inf(-1), math.NaN(), 63, 64, 65, -64}
}

// ---------------------------------------------------------------- expectations

type want struct {
	kind string // "int", "float", "num" (any number), "numerr" (number or error), "err"
	i    int64
	f    float64
	alt  *want // an alternative that is also acceptable (documented latitude)
}

func wInt(v int64) want     { return want{kind: "int", i: v} }
func wFloat(f float64) want { return want{kind: "float", f: f} }

var (
	bigMin = big.NewInt(math.MinInt64)
	bigMax = big.NewInt(math.MaxInt64)
)

func fits(v *big.Int) bool { return v.Cmp(bigMin) >= 0 && v.Cmp(bigMax) <= 0 }

func wrap64(v *big.Int) int64 {
	m := new(big.Int).And(v, new(big.Int).SetUint64(math.MaxUint64)) // v mod 2^64 (And on negative big.Int is two's complement)
	return int64(m.Uint64())
}

func exactOrFloat(v *big.Int, f float64) want {
	if fits(v) {
		return wInt(v.Int64())
	}
	return wFloat(f)
}

type binop struct {
	name string
	fn   func(a, b *mlrval.Mlrval) *mlrval.Mlrval
	ii   func(a, b int64) want
	ff   func(a, b float64) want // mixed and float/float: IEEE on converted operands
}

func floorDivBig(a, b *big.Int) *big.Int {
	q, m := new(big.Int).QuoRem(a, b, new(big.Int))
	if m.Sign() != 0 && (m.Sign() < 0) != (b.Sign() < 0) {
		q.Sub(q, big.NewInt(1))
	}
	return q
}

func binops() []binop {
	B := big.NewInt
	return []binop{
		{"+", bifs.BIF_plus_binary, func(a, b int64) want {
			return exactOrFloat(new(big.Int).Add(B(a), B(b)), float64(a)+float64(b))
		}, func(a, b float64) want { return wFloat(a + b) }},
		{"-", bifs.BIF_minus_binary, func(a, b int64) want {
			return exactOrFloat(new(big.Int).Sub(B(a), B(b)), float64(a)-float64(b))
		}, func(a, b float64) want { return wFloat(a - b) }},
		{"*", bifs.BIF_times, func(a, b int64) want {
			return exactOrFloat(new(big.Int).Mul(B(a), B(b)), float64(a)*float64(b))
		}, func(a, b float64) want { return wFloat(a * b) }},
		{"/", bifs.BIF_divide, func(a, b int64) want {
			if b == 0 {
				return want{kind: "numerr"}
			}
			q, m := new(big.Int).QuoRem(B(a), B(b), new(big.Int))
			if m.Sign() == 0 && fits(q) {
				return wInt(q.Int64())
			}
			return wFloat(float64(a) / float64(b))
		}, func(a, b float64) want { return wFloat(a / b) }},
		{"//", bifs.BIF_int_divide, func(a, b int64) want {
			if b == 0 {
				return want{kind: "numerr"}
			}
			q := floorDivBig(B(a), B(b))
			if fits(q) {
				return wInt(q.Int64())
			}
			// -2^63 // -1 = 2^63 does not fit: any number or error, but not a wrapped int
			return want{kind: "float", f: float64(a) / float64(b), alt: &want{kind: "err"}}
		}, func(a, b float64) want { return wFloat(math.Floor(a / b)) }},
		{"%", bifs.BIF_modulus, func(a, b int64) want {
			if b == 0 {
				return want{kind: "numerr"}
			}
			q := floorDivBig(B(a), B(b))
			m := new(big.Int).Sub(B(a), new(big.Int).Mul(q, B(b)))
			return wInt(m.Int64())
		}, func(a, b float64) want {
			if b == 0 || math.IsInf(a, 0) || math.IsInf(b, 0) || math.IsNaN(a) || math.IsNaN(b) ||
				math.Abs(a) > 9007199254740992 || math.Abs(b) > 9007199254740992 || math.Abs(b) < 1e-3 || (a != 0 && math.Abs(a) < 1e-3) || math.Abs(a/b) >= 1099511627776 {
				// outside the well-conditioned region (operands beyond 2^53 or below 1e-3, quotient beyond 2^40) the float remainder is rounding noise: number or error only
				return want{kind: "numerr"}
			}
			// sign of the divisor, |m| < |b|, a-m an (approximate) multiple of b: checked as a predicate below
			return want{kind: "fmod"}
		}},
		{"**", bifs.BIF_pow, func(a, b int64) want {
			if b < 0 {
				return want{kind: "float", f: math.Pow(float64(a), float64(b)), alt: &want{kind: "int", i: intPowNeg(a, b)}}
			}
			if b > 64 && (a > 1 || a < -1) {
				return wFloat(math.Pow(float64(a), float64(b)))
			}
			var p *big.Int
			switch {
			case a == 0 || a == 1 || a == -1:
				p = smallPow(a, b)
			default:
				p = new(big.Int).Exp(B(a), B(b), nil)
			}
			return exactOrFloat(p, math.Pow(float64(a), float64(b)))
		}, func(a, b float64) want { return wFloat(math.Pow(a, b)) }},
		{".+", bifs.BIF_dot_plus, func(a, b int64) want { return wInt(wrap64(new(big.Int).Add(B(a), B(b)))) }, func(a, b float64) want { return wFloat(a + b) }},
		{".-", bifs.BIF_dot_minus, func(a, b int64) want { return wInt(wrap64(new(big.Int).Sub(B(a), B(b)))) }, func(a, b float64) want { return wFloat(a - b) }},
		{".*", bifs.BIF_dot_times, func(a, b int64) want { return wInt(wrap64(new(big.Int).Mul(B(a), B(b)))) }, func(a, b float64) want { return wFloat(a * b) }},
		{"./", bifs.BIF_dot_divide, func(a, b int64) want {
			if b == 0 {
				return want{kind: "numerr"}
			}
			q := new(big.Int).Quo(B(a), B(b)) // toward zero, per the function help
			return wInt(wrap64(q))
		}, func(a, b float64) want { return want{kind: "numerr"} }},
		{"&", bifs.BIF_bitwise_and, func(a, b int64) want { return wInt(a & b) }, nil},
		{"|", bifs.BIF_bitwise_or, func(a, b int64) want { return wInt(a | b) }, nil},
		{"^", bifs.BIF_bitwise_xor, func(a, b int64) want { return wInt(a ^ b) }, nil},
		{"<<", bifs.BIF_left_shift, func(a, b int64) want {
			if b < 0 || b > 63 {
				return want{kind: "numerr"}
			}
			return wInt(wrap64(new(big.Int).Lsh(B(a), uint(b))))
		}, nil},
		{">>", bifs.BIF_signed_right_shift, func(a, b int64) want {
			if b < 0 || b > 63 {
				return want{kind: "numerr"}
			}
			return wInt(new(big.Int).Rsh(B(a), uint(b)).Int64()) // big.Int Rsh is arithmetic (floor)
		}, nil},
		{">>>", bifs.BIF_unsigned_right_shift, func(a, b int64) want {
			if b < 0 || b > 63 {
				return want{kind: "numerr"}
			}
			u := new(big.Int).SetUint64(uint64(a))
			return wInt(int64(new(big.Int).Rsh(u, uint(b)).Uint64()))
		}, nil},
		{"min", bifs.BIF_min_binary, func(a, b int64) want {
			if a < b {
				return wInt(a)
			}
			return wInt(b)
		}, func(a, b float64) want {
			if math.IsNaN(a) || math.IsNaN(b) {
				return want{kind: "num"}
			}
			return wFloat(math.Min(a, b))
		}},
		{"max", bifs.BIF_max_binary, func(a, b int64) want {
			if a > b {
				return wInt(a)
			}
			return wInt(b)
		}, func(a, b float64) want {
			if math.IsNaN(a) || math.IsNaN(b) {
				return want{kind: "num"}
			}
			return wFloat(math.Max(a, b))
		}},
		{"roundm", bifs.BIF_roundm, func(a, b int64) want {
			if b == 0 {
				return want{kind: "numerr"}
			}
			// nearest multiple of b to a; ties: either neighbour accepted. Must stay int when it fits.
			return want{kind: "roundm"}
		}, func(a, b float64) want { return want{kind: "num"} }},
	}
}

func smallPow(a, b int64) *big.Int {
	switch a {
	case 0:
		if b == 0 {
			return big.NewInt(1)
		}
		return big.NewInt(0)
	case 1:
		return big.NewInt(1)
	default: // -1
		if b%2 == 0 {
			return big.NewInt(1)
		}
		return big.NewInt(-1)
	}
}

// for a in {1,-1} a negative power is still an exact integer; accepted as int too
func intPowNeg(a, b int64) int64 {
	if a == 1 {
		return 1
	}
	if a == -1 {
		if b%2 == 0 {
			return 1
		}
		return -1
	}
	return math.MinInt64 + 12345 // never matches a float result
}

func describe(m *mlrval.Mlrval) string {
	switch m.Type() {
	case mlrval.MT_INT:
		v, _ := m.GetIntValue()
		return fmt.Sprintf("int:%d", v)
	case mlrval.MT_FLOAT:
		v, _ := m.GetFloatValue()
		return fmt.Sprintf("float:%v", v)
	case mlrval.MT_ERROR:
		return "error"
	}
	return m.GetTypeName() + ":" + m.String()
}

func feq(a, b float64) bool {
	if math.IsNaN(a) && math.IsNaN(b) {
		return true
	}
	return a == b && (a != 0 || math.Signbit(a) == math.Signbit(b) || true)
}

func (w want) String() string {
	s := w.kind
	switch w.kind {
	case "int":
		s = fmt.Sprintf("int:%d", w.i)
	case "float":
		s = fmt.Sprintf("float:%v", w.f)
	}
	if w.alt != nil {
		s += " or " + w.alt.String()
	}
	return s
}

func matches(w want, got *mlrval.Mlrval) bool {
	if w.alt != nil && matches(*w.alt, got) {
		return true
	}
	t := got.Type()
	switch w.kind {
	case "int":
		v, ok := got.GetIntValue()
		return t == mlrval.MT_INT && ok && v == w.i
	case "float":
		v, ok := got.GetFloatValue()
		return t == mlrval.MT_FLOAT && ok && feq(v, w.f)
	case "num":
		return t == mlrval.MT_INT || t == mlrval.MT_FLOAT
	case "numerr":
		return t == mlrval.MT_INT || t == mlrval.MT_FLOAT || t == mlrval.MT_ERROR
	case "err":
		return t == mlrval.MT_ERROR
	}
	return false
}

func checkFmod(a, b float64, got *mlrval.Mlrval) bool {
	v, ok := got.GetFloatValue()
	if got.Type() != mlrval.MT_FLOAT || !ok {
		return false
	}
	// exact reference a - b*floor(a/b) over the rationals
	A, B := new(big.Rat).SetFloat64(a), new(big.Rat).SetFloat64(b)
	q := new(big.Rat).Quo(A, B)
	fl := new(big.Int).Div(q.Num(), q.Denom()) // Euclidean; denominators are positive so this is floor
	if q.Sign() < 0 && new(big.Int).Mod(q.Num(), q.Denom()).Sign() != 0 {
		// big.Int.Div is Euclidean (rounds so that the remainder is non-negative) = floor for positive denominators
	}
	m := new(big.Rat).Sub(A, new(big.Rat).Mul(B, new(big.Rat).SetInt(fl)))
	mf, _ := m.Float64()
	if mf == v {
		return true
	}
	// tolerance relative to the modulus; a result within rounding of 0 may legitimately land within rounding of b
	d := math.Abs(mf - v)
	tol := 1e-9*math.Abs(b) + 8*math.Abs(a)/4503599627370496
	return d <= tol || math.Abs(d-math.Abs(b)) <= tol
}

func checkRoundm(a, b int64, got *mlrval.Mlrval) (bool, string) {
	A, Bm := big.NewInt(a), big.NewInt(b)
	// candidates: floor and ceil multiples
	q := floorDivBig(A, Bm)
	lo := new(big.Int).Mul(q, Bm)
	hi := new(big.Int).Mul(new(big.Int).Add(q, big.NewInt(1)), Bm)
	dlo := new(big.Int).Abs(new(big.Int).Sub(A, lo))
	dhi := new(big.Int).Abs(new(big.Int).Sub(A, hi))
	var cands []*big.Int
	switch dlo.Cmp(dhi) {
	case -1:
		cands = []*big.Int{lo}
	case 1:
		cands = []*big.Int{hi}
	default:
		cands = []*big.Int{lo, hi}
	}
	exp := ""
	for _, c := range cands {
		exp += c.String() + " "
		if fits(c) {
			if v, ok := got.GetIntValue(); ok && got.Type() == mlrval.MT_INT && v == c.Int64() {
				return true, ""
			}
		} else if got.Type() == mlrval.MT_FLOAT || got.Type() == mlrval.MT_ERROR {
			return true, ""
		}
	}
	return false, "int (nearest multiple): " + strings.TrimSpace(exp)
}

type unop struct {
	name string
	fn   func(a *mlrval.Mlrval) *mlrval.Mlrval
	i    func(a int64) want
	f    func(a float64) want
}

func unops() []unop {
	return []unop{
		{"neg", bifs.BIF_minus_unary, func(a int64) want {
			if a == math.MinInt64 {
				return want{kind: "float", f: 9223372036854775808, alt: &want{kind: "err"}}
			}
			return wInt(-a)
		}, func(a float64) want { return wFloat(-a) }},
		{"pos", bifs.BIF_plus_unary, func(a int64) want { return wInt(a) }, func(a float64) want { return wFloat(a) }},
		{"~", bifs.BIF_bitwise_not, func(a int64) want { return wInt(^a) }, nil},
		{"abs", bifs.BIF_abs, func(a int64) want {
			if a == math.MinInt64 {
				return want{kind: "float", f: 9223372036854775808, alt: &want{kind: "err"}}
			}
			if a < 0 {
				return wInt(-a)
			}
			return wInt(a)
		}, func(a float64) want { return wFloat(math.Abs(a)) }},
		{"ceiling", bifs.BIF_ceil, func(a int64) want { return wInt(a) }, func(a float64) want { return wFloat(math.Ceil(a)) }},
		{"floor", bifs.BIF_floor, func(a int64) want { return wInt(a) }, func(a float64) want { return wFloat(math.Floor(a)) }},
		{"round", bifs.BIF_round, func(a int64) want { return wInt(a) }, func(a float64) want { return wFloat(math.Round(a)) }},
		{"sgn", bifs.BIF_sgn, func(a int64) want {
			switch {
			case a > 0:
				return wInt(1)
			case a < 0:
				return wInt(-1)
			}
			return wInt(0)
		}, func(a float64) want {
			switch {
			case math.IsNaN(a):
				return want{kind: "num"}
			case a > 0:
				return wFloat(1)
			case a < 0:
				return wFloat(-1)
			}
			return wFloat(0)
		}},
	}
}

// ---------------------------------------------------------------- workers

func fstr(f float64) string { return fmt.Sprintf("%v", f) }

func gridWorker(w *vf.Worker) {
	G := intGrid(w.Quick())
	F := floatGrid()
	ops := binops()
	var idx uint64
	viol := func(op, a, b, exp, got string) {
		w.Violation(fmt.Sprintf("%s(%s,%s)", op, a, b), fmt.Sprintf("%s %s %s = %s, expected %s", a, op, b, got, exp),
			map[string]any{"op": op, "a": a, "b": b, "expected": exp, "got": got})
	}
	for _, op := range ops {
		op := op
		if o := os.Getenv("VERIF_C07_OP"); o != "" && o != op.name {
			continue
		}
		for _, a := range G {
			idx++
			if !w.Mine(idx) {
				continue
			}
			w.Begin(idx)
			w.Label(func() string { return fmt.Sprintf("%s with a=%d", op.name, a) })
			for _, b := range G {
				var got *mlrval.Mlrval
				p, _ := vf.Try(func() { got = op.fn(mlrval.FromInt(a), mlrval.FromInt(b)) })
				w.Eval(1)
				if p != nil {
					viol(op.name, fmt.Sprint(a), fmt.Sprint(b), "a number or error value", fmt.Sprintf("PANIC %v", p))
					continue
				}
				exp := op.ii(a, b)
				ok := false
				switch exp.kind {
				case "roundm":
					var e string
					ok, e = checkRoundm(a, b, got)
					exp = want{kind: e}
				default:
					ok = matches(exp, got)
				}
				if !ok {
					viol(op.name, fmt.Sprint(a), fmt.Sprint(b), exp.String(), describe(got))
				}
				w.AddSet("outcome-kinds", op.name+":"+got.GetTypeName())
			}
			if op.ff == nil {
				continue
			}
			for _, b := range F {
				// int op float, float op int
				for dir := 0; dir < 2; dir++ {
					var got *mlrval.Mlrval
					var exp want
					var as, bs string
					p, _ := vf.Try(func() {
						if dir == 0 {
							got = op.fn(mlrval.FromInt(a), mlrval.FromFloat(b))
							exp = op.ff(float64(a), b)
							as, bs = fmt.Sprint(a), fstr(b)+"f"
						} else {
							got = op.fn(mlrval.FromFloat(b), mlrval.FromInt(a))
							exp = op.ff(b, float64(a))
							as, bs = fstr(b)+"f", fmt.Sprint(a)
						}
					})
					w.Eval(1)
					if p != nil {
						viol(op.name, as, bs, "a number or error value", fmt.Sprintf("PANIC %v", p))
						continue
					}
					ok := false
					if exp.kind == "fmod" {
						if dir == 0 {
							ok = checkFmod(float64(a), b, got)
						} else {
							ok = checkFmod(b, float64(a), got)
						}
					} else {
						ok = matches(exp, got)
					}
					if !ok {
						viol(op.name, as, bs, exp.String(), describe(got))
					}
				}
			}
		}
		if op.ff != nil {
			idx++
			if w.Mine(idx) {
				w.Begin(idx)
				for _, a := range F {
					for _, b := range F {
						var got *mlrval.Mlrval
						p, _ := vf.Try(func() { got = op.fn(mlrval.FromFloat(a), mlrval.FromFloat(b)) })
						w.Eval(1)
						if p != nil {
							viol(op.name, fstr(a)+"f", fstr(b)+"f", "a number or error value", fmt.Sprintf("PANIC %v", p))
							continue
						}
						exp := op.ff(a, b)
						ok := false
						if exp.kind == "fmod" {
							ok = checkFmod(a, b, got)
						} else {
							ok = matches(exp, got)
						}
						if !ok {
							viol(op.name, fstr(a)+"f", fstr(b)+"f", exp.String(), describe(got))
						}
					}
				}
			}
		} else {
			// bit operators with float operands: must not crash; result error or number
			idx++
			if w.Mine(idx) {
				w.Begin(idx)
				for _, a := range F {
					for _, b := range G[:min(len(G), 40)] {
						for dir := 0; dir < 2; dir++ {
							p, _ := vf.Try(func() {
								if dir == 0 {
									op.fn(mlrval.FromFloat(a), mlrval.FromInt(b))
								} else {
									op.fn(mlrval.FromInt(b), mlrval.FromFloat(a))
								}
							})
							w.Eval(1)
							if p != nil {
								viol(op.name, fstr(a)+"f", fmt.Sprint(b), "no crash", fmt.Sprintf("PANIC %v", p))
							}
						}
					}
				}
			}
		}
	}
	// targeted pairs: for every grid value a, the partners b that put a+b, a-b, a*b, a/b exactly on, one below and
	// one above the int64 boundaries (so every a meets its own overflow edge, not only the grid's)
	for _, op := range ops {
		op := op
		if op.name != "+" && op.name != "-" && op.name != "*" && op.name != ".+" && op.name != ".*" && op.name != "//" && op.name != "/" && op.name != "%" && op.name != "**" {
			continue
		}
		if o := os.Getenv("VERIF_C07_OP"); o != "" && o != op.name {
			continue
		}
		idx++
		if !w.Mine(idx) {
			continue
		}
		w.Begin(idx)
		for _, a := range G {
			A := big.NewInt(a)
			var partners []int64
			addp := func(v *big.Int) {
				for _, d := range []int64{-2, -1, 0, 1, 2} {
					x := new(big.Int).Add(v, big.NewInt(d))
					if x.IsInt64() {
						partners = append(partners, x.Int64())
					}
				}
			}
			addp(new(big.Int).Sub(bigMax, A))
			addp(new(big.Int).Sub(bigMin, A))
			addp(new(big.Int).Sub(A, bigMax))
			addp(new(big.Int).Sub(A, bigMin))
			if a != 0 {
				addp(new(big.Int).Quo(bigMax, A))
				addp(new(big.Int).Quo(bigMin, A))
			}
			if op.name == "**" {
				partners = partners[:0]
				if a > 1 || a < -1 {
					// exponents around log_|a|(2^63)
					e := int64(1)
					p := new(big.Int).Abs(A)
					for p.BitLen() <= 64 {
						p.Mul(p, new(big.Int).Abs(A))
						e++
					}
					partners = append(partners, e-2, e-1, e, e+1)
				}
			}
			for _, b := range partners {
				for dir := 0; dir < 2; dir++ {
					x, y := a, b
					if dir == 1 {
						x, y = b, a
						if op.name == "**" {
							continue
						}
					}
					var got *mlrval.Mlrval
					p, _ := vf.Try(func() { got = op.fn(mlrval.FromInt(x), mlrval.FromInt(y)) })
					w.Eval(1)
					w.Count("targeted_boundary_pairs", 1)
					if p != nil {
						viol(op.name, fmt.Sprint(x), fmt.Sprint(y), "a number or error value", fmt.Sprintf("PANIC %v", p))
						continue
					}
					if exp := op.ii(x, y); exp.kind != "roundm" && !matches(exp, got) {
						viol(op.name, fmt.Sprint(x), fmt.Sprint(y), exp.String(), describe(got))
					}
				}
			}
		}
	}
	// unary
	for _, op := range unops() {
		idx++
		if !w.Mine(idx) {
			continue
		}
		w.Begin(idx)
		for _, a := range G {
			var got *mlrval.Mlrval
			p, _ := vf.Try(func() { got = op.fn(mlrval.FromInt(a)) })
			w.Eval(1)
			if p != nil {
				viol(op.name, fmt.Sprint(a), "", "a number or error value", fmt.Sprintf("PANIC %v", p))
				continue
			}
			if exp := op.i(a); !matches(exp, got) {
				viol(op.name, fmt.Sprint(a), "", exp.String(), describe(got))
			}
		}
		for _, a := range F {
			var got *mlrval.Mlrval
			p, _ := vf.Try(func() { got = op.fn(mlrval.FromFloat(a)) })
			w.Eval(1)
			if p != nil {
				viol(op.name, fstr(a)+"f", "", "a number or error value", fmt.Sprintf("PANIC %v", p))
				continue
			}
			if op.f == nil {
				continue
			}
			if exp := op.f(a); !matches(exp, got) {
				viol(op.name, fstr(a)+"f", "", exp.String(), describe(got))
			}
		}
	}
	w.Sample(map[string]any{"op": "*", "a": G[len(G)-1], "b": G[3], "grid_ints": len(G), "grid_floats": len(F)})
}

func modGrid(quick bool) (G, M []int64) {
	G = []int64{0, 1, -1, 2, -2, 3, 5, 7, -7, 10, 63, 64, 1 << 31, (1 << 31) + 1, 1 << 32, (1 << 32) + 1, 3037000499, 3037000500, 3037000501,
		math.MaxInt64, math.MaxInt64 - 1, math.MinInt64, math.MinInt64 + 1, math.MaxInt64 / 2, math.MaxInt64/2 + 1, 1 << 62, -(1 << 62), (1 << 62) + 1,
		6148914691236517205, 4611686018427387905, 9007199254740993, -9007199254740993}
	M = []int64{0, 1, -1, 2, 3, 5, 7, 10, -7, 64, 97, 1 << 31, (1 << 31) - 1, (1 << 32) + 15, 3037000507, 1 << 62, (1 << 62) + 57, math.MaxInt64, math.MaxInt64 - 24, math.MinInt64, math.MinInt64 + 1, 6148914691236517205}
	if quick {
		G = G[:24]
	}
	return
}

func modWorker(w *vf.Worker) {
	G, M := modGrid(w.Quick())
	type mop struct {
		name string
		fn   func(a, b, c *mlrval.Mlrval) *mlrval.Mlrval
		ref  func(a, b, m *big.Int) *big.Int
	}
	ops := []mop{
		{"madd", bifs.BIF_mod_add, func(a, b, m *big.Int) *big.Int { return new(big.Int).Add(a, b) }},
		{"msub", bifs.BIF_mod_sub, func(a, b, m *big.Int) *big.Int { return new(big.Int).Sub(a, b) }},
		{"mmul", bifs.BIF_mod_mul, func(a, b, m *big.Int) *big.Int { return new(big.Int).Mul(a, b) }},
		{"mexp", bifs.BIF_mod_exp, nil},
	}
	var idx uint64
	for _, op := range ops {
		for _, a := range G {
			idx++
			if !w.Mine(idx) {
				continue
			}
			w.Begin(idx)
			for _, b := range G {
				for _, m := range M {
					var got *mlrval.Mlrval
					p, _ := vf.Try(func() { got = op.fn(mlrval.FromInt(a), mlrval.FromInt(b), mlrval.FromInt(m)) })
					w.Eval(1)
					key := fmt.Sprintf("%s(%d,%d,%d)", op.name, a, b, m)
					if p != nil {
						w.Violation(key, fmt.Sprintf("%s PANICS: %v", key, p), map[string]any{"op": op.name, "a": a, "b": b, "m": m})
						continue
					}
					if m <= 0 {
						// modulus zero or negative: the documentation fixes no value; number or error, no crash
						if t := got.Type(); t != mlrval.MT_INT && t != mlrval.MT_FLOAT && t != mlrval.MT_ERROR {
							w.Violation(key, fmt.Sprintf("%s = %s, expected a number or an error", key, describe(got)), nil)
						}
						continue
					}
					if op.name == "mexp" && b < 0 {
						if got.Type() != mlrval.MT_ERROR {
							w.Violation(key, fmt.Sprintf("%s = %s, expected an error (negative exponent)", key, describe(got)), nil)
						}
						continue
					}
					A, Bv, Mv := big.NewInt(a), big.NewInt(b), big.NewInt(m)
					var exp *big.Int
					if op.name == "mexp" {
						exp = new(big.Int).Exp(new(big.Int).Mod(A, Mv), Bv, Mv)
					} else {
						exp = new(big.Int).Mod(op.ref(A, Bv, Mv), Mv) // big.Int Mod is Euclidean: 0 <= r < m
					}
					if v, ok := got.GetIntValue(); !ok || got.Type() != mlrval.MT_INT || v != exp.Int64() {
						w.Violation(key, fmt.Sprintf("%s = %s, exact modular arithmetic gives %s", key, describe(got), exp), map[string]any{"op": op.name, "a": a, "b": b, "m": m, "expected": exp.String()})
					}
				}
			}
		}
	}
	w.Sample(map[string]any{"op": "mmul", "a": G[len(G)-1], "b": G[5], "m": M[7]})
}

// bindWorker proves each DSL token is wired to the BIF the grid exercised.
func bindWorker(w *vf.Worker) {
	if !w.Mine(0) {
		return
	}
	w.Begin(0)
	type tc struct{ expr, want string }
	cases := []tc{
		{"7 + 3", "10"}, {"7 - 3", "4"}, {"7 * 3", "21"}, {"6 / 3", "2"}, {"7 / 2", "3.5"}, {"-7 // 2", "-4"}, {"-7 % 5", "3"}, {"7 % -5", "-3"},
		{"2 ** 10", "1024"}, {"2 ** -1", "0.5"}, {"7 .+ 3", "10"}, {"7 .- 3", "4"}, {"7 .* 3", "21"}, {"-7 ./ 2", "-3"},
		{"12 & 10", "8"}, {"12 | 10", "14"}, {"12 ^ 10", "6"}, {"~5", "-6"}, {"1 << 4", "16"}, {"-16 >> 2", "-4"}, {"-16 >>> 60", "15"},
		{"min(3,-2)", "-2"}, {"max(3,-2)", "3"}, {"abs(-3)", "3"}, {"ceil(3.2)", "4"}, {"floor(-3.2)", "-4"}, {"round(2.5)", "3"}, {"roundm(7,5)", "5"}, {"sgn(-9)", "-1"},
		{"madd(5,3,7)", "1"}, {"msub(5,6,7)", "6"}, {"mmul(3,4,5)", "2"}, {"mexp(2,10,7)", "2"},
		{"9223372036854775807 + 1", "9223372036854775808"}, {"5 .+ 3 * 2", "11"}, {"-2 ** 2", "-4"}, {"(-2) ** 2", "4"}, {"2 ** 3 ** 2", "512"}, {"true ? 4 : 5", "4"}, {"pow(2,3)", "8"},
		{"9223372036854775807 * 2", "18446744073709551616"}, {"-(-3)", "3"}, {"+4", "4"}, {"bitcount(255)", "8"},
	}
	for _, c := range cases {
		r := vf.RunMlr([]string{"-n", "put", "end{print " + c.expr + "}"}, vf.MlrOpts{})
		w.Eval(1)
		got := strings.TrimSpace(r.Stdout)
		if got != c.want {
			gf, e1 := strconv.ParseFloat(got, 64)
			wf, e2 := strconv.ParseFloat(c.want, 64)
			if e1 == nil && e2 == nil && gf == wf && strings.ContainsAny(c.want, ".e") == strings.ContainsAny(got, ".e") || (e1 == nil && e2 == nil && gf == wf && math.Abs(wf) > 9e18) {
				got = c.want // same number (a float beyond int range prints in %v form)
			}
		}
		if !r.OK() || got != c.want {
			w.Violation("bind:"+c.expr, fmt.Sprintf("DSL `%s` printed %q (%s), expected %q", c.expr, got, r.Err+r.Panic, c.want), map[string]any{"expr": c.expr, "expected": c.want, "got": got})
		}
	}
	w.Sample(map[string]any{"dsl_binding": cases[5].expr, "expected": cases[5].want})
}

func run(c *vf.Ctx) {
	c.Rule = "full cross product G x G (and G x F, F x G, F x F) of a boundary grid (0, +-1, +-2^k, 2^k+-1, +-(2^63-1), -2^63, sqrt/cbrt of 2^63, 2^53+-1, near-2^63 offsets) for every binary operator; G x G x M for the modular functions; every case compared with a math/big reference. distinct_nontrivial counts evaluated operand tuples (all tuples are distinct by construction)"
	c.Assume("operands outside the grid are not explored; the grid contains every boundary named by the property")
	c.Assume("shifts by counts outside 0..63 and zero/negative moduli: only 'a number or an error, no crash' is asserted (documentation fixes no value)")
	c.Assume("float % is compared with the exact rational a-b*floor(a/b) within rounding tolerance, and only for well-conditioned operands (|a|,|b| in [1e-3, 2^53], |a/b| < 2^40); elsewhere only number-or-error")
	res := c.RunPool(vf.PoolSpec{Worker: "grid", Shards: 64})
	c.RunPool(vf.PoolSpec{Worker: "mod", Shards: 32})
	c.RunPool(vf.PoolSpec{Worker: "bind", Shards: 1})
	c.DistinctNontrivial = c.Evaluations
	c.Extra["distinct_result_kinds_per_operator"] = vf.SortedSet(res, "outcome-kinds")
	c.Extra["int_grid_size"] = len(intGrid(c.Quick()))
	c.Extra["float_grid_size"] = len(floatGrid())
}
