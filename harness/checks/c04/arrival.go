package c04

// The documented `tail -f` contract: with --records-per-batch 1 and --fflush,
// every chain of fully streaming verbs writes the output for each input record
// while the input is still open, before any further input arrives. Explored
// over ALL schedules: an environment goroutine delivers one line at a time
// through a scheduler-visible channel, waits for quiescence (no goroutine can
// move), and then checks the bytes already flushed to the controlled writer.

import (
	"fmt"
	"io"
	"strings"
	"sync"

	"github.com/johnkerl/miller/v6/pkg/verifrt"

	"verif/harness/vf"
)

type arrivalCfg struct {
	Name   string
	Flags  []string
	Chain  []string
	Header string   // delivered first (csv/tsv), no record expected for it
	Lines  []string // one record per line
	Tokens []string // token that must be present in the flushed output once record i was delivered ("" = record is filtered out)
}

type lineReader struct {
	ch   chan string
	rest []byte
}

func (r *lineReader) Read(p []byte) (int, error) {
	if len(r.rest) == 0 {
		s, ok := verifrt.Recv2(r.ch, "harness:stdin")
		if !ok {
			return 0, io.EOF
		}
		r.rest = []byte(s)
	}
	n := copy(p, r.rest)
	r.rest = r.rest[n:]
	return n, nil
}
func (r *lineReader) Close() error { return nil }

type flushSink struct {
	mu  sync.Mutex
	buf strings.Builder
}

func (s *flushSink) Write(p []byte) (int, error) { s.buf.Write(p); return len(p), nil }
func (s *flushSink) Close() error                { return nil }

func arrivalConfigs(quick bool) []arrivalCfg {
	n := 3
	if !quick {
		n = 4
	}
	var out []arrivalCfg
	type fm struct {
		name   string
		flags  []string
		header string
		line   func(i int) string
	}
	fms := []fm{
		{"dkvp", []string{"--idkvp", "--odkvp"}, "", func(i int) string { return fmt.Sprintf("i=%d,t=1500000000,g=a", 100+i) }},
		{"nidx", []string{"--inidx", "--ifs", " ", "--odkvp"}, "", func(i int) string { return fmt.Sprintf("%d 1500000000 a", 100+i) }},
		{"csv", []string{"--icsv", "--odkvp"}, "i,t,g", func(i int) string { return fmt.Sprintf("%d,1500000000,a", 100+i) }},
		{"tsv", []string{"--itsv", "--ocsv"}, "i\tt\tg", func(i int) string { return fmt.Sprintf("%d\t1500000000\ta", 100+i) }},
		{"jsonl", []string{"--ijsonl", "--ojsonl"}, "", func(i int) string { return fmt.Sprintf(`{"i": %d, "t": 1500000000, "g": "a"}`, 100+i) }},
		{"csvlite", []string{"--icsvlite", "--oxtab"}, "i,t,g", func(i int) string { return fmt.Sprintf("%d,1500000000,a", 100+i) }},
	}
	type ch struct {
		name string
		args []string
		keep func(i int) bool
	}
	all := func(int) bool { return true }
	chains := []ch{
		{"cat", []string{"cat"}, all},
		{"put", []string{"put", "$z=1"}, all},
		{"filter", []string{"filter", "true"}, all},
		{"rename", []string{"rename", "g,h"}, all},
		{"cut-x", []string{"cut", "-x", "-f", "g"}, all},
		{"sec2gmt", []string{"sec2gmt", "t"}, all},
		{"head-big", []string{"head", "-n", "100"}, all},
		{"cat-then-put", []string{"cat", "then", "put", "$z=1"}, all},
		{"put-print", []string{"put", "-q", "print $[[[1]]]"}, all},
	}
	for fi, f := range fms {
		for ci, c := range chains {
			if quick && fi > 0 && ci > 2 && (fi+ci)%3 != 0 {
				continue
			}
			if f.name == "nidx" && (c.name == "rename" || c.name == "cut-x" || c.name == "sec2gmt") {
				continue // positional field names
			}
			a := arrivalCfg{Name: f.name + ":" + c.name, Flags: f.flags, Chain: c.args, Header: f.header}
			for i := 1; i <= n; i++ {
				a.Lines = append(a.Lines, f.line(i))
				a.Tokens = append(a.Tokens, fmt.Sprint(100+i))
			}
			out = append(out, a)
		}
	}
	return out
}

func arrivalWorker(w *vf.Worker) {
	if !verifrt.Instrumented {
		w.Broken("C04 arrival worker started in a build without sched instrumentation")
		return
	}
	cfgs := arrivalConfigs(w.Quick())
	for i, a := range cfgs {
		idx := uint64(i + 1)
		if !w.Mine(idx) {
			continue
		}
		w.Begin(idx)
		w.Label(func() string { return "arrival " + a.Name })
		exploreArrival(w, a)
	}
}

func exploreArrival(w *vf.Worker, a arrivalCfg) {
	argv := append(append([]string{"--records-per-batch", "1", "--fflush"}, a.Flags...), a.Chain...)
	spec := vf.ExploreSpec{
		Body: func() string {
			ch := verifrt.Reg(make(chan string, 1))
			sink := &flushSink{}
			late := ""
			verifrt.Go(func() {
				if a.Header != "" {
					s := verifrt.PreSend(ch, "harness:env")
					ch <- a.Header + "\n"
					s.Post()
				}
				for k, ln := range a.Lines {
					s := verifrt.PreSend(ch, "harness:env")
					ch <- ln + "\n"
					s.Post()
					verifrt.AwaitQuiescence()
					// everything that can move has moved: the input is still open, k+1 lines delivered
					out := sink.buf.String()
					for j := 0; j <= k; j++ {
						if a.Tokens[j] != "" && !strings.Contains(out, a.Tokens[j]) && late == "" {
							late = fmt.Sprintf("after line %d was delivered and the pipeline went quiescent, the output for record %d is not yet flushed (flushed so far: %q)", k+1, j+1, out)
						}
					}
					verifrt.Note(fmt.Sprint("checked", k, late != ""))
				}
				verifrt.Close(ch, "harness:env")
			})
			_, err := vf.InvokeMlr(argv, vf.MlrOpts{Reader: func() io.ReadCloser { return &lineReader{ch: ch} }, Out: sink})
			e := "nil"
			if err != nil {
				e = err.Error()
			}
			if late != "" {
				return "LATE " + late
			}
			return "err=" + e + "\nstdout=" + sink.buf.String()
		},
		After: func(o string, r *verifrt.Result) string {
			vf.TakeStderr()
			return o
		},
		MaxExecs: 200000,
		MaxSteps: 20000,
	}
	r := vf.Explore(spec)
	w.Rep.States += r.States
	w.Rep.Transitions += r.Transitions
	w.Eval(int64(r.Execs))
	w.Count("executions_completed", int64(r.Completed))
	w.Count("arrival_configurations", 1)
	key := "arrival:" + a.Name
	rp := func(s []int) map[string]any {
		return map[string]any{"argv": argv, "header": a.Header, "lines": a.Lines, "schedule": s}
	}
	if r.Stalled {
		w.Stalled("stall:"+key, "non-termination in "+key, rp(r.StalledAt))
	}
	if !r.Exhaustive {
		w.Inexhaustive(key + ": execution budget hit")
	}
	if r.Branchings > 0 {
		w.Nontrivial(1)
	}
	if r.Deadlocks > 0 {
		w.Violation("deadlock:"+key, fmt.Sprintf("deadlock in %d executions of %s (blocked: %s)", r.Deadlocks, key, strings.Join(r.Blocked, " ")), rp(r.DeadlockAt))
	}
	if r.Horizons > 0 {
		w.Violation("horizon:"+key, "step horizon exceeded in "+key, rp(r.HorizonAt))
	}
	for f, n := range r.Faults {
		w.Violation("fault:"+key, fmt.Sprintf("%s in %d executions of %s", trunc(f, 200), n, key), rp(r.FaultAt[f]))
	}
	outs := r.OutcomeList()
	for _, o := range outs {
		if strings.HasPrefix(o, "LATE ") {
			w.Violation("tail-f-late:"+key, fmt.Sprintf("`mlr %s` fed one line at a time: %s (in %d of %d complete executions)", strings.Join(argv, " "), strings.TrimPrefix(o, "LATE "), r.Outcomes[o], r.Completed), rp(r.Witness[o]))
		}
	}
	if len(outs) > 1 {
		w.Violation("schedule-dependent:"+key, fmt.Sprintf("%d distinct outcomes over the schedules of %s: %q vs %q", len(outs), key, trunc(outs[0], 200), trunc(outs[1], 200)), rp(r.Witness[outs[1]]))
	}
	if len(w.Rep.Samples) < 3 {
		w.Sample(map[string]any{"arrival_history": a.Name, "argv": argv, "lines_delivered_one_at_a_time": len(a.Lines), "executions": r.Execs, "states": r.States})
	}
}
