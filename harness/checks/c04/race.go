package c04

// Free-running -race pass. Under the cooperative scheduler every hand-off is a happens-before edge, so the race
// detector is blind there, and unsynchronised shared memory between verb goroutines is invisible to E1. This pass
// runs the same in-process invocations UNinstrumented under the race detector, with enough records and small batches
// that the verb goroutines of a chain really overlap. It validates the assumption E1 rests on; a reported race is
// triaged as a violation of C04's determinism (the same chain can then produce different bytes run to run).

import (
	"fmt"
	"os"
	"path/filepath"
	"regexp"
	"sort"
	"strings"

	"verif/harness/vf"
)

type raceChain struct {
	name string
	args []string
	fmtf string // input flavour: "dkvp" or "nested"
}

func raceChains() []raceChain {
	S := strings.Fields
	twice := func(name string, a []string) raceChain {
		return raceChain{name: name + " then " + name, args: append(append(append([]string{}, a...), "then"), a...)}
	}
	var out []raceChain
	verbs := map[string][]string{
		"cat -n -g g": S("cat -n -g g"), "sort -f g -nr i": S("sort -f g -nr i"), "put $z=$i.$g": {"put", "$z=$i.$g"}, "filter $i>0": {"filter", "$i>0"},
		"cut -x -f s": S("cut -x -f s"), "rename -r ^(.)$,x_\\1": {"rename", "-r", "^(.)$,x_\\1"}, "reorder -e -f i": S("reorder -e -f i"),
		"sec2gmt t": S("sec2gmt t"), "fill-down -a -f g": S("fill-down -a -f g"), "fill-empty": S("fill-empty"), "unsparsify": S("unsparsify"),
		"regularize": S("regularize"), "sort-within-records": S("sort-within-records"), "label a,b,c": S("label a,b,c"), "count-similar -g g": S("count-similar -g g"),
		"step -a delta,shift -f i": S("step -a delta,shift -f i"), "stats1 -a mean,p50 -f i -g g": S("stats1 -a mean,p50 -f i -g g"),
		"merge-fields -a sum -f i,t -o o": S("merge-fields -a sum -f i,t -o o"), "top -n 2 -f i -g g -a": S("top -n 2 -f i -g g -a"), "uniq -g g -c": S("uniq -g g -c"),
		"nest --ivar ; -f s": S("nest --ivar ; -f s"), "nest --explode --values --across-records -f s --nested-fs ;": S("nest --explode --values --across-records -f s --nested-fs ;"),
		"nest --explode --values --across-fields -f s --nested-fs ;": S("nest --explode --values --across-fields -f s --nested-fs ;"),
		"sub -f s a b": S("sub -f s a b"), "gsub -f s [ab] X": S("gsub -f s [ab] X"), "case -u -k -f g": S("case -u -k -f g"), "format-values -n -f %.3f": S("format-values -n -f %.3f"),
		"put fmtnum": {"put", `$f=fmtnum($i,"%08.3lf")`}, "put regex": {"put", `if ($s =~ "^(a)") {$c="\1"}`}, "put strftime": {"put", `$d=strftime($t,"%Y-%m-%dT%H:%M:%3SZ")`},
		"put splitax": {"put", `$n=joink(splitax($s,";"),",")`}, "put map": {"put", `@c[$g]=$i; $m=@c[$g]`}, "put sort func": {"put", `$o=joinv(sort([3,1,2], func(a,b){return a<=>b}),",")`},
		"put strptime": {"put", `$p=strptime("2023-01-01","%Y-%m-%d")`}, "put sub gsub": {"put", `$u=gsub(sub($s,"a","b"),"[;]","+")`}, "flatten": S("flatten"), "json-stringify -f s": S("json-stringify -f s"),
		"having-fields --at-least i": S("having-fields --at-least i"), "grep a": S("grep a"), "sec2gmtdate t": S("sec2gmtdate t"), "split-join": {"put", `$q=format_values is absent`},
		"tac": S("tac"), "head -n 100000": S("head -n 100000"), "decimate -n 2": S("decimate -n 2"), "fraction -f i": S("fraction -f i"), "count-distinct -f g": S("count-distinct -f g"),
		"utf8-to-latin1": S("utf8-to-latin1"), "template -f i,g,zz": S("template -f i,g,zz"), "sparsify": S("sparsify"), "altkv": S("altkv"),
	}
	delete(verbs, "split-join")
	var names []string
	for n := range verbs {
		names = append(names, n)
	}
	sort.Strings(names)
	for _, n := range names {
		out = append(out, twice(n, verbs[n]))
	}
	// implode after explode twice (two implode stages in one chain)
	out = append(out, raceChain{name: "explode x2 then implode x2", args: S("nest --explode --values --across-fields -f s --nested-fs ; then nest --explode --values --across-fields -f r --nested-fs ; then nest --implode --values --across-fields -f s --nested-fs ; then nest --implode --values --across-fields -f r --nested-fs ;")})
	out = append(out, raceChain{name: "seeded urandint x2", args: []string{"--seed", "1", "put", "$a=urandint(1,9)", "then", "put", "$b=urandint(1,9)"}})
	return out
}

var raceRe = regexp.MustCompile(`(?s)WARNING: DATA RACE\n(.*?)\n==================`)
var frameRe = regexp.MustCompile(`\n\s+(github\.com/johnkerl/miller/v6/pkg/\S+?)\(\)\n`)

func raceWorker(w *vf.Worker) {
	logBase := os.Getenv("VERIF_RACE_LOG")
	if logBase == "" {
		w.Broken("race worker without VERIF_RACE_LOG")
		return
	}
	var in strings.Builder
	n := 3000
	if !w.Quick() {
		n = 12000
	}
	for i := 1; i <= n; i++ {
		fmt.Fprintf(&in, "i=%d,g=%c,t=%d,s=a;b;c%d,r=p;q\n", i, 'a'+i%3, 1500000000+i, i%7)
	}
	input := in.String()
	readLogs := func() string {
		var all strings.Builder
		matches, _ := filepath.Glob(logBase + ".*")
		for _, m := range matches {
			b, _ := os.ReadFile(m)
			all.Write(b)
			os.Truncate(m, 0)
		}
		return all.String()
	}
	for i, rc := range raceChains() {
		idx := uint64(i + 1)
		if !w.Mine(idx) {
			continue
		}
		w.Begin(idx)
		w.Label(func() string { return "race " + rc.name })
		readLogs()
		args := append([]string{"--records-per-batch", "20"}, rc.args...)
		var res vf.MlrResult
		for rep := 0; rep < 3; rep++ {
			res = vf.RunMlr(args, vf.MlrOpts{Stdin: &input})
		}
		w.Eval(3)
		w.Count("race_pass_chains", 1)
		if !res.OK() {
			w.Count("race_pass_chains_exiting_nonzero", 1)
		}
		logs := readLogs()
		seen := map[string]bool{}
		for _, m := range raceRe.FindAllStringSubmatch(logs, -1) {
			frames := frameRe.FindAllStringSubmatch("\n"+m[1]+"\n", 3)
			var top []string
			for _, f := range frames {
				top = append(top, strings.TrimPrefix(f[1], "github.com/johnkerl/miller/v6/pkg/"))
			}
			site := strings.Join(top, "|")
			if seen[site] {
				continue
			}
			seen[site] = true
			// keyed by the racing site, not by the chain: reports can be flushed late, while a later chain runs
			w.Violation(fmt.Sprintf("data-race:%s", site), fmt.Sprintf("the race detector reports unsynchronised access between goroutines at %s (seen while running `mlr %s` or a chain shortly before it): bytes can differ from run to run, and the schedule exploration's assumption of no shared memory is false here", site, strings.Join(args, " ")),
				map[string]any{"argv": args, "records": n, "report": trunc(m[1], 1500)})
		}
		w.Nontrivial(1)
		if i < 2 {
			w.Sample(map[string]any{"race_pass": rc.name, "records": n, "batch": 20, "repetitions": 3})
		}
	}
}
