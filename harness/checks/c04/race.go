package c04

// Free-running -race pass. Under the cooperative scheduler every hand-off is a happens-before edge, so the race
// detector is blind there, and unsynchronised shared memory between verb goroutines is invisible to E1. This pass
// runs the same in-process invocations UNinstrumented under the race detector, with enough records and small batches
// that the verb goroutines of a chain really overlap. It validates the assumption E1 rests on; a reported race is
// triaged as a violation of C04's determinism (the same chain can then produce different bytes run to run).

import (
	"fmt"
	"os"
	"path/filepath"
	"regexp"
	"sort"
	"strings"

	"github.com/johnkerl/miller/v6/pkg/dsl/cst"

	"verif/harness/vf"
)

type raceChain struct {
	name string
	args []string
	fmtf string // input flavour: "dkvp" or "nested"
}

func raceChains() []raceChain {
	S := strings.Fields
	twice := func(name string, a []string) raceChain {
		return raceChain{name: name + " then " + name, args: append(append(append([]string{}, a...), "then"), a...)}
	}
	var out []raceChain
	verbs := map[string][]string{
		"cat -n -g g": S("cat -n -g g"), "sort -f g -nr i": S("sort -f g -nr i"), "put $z=$i.$g": {"put", "$z=$i.$g"}, "filter $i>0": {"filter", "$i>0"},
		"cut -x -f s": S("cut -x -f s"), "rename -r ^(.)$,x_\\1": {"rename", "-r", "^(.)$,x_\\1"}, "reorder -e -f i": S("reorder -e -f i"),
		"sec2gmt t": S("sec2gmt t"), "fill-down -a -f g": S("fill-down -a -f g"), "fill-empty": S("fill-empty"), "unsparsify": S("unsparsify"),
		"regularize": S("regularize"), "sort-within-records": S("sort-within-records"), "label a,b,c": S("label a,b,c"), "count-similar -g g": S("count-similar -g g"),
		"step -a delta,shift -f i": S("step -a delta,shift -f i"), "stats1 -a mean,p50 -f i -g g": S("stats1 -a mean,p50 -f i -g g"),
		"merge-fields -a sum -f i,t -o o": S("merge-fields -a sum -f i,t -o o"), "top -n 2 -f i -g g -a": S("top -n 2 -f i -g g -a"), "uniq -g g -c": S("uniq -g g -c"),
		"nest --ivar ; -f s": S("nest --ivar ; -f s"), "nest --explode --values --across-records -f s --nested-fs ;": S("nest --explode --values --across-records -f s --nested-fs ;"),
		"nest --explode --values --across-fields -f s --nested-fs ;": S("nest --explode --values --across-fields -f s --nested-fs ;"),
		"sub -f s a b": S("sub -f s a b"), "gsub -f s [ab] X": S("gsub -f s [ab] X"), "case -u -k -f g": S("case -u -k -f g"), "format-values -n -f %.3f": S("format-values -n -f %.3f"),
		"put fmtnum": {"put", `$f=fmtnum($i,"%08.3lf")`}, "put regex": {"put", `if ($s =~ "^(a)") {$c="\1"}`}, "put strftime": {"put", `$d=strftime($t,"%Y-%m-%dT%H:%M:%3SZ")`},
		"put splitax": {"put", `$n=joink(splitax($s,";"),",")`}, "put map": {"put", `@c[$g]=$i; $m=@c[$g]`}, "put sort func": {"put", `$o=joinv(sort([3,1,2], func(a,b){return a<=>b}),",")`},
		"put strptime": {"put", `$p=strptime("2023-01-01","%Y-%m-%d")`}, "put sub gsub": {"put", `$u=gsub(sub($s,"a","b"),"[;]","+")`}, "flatten": S("flatten"), "json-stringify -f s": S("json-stringify -f s"),
		"having-fields --at-least i": S("having-fields --at-least i"), "grep a": S("grep a"), "sec2gmtdate t": S("sec2gmtdate t"), "split-join": {"put", `$q=format_values is absent`},
		"tac": S("tac"), "head -n 100000": S("head -n 100000"), "decimate -n 2": S("decimate -n 2"), "fraction -f i": S("fraction -f i"), "count-distinct -f g": S("count-distinct -f g"),
		"utf8-to-latin1": S("utf8-to-latin1"), "template -f i,g,zz": S("template -f i,g,zz"), "sparsify": S("sparsify"), "altkv": S("altkv"),
	}
	delete(verbs, "split-join")
	var names []string
	for n := range verbs {
		names = append(names, n)
	}
	sort.Strings(names)
	for _, n := range names {
		out = append(out, twice(n, verbs[n]))
	}
	// implode after explode twice (two implode stages in one chain)
	out = append(out, raceChain{name: "explode x2 then implode x2", args: S("nest --explode --values --across-fields -f s --nested-fs ; then nest --explode --values --across-fields -f r --nested-fs ; then nest --implode --values --across-fields -f s --nested-fs ; then nest --implode --values --across-fields -f r --nested-fs ;")})
	// verbs that consume what they produce (a second `sec2gmt t` finds a string and formats nothing): two stages on
	// two different fields, so that both stages really run the formatter at the same time
	for _, pr := range [][2]string{{"sec2gmt t", "sec2gmt u"}, {"sec2gmt -3 t", "sec2gmt -6 u"}, {"sec2gmtdate t", "sec2gmtdate u"}, {"sec2gmt t", "sec2gmtdate u"},
		{"sec2gmt --millis t", "sec2gmt --micros u"}, {"fill-down -f e", "fill-down -a -f e2"}, {"fill-empty -v X", "fill-empty -S -v Y"},
		{"sub -f s a b", "sub -f r p b"}, {"gsub -f s [ab] X", "gsub -f r [pq] Y"}, {"ssub -f s a b", "ssub -f r p b"},
		{"format-values -n -f %.3f", "format-values -i %08llx"}, {"nest --evar ; -f s", "nest --evar ; -f r"}, {"split-join", ""},
		{"stats1 -a p10,p50,mean -f i -g g", "stats1 -a p10,p50,mean -f i_p50"}, {"merge-fields -k -a sum,p50 -f i,t -o o", "merge-fields -k -a sum,p50 -f u,x -o p"},
		{"step -a ewma -d 0.1,0.9 -f i", "step -a ewma -d 0.1,0.9 -f x"}, {"step -a slwin_2_2,shift_lag -f i", "step -a slwin_2_2,shift_lead -f x"},
		{"top -n 2 -f i -g g -a", "top -n 1 -f x -a"}, {"count-distinct -f g", "count-distinct -f g"}, {"seqgen", ""},
		{"case -u -k -f g", "case -s -v -f g"}, {"having-fields --any-matching ^[ix]", "having-fields --all-matching ^[a-z]"}, {"sec2str", ""},
		{"cut -r -f ^[a-s]", "cut -r -f ^[a-h]"}, {"rename -g -r [aeiou],V", "rename -r ^(.)V,\\1W"}, {"reorder -f t,i", "reorder -e -f i,t"},
		{"summary -a mean,minlen,null_count", "summary -a mean,minlen --transpose"}, {"unspace", "unspace -k"}, {"sort-within-records -n", "sort-within-records -r ^[a-m]"},
		{"sort -t g -nr x", "sort -c g -nf i"}, {"nothing", ""}} {
		if pr[1] == "" {
			continue
		}
		out = append(out, raceChain{name: pr[0] + " then " + pr[1], args: append(append(S(pr[0]), "then"), S(pr[1])...)})
	}
	// a verb that keeps looking at records it has already passed on (look-back windows, fill-down, last-record state)
	// must not see what the NEXT verb does to them: every stateful streaming verb followed by a mutator of the same fields
	for _, v := range []string{"step -a shift,shift_lag,delta,ratio,counter,rsum,rprod -f i,x", "step -a ewma -d 0.1 -f i,x", "step -a slwin_2_0 -f i,x", "step -a slwin_0_2 -f i,x",
		"step -a slwin_2_2,from-first -f i,x", "step -a shift_lead -f i,x", "fill-down -f e,g", "fill-down -a -f e,g", "fill-down --all", "cat -n -g g", "head -n 1000000 -g g",
		"decimate -n 3 -b", "decimate -n 3 -e -g g", "uniq -a -c", "uniq -x i,t,u,x,s -c", "uniq -a -n", "gap -n 4", "gap -g g", "merge-fields -k -a sum,max -f i,x -o o", "top -n 2 -f i -g g -a",
		"unsparsify -f zz,i", "nest --implode --values --across-records -f s --nested-fs ;", "sec2gmt t", "count-similar -g g", "fraction -f i", "having-fields --at-least i",
		"seqgen -f z --start 1 --stop 3000", "tee /dev/null", "bar -f i --lo 0 --hi 100", "json-parse -f i", "case -u -f g", "template -f i,g,x,zz --fill-with X", "sparsify -f e", "regularize", "rename -r ^(.)$,\\1",
		"reorder -e -f i", "label a,b", "sort-within-records", "nothing"} {
		if strings.HasPrefix(v, "seqgen") || v == "nothing" {
			continue
		}
		args := append(S(v), "then", "put", `$i=$i*1000;$x=$x*7;$g=$g."y";$e=$e."z";$s="m"`)
		out = append(out, raceChain{name: v + " then put (mutates i x g e s)", args: args})
	}
	out = append(out, raceChain{name: "seeded urandint x2", args: []string{"--seed", "1", "put", "$a=urandint(1,9)", "then", "put", "$b=urandint(1,9)"}})
	return out
}

var raceRe = regexp.MustCompile(`(?s)WARNING: DATA RACE\n(.*?)\n==================`)
var frameRe = regexp.MustCompile(`\n\s+(github\.com/johnkerl/miller/v6/pkg/\S+?)\(\)\n`)

func raceWorker(w *vf.Worker) {
	logBase := os.Getenv("VERIF_RACE_LOG")
	if logBase == "" {
		w.Broken("race worker without VERIF_RACE_LOG")
		return
	}
	var in strings.Builder
	n := 3000
	if !w.Quick() {
		n = 12000
	}
	for i := 1; i <= n; i++ {
		e := ""
		if i%5 == 0 {
			e = "v"
		}
		fmt.Fprintf(&in, "i=%d,g=%c,t=%d,s=a;b;c%d,r=p;q,u=%d,x=%d.25,e=%s,e2=%s\n", i, 'a'+i%3, 1500000000+i, i%7, 1400000000+7*i, i%11, e, e)
	}
	input := in.String()
	readLogs := func() string {
		var all strings.Builder
		matches, _ := filepath.Glob(logBase + ".*")
		for _, m := range matches {
			b, _ := os.ReadFile(m)
			all.Write(b)
			os.Truncate(m, 0)
		}
		return all.String()
	}
	for i, rc := range raceChains() {
		idx := uint64(i + 1)
		if !w.Mine(idx) {
			continue
		}
		w.Begin(idx)
		w.Label(func() string { return "race " + rc.name })
		readLogs()
		args := append([]string{"--records-per-batch", "20"}, rc.args...)
		var res vf.MlrResult
		for rep := 0; rep < 3; rep++ {
			res = vf.RunMlr(args, vf.MlrOpts{Stdin: &input})
		}
		w.Eval(3)
		w.Count("race_pass_chains", 1)
		if !res.OK() {
			w.Count("race_pass_chains_exiting_nonzero", 1)
			w.Inexhaustive(fmt.Sprintf("race pass chain `%s` exits non-zero (%s): it exercises nothing", rc.name, trunc(res.Stderr+res.Err, 200)))
		}
		logs := readLogs()
		seen := map[string]bool{}
		for _, m := range raceRe.FindAllStringSubmatch(logs, -1) {
			frames := frameRe.FindAllStringSubmatch("\n"+m[1]+"\n", 3)
			var top []string
			for _, f := range frames {
				top = append(top, strings.TrimPrefix(f[1], "github.com/johnkerl/miller/v6/pkg/"))
			}
			site := strings.Join(top, "|")
			if seen[site] {
				continue
			}
			seen[site] = true
			// keyed by the racing site, not by the chain: reports can be flushed late, while a later chain runs
			w.Violation(fmt.Sprintf("data-race:%s", site), fmt.Sprintf("the race detector reports unsynchronised access between goroutines at %s (seen while running `mlr %s` or a chain shortly before it): bytes can differ from run to run, and the schedule exploration's assumption of no shared memory is false here", site, strings.Join(args, " ")),
				map[string]any{"argv": args, "records": n, "report": trunc(m[1], 1500)})
		}
		w.Nontrivial(1)
		if i < 2 {
			w.Sample(map[string]any{"race_pass": rc.name, "records": n, "batch": 20, "repetitions": 3})
		}
	}
}

// ---------------------------------------------------------------- every built-in function, in two verbs at once
//
// A scratch buffer, cache or lookup table that a built-in function keeps at package scope is shared by all the verb
// goroutines of a chain. The family below runs every function of the built-in table (walked through the overlay-only
// export, so that a new function is in scope automatically) in two `put` stages of one chain, for every argument tuple
// of a small typed menu on which the function returns a value (found by a one-record dry run per tuple).

var funcMenu = []string{`$i`, `$x`, `$s`, `$t`, `$d`, `";"`, `"%Y-%m-%d %H:%M:%S"`, `"%08.3lf"`, `"a"`, `$*`, `[1,$i,3]`, `"Asia/Tokyo"`, `3`, `"^(a);(b)"`}
var funcMenu3 = []string{`$i`, `$s`, `$t`, `$d`, `";"`, `"%Y-%m-%d %H:%M:%S"`, `"a"`, `"Asia/Tokyo"`, `3`, `$*`, `"^(a);(b)"`}

const funcRecord = "i=7,x=2.25,s=a;b;c3,t=1500000007,d=2023-01-02 03:04:05,g=a\n"

var identRe = regexp.MustCompile(`^[a-z_][a-z0-9_]*$`)

type funcCase struct {
	name  string
	arity int
}

func funcCases() []funcCase {
	var out []funcCase
	for _, b := range cst.VerifC18BuiltinTable() {
		if !identRe.MatchString(b.Name) || strings.HasPrefix(b.Name, "urand") || b.Name == "exec" || b.Name == "system" || b.Name == "os_type" || b.Name == "hostname" || b.Name == "systime" || b.Name == "systimeint" || b.Name == "sysntime" || b.Name == "uptime" || b.Name == "version" {
			continue // operators are covered by the put chains above; the RNG is a recorded finding; no subprocesses / clocks here
		}
		if b.Unary {
			out = append(out, funcCase{b.Name, 1})
		}
		if b.Binary {
			out = append(out, funcCase{b.Name, 2})
		}
		if b.Ternary {
			out = append(out, funcCase{b.Name, 3})
		}
		if b.Variadic {
			for _, a := range []int{1, 2, 3} {
				if a >= b.MinVar && (b.MaxVar == 0 || a <= b.MaxVar) && !(a == 1 && b.Unary) && !(a == 2 && b.Binary) && !(a == 3 && b.Ternary) {
					out = append(out, funcCase{b.Name, a})
				}
			}
		}
	}
	return out
}

func tuples(arity int) [][]string {
	menu := funcMenu
	if arity == 3 {
		menu = funcMenu3
	}
	out := [][]string{{}}
	for k := 0; k < arity; k++ {
		var next [][]string
		for _, p := range out {
			for _, m := range menu {
				next = append(next, append(append([]string{}, p...), m))
			}
		}
		out = next
	}
	return out
}

func raceFuncWorker(w *vf.Worker) {
	logBase := os.Getenv("VERIF_RACE_LOG")
	if logBase == "" {
		w.Broken("race worker without VERIF_RACE_LOG")
		return
	}
	n := 400
	if !w.Quick() {
		n = 2000
	}
	var in strings.Builder
	for i := 1; i <= n; i++ {
		fmt.Fprintf(&in, "i=%d,x=%d.25,s=a;b;c%d,t=%d,d=2023-01-%02d 03:04:%02d,g=%c\n", i, i%11, i%7, 1500000000+i*3600, 1+i%28, i%60, 'a'+i%3)
	}
	input := in.String()
	readLogs := func() string {
		var all strings.Builder
		matches, _ := filepath.Glob(logBase + ".*")
		for _, m := range matches {
			b, _ := os.ReadFile(m)
			all.Write(b)
			os.Truncate(m, 0)
		}
		return all.String()
	}
	one := funcRecord
	for ci, fc := range funcCases() {
		idx := uint64(ci + 1)
		if !w.Mine(idx) {
			continue
		}
		w.Begin(idx)
		w.Label(func() string { return fmt.Sprintf("race func %s/%d", fc.name, fc.arity) })
		// dry run: the tuples on which the function yields a value (not an error, not absent, not a fatal)
		var cands []string
		for _, tp := range tuples(fc.arity) {
			if (fc.name == "leftpad" || fc.name == "rightpad") && (tp[1] == `$t` || tp[1] == `$i`) {
				continue // pads to that many characters: gigabytes
			}
			cands = append(cands, fc.name+"("+strings.Join(tp, ",")+")")
		}
		max := 60
		if w.Quick() {
			max = 12
		}
		calls := valued(cands, one, max)
		w.Eval(1)
		if len(calls) == 0 {
			w.Count("race_funcs_without_a_valued_tuple", 1)
			w.AddSet("race_funcs_without_a_valued_tuple_names", fmt.Sprintf("%s/%d", fc.name, fc.arity))
			continue
		}
		var e1, e2 strings.Builder
		for k, c := range calls {
			// results go to a local, not into the record: with $* in the menu a record that keeps its results doubles per call
			_ = k
			fmt.Fprintf(&e1, "o=%s;", c)
			fmt.Fprintf(&e2, "o=%s;", c)
		}
		readLogs()
		args := []string{"--records-per-batch", "10", "--ofmt", "%.6lf", "put", e1.String(), "then", "put", e2.String()}
		reps := 2
		var res vf.MlrResult
		for rep := 0; rep < reps; rep++ {
			res = vf.RunMlr(args, vf.MlrOpts{Stdin: &input})
		}
		w.Eval(int64(reps))
		w.Count("race_pass_function_cases", 1)
		w.Count("race_pass_function_calls", int64(len(calls)))
		if !res.OK() {
			w.Count("race_pass_function_cases_exiting_nonzero", 1)
		}
		logs := readLogs()
		seen := map[string]bool{}
		for _, m := range raceRe.FindAllStringSubmatch(logs, -1) {
			frames := frameRe.FindAllStringSubmatch("\n"+m[1]+"\n", 3)
			var top []string
			for _, f := range frames {
				top = append(top, strings.TrimPrefix(f[1], "github.com/johnkerl/miller/v6/pkg/"))
			}
			site := strings.Join(top, "|")
			if seen[site] {
				continue
			}
			seen[site] = true
			w.Violation(fmt.Sprintf("data-race:%s", site), fmt.Sprintf("the race detector reports unsynchronised access between goroutines at %s (seen while two `put` stages of one chain both called %s/%d, or shortly before): bytes can differ from run to run", site, fc.name, fc.arity),
				map[string]any{"argv": trunc(strings.Join(args, " "), 600), "records": n, "report": trunc(m[1], 1500)})
		}
		w.Nontrivial(1)
		if ci < 2 {
			w.Sample(map[string]any{"race_pass_function": fc.name, "arity": fc.arity, "calls": calls, "records": n})
		}
	}
}

// valued returns (up to max of) the calls that yield a value on the one-record input: all candidates are typed in one
// run; a run that fails (some tuple is fatal for this function) is bisected.
func valued(cands []string, one string, max int) []string {
	if len(cands) == 0 || max <= 0 {
		return nil
	}
	var e strings.Builder
	for _, c := range cands {
		e.WriteString("o=" + c + ";print typeof(o);")
	}
	r := vf.RunMlr([]string{"put", "-q", e.String()}, vf.MlrOpts{Stdin: &one})
	lines := strings.Split(strings.TrimRight(r.Stdout, "\n"), "\n")
	if r.OK() && len(lines) == len(cands) {
		var out []string
		for k, ty := range lines {
			if ty != "error" && ty != "absent" && ty != "" && len(out) < max {
				out = append(out, cands[k])
			}
		}
		return out
	}
	if len(cands) == 1 {
		return nil
	}
	h := len(cands) / 2
	out := valued(cands[:h], one, max)
	return append(out, valued(cands[h:], one, max-len(out))...)
}
