// Package c04: check for property C04 (see /verif/DESIGN.md §3 C04).
package c04
