// Package c04: output is independent of batching and scheduling, and every
// run terminates. E1: for each (chain, input) pair, every batch size b in
// 1..N+1 is explored over ALL goroutine schedules of the real pipeline (vsched,
// state caching). Oracles: no deadlock, no step-horizon overrun, no goroutine
// fault; the set of (stdout, error, tee-file) outcomes over all schedules and
// all batch sizes is a singleton; and for chains with a list-algebra reference
// it equals that reference.
package c04

import (
	"encoding/json"
	"fmt"
	"os"
	"path/filepath"
	"sort"
	"strings"

	"github.com/johnkerl/miller/v6/pkg/verifrt"

	"verif/harness/vf"
)

func init() {
	vf.Register(&vf.CheckDef{ID: "C04", Level: "model_checking", Run: run,
		Workers: map[string]vf.WorkerFunc{"sched": schedWorker, "arrival": arrivalWorker, "audit": auditWorker, "race": raceWorker, "racefunc": raceFuncWorker},
		Replay:  replay})
}

// ---------------------------------------------------------------- configurations

type chain struct {
	Name      string                                                   // canonical text
	Args      []string                                                 // verb chain (after main flags, before file names); "@T" is replaced by the tee/aux file path
	Flags     []string                                                 // extra main flags
	Ref       func(recs []string) (stdout string, tee string, ok bool) `json:"-"`
	NoIn      bool                                                     // chain generates its own input (seqgen): run with -n
	Aux       string                                                   // contents of an auxiliary virtual file "@L" (join left file)
	Batch     []int                                                    // explicit batch sizes (else 1..N+1)
	Seeded    bool
	FailsFrom int  // > 0: the chain fails at its FailsFrom-th record: with that many records EVERY schedule and batch size must fail (stdout of a failing run is not compared), with fewer every one must succeed
	GenIn     bool // input comes from the --igen pseudo-reader: no files, no -n
	TeePrefix bool // tee file: only "is a prefix of the input containing the passed records" is asserted
}

type input struct {
	Name  string
	Flags []string // extra reader flags
	Fmt   string   // dkvp csv json nidx
	Files []string // file contents
	Recs  []string // the records as dkvp lines (for references)
}

func mkInput(fmtName string, n int, nfiles int) input {
	var recs []string
	for i := 1; i <= n; i++ {
		g := "a"
		if i%2 == 0 {
			g = "b"
		}
		recs = append(recs, fmt.Sprintf("i=%d,g=%s", i, g))
	}
	in := input{Name: fmt.Sprintf("%s:N=%d:files=%d", fmtName, n, nfiles), Fmt: fmtName, Recs: recs}
	// split records over files: first file gets ceil(n/nfiles)
	per := (n + nfiles - 1) / nfiles
	if per == 0 {
		per = 1
	}
	for f := 0; f < nfiles; f++ {
		lo, hi := f*per, (f+1)*per
		if lo > n {
			lo = n
		}
		if hi > n {
			hi = n
		}
		part := recs[lo:hi]
		var b strings.Builder
		switch fmtName {
		case "dkvp":
			for _, r := range part {
				b.WriteString(r + "\n")
			}
		case "csv":
			b.WriteString("i,g\n")
			for _, r := range part {
				kv := strings.Split(r, ",")
				b.WriteString(strings.TrimPrefix(kv[0], "i=") + "," + strings.TrimPrefix(kv[1], "g=") + "\n")
			}
		case "tsv", "csvlite":
			sep := map[string]string{"tsv": "\t", "csvlite": ","}[fmtName]
			b.WriteString("i" + sep + "g\n")
			for _, r := range part {
				kv := strings.Split(r, ",")
				b.WriteString(strings.TrimPrefix(kv[0], "i=") + sep + strings.TrimPrefix(kv[1], "g=") + "\n")
			}
		case "nidx":
			for _, r := range part {
				kv := strings.Split(r, ",")
				b.WriteString(strings.TrimPrefix(kv[0], "i=") + " " + strings.TrimPrefix(kv[1], "g=") + "\n")
			}
		case "xtab":
			for k, r := range part {
				kv := strings.Split(r, ",")
				if k > 0 {
					b.WriteString("\n")
				}
				b.WriteString("i " + strings.TrimPrefix(kv[0], "i=") + "\ng " + strings.TrimPrefix(kv[1], "g=") + "\n")
			}
		case "pprint":
			if len(part) > 0 {
				b.WriteString("i g\n")
			}
			for _, r := range part {
				kv := strings.Split(r, ",")
				b.WriteString(strings.TrimPrefix(kv[0], "i=") + " " + strings.TrimPrefix(kv[1], "g=") + "\n")
			}
		case "dkvpx":
			for _, r := range part {
				kv := strings.Split(r, ",")
				b.WriteString(kv[0] + ",g=\"" + strings.TrimPrefix(kv[1], "g=") + "\"\n") // one quoted value per line
			}
		case "yaml":
			for _, r := range part {
				kv := strings.Split(r, ",")
				b.WriteString("- i: " + strings.TrimPrefix(kv[0], "i=") + "\n  g: " + strings.TrimPrefix(kv[1], "g=") + "\n")
			}
		case "markdown":
			if len(part) > 0 {
				b.WriteString("| i | g |\n| --- | --- |\n")
			}
			for _, r := range part {
				kv := strings.Split(r, ",")
				b.WriteString("| " + strings.TrimPrefix(kv[0], "i=") + " | " + strings.TrimPrefix(kv[1], "g=") + " |\n")
			}
		case "dcf", "recutils":
			for k, r := range part {
				kv := strings.Split(r, ",")
				if k > 0 {
					b.WriteString("\n")
				}
				b.WriteString("i: " + strings.TrimPrefix(kv[0], "i=") + "\ng: " + strings.TrimPrefix(kv[1], "g=") + "\n")
			}
		case "barred":
			if len(part) > 0 {
				b.WriteString("+---+---+\n| i | g |\n+---+---+\n")
			}
			for _, r := range part {
				kv := strings.Split(r, ",")
				b.WriteString("| " + strings.TrimPrefix(kv[0], "i=") + " | " + strings.TrimPrefix(kv[1], "g=") + " |\n")
			}
			if len(part) > 0 {
				b.WriteString("+---+---+\n")
			}
		case "jsonl":
			for _, r := range part {
				kv := strings.Split(r, ",")
				fmt.Fprintf(&b, "{\"i\": %s, \"g\": \"%s\"}\n", strings.TrimPrefix(kv[0], "i="), strings.TrimPrefix(kv[1], "g="))
			}
		case "json":
			b.WriteString("[\n")
			for k, r := range part {
				kv := strings.Split(r, ",")
				fmt.Fprintf(&b, `{"i": %s, "g": "%s"}`, strings.TrimPrefix(kv[0], "i="), strings.TrimPrefix(kv[1], "g="))
				if k < len(part)-1 {
					b.WriteString(",")
				}
				b.WriteString("\n")
			}
			b.WriteString("]\n")
		}
		in.Files = append(in.Files, b.String())
	}
	if fmtName == "yaml" {
		// the YAML reader delivers map keys in sorted order
		for i, r := range in.Recs {
			kv := strings.Split(r, ",")
			in.Recs[i] = kv[1] + "," + kv[0]
		}
	}
	return in
}

func join(recs []string) string {
	if len(recs) == 0 {
		return ""
	}
	return strings.Join(recs, "\n") + "\n"
}

func headN(recs []string, k int) []string {
	if k > len(recs) {
		k = len(recs)
	}
	return recs[:k]
}

func field(rec, key string) string {
	for _, kv := range strings.Split(rec, ",") {
		if strings.HasPrefix(kv, key+"=") {
			return kv[len(key)+1:]
		}
	}
	return ""
}

func chains(quick bool, n int) []chain {
	var cs []chain
	add := func(c chain) {
		if c.Name == "" {
			c.Name = strings.Join(append(append([]string{}, c.Flags...), c.Args...), " ")
		}
		cs = append(cs, c)
	}
	S := func(s string) []string { return strings.Fields(s) }
	add(chain{Args: S("cat"), Ref: func(r []string) (string, string, bool) { return join(r), "", true }})
	ks := []int{0, 1, 2, n}
	if !quick {
		ks = nil
		for k := 0; k <= n+1; k++ {
			ks = append(ks, k)
		}
	}
	seenK := map[int]bool{}
	for _, k := range ks {
		if k < 0 || seenK[k] {
			continue
		}
		seenK[k] = true
		k := k
		add(chain{Args: S(fmt.Sprintf("head -n %d", k)), Ref: func(r []string) (string, string, bool) { return join(headN(r, k)), "", true }})
		add(chain{Args: S(fmt.Sprintf("cat then head -n %d", k)), Ref: func(r []string) (string, string, bool) { return join(headN(r, k)), "", true }})
		add(chain{Args: S(fmt.Sprintf("tee @T then head -n %d", k)), Ref: func(r []string) (string, string, bool) { return join(headN(r, k)), join(r), true }})
		add(chain{Args: S(fmt.Sprintf("head -n %d then put $j=$i", k)), Ref: func(r []string) (string, string, bool) {
			var o []string
			for _, x := range headN(r, k) {
				o = append(o, x+",j="+field(x, "i"))
			}
			return join(o), "", true
		}})
		for _, j := range []int{0, 1, 2} {
			j := j
			if j > k+1 {
				continue
			}
			add(chain{Args: S(fmt.Sprintf("head -n %d then head -n %d", k, j)), Ref: func(r []string) (string, string, bool) { return join(headN(headN(r, k), j)), "", true }})
			if j <= 1 {
				add(chain{Args: S(fmt.Sprintf("head -n %d then tee @T then head -n %d", k, j)), Ref: func(r []string) (string, string, bool) {
					return join(headN(headN(r, k), j)), join(headN(r, k)), true
				}})
			}
		}
	}
	add(chain{Args: S("head -n 3 then head -n 2 then head -n 1"), Ref: func(r []string) (string, string, bool) { return join(headN(r, 1)), "", true }})
	add(chain{Args: S("head -n 2 then cat then head -n 1"), Ref: func(r []string) (string, string, bool) { return join(headN(r, 1)), "", true }})
	add(chain{Args: S("head -n 1 -g g"), Ref: func(r []string) (string, string, bool) {
		seen := map[string]bool{}
		var o []string
		for _, x := range r {
			if g := field(x, "g"); !seen[g] {
				seen[g] = true
				o = append(o, x)
			}
		}
		return join(o), "", true
	}})
	add(chain{Args: S("head -n 1 -g g then head -n 1"), Ref: func(r []string) (string, string, bool) { return join(headN(r, 1)), "", true }})
	add(chain{Args: S("tac"), Ref: func(r []string) (string, string, bool) {
		o := make([]string, len(r))
		for i, x := range r {
			o[len(r)-1-i] = x
		}
		return join(o), "", true
	}})
	add(chain{Args: S("tac then head -n 1"), Ref: func(r []string) (string, string, bool) {
		if len(r) == 0 {
			return "", "", true
		}
		return join(r[len(r)-1:]), "", true
	}})
	add(chain{Args: S("tail -n 1"), Ref: func(r []string) (string, string, bool) {
		if len(r) == 0 {
			return "", "", true
		}
		return join(r[len(r)-1:]), "", true
	}})
	add(chain{Args: S("sort -nr i"), Ref: func(r []string) (string, string, bool) {
		o := make([]string, len(r))
		for i, x := range r {
			o[len(r)-1-i] = x
		}
		return join(o), "", true
	}})
	add(chain{Args: S("nothing"), Ref: func(r []string) (string, string, bool) { return "", "", true }})
	add(chain{Args: S("filter $i!=2"), Ref: func(r []string) (string, string, bool) {
		var o []string
		for _, x := range r {
			if field(x, "i") != "2" {
				o = append(o, x)
			}
		}
		return join(o), "", true
	}})
	// stateful streaming verbs: state must survive batch boundaries (singleton law only)
	add(chain{Args: S("step -a delta,shift -f i")})
	add(chain{Args: S("cat -n -g g")})
	add(chain{Args: S("count-similar -g g")})
	add(chain{Args: S("uniq -g g -c")})
	add(chain{Args: S("stats1 -a sum,count -f i -g g")})
	add(chain{Args: S("decimate -n 2")})
	add(chain{Args: S("fill-down -a -f g then sec2gmt i")})
	add(chain{Args: S("count then put $j=1")})
	add(chain{Args: S("group-by g then head -n 1")})
	// verbs that amplify or drop records, combined with early exit
	rep := func(r []string, k int) []string {
		var o []string
		for _, x := range r {
			for j := 0; j < k; j++ {
				o = append(o, x)
			}
		}
		return o
	}
	add(chain{Args: S("repeat -n 3 then head -n 2"), Ref: func(r []string) (string, string, bool) { return join(headN(rep(r, 3), 2)), "", true }})
	add(chain{Args: S("repeat -n 2 then tee @T then head -n 1"), Ref: func(r []string) (string, string, bool) { return join(headN(rep(r, 2), 1)), join(rep(r, 2)), true }})
	add(chain{Args: S("head -n 2 then repeat -n 2"), Ref: func(r []string) (string, string, bool) { return join(rep(headN(r, 2), 2)), "", true }})
	add(chain{Args: S("unsparsify then head -n 1"), Ref: func(r []string) (string, string, bool) { return join(headN(r, 1)), "", true }})
	add(chain{Args: []string{"put", "-q", "emit $*", "then", "head", "-n", "1"}})
	add(chain{Args: S("nothing then cat"), Ref: func(r []string) (string, string, bool) { return "", "", true }})
	add(chain{Args: S("count-distinct -f g then head -n 1")})
	add(chain{Args: S("sec2gmt i then head -n 1")})
	// "a run that fails under one setting fails under all": the failing record is reached in every schedule (no early exit
	// in these chains), so every schedule and every batch size must fail
	add(chain{Args: []string{"put", "$y = asserting_int($g)"}, FailsFrom: 1})
	add(chain{Args: []string{"put", "if (NR == 2) {$y = asserting_null($i)}"}, FailsFrom: 2})
	add(chain{Args: []string{"cat", "then", "put", "-q", "if (NR == 3) {$y = asserting_null($i)} emit $*", "then", "cat"}, FailsFrom: 3})
	// a look-back window keeps reading records it has already passed on: the next verb's writes must not reach it
	add(chain{Args: []string{"step", "-a", "slwin_1_0,shift_lag", "-f", "i", "then", "put", "$i=$i*1000"}, Name: "step -a slwin_1_0,shift_lag -f i then put $i=$i*1000"})
	add(chain{Args: []string{"fill-down", "-a", "-f", "g", "then", "put", `$g=$g."y"`}, Name: `fill-down -a -f g then put $g=$g."y"`})
	// print / emit text rides the record stream: position relative to records
	add(chain{Args: []string{"put", `print "p".$i`}, Ref: func(r []string) (string, string, bool) {
		var b strings.Builder
		for _, x := range r {
			b.WriteString("p" + field(x, "i") + "\n" + x + "\n")
		}
		return b.String(), "", true
	}})
	add(chain{Args: []string{"put", "-q", `print "p".$i; emit mapsum({"e":$i},{"f":1})`}, Ref: func(r []string) (string, string, bool) {
		var b strings.Builder
		for _, x := range r {
			b.WriteString("p" + field(x, "i") + "\ne=" + field(x, "i") + ",f=1\n")
		}
		return b.String(), "", true
	}})
	add(chain{Args: []string{"put", `print "p".$i`, "then", "cat", "then", "head", "-n", "2"}})
	add(chain{Args: []string{"put", "-q", `@s[$g]=$i; end{emit @s,"g"; print "done"}`}})
	add(chain{Args: []string{"head", "-n", "2", "then", "put", `end{print "end"}`}})
	// A redirected tee inside put relays downstream-done like any other verb, so after a head
	// the reader may stop early: the file must hold a prefix of the stream that includes at least
	// every record passed on (predicate, evaluated in After), not necessarily all N.
	add(chain{Args: []string{"put", `tee > "@T", $*`, "then", "head", "-n", "1"}, TeePrefix: true, Ref: func(r []string) (string, string, bool) {
		return join(headN(r, 1)), "\x00absent", true
	}})
	add(chain{Args: []string{"put", `tee > "@T", $*`}, Ref: func(r []string) (string, string, bool) {
		if len(r) == 0 {
			return "", "\x00absent", true // a redirected tee opens its file on first write
		}
		return join(r), join(r), true
	}})
	// progress reporting and record hashing flags must not change stdout
	add(chain{Flags: S("--nr-progress-mod 1"), Args: S("cat"), Ref: func(r []string) (string, string, bool) { return join(r), "", true }})
	add(chain{Flags: S("--no-hash-records"), Args: S("sort -nr i then put $k=$g"), Name: "hashcmp: sort -nr i then put $k=$g"})
	add(chain{Flags: S("--hash-records"), Args: S("sort -nr i then put $k=$g"), Name: "hashcmp: sort -nr i then put $k=$g"})
	// seeded randomness
	add(chain{Flags: S("--seed 1"), Args: S("shuffle"), Seeded: true})
	add(chain{Flags: S("--seed 1"), Args: S("bootstrap"), Seeded: true})
	add(chain{Flags: S("--seed 1"), Args: S("sample -k 1 -g g"), Seeded: true})
	add(chain{Flags: S("--seed 1"), Args: []string{"put", "$r=urandint(1,1000)"}, Seeded: true})
	add(chain{Flags: S("--seed 1"), Args: []string{"put", "$r=urandint(1,1000)", "then", "put", "$s=urandint(1,1000)"}, Seeded: true})
	// boundary seeds: 0 must seed like any other value (not mean "no seed"), negative and hex spellings too
	for _, sd := range []string{"0", "0x0", "-1", "0xcafefeed"} {
		add(chain{Flags: []string{"--seed", sd}, Args: S("shuffle"), Seeded: true})
		add(chain{Flags: []string{"--seed", sd}, Args: []string{"put", "$r=urandint(1,1000); $u=urand32()"}, Seeded: true})
	}
	// --hash-records / --no-hash-records on records wide enough to be indexed (12 fields and more): a name that was
	// renamed, removed or re-created must resolve the same way with and without the index
	for _, wc := range [][]string{
		{"rename", "i,z", "then", "put", "$i=7"},
		{"rename", "g,i2", "then", "rename", "f05,g", "then", "put", "$g=$g.\"x\"; $i2=1"},
		{"cut", "-x", "-f", "i", "then", "put", "$i=1"},
		{"put", "unset $i; $i=2; unset $f07; $f07=3"},
		{"rename", "-r", "^f0(.)$,h\\1", "then", "put", "$f03=1; $h4=2"},
		{"reorder", "-e", "-f", "i", "then", "rename", "i,z", "then", "reorder", "-f", "z", "then", "put", "$i=5"},
		{"put", "$[[1]]=\"first\"; $i=9; $first=8"},
		{"sort-within-records", "then", "rename", "i,z", "then", "put", "$i=1; unset $z"},
		{"template", "-f", "z,i,g", "then", "rename", "z,i3", "then", "put", "$z=4"},
	} {
		for _, fl := range []string{"--hash-records", "--no-hash-records"} {
			add(chain{Flags: []string{fl}, Args: wc, Name: "hashcmp-wide: " + strings.Join(wc, " ")})
		}
	}
	// nested reader
	add(chain{Args: S("join -j g -f @L"), Aux: "g=a,l=1\ng=b,l=2\n"})
	add(chain{Args: S("join -j g -f @L then head -n 1"), Aux: "g=a,l=1\ng=b,l=2\n"})
	add(chain{Args: S("join -s -j g -f @L"), Aux: "g=a,l=1\ng=b,l=2\n"})
	// self-generating chains
	for _, m := range []int{0, 1, 3, 5} {
		m := m
		for _, k := range []int{0, 1, 2} {
			k := k
			add(chain{NoIn: true, Args: S(fmt.Sprintf("seqgen --start 1 --stop %d then head -n %d", m, k)), Batch: []int{1, 2, 500},
				Ref: func(r []string) (string, string, bool) {
					var o []string
					for i := 1; i <= m && i <= k; i++ {
						o = append(o, fmt.Sprintf("i=%d", i))
					}
					return join(o), "", true
				}})
		}
	}
	add(chain{NoIn: true, Args: S("seqgen --start 1 --stop 3 then tac"), Batch: []int{1, 500}})
	// the pseudo-reader (--igen) is a reader goroutine of its own
	for _, k := range []int{0, 1, 4} {
		k := k
		add(chain{GenIn: true, Flags: S("--igen --gen-start 1 --gen-stop 3"), Args: S(fmt.Sprintf("head -n %d", k)), Batch: []int{1, 2, 500},
			Ref: func(r []string) (string, string, bool) {
				var o []string
				for i := 1; i <= 3 && i <= k; i++ {
					o = append(o, fmt.Sprintf("i=%d", i))
				}
				return join(o), "", true
			}})
	}
	return cs
}

// ---------------------------------------------------------------- one configuration under the explorer

type config struct {
	Chain chain
	In    input
	B     int
}

func (c *config) argv(dir string) ([]string, vf.VFS) {
	var argv []string
	files := vf.VFS{}
	switch c.In.Fmt {
	case "dkvp":
	case "csv":
		argv = append(argv, "--icsv", "--odkvp")
	case "json":
		argv = append(argv, "--ijson", "--odkvp")
	case "tsv", "csvlite", "xtab", "pprint", "jsonl":
		argv = append(argv, "--i"+c.In.Fmt, "--odkvp")
	case "dkvpx", "yaml", "markdown", "dcf", "recutils":
		argv = append(argv, "-i", c.In.Fmt, "--odkvp")
	case "barred":
		argv = append(argv, "--ipprint", "--barred-input", "--odkvp")
	case "nidx":
		argv = append(argv, "--inidx", "--ifs", " ", "--oxtab", "--ops", "=") // field names 1,2: printed as 1=..,2=.. per line pair
	}
	argv = append(argv, c.In.Flags...)
	argv = append(argv, "--records-per-batch", fmt.Sprint(c.B))
	argv = append(argv, c.Chain.Flags...)
	if c.Chain.NoIn {
		argv = append(argv, "-n")
	}
	for _, a := range c.Chain.Args {
		a = strings.ReplaceAll(a, "@T", filepath.Join(dir, "tee.out"))
		a = strings.ReplaceAll(a, "@L", "/vfs/left.dkvp")
		argv = append(argv, a)
	}
	if c.Chain.Aux != "" {
		files["/vfs/left.dkvp"] = c.Chain.Aux
	}
	if !c.Chain.NoIn && !c.Chain.GenIn {
		for i, f := range c.In.Files {
			name := fmt.Sprintf("/vfs/in%d.%s", i+1, c.In.Fmt)
			files[name] = f
			argv = append(argv, name)
		}
	}
	return argv, files
}

func (c *config) spec(dir string) vf.ExploreSpec {
	argv, files := c.argv(dir)
	tee := filepath.Join(dir, "tee.out")
	return vf.ExploreSpec{
		Before: func() { os.Remove(tee) },
		Body: func() string {
			out, err := vf.InvokeMlr(argv, vf.MlrOpts{Files: files})
			e := "nil"
			if err != nil {
				e = err.Error()
			}
			if c.Chain.FailsFrom > 0 && err != nil {
				return "FAILED"
			}
			return "err=" + e + "\nstdout=" + out
		},
		After: func(o string, r *verifrt.Result) string {
			vf.TakeStderr()
			if b, err := os.ReadFile(tee); err == nil {
				if c.Chain.TeePrefix {
					all := join(c.In.Recs)
					if !strings.HasPrefix(all, string(b)) || (len(c.In.Recs) > 0 && !strings.HasPrefix(string(b), c.In.Recs[0]+"\n")) {
						o += "\ntee-not-a-prefix=" + string(b)
					}
				} else {
					o += "\ntee=" + string(b)
				}
			}
			return o
		},
		MaxExecs: 400000,
		MaxSteps: 100000,
	}
}

type cfgResult struct {
	Key      string
	Outcomes []string
}

func cfgKey(c *config) string {
	return fmt.Sprintf("%s|%s|b=%d", c.Chain.Name, c.In.Name, c.B)
}

// explore one configuration; report per-execution violations; return outcome set.
func exploreConfig(w *vf.Worker, c *config, dir string) []string {
	spec := c.spec(dir)
	if n := os.Getenv("VERIF_C04_RANDOM"); n != "" && os.Getenv("VERIF_C04_DEBUG") != "" {
		var k int
		fmt.Sscan(n, &k)
		h := vf.RandomWalks(spec, k, 1)
		df, _ := os.OpenFile(os.Getenv("VERIF_C04_DEBUG"), os.O_APPEND|os.O_CREATE|os.O_WRONLY, 0644)
		fmt.Fprintf(df, "RANDOM %s: %d walks\n", cfgKey(c), k)
		for o, cnt := range h {
			fmt.Fprintf(df, "   %d x %q\n", cnt, o)
		}
		df.Close()
	}
	if os.Getenv("VERIF_C04_AUDIT") != "" && os.Getenv("VERIF_C04_DEBUG") != "" {
		df, _ := os.OpenFile(os.Getenv("VERIF_C04_DEBUG"), os.O_APPEND|os.O_CREATE|os.O_WRONLY, 0644)
		fmt.Fprintf(df, "AUDIT %s\n", cfgKey(c))
		for _, f := range vf.AuditCaching(spec, 3000) {
			fmt.Fprintf(df, "   %s\n", f)
		}
		df.Close()
	}
	r := vf.Explore(spec)
	w.Rep.States += r.States
	w.Rep.Transitions += r.Transitions
	w.Eval(int64(r.Execs))
	w.Count("executions_completed", int64(r.Completed))
	w.Count("executions_cut_at_cached_state", int64(r.Cut))
	w.Count("branching_points", int64(r.Branchings))
	w.Count("configurations", 1)
	key := cfgKey(c)
	rp := func(sched []int) map[string]any {
		argv, _ := c.argv("@DIR")
		return map[string]any{"chain": c.Chain.Name, "input": c.In.Name, "b": c.B, "argv": argv, "files": c.In.Files, "aux": c.Chain.Aux, "schedule": sched}
	}
	if r.Stalled {
		w.Stalled("stall:"+key, "a goroutine ran 60 s without reaching a scheduling point (non-termination) in "+key, rp(r.StalledAt))
	}
	if !r.Exhaustive {
		w.Inexhaustive(fmt.Sprintf("%s: execution budget %d hit (states=%d)", key, spec.MaxExecs, r.States))
	}
	if r.Branchings == 0 {
		w.Count("vacuous_configurations_no_branching", 1)
	} else {
		w.Nontrivial(1)
	}
	if r.Deadlocks > 0 {
		w.Violation("deadlock:"+key, fmt.Sprintf("deadlock in %d of %d executions of `mlr %s` (blocked: %s)", r.Deadlocks, r.Execs, key, strings.Join(r.Blocked, " ")), rp(r.DeadlockAt))
	}
	if r.Horizons > 0 {
		w.Violation("horizon:"+key, fmt.Sprintf("step horizon exceeded in %d executions of %s (non-termination)", r.Horizons, key), rp(r.HorizonAt))
	}
	failedExits := 0
	for f, n := range r.Faults {
		if c.Chain.FailsFrom > 0 && strings.HasPrefix(f, "FAULT exit(") && !strings.HasPrefix(f, "FAULT exit(0)") {
			failedExits += n // the expected failure, taken through a library os.Exit in a verb goroutine
			continue
		}
		w.Violation("fault:"+key+":"+trunc(f, 80), fmt.Sprintf("%s in %d executions of %s", f, n, key), rp(r.FaultAt[f]))
	}
	outs := r.OutcomeList()
	if failedExits > 0 {
		has := false
		for _, o := range outs {
			has = has || o == "FAILED"
		}
		if !has {
			outs = append([]string{"FAILED"}, outs...)
		}
	}
	if c.Chain.FailsFrom > 0 {
		mustFail := len(c.In.Recs) >= c.Chain.FailsFrom
		for _, o := range outs {
			if (o == "FAILED") != mustFail {
				w.Violation("fails-under-some-settings-only:"+key, fmt.Sprintf("%s: the chain fails at record %d and the input has %d records, so every schedule must %s; but some execution ends with %q", key, c.Chain.FailsFrom, len(c.In.Recs), map[bool]string{true: "fail", false: "succeed"}[mustFail], trunc(o, 200)),
					map[string]any{"chain": c.Chain.Name, "input": c.In.Name, "b": c.B, "schedule": r.Witness[o]})
			}
		}
	}
	if os.Getenv("VERIF_C04_DEBUG") != "" {
		df, _ := os.OpenFile(os.Getenv("VERIF_C04_DEBUG"), os.O_APPEND|os.O_CREATE|os.O_WRONLY, 0644)
		fmt.Fprintf(df, "DEBUG %s: execs=%d completed=%d cut=%d states=%d outcomes=%d\n", key, r.Execs, r.Completed, r.Cut, r.States, len(outs))
		for _, o := range outs {
			fmt.Fprintf(df, "   %d x %q\n", r.Outcomes[o], o)
		}
		df.Close()
	}
	if len(outs) > 1 {
		w.Violation("schedule-dependent:"+key, fmt.Sprintf("%d distinct outcomes over the schedules of %s: %q vs %q", len(outs), key, trunc(outs[0], 300), trunc(outs[1], 300)),
			map[string]any{"chain": c.Chain.Name, "input": c.In.Name, "b": c.B, "schedule_a": r.Witness[outs[0]], "schedule_b": r.Witness[outs[1]], "outcome_a": outs[0], "outcome_b": outs[1]})
	}
	w.AddSet("outcomes", fmt.Sprint(len(outs)))
	return outs
}

func trunc(s string, n int) string {
	if len(s) > n {
		return s[:n] + "..."
	}
	return s
}

type pairKey struct{ chain, in string }

func enumerate(quick bool) (pairs [][]*config) {
	ns := []int{0, 1, 2, 3}
	if !quick {
		ns = []int{0, 1, 2, 3, 4, 5}
	}
	var inputs []input
	for _, n := range ns {
		inputs = append(inputs, mkInput("dkvp", n, 1))
	}
	nmax := ns[len(ns)-1]
	inputs = append(inputs, mkInput("dkvp", nmax, 2), mkInput("csv", 3, 1), mkInput("csv", nmax, 2), mkInput("json", 3, 1), mkInput("json", nmax, 2))
	for _, f := range []string{"tsv", "csvlite", "xtab", "pprint", "jsonl", "nidx", "dkvpx", "yaml", "markdown", "dcf", "recutils", "barred"} {
		inputs = append(inputs, mkInput(f, 3, 1))
		if !quick {
			inputs = append(inputs, mkInput(f, nmax, 2))
		}
	}
	if quick {
		// one longer input for the chains in which an early-exit signal overtakes a verb that must see everything
		// (tee before head): with N<=4 the reader has always read the whole input before it can notice the signal
		inputs = append(inputs, input{Name: "dkvp-long:N=5tee", Fmt: "dkvp", Files: mkInput("dkvp", 5, 1).Files, Recs: mkInput("dkvp", 5, 1).Recs})
	}
	// reader state that must survive batch boundaries: schema-change blocks (csvlite / pprint: a blank line, then a
	// new header), comment lines, implicit header, ragged rows, a header repeated in a second file
	for _, cut := range []int{1, 2, 3} {
		var recs []string
		lite := "i,g\n"
		pp := "i g\n"
		for i := 1; i <= 4; i++ {
			if i == cut+1 {
				lite += "\nj,g\n"
				pp += "\nj g\n"
			}
			k := "i"
			if i > cut {
				k = "j"
			}
			recs = append(recs, fmt.Sprintf("%s=%d,g=a", k, i))
			lite += fmt.Sprintf("%d,a\n", i)
			pp += fmt.Sprintf("%d a\n", i)
		}
		inputs = append(inputs,
			input{Name: fmt.Sprintf("csvlite-schema-change-after-%d", cut), Fmt: "csvlite", Files: []string{lite}, Recs: recs},
			input{Name: fmt.Sprintf("pprint-schema-change-after-%d", cut), Fmt: "pprint", Files: []string{pp}, Recs: recs})
	}
	inputs = append(inputs,
		input{Name: "csv-comments", Fmt: "csv", Flags: []string{"--skip-comments"}, Files: []string{"i,g\n1,a\n#x\n2,b\n#y\n#z\n3,a\n"}, Recs: []string{"i=1,g=a", "i=2,g=b", "i=3,g=a"}},
		input{Name: "dkvp-comments", Fmt: "dkvp", Flags: []string{"--skip-comments"}, Files: []string{"#c\ni=1,g=a\n#x\ni=2,g=b\ni=3,g=a\n#e\n"}, Recs: []string{"i=1,g=a", "i=2,g=b", "i=3,g=a"}},
		input{Name: "csv-implicit-header", Fmt: "csv", Flags: []string{"--implicit-csv-header"}, Files: []string{"1,a\n2,b\n3,a\n"}, Recs: []string{"1=1,2=a", "1=2,2=b", "1=3,2=a"}},
		input{Name: "csv-ragged", Fmt: "csv", Flags: []string{"--allow-ragged-csv-input"}, Files: []string{"i,g\n1,a\n2\n3,a,x\n"}, Recs: []string{"i=1,g=a", "i=2", "i=3,g=a,3=x"}},
		input{Name: "csv-two-files-other-header", Fmt: "csv", Files: []string{"i,g\n1,a\n2,b\n", "g,i\nb,3\n"}, Recs: []string{"i=1,g=a", "i=2,g=b", "g=b,i=3"}},
		input{Name: "csvlite-two-files-same-header", Fmt: "csvlite", Files: []string{"i,g\n1,a\n", "i,g\n2,b\n3,a\n"}, Recs: []string{"i=1,g=a", "i=2,g=b", "i=3,g=a"}},
		input{Name: "dkvp-late-group", Fmt: "dkvp", Files: []string{"i=1,g=a\ni=2,g=a\ni=3,g=a\ni=4,g=b\n"}, Recs: []string{"i=1,g=a", "i=2,g=a", "i=3,g=a", "i=4,g=b"}},
		input{Name: "dkvp-wide13", Fmt: "dkvp", Files: []string{"i=1,g=a,f03=3,f04=4,f05=5,f06=6,f07=7,f08=8,f09=9,f10=10,f11=11,f12=12,f13=13\ni=2,g=b,f03=3,f04=4,f05=5,f06=6,f07=7,f08=8,f09=9,f10=10,f11=11,f12=12,f13=13\n"},
			Recs: []string{"i=1,g=a,f03=3,f04=4,f05=5,f06=6,f07=7,f08=8,f09=9,f10=10,f11=11,f12=12,f13=13", "i=2,g=b,f03=3,f04=4,f05=5,f06=6,f07=7,f08=8,f09=9,f10=10,f11=11,f12=12,f13=13"}},
		input{Name: "dkvp-heterogeneous", Fmt: "dkvp", Files: []string{"i=1,g=a\nh=2\ni=3,g=b,k=9\ni=4\n"}, Recs: []string{"i=1,g=a", "h=2", "i=3,g=b,k=9", "i=4"}},
	)
	byName := map[pairKey][]*config{}
	var order []pairKey
	for _, in := range inputs {
		n := len(in.Recs)
		for _, ch := range chains(quick, n) {
			if (ch.NoIn || ch.GenIn) && in.Name != inputs[0].Name {
				continue
			}
			if in.Fmt == "nidx" && ch.FailsFrom > 0 {
				continue // the failing expressions name the fields i and g
			}
			if in.Fmt == "nidx" && (ch.Ref != nil || strings.Contains(ch.Name, "-g")) {
				ch.Ref = nil // positional field names: singleton law, deadlock and termination only
				if strings.Contains(ch.Name, "-g") {
					continue
				}
			}
			if in.Name == "dkvp-long:N=5tee" {
				if ch.Name != "tee @T then head -n 1" {
					continue
				}
				ch.Batch = []int{1}
			}
			if strings.HasPrefix(ch.Name, "hashcmp-wide:") != (in.Name == "dkvp-wide13") {
				continue
			}
			custom := strings.Contains(in.Name, "-") && !strings.Contains(in.Name, ":N=")
			if custom && in.Name != "dkvp-wide13" {
				keep := map[string]bool{"cat": true, "head -n 1": true, "head -n 2": true, "head -n 2 then head -n 1": true, "tac": true, "tail -n 1": true,
					"tee @T then head -n 1": true, "cat then head -n 2": true, "step -a delta,shift -f i": true, "cat -n -g g": true, "count-similar -g g": true,
					`put print "p".$i`: true, "nothing": true, "sort -nr i": true, "fill-down -a -f g then sec2gmt i": true}
				if in.Name == "dkvp-late-group" {
					// a group that first appears after every earlier group is complete: an early-exit signal must not hide it
					keep = map[string]bool{"head -n 1 -g g": true, "head -n 1 -g g then head -n 1": true, "uniq -g g -c": true, "group-by g then head -n 1": true, "cat -n -g g": true, "count-similar -g g": true}
				}
				if !keep[ch.Name] {
					continue
				}
			}
			if custom && ch.Ref != nil && !(ch.Name == "cat" || in.Name == "dkvp-late-group" || ch.Name == "tac" || ch.Name == "nothing" || strings.HasPrefix(ch.Name, "head -n") && !strings.Contains(ch.Name, "put") && !strings.Contains(ch.Name, "-g") || ch.Name == "tail -n 1" || strings.HasPrefix(ch.Name, "tee @T then head") || strings.HasPrefix(ch.Name, "cat then head")) {
				ch.Ref = nil // references that look inside the records assume the i/g schema: singleton law only
			}
			if in.Fmt != "dkvp" && !(strings.HasPrefix(ch.Name, "cat") || strings.HasPrefix(ch.Name, "head -n 1") || strings.HasPrefix(ch.Name, "head -n 2 then head") || ch.Name == "tac" || strings.HasPrefix(ch.Name, "tee")) {
				continue // other readers: the reader-facing chains only
			}
			if (quick || strings.Contains(in.Name, ":files=2")) && map[string]bool{"dkvpx": true, "yaml": true, "markdown": true, "dcf": true, "recutils": true, "barred": true}[in.Fmt] &&
				!map[string]bool{"cat": true, "head -n 1": true, "cat then head -n 1": true, "tee @T then head -n 1": true, "head -n 2 then head -n 1": true, "tac": true}[ch.Name] {
				continue // the less common readers run the core reader-facing chains only (quick tier; two-file N=5 inputs in the thorough tier)
			}
			bs := ch.Batch
			if bs == nil {
				for b := 1; b <= n+1; b++ {
					bs = append(bs, b)
				}
				if quick && n >= 3 && len(ch.Name) > 40 {
					bs = []int{1, 2, n + 1}
				}
			}
			pk := pairKey{ch.Name, in.Name}
			if _, ok := byName[pk]; !ok {
				order = append(order, pk)
			}
			for _, b := range bs {
				byName[pk] = append(byName[pk], &config{Chain: ch, In: in, B: b})
			}
		}
	}
	for _, pk := range order {
		pairs = append(pairs, byName[pk])
	}
	return pairs
}

func schedWorker(w *vf.Worker) {
	if !verifrt.Instrumented {
		w.Broken("C04 sched worker started in a build without sched instrumentation")
		return
	}
	dir, err := os.MkdirTemp("/dev/shm", "verif-c04-")
	if err != nil {
		w.Broken("tempdir: %v", err)
		return
	}
	defer os.RemoveAll(dir)
	pairs := enumerate(w.Quick())
	for i, cfgs := range pairs {
		idx := uint64(i + 1)
		if !w.Mine(idx) {
			continue
		}
		if f := os.Getenv("VERIF_C04_ONLY"); f != "" && !strings.Contains(cfgs[0].Chain.Name+"|"+cfgs[0].In.Name, f) {
			continue // debugging aid; forces exhaustive=false
		}
		w.Begin(idx)
		w.Label(func() string { return cfgs[0].Chain.Name + " | " + cfgs[0].In.Name })
		union := map[string][]int{}
		for _, c := range cfgs {
			for _, o := range exploreConfig(w, c, dir) {
				union[o] = append(union[o], c.B)
			}
		}
		ch, in := cfgs[0].Chain, cfgs[0].In
		pkey := ch.Name + "|" + in.Name
		if len(union) > 1 {
			var outs []string
			for o := range union {
				outs = append(outs, o)
			}
			sort.Strings(outs)
			w.Violation("batch-dependent:"+pkey, fmt.Sprintf("outcome depends on --records-per-batch for `%s` on %s: b=%v gives %q but b=%v gives %q", ch.Name, in.Name, union[outs[0]], trunc(outs[0], 300), union[outs[1]], trunc(outs[1], 300)),
				map[string]any{"chain": ch.Name, "input": in.Name, "files": in.Files, "outcomes": union})
		}
		if ch.Ref != nil && len(union) >= 1 {
			recs := in.Recs
			stdout, tee, _ := ch.Ref(recs)
			exp := "err=nil\nstdout=" + stdout
			if strings.Contains(strings.Join(ch.Args, " "), "@T") && tee != "\x00absent" {
				exp += "\ntee=" + tee
			}
			for o, bs := range union {
				if o != exp {
					w.Violation("reference:"+pkey, fmt.Sprintf("`mlr %s` on %s (b=%v): got %q, sequential reference says %q", ch.Name, in.Name, bs, trunc(o, 400), trunc(exp, 400)),
						map[string]any{"chain": ch.Name, "input": in.Name, "files": in.Files, "got": o, "expected": exp, "b": bs})
				}
			}
			w.Count("pairs_with_reference", 1)
		}
		w.Count("chain_input_pairs", 1)
		if len(w.Rep.Samples) < 2 {
			argv, _ := cfgs[0].argv("@DIR")
			w.Sample(map[string]any{"argv": argv, "input_files": in.Files, "batch_sizes": len(cfgs), "distinct_outcomes_over_all_schedules_and_batch_sizes": len(union)})
		}
	}
	// hashcmp: the two hashing flags form one pair by name above (same chain name => same pair) so the
	// singleton law across them is already enforced by the union.
}

// auditWorker cross-examines the explorer itself on a few configurations: (1) every state met by uniformly random
// walks (no caching) must have been expanded by the cached DFS with the SAME option set (equal keys must imply equal
// enabled options), and (2) every outcome a random walk produces must be among the outcomes of the exhaustive search.
// A failure is an infrastructure error (BROKEN), never a verdict about Miller. It decides nothing by sampling: it
// guards the soundness of the state caching, which once merged "goroutine not started" with "started and parked".
func auditWorker(w *vf.Worker) {
	if !verifrt.Instrumented {
		w.Broken("C04 audit worker started in a build without sched instrumentation")
		return
	}
	dir, err := os.MkdirTemp("/dev/shm", "verif-c04a-")
	if err != nil {
		w.Broken("tempdir: %v", err)
		return
	}
	defer os.RemoveAll(dir)
	want := map[string]bool{"cat|dkvp:N=2:files=1|b=1": true, "head -n 1|dkvp:N=3:files=1|b=1": true, "tee @T then head -n 1|dkvp:N=2:files=1|b=1": true,
		"head -n 2 then head -n 1|csv:N=3:files=1|b=2": true, "tac|json:N=3:files=1|b=1": true, `put print "p".$i|dkvp:N=2:files=1|b=1`: true,
		"join -j g -f @L|dkvp:N=2:files=1|b=1": true, "cat then head -n 1|dkvp:N=3:files=1|b=2": true}
	var idx uint64
	for _, cfgs := range enumerate(true) {
		for _, cf := range cfgs {
			if !want[cfgKey(cf)] {
				continue
			}
			idx++
			if !w.Mine(idx) {
				continue
			}
			w.Begin(idx)
			w.Label(func() string { return "audit " + cfgKey(cf) })
			spec := cf.spec(dir)
			findings := vf.AuditCaching(spec, 1500)
			for _, f := range findings[1:] {
				w.Broken("explorer self-audit failed on %s: %s", cfgKey(cf), f)
			}
			r := vf.Explore(spec)
			for o := range vf.RandomWalks(spec, 1500, int64(idx)) {
				if _, ok := r.Outcomes[o]; !ok && !strings.HasPrefix(o, "DEADLOCK") {
					w.Broken("explorer self-audit failed on %s: a random walk produced an outcome the exhaustive search did not: %q", cfgKey(cf), trunc(o, 200))
				}
			}
			w.Count("explorer_self_audits", 1)
			w.Count("explorer_self_audit_random_walks", 3000)
		}
	}
}

func run(c *vf.Ctx) {
	c.Rule = "each configuration = (verb chain, input, --records-per-batch b); every configuration is explored over ALL goroutine schedules of the real pipeline (cooperative scheduler over rewritten channel ops/selects/spawns, DFS by re-execution, state caching on per-goroutine histories + channel contents). evaluations = executions run; distinct_nontrivial = configurations whose schedule space had at least one branching point; states = distinct global states at branching points; transitions = scheduler steps"
	c.Assume("goroutines interact only through intercepted operations (channels, selects, close, mutex); unsynchronised shared memory is invisible to the cooperative scheduler (guarded by a separate free-running -race pass, non-deciding)")
	c.Assume("external processes (--prepipe, tee -p, | redirects) are outside the scheduler and not explored here")
	c.Assume("tail -f clause: line-oriented readers (dkvp nidx csv tsv jsonl csvlite) x streaming chains, one line delivered at a time through a scheduler-visible channel; checked at every quiescent state with the input still open")
	c.Assume("inputs: N<=3 (quick, plus one N=5 tee-before-head family) / N<=5 (thorough) records, 1-2 files, every reader format (dkvp csv json jsonl tsv csvlite xtab pprint barred-pprint nidx dkvpx yaml markdown dcf recutils) and the --igen pseudo-reader; batch sizes 1..N+1")
	c.Assume("the schedule exploration assumes verb goroutines share no memory except through intercepted operations; that assumption is checked by the free-running -race pass (verb x verb, verb-then-mutator, and every built-in function in two put stages), whose silence is a dynamic observation, not an enumeration")
	if os.Getenv("VERIF_C04_ONLY_RACE") != "" {
		// debugging aid: only the -race pass (evidence is then not representative: exhaustive=false)
		c.Exhaustive = false
		rdir, _ := os.MkdirTemp("/dev/shm", "verif-c04race-")
		c.RunPool(vf.PoolSpec{Worker: "race", Bin: os.Getenv("VERIF_BIN_RACE"), Shards: 16, StallSecs: 900, Env: []string{"VERIF_AS_GB=24", "VERIF_RACE_LOG=" + filepath.Join(rdir, "race"), "GORACE=halt_on_error=0 exitcode=0 log_path=" + filepath.Join(rdir, "race")}})

		c.RunPool(vf.PoolSpec{Worker: "racefunc", Bin: os.Getenv("VERIF_BIN_RACE"), Shards: 16, StallSecs: 900, Env: []string{"VERIF_AS_GB=24", "VERIF_RACE_LOG=" + filepath.Join(rdir, "race"), "GORACE=halt_on_error=0 exitcode=0 log_path=" + filepath.Join(rdir, "race")}})
		os.RemoveAll(rdir)
		c.DistinctNontrivial = 2
		return
	}
	pairs := enumerate(c.Quick())
	ncfg := 0
	for _, p := range pairs {
		ncfg += len(p)
	}
	if os.Getenv("VERIF_C04_ONLY") != "" {
		c.Exhaustive = false
	}
	c.Extra["chain_input_pairs_enumerated"] = len(pairs)
	c.Extra["configurations_enumerated"] = ncfg
	res := c.RunPool(vf.PoolSpec{Worker: "sched", Sched: true, Shards: len(pairs), StallSecs: 600,
		CrashKey: func(idx uint64, label, kind, tail string) (string, string) {
			return "crash:" + label, fmt.Sprintf("worker %s while exploring %s: %s", kind, label, trunc(tail, 600))
		}})
	c.RunPool(vf.PoolSpec{Worker: "arrival", Sched: true, Shards: len(arrivalConfigs(c.Quick())), StallSecs: 600,
		CrashKey: func(idx uint64, label, kind, tail string) (string, string) {
			return "crash:" + label, fmt.Sprintf("worker %s while exploring %s: %s", kind, label, trunc(tail, 600))
		}})
	c.RunPool(vf.PoolSpec{Worker: "audit", Sched: true, Shards: 8, StallSecs: 600})
	if c.Counters["explorer_self_audits"] < 6 {
		c.Broken("explorer self-audit ran on %d configurations only (expected 8): the audited configuration names no longer exist", c.Counters["explorer_self_audits"])
	}
	if rb := os.Getenv("VERIF_BIN_RACE"); rb != "" {
		rdir, _ := os.MkdirTemp("/dev/shm", "verif-c04race-")
		c.RunPool(vf.PoolSpec{Worker: "race", Bin: rb, Shards: 16, StallSecs: 900, Env: []string{"VERIF_AS_GB=24", "VERIF_RACE_LOG=" + filepath.Join(rdir, "race"), "GORACE=halt_on_error=0 exitcode=0 log_path=" + filepath.Join(rdir, "race")}})

		c.RunPool(vf.PoolSpec{Worker: "racefunc", Bin: rb, Shards: 16, StallSecs: 900, Env: []string{"VERIF_AS_GB=24", "VERIF_RACE_LOG=" + filepath.Join(rdir, "race"), "GORACE=halt_on_error=0 exitcode=0 log_path=" + filepath.Join(rdir, "race")}})
		os.RemoveAll(rdir)
		c.Assume("the free-running -race pass is sampling: it decides nothing about schedules; it validates the no-shared-memory assumption of the exhaustive exploration and reports what the detector sees")
	} else {
		c.Broken("race-detector build missing (VERIF_BIN_RACE)")
	}
	c.Extra["arrival_history_configurations"] = len(arrivalConfigs(c.Quick()))
	c.TracesValidated = c.Counters["executions_completed"]
	c.Extra["distinct_outcome_counts_per_configuration"] = vf.SortedSet(res, "outcomes")
	c.Extra["note_traces"] = "exploration is on the implementation itself: every execution is an implementation trace (traces_validated_against_impl = completed executions)"
}

func replay(c *vf.Ctx, raw json.RawMessage) {
	if !verifrt.Instrumented {
		vf.ExecSchedReplay("C04", c.Only)
		return
	}
	var rp struct {
		Chain    string `json:"chain"`
		Input    string `json:"input"`
		B        int    `json:"b"`
		Schedule []int  `json:"schedule"`
		SchedA   []int  `json:"schedule_a"`
		SchedB   []int  `json:"schedule_b"`
	}
	json.Unmarshal(raw, &rp)
	dir, _ := os.MkdirTemp("/dev/shm", "verif-c04r-")
	defer os.RemoveAll(dir)
	for _, quick := range []bool{true, false} {
		for _, cfgs := range enumerate(quick) {
			for _, cf := range cfgs {
				if cf.Chain.Name == rp.Chain && cf.In.Name == rp.Input && cf.B == rp.B {
					for _, sched := range [][]int{rp.Schedule, rp.SchedA, rp.SchedB} {
						if sched == nil {
							continue
						}
						// replayed twice: identical observations are required before a schedule is believed
						o1, r1 := vf.ReplaySchedule(cf.spec(dir), sched)
						o2, r2 := vf.ReplaySchedule(cf.spec(dir), sched)
						fmt.Printf("replay of %s\n  schedule %v\n  deadlock=%v horizon=%v fault=%v steps=%d\n  outcome: %q\n", cfgKey(cf), sched, r1.Deadlock, r1.Horizon, r1.Fault != nil, r1.Steps, o1)
						if r1.Deadlock {
							fmt.Printf("  blocked: %v\n", r1.Blocked)
						}
						fmt.Printf("  trace (goroutine:operation@site):\n")
						for i, t := range r1.Trace {
							fmt.Printf("    %3d %s\n", i, t)
						}
						if o1 != o2 || r1.Deadlock != r2.Deadlock || r1.Steps != r2.Steps {
							fmt.Printf("BROKEN: property=C04 the same schedule produced different observations on two replays (uncontrolled nondeterminism)\n")
						} else {
							fmt.Printf("  second replay: identical observations\n")
						}
					}
					return
				}
			}
		}
	}
	fmt.Println("replay: configuration not found in the current enumeration")
}
