// Package c19: check for property C19 (see /verif/DESIGN.md §3 C19).
package c19
