// Package c19: in-place mode never leaves a file half-written. E4: the real
// `mlr -I` binary is run under strace; the logged syscall history (temp
// creation, every write with its bytes, close, rename, chmod, unlink) is
// replayed on a directory model at EVERY prefix and, for every write, at every
// byte truncation (torn write); the invariant is evaluated on each crash
// state. Positional fault scenarios run on the real binary.
package c19

import (
	"bytes"
	"compress/gzip"
	"compress/zlib"
	"fmt"
	"io"
	"os"
	"os/exec"
	"path/filepath"
	"regexp"
	"sort"
	"strconv"
	"strings"
	"syscall"
	"time"

	"verif/harness/vf"
)

func init() {
	vf.Register(&vf.CheckDef{ID: "C19", Level: "fault_enumeration", Run: run,
		Workers: map[string]vf.WorkerFunc{"crash": crashWorker, "fault": faultWorker, "sched": schedWorker}})
}

// ---------------------------------------------------------------- strace log parsing

type event struct {
	Pid  int
	Call string
	Args []string // raw argument tokens
	Ret  int
	Line string
}

var lineRe = regexp.MustCompile(`^(\d+)\s+(.*)$`)
var callRe = regexp.MustCompile(`^(\w+)\((.*)\)\s+=\s+(-?\d+|\?)(.*)$`)
var unfinishedRe = regexp.MustCompile(`^(\w+)\((.*) <unfinished \.\.\.>$`)
var trackedRe = regexp.MustCompile(`\b(open|openat|write|close|rename|renameat|renameat2|fchmodat|chmod|fchmod|unlinkat|unlink|ftruncate|pwrite64|writev)\(`)
var resumedRe = regexp.MustCompile(`^<\.\.\. (\w+) resumed>(.*)$`)

func splitArgs(s string) []string {
	var out []string
	depth, inStr, esc := 0, false, false
	cur := strings.Builder{}
	for i := 0; i < len(s); i++ {
		ch := s[i]
		if inStr {
			cur.WriteByte(ch)
			if esc {
				esc = false
			} else if ch == '\\' {
				esc = true
			} else if ch == '"' {
				inStr = false
			}
			continue
		}
		switch ch {
		case '"':
			inStr = true
			cur.WriteByte(ch)
		case '(', '[', '{':
			depth++
			cur.WriteByte(ch)
		case ')', ']', '}':
			depth--
			cur.WriteByte(ch)
		case ',':
			if depth == 0 {
				out = append(out, strings.TrimSpace(cur.String()))
				cur.Reset()
			} else {
				cur.WriteByte(ch)
			}
		default:
			cur.WriteByte(ch)
		}
	}
	if strings.TrimSpace(cur.String()) != "" {
		out = append(out, strings.TrimSpace(cur.String()))
	}
	return out
}

// decode a strace -xx string literal "\x61\x62"... (possibly followed by "...")
func decodeStr(tok string) ([]byte, bool) {
	if len(tok) < 2 || tok[0] != '"' {
		return nil, false
	}
	end := strings.LastIndex(tok, `"`)
	body := tok[1:end]
	truncated := strings.HasSuffix(tok, "...")
	var out []byte
	for i := 0; i < len(body); {
		if body[i] == '\\' && i+3 < len(body)+0 && body[i+1] == 'x' {
			v, err := strconv.ParseUint(body[i+2:i+4], 16, 8)
			if err != nil {
				return nil, false
			}
			out = append(out, byte(v))
			i += 4
		} else {
			out = append(out, body[i])
			i++
		}
	}
	return out, !truncated
}

func parseLog(text string) ([]event, error) {
	var evs []event
	pending := map[int]string{}
	for _, ln := range strings.Split(text, "\n") {
		if ln == "" {
			continue
		}
		m := lineRe.FindStringSubmatch(ln)
		if m == nil {
			return nil, fmt.Errorf("unparsable strace line %q", trunc(ln, 200))
		}
		pid, _ := strconv.Atoi(m[1])
		rest := m[2]
		if strings.HasPrefix(rest, "+++") || strings.HasPrefix(rest, "---") {
			continue
		}
		if strings.Contains(rest, "???") {
			// a thread caught while exiting: strace does not know the call ("???( <unfinished ...>", "<... ??? resumed>");
			// never one of the traced file operations
			continue
		}
		if u := unfinishedRe.FindStringSubmatch(rest); u != nil {
			pending[pid] = u[1] + "(" + u[2]
			continue
		}
		if r := resumedRe.FindStringSubmatch(rest); r != nil {
			p, ok := pending[pid]
			if !ok {
				return nil, fmt.Errorf("resumed without unfinished: %q", trunc(ln, 200))
			}
			delete(pending, pid)
			rest = p + r[2]
		}
		c := callRe.FindStringSubmatch(rest)
		if c == nil {
			if trackedRe.MatchString(rest) {
				return nil, fmt.Errorf("unparsable strace call %q", trunc(rest, 200))
			}
			continue // not a file operation we model (e.g. an exit notification)
		}
		ret := 0
		if c[3] == "?" {
			ret = -1
		} else {
			ret, _ = strconv.Atoi(c[3])
		}
		evs = append(evs, event{Pid: pid, Call: c[1], Args: splitArgs(c[2]), Ret: ret, Line: trunc(rest, 160)})
	}
	return evs, nil
}

func trunc(s string, n int) string {
	if len(s) > n {
		return s[:n] + "..."
	}
	return s
}

// ---------------------------------------------------------------- directory model

type inode struct {
	data []byte
	mode uint32
}

type fdEnt struct {
	ino    *inode
	off    int
	append bool
}

type dirModel struct {
	names map[string]*inode
	fds   map[int]*fdEnt
}

func (d *dirModel) clone() *dirModel {
	n := &dirModel{names: map[string]*inode{}, fds: map[int]*fdEnt{}}
	m := map[*inode]*inode{}
	cp := func(i *inode) *inode {
		if c, ok := m[i]; ok {
			return c
		}
		c := &inode{data: append([]byte{}, i.data...), mode: i.mode}
		m[i] = c
		return c
	}
	for k, v := range d.names {
		n.names[k] = cp(v)
	}
	for k, v := range d.fds {
		n.fds[k] = &fdEnt{ino: cp(v.ino), off: v.off, append: v.append}
	}
	return n
}

func norm(p string) (string, bool) {
	if strings.HasPrefix(p, "/") {
		return "", false
	}
	return filepath.Clean(p), true
}

// apply one event; partial >= 0 means: a write torn after `partial` bytes.
// Returns whether the event touched the model.
func (d *dirModel) apply(e event, partial int) (bool, error) {
	str := func(i int) (string, bool) {
		if i >= len(e.Args) {
			return "", false
		}
		b, ok := decodeStr(e.Args[i])
		if !ok {
			return "", false
		}
		return norm(string(b))
	}
	switch e.Call {
	case "openat", "open":
		pi, fi := 1, 2
		if e.Call == "open" {
			pi, fi = 0, 1
		}
		if e.Ret < 0 {
			return false, nil
		}
		p, ok := str(pi)
		if !ok {
			delete(d.fds, e.Ret) // an untracked file took this descriptor number
			return false, nil
		}
		flags := e.Args[fi]
		ino := d.names[p]
		if ino == nil {
			if !strings.Contains(flags, "O_CREAT") {
				return false, fmt.Errorf("open of unknown relative path %q without O_CREAT succeeded", p)
			}
			mode := uint64(0644)
			if fi+1 < len(e.Args) {
				mode, _ = strconv.ParseUint(e.Args[fi+1], 8, 32)
			}
			ino = &inode{mode: uint32(mode) &^ 022}
			d.names[p] = ino
		}
		if strings.Contains(flags, "O_TRUNC") {
			ino.data = nil
		}
		if strings.Contains(flags, "O_WRONLY") || strings.Contains(flags, "O_RDWR") {
			d.fds[e.Ret] = &fdEnt{ino: ino, append: strings.Contains(flags, "O_APPEND")}
			return true, nil
		}
		delete(d.fds, e.Ret)
		return false, nil
	case "close":
		fd, _ := strconv.Atoi(e.Args[0])
		if _, ok := d.fds[fd]; ok {
			delete(d.fds, fd)
			return true, nil
		}
		return false, nil
	case "write":
		fd, _ := strconv.Atoi(e.Args[0])
		f, ok := d.fds[fd]
		if !ok || e.Ret <= 0 {
			return false, nil
		}
		data, complete := decodeStr(e.Args[1])
		if !complete && len(data) < e.Ret {
			return false, fmt.Errorf("strace truncated a write payload (%d < %d)", len(data), e.Ret)
		}
		n := e.Ret
		if partial >= 0 && partial < n {
			n = partial
		}
		if f.append {
			f.off = len(f.ino.data)
		}
		for len(f.ino.data) < f.off {
			f.ino.data = append(f.ino.data, 0)
		}
		f.ino.data = append(f.ino.data[:f.off], data[:n]...)
		f.off += n
		return true, nil
	case "rename", "renameat", "renameat2":
		oi, ni := 0, 1
		if e.Call != "rename" {
			oi, ni = 1, 3
		}
		if e.Ret != 0 {
			return false, nil
		}
		o, ok1 := str(oi)
		n, ok2 := str(ni)
		if !ok1 || !ok2 {
			return false, nil
		}
		ino := d.names[o]
		if ino == nil {
			return false, fmt.Errorf("rename of unknown %q", o)
		}
		d.names[n] = ino
		delete(d.names, o)
		return true, nil
	case "chmod", "fchmodat":
		pi, mi := 0, 1
		if e.Call == "fchmodat" {
			pi, mi = 1, 2
		}
		if e.Ret != 0 {
			return false, nil
		}
		p, ok := str(pi)
		if !ok {
			return false, nil
		}
		ino := d.names[p]
		if ino == nil {
			return false, fmt.Errorf("chmod of unknown %q", p)
		}
		mode, _ := strconv.ParseUint(e.Args[mi], 8, 32)
		ino.mode = uint32(mode)
		return true, nil
	case "fchmod":
		fd, _ := strconv.Atoi(e.Args[0])
		if f, ok := d.fds[fd]; ok && e.Ret == 0 {
			mode, _ := strconv.ParseUint(e.Args[1], 8, 32)
			f.ino.mode = uint32(mode)
			return true, nil
		}
		return false, nil
	case "unlink", "unlinkat":
		pi := 0
		if e.Call == "unlinkat" {
			pi = 1
		}
		if e.Ret != 0 {
			return false, nil
		}
		p, ok := str(pi)
		if !ok {
			return false, nil
		}
		if d.names[p] == nil {
			return false, fmt.Errorf("unlink of unknown %q", p)
		}
		delete(d.names, p)
		return true, nil
	case "ftruncate":
		fd, _ := strconv.Atoi(e.Args[0])
		if f, ok := d.fds[fd]; ok && e.Ret == 0 {
			n, _ := strconv.Atoi(e.Args[1])
			if n < len(f.ino.data) {
				f.ino.data = f.ino.data[:n]
			}
			return true, nil
		}
		return false, nil
	case "pwrite64", "writev":
		fd, _ := strconv.Atoi(e.Args[0])
		if _, ok := d.fds[fd]; ok {
			return false, fmt.Errorf("%s on a tracked file is not modelled", e.Call)
		}
	}
	return false, nil
}

// ---------------------------------------------------------------- scenarios

type fileSpec struct {
	Name string
	Data []byte
	Mode uint32
}

type scenario struct {
	Name  string
	Args  []string // mlr arguments between -I and the file names
	Files []fileSpec
	Comp  string // "", "gz", "z"
}

func recs(format string, n int, seed int) []byte {
	var b bytes.Buffer
	switch format {
	case "dkvp":
		for i := 1; i <= n; i++ {
			fmt.Fprintf(&b, "a=%d,b=%d,s=x%d\n", i+seed, (i*7+seed)%5, i)
		}
	case "csv":
		b.WriteString("a,b,s\n")
		for i := 1; i <= n; i++ {
			fmt.Fprintf(&b, "%d,%d,x%d\n", i+seed, (i*7+seed)%5, i)
		}
	case "json":
		b.WriteString("[\n")
		for i := 1; i <= n; i++ {
			fmt.Fprintf(&b, `{"a": %d, "b": %d, "s": "x%d"}`, i+seed, (i*7+seed)%5, i)
			if i < n {
				b.WriteString(",")
			}
			b.WriteString("\n")
		}
		b.WriteString("]\n")
	}
	return b.Bytes()
}

func compress(kind string, data []byte) []byte {
	var b bytes.Buffer
	switch kind {
	case "gz":
		w := gzip.NewWriter(&b)
		w.Write(data)
		w.Close()
	case "z":
		w := zlib.NewWriter(&b)
		w.Write(data)
		w.Close()
	default:
		return data
	}
	return b.Bytes()
}

func decompress(kind string, data []byte) ([]byte, error) {
	switch kind {
	case "gz":
		r, err := gzip.NewReader(bytes.NewReader(data))
		if err != nil {
			return nil, err
		}
		return io.ReadAll(r)
	case "z":
		r, err := zlib.NewReader(bytes.NewReader(data))
		if err != nil {
			return nil, err
		}
		return io.ReadAll(r)
	}
	return data, nil
}

func scenarios(quick bool) []scenario {
	var out []scenario
	type verb struct {
		name string
		args []string
	}
	verbs := []verb{
		{"cat", []string{"cat"}}, {"head1", []string{"head", "-n", "1"}}, {"put", []string{"put", "$c=$a+$b"}},
		{"sort", []string{"sort", "-nr", "a"}}, {"tac", []string{"tac"}}, {"nothing", []string{"nothing"}},
		{"put-q-end-emit", []string{"put", "-q", "@n[NR]=$a; end{emit @n}"}}, {"cat-n", []string{"cat", "-n"}},
		{"put-begin-end", []string{"put", `begin{@c=0} @c+=1; $nr=NR; $fnr=FNR; $fn=FILENAME; end{emit @c}`}},
		// process-wide settings that -I must re-establish for every file (it re-parses the command line per file)
		{"seed-shuffle", []string{"--seed", "1", "shuffle"}},
		{"seed-urandint", []string{"--seed", "7", "put", "$r=urandint(1,1000)"}},
		{"seed-bootstrap", []string{"--seed", "3", "bootstrap"}},
		{"seed-sample", []string{"--seed", "5", "sample", "-k", "2"}},
		{"ofmt", []string{"--ofmt", "%.3f", "put", "$c=$a/7"}},
		{"batch1-head-tac", []string{"--records-per-batch", "1", "head", "-n", "2", "then", "tac"}},
		{"nr-progress", []string{"--nr-progress-mod", "2", "cat"}},
		{"infer-none", []string{"-S", "put", `$c=$a."x"`}},
		{"infer-octal", []string{"-O", "put", "$c=$a+1"}},
	}
	formats := []string{"dkvp", "csv", "json"}
	lists := [][]int{{3}, {0}, {1, 3}, {3, 0, 1}, {300}} // record counts per file; 300 records ~ 5 kB > bufio's 4096
	modes := []uint32{0644, 0600, 0755}
	comps := []string{"", "gz", "z"}
	k := 0
	for vi, v := range verbs {
		for fi, f := range formats {
			for li, l := range lists {
				for ci, comp := range comps {
					k++
					if quick {
						// a covering subset: every verb, format, list shape, compression and mode appears
						if !((vi+fi+li+ci)%7 == 0 || (vi == 2 && li == 3) || (li == 4 && fi == 0 && ci == 0 && vi < 3) || (vi >= 9 && li == 3 && ci == 0 && fi == (vi%3))) {
							continue
						}
					} else if comp != "" && li == 4 && vi > 2 {
						continue
					}
					if f == "csv" && v.name == "put-begin-end" {
						continue // the end-block record has other keys: not expressible after a CSV header (that is C17's subject)
					}
					sc := scenario{Comp: comp}
					ext := f
					flag := map[string][]string{"dkvp": nil, "csv": {"--icsv", "--ocsv"}, "json": {"--ijson", "--ojson"}}[f]
					sc.Args = append(append([]string{}, flag...), v.args...)
					for i, n := range l {
						name := fmt.Sprintf("f%d.%s", i+1, ext)
						if i == 1 {
							name = filepath.Join("sub", name) // a file in a subdirectory: the temp file must live next to it
						}
						if comp != "" {
							name += "." + comp
						}
						sc.Files = append(sc.Files, fileSpec{Name: name, Data: compress(comp, recs(f, n, i*10)), Mode: modes[(k+i)%3]})
					}
					sc.Name = fmt.Sprintf("%s:%s:%v:%s", v.name, f, l, map[string]string{"": "plain", "gz": "gz", "z": "zlib"}[comp])
					out = append(out, sc)
				}
			}
		}
	}
	return out
}

// ---------------------------------------------------------------- running the real binary

func setup(dir string, files []fileSpec) error {
	os.MkdirAll(filepath.Join(dir, "sub"), 0755)
	for _, f := range files {
		p := filepath.Join(dir, f.Name)
		if err := os.WriteFile(p, f.Data, 0644); err != nil {
			return err
		}
		if err := os.Chmod(p, os.FileMode(f.Mode)); err != nil {
			return err
		}
	}
	return nil
}

func runIn(dir string, deadline time.Duration, name string, args ...string) (stdout, stderr []byte, code int, timedOut bool) {
	cmd := exec.Command(name, args...)
	cmd.Dir = dir
	cmd.Env = append(os.Environ(), "MLRRC=__none__", "TMPDIR=/nonexistent-tmpdir")
	cmd.SysProcAttr = &syscall.SysProcAttr{Setpgid: true}
	var ob, eb bytes.Buffer
	cmd.Stdout, cmd.Stderr = &ob, &eb
	if err := cmd.Start(); err != nil {
		return nil, []byte(err.Error()), -1, false
	}
	done := make(chan error, 1)
	go func() { done <- cmd.Wait() }()
	select {
	case err := <-done:
		if err != nil {
			if ee, ok := err.(*exec.ExitError); ok {
				return ob.Bytes(), eb.Bytes(), ee.ExitCode(), false
			}
			return ob.Bytes(), eb.Bytes(), -1, false
		}
		return ob.Bytes(), eb.Bytes(), 0, false
	case <-time.After(deadline):
		syscall.Kill(-cmd.Process.Pid, syscall.SIGKILL)
		<-done
		return ob.Bytes(), eb.Bytes(), -1, true
	}
}

func listDir(dir string) map[string]fileSpec {
	out := map[string]fileSpec{}
	filepath.Walk(dir, func(p string, info os.FileInfo, err error) error {
		if err != nil || info.IsDir() {
			return nil
		}
		rel, _ := filepath.Rel(dir, p)
		if rel == "strace.log" {
			return nil
		}
		b, _ := os.ReadFile(p)
		out[rel] = fileSpec{Name: rel, Data: b, Mode: uint32(info.Mode().Perm())}
		return nil
	})
	return out
}

var tempRe = regexp.MustCompile(`(^|/)mlr-in-place-[0-9]+$`)

// ---------------------------------------------------------------- crash-point enumeration

func crashWorker(w *vf.Worker) {
	mlr := vf.MlrBin()
	if mlr == "" {
		w.Broken("no plain mlr binary (VERIF_BIN_MLR)")
		return
	}
	if _, err := exec.LookPath("strace"); err != nil {
		w.Broken("strace not available: %v", err)
		return
	}
	scs := scenarios(w.Quick())
	for i, sc := range scs {
		idx := uint64(i + 1)
		if !w.Mine(idx) {
			continue
		}
		w.Begin(idx)
		w.Label(func() string { return sc.Name })
		crashScenario(w, mlr, sc)
	}
}

func crashScenario(w *vf.Worker, mlr string, sc scenario) {
	dir, err := os.MkdirTemp("/dev/shm", "verif-c19-")
	if err != nil {
		w.Broken("tempdir: %v", err)
		return
	}
	defer os.RemoveAll(dir)
	names := []string{}
	for _, f := range sc.Files {
		names = append(names, f.Name)
	}
	// expected transformed content: the same command without -I on each file alone
	expected := map[string][]byte{}
	if err := setup(dir, sc.Files); err != nil {
		w.Broken("setup: %v", err)
		return
	}
	for _, f := range sc.Files {
		out, errb, code, to := runIn(dir, 60*time.Second, mlr, append(append([]string{}, sc.Args...), f.Name)...)
		if code != 0 || to {
			w.Broken("reference run without -I failed for %s %s: exit %d %s", sc.Name, f.Name, code, trunc(string(errb), 200))
			return
		}
		expected[f.Name] = out
	}
	// the traced run
	logPath := filepath.Join(dir, "strace.log")
	args := []string{"-f", "-xx", "-s", "1000000", "-e", "signal=none", "-e", "trace=open,openat,write,close,rename,renameat,renameat2,fchmodat,chmod,fchmod,unlinkat,unlink,ftruncate,pwrite64,writev", "-o", logPath, mlr, "-I"}
	args = append(args, sc.Args...)
	args = append(args, names...)
	_, errb, code, to := runIn(dir, 120*time.Second, "strace", args...)
	if to || code != 0 {
		w.Violation("inplace-run-failed:"+sc.Name, fmt.Sprintf("`mlr -I %s %s` exits %d (timeout=%v): %s", strings.Join(sc.Args, " "), strings.Join(names, " "), code, to, trunc(string(errb), 300)), nil)
		return
	}
	logb, _ := os.ReadFile(logPath)
	evs, err := parseLog(string(logb))
	if err != nil {
		w.Broken("strace log of %s: %v", sc.Name, err)
		return
	}
	final := listDir(dir)
	// initial model
	m0 := &dirModel{names: map[string]*inode{}, fds: map[int]*fdEnt{}}
	orig := map[string]fileSpec{}
	for _, f := range sc.Files {
		m0.names[filepath.Clean(f.Name)] = &inode{data: append([]byte{}, f.Data...), mode: f.Mode}
		orig[filepath.Clean(f.Name)] = f
	}
	// acceptable "complete transformed bytes" per file = what the run finally left, provided it decodes to the expected text
	for _, f := range sc.Files {
		fin, ok := final[filepath.Clean(f.Name)]
		if !ok {
			w.Violation("final-missing:"+sc.Name, fmt.Sprintf("%s: %s does not exist after a successful -I run", sc.Name, f.Name), nil)
			return
		}
		dec, err := decompress(sc.Comp, fin.Data)
		if err != nil {
			w.Violation("final-not-compressed:"+sc.Name, fmt.Sprintf("%s: %s is not valid %s after -I: %v", sc.Name, f.Name, sc.Comp, err), nil)
			return
		}
		if !bytes.Equal(dec, expected[f.Name]) {
			w.Violation("final-content:"+sc.Name, fmt.Sprintf("%s: %s after -I differs from what the same command without -I prints for that file alone: got %q want %q", sc.Name, f.Name, trunc(string(dec), 200), trunc(string(expected[f.Name]), 200)),
				map[string]any{"scenario": sc.Name, "args": sc.Args, "file": f.Name, "got": string(dec), "want": string(expected[f.Name])})
		}
		if fin.Mode != f.Mode {
			w.Violation("final-mode:"+sc.Name, fmt.Sprintf("%s: mode of %s is %04o after -I, was %04o", sc.Name, f.Name, fin.Mode, f.Mode), nil)
		}
	}
	for n := range final {
		if _, ok := orig[n]; !ok {
			w.Violation("final-extra-file:"+sc.Name, fmt.Sprintf("%s: unexpected file %s left after a successful -I run", sc.Name, n), nil)
		}
	}
	// enumerate crash states
	invariant := func(m *dirModel, at string) {
		w.Eval(1)
		w.Rep.States++
		temps := 0
		for n := range m.names {
			if _, ok := orig[n]; ok {
				continue
			}
			if tempRe.MatchString(n) {
				temps++
				continue
			}
			w.Violation("crash-extra-file:"+sc.Name, fmt.Sprintf("%s: crash %s leaves unexpected file %s", sc.Name, at, n), nil)
		}
		if temps > 1 {
			w.Violation("crash-many-temps:"+sc.Name, fmt.Sprintf("%s: crash %s leaves %d temp files", sc.Name, at, temps), nil)
		}
		seenOrig := false
		for _, f := range sc.Files {
			n := filepath.Clean(f.Name)
			ino := m.names[n]
			switch {
			case ino == nil:
				w.Violation("crash-missing:"+sc.Name, fmt.Sprintf("%s: crash %s: %s does not exist", sc.Name, at, n), map[string]any{"scenario": sc.Name, "crash_point": at})
			case bytes.Equal(ino.data, f.Data) && !bytes.Equal(f.Data, final[n].Data):
				seenOrig = true
			case bytes.Equal(ino.data, final[n].Data):
				if seenOrig && !bytes.Equal(f.Data, final[n].Data) {
					w.Violation("crash-order:"+sc.Name, fmt.Sprintf("%s: crash %s: %s already transformed although an earlier file is still original", sc.Name, at, n), nil)
				}
			default:
				w.Violation("crash-half-written:"+sc.Name, fmt.Sprintf("%s: crash %s leaves %s with %d bytes that are neither the original (%d bytes) nor the complete transformed content (%d bytes)", sc.Name, at, n, len(ino.data), len(f.Data), len(final[n].Data)),
					map[string]any{"scenario": sc.Name, "args": sc.Args, "files": names, "crash_point": at, "file": n, "content": trunc(string(ino.data), 300)})
			}
		}
	}
	m := m0
	invariant(m, "before the first syscall")
	relevant := 0
	for k, e := range evs {
		// torn writes first (states strictly inside this write)
		if e.Call == "write" {
			fd, _ := strconv.Atoi(e.Args[0])
			if _, ok := m.fds[fd]; ok && e.Ret > 1 {
				step := 1
				if e.Ret > 512 {
					step = 61
				}
				for p := 1; p < e.Ret; p += step {
					mm := m.clone()
					if _, err := mm.apply(e, p); err != nil {
						w.Broken("%s: model: %v", sc.Name, err)
						return
					}
					invariant(mm, fmt.Sprintf("inside syscall #%d (%s) after %d of %d bytes", k, e.Call, p, e.Ret))
					w.Count("torn_write_states", 1)
				}
			}
		}
		touched, err := m.apply(e, -1)
		if err != nil {
			w.Broken("%s: model cannot replay %q: %v", sc.Name, e.Line, err)
			return
		}
		if touched {
			relevant++
			w.Rep.Transitions++
			invariant(m, fmt.Sprintf("after syscall #%d: %s", k, e.Line))
			w.Count("syscall:"+e.Call, 1)
		}
	}
	// model validation: the full replay must equal the directory the real run left behind
	ok := len(m.names) == len(final)
	for n, ino := range m.names {
		f, present := final[n]
		if !present || !bytes.Equal(f.Data, ino.data) || f.Mode != ino.mode {
			ok = false
		}
	}
	if !ok {
		w.Broken("%s: directory model diverges from the real final directory (model %v)", sc.Name, keys(m.names))
		return
	}
	w.Count("traces_validated", 1)
	w.Count("scenarios", 1)
	w.Nontrivial(1)
	if relevant < 4*len(sc.Files) {
		w.Broken("%s: only %d relevant syscalls logged for %d files: strace filter or parser lost events", sc.Name, relevant, len(sc.Files))
	}
	if len(w.Rep.Samples) < 2 {
		var hist []string
		mm := &dirModel{names: map[string]*inode{}, fds: map[int]*fdEnt{}}
		for _, f := range sc.Files {
			mm.names[filepath.Clean(f.Name)] = &inode{data: f.Data, mode: f.Mode}
		}
		for _, e := range evs {
			if t, _ := mm.apply(e, -1); t && len(hist) < 12 {
				hist = append(hist, trunc(e.Line, 100))
			}
		}
		w.Sample(map[string]any{"scenario": sc.Name, "command": "mlr -I " + strings.Join(sc.Args, " ") + " " + strings.Join(names, " "), "relevant_syscalls": relevant, "history_head": hist})
	}
}

func keys(m map[string]*inode) []string {
	var k []string
	for n := range m {
		k = append(k, n)
	}
	sort.Strings(k)
	return k
}

// ---------------------------------------------------------------- positional fault scenarios on the real binary

type faultCase struct {
	name     string
	prep     string   // shell run before the snapshot of the "original" files
	sh       string   // shell; $MLR binary; cwd = scenario dir with f1.dkvp f2.dkvp f3.dkvp (3 records each) and f1.csv...
	done     int      // number of leading files that must be fully transformed (others byte-identical to the original)
	exitPath bool     // failure leaves through a library os.Exit (temp file hygiene reported separately)
	anyExit  bool     // success is acceptable too (e.g. refusal cases that have nothing to do)
	files    []string // the files named on the command line, in order (default: derived from the case name)
}

func faultCases(quick bool) []faultCase {
	var out []faultCase
	for _, file := range []int{1, 2, 3} {
		for _, p := range []int{1, 2, 3} {
			if quick && p == 2 {
				continue
			}
			nr := p
			out = append(out,
				faultCase{name: fmt.Sprintf("dsl-returned-error:file=%d:rec=%d", file, p), sh: fmt.Sprintf(`$MLR -I put 'if (FILENAME=="f%d.dkvp" && FNR==%d) {int y = "abc"} $z=1' f1.dkvp f2.dkvp f3.dkvp`, file, nr), done: file - 1},
				faultCase{name: fmt.Sprintf("dsl-exit-error:file=%d:rec=%d", file, p), sh: fmt.Sprintf(`$MLR -I put 'if (FILENAME=="f%d.dkvp" && FNR==%d) {$y = asserting_null($a)} $z=1' f1.dkvp f2.dkvp f3.dkvp`, file, nr), done: file - 1, exitPath: true},
			)
		}
		out = append(out, faultCase{name: fmt.Sprintf("csv-ragged:file=%d", file), prep: fmt.Sprintf(`printf 'a,b\n1,2\n3\n5,6\n' > g%d.csv`, file), sh: `$MLR -I --csv put '$z=1' g1.csv g2.csv g3.csv`, done: file - 1})
		out = append(out, faultCase{name: fmt.Sprintf("missing-file:pos=%d", file), prep: fmt.Sprintf(`rm f%d.dkvp`, file), sh: `$MLR -I put '$z=1' f1.dkvp f2.dkvp f3.dkvp`, done: -2})
	}
	// EFBIG at byte offset L of the temp file (big.dkvp: 9 kB, several write syscalls)
	step := 512
	if quick {
		step = 2048
	}
	for L := 0; L <= 9000; L += step {
		out = append(out, faultCase{name: fmt.Sprintf("efbig:L=%d", L), sh: fmt.Sprintf(`trap "" XFSZ; prlimit --fsize=%d $MLR -I put '$z=1' big.dkvp f2.dkvp`, L), done: 0})
	}
	// a compressed input cut short at K/16 of its length (every reader; gzip by extension, zlib by extension, --gzin):
	// the decompressor's error must fail the run, the damaged file and the healthy file after it stay as they are
	kstep := 2
	if quick {
		kstep = 5
	}
	for _, f := range []struct{ name, conv, flags, ext string }{
		{"dkvp", "--idkvp --odkvp", "", "dkvp"}, {"nidx", "--idkvp --onidx --ofs space", "--nidx --fs space", "nidx"}, {"tsv", "--idkvp --otsv", "--tsv", "tsv"},
		{"csv", "--idkvp --ocsv", "--csv", "csv"}, {"csvlite", "--idkvp --ocsvlite", "--csvlite", "csvl"}, {"json", "--idkvp --ojson", "--json", "json"},
		{"xtab", "--idkvp --oxtab", "--xtab", "xtab"}, {"pprint", "--idkvp --opprint", "--pprint", "pprint"}, {"markdown", "--idkvp --omd", "--imd --omd", "md"},
	} {
		for K := 1; K <= 15; K += kstep {
			for _, comp := range []string{"gz", "z", "gzin"} {
				if comp != "gz" && (f.name != "dkvp" && f.name != "csv" || K%2 == 0) {
					continue
				}
				mk := `gzip -c big.X > full`
				tname, extra := "t."+f.ext+".gz", ""
				switch comp {
				case "z":
					mk = `python3 -c "import zlib,sys;sys.stdout.buffer.write(zlib.compress(open('big.X','rb').read()))" > full`
					tname = "t." + f.ext + ".z"
				case "gzin":
					tname, extra = "t."+f.ext, "--gzin "
				}
				mk = strings.ReplaceAll(mk, "big.X", "big."+f.ext+"x")
				prep := fmt.Sprintf(`$MLR %s cat big.dkvp > big.%sx && head -n 40 big.%sx > later.%s && %s && sz=$(stat -c %%s full) && head -c $((sz*%d/16)) full > %s && rm full big.%sx`, f.conv, f.ext, f.ext, f.ext, mk, K, tname, f.ext)
				later := "later." + f.ext
				sh := fmt.Sprintf(`$MLR -I %s%s put '$z=1' %s %s`, extra, f.flags, tname, later)
				if comp == "gzin" {
					sh = fmt.Sprintf(`$MLR -I %s%s put '$z=1' %s`, extra, f.flags, tname)
					later = ""
				}
				fc := faultCase{name: fmt.Sprintf("truncated-%s:%s:K=%d", comp, f.name, K), prep: prep, sh: sh, done: 0, files: []string{tname}}
				if later != "" {
					fc.files = append(fc.files, later)
				}
				out = append(out, fc)
			}
		}
	}
	out = append(out,
		faultCase{name: "rename-fails", sh: `strace -f -o /dev/null -e trace=renameat,rename,renameat2 -e inject=renameat,rename,renameat2:error=EXDEV $MLR -I put '$z=1' f1.dkvp f2.dkvp`, done: 0},
		faultCase{name: "unwritable-directory", sh: `chmod 555 .; setpriv --reuid=65534 --regid=65534 --clear-groups $MLR -I put '$z=1' f1.dkvp; rc=$?; chmod 755 .; exit $rc`, done: 0},
		faultCase{name: "refuse-prepipe", sh: `$MLR -I --prepipe cat put '$z=1' f1.dkvp`, done: 0},
		faultCase{name: "refuse-prepipex", sh: `$MLR -I --prepipex cat put '$z=1' f1.dkvp`, done: 0},
		faultCase{name: "refuse-bz2", sh: `$MLR -I --bz2in put '$z=1' f1.dkvp`, done: 0},
		faultCase{name: "refuse-bz2-extension", prep: `printf 'BZh91AY' > h.dkvp.bz2`, sh: `$MLR -I put '$z=1' h.dkvp.bz2 f1.dkvp`, done: -1},
		faultCase{name: "refuse-url", sh: `$MLR -I put '$z=1' file://f1.dkvp`, done: 0},
		faultCase{name: "parse-error", sh: `$MLR -I put '$z=' f1.dkvp f2.dkvp`, done: 0},
		faultCase{name: "no-such-verb", sh: `$MLR -I nosuchverb f1.dkvp`, done: 0},
		faultCase{name: "ocsv-schema-change", prep: `printf 'a=1,b=2\nc=3\n' > h.dkvp`, sh: `$MLR -I --ocsv cat h.dkvp f1.dkvp`, done: -1},
		faultCase{name: "tee-redirect-unwritable", sh: `$MLR -I put -q 'tee > "/nonexistent-dir/x", $*' f1.dkvp f2.dkvp`, done: 0},
	)
	return out
}

func faultWorker(w *vf.Worker) {
	mlr := vf.MlrBin()
	if mlr == "" {
		w.Broken("no plain mlr binary (VERIF_BIN_MLR)")
		return
	}
	cases := faultCases(w.Quick())
	for i, fc := range cases {
		idx := uint64(i + 1)
		if !w.Mine(idx) {
			continue
		}
		w.Begin(idx)
		w.Label(func() string { return fc.name })
		dir, err := os.MkdirTemp("/dev/shm", "verif-c19f-")
		if err != nil {
			w.Broken("tempdir: %v", err)
			return
		}
		os.Chmod(dir, 0755)
		var files []fileSpec
		for k := 1; k <= 3; k++ {
			files = append(files, fileSpec{Name: fmt.Sprintf("f%d.dkvp", k), Data: recs("dkvp", 3, k*10), Mode: 0644})
			files = append(files, fileSpec{Name: fmt.Sprintf("g%d.csv", k), Data: recs("csv", 3, k*10), Mode: 0644})
		}
		files = append(files, fileSpec{Name: "big.dkvp", Data: recs("dkvp", 600, 0), Mode: 0644})
		setup(dir, files)
		if fc.prep != "" {
			pc := exec.Command("/bin/sh", "-c", fc.prep)
			pc.Dir = dir
			pc.Env = append(os.Environ(), "MLR="+mlr, "MLRRC=__none__")
			if out, err := pc.CombinedOutput(); err != nil {
				w.Broken("prep of %s failed: %v %s", fc.name, err, out)
				os.RemoveAll(dir)
				continue
			}
		}
		before := listDir(dir)
		// expected transformed content for each file under the fault-free command: not needed; committed files must
		// merely differ from the original and be complete records (checked by re-reading with mlr)
		cmd := exec.Command("/bin/sh", "-c", fc.sh)
		cmd.Dir = dir
		cmd.Env = append(os.Environ(), "MLR="+mlr, "MLRRC=__none__")
		var eb bytes.Buffer
		cmd.Stderr = &eb
		cmd.SysProcAttr = &syscall.SysProcAttr{Setpgid: true}
		code, timedOut := 0, false
		if err := cmd.Start(); err == nil {
			done := make(chan error, 1)
			go func() { done <- cmd.Wait() }()
			select {
			case err := <-done:
				if ee, ok := err.(*exec.ExitError); ok {
					code = ee.ExitCode()
				} else if err != nil {
					code = -1
				}
			case <-time.After(60 * time.Second):
				syscall.Kill(-cmd.Process.Pid, syscall.SIGKILL)
				<-done
				timedOut = true
			}
		}
		after := listDir(dir)
		os.Chmod(dir, 0755)
		os.RemoveAll(dir)
		w.Eval(1)
		w.Nontrivial(1)
		rp := map[string]any{"case": fc.name, "command": fc.sh, "exit": code, "stderr": trunc(eb.String(), 400)}
		if timedOut {
			w.Violation("fault-hang:"+fc.name, fmt.Sprintf("`%s` did not terminate within 60 s", fc.sh), rp)
			continue
		}
		if code == 0 {
			w.Violation("fault-exit0:"+fc.name, fmt.Sprintf("`%s` exits 0 although processing could not complete (stderr %q)", fc.sh, trunc(eb.String(), 200)), rp)
		} else if !strings.Contains(eb.String(), "mlr") {
			w.Violation("fault-nodiag:"+fc.name, fmt.Sprintf("`%s` exits %d without an mlr diagnostic (stderr %q)", fc.sh, code, trunc(eb.String(), 200)), rp)
		}
		// file states
		var named []string
		switch {
		case fc.files != nil:
			named = fc.files
		case strings.HasPrefix(fc.name, "csv-ragged"):
			named = []string{"g1.csv", "g2.csv", "g3.csv"}
		case strings.HasPrefix(fc.name, "efbig"):
			named = []string{"big.dkvp", "f2.dkvp"}
		case strings.HasPrefix(fc.name, "ocsv-schema"):
			named = []string{"h.dkvp", "f1.dkvp"}
		case fc.name == "refuse-bz2-extension":
			named = []string{"h.dkvp.bz2", "f1.dkvp"}
		case strings.HasPrefix(fc.name, "dsl-"), strings.HasPrefix(fc.name, "missing-file"):
			named = []string{"f1.dkvp", "f2.dkvp", "f3.dkvp"}
		default:
			named = []string{"f1.dkvp", "f2.dkvp"}
		}
		ntemp := 0
		for n := range after {
			if tempRe.MatchString(n) {
				ntemp++
			}
		}
		if ntemp > 0 {
			if fc.exitPath {
				// The property limits temp-file hygiene to "failures reported through the normal error
				// path"; an abort through a library os.Exit (asserting_*, function return-type checks:
				// see /repo/plans/exit.md) is not that path. Counted and reported in evidence, not flagged.
				w.Count("temp_files_stranded_by_library_os_exit_paths", 1)
			} else {
				w.Violation("fault-temp-left:"+fc.name, fmt.Sprintf("`%s` (exit %d) leaves %d mlr-in-place-* temp file(s) behind", fc.sh, code, ntemp), rp)
			}
		}
		transformedSoFar := true
		for k, n := range named {
			b, hadBefore := before[n]
			a, hasAfter := after[n]
			if strings.HasPrefix(fc.name, "missing-file") || n == "h.dkvp" {
				if !hadBefore || !hasAfter {
					continue
				}
			}
			if !hasAfter {
				if hadBefore {
					w.Violation("fault-file-gone:"+fc.name, fmt.Sprintf("`%s`: %s no longer exists", fc.sh, n), rp)
				}
				transformedSoFar = false
				continue
			}
			same := bytes.Equal(a.Data, b.Data)
			if fc.done >= 0 {
				if k < fc.done {
					if same {
						w.Violation("fault-earlier-file-not-committed:"+fc.name, fmt.Sprintf("`%s`: %s was processed before the failing file but still has its original bytes", fc.sh, n), rp)
					}
				} else if !same {
					w.Violation("fault-file-modified:"+fc.name, fmt.Sprintf("`%s` (exit %d): %s was modified although the failure happened at or before it: %q", fc.sh, code, n, trunc(string(a.Data), 200)), rp)
				}
			} else {
				// unspecified split point: transformed files must form a prefix of the list
				if !same && !transformedSoFar {
					w.Violation("fault-order:"+fc.name, fmt.Sprintf("`%s`: %s modified although an earlier file is untouched", fc.sh, n), rp)
				}
				if same {
					transformedSoFar = false
				}
			}
			// a modified file must be complete: every line ends in newline and has the new field
			if !same && strings.HasSuffix(n, ".dkvp") && strings.Contains(fc.sh, "$z=1") {
				for _, ln := range strings.Split(strings.TrimSuffix(string(a.Data), "\n"), "\n") {
					if !strings.HasSuffix(ln, ",z=1") {
						w.Violation("fault-half-written:"+fc.name, fmt.Sprintf("`%s`: %s is neither original nor completely transformed: line %q", fc.sh, n, trunc(ln, 80)), rp)
						break
					}
				}
				if len(strings.Split(strings.TrimSuffix(string(a.Data), "\n"), "\n")) != len(strings.Split(strings.TrimSuffix(string(b.Data), "\n"), "\n")) {
					w.Violation("fault-half-written:"+fc.name, fmt.Sprintf("`%s`: %s has a different number of records after the failed run", fc.sh, n), rp)
				}
			}
		}
		w.AddSet("fault-kinds", strings.SplitN(fc.name, ":", 2)[0])
		if i < 2 {
			w.Sample(rp)
		}
	}
}

func run(c *vf.Ctx) {
	c.Rule = "crash points: for each scenario (verb x format x file list x compression x mode) the real `mlr -I` runs under strace; EVERY prefix of the logged open/write/close/rename/chmod/unlink history and every byte truncation of every write (every 61st byte for writes > 512 bytes) is replayed on a directory model and the invariant evaluated: evaluations = crash states; states = crash states; transitions = relevant syscalls; traces_validated_against_impl = scenarios whose full replay equals the real final directory byte for byte and mode for mode. Fault cases: positional faults on the real binary. distinct_nontrivial = scenarios + fault cases"
	c.Assume("crash model = process stop (kill -9) with the kernel surviving: a crash state is a prefix of the process's syscall history; power-loss reordering (no fsync before rename in the code) is outside the claim")
	c.Assume("mode between rename and chmod is the temp file's 0600 (stricter); the property requires mode preservation on success only")
	c.Assume("temp-file hygiene is asserted for failures reported through the normal error path only (as the property says); aborts through a library os.Exit (asserting_* etc.) do strand the temp file: counted in counters.temp_files_stranded_by_library_os_exit_paths, not flagged")
	c.RunPool(vf.PoolSpec{Worker: "crash", Shards: 32, StallSecs: 600})
	res := c.RunPool(vf.PoolSpec{Worker: "fault", Shards: 32, StallSecs: 600})
	c.RunPool(vf.PoolSpec{Worker: "sched", Sched: true, Shards: len(schedConfigs(c.Quick())), StallSecs: 600,
		CrashKey: func(idx uint64, label, kind, tail string) (string, string) {
			return "inplace-sched-crash:" + label, fmt.Sprintf("worker %s while exploring the schedules of in-place %s: %s", kind, label, trunc(tail, 600))
		}})
	c.Assume("in-place mode under the scheduler: the -I driver (processFilesInPlace, exposed through an overlay-only export) runs in-process on real files in /dev/shm, two files of 3 and 5 records, batch sizes 1 and 2, failures at the first / middle / last record of either file through a returned DSL error, a verb's returned error, a library exit, a CSV writer schema change and a ragged CSV row; ALL schedules are enumerated and the directory is inspected after each")
	c.TracesValidated = c.Counters["traces_validated"]
	c.Extra["fault_kinds"] = vf.SortedSet(res, "fault-kinds")
	c.Extra["scenarios_enumerated"] = len(scenarios(c.Quick()))
	c.Extra["fault_cases_enumerated"] = len(faultCases(c.Quick()))
}
