package c19

// In-place mode under ALL goroutine schedules (E1 x E4). The crash and fault workers run the real binary, i.e. one
// schedule per case; whether a failure is reported - and therefore whether the temp file is renamed over the input -
// can depend on the interleaving of the verb, writer and main goroutines (an error posted after the end-of-stream marker
// has been forwarded is lost when the writer finishes first). Here the -I driver itself (processFilesInPlace) runs
// in-process on real files under the cooperative scheduler, and the directory is inspected after every execution.

import (
	"fmt"
	"os"
	"path/filepath"
	"sort"
	"strings"

	"github.com/johnkerl/miller/v6/pkg/climain"
	"github.com/johnkerl/miller/v6/pkg/entrypoint"
	"github.com/johnkerl/miller/v6/pkg/mlrval"
	"github.com/johnkerl/miller/v6/pkg/verifrt"

	"verif/harness/vf"
)

type schedCfg struct {
	name     string
	csv      bool
	flags    []string
	verb     []string
	failFile int  // 0: the run succeeds; k: processing fails in the k-th file
	viaExit  bool // the failure leaves through a library os.Exit in a verb goroutine (temp-file hygiene not asserted)
	b        int
}

func schedConfigs(quick bool) []schedCfg {
	var out []schedCfg
	bs := []int{1, 2}
	for _, b := range bs {
		out = append(out, schedCfg{name: "put ok", verb: []string{"put", "$z=1"}, b: b})
		for _, file := range []int{1, 2} {
			ks := []int{1, 2, 3}
			if file == 2 {
				ks = []int{1, 3, 5}
			}
			for _, k := range ks {
				if quick && b == 2 && k == 1 {
					continue
				}
				cond := fmt.Sprintf(`FILENAME =~ "f%d[.]dkvp$" && FNR == %d`, file, k)
				out = append(out,
					schedCfg{name: fmt.Sprintf("returned type-gate error file=%d rec=%d", file, k), verb: []string{"put", `if (` + cond + `) {int y = "abc"} $z=1`}, failFile: file, b: b},
					schedCfg{name: fmt.Sprintf("filter non-boolean file=%d rec=%d", file, k), verb: []string{"put", "$z=1", "then", "filter", cond + ` ? 7 : true`}, failFile: file, b: b},
					schedCfg{name: fmt.Sprintf("asserting exit file=%d rec=%d", file, k), verb: []string{"put", `if (` + cond + `) {$y = asserting_null($a)} $z=1`}, failFile: file, viaExit: true, b: b},
				)
			}
		}
		out = append(out,
			schedCfg{name: "csv put ok", csv: true, flags: []string{"--csv"}, verb: []string{"put", "$z=1"}, b: b},
			schedCfg{name: "csv writer schema change file=2 rec=3", csv: true, flags: []string{"--csv"}, verb: []string{"put", `$z=1; if (FILENAME =~ "f2[.]csv$" && FNR == 3) {unset $a}`}, failFile: 2, b: b},
			schedCfg{name: "csv ragged input file=2", csv: true, flags: []string{"--csv"}, verb: []string{"put", "$z=1"}, failFile: -2, b: b},
		)
	}
	return out
}

var tempNameRe = tempRe

func schedWorker(w *vf.Worker) {
	dir, err := os.MkdirTemp("/dev/shm", "verif-c19s-")
	if err != nil {
		w.Broken("tempdir: %v", err)
		return
	}
	defer os.RemoveAll(dir)
	for ci, c := range schedConfigs(w.Quick()) {
		idx := uint64(ci + 1)
		if !w.Mine(idx) {
			continue
		}
		w.Begin(idx)
		c := c
		w.Label(func() string { return fmt.Sprintf("%s b=%d", c.name, c.b) })
		ext := "dkvp"
		orig := map[string]string{"f1": "a=1,b=2\na=3,b=4\na=5,b=6\n", "f2": "a=7,b=8\na=9,b=10\na=11,b=12\na=13,b=14\na=15,b=16\n"}
		want := map[string]string{}
		if c.csv {
			ext = "csv"
			orig = map[string]string{"f1": "a,b\n1,2\n3,4\n5,6\n", "f2": "a,b\n7,8\n9,10\n11,12\n13,14\n15,16\n"}
			if c.failFile == -2 {
				orig["f2"] = "a,b\n7,8\n9,10\n11\n13,14\n15,16\n" // data length < header length, no --allow-ragged-csv-input
			}
			for n, o := range orig {
				ls := strings.Split(strings.TrimSuffix(o, "\n"), "\n")
				for i := range ls {
					if i == 0 {
						ls[i] += ",z"
					} else {
						ls[i] += ",1"
					}
				}
				want[n] = strings.Join(ls, "\n") + "\n"
			}
		} else {
			for n, o := range orig {
				ls := strings.Split(strings.TrimSuffix(o, "\n"), "\n")
				for i := range ls {
					ls[i] += ",z=1"
				}
				want[n] = strings.Join(ls, "\n") + "\n"
			}
		}
		failFile := c.failFile
		if failFile == -2 {
			failFile = 2
		}
		p := func(n string) string { return filepath.Join(dir, n+"."+ext) }
		argv := append([]string{"mlr", "-I", "--records-per-batch", fmt.Sprint(c.b)}, c.flags...)
		argv = append(argv, c.verb...)
		argv = append(argv, p("f1"), p("f2"))
		state := func() string {
			ents, _ := os.ReadDir(dir)
			var parts []string
			ntemp := 0
			for _, e := range ents {
				if tempNameRe.MatchString(e.Name()) {
					ntemp++
					continue
				}
				b, _ := os.ReadFile(filepath.Join(dir, e.Name()))
				n := strings.TrimSuffix(e.Name(), "."+ext)
				switch string(b) {
				case orig[n]:
					parts = append(parts, n+"=original")
				case want[n]:
					parts = append(parts, n+"=transformed")
				default:
					parts = append(parts, fmt.Sprintf("%s=OTHER:%q", n, string(b)))
				}
			}
			sort.Strings(parts)
			return fmt.Sprintf("%s temp=%d", strings.Join(parts, " "), ntemp)
		}
		spec := vf.ExploreSpec{
			Before: func() {
				ents, _ := os.ReadDir(dir)
				for _, e := range ents {
					os.Remove(filepath.Join(dir, e.Name()))
				}
				for n, o := range orig {
					os.WriteFile(p(n), []byte(o), 0644)
				}
			},
			Body: func() string {
				vf.CaptureStderr()
				mlrval.VerifResetGlobals()
				verifrt.TrapExits(true)
				verifrt.OpenHookFn = nil // real files
				os.Args = argv
				options, _, err := climain.ParseCommandLine(argv)
				if err == nil {
					err = entrypoint.VerifProcessFilesInPlace(options)
				}
				if err != nil {
					return "FAILED"
				}
				return "OK"
			},
			After: func(o string, r *verifrt.Result) string {
				vf.TakeStderr()
				if strings.HasPrefix(o, "FAULT exit(") && !strings.HasPrefix(o, "FAULT exit(0)") {
					o = "FAILED-BY-EXIT"
				}
				return o + " | " + state()
			},
			MaxExecs:  300000,
			MaxSteps:  50000,
			StallSecs: 30,
		}
		r := vf.Explore(spec)
		w.Rep.States += r.States
		w.Rep.Transitions += r.Transitions
		w.Eval(int64(r.Execs))
		w.Count("inplace_sched_configurations", 1)
		w.Count("inplace_sched_executions_completed", int64(r.Completed))
		key := fmt.Sprintf("%s b=%d", c.name, c.b)
		rp := func(sched []int) map[string]any {
			return map[string]any{"argv": argv, "files": orig, "schedule": sched}
		}
		if r.Stalled {
			w.Stalled("inplace-sched-stall:"+key, "a goroutine ran without reaching a scheduling point in "+key, rp(r.StalledAt))
		}
		if !r.Exhaustive {
			w.Inexhaustive(fmt.Sprintf("in-place schedules of %s: budget hit (states=%d)", key, r.States))
		}
		if r.Branchings > 0 {
			w.Nontrivial(1)
		}
		if r.Deadlocks > 0 {
			w.Violation("inplace-sched-deadlock:"+key, fmt.Sprintf("deadlock in %d of %d executions of `%s` (blocked: %s)", r.Deadlocks, r.Execs, strings.Join(argv, " "), strings.Join(r.Blocked, " ")), rp(r.DeadlockAt))
		}
		if r.Horizons > 0 {
			w.Violation("inplace-sched-horizon:"+key, fmt.Sprintf("step horizon exceeded in `%s`", strings.Join(argv, " ")), rp(r.HorizonAt))
		}
		// expected final state
		var exp []string
		for _, n := range []string{"f1", "f2"} {
			k := int(n[1] - '0')
			if failFile == 0 || k < failFile {
				exp = append(exp, n+"=transformed")
			} else {
				exp = append(exp, n+"=original")
			}
		}
		expState := strings.Join(exp, " ")
		check := func(o string, n int, sched []int) {
			status, st, _ := strings.Cut(o, " | ")
			files, temp, _ := strings.Cut(st, " temp=")
			switch {
			case failFile == 0 && status != "OK":
				w.Violation("inplace-sched-unexpected-failure:"+key, fmt.Sprintf("`%s` ends with %s in %d executions although nothing can fail", strings.Join(argv, " "), status, n), rp(sched))
			case failFile != 0 && status == "OK":
				w.Violation("inplace-sched-lost-error:"+key, fmt.Sprintf("`%s`: processing fails in file %d, yet in %d executions (schedules) the run reports success; directory: %s", strings.Join(argv, " "), failFile, n, st), rp(sched))
			case failFile != 0 && status != "FAILED" && status != "FAILED-BY-EXIT":
				w.Violation("inplace-sched-fault:"+key, fmt.Sprintf("`%s`: %s in %d executions", strings.Join(argv, " "), trunc(status, 200), n), rp(sched))
			}
			if files != expState {
				w.Violation("inplace-sched-files:"+key, fmt.Sprintf("`%s` (%s): directory is [%s], expected [%s] (failing file and later files byte-identical, earlier files completely transformed) in %d executions", strings.Join(argv, " "), status, files, expState, n), rp(sched))
			}
			if temp != "0" {
				if status == "FAILED-BY-EXIT" {
					w.Count("temp_files_stranded_by_library_os_exit_paths_under_sched", 1)
				} else {
					w.Violation("inplace-sched-temp-left:"+key, fmt.Sprintf("`%s` (%s): %s temp file(s) left behind in %d executions", strings.Join(argv, " "), status, temp, n), rp(sched))
				}
			}
		}
		for o, n := range r.Outcomes {
			check(o, n, r.Witness[o])
		}
		for f, n := range r.Faults {
			check(f, n, r.FaultAt[f])
		}
		w.AddSet("inplace-sched-outcomes", fmt.Sprint(len(r.Outcomes)+len(r.Faults)))
	}
}
