// Package c20: fan-out outputs are complete, ordered and well-formed for any
// history of target switches. E3 over target histories: ALL sequences of
// (target, record) writes up to a length over a small target set are run
// through the real tee/emit/print redirects and the split verb, in builds whose
// open-handle LRU capacity (256) is reduced to 2 and 3 so that eviction and
// revisit-after-eviction are inside the enumerated space; structured families
// run at the real capacity. Every target file is parsed by an independent
// reader as ONE document and compared with the reference partition.
package c20

import (
	"encoding/json"
	"fmt"
	"os"
	"path/filepath"
	"sort"
	"strings"

	"verif/harness/vf"
)

func init() {
	vf.Register(&vf.CheckDef{ID: "C20", Level: "model_checking", Run: run,
		Workers: map[string]vf.WorkerFunc{"hist": histWorker, "real": realWorker, "split": splitWorker, "race": raceWorker, "sched": schedWorker}})
}

// ---------------------------------------------------------------- formats: independent single-document parsers

type fmtSpec struct {
	name string
	flag string
	ext  string
	// parse returns the ids of the records in the file, the number of documents
	// (headers / bracket pairs) found, and an error text for anything else.
	parse func(text string, keys []string) (ids []string, docs int, bad string)
}

// idsOf projects parsed records (values joined by |, id first) to their ids.
func idsOf(recs []string) []string {
	out := make([]string, len(recs))
	for i, r := range recs {
		out[i] = strings.SplitN(r, "|", 2)[0]
	}
	return out
}

func fieldOf(keys []string, vals []string, k string) (string, bool) {
	for i, x := range keys {
		if x == k && i < len(vals) {
			return vals[i], true
		}
	}
	return "", false
}

func parseSeparated(sep string) func(string, []string) ([]string, int, string) {
	return func(text string, keys []string) ([]string, int, string) {
		if text == "" {
			return nil, 0, ""
		}
		if !strings.HasSuffix(text, "\n") {
			return nil, 0, "does not end in a newline"
		}
		lines := strings.Split(strings.TrimSuffix(text, "\n"), "\n")
		header := strings.Join(keys, sep)
		var ids []string
		docs := 0
		for i, ln := range lines {
			if ln == header {
				docs++
				continue
			}
			if ln == "" {
				continue // csvlite-style block separator: counted through the following header
			}
			if i == 0 {
				return nil, 0, fmt.Sprintf("first line %q is not the header %q", ln, header)
			}
			f := strings.Split(ln, sep)
			if len(f) != len(keys) {
				return nil, docs, fmt.Sprintf("data line %q has %d fields, header has %d", ln, len(f), len(keys))
			}
			ids = append(ids, strings.Join(f, "|"))
		}
		return ids, docs, ""
	}
}

func parseJSON(text string, keys []string) ([]string, int, string) {
	if strings.TrimSpace(text) == "" {
		return nil, 0, ""
	}
	dec := json.NewDecoder(strings.NewReader(text))
	var ids []string
	docs := 0
	for {
		var v any
		err := dec.Decode(&v)
		if err != nil {
			if err.Error() == "EOF" {
				break
			}
			return ids, docs, "not valid JSON: " + err.Error()
		}
		docs++
		arr, ok := v.([]any)
		if !ok {
			return ids, docs, "top-level JSON value is not an array"
		}
		for _, e := range arr {
			m, ok := e.(map[string]any)
			if !ok {
				return ids, docs, "array element is not an object"
			}
			ids = append(ids, jsonTuple(m, keys))
		}
	}
	return ids, docs, ""
}

func jsonTuple(m map[string]any, keys []string) string {
	if keys == nil {
		return fmt.Sprint(m["id"])
	}
	var vals []string
	for _, k := range keys {
		vals = append(vals, fmt.Sprint(m[k]))
	}
	if len(m) != len(keys) {
		vals = append(vals, fmt.Sprintf("(%d keys)", len(m)))
	}
	return strings.Join(vals, "|")
}

func parseJSONL(text string, keys []string) ([]string, int, string) {
	if text == "" {
		return nil, 0, ""
	}
	var ids []string
	for _, ln := range strings.Split(strings.TrimSuffix(text, "\n"), "\n") {
		var m map[string]any
		if err := json.Unmarshal([]byte(ln), &m); err != nil {
			return ids, 1, fmt.Sprintf("line %q is not a JSON object", ln)
		}
		ids = append(ids, jsonTuple(m, keys))
	}
	return ids, 1, ""
}

func parseDKVP(text string, keys []string) ([]string, int, string) {
	if text == "" {
		return nil, 0, ""
	}
	var ids []string
	for _, ln := range strings.Split(strings.TrimSuffix(text, "\n"), "\n") {
		var vals []string
		n := 0
		for _, kv := range strings.Split(ln, ",") {
			p := strings.SplitN(kv, "=", 2)
			if len(p) != 2 {
				return ids, 1, fmt.Sprintf("line %q is not key=value", ln)
			}
			if n < len(keys) && p[0] != keys[n] {
				return ids, 1, fmt.Sprintf("line %q: field %d is %q, expected %q", ln, n+1, p[0], keys[n])
			}
			n++
			vals = append(vals, p[1])
		}
		if n != len(keys) {
			return ids, 1, fmt.Sprintf("line %q has %d fields, expected %d", ln, n, len(keys))
		}
		ids = append(ids, strings.Join(vals, "|"))
	}
	return ids, 1, ""
}

func parsePPRINT(text string, keys []string) ([]string, int, string) {
	if text == "" {
		return nil, 0, ""
	}
	var ids []string
	docs := 0
	header := strings.Join(keys, " ")
	for _, ln := range strings.Split(strings.TrimSuffix(text, "\n"), "\n") {
		f := strings.Fields(ln)
		if len(f) == 0 {
			continue
		}
		if strings.Join(f, " ") == header {
			docs++
			continue
		}
		if docs == 0 {
			return ids, 0, fmt.Sprintf("first line %q is not the header", ln)
		}
		if len(f) != len(keys) {
			return ids, docs, fmt.Sprintf("row %q has %d columns, header has %d", ln, len(f), len(keys))
		}
		ids = append(ids, strings.Join(f, "|"))
	}
	return ids, docs, ""
}

func parseXTAB(text string, keys []string) ([]string, int, string) {
	if text == "" {
		return nil, 0, ""
	}
	var ids []string
	docs := 1
	for _, st := range strings.Split(strings.TrimSuffix(text, "\n"), "\n\n") {
		lines := strings.Split(strings.Trim(st, "\n"), "\n")
		if len(lines)%len(keys) != 0 {
			return ids, docs, fmt.Sprintf("stanza %q has %d lines, expected %d", st, len(lines), len(keys))
		}
		// a stanza holding k records back to back = the blank separator line is missing k-1 times:
		// the writer lost its "not the first record" state, i.e. the document was restarted
		docs += len(lines)/len(keys) - 1
		for i, ln := range lines {
			f := strings.Fields(ln)
			if len(f) != 2 || f[0] != keys[i%len(keys)] {
				return ids, docs, fmt.Sprintf("stanza line %q is not %q and a value", ln, keys[i%len(keys)])
			}
			if i%len(keys) == 0 {
				ids = append(ids, f[1])
			} else {
				ids[len(ids)-1] += "|" + f[1]
			}
		}
	}
	return ids, docs, ""
}

func parseMarkdown(text string, keys []string) ([]string, int, string) {
	if text == "" {
		return nil, 0, ""
	}
	var ids []string
	docs := 0
	header := "| " + strings.Join(keys, " | ") + " |"
	lines := strings.Split(strings.TrimSuffix(text, "\n"), "\n")
	for i := 0; i < len(lines); i++ {
		ln := lines[i]
		if ln == header {
			docs++
			if i+1 >= len(lines) || !strings.HasPrefix(lines[i+1], "| ---") {
				return ids, docs, "header without separator line"
			}
			i++
			continue
		}
		if ln == "" {
			continue
		}
		if docs == 0 {
			return ids, 0, fmt.Sprintf("first line %q is not the header", ln)
		}
		f := strings.Split(strings.Trim(ln, "| "), " | ")
		if len(f) != len(keys) {
			return ids, docs, fmt.Sprintf("row %q has %d cells", ln, len(f))
		}
		ids = append(ids, strings.Join(f, "|"))
	}
	return ids, docs, ""
}

func formats(quick bool) []fmtSpec {
	all := []fmtSpec{
		{"csv", "--ocsv", "csv", parseSeparated(",")},
		{"json", "--ojson", "json", parseJSON},
		{"dkvp", "--odkvp", "dkvp", parseDKVP},
		{"pprint", "--opprint", "pprint", parsePPRINT},
		{"tsv", "--otsv", "tsv", parseSeparated("\t")},
		{"jsonl", "--ojsonl", "jsonl", parseJSONL},
		{"xtab", "--oxtab", "xtab", parseXTAB},
		{"markdown", "--omd", "markdown", parseMarkdown},
		{"csvlite", "--ocsvlite", "csvlite", parseSeparated(",")},
	}
	if quick {
		return all[:4]
	}
	return all
}

// ---------------------------------------------------------------- statements / verbs that route

type router struct {
	name  string
	args  func(dir, ext string) []string // verb chain
	file  func(dir, target, ext string) string
	lines bool // print-style: the file holds the id lines, format-independent
	appnd bool // >> / -a: the file starts with pre-existing content
	mgrs  int  // number of handler managers sharing the LRU capacity semantics (1)
}

func routers(quick bool) []router {
	q := func(s string) string { return `"` + s + `"` }
	rs := []router{
		{name: "put-tee>", args: func(d, e string) []string {
			return []string{"put", "-q", `tee > ` + q(d+"/") + `.$t.` + q("."+e) + `, $*`}
		},
			file: func(d, t, e string) string { return filepath.Join(d, t+"."+e) }},
		{name: "put-emit>", args: func(d, e string) []string {
			return []string{"put", "-q", `emit > ` + q(d+"/") + `.$t.` + q("."+e) + `, mapexcept($*, "nosuch")`}
		}, file: func(d, t, e string) string { return filepath.Join(d, t+"."+e) }},
		{name: "put-print>", lines: true, args: func(d, e string) []string {
			return []string{"put", "-q", `print > ` + q(d+"/") + `.$t.` + q(".txt") + `, $id`}
		},
			file: func(d, t, e string) string { return filepath.Join(d, t+".txt") }},
		{name: "split-g", args: func(d, e string) []string { return []string{"split", "-g", "t", "--prefix", d + "/s"} },
			file: func(d, t, e string) string { return filepath.Join(d, "s_"+t+"."+e) }},
		{name: "put-tee>>", appnd: true, args: func(d, e string) []string {
			return []string{"put", "-q", `tee >> ` + q(d+"/") + `.$t.` + q("."+e) + `, $*`}
		},
			file: func(d, t, e string) string { return filepath.Join(d, t+"."+e) }},
	}
	// (a) the record is changed AFTER it was routed (later statements of the same expression, the next verb of the
	// chain): the target must hold the record as it was when the redirect statement ran
	rs = append(rs,
		router{name: "put-tee>-then-mutate", args: func(d, e string) []string {
			return []string{"put", `tee > ` + q(d+"/") + `.$t.` + q("."+e) + `, $*; $v = 0; $t = "Z"; $w = 1; unset $id`, "then", "put", "$x = 2"}
		}, file: func(d, t, e string) string { return filepath.Join(d, t+"."+e) }},
		router{name: "put-emit>-then-mutate", args: func(d, e string) []string {
			return []string{"put", `emit > ` + q(d+"/") + `.$t.` + q("."+e) + `, mapexcept($*, "nosuch"); $v = 0; $t = "Z"; $w = 1; unset $id`, "then", "put", "$x = 2"}
		}, file: func(d, t, e string) string { return filepath.Join(d, t+"."+e) }},
		// (b) the target name comes from other expression forms than a dot-concatenation: a string literal that
		// interpolates a regex capture, a local, a function call
		router{name: "put-tee>-capture", args: func(d, e string) []string {
			return []string{"put", "-q", `if ($t =~ "^(.*)$") { tee > ` + q(d+`/\1.`+e) + `, $* }`}
		}, file: func(d, t, e string) string { return filepath.Join(d, t+"."+e) }},
		router{name: "put-print>-capture", lines: true, args: func(d, e string) []string {
			return []string{"put", "-q", `if ($t =~ "^(.*)$") { print > ` + q(d+`/\1.txt`) + `, $id }`}
		}, file: func(d, t, e string) string { return filepath.Join(d, t+".txt") }},
		router{name: "put-tee>-local", args: func(d, e string) []string {
			return []string{"put", "-q", `var f = ` + q(d+"/") + `.$t.` + q("."+e) + `; tee > f, $*`}
		}, file: func(d, t, e string) string { return filepath.Join(d, t+"."+e) }},
	)
	if !quick {
		rs = append(rs,
			router{name: "put-emit>-capture", args: func(d, e string) []string {
				return []string{"put", "-q", `if ($t =~ "^(.*)$") { emit > ` + q(d+`/\1.`+e) + `, mapexcept($*, "nosuch") }`}
			}, file: func(d, t, e string) string { return filepath.Join(d, t+"."+e) }},
			router{name: "put-printn>-capture", lines: true, args: func(d, e string) []string {
				return []string{"put", "-q", `if ($t =~ "^(.*)$") { printn > ` + q(d+`/\1.txt`) + `, $id."\n" }`}
			}, file: func(d, t, e string) string { return filepath.Join(d, t+".txt") }},
			router{name: "put-dump>-capture", lines: true, args: func(d, e string) []string {
				return []string{"put", "-q", `if ($t =~ "^(.*)$") { dump > ` + q(d+`/\1.txt`) + `, $id }`}
			}, file: func(d, t, e string) string { return filepath.Join(d, t+".txt") }},
			router{name: "put-tee>-funcall", args: func(d, e string) []string {
				return []string{"put", "-q", `tee > sub(` + q(d+"/X."+e) + `, "X", $t), $*`}
			}, file: func(d, t, e string) string { return filepath.Join(d, t+"."+e) }},
			router{name: "put-tee>-oosvar", args: func(d, e string) []string {
				return []string{"put", "-q", `begin{@pfx = ` + q(d+"/") + `} tee > @pfx.$t.` + q("."+e) + `, $*`}
			}, file: func(d, t, e string) string { return filepath.Join(d, t+"."+e) }},
			router{name: "put-emit>>-then-mutate", appnd: true, args: func(d, e string) []string {
				return []string{"put", `emit >> ` + q(d+"/") + `.$t.` + q("."+e) + `, mapexcept($*, "nosuch"); $v = 0; unset $id`}
			}, file: func(d, t, e string) string { return filepath.Join(d, t+"."+e) }},
		)
		rs = append(rs,
			router{name: "put-emitf>", args: func(d, e string) []string {
				return []string{"put", "-q", `@id=$id; @t=$t; @v=$v; emitf > ` + q(d+"/") + `.$t.` + q("."+e) + `, @id, @t, @v`}
			}, file: func(d, t, e string) string { return filepath.Join(d, t+"."+e) }},
			router{name: "put-printn>", lines: true, args: func(d, e string) []string {
				return []string{"put", "-q", `printn > ` + q(d+"/") + `.$t.` + q(".txt") + `, $id."\n"`}
			}, file: func(d, t, e string) string { return filepath.Join(d, t+".txt") }},
			router{name: "put-dump>", lines: true, args: func(d, e string) []string {
				return []string{"put", "-q", `dump > ` + q(d+"/") + `.$t.` + q(".txt") + `, $id`}
			}, file: func(d, t, e string) string { return filepath.Join(d, t+".txt") }},
			router{name: "split-g-a", appnd: true, args: func(d, e string) []string { return []string{"split", "-a", "-g", "t", "--prefix", d + "/s"} },
				file: func(d, t, e string) string { return filepath.Join(d, "s_"+t+"."+e) }},
		)
	}
	return rs
}

// ---------------------------------------------------------------- LRU reference (which writes reopen an evicted target)

func reopens(hist []int, capacity int) map[int]bool {
	// returns the set of targets that are written again after having been evicted
	var lru []int // most recent first
	evicted := map[int]bool{}
	out := map[int]bool{}
	for _, t := range hist {
		pos := -1
		for i, x := range lru {
			if x == t {
				pos = i
			}
		}
		if pos >= 0 {
			lru = append(lru[:pos], lru[pos+1:]...)
		} else {
			if evicted[t] {
				out[t] = true
			}
			if len(lru) >= capacity {
				evicted[lru[len(lru)-1]] = true
				lru = lru[:len(lru)-1]
			}
		}
		lru = append([]int{t}, lru...)
	}
	return out
}

var targetNames = []string{"A", "B", "C", "D", "E"}

// one history through one router/format; returns nothing, reports violations
func runHistory(w *vf.Worker, capLabel string, capacity int, r router, f fmtSpec, hist []int, dir string) {
	// clean
	ents, _ := os.ReadDir(dir)
	for _, e := range ents {
		os.Remove(filepath.Join(dir, e.Name()))
	}
	keys := []string{"id", "t", "v"}
	var in strings.Builder
	routed := map[int][]string{}
	for i, t := range hist {
		id := fmt.Sprint(i + 1)
		fmt.Fprintf(&in, "id=%s,t=%s,v=%d\n", id, targetNames[t], (i+1)*(i+1))
		if r.lines {
			routed[t] = append(routed[t], id)
		} else {
			// the whole record as it was when it was routed
			routed[t] = append(routed[t], fmt.Sprintf("%s|%s|%d", id, targetNames[t], (i+1)*(i+1)))
		}
	}
	pre := ""
	if r.appnd {
		// pre-existing content: what the same format writes for one earlier record, produced by an
		// independent formatting of a single record through the plain `cat` path of the real writer
		res := vf.RunMlr([]string{f.flag, "cat"}, vf.MlrOpts{Stdin: ptr("id=0,t=Z,v=0\n")})
		pre = res.Stdout
		for t := range routed {
			os.WriteFile(r.file(dir, targetNames[t], f.ext), []byte(pre), 0644)
		}
	}
	args := append([]string{f.flag}, r.args(dir, f.ext)...)
	s := in.String()
	res := vf.RunMlr(args, vf.MlrOpts{Stdin: &s})
	w.Eval(1)
	hs := histString(hist)
	base := fmt.Sprintf("%s:cap=%s:%s", r.name, capLabel, hs)
	rp := map[string]any{"argv": args, "input": s, "lru_capacity": capLabel, "history": hs}
	if !res.OK() {
		w.Violation(fmt.Sprintf("run-failed[%s]:%s", f.name, base), fmt.Sprintf("mlr %s on history %s: %s", strings.Join(args, " "), hs, res.String()), rp)
		return
	}
	re := reopens(hist, capacity)
	seen := map[string]bool{}
	var union []string
	for t, want := range routed {
		p := r.file(dir, targetNames[t], f.ext)
		seen[filepath.Base(p)] = true
		b, err := os.ReadFile(p)
		if err != nil {
			w.Violation(fmt.Sprintf("missing-file[%s]:%s", f.name, base), fmt.Sprintf("target %s of history %s was never written: %v", targetNames[t], hs, err), rp)
			continue
		}
		text := string(b)
		var ids []string
		docs := 1
		bad := ""
		if r.lines {
			if text != "" {
				ids = strings.Split(strings.TrimSuffix(text, "\n"), "\n")
			}
		} else {
			body := text
			if r.appnd {
				if !strings.HasPrefix(text, pre) {
					w.Violation(fmt.Sprintf("append-clobbered[%s]:%s", f.name, base), fmt.Sprintf("append mode: pre-existing content of target %s is gone: %q", targetNames[t], trunc(text, 200)), rp)
					continue
				}
				body = text[len(pre):]
			}
			ids, docs, bad = f.parse(body, keys)
		}
		union = append(union, ids...)
		if bad != "" {
			w.Violation(fmt.Sprintf("malformed[%s]:%s", f.name, base), fmt.Sprintf("target %s of history %s is not a well-formed %s document: %s: %q", targetNames[t], hs, f.name, bad, trunc(text, 300)), rp)
			continue
		}
		if strings.Join(ids, ",") != strings.Join(want, ",") {
			w.Violation(fmt.Sprintf("records[%s]:%s", f.name, base), fmt.Sprintf("target %s of history %s holds records %v, routed were %v", targetNames[t], hs, ids, want), rp)
			continue
		}
		if docs > 1 {
			if re[t] {
				w.Violation(fmt.Sprintf("reopen-restarts-document[%s]:%s", f.name, base), fmt.Sprintf("target %s of history %s (LRU capacity %s) was evicted and written again: its %s file contains %d documents (headers / bracket pairs) instead of one: %q", targetNames[t], hs, capLabel, f.name, docs, trunc(text, 300)), rp)
			} else {
				w.Violation(fmt.Sprintf("multiple-documents[%s]:%s", f.name, base), fmt.Sprintf("target %s of history %s contains %d documents although it was never evicted: %q", targetNames[t], hs, docs, trunc(text, 300)), rp)
			}
			continue
		}
		w.Count("target_files_well_formed", 1)
		if re[t] {
			w.Count("target_files_reopened_after_eviction_and_well_formed", 1)
		}
	}
	if len(re) > 0 {
		w.Count("histories_with_revisit_after_eviction", 1)
		w.Nontrivial(1)
	} else if len(routed) > capacity {
		w.Count("histories_with_eviction_only", 1)
	}
	// nothing else may appear
	ents, _ = os.ReadDir(dir)
	for _, e := range ents {
		if !seen[e.Name()] {
			w.Violation(fmt.Sprintf("stray-file[%s]:%s", f.name, base), fmt.Sprintf("history %s: unexpected file %s", hs, e.Name()), rp)
		}
	}
	sort.Strings(union)
	if len(union) != len(hist) && !w.HasViolationPrefix(base) {
		w.Violation(fmt.Sprintf("union[%s]:%s", f.name, base), fmt.Sprintf("history %s: union of all targets holds %d records, routed %d", hs, len(union), len(hist)), rp)
	}
	w.Count("router:"+r.name, 1)
	w.Count("format:"+f.name, 1)
}

func ptr(s string) *string { return &s }

func histString(h []int) string {
	if len(h) > 24 {
		return fmt.Sprintf("len%d", len(h))
	}
	var b strings.Builder
	for _, t := range h {
		b.WriteString(targetNames[t%len(targetNames)])
	}
	if b.Len() == 0 {
		return "(empty)"
	}
	return fmt.Sprintf("%02d-%s", len(h), b.String())
}

func trunc(s string, n int) string {
	if len(s) > n {
		return s[:n] + "..."
	}
	return s
}

type histArgs struct {
	Capacity int `json:"capacity"`
	Targets  int `json:"targets"`
	MaxLen   int `json:"maxlen"`
}

func histWorker(w *vf.Worker) {
	var a histArgs
	json.Unmarshal(w.Args, &a)
	dir, err := os.MkdirTemp("/dev/shm", "verif-c20-")
	if err != nil {
		w.Broken("tempdir: %v", err)
		return
	}
	defer os.RemoveAll(dir)
	fs := formats(w.Quick())
	rs := routers(w.Quick())
	var idx uint64
	// canonical enumeration: by length, then lexicographic
	for L := 0; L <= a.MaxLen; L++ {
		hist := make([]int, L)
		for {
			// canonical form under target renaming: first occurrences appear in order A,B,C... (halves the space, loses nothing:
			// targets are interchangeable names)
			canon := true
			next := 0
			for _, t := range hist {
				if t > next {
					canon = false
					break
				}
				if t == next {
					next++
				}
			}
			if canon {
				idx++
				if w.Mine(idx) {
					w.Begin(idx)
					w.Label(func() string { return histString(hist) })
					for _, r := range rs {
						for _, f := range fs {
							if r.lines && f.name != fs[0].name {
								continue
							}
							runHistory(w, fmt.Sprint(a.Capacity), a.Capacity, r, f, hist, dir)
						}
					}
					w.Rep.States++
					w.Rep.Transitions += int64(L)
					if len(w.Rep.Samples) < 1 && L == a.MaxLen {
						w.Sample(map[string]any{"history": histString(hist), "lru_capacity": a.Capacity, "routers": len(rs), "formats": len(fs)})
					}
				}
			}
			// increment
			i := L - 1
			for i >= 0 {
				hist[i]++
				if hist[i] < a.Targets {
					break
				}
				hist[i] = 0
				i--
			}
			if i < 0 {
				break
			}
		}
	}
}

// real capacity (256): structured families
func realWorker(w *vf.Worker) {
	dir, err := os.MkdirTemp("/dev/shm", "verif-c20r-")
	if err != nil {
		w.Broken("tempdir: %v", err)
		return
	}
	defer os.RemoveAll(dir)
	names := func(n int) {
		targetNames = targetNames[:0]
		for i := 0; i < n; i++ {
			targetNames = append(targetNames, fmt.Sprintf("T%03d", i))
		}
	}
	type fam struct {
		name string
		hist []int
	}
	var fams []fam
	seq := func(a, b int) []int {
		var s []int
		for i := a; i < b; i++ {
			s = append(s, i)
		}
		return s
	}
	fams = append(fams,
		fam{"cyclic-258x2", append(seq(0, 258), seq(0, 258)...)},
		fam{"revisit-after-gap-1+256+1", append(append([]int{0}, seq(1, 257)...), 0)},
		fam{"within-capacity-256x2", append(seq(0, 256), seq(0, 256)...)},
		fam{"sawtooth-300", func() []int {
			var s []int
			for i := 0; i < 300; i++ {
				s = append(s, i, 0)
			}
			return s
		}()},
		fam{"two-pass-300", append(seq(0, 300), seq(0, 300)...)},
	)
	fs := formats(true)[:3]
	rs := routers(true)[:1]
	rs = append(rs, routers(true)[3]) // split -g
	var idx uint64
	for _, fm := range fams {
		for _, r := range rs {
			for _, f := range fs {
				idx++
				if !w.Mine(idx) {
					continue
				}
				w.Begin(idx)
				w.Label(func() string { return fm.name + " " + r.name + " " + f.name })
				names(301)
				sub := filepath.Join(dir, fmt.Sprint(idx))
				os.MkdirAll(sub, 0755)
				rr := r
				name := r.name
				rr.name = name + ":" + fm.name
				runHistory(w, "256(real)", 256, rr, f, fm.hist, sub)
				os.RemoveAll(sub)
				w.Rep.States++
				w.Rep.Transitions += int64(len(fm.hist))
				w.Count("real_capacity_families", 1)
			}
		}
	}
}

// ---------------------------------------------------------------- free-running -race pass over fan-out
//
// Every target has a writer goroutine of its own: state that writers (or a writer and the main stream's writer) share
// at package scope is invisible to every deterministic run above and corrupts cells only under real parallelism. The
// same routers run uninstrumented under the race detector, for every output format, with 4 targets written at the same
// time; a report is a violation keyed by the racing site.
func raceWorker(w *vf.Worker) {
	if os.Getenv("VERIF_RACE_LOG") == "" {
		w.Broken("race worker without VERIF_RACE_LOG")
		return
	}
	dir, err := os.MkdirTemp("/dev/shm", "verif-c20race-")
	if err != nil {
		w.Broken("tempdir: %v", err)
		return
	}
	defer os.RemoveAll(dir)
	n := 2400
	if !w.Quick() {
		n = 12000
	}
	var in strings.Builder
	for i := 1; i <= n; i++ {
		fmt.Fprintf(&in, "id=%d,t=%c,v=%d,s=text %d\n", i, 'A'+i%4, i*i, i%13)
	}
	input := in.String()
	fmts := []string{"csv", "tsv", "json", "jsonl", "dkvp", "nidx", "xtab", "pprint", "markdown", "csvlite", "dkvpx", "yaml", "dcf", "recutils"}
	type rc struct {
		name string
		args func(d, f string) []string
	}
	q := func(s string) string { return `"` + s + `"` }
	chains := []rc{
		{"split -g", func(d, f string) []string { return []string{"split", "-g", "t", "--prefix", d + "/s"} }},
		{"tee >", func(d, f string) []string { return []string{"put", "-q", `tee > ` + q(d+"/") + `.$t.".out", $*`} }},
		{"emit >", func(d, f string) []string {
			return []string{"put", "-q", `emit > ` + q(d+"/") + `.$t.".out", mapexcept($*, "nosuch")`}
		}},
		{"tee verb + main stream", func(d, f string) []string { return []string{"tee", d + "/tee.out", "then", "put", "$w = 1"} }},
		{"tee > + main stream mutating", func(d, f string) []string {
			return []string{"put", `tee > ` + q(d+"/") + `.$t.".out", $*; $v = 0; unset $s`, "then", "put", "$x = 2"}
		}},
		{"print > and dump >", func(d, f string) []string {
			return []string{"put", "-q", `print > ` + q(d+"/") + `.$t.".txt", $id; dump > ` + q(d+"/d") + `.$t.".txt", $*`}
		}},
	}
	var idx uint64
	for _, f := range fmts {
		for _, ch := range chains {
			idx++
			if !w.Mine(idx) {
				continue
			}
			w.Begin(idx)
			f, ch := f, ch
			w.Label(func() string { return "race " + ch.name + " " + f })
			sub := filepath.Join(dir, fmt.Sprint(idx))
			os.MkdirAll(sub, 0755)
			vf.TakeRaceLogs()
			args := append([]string{"-o", f, "--records-per-batch", "20"}, ch.args(sub, f)...)
			var res vf.MlrResult
			for rep := 0; rep < 2; rep++ {
				res = vf.RunMlr(args, vf.MlrOpts{Stdin: &input})
			}
			os.RemoveAll(sub)
			w.Eval(2)
			w.Count("race_pass_chains", 1)
			if !res.OK() {
				w.Inexhaustive(fmt.Sprintf("race pass chain `%s` with -o %s exits non-zero (%s): it exercises nothing", ch.name, f, trunc(res.Stderr+res.Err, 200)))
			}
			for _, rs := range vf.RaceSites(vf.TakeRaceLogs()) {
				w.Violation("data-race:"+rs.Site, fmt.Sprintf("the race detector reports unsynchronised access between goroutines at %s (seen while running `mlr %s` with %d records routed to 4 targets, or a chain shortly before it): target files can hold cells of other records", rs.Site, trunc(strings.Join(args, " "), 300), n),
					map[string]any{"argv": args, "records": n, "report": rs.Report})
			}
			w.Nontrivial(1)
		}
	}
}

func run(c *vf.Ctx) {
	c.Rule = "a history is a sequence of (target, record) writes; ALL histories up to the length bound over the target set are enumerated up to target renaming (canonical form: first occurrences in order), each through every routing statement/verb x output format, in builds whose LRU capacity constant is 2 and 3; structured families (cyclic, revisit after a 256-gap, sawtooth, two-pass) at the real capacity 256. evaluations = invocations; states = distinct histories; distinct_nontrivial = invocations whose history revisits a target after its eviction"
	c.Assume("the reduced-capacity builds differ from the real one only in the literal of lruFileHandlerCapacity (tools/vinstr -const); the families at 256 bind the reduced model to the real constant")
	c.Assume("pipe targets (| cmd) are external processes and not enumerated here; names needing escaping are covered by C12/C17 style checks of split only through -g values A..E (no escaping needed)")
	c.Assume("each target's records are homogeneous (same keys): heterogeneity inside one CSV target is C17's schema-change fault")
	type v struct {
		bin     string
		a       histArgs
		shards  int
		variant string
	}
	L2, L3 := 6, 5
	T2, T3 := 4, 5
	if !c.Quick() {
		L2, L3, T2, T3 = 8, 7, 4, 5
	}
	variants := []v{
		{os.Getenv("VERIF_BIN_LRU2"), histArgs{Capacity: 2, Targets: T2, MaxLen: L2}, 64, "lru2"},
		{os.Getenv("VERIF_BIN_LRU3"), histArgs{Capacity: 3, Targets: T3, MaxLen: L3}, 64, "lru3"},
	}
	for _, x := range variants {
		if x.bin == "" {
			c.Broken("variant binary for %s missing", x.variant)
			return
		}
		c.RunPool(vf.PoolSpec{Worker: "hist", Bin: x.bin, Args: x.a, Shards: x.shards, StallSecs: 600})
	}
	c.RunPool(vf.PoolSpec{Worker: "real", Shards: 32, StallSecs: 900})
	c.RunPool(vf.PoolSpec{Worker: "split", Shards: 32, StallSecs: 900})
	c.RunPool(vf.PoolSpec{Worker: "sched", Sched: true, Shards: len(schedCases(c.Quick())), StallSecs: 600,
		CrashKey: func(idx uint64, label, kind, tail string) (string, string) {
			return "fanout-sched-crash:" + label, fmt.Sprintf("worker %s while exploring the schedules of %s: %s", kind, label, trunc(tail, 600))
		}})
	c.Assume("fan-out under the scheduler: histories of 2-4 records over 2-3 targets through tee >, emit >, print >, split -g (also passing on into head -n 1) x 4 formats x batch sizes 1 and 2; ALL schedules; the maps of open handlers are iterated in sorted key order in the sched build (tools/vinstr sortedRangeSites) so that the close order is a choice the scheduler owns")
	if rb := os.Getenv("VERIF_BIN_RACE"); rb != "" {
		rdir, _ := os.MkdirTemp("/dev/shm", "verif-c20racelog-")
		c.RunPool(vf.PoolSpec{Worker: "race", Bin: rb, Shards: 16, StallSecs: 900, Env: vf.RaceEnv(rdir)})
		os.RemoveAll(rdir)
	} else {
		c.Broken("no -race binary (VERIF_BIN_RACE)")
	}
	c.Assume("the -race pass over fan-out (6 routing chains x 14 output formats, 4 targets written concurrently) is a dynamic observation of one free-running execution per chain, not an enumeration: it guards the writers-share-nothing assumption that every deterministic run above rests on")
	c.TracesValidated = c.Evaluations
	c.Extra["bounds"] = map[string]any{"capacity2": map[string]int{"targets": T2, "maxlen": L2}, "capacity3": map[string]int{"targets": T3, "maxlen": L3}}
}
