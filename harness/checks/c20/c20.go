// Package c20: check for property C20 (see /verif/DESIGN.md §3 C20).
package c20
