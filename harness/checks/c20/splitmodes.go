package c20

// split -n / -m / -g with -a, -v, --prefix/--suffix/--folder/-j/-e and names needing escaping, and the tee verb with
// -a: every stream of N <= 6 records, every size/modulus, against the reference partition from the usage text
// (size mode: records 1..n in file 1, the next n in file 2; modulus mode: records 1, m+1, 2m+1 ... in file 1).

import (
	"fmt"
	"net/url"
	"os"
	"path/filepath"
	"strings"

	"verif/harness/vf"
)

func splitWorker(w *vf.Worker) {
	dir, err := os.MkdirTemp("/dev/shm", "verif-c20s-")
	if err != nil {
		w.Broken("tempdir: %v", err)
		return
	}
	defer os.RemoveAll(dir)
	maxN := 5
	if !w.Quick() {
		maxN = 7
	}
	fs := formats(true)
	type nameOpts struct {
		name string
		args []string
		file func(part string, ext string) string // path relative to dir
	}
	nos := []nameOpts{
		{"default", nil, func(p, e string) string { return "split_" + p + "." + e }},
		{"prefix-suffix", []string{"--prefix", "pre", "--suffix", "dat"}, func(p, e string) string { return "pre_" + p + ".dat" }},
		{"folder-joiner", []string{"--folder", "sub", "-j", "+"}, func(p, e string) string { return "sub/split+" + p + "." + e }},
	}
	keys := []string{"id", "t", "v"}
	var idx uint64
	clean := func() {
		os.RemoveAll(dir)
		os.MkdirAll(filepath.Join(dir, "sub"), 0755)
	}
	// (a) size and modulus modes
	for n := 0; n <= maxN; n++ {
		for _, mode := range []string{"-n", "-m"} {
			for k := 1; k <= 3; k++ {
				for _, appendMode := range []bool{false, true} {
					for _, passOn := range []bool{false, true} {
						idx++
						if !w.Mine(idx) {
							continue
						}
						w.Begin(idx)
						for _, f := range fs {
							for _, no := range nos {
								clean()
								var in strings.Builder
								want := map[string][]string{}
								for i := 1; i <= n; i++ {
									fmt.Fprintf(&in, "id=%d,t=x,v=%d\n", i, i*i)
									part := ""
									if mode == "-n" {
										part = fmt.Sprint((i-1)/k + 1)
									} else {
										part = fmt.Sprint((i-1)%k + 1)
									}
									want[part] = append(want[part], fmt.Sprint(i))
								}
								pre := ""
								if appendMode {
									res := vf.RunMlr([]string{f.flag, "cat"}, vf.MlrOpts{Stdin: ptr("id=0,t=Z,v=0\n")})
									pre = res.Stdout
									for part := range want {
										os.WriteFile(filepath.Join(dir, no.file(part, f.ext)), []byte(pre), 0644)
									}
								}
								args := []string{f.flag, "split", mode, fmt.Sprint(k)}
								if appendMode {
									args = append(args, "-a")
								}
								if passOn {
									args = append(args, "-v")
								}
								for _, a := range no.args {
									if a == "sub" {
										a = filepath.Join(dir, "sub")
									}
									args = append(args, a)
								}
								if no.name != "folder-joiner" {
									// files are created relative to the prefix: make it absolute
									pfx := "split"
									if no.name == "prefix-suffix" {
										pfx = "pre"
										args = args[:len(args)-4]
										args = append(args, "--prefix", filepath.Join(dir, pfx), "--suffix", "dat")
									} else {
										args = append(args, "--prefix", filepath.Join(dir, pfx))
									}
								}
								s := in.String()
								res := vf.RunMlr(args, vf.MlrOpts{Stdin: &s})
								w.Eval(1)
								label := fmt.Sprintf("split %s %d append=%v v=%v names=%s:N=%d", mode, k, appendMode, passOn, no.name, n)
								rp := map[string]any{"argv": args, "input": s}
								if !res.OK() {
									w.Violation(fmt.Sprintf("split-run-failed[%s]:%s", f.name, label), res.String(), rp)
									continue
								}
								// main stream: -v passes every record on, otherwise nothing
								mainIDs, _, bad := f.parse(res.Stdout, keys)
								if bad != "" || (passOn && len(mainIDs) != n) || (!passOn && len(mainIDs) != 0) {
									w.Violation(fmt.Sprintf("split-main-stream[%s]:%s", f.name, label), fmt.Sprintf("%s: main stream has %d records (malformed: %q), expected %d", label, len(mainIDs), bad, map[bool]int{true: n, false: 0}[passOn]), rp)
								}
								total := 0
								for part, ids := range want {
									b, err := os.ReadFile(filepath.Join(dir, no.file(part, f.ext)))
									if err != nil {
										w.Violation(fmt.Sprintf("split-missing-file[%s]:%s", f.name, label), fmt.Sprintf("%s: file for part %s missing: %v", label, part, err), rp)
										continue
									}
									text := string(b)
									if appendMode {
										if !strings.HasPrefix(text, pre) {
											w.Violation(fmt.Sprintf("split-append-clobbered[%s]:%s", f.name, label), fmt.Sprintf("%s: -a did not keep the existing content of part %s: %q", label, part, trunc(text, 200)), rp)
											continue
										}
										text = text[len(pre):]
									}
									got, docs, bad := f.parse(text, keys)
									got = idsOf(got)
									if bad != "" || docs > 1 || strings.Join(got, ",") != strings.Join(ids, ",") {
										w.Violation(fmt.Sprintf("split-records[%s]:%s", f.name, label), fmt.Sprintf("%s: part %s holds %v (documents=%d, %s), routed were %v", label, part, got, docs, bad, ids), rp)
										continue
									}
									total += len(got)
								}
								// no stray files
								cnt := 0
								filepath.Walk(dir, func(p string, info os.FileInfo, err error) error {
									if err == nil && !info.IsDir() {
										cnt++
									}
									return nil
								})
								if cnt != len(want) {
									w.Violation(fmt.Sprintf("split-stray-files[%s]:%s", f.name, label), fmt.Sprintf("%s: %d files exist, %d parts were routed", label, cnt, len(want)), rp)
								}
								w.Count("split_mode_cases", 1)
								if n >= 2 {
									w.Nontrivial(1)
								}
							}
						}
					}
				}
			}
		}
	}
	// (b) group mode with names that need escaping, -e, two group-by fields
	nasty := []string{"a/b", "a b", "..", "é", "x&y", "p?q", "A"}
	for _, esc := range []bool{true, false} {
		for i, v1 := range nasty {
			idx++
			if !w.Mine(idx) {
				continue
			}
			w.Begin(idx)
			if !esc && (strings.Contains(v1, "/") || v1 == "..") {
				continue // without escaping these name other directories: outside the check's sandbox
			}
			v2 := nasty[(i+3)%len(nasty)]
			if !esc && (strings.Contains(v2, "/") || v2 == "..") {
				v2 = "B"
			}
			clean()
			in := fmt.Sprintf("id=1,k=%s,h=1\nid=2,k=%s,h=2\nid=3,k=%s,h=1\n", v1, v2, v1)
			args := []string{"--ojson", "split", "-g", "k,h", "--prefix", filepath.Join(dir, "g")}
			if !esc {
				args = append(args, "-e")
			}
			res := vf.RunMlr(args, vf.MlrOpts{Stdin: &in})
			w.Eval(1)
			label := fmt.Sprintf("split -g k,h escape=%v k=%q", esc, v1)
			rp := map[string]any{"argv": args, "input": in}
			if !res.OK() {
				w.Violation("split-g-run-failed:"+label, res.String(), rp)
				continue
			}
			name := func(k, h string) string {
				if esc {
					k = url.QueryEscape(k)
				}
				return "g_" + k + "_" + h + ".json"
			}
			wantFiles := map[string][]string{name(v1, "1"): {"1", "3"}, name(v2, "2"): {"2"}}
			found := 0
			for fn, ids := range wantFiles {
				b, err := os.ReadFile(filepath.Join(dir, fn))
				if err != nil {
					// the exact escaping function is not documented beyond "URL-escape": accept any single file holding exactly these records
					continue
				}
				got, docs, bad := parseJSON(string(b), nil)
				if bad == "" && docs == 1 && strings.Join(got, ",") == strings.Join(ids, ",") {
					found++
				}
			}
			// model-free: the union over all files holds every record exactly once, in per-file stream order
			var all []string
			filepath.Walk(dir, func(p string, info os.FileInfo, err error) error {
				if err == nil && !info.IsDir() {
					b, _ := os.ReadFile(p)
					got, docs, bad := parseJSON(string(b), nil)
					if bad != "" || docs != 1 {
						w.Violation("split-g-malformed:"+label, fmt.Sprintf("%s: %s is not one JSON document: %s", label, filepath.Base(p), bad), rp)
					}
					all = append(all, strings.Join(got, "+"))
				}
				return nil
			})
			joined := strings.Join(all, "|")
			if !(strings.Contains("|"+joined+"|", "|1+3|") && strings.Contains("|"+joined+"|", "|2|") && len(all) == 2) {
				w.Violation("split-g-partition:"+label, fmt.Sprintf("%s: files hold %v, expected the partition {1,3} {2}", label, all), rp)
			}
			if found == 2 {
				w.Count("split_g_documented_names_matched", 1)
			}
			w.Count("split_g_name_cases", 1)
		}
	}
	// (c) tee verb: -a onto existing content, then-chain continues
	for _, f := range fs {
		for _, appendMode := range []bool{false, true} {
			idx++
			if !w.Mine(idx) {
				continue
			}
			w.Begin(idx)
			clean()
			target := filepath.Join(dir, "tee."+f.ext)
			pre := ""
			if appendMode {
				res := vf.RunMlr([]string{f.flag, "cat"}, vf.MlrOpts{Stdin: ptr("id=0,t=Z,v=0\n")})
				pre = res.Stdout
			}
			os.WriteFile(target, []byte("OLD CONTENT THAT MUST GO UNLESS -a\n"), 0644)
			if appendMode {
				os.WriteFile(target, []byte(pre), 0644)
			}
			args := []string{f.flag, "tee"}
			if appendMode {
				args = append(args, "-a")
			}
			args = append(args, target, "then", "put", "$w=1")
			in := "id=1,t=x,v=1\nid=2,t=x,v=4\nid=3,t=x,v=9\n"
			res := vf.RunMlr(args, vf.MlrOpts{Stdin: &in})
			w.Eval(1)
			label := fmt.Sprintf("tee append=%v", appendMode)
			rp := map[string]any{"argv": args, "input": in}
			b, _ := os.ReadFile(target)
			text := string(b)
			if appendMode {
				if !strings.HasPrefix(text, pre) {
					w.Violation(fmt.Sprintf("tee-append-clobbered[%s]:%s", f.name, label), fmt.Sprintf("tee -a lost the existing content: %q", trunc(text, 200)), rp)
					continue
				}
				text = text[len(pre):]
			}
			got, docs, bad := f.parse(text, keys)
			// the tee file holds the records as they were when they passed the tee verb (the later put must not reach them)
			if !res.OK() || bad != "" || docs > 1 || strings.Join(got, ",") != "1|x|1,2|x|4,3|x|9" {
				w.Violation(fmt.Sprintf("tee-verb[%s]:%s", f.name, label), fmt.Sprintf("tee file holds %v (documents=%d %s) %s", got, docs, bad, res.Err), rp)
			}
			w.Count("tee_verb_cases", 1)
		}
	}
}
