package c20

// Fan-out under ALL goroutine schedules. Every target has a writer goroutine of its own, fed through channels by the
// verb that routes; the hist/real/split workers run each history once (one schedule). Here short histories over two and
// three targets run under the cooperative scheduler: in EVERY schedule the run must terminate and leave exactly the
// files that a free run of the same command leaves (whose content the other workers check with independent parsers).

import (
	"fmt"
	"os"
	"os/exec"
	"path/filepath"
	"sort"
	"strings"

	"github.com/johnkerl/miller/v6/pkg/verifrt"

	"verif/harness/vf"
)

type schedCase struct {
	r    router
	f    fmtSpec
	hist []int
	b    int
	tail []string // verbs after the router
}

func schedCases(quick bool) []schedCase {
	var out []schedCase
	hists := [][]int{{0, 1}, {0, 1, 0}, {0, 0, 1, 1}, {0, 1, 2}}
	if !quick {
		hists = append(hists, []int{0, 1, 0, 1}, []int{0, 1, 2, 0}, []int{0, 0, 0, 1})
	}
	fs := formats(true)
	var rs []router
	for _, r := range routers(true) {
		switch r.name {
		case "put-tee>", "put-emit>", "put-print>", "split-g", "put-tee>-then-mutate":
			rs = append(rs, r)
		}
	}
	for _, r := range rs {
		for fi, f := range fs {
			if r.lines && fi > 0 {
				continue
			}
			for _, h := range hists {
				for _, b := range []int{1, 2} {
					if quick && b == 2 && len(h) != 3 {
						continue
					}
					out = append(out, schedCase{r: r, f: f, hist: h, b: b})
				}
			}
		}
	}
	// the routed stream continues into an early-exit verb: the targets must still be complete
	for _, f := range fs[:2] {
		for _, h := range [][]int{{0, 1, 0}, {0, 0, 1, 1}} {
			out = append(out, schedCase{r: routerByName("split-g-pass"), f: f, hist: h, b: 1, tail: []string{"then", "head", "-n", "1"}})
			out = append(out, schedCase{r: routerByName("put-tee>-pass"), f: f, hist: h, b: 1, tail: []string{"then", "head", "-n", "1"}})
			out = append(out, schedCase{r: routerByName("tee-verb"), f: f, hist: h, b: 1, tail: []string{"then", "head", "-n", "1"}})
			out = append(out, schedCase{r: routerByName("tee-verb"), f: f, hist: h, b: 2, tail: []string{"then", "put", "-q", `tee > "` + "@D" + `/".$t.".x", $*`}})
		}
	}
	// (an early-exit signal can only overtake the tee verb when the reader still has input left: 5 and 6 records)
	for _, f := range fs[:2] {
		for _, h := range [][]int{{0, 1, 0, 1, 0}, {0, 1, 0, 1, 0, 1}} {
			out = append(out, schedCase{r: routerByName("tee-verb"), f: f, hist: h, b: 1, tail: []string{"then", "head", "-n", "1"}})
		}
	}
	return out
}

func routerByName(n string) router {
	q := func(s string) string { return `"` + s + `"` }
	switch n {
	case "split-g-pass":
		return router{name: n, args: func(d, e string) []string { return []string{"split", "-v", "-g", "t", "--prefix", d + "/s"} },
			file: func(d, t, e string) string { return filepath.Join(d, "s_"+t+"."+e) }}
	case "tee-verb":
		return router{name: n, args: func(d, e string) []string { return []string{"tee", d + "/all." + e} },
			file: func(d, t, e string) string { return filepath.Join(d, "all."+e) }}
	case "put-tee>-pass":
		return router{name: n, args: func(d, e string) []string {
			return []string{"put", `tee > ` + q(d+"/") + `.$t.` + q("."+e) + `, $*`}
		}, file: func(d, t, e string) string { return filepath.Join(d, t+"."+e) }}
	}
	panic("no such router " + n)
}

func dirContent(dir string) string {
	ents, _ := os.ReadDir(dir)
	var parts []string
	for _, e := range ents {
		b, _ := os.ReadFile(filepath.Join(dir, e.Name()))
		parts = append(parts, fmt.Sprintf("%s=%q", e.Name(), string(b)))
	}
	sort.Strings(parts)
	return strings.Join(parts, " ")
}

func schedWorker(w *vf.Worker) {
	dir, err := os.MkdirTemp("/dev/shm", "verif-c20s-")
	if err != nil {
		w.Broken("tempdir: %v", err)
		return
	}
	defer os.RemoveAll(dir)
	mlrBin := vf.MlrBin()
	if mlrBin == "" {
		w.Broken("no plain mlr binary (VERIF_BIN_MLR)")
		return
	}
	clean := func() {
		ents, _ := os.ReadDir(dir)
		for _, e := range ents {
			os.Remove(filepath.Join(dir, e.Name()))
		}
	}
	for ci, c := range schedCases(w.Quick()) {
		idx := uint64(ci + 1)
		if !w.Mine(idx) {
			continue
		}
		w.Begin(idx)
		c := c
		hs := histString(c.hist)
		key := fmt.Sprintf("%s[%s]:%s:b=%d%s", c.r.name, c.f.name, hs, c.b, strings.Join(c.tail, " "))
		w.Label(func() string { return key })
		var in strings.Builder
		for i, t := range c.hist {
			fmt.Fprintf(&in, "id=%d,t=%s,v=%d\n", i+1, targetNames[t], (i+1)*(i+1))
		}
		input := in.String()
		args := append([]string{c.f.flag, "--records-per-batch", fmt.Sprint(c.b)}, c.r.args(dir, c.f.ext)...)
		for _, a := range c.tail {
			args = append(args, strings.ReplaceAll(a, "@D", dir))
		}
		// reference: a free run of the same command by the plain binary
		clean()
		cmd := exec.Command(mlrBin, args...)
		cmd.Stdin = strings.NewReader(input)
		cmd.Env = append(os.Environ(), "MLRRC=__none__")
		refOut, rerr := cmd.Output()
		want := "stdout=" + string(refOut) + " | " + dirContent(dir)
		if rerr != nil {
			w.Violation("sched-reference-run-failed:"+key, fmt.Sprintf("free run of `mlr %s` fails: %v", strings.Join(args, " "), rerr), map[string]any{"argv": args, "input": input})
			continue
		}
		spec := vf.ExploreSpec{
			Before: clean,
			Body: func() string {
				out, err := vf.InvokeMlr(args, vf.MlrOpts{Stdin: &input})
				if err != nil {
					return "FAILED " + err.Error()
				}
				return "stdout=" + out
			},
			After: func(o string, r *verifrt.Result) string {
				vf.TakeStderr()
				return o + " | " + dirContent(dir)
			},
			MaxExecs:  300000,
			MaxSteps:  20000,
			StallSecs: 30,
		}
		r := vf.Explore(spec)
		w.Rep.States += r.States
		w.Rep.Transitions += r.Transitions
		w.Eval(int64(r.Execs))
		w.Count("fanout_sched_configurations", 1)
		w.Count("fanout_sched_executions_completed", int64(r.Completed))
		rp := func(sched []int) map[string]any {
			return map[string]any{"argv": args, "input": input, "schedule": sched}
		}
		if r.Stalled {
			w.Stalled("fanout-sched-stall:"+key, "a goroutine ran without reaching a scheduling point in "+key, rp(r.StalledAt))
		}
		if !r.Exhaustive {
			w.Inexhaustive(fmt.Sprintf("fan-out schedules of %s: budget hit (states=%d)", key, r.States))
		}
		if r.Branchings > 0 {
			w.Nontrivial(1)
		}
		if r.Deadlocks > 0 {
			w.Violation("fanout-sched-deadlock:"+key, fmt.Sprintf("deadlock in %d of %d executions of `mlr %s` (blocked: %s)", r.Deadlocks, r.Execs, strings.Join(args, " "), strings.Join(r.Blocked, " ")), rp(r.DeadlockAt))
		}
		if r.Horizons > 0 {
			w.Violation("fanout-sched-horizon:"+key, fmt.Sprintf("step horizon exceeded in `mlr %s`", strings.Join(args, " ")), rp(r.HorizonAt))
		}
		for f, n := range r.Faults {
			w.Violation("fanout-sched-fault:"+key, fmt.Sprintf("%s in %d executions of `mlr %s`", trunc(f, 300), n, strings.Join(args, " ")), rp(r.FaultAt[f]))
		}
		for o, n := range r.Outcomes {
			if o != want {
				w.Violation("fanout-sched-files:"+key, fmt.Sprintf("`mlr %s`: in %d executions (schedules) stdout and target files are [%s], a free run leaves [%s]", strings.Join(args, " "), n, trunc(o, 400), trunc(want, 400)), rp(r.Witness[o]))
			}
		}
		w.AddSet("fanout-sched-outcomes", fmt.Sprint(len(r.Outcomes)))
	}
}
