package c09

import (
	"fmt"
	"strings"

	"github.com/johnkerl/miller/v6/pkg/bifs"
	"github.com/johnkerl/miller/v6/pkg/dsl/cst"
	"github.com/johnkerl/miller/v6/pkg/mlrval"

	"verif/harness/vf"
)

// ---------------------------------------------------------------- alphabets

// D: element alphabet for arrays and map values.
func alphaD() []sym {
	return []sym{
		num("1", 1), num("1.0", 1), num("0x1", 1), num("2", 2), num("-3", -3), num("10", 10),
		str("abc"), str("Abc"), str("ABD"), str("a10"), str("a9"), str(""), boolean(true), boolean(false),
	}
}

// MK: map-key alphabet. Keys are texts; a key counts as a number when it is a
// decimal int/float spelling ("map elements likewise by map keys").
func alphaMK() []sym {
	return []sym{
		num("1", 1), num("2", 2), num("10", 10), num("9", 9), num("-3", -3), num("1.5", 1.5),
		str("abc"), str("Abc"), str("ABD"), str("a10"), str("a9"), str("1a"), str(""),
	}
}

type flagSpec struct {
	s string
	k kind
}

// every flag string documented by `mlr help function sort` ("f", "c", "t",
// "n" default, additional "r"), in both letter orders
var dslFlags = []flagSpec{
	{"", kNumA}, {"n", kNumA}, {"f", kLexA}, {"c", kCfA}, {"t", kNatA},
	{"r", kNumD}, {"nr", kNumD}, {"fr", kLexD}, {"cr", kCfD}, {"tr", kNatD},
	{"rf", kLexD}, {"rc", kCfD}, {"rt", kNatD},
}

func symKey(cl class, text string) string { return fmt.Sprintf("%d|%s", cl, text) }

func symIndex(a []sym) map[string]sym {
	m := map[string]sym{}
	for _, s := range a {
		m[symKey(s.cl, s.text)] = s
	}
	return m
}

func classOfType(t mlrval.MVType) (class, bool) {
	switch t {
	case mlrval.MT_INT, mlrval.MT_FLOAT:
		return cNum, true
	case mlrval.MT_BOOL:
		return cBool, true
	case mlrval.MT_VOID:
		return cVoid, true
	case mlrval.MT_STRING:
		return cStr, true
	}
	return 0, false
}

func classOfTypeName(n string) (class, bool) {
	switch n {
	case "int", "float":
		return cNum, true
	case "boolean", "bool":
		return cBool, true
	case "empty":
		return cVoid, true
	case "string":
		return cStr, true
	}
	return 0, false
}

func symToMlrval(s sym) *mlrval.Mlrval {
	switch s.cl {
	case cNum:
		return mlrval.FromInferredType(s.text)
	case cBool:
		return mlrval.FromBool(s.val != 0)
	}
	return mlrval.FromString(s.text)
}

func seqText(seq []sym) string {
	var p []string
	for _, s := range seq {
		p = append(p, s.lit)
	}
	return "[" + strings.Join(p, ",") + "]"
}

// isPermutation: same multiset of (class,text)
func isPermutation(a, b []sym) bool {
	if len(a) != len(b) {
		return false
	}
	cnt := map[string]int{}
	for _, s := range a {
		cnt[symKey(s.cl, s.text)]++
	}
	for _, s := range b {
		cnt[symKey(s.cl, s.text)]--
	}
	for _, v := range cnt {
		if v != 0 {
			return false
		}
	}
	return true
}

type pair struct {
	k string
	v sym
}

func pairsText(ps []pair) string {
	var p []string
	for _, x := range ps {
		p = append(p, fmt.Sprintf("%q:%s", x.k, x.v.lit))
	}
	return "{" + strings.Join(p, ",") + "}"
}

func isPairPermutation(a, b []pair) bool {
	if len(a) != len(b) {
		return false
	}
	cnt := map[string]int{}
	for _, s := range a {
		cnt[s.k+"\x00"+symKey(s.v.cl, s.v.text)]++
	}
	for _, s := range b {
		cnt[s.k+"\x00"+symKey(s.v.cl, s.v.text)]--
	}
	for _, v := range cnt {
		if v != 0 {
			return false
		}
	}
	return true
}

// ---------------------------------------------------------------- evaluation shared by the direct and the in-process paths

type dslEval struct {
	w     *vf.Worker
	st    orderStats
	path  string // "hof" (direct call) or "dsl" (mlr put)
	hits  map[string]int64
	keyOf map[string]sym // map-key text -> symbol
	nviol map[string]int
}

func (e *dslEval) hit(s string) {
	if e.hits == nil {
		e.hits = map[string]int64{}
	}
	e.hits[s]++
}

func isNatural(k kind) bool { return k == kNatA || k == kNatD }
func isNumeric(k kind) bool { return k == kNumA || k == kNumD }

// seqLabel names a recognisable feature of the case, used only to group
// violations (never to decide one).
func seqLabel(k kind, seq []sym, isMap bool) string {
	empty, upper, nums, strs := false, false, false, false
	for _, s := range seq {
		if s.text == "" {
			empty = true
		}
		if s.text != strings.ToLower(s.text) {
			upper = true
		}
		if s.cl == cNum {
			nums = true
		} else {
			strs = true
		}
	}
	switch {
	case isNatural(k) && isMap && upper:
		return "[map-natural-folds-case]"
	case isNatural(k) && empty:
		return "[natural-with-empty-string]"
	case isNumeric(k) && isMap && nums && strs:
		return "[map-numeric-mixed]"
	}
	return ""
}

func (e *dslEval) violation(cls, label, tag, call, what string, replay any) {
	capKey := cls + label + "|" + tag
	if e.nviol == nil {
		e.nviol = map[string]int{}
	}
	e.nviol[capKey]++
	e.nviol[cls+label]++
	if e.nviol[capKey] > 2 || e.nviol[cls+label] > 40 {
		e.w.Count("violations_counted_not_listed:"+e.path+"-"+cls+label, 1)
		return
	}
	e.w.Violation(fmt.Sprintf("%s-%s%s:%s", e.path, cls, label, call), what, replay)
}

// judgeArray applies the predicates to one sorted array.
func (e *dslEval) judgeArray(tag, call string, in, out []sym, k kind, assertOrder bool) {
	e.w.Eval(1)
	if !isPermutation(in, out) {
		e.violation("array-perm", "", tag, call, fmt.Sprintf("%s returned %s, not a permutation of its input with every element unchanged", call, seqText(out)), map[string]any{"call": call, "output": seqText(out)})
		return
	}
	if !assertOrder {
		e.w.Count(e.path+":order_not_asserted", 1)
		return
	}
	before := e.st.strict
	if what := checkSeq(k, out, &e.st); what != "" {
		e.violation("array-order", seqLabel(k, in, false), tag, call, fmt.Sprintf("%s returned %s: %s", call, seqText(out), what), map[string]any{"call": call, "output": seqText(out), "mlr": "mlr -n put 'end{print " + call + "}'"})
		return
	}
	if e.st.strict > before {
		e.w.Nontrivial(1)
	}
}

// judgeMap: byKey selects which component must be ordered.
func (e *dslEval) judgeMap(tag, call string, in, out []pair, k kind, byKey bool, assertOrder bool) {
	e.w.Eval(1)
	if !isPairPermutation(in, out) {
		e.violation("map-perm", "", tag, call, fmt.Sprintf("%s returned %s, not a permutation of its input's key-value pairs", call, pairsText(out)), map[string]any{"call": call, "output": pairsText(out)})
		return
	}
	if !assertOrder {
		e.w.Count(e.path+":order_not_asserted", 1)
		return
	}
	seq := make([]sym, len(out))
	for i, p := range out {
		if byKey {
			s, ok := e.keyOf[p.k]
			if !ok {
				s = str(p.k)
			}
			seq[i] = s
		} else {
			seq[i] = p.v
		}
	}
	before := e.st.strict
	if what := checkSeq(k, seq, &e.st); what != "" {
		which := "keys"
		if !byKey {
			which = "values"
		}
		e.violation("map-order", seqLabel(k, seq, true), tag, call, fmt.Sprintf("%s returned %s: by %s, %s", call, pairsText(out), which, what), map[string]any{"call": call, "output": pairsText(out), "mlr": "mlr -n put 'end{print " + call + "}'"})
		return
	}
	if e.st.strict > before {
		e.w.Nontrivial(1)
	}
}

func (e *dslEval) flush() {
	for k, v := range e.hits {
		e.w.Count(e.path+":"+k, v)
	}
	flushStats(e.w, e.path+":", &e.st)
}

func mapLit(ps []pair) string {
	var p []string
	for _, x := range ps {
		p = append(p, fmt.Sprintf("\"%s\":%s", x.k, x.v.lit))
	}
	return "{" + strings.Join(p, ",") + "}"
}

// ---------------------------------------------------------------- hof: direct calls of the functions behind sort / sort_collection

func mlrvalsToSyms(arr []*mlrval.Mlrval, index map[string]sym) ([]sym, string) {
	out := make([]sym, len(arr))
	for i, v := range arr {
		cl, ok := classOfType(v.Type())
		if !ok {
			return nil, fmt.Sprintf("element %d has type %s", i+1, v.GetTypeName())
		}
		s, ok := index[symKey(cl, v.String())]
		if !ok {
			return nil, fmt.Sprintf("element %d is %s %q, which is not an input element", i+1, v.GetTypeName(), v.String())
		}
		out[i] = s
	}
	return out, ""
}

func mapToPairs(m *mlrval.Mlrmap, index map[string]sym) ([]pair, string) {
	var out []pair
	for pe := m.Head; pe != nil; pe = pe.Next {
		cl, ok := classOfType(pe.Value.Type())
		if !ok {
			return nil, fmt.Sprintf("value at %q has type %s", pe.Key, pe.Value.GetTypeName())
		}
		s, ok := index[symKey(cl, pe.Value.String())]
		if !ok {
			return nil, fmt.Sprintf("value at %q is %s %q, which is not an input value", pe.Key, pe.Value.GetTypeName(), pe.Value.String())
		}
		out = append(out, pair{pe.Key, s})
	}
	return out, ""
}

func hofWorker(w *vf.Worker) {
	D := alphaD()
	MK := alphaMK()
	dIndex := symIndex(D)
	e := &dslEval{w: w, path: "hof", keyOf: map[string]sym{}}
	for _, s := range MK {
		e.keyOf[s.text] = s
	}
	maxLen := 4
	if !w.Quick() {
		maxLen = 5
	}
	var idx uint64
	in := make([]sym, 0, 8)
	// ---- arrays
	blocks(w, &idx, len(D), maxLen, 256, "sort(array, flags)", func(list []int) {
		in = in[:0]
		for _, x := range list {
			in = append(in, D[x])
		}
		lit := seqText(in)
		build := func() *mlrval.Mlrval {
			arr := make([]*mlrval.Mlrval, len(in))
			for i, s := range in {
				arr[i] = symToMlrval(s)
			}
			return mlrval.FromArray(arr)
		}
		one := func(tag, call string, k kind, f func(a *mlrval.Mlrval) *mlrval.Mlrval) {
			a := build()
			var res *mlrval.Mlrval
			if p, stack := vf.Try(func() { res = f(a) }); p != nil {
				w.Violation("hof-array-panic:"+call, fmt.Sprintf("%s panics: %v", call, p), map[string]any{"stack": stack})
				return
			}
			if res == nil || !res.IsArray() {
				w.Violation("hof-array-type:"+call, fmt.Sprintf("%s did not return an array", call), nil)
				return
			}
			out, bad := mlrvalsToSyms(res.GetArray(), dIndex)
			if bad != "" {
				w.Violation("hof-array-perm:"+call, fmt.Sprintf("%s: %s", call, bad), nil)
				return
			}
			// "sort does not modify its argument; it returns a sorted copy"
			if now, bad := mlrvalsToSyms(a.GetArray(), dIndex); bad != "" || seqText(now) != lit {
				w.Violation("hof-array-mutated:"+call, fmt.Sprintf("%s modified its argument (now %s)", call, seqText(now)), nil)
				return
			}
			e.judgeArray(tag, call, in, out, k, true)
		}
		for _, fs := range dslFlags {
			fs := fs
			one("\""+fs.s+"\"", fmt.Sprintf("sort(%s,\"%s\")", lit, fs.s), fs.k, func(a *mlrval.Mlrval) *mlrval.Mlrval {
				return cst.SortHOF([]*mlrval.Mlrval{a, mlrval.FromString(fs.s)}, nil)
			})
			e.hit("array-flag:\"" + fs.s + "\"")
		}
		one("one-arg", fmt.Sprintf("sort(%s)", lit), kNumA, func(a *mlrval.Mlrval) *mlrval.Mlrval { return cst.SortHOF([]*mlrval.Mlrval{a}, nil) })
		e.hit("array-one-argument")
		one("sort_collection", fmt.Sprintf("sort_collection(%s)", lit), kNumA, bifs.BIF_sort_collection)
		e.hit("sort_collection(array)")
	})

	// ---- maps by key: every injective key sequence
	mkLen := 4
	var keys []sym
	var rec func(depth int, used uint32)
	runKeyMap := func() {
		idx++
		if !w.Mine(idx) {
			return
		}
		w.Begin(idx)
		in := make([]pair, len(keys))
		for i, k := range keys {
			in[i] = pair{k.text, str(fmt.Sprintf("v%d", i))}
		}
		vIndex := map[string]sym{}
		for _, p := range in {
			vIndex[symKey(p.v.cl, p.v.text)] = p.v
		}
		lit := mapLit(in)
		one := func(tag, call string, k kind, f func(m *mlrval.Mlrval) *mlrval.Mlrval) {
			mm := mlrval.NewMlrmap()
			for _, p := range in {
				mm.PutReference(p.k, symToMlrval(p.v))
			}
			var res *mlrval.Mlrval
			if p, stack := vf.Try(func() { res = f(mlrval.FromMap(mm)) }); p != nil {
				w.Violation("hof-map-panic:"+call, fmt.Sprintf("%s panics: %v", call, p), map[string]any{"stack": stack})
				return
			}
			if res == nil || !res.IsMap() {
				w.Violation("hof-map-type:"+call, fmt.Sprintf("%s did not return a map", call), nil)
				return
			}
			out, bad := mapToPairs(res.GetMap(), vIndex)
			if bad != "" {
				w.Violation("hof-map-perm:"+call, fmt.Sprintf("%s: %s", call, bad), nil)
				return
			}
			e.judgeMap(tag, call, in, out, k, true, true)
		}
		for _, fs := range dslFlags {
			fs := fs
			one("\""+fs.s+"\"", fmt.Sprintf("sort(%s,\"%s\")", lit, fs.s), fs.k, func(m *mlrval.Mlrval) *mlrval.Mlrval {
				return cst.SortHOF([]*mlrval.Mlrval{m, mlrval.FromString(fs.s)}, nil)
			})
			e.hit("map-key-flag:\"" + fs.s + "\"")
		}
		one("one-arg", fmt.Sprintf("sort(%s)", lit), kNumA, func(m *mlrval.Mlrval) *mlrval.Mlrval { return cst.SortHOF([]*mlrval.Mlrval{m}, nil) })
		e.hit("map-one-argument")
	}
	rec = func(depth int, used uint32) {
		runKeyMap()
		if depth == mkLen {
			return
		}
		for i, s := range MK {
			if used&(1<<uint(i)) != 0 {
				continue
			}
			keys = append(keys, s)
			rec(depth+1, used|1<<uint(i))
			keys = keys[:len(keys)-1]
		}
	}
	// breadth-first by length would be the canonical order; depth-first with a length cap visits the same set
	rec(0, 0)

	// ---- maps by value
	vLen := 4
	if !w.Quick() {
		vLen = 5
	}
	blocks(w, &idx, len(D), vLen, 256, "sort(map, v-flags)", func(list []int) {
		inp := make([]pair, len(list))
		for i, x := range list {
			inp[i] = pair{fmt.Sprintf("k%d", len(list)-i), D[x]} // keys in descending order, so that a by-key sort would be visible
		}
		lit := mapLit(inp)
		for fi, fs := range dslFlags {
			flags := "v" + fs.s
			if fi%2 == 1 {
				flags = fs.s + "v"
			}
			call := fmt.Sprintf("sort(%s,\"%s\")", lit, flags)
			mm := mlrval.NewMlrmap()
			for _, p := range inp {
				mm.PutReference(p.k, symToMlrval(p.v))
			}
			var res *mlrval.Mlrval
			if p, stack := vf.Try(func() { res = cst.SortHOF([]*mlrval.Mlrval{mlrval.FromMap(mm), mlrval.FromString(flags)}, nil) }); p != nil {
				w.Violation("hof-map-panic:"+call, fmt.Sprintf("%s panics: %v", call, p), map[string]any{"stack": stack})
				continue
			}
			if res == nil || !res.IsMap() {
				w.Violation("hof-map-type:"+call, fmt.Sprintf("%s did not return a map", call), nil)
				continue
			}
			out, bad := mapToPairs(res.GetMap(), dIndex)
			if bad != "" {
				w.Violation("hof-map-perm:"+call, fmt.Sprintf("%s: %s", call, bad), nil)
				continue
			}
			e.judgeMap("\""+flags+"\"", call, inp, out, fs.k, false, true)
			e.hit("map-value-flag:\"" + flags + "\"")
		}
		// sort_collection(map): sorted array of the values
		call := fmt.Sprintf("sort_collection(%s)", lit)
		mm := mlrval.NewMlrmap()
		vals := make([]sym, len(inp))
		for i, p := range inp {
			mm.PutReference(p.k, symToMlrval(p.v))
			vals[i] = p.v
		}
		var res *mlrval.Mlrval
		if p, _ := vf.Try(func() { res = bifs.BIF_sort_collection(mlrval.FromMap(mm)) }); p != nil || res == nil || !res.IsArray() {
			w.Violation("hof-array-type:"+call, fmt.Sprintf("%s did not return an array (panic=%v)", call, p), nil)
			return
		}
		out, bad := mlrvalsToSyms(res.GetArray(), dIndex)
		if bad != "" {
			w.Violation("hof-array-perm:"+call, fmt.Sprintf("%s: %s", call, bad), nil)
			return
		}
		e.judgeArray("sort_collection", call, vals, out, kNumA, true)
		e.hit("sort_collection(map)")
	})
	e.flush()
	if w.Shard == 0 {
		w.Sample(map[string]any{"worker": "hof", "call": `sort([1,"abc",true,"",0x1],"cr")`, "element_alphabet": symNames(D), "map_key_alphabet": symNames(MK), "max_len": maxLen})
	}
}

// ---------------------------------------------------------------- dsl: the same through `mlr -n put`

const dslPrelude = `subr p(str tag, r) { print "#".tag; if (is_array(r)) { for (e in r) { print typeof(e).":".e; } } else {print "!".typeof(r)} }
subr q(str tag, r) { print "#".tag; if (is_map(r)) { for (k,v in r) { print k."\t".typeof(v).":".v; } } else {print "!".typeof(r)} }
func fwd(a,b) { return a <=> b }
func bwd(a,b) { return b <=> a }
func bylen(a,b) { return strlen(string(a)) <=> strlen(string(b)) }
func kfwd(ak,av,bk,bv) { return ak <=> bk }
func kbwd(ak,av,bk,bv) { return bk <=> ak }
func vfwd(ak,av,bk,bv) { return av <=> bv }
func vbwd(ak,av,bk,bv) { return bv <=> av }
`

// parseSections splits the printed output into tag -> lines.
func parseSections(stdout string) (map[string][]string, []string) {
	secs := map[string][]string{}
	var order []string
	cur := ""
	for _, l := range strings.Split(strings.TrimSuffix(stdout, "\n"), "\n") {
		if strings.HasPrefix(l, "#") {
			cur = l[1:]
			secs[cur] = []string{}
			order = append(order, cur)
			continue
		}
		if cur != "" {
			secs[cur] = append(secs[cur], l)
		}
	}
	return secs, order
}

func parseElem(l string, index map[string]sym) (sym, bool) {
	i := strings.IndexByte(l, ':')
	if i < 0 {
		return sym{}, false
	}
	cl, ok := classOfTypeName(l[:i])
	if !ok {
		return sym{}, false
	}
	s, ok := index[symKey(cl, l[i+1:])]
	return s, ok
}

type dslCall struct {
	tag, expr string
	k         kind
	assert    bool
	byKey     bool
	lenOrder  bool // ordered by text length (bylen comparator)
}

func homogeneous(in []sym) (class, bool) {
	if len(in) == 0 {
		return cNum, true
	}
	c := in[0].cl
	for _, s := range in {
		if s.cl != c {
			return 0, false
		}
	}
	return c, c == cNum || c == cStr
}

func dslWorker(w *vf.Worker) {
	D := alphaD()
	MK := alphaMK()
	dIndex := symIndex(D)
	e := &dslEval{w: w, path: "dsl", keyOf: map[string]sym{}}
	for _, s := range MK {
		e.keyOf[s.text] = s
	}
	maxLen := 3
	if !w.Quick() {
		maxLen = 4
	}
	var idx uint64
	runProg := func(prog string, what string) (map[string][]string, bool) {
		r := vf.RunMlr([]string{"-n", "put", prog}, vf.MlrOpts{})
		if !r.OK() {
			w.Violation("dsl-exit:"+what, fmt.Sprintf("mlr -n put with sorts of %s fails: %s", what, r.String()), map[string]any{"program": prog})
			return nil, false
		}
		secs, _ := parseSections(r.Stdout)
		return secs, true
	}
	// ---- arrays
	blocks(w, &idx, len(D), maxLen, 4, "dsl sort(array)", func(list []int) {
		in := make([]sym, len(list))
		for i, x := range list {
			in[i] = D[x]
		}
		lit := seqText(in)
		var calls []dslCall
		for _, fs := range dslFlags {
			calls = append(calls, dslCall{tag: "f" + fs.s, expr: fmt.Sprintf("sort(a,\"%s\")", fs.s), k: fs.k, assert: true})
		}
		calls = append(calls, dslCall{tag: "one", expr: "sort(a)", k: kNumA, assert: true})
		calls = append(calls, dslCall{tag: "sc", expr: "sort_collection(a)", k: kNumA, assert: true})
		cl, homog := homogeneous(in)
		kf, kb := kNumA, kNumD
		if cl == cStr {
			kf, kb = kLexA, kLexD
		}
		calls = append(calls, dslCall{tag: "fwd", expr: "sort(a, fwd)", k: kf, assert: homog})
		calls = append(calls, dslCall{tag: "bwd", expr: "sort(a, bwd)", k: kb, assert: homog})
		calls = append(calls, dslCall{tag: "lit", expr: "sort(a, func(x,y) { return y <=> x })", k: kb, assert: homog})
		calls = append(calls, dslCall{tag: "bylen", expr: "sort(a, bylen)", lenOrder: true})
		judge := func(src string, secs map[string][]string) {
			for _, c := range calls {
				call := strings.Replace(c.expr, "a", src+lit, 1)
				if c.tag == "sc" {
					call = "sort_collection(" + src + lit + ")"
				}
				lines, present := secs[c.tag]
				if !present {
					w.Violation("dsl-array-missing:"+call, fmt.Sprintf("%s printed nothing", call), nil)
					continue
				}
				out := make([]sym, 0, len(lines))
				bad := ""
				for _, l := range lines {
					s, ok := parseElem(l, dIndex)
					if !ok {
						bad = l
						break
					}
					out = append(out, s)
				}
				if bad != "" {
					w.Violation("dsl-array-perm:"+call, fmt.Sprintf("%s returned an element %q that is not an input element (or not an array)", call, bad), map[string]any{"lines": lines})
					continue
				}
				e.hit("call:" + src + c.tag)
				if c.lenOrder {
					e.w.Eval(1)
					if !isPermutation(in, out) {
						w.Violation("dsl-array-perm:"+call, fmt.Sprintf("%s returned %s, not a permutation of its input", call, seqText(out)), nil)
						continue
					}
					for i := 1; i < len(out); i++ {
						if len(out[i-1].text) > len(out[i].text) {
							w.Violation("dsl-array-order:"+call, fmt.Sprintf("%s (comparator: text length ascending) returned %s", call, seqText(out)), nil)
							break
						}
					}
					continue
				}
				e.judgeArray(c.tag, call, in, out, c.k, c.assert)
			}
			// "sort does not modify its argument"
			var now []sym
			for _, l := range secs["arg"] {
				s, _ := parseElem(l, dIndex)
				now = append(now, s)
			}
			if seqText(now) != lit {
				w.Violation("dsl-array-mutated:"+src+lit, fmt.Sprintf("after the sort calls the argument %s reads %s", lit, seqText(now)), nil)
			}
		}
		var b strings.Builder
		b.WriteString(dslPrelude)
		b.WriteString("end {\n a = " + lit + ";\n")
		for _, c := range calls {
			fmt.Fprintf(&b, " call p(\"%s\", %s);\n", c.tag, c.expr)
		}
		b.WriteString(" call p(\"arg\", a);\n}\n")
		if secs, ok := runProg(b.String(), lit); ok {
			judge("", secs)
		}
		// the same array taken from record fields (values typed by inference from data; "true" from data is a string, so boolean-free arrays only)
		fromData := len(in) > 0
		for _, s := range in {
			fromData = fromData && s.cl != cBool
		}
		if fromData {
			var f []string
			for i, s := range in {
				f = append(f, fmt.Sprintf("f%d=%s", i, s.text))
			}
			rec := strings.Join(f, ",") + "\n"
			b.Reset()
			b.WriteString(dslPrelude)
			b.WriteString("a = get_values($*);\n")
			for _, c := range calls {
				fmt.Fprintf(&b, "call p(\"%s\", %s);\n", c.tag, c.expr)
			}
			b.WriteString("call p(\"arg\", a);\n")
			r := vf.RunMlr([]string{"put", "-q", b.String()}, vf.MlrOpts{Stdin: &rec})
			if !r.OK() {
				w.Violation("dsl-exit:get_values:"+lit, fmt.Sprintf("mlr put -q with sorts of get_values($*) on %q fails: %s", rec, r.String()), map[string]any{"program": b.String()})
			} else {
				secs, _ := parseSections(r.Stdout)
				judge("get_values($*)=", secs)
			}
		}
	})

	// ---- maps by key: injective key sequences
	mkLen := 3
	var keys []sym
	var rec func(depth int, used uint32)
	runKeyMap := func() {
		idx++
		if !w.Mine(idx) {
			return
		}
		w.Begin(idx)
		in := make([]pair, len(keys))
		vIndex := map[string]sym{}
		allStr := true
		for i, k := range keys {
			in[i] = pair{k.text, str(fmt.Sprintf("v%d", i))}
			vIndex[symKey(cStr, in[i].v.text)] = in[i].v
			_ = k
		}
		_ = allStr
		lit := mapLit(in)
		var calls []dslCall
		for _, fs := range dslFlags {
			calls = append(calls, dslCall{tag: "f" + fs.s, expr: fmt.Sprintf("sort(m,\"%s\")", fs.s), k: fs.k, assert: true, byKey: true})
		}
		calls = append(calls, dslCall{tag: "one", expr: "sort(m)", k: kNumA, assert: true, byKey: true})
		// the comparator function receives keys as strings: <=> on them is lexical
		calls = append(calls, dslCall{tag: "kfwd", expr: "sort(m, kfwd)", k: kLexA, assert: true, byKey: true})
		calls = append(calls, dslCall{tag: "kbwd", expr: "sort(m, kbwd)", k: kLexD, assert: true, byKey: true})
		var b strings.Builder
		b.WriteString(dslPrelude)
		b.WriteString("end {\n m = " + lit + ";\n")
		for _, c := range calls {
			fmt.Fprintf(&b, " call q(\"%s\", %s);\n", c.tag, c.expr)
		}
		b.WriteString("}\n")
		secs, ok := runProg(b.String(), lit)
		if !ok {
			return
		}
		for _, c := range calls {
			call := strings.Replace(c.expr, "m", lit, 1)
			out, bad := parsePairs(secs[c.tag], vIndex)
			if _, present := secs[c.tag]; !present || bad != "" {
				w.Violation("dsl-map-perm:"+call, fmt.Sprintf("%s: unreadable result (%s)", call, bad), map[string]any{"lines": secs[c.tag]})
				continue
			}
			e.hit("call:map-key:" + c.tag)
			e.judgeMap(c.tag, call, in, out, c.k, true, c.assert)
		}
	}
	rec = func(depth int, used uint32) {
		runKeyMap()
		if depth == mkLen {
			return
		}
		for i, s := range MK {
			if used&(1<<uint(i)) != 0 {
				continue
			}
			keys = append(keys, s)
			rec(depth+1, used|1<<uint(i))
			keys = keys[:len(keys)-1]
		}
	}
	rec(0, 0)

	// ---- maps by value
	blocks(w, &idx, len(D), maxLen, 4, "dsl sort(map, v)", func(list []int) {
		in := make([]pair, len(list))
		vals := make([]sym, len(list))
		for i, x := range list {
			in[i] = pair{fmt.Sprintf("k%d", len(list)-i), D[x]}
			vals[i] = D[x]
		}
		lit := mapLit(in)
		var calls []dslCall
		for fi, fs := range dslFlags {
			flags := "v" + fs.s
			if fi%2 == 1 {
				flags = fs.s + "v"
			}
			calls = append(calls, dslCall{tag: "f" + flags, expr: fmt.Sprintf("sort(m,\"%s\")", flags), k: fs.k, assert: true})
		}
		cl, homog := homogeneous(vals)
		kf, kb := kNumA, kNumD
		if cl == cStr {
			kf, kb = kLexA, kLexD
		}
		calls = append(calls, dslCall{tag: "vfwd", expr: "sort(m, vfwd)", k: kf, assert: homog})
		calls = append(calls, dslCall{tag: "vbwd", expr: "sort(m, vbwd)", k: kb, assert: homog})
		var b strings.Builder
		b.WriteString(dslPrelude)
		b.WriteString("end {\n m = " + lit + ";\n")
		for _, c := range calls {
			fmt.Fprintf(&b, " call q(\"%s\", %s);\n", c.tag, c.expr)
		}
		b.WriteString(" call p(\"sc\", sort_collection(m));\n}\n")
		secs, ok := runProg(b.String(), lit)
		if !ok {
			return
		}
		for _, c := range calls {
			call := strings.Replace(c.expr, "m", lit, 1)
			out, bad := parsePairs(secs[c.tag], dIndex)
			if _, present := secs[c.tag]; !present || bad != "" {
				w.Violation("dsl-map-perm:"+call, fmt.Sprintf("%s: unreadable result (%s)", call, bad), map[string]any{"lines": secs[c.tag]})
				continue
			}
			e.hit("call:map-value:" + c.tag)
			e.judgeMap(c.tag, call, in, out, c.k, false, c.assert)
		}
		var out []sym
		for _, l := range secs["sc"] {
			s, ok := parseElem(l, dIndex)
			if !ok {
				w.Violation("dsl-array-perm:sort_collection("+lit+")", fmt.Sprintf("sort_collection(%s) returned %q", lit, l), nil)
				return
			}
			out = append(out, s)
		}
		e.hit("call:sort_collection(map)")
		e.judgeArray("sort_collection", "sort_collection("+lit+")", vals, out, kNumA, true)
	})
	fracComparatorPass(w, e, &idx)
	e.flush()
	if w.Shard == 0 {
		w.Sample(map[string]any{"worker": "dsl", "program": dslPrelude + `end { a = [1,"abc",true,""]; call p("fcr", sort(a,"cr")); call p("bwd", sort(a, bwd)); ... }`, "max_len": maxLen})
	}
}

func parsePairs(lines []string, index map[string]sym) ([]pair, string) {
	var out []pair
	for _, l := range lines {
		i := strings.IndexByte(l, '\t')
		if i < 0 {
			return nil, l
		}
		s, ok := parseElem(l[i+1:], index)
		if !ok {
			return nil, l
		}
		out = append(out, pair{l[:i], s})
	}
	return out, ""
}

// ---------------------------------------------------------------- user comparators returning non-integers

// F: numbers only (the comparators subtract): floats 0.125 apart and ints. All
// exactly representable, so every difference and its half / hundredth has the
// exact sign.
func alphaF() []sym {
	return []sym{num("1", 1), num("1.125", 1.125), num("1.25", 1.25), num("0.5", 0.5), num("2", 2), num("-3", -3), num("10", 10), num("1.0", 1)}
}

const fracPrelude = `subr p(str tag, r) { print "#".tag; if (is_array(r)) { for (e in r) { print typeof(e).":".e; } } else {print "!".typeof(r)} }
subr q(str tag, r) { print "#".tag; if (is_map(r)) { for (k,v in r) { print k."\t".typeof(v).":".v; } } else {print "!".typeof(r)} }
func dsub(a,b) { return a - b }
func drev(a,b) { return b - a }
func dhalf(a,b) { return (a - b) * 0.5 }
func dcent(a,b) { return (a - b) / 100 }
func vsub(ak,av,bk,bv) { return av - bv }
func vrev(ak,av,bk,bv) { return bv - av }
func vhalf(ak,av,bk,bv) { return (av - bv) * 0.5 }
func vcent(ak,av,bk,bv) { return (av - bv) / 100 }
`

// fracComparatorPass: `mlr help function sort`: the function returns "< 0, 0,
// or > 0 as a < b, a == b, or a > b" - any number, not only -1/0/1. Every
// array / map-by-value over F with comparators whose results are fractions of
// magnitude below 1.
func fracComparatorPass(w *vf.Worker, e *dslEval, idx *uint64) {
	F := alphaF()
	fIndex := symIndex(F)
	maxLen := 4
	if !w.Quick() {
		maxLen = 5
	}
	arrayCalls := []dslCall{
		{tag: "dsub", expr: "sort(a, dsub)", k: kNumA, assert: true},
		{tag: "drev", expr: "sort(a, drev)", k: kNumD, assert: true},
		{tag: "dhalf", expr: "sort(a, dhalf)", k: kNumA, assert: true},
		{tag: "dcent", expr: "sort(a, dcent)", k: kNumA, assert: true},
		{tag: "dlit", expr: "sort(a, func(x,y) { return (y - x) * 0.25 })", k: kNumD, assert: true},
	}
	mapCalls := []dslCall{
		{tag: "vsub", expr: "sort(m, vsub)", k: kNumA, assert: true},
		{tag: "vrev", expr: "sort(m, vrev)", k: kNumD, assert: true},
		{tag: "vhalf", expr: "sort(m, vhalf)", k: kNumA, assert: true},
		{tag: "vcent", expr: "sort(m, vcent)", k: kNumA, assert: true},
		{tag: "vlit", expr: "sort(m, func(ak,av,bk,bv) { return (bv - av) / 8 })", k: kNumD, assert: true},
	}
	blocks(w, idx, len(F), maxLen, 4, "dsl sort with fractional comparators", func(list []int) {
		in := make([]sym, len(list))
		pairs := make([]pair, len(list))
		for i, x := range list {
			in[i] = F[x]
			pairs[i] = pair{fmt.Sprintf("k%d", len(list)-i), F[x]}
		}
		alit, mlit := seqText(in), mapLit(pairs)
		var b strings.Builder
		b.WriteString(fracPrelude)
		b.WriteString("end {\n a = " + alit + ";\n m = " + mlit + ";\n")
		for _, c := range arrayCalls {
			fmt.Fprintf(&b, " call p(\"%s\", %s);\n", c.tag, c.expr)
		}
		for _, c := range mapCalls {
			fmt.Fprintf(&b, " call q(\"%s\", %s);\n", c.tag, c.expr)
		}
		b.WriteString("}\n")
		r := vf.RunMlr([]string{"-n", "put", b.String()}, vf.MlrOpts{})
		if !r.OK() {
			w.Violation("dsl-exit:fractional-comparators:"+alit, fmt.Sprintf("mlr -n put with comparator-function sorts of %s fails: %s", alit, r.String()), map[string]any{"program": b.String()})
			return
		}
		secs, _ := parseSections(r.Stdout)
		for _, c := range arrayCalls {
			call := strings.Replace(c.expr, "a", alit, 1)
			lines, present := secs[c.tag]
			out := make([]sym, 0, len(lines))
			ok := present
			for _, l := range lines {
				s, good := parseElem(l, fIndex)
				ok = ok && good
				out = append(out, s)
			}
			if !ok {
				w.Violation("dsl-array-perm:"+call, fmt.Sprintf("%s: unreadable result %q", call, lines), nil)
				continue
			}
			e.hit("call:frac:" + c.tag)
			e.judgeArray(c.tag, call, in, out, c.k, true)
		}
		for _, c := range mapCalls {
			call := strings.Replace(c.expr, "m", mlit, 1)
			out, bad := parsePairs(secs[c.tag], fIndex)
			if _, present := secs[c.tag]; !present || bad != "" {
				w.Violation("dsl-map-perm:"+call, fmt.Sprintf("%s: unreadable result (%s)", call, bad), nil)
				continue
			}
			e.hit("call:frac:map-value:" + c.tag)
			e.judgeMap(c.tag, call, pairs, out, c.k, false, true)
		}
	})
}
